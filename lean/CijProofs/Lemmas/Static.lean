/- Helper lemmas for C18 (`CijModel/Static.lean`); no property statements here. -/
import CijModel.Static
import CijProofs.Lemmas.LeastSq
import CijProofs.Lemmas.FullModulus
import CijProofs.Lemmas.V2P
import CijProofs.Lemmas.VRH
import Mathlib.Data.List.GetD
import Mathlib.Tactic.Ring
import Mathlib.Tactic.Linarith
import Mathlib.Tactic.FieldSimp
import Mathlib.Tactic.NormNum
import Mathlib.Tactic.IntervalCases

namespace Cij.Static
open Cij Cij.LeastSq

/-! ### DataFrame columns -/
section table
variable {α : Type}

@[simp] theorem getCol_nil (name : String) : getCol ([] : Table α) name = none := rfl

theorem getCol_cons (c : String × List α) (r : Table α) (name : String) :
    getCol (c :: r) name = if c.1 = name then some c.2 else getCol r name := rfl

theorem getCol_setCol_self (t : Table α) (name : String) (col : List α) :
    getCol (setCol t name col) name = some col := by
  induction t with
  | nil => simp [setCol, getCol_cons]
  | cons c r ih =>
    unfold setCol
    by_cases h : c.1 = name
    · simp [h, getCol_cons]
    · simp [h, getCol_cons, ih]

theorem getCol_setCol_ne (t : Table α) (name other : String) (col : List α) (h : other ≠ name) :
    getCol (setCol t name col) other = getCol t other := by
  induction t with
  | nil => simp [setCol, getCol_cons, Ne.symm h]
  | cons c r ih =>
    unfold setCol
    by_cases hc : c.1 = name
    · simp only [hc, if_true, getCol_cons]
      rw [if_neg (Ne.symm h), if_neg (Ne.symm h)]
    · simp only [hc, if_false, getCol_cons, ih]

theorem getCol_mapCol_self (t : Table α) (name : String) (f : α → α) :
    getCol (mapCol t name f) name = (getCol t name).map (List.map f) := by
  induction t with
  | nil => rfl
  | cons c r ih =>
    simp only [mapCol, List.map_cons, getCol_cons] at ih ⊢
    by_cases hc : c.1 = name
    · simp [hc]
    · simp only [hc, if_false]; exact ih

theorem getCol_mapCol_ne (t : Table α) (name other : String) (f : α → α) (h : other ≠ name) :
    getCol (mapCol t name f) other = getCol t other := by
  induction t with
  | nil => rfl
  | cons c r ih =>
    simp only [mapCol, List.map_cons, getCol_cons] at ih ⊢
    by_cases hc : c.1 = name
    · have hne : ¬ c.1 = other := fun e => h (by rw [← e, hc])
      simp only [hc, if_true]
      rw [hc] at hne
      rw [if_neg hne, if_neg hne]
      exact ih
    · simp only [hc, if_false]
      by_cases ho : c.1 = other
      · simp [ho]
      · simp only [ho, if_false]; exact ih

/-- columns written by a fold of `setCol` do not touch a column with another name -/
theorem getCol_foldl_setCol_ne (cols : List (String × List α)) (t : Table α) (other : String)
    (h : ∀ c ∈ cols, other ≠ c.1) :
    getCol (cols.foldl (fun t c => setCol t c.1 c.2) t) other = getCol t other := by
  induction cols generalizing t with
  | nil => rfl
  | cons c r ih =>
    simp only [List.foldl_cons]
    rw [ih _ (fun c' hc' => h c' (List.mem_cons_of_mem _ hc'))]
    exact getCol_setCol_ne t c.1 other c.2 (h c List.mem_cons_self)

/-- the column written for a name that occurs once in the fold is the one that is read back -/
theorem getCol_foldl_setCol_mem (cols : List (String × List α)) (t : Table α) (c : String × List α)
    (hc : c ∈ cols) (hn : (cols.map (·.1)).Nodup) :
    getCol (cols.foldl (fun t c => setCol t c.1 c.2) t) c.1 = some c.2 := by
  induction cols generalizing t with
  | nil => cases hc
  | cons a r ih =>
    simp only [List.foldl_cons]
    simp only [List.map_cons, List.nodup_cons] at hn
    rcases List.mem_cons.mp hc with rfl | hr
    · rw [getCol_foldl_setCol_ne r _ c.1 (fun c' hc' e => hn.1 (e ▸ List.mem_map_of_mem hc'))]
      exact getCol_setCol_self t c.1 c.2
    · exact ih _ hr hn.2

theorem allSome_eq_some {β : Type} (l : List (Option β)) (r : List β) (h : allSome l = some r) :
    l = r.map some := by
  induction l generalizing r with
  | nil => simp only [allSome, Option.some.injEq] at h; subst h; rfl
  | cons a t ih =>
    cases a with
    | none => simp [allSome] at h
    | some x =>
      simp only [allSome, Option.map_eq_some_iff] at h
      obtain ⟨r', hr', rfl⟩ := h
      rw [ih r' hr']; rfl

end table

/-! ### names -/

/-- a name whose first character is `c` -/
def StartsWithC (s : String) : Prop := s.toList.head? = some 'c'

theorem startsWithC_append (x : String) : StartsWithC ("c" ++ x) := by
  unfold StartsWithC
  rw [String.toList_append]; rfl

theorem canonName_startsWithC (k : ElastDat.Key) (name : String) (h : ElastDat.canonName k = some name) :
    StartsWithC name := by
  cases k with
  | raw s => simp [ElastDat.canonName] at h
  | mod m =>
    simp only [ElastDat.canonName, Option.map_eq_some_iff] at h
    obtain ⟨⟨a, b⟩, _, rfl⟩ := h
    show StartsWithC ("c" ++ toString a ++ toString b)
    rw [String.append_assoc]
    exact startsWithC_append _

theorem cName_startsWithC (i j : Nat) : StartsWithC (cName i j) := by
  unfold cName
  rw [String.append_assoc]
  exact startsWithC_append _

/-- the fixed column names of the command -/
def fixedNames : List String :=
  ["V", "F", "P", "density", "bm_V", "bm_R", "bm_VRH", "G_V", "G_R", "G_VRH", "v_p", "v_s", "v_phi"]

theorem fixed_not_startsWithC : ∀ s ∈ fixedNames, ¬ StartsWithC s := by
  intro s hs
  simp only [fixedNames, List.mem_cons, List.not_mem_nil, or_false] at hs
  rcases hs with rfl | rfl | rfl | rfl | rfl | rfl | rfl | rfl | rfl | rfl | rfl | rfl | rfl <;>
    (unfold StartsWithC; decide)

theorem ne_of_startsWithC {s name : String} (hs : s ∈ fixedNames) (hn : StartsWithC name) : s ≠ name :=
  fun e => fixed_not_startsWithC s hs (e ▸ hn)


/-! ### the stages of `tableWith` -/
section stages

theorem tableWith_stages (fit : Fit ℝ) (E : Ext ℝ) (U : Units ℝ) (o : Options ℝ) (d1 : QhaInput.Data ℝ)
    (d2 : Option (ElastDat.ElastData ℝ)) (t : Table ℝ) (h : tableWith fit E U o d1 d2 = some t) :
    ∃ ve e x t1 t2 t3 t4, input01Columns d1 = some ve ∧ eos fit E o.vRatio o.ntv ve.1 ve.2 = some e ∧
      modeTable E U o ve.1 ve.2 e = some x ∧ addModuli fit E d2 x = some t1 ∧
      applyFill E o.system d2.isSome t1 = some t2 ∧ overrideDensity o.cellmass t2 = some t3 ∧
      addVrh E d2.isSome t3 = some t4 ∧ addVelocities E U d2.isSome (convertUnits U t4) = some t := by
  unfold tableWith at h
  simp only [bind, Option.bind_eq_some_iff] at h
  obtain ⟨ve, h1, e, h2, x, h3, t1, h4, t2, h5, t3, h6, t4, h7, h8⟩ := h
  exact ⟨ve, e, x, t1, t2, t3, t4, h1, h2, h3, h4, h5, h6, h7, h8⟩

/-- every column written by `moduliColumns` has a name that starts with `c` -/
theorem moduliColumns_names (fit : Fit ℝ) (E : Ext ℝ) (d : ElastDat.ElastData ℝ) (rowV : List ℝ)
    (cols : List (String × List ℝ)) (h : moduliColumns fit E d rowV = some cols) :
    ∀ c ∈ cols, StartsWithC c.1 := by
  unfold moduliColumns at h
  split at h
  · cases h
  · rename_i v0 _ _
    have hl := allSome_eq_some _ _ h
    intro c hc
    have : some c ∈ cols.map some := List.mem_map_of_mem hc
    rw [← hl] at this
    obtain ⟨kv, _, hkv⟩ := List.mem_map.mp this
    split at hkv
    · rename_i name vals hname _
      simp only [Option.map_eq_some_iff] at hkv
      obtain ⟨col, _, rfl⟩ := hkv
      exact canonName_startsWithC _ _ hname
    · cases hkv

/-- `V`, `F`, `P` pass through the block that adds density and the moduli -/
theorem addModuli_keeps (fit : Fit ℝ) (E : Ext ℝ) (d2 : Option (ElastDat.ElastData ℝ)) (x : VFP ℝ) (t1 : Table ℝ)
    (h : addModuli fit E d2 x = some t1) (name : String) (hn : name ∈ ["V", "F", "P"]) :
    getCol t1 name = getCol x.table name := by
  have hfix : name ∈ fixedNames := by
    simp only [List.mem_cons, List.not_mem_nil, or_false] at hn
    rcases hn with rfl | rfl | rfl <;> decide
  have hd : name ≠ "density" := by
    simp only [List.mem_cons, List.not_mem_nil, or_false] at hn
    rcases hn with rfl | rfl | rfl <;> decide
  unfold addModuli at h
  cases d2 with
  | none => simp only [Option.some.injEq] at h; rw [← h]
  | some d =>
    simp only [bind, Option.bind_eq_some_iff, pure, Option.some.injEq] at h
    obtain ⟨cols, hc, rfl⟩ := h
    rw [getCol_foldl_setCol_ne cols _ name
      (fun c hc' => ne_of_startsWithC hfix (moduliColumns_names fit E d x.v cols hc c hc'))]
    exact getCol_setCol_ne _ _ _ _ hd

/-- the contract of `fill_cij` that run-static relies on: the non-modulus columns are returned unchanged
    (/repo 8c26f17: "fill_cij drops only vanishing elastic tensor components, never other columns") -/
def FillKeeps (E : Ext ℝ) : Prop :=
  ∀ s t t', E.fill s t = some t' → ∀ name ∈ ["V", "F", "P", "density"], getCol t' name = getCol t name

theorem applyFill_keeps (E : Ext ℝ) (hf : FillKeeps E) (system : Option String) (w : Bool) (t t' : Table ℝ)
    (h : applyFill E system w t = some t') (name : String) (hn : name ∈ ["V", "F", "P", "density"]) :
    getCol t' name = getCol t name := by
  unfold applyFill at h
  cases system with
  | none => simp only [Option.some.injEq] at h; rw [h]
  | some s =>
    simp only at h
    split_ifs at h
    · exact hf s t t' h name hn
    · simp only [Option.some.injEq] at h; rw [h]

theorem overrideDensity_keeps (cellmass : Option ℝ) (t t' : Table ℝ) (h : overrideDensity cellmass t = some t')
    (name : String) (hn : name ≠ "density") : getCol t' name = getCol t name := by
  unfold overrideDensity at h
  split at h
  · simp only [Option.some.injEq] at h; rw [h]
  · simp only [Option.map_eq_some_iff] at h
    obtain ⟨v, _, rfl⟩ := h
    exact getCol_setCol_ne _ _ _ _ hn

theorem vrhColumns_names (cs ss : List (List (List ℝ))) :
    (vrhColumns cs ss).map (·.1) = ["bm_V", "bm_R", "bm_VRH", "G_V", "G_R", "G_VRH"] := rfl

theorem addVrh_keeps (E : Ext ℝ) (w : Bool) (t t' : Table ℝ) (h : addVrh E w t = some t') (name : String)
    (hn : name ∉ ["bm_V", "bm_R", "bm_VRH", "G_V", "G_R", "G_VRH"]) : getCol t' name = getCol t name := by
  unfold addVrh at h
  split_ifs at h
  · simp only [Option.some.injEq] at h; rw [h]
  · simp only [Option.map_eq_some_iff] at h
    obtain ⟨ss, _, rfl⟩ := h
    apply getCol_foldl_setCol_ne
    intro c hc e
    apply hn
    rw [← vrhColumns_names ((List.range (nRows t)).map (cMat t)) ss, e]
    exact List.mem_map_of_mem hc

theorem addVelocities_keeps (E : Ext ℝ) (U : Units ℝ) (w : Bool) (t t' : Table ℝ)
    (h : addVelocities E U w t = some t') (name : String) (hn : name ∉ ["v_p", "v_s", "v_phi"]) :
    getCol t' name = getCol t name := by
  simp only [List.mem_cons, List.not_mem_nil, or_false, not_or] at hn
  unfold addVelocities at h
  split_ifs at h
  · simp only [Option.some.injEq] at h; rw [h]
  · split at h
    · simp only [Option.some.injEq] at h
      rw [← h, getCol_setCol_ne _ _ _ _ hn.2.2, getCol_setCol_ne _ _ _ _ hn.2.1, getCol_setCol_ne _ _ _ _ hn.1]
    · cases h

theorem hasCol_mapCol (t : Table ℝ) (name other : String) (f : ℝ → ℝ) :
    hasCol (mapCol t name f) other = hasCol t other := by
  unfold hasCol
  by_cases h : other = name
  · subst h; rw [getCol_mapCol_self]; cases getCol t other <;> rfl
  · rw [getCol_mapCol_ne _ _ _ _ h]

/-- what the unit-conversion block does to each of the four columns -/
theorem convertUnits_V (U : Units ℝ) (t : Table ℝ) :
    getCol (convertUnits U t) "V" = (getCol t "V").map (List.map (· * U.toAng3)) := by
  unfold convertUnits
  simp only
  split_ifs
  · rw [getCol_mapCol_ne _ _ _ _ (by decide), getCol_mapCol_ne _ _ _ _ (by decide),
      getCol_mapCol_ne _ _ _ _ (by decide), getCol_mapCol_self]
  · rw [getCol_mapCol_ne _ _ _ _ (by decide), getCol_mapCol_ne _ _ _ _ (by decide), getCol_mapCol_self]

theorem convertUnits_F (U : Units ℝ) (t : Table ℝ) :
    getCol (convertUnits U t) "F" = (getCol t "F").map (List.map (· * U.toEv)) := by
  unfold convertUnits
  simp only
  split_ifs
  · rw [getCol_mapCol_ne _ _ _ _ (by decide), getCol_mapCol_ne _ _ _ _ (by decide), getCol_mapCol_self,
      getCol_mapCol_ne _ _ _ _ (by decide)]
  · rw [getCol_mapCol_ne _ _ _ _ (by decide), getCol_mapCol_self, getCol_mapCol_ne _ _ _ _ (by decide)]

theorem convertUnits_P (U : Units ℝ) (t : Table ℝ) :
    getCol (convertUnits U t) "P" = (getCol t "P").map (List.map (· * U.toGpa)) := by
  unfold convertUnits
  simp only
  split_ifs
  · rw [getCol_mapCol_ne _ _ _ _ (by decide), getCol_mapCol_self, getCol_mapCol_ne _ _ _ _ (by decide),
      getCol_mapCol_ne _ _ _ _ (by decide)]
  · rw [getCol_mapCol_self, getCol_mapCol_ne _ _ _ _ (by decide), getCol_mapCol_ne _ _ _ _ (by decide)]

theorem convertUnits_density (U : Units ℝ) (t : Table ℝ) :
    getCol (convertUnits U t) "density" = (getCol t "density").map (List.map (· * U.toGcm3)) := by
  unfold convertUnits
  simp only
  split_ifs with hd
  · rw [getCol_mapCol_self, getCol_mapCol_ne _ _ _ _ (by decide), getCol_mapCol_ne _ _ _ _ (by decide),
      getCol_mapCol_ne _ _ _ _ (by decide)]
  · rw [hasCol_mapCol, hasCol_mapCol, hasCol_mapCol] at hd
    rw [getCol_mapCol_ne _ _ _ _ (by decide), getCol_mapCol_ne _ _ _ _ (by decide),
      getCol_mapCol_ne _ _ _ _ (by decide)]
    unfold hasCol at hd
    cases hg : getCol t "density" with
    | none => rfl
    | some c => rw [hg] at hd; simp at hd

/-- other columns (the moduli and the averages: already GPa) are not converted -/
theorem convertUnits_other (U : Units ℝ) (t : Table ℝ) (name : String)
    (hn : name ∉ ["V", "F", "P", "density"]) : getCol (convertUnits U t) name = getCol t name := by
  simp only [List.mem_cons, List.not_mem_nil, or_false, not_or] at hn
  unfold convertUnits
  simp only
  split_ifs
  · rw [getCol_mapCol_ne _ _ _ _ hn.2.2.2, getCol_mapCol_ne _ _ _ _ hn.2.2.1, getCol_mapCol_ne _ _ _ _ hn.2.1,
      getCol_mapCol_ne _ _ _ _ hn.1]
  · rw [getCol_mapCol_ne _ _ _ _ hn.2.2.1, getCol_mapCol_ne _ _ _ _ hn.2.1, getCol_mapCol_ne _ _ _ _ hn.1]

end stages

/-! ### grids, fits, gradients -/
section numerics


/-- entries of `numpy.linspace` -/
theorem linspace_getD (a b : ℝ) (num j : Nat) (hn : 2 ≤ num) (hj : j < num) :
    (linspace a b num).getD j 0 = a + (j : ℝ) * ((b - a) / ((num - 1 : Nat) : ℝ)) := by
  unfold linspace
  rw [if_neg (by omega)]
  simp only
  rw [List.getD_eq_getElem _ _ (by simpa using hj)]
  simp only [List.getElem_map, List.getElem_range]
  split_ifs with hlast
  · have hj' : j = num - 1 := by omega
    have hne : ((num - 1 : Nat) : ℝ) ≠ 0 := by
      have : 0 < num - 1 := by omega
      exact_mod_cast this.ne'
    subst hj'
    field_simp
    ring
  · ring

theorem linspace_length (a b : ℝ) (num : Nat) : (linspace a b num).length = num := by
  unfold linspace
  split_ifs with h
  · simp [h]
  · simp

/-- the requested pressures are exactly `P_MIN + j·DELTA_P` (converted), `j = 0 … ntv−1` -/
theorem requestedPressures_getD (U : Units ℝ) (o : Options ℝ) (j : Nat) (hn : 2 ≤ o.ntv) (hj : j < o.ntv) :
    (requestedPressures U o).getD j 0 = (o.pMin + (j : ℝ) * o.deltaP) * U.fromGpa := by
  unfold requestedPressures
  rw [linspace_getD _ _ _ _ hn hj]
  have hne : ((o.ntv - 1 : Nat) : ℝ) ≠ 0 := by
    have : 0 < o.ntv - 1 := by omega
    exact_mod_cast this.ne'
  field_simp
  ring



theorem fitModulus_spec (E : Ext ℝ) (volumes vArray moduli col : List ℝ) (order : Nat)
    (h : fitModulus polynomialLeastSquareFitting E volumes vArray moduli order = some col) :
    ∃ v0 p, volumes.head? = some v0 ∧ polyfit (volumes.map (E.strain v0)) moduli order = some p ∧
      col = vArray.map fun v => polyval p (E.strain v0 v) := by
  unfold fitModulus at h
  cases volumes with
  | nil => cases h
  | cons v0 r =>
    simp only [polynomialLeastSquareFitting, Option.map_eq_some_iff] at h
    obtain ⟨p, hp, rfl⟩ := h
    exact ⟨v0, p, rfl, hp, by rw [List.map_map]; rfl⟩

theorem getD_zipWith (f : ℝ → ℝ → ℝ) (a b : List ℝ) (i : Nat) (ha : i < a.length) (hb : i < b.length) :
    (List.zipWith f a b).getD i 0 = f (a.getD i 0) (b.getD i 0) := by
  rw [List.getD_eq_getElem _ _ (by simp [ha, hb]), List.getD_eq_getElem _ _ ha, List.getD_eq_getElem _ _ hb]
  simp

theorem gradient_length (y g : List ℝ) (h : FullModulus.gradient y = some g) : g.length = y.length ∧ 2 ≤ y.length := by
  unfold FullModulus.gradient at h
  simp only at h
  split_ifs at h with hn
  simp only [Option.some.injEq] at h
  subst h
  simp; omega

theorem gradient_interior (y g : List ℝ) (h : FullModulus.gradient y = some g) (i : Nat) (h0 : 0 < i)
    (h1 : i + 1 < y.length) : g.getD i 0 = (y.getD (i + 1) 0 - y.getD (i - 1) 0) / 2 := by
  unfold FullModulus.gradient at h
  simp only at h
  split_ifs at h with hn
  simp only [Option.some.injEq] at h
  subst h
  rw [List.getD_eq_getElem _ _ (by simp; omega)]
  simp only [List.getElem_map, List.getElem_range]
  rw [if_neg (by omega), if_neg (by omega)]
  simp only [FullModulus.nth]
  norm_num

theorem gradient_first (y g : List ℝ) (h : FullModulus.gradient y = some g) :
    g.getD 0 0 = y.getD 1 0 - y.getD 0 0 := by
  unfold FullModulus.gradient at h
  simp only at h
  split_ifs at h with hn
  simp only [Option.some.injEq] at h
  subst h
  rw [List.getD_eq_getElem _ _ (by simp; omega)]
  simp [FullModulus.nth]

theorem gradient_last (y g : List ℝ) (h : FullModulus.gradient y = some g) :
    g.getD (y.length - 1) 0 = y.getD (y.length - 1) 0 - y.getD (y.length - 2) 0 := by
  unfold FullModulus.gradient at h
  simp only at h
  split_ifs at h with hn
  simp only [Option.some.injEq] at h
  subst h
  rw [List.getD_eq_getElem _ _ (by simp; omega)]
  simp only [List.getElem_map, List.getElem_range, FullModulus.nth]
  split_ifs with h0
  · have : y.length = 1 := by omega
    omega
  · rfl



theorem eos_spec (fit : Fit ℝ) (E : Ext ℝ) (vRatio : ℝ) (ntv : Nat) (volumes energies : List ℝ) (e : Eos ℝ)
    (h : eos fit E vRatio ntv volumes energies = some e) :
    ∃ lo hi gf gv, V2P.listMin volumes = some lo ∧ V2P.listMax volumes = some hi ∧
      e.vArray = linspace (lo / vRatio) (hi * vRatio) ntv ∧
      fitModulus fit E volumes e.vArray energies = some e.fArray ∧
      FullModulus.gradient e.fArray = some gf ∧ FullModulus.gradient e.vArray = some gv ∧
      e.pArray = List.zipWith (fun a b => -a / b) gf gv := by
  unfold eos at h
  simp only [bind, Option.bind_eq_some_iff, pure, Option.some.injEq] at h
  obtain ⟨lo, hlo, hi, hhi, fA, hf, gf, hgf, gv, hgv, rfl⟩ := h
  exact ⟨lo, hi, gf, gv, hlo, hhi, rfl, hf, hgf, hgv, rfl⟩


end numerics

/-! ### moduli, VRH block, velocities -/
section blocks


/-- what each modulus column is -/
theorem moduliColumns_spec (fit : Fit ℝ) (E : Ext ℝ) (d : ElastDat.ElastData ℝ) (rowV : List ℝ)
    (cols : List (String × List ℝ)) (h : moduliColumns fit E d rowV = some cols) :
    ∃ v0, d.volumes.head? = some v0 ∧ cols.length = v0.moduli.length ∧
      ∀ c ∈ cols, ∃ kv ∈ v0.moduli, ∃ vals, ElastDat.canonName kv.1 = some c.1 ∧ keyValues d kv.1 = some vals ∧
        fitModulus fit E (d.volumes.map (·.volume)) rowV vals = some c.2 := by
  unfold moduliColumns at h
  split at h
  · cases h
  · rename_i v0 rest heq
    have hl := allSome_eq_some _ _ h
    refine ⟨v0, by rw [heq]; rfl, ?_, ?_⟩
    · have := congrArg List.length hl
      simpa using this.symm
    · intro c hc
      have : some c ∈ cols.map some := List.mem_map_of_mem hc
      rw [← hl] at this
      obtain ⟨kv, hkv, hc'⟩ := List.mem_map.mp this
      split at hc'
      · rename_i name vals hname hvals
        simp only [Option.map_eq_some_iff] at hc'
        obtain ⟨col, hcol, rfl⟩ := hc'
        exact ⟨kv, hkv, vals, hname, hvals, hcol⟩
      · cases hc'

theorem at6_cMat (t : Table ℝ) (r i j : Nat) (hi : 1 ≤ i ∧ i ≤ 6) (hj : 1 ≤ j ∧ j ≤ 6) :
    at6 (cMat t r) i j = cEntry t r i j := by
  obtain ⟨hi1, hi2⟩ := hi
  obtain ⟨hj1, hj2⟩ := hj
  interval_cases i <;> interval_cases j <;> rfl

theorem cName_comm (i j : Nat) : cName i j = cName j i := by
  unfold cName
  rw [Nat.min_comm, Nat.max_comm]

theorem cEntry_symm (t : Table ℝ) (r i j : Nat) : cEntry t r i j = cEntry t r j i := by
  unfold cEntry
  rw [cName_comm]

theorem vrhColumns_nodup (cs ss : List (List (List ℝ))) : ((vrhColumns cs ss).map (·.1)).Nodup := by
  rw [vrhColumns_names]; decide

/-- the six averages written by the VRH block, from the columns of the table handed to it -/
theorem addVrh_spec (E : Ext ℝ) (t t' : Table ℝ) (h : addVrh E true t = some t') :
    ∃ ss, E.inv6 ((List.range (nRows t)).map (cMat t)) = some ss ∧
      getCol t' "bm_V" = some (((List.range (nRows t)).map (cMat t)).map fun c => bmV (at6 c)) ∧
      getCol t' "bm_R" = some (ss.map fun s => bmR (at6 s)) ∧
      getCol t' "bm_VRH" = some (List.zipWith vrh (((List.range (nRows t)).map (cMat t)).map fun c => bmV (at6 c))
                                  (ss.map fun s => bmR (at6 s))) ∧
      getCol t' "G_V" = some (((List.range (nRows t)).map (cMat t)).map fun c => gV (at6 c)) ∧
      getCol t' "G_R" = some (ss.map fun s => gR (at6 s)) ∧
      getCol t' "G_VRH" = some (List.zipWith vrh (((List.range (nRows t)).map (cMat t)).map fun c => gV (at6 c))
                                  (ss.map fun s => gR (at6 s))) := by
  unfold addVrh at h
  simp only [Bool.not_true, Bool.false_eq_true, if_false, Option.map_eq_some_iff] at h
  obtain ⟨ss, hs, rfl⟩ := h
  refine ⟨ss, hs, ?_⟩
  simp only [vrhColumns, List.foldl_cons, List.foldl_nil]
  refine ⟨?_, ?_, ?_, ?_, ?_, ?_⟩
  · rw [getCol_setCol_ne _ _ _ _ (by decide), getCol_setCol_ne _ _ _ _ (by decide), getCol_setCol_ne _ _ _ _ (by decide),
      getCol_setCol_ne _ _ _ _ (by decide), getCol_setCol_ne _ _ _ _ (by decide), getCol_setCol_self]
  · rw [getCol_setCol_ne _ _ _ _ (by decide), getCol_setCol_ne _ _ _ _ (by decide), getCol_setCol_ne _ _ _ _ (by decide),
      getCol_setCol_ne _ _ _ _ (by decide), getCol_setCol_self]
  · rw [getCol_setCol_ne _ _ _ _ (by decide), getCol_setCol_ne _ _ _ _ (by decide), getCol_setCol_ne _ _ _ _ (by decide),
      getCol_setCol_self]
  · rw [getCol_setCol_ne _ _ _ _ (by decide), getCol_setCol_ne _ _ _ _ (by decide), getCol_setCol_self]
  · rw [getCol_setCol_ne _ _ _ _ (by decide), getCol_setCol_self]
  · rw [getCol_setCol_self]

theorem addVelocities_spec (E : Ext ℝ) (U : Units ℝ) (t t' : Table ℝ) (h : addVelocities E U true t = some t') :
    ∃ k g rho, getCol t "bm_VRH" = some k ∧ getCol t "G_VRH" = some g ∧ getCol t "density" = some rho ∧
      getCol t' "v_p" = some (zip3 (vP E U) k g rho) ∧ getCol t' "v_s" = some (List.zipWith (vS E U) g rho) ∧
      getCol t' "v_phi" = some (List.zipWith (vPhi E U) k rho) := by
  unfold addVelocities at h
  simp only [Bool.not_true, Bool.false_eq_true, if_false] at h
  split at h
  · rename_i k g rho hk hg hr
    simp only [Option.some.injEq] at h
    subst h
    refine ⟨k, g, rho, hk, hg, hr, ?_, ?_, ?_⟩
    · rw [getCol_setCol_ne _ _ _ _ (by decide), getCol_setCol_ne _ _ _ _ (by decide), getCol_setCol_self]
    · rw [getCol_setCol_ne _ _ _ _ (by decide), getCol_setCol_self]
    · rw [getCol_setCol_self]
  · cases h


end blocks


/-! ### the model of `fill_cij` keeps the non-modulus columns -/


section fillmodel
variable {α : Type}

theorem getCol_map_same_names (t : Table α) (g : String × List α → String × List α) (name : String)
    (hg1 : ∀ c, (g c).1 = c.1) (hg2 : ∀ c, c.1 = name → g c = c) :
    getCol (t.map g) name = getCol t name := by
  induction t with
  | nil => rfl
  | cons c r ih =>
    simp only [List.map_cons, getCol_cons, hg1]
    by_cases h : c.1 = name
    · simp [h, hg2 c h]
    · simp [h, ih]

theorem getCol_append_of_ne (t : Table α) (c : String × List α) (name : String) (h : c.1 ≠ name) :
    getCol (t ++ [c]) name = getCol t name := by
  induction t with
  | nil => simp [getCol_cons, h]
  | cons a r ih => simp only [List.cons_append, getCol_cons, ih]

theorem getCol_filter (t : Table α) (p : String × List α → Bool) (name : String)
    (h : ∀ c ∈ t, c.1 = name → p c = true) : getCol (t.filter p) name = getCol t name := by
  induction t with
  | nil => rfl
  | cons c r ih =>
    have ih' := ih (fun c' hc' => h c' (List.mem_cons_of_mem _ hc'))
    by_cases hp : p c = true
    · rw [List.filter_cons_of_pos hp]
      simp only [getCol_cons, ih']
    · rw [List.filter_cons_of_neg hp, ih']
      have : c.1 ≠ name := fun e => hp (h c List.mem_cons_self e)
      simp [getCol_cons, this]

theorem writeBack_keeps (t : Table α) (sym : String) (col : List α) (name : String)
    (h1 : name.toLower ≠ sym) (h2 : name ≠ sym) :
    getCol (Fill.writeBack t sym col) name = getCol t name := by
  unfold Fill.writeBack
  split
  · rename_i hit hf
    have hhit : (hit.1.toLower == sym) = true := by
      have := List.find?_some hf
      simpa using this
    apply getCol_map_same_names
    · intro c; split_ifs <;> rfl
    · intro c hc
      have : ¬ (c.1 == hit.1) = true := by
        intro e
        have e' : c.1 = hit.1 := by simpa using e
        apply h1
        rw [← hc, e']
        simpa using hhit
      simp [this]
  · exact getCol_append_of_ne t _ name (fun e => h2 e.symm)

end fillmodel


/-- a column name that the model of `fill_cij` never touches: neither it nor its lower-case form is one of the 21
    symbols, and it does not look like `c<digit><digit>` -/
structure Untouched (name : String) : Prop where
  lower : name.toLower ∉ Fill.symbolNames
  plain : name ∉ Fill.symbolNames
  noCdd : Fill.matchesCdd name.toLower.toList = false

theorem writeAll_keeps (t : Table ℝ) (xs : List (List ℝ)) (name : String) (h : Untouched name) :
    getCol (Fill.writeAll t xs) name = getCol t name := by
  unfold Fill.writeAll
  have key : ∀ (l : List (Nat × String)) (t : Table ℝ), (∀ p ∈ l, p.2 ∈ Fill.symbolNames) →
      getCol (l.foldl (fun acc p => Fill.writeBack acc p.2 (xs.map fun x => x.getD p.1 0)) t) name = getCol t name := by
    intro l
    induction l with
    | nil => intro t _; rfl
    | cons p r ih =>
      intro t hl
      simp only [List.foldl_cons]
      rw [ih _ (fun q hq => hl q (List.mem_cons_of_mem _ hq))]
      have hp := hl p List.mem_cons_self
      exact writeBack_keeps t p.2 _ name (fun e => h.lower (e ▸ hp)) (fun e => h.plain (e ▸ hp))
  apply key
  intro p hp
  exact (List.of_mem_zip hp).2

theorem finish_keeps (P : Fill.Params ℝ) (t : Table ℝ) (xs : List (List ℝ)) (name : String) (h : Untouched name) :
    getCol (Fill.finish P t xs) name = getCol t name := by
  unfold Fill.finish
  rw [getCol_filter _ _ name, writeAll_keeps t xs name h]
  intro c _ hc
  rw [hc, h.noCdd]
  rfl

/-- the model of `fill_cij` (CijModel/Fill.lean, C08/C09) returns every untouched column unchanged -/
theorem fill_model_keeps (env : Fill.Env) (system : Option String) (P : Fill.Params ℝ) (t t' : Table ℝ)
    (h : Fill.fill env system P t = .ok t') (name : String) (hn : Untouched name) :
    getCol t' name = getCol t name := by
  unfold Fill.fill at h
  cases system with
  | none => simp only at h; cases h; rfl
  | some sys =>
    simp only at h
    split at h
    · cases h
    · split at h
      · cases h
      · rename_i rel _
        unfold Fill.fillWith at h
        split_ifs at h
        simp only at h
        split at h
        · cases h
        · split at h
          · cases h
          · have e := Except.ok.inj h
            rw [← e]
            exact finish_keeps P t _ name hn

theorem untouched_fixed : Untouched "V" ∧ Untouched "F" ∧ Untouched "P" ∧ Untouched "density" := by
  refine ⟨⟨?_, ?_, ?_⟩, ⟨?_, ?_, ?_⟩, ⟨?_, ?_, ?_⟩, ⟨?_, ?_, ?_⟩⟩ <;> decide +kernel


end Cij.Static
