/-
  C11 — every interpolation method returns a consistent (ω, γ, V∂γ/∂V) triple.

  All statements are about `CijModel/Interp.lean` (the model of `cij/core/mode_gamma.py`, of the wiring line in
  `calculator.py` and of `ModePlotter.plot_modes`), the same definitions the correspondence run executes.

  * `triple_consistent`            any interpolant `s` with derivative `s'`, `s''` (the library contract): the three returned
                                   arrays are ω = exp(s(ln V)), γ = −dlnω/dlnV, V∂γ/∂V of that ONE ω.
  * `polyder_is_derivative`        numpy.polyder/polyval on coefficient lists vs `HasDerivAt`.
  * `poly_methods_consistent`      lsq_poly / lagrange / krogh: the contract holds unconditionally (for all data).
  * `lsq_minimises`, `lsq_exact`   the normal-equation solution is the least-squares polynomial, and it IS the generating
                                   polynomial when ln ω is a polynomial of degree ≤ order on ≥ order+1 distinct volumes.
  * `elimination_total`, `lsq_total`, `lsq_exact_kernel`, `lsq_poly_law_exact`
                                   the Gaussian elimination of the model (first non-zero pivot) answers on every non-singular
                                   system and its answer solves it; the normal equations of ≥ order+1 distinct volumes are
                                   non-singular, so `lstsqPolyfit` ALWAYS answers there (any data) and returns the generating
                                   polynomial on polynomial data — no assumption on the solver is left.
  * `interp_poly_is_the_interpolant`, `interp_poly_exact`   lagrange/krogh kernel = THE interpolating polynomial.
  * `power_law_exact_*`            power-law data are reproduced exactly at every V > 0 (whole extrapolated grid).
  * `modes_not_mixed`, `gamma_acoustic_zero`                index discipline of the double loop.
  * `plot_select`, `plot_modes_draws_select`   n = 0, 1, 2 draw ω, γ, V∂γ/∂V (true of the code since /repo 17c4262, which repaired
                                   the n = 1 / n = 2 swap this check had found; `plot_select_not_swapped` states the repaired defect).
  * `hermite_raises`               the `hermite` method cannot return (negative result).
  * `ppoly_*`, `pchip_*`, `power_law_exact_ppoly*`   pchip / akima: scipy's PchipInterpolator / Akima1DInterpolator are MODELLED (`CijModel/PPoly.lean`:
                                   slope rules, Hermite pieces in PPoly's power basis, piece location with extrapolation) — the interpolant takes the node
                                   values; `nu=1` is the derivative of `nu=0` everywhere (C¹, node slope from both sides), `nu=2` of `nu=1` off the interior
                                   nodes; hence `triple_consistent`'s conclusion for the returned triple with NO contract assumption
                                   (`ppoly_mode_consistent`); PCHIP slope sign/size (0 at a sign change, else common sign and ≤ 3·min|secant|; ends too) and
                                   the Fritsch–Carlson consequence (monotone data ⇒ monotone interpolant on the node range); power laws reproduced exactly.
  * `mode_glue_is_source`          the triple pattern `(exp s, −s', −s'')` and the node preparation (thin / flip) of the model are the ones
                                   the translator extracts from `mode_gamma.py` on this run (Generated/ModeGammaSpec.lean).

  * `mode_glue_src_*`              EVERY function of `mode_gamma.py` is re-translated on each run as statement lists / expression trees
                                   (`tools/gens/modegamma_src.py` → `Generated/ModeGammaGlue.lean`; locals α-renamed) and interpreted by
                                   `CijModel/ModeGammaGlue.lean` (Python values, numpy/scipy calls by NAME, the libraries as parameters): the model's
                                   `interpolateModeF` for every method and `interpolateModesF` for the double loop ARE that interpretation — all
                                   inputs, any scalar with ANY `ExpLog` pair (no law, no base), any kernels; the inventory is complete.
                                   Round 5: the model raises what the source raises on malformed inputs (`…F` definitions of
                                   `CijModel/Interp.lean`: no volume → `ValueError` of `[::0]` for the thinning methods; a volume block without
                                   q-point j / mode k → `IndexError` at the first missing read in loop order), so the mode and loop theorems carry
                                   NO hypothesis on the input any more (`mode_glue_src_lagrange_krogh`, `…_ppoly`, `…_loop`,
                                   `…_one_fit_per_mode`); `mode_glue_src_wellformed`: on well-formed inputs `interpolateModesF` is the
                                   `interpolateModes` of the other theorems (and of C12 / C13).  The one hypothesis left — the kernel returns one
                                   sample per evaluation point — is proved for every modelled kernel (`mode_glue_src_kernels`) and remains for the
                                   FITPACK spline only (`mode_glue_src_loop_std`).

  PARTIAL (see the comments at the theorems): FITPACK (`spline`) internals are a parameter (contract measured by the harness).
  Rank-deficient least squares (fewer than order+1 distinct volumes; numpy: minimum-norm solution) is outside the model.
-/
import CijProofs.Lemmas.Interp
import CijProofs.Lemmas.ModeGammaSource
import CijProofs.Lemmas.SolveTotal
import CijProofs.Lemmas.PPoly
import CijProofs.Lemmas.PPolySource
import CijProofs.Lemmas.ModeGammaGlueSource
import Mathlib.Analysis.SpecialFunctions.Log.Deriv
import Mathlib.Analysis.SpecialFunctions.Pow.Real
import Mathlib.Analysis.Calculus.Deriv.Polynomial
import CijProofs.Lemmas.PlotModesSource

namespace Cij.C11

open Cij.Interp Polynomial

/-! #### the contract: one interpolant, three arrays -/

/-- For ANY log–log interpolant `s` with derivative `s'` and second derivative `s''` (this is all that is assumed of
scipy's spline / pchip / akima objects and their `nu=1`, `nu=2` evaluations): the model's output
`(exp s(ln V), −s'(ln V), −s''(ln V))` is `(ω, γ, g)` with `dω/dV = −γ ω / V` (i.e. γ = −dlnω/dlnV) and
`dγ/dV = g / V` (i.e. g = V ∂γ/∂V = dγ/dlnV), at every `V > 0`.  These are exactly the hypotheses C01/C02 make on
`freq_array`, `mode_gamma`. -/
theorem triple_consistent (s s' s'' : ℝ → ℝ) (hs : ∀ x, HasDerivAt s (s' x) x) (hs' : ∀ x, HasDerivAt s' (s'' x) x)
    (V : ℝ) (hV : 0 < V) :
    HasDerivAt (fun v => Real.exp (s (Real.log v)))
        (-((-s' (Real.log V)) * Real.exp (s (Real.log V)) / V)) V ∧
      HasDerivAt (fun v => -s' (Real.log v)) ((-s'' (Real.log V)) / V) V := by
  have hlog : HasDerivAt Real.log V⁻¹ V := Real.hasDerivAt_log hV.ne'
  constructor
  · have h1 : HasDerivAt (fun v => s (Real.log v)) (s' (Real.log V) * V⁻¹) V := (hs (Real.log V)).comp V hlog
    have h2 := h1.exp
    refine h2.congr_deriv ?_
    field_simp
  · have h1 : HasDerivAt (fun v => s' (Real.log v)) (s'' (Real.log V) * V⁻¹) V := (hs' (Real.log V)).comp V hlog
    refine h1.neg.congr_deriv ?_
    field_simp

example : ∀ x : ℝ, HasDerivAt (fun x => x ^ 2) (2 * x) x ∧ HasDerivAt (fun x : ℝ => 2 * x) 2 x := by
  intro x
  constructor
  · simpa using hasDerivAt_pow 2 x
  · simpa using (hasDerivAt_id x).const_mul (2 : ℝ)

/-! #### numpy.polyder / numpy.polyval -/

/-- `polyval(polyder(p), x)` is the derivative of `x ↦ polyval(p, x)`; and `polyder(p, 2)` the second -/
theorem polyder_is_derivative (p : List ℝ) (x : ℝ) :
    HasDerivAt (polyval p) (polyval (polyder p) x) x ∧
      HasDerivAt (polyval (polyder p)) (polyval (polyderN 2 p) x) x := by
  have h (q : List ℝ) : HasDerivAt (polyval q) (polyval (polyder q) x) x := by
    have : polyval q = fun x => (toPoly q).eval x := funext (polyval_eq_eval q)
    rw [this, polyval_eq_eval, toPoly_polyder]
    exact (toPoly q).hasDerivAt x
  exact ⟨h p, by simpa [polyderN] using h (polyder p)⟩

example : polyder ([3, 0, 2, 5] : List ℚ) = [9, 0, 2] ∧ polyderN 2 ([3, 0, 2, 5] : List ℚ) = [18, 0] ∧
    polyval ([3, 0, 2, 5] : List ℚ) 2 = 33 := by
  refine ⟨?_, ?_, ?_⟩ <;> norm_num [polyder, polyderN, polyval]

/-! #### least squares (`lsq_poly`) -/

section Lsq
variable {K : Type} [Field K] [LinearOrder K] [IsStrictOrderedRing K]

omit [LinearOrder K] [IsStrictOrderedRing K] in
/-- a row of `numpy.vander(xs, n)` dotted with the coefficient vector is Horner's value: `(V a)_r = polyval(a, x_r)`,
so `residuals` is `V a − y` -/
theorem vander_row_dot (x : K) (a : List K) : dot (powersDesc x a.length) a = polyval a x :=
  dot_powersDesc x a

omit [IsStrictOrderedRing K] in
/-- what the solver returns satisfies the normal equations (it is checked before it is returned) -/
theorem lsq_sound (xs ys : List K) (order : ℕ) (a : List K) (h : lstsqPolyfit xs ys order = some a) :
    normalEq xs ys order a = true := by
  unfold lstsqPolyfit at h
  simp only at h
  split at h
  · cases h
  · split at h
    · cases h; assumption
    · cases h

/-- a solution of the normal equations minimises the sum of squared residuals among all polynomials of degree ≤ order:
it IS numpy.linalg.lstsq's answer for a full-rank Vandermonde system -/
theorem lsq_minimises (xs ys : List K) (order : ℕ) (a b : List K) (ha : normalEq xs ys order a = true)
    (hb : b.length ≤ order + 1) :
    ((xs.zip ys).map fun p => (polyval a p.1 - p.2) ^ 2).sum ≤ ((xs.zip ys).map fun p => (polyval b p.1 - p.2) ^ 2).sum := by
  obtain ⟨hla, hmom⟩ := (normalEq_iff xs ys order a).mp ha
  have hdeg : (toPoly b - toPoly a).natDegree < order + 1 :=
    lt_of_le_of_lt (natDegree_sub_le _ _)
      (max_lt (natDegree_toPoly_lt b _ hb (Nat.succ_pos _)) (natDegree_toPoly_lt a _ hla.le (Nat.succ_pos _)))
  have hk := moments_kill (xs.zip ys) (fun p => p.1) (fun p => polyval a p.1 - p.2) (order + 1) hmom _ hdeg
  have hsplit : ((xs.zip ys).map fun p => (polyval b p.1 - p.2) ^ 2).sum
      = ((xs.zip ys).map fun p => (polyval a p.1 - p.2) ^ 2).sum
        + (((xs.zip ys).map fun p => (polyval b p.1 - polyval a p.1) ^ 2).sum
          + 2 * ((xs.zip ys).map fun p => (toPoly b - toPoly a).eval p.1 * (polyval a p.1 - p.2)).sum) := by
    rw [← List.sum_map_mul_left, ← List.sum_map_add, ← List.sum_map_add]
    congr 1
    refine List.map_congr_left fun p _ => ?_
    simp only [eval_sub, ← polyval_eq_eval]
    ring
  rw [hsplit, hk]
  have : 0 ≤ ((xs.zip ys).map fun p => (polyval b p.1 - polyval a p.1) ^ 2).sum :=
    List.sum_nonneg fun x hx => by
      obtain ⟨p, _, rfl⟩ := List.mem_map.mp hx
      exact sq_nonneg _
  linarith

/-- **lsq_exact.**  If `ln ω` is a polynomial `c` of degree ≤ order in `ln V` on the sampled volumes and there are at least
`order + 1` distinct volumes, then the normal equations have exactly one solution and it is `c` itself. -/
theorem lsq_exact (xs : List K) (order : ℕ) (c : List K) (hc : c.length = order + 1)
    (hdist : order + 1 ≤ xs.toFinset.card) :
    normalEq xs (xs.map (polyval c)) order c = true ∧
      ∀ a, normalEq xs (xs.map (polyval c)) order a = true → a = c := by
  constructor
  · rw [normalEq_iff]
    refine ⟨hc, fun k _ => ?_⟩
    rw [zip_map_self, List.map_map]
    simp [Function.comp_def]
  · intro a ha
    obtain ⟨hla, hmom⟩ := (normalEq_iff _ _ order a).mp ha
    simp only [zip_map_self, List.map_map, Function.comp_def] at hmom
    set D := toPoly a - toPoly c with hD
    have hdeg : D.natDegree < order + 1 :=
      lt_of_le_of_lt (natDegree_sub_le _ _)
        (max_lt (natDegree_toPoly_lt a _ hla.le (Nat.succ_pos _)) (natDegree_toPoly_lt c _ hc.le (Nat.succ_pos _)))
    have hres : ∀ x : K, polyval a x - polyval c x = D.eval x := fun x => by
      simp [hD, polyval_eq_eval]
    simp only [hres] at hmom
    have hk := moments_kill xs (fun x => x) (fun x => D.eval x) (order + 1) hmom D hdeg
    have hz : ∀ v ∈ xs.map (fun x => D.eval x * D.eval x), v = 0 :=
      list_sum_eq_zero_of_nonneg _ (fun v hv => by
        obtain ⟨x, _, rfl⟩ := List.mem_map.mp hv
        exact mul_self_nonneg _) hk
    have hroot : ∀ x ∈ xs.toFinset, D.eval x = 0 := fun x hx => by
      have := hz _ (List.mem_map_of_mem (List.mem_toFinset.mp hx))
      exact mul_self_eq_zero.mp this
    have hD0 : D = 0 := eq_zero_of_natDegree_lt_card_of_eval_eq_zero' D xs.toFinset hroot (lt_of_lt_of_le hdeg hdist)
    exact toPoly_injective a c (hla.trans hc.symm) (sub_eq_zero.mp hD0)

omit [LinearOrder K] [IsStrictOrderedRing K] in
/-- **elimination_total.**  The model's Gaussian elimination `solve` (pivot = first row with a non-zero leading entry) on an
`n × (n+1)` augmented system `[A | b]` over a field: if `A y = 0` has only the zero solution, `solve` ANSWERS, and its answer
`x` has `n` entries and satisfies `A x = b` row by row.  (Converse direction `solve_none_kernel`: no answer ⇒ a non-zero kernel
vector exists; `solve_sound`: every answer solves the system.) -/
theorem elimination_total [DecidableEq K] (n : ℕ) (rows : List (List K)) (hlen : rows.length = n)
    (hw : ∀ r ∈ rows, r.length = n + 1)
    (hker : ∀ y : List K, y.length = n → (∀ r ∈ rows, dot r (y ++ [0]) = 0) → y = List.replicate n 0) :
    ∃ x, solve n rows = some x ∧ x.length = n ∧ ∀ r ∈ rows, dot (r.take n) x = r.getD n 0 :=
  solve_total n rows hlen hw hker

/-- **lsq_total.**  For ANY data `ys` on abscissae `xs` with at least `order + 1` distinct values, `lstsq_polyfit` answers: the
normal matrix `VᵀV` is non-singular (`Σ_r p(x_r)² = 0` forces `p = 0`: root counting), so the elimination finds the solution
and the certificate `normalEq` passes.  With `lsq_minimises` the answer is THE least-squares polynomial. -/
theorem lsq_total (xs ys : List K) (order : ℕ) (hl : xs.length = ys.length) (hdist : order + 1 ≤ xs.toFinset.card) :
    ∃ a, lstsqPolyfit xs ys order = some a ∧ normalEq xs ys order a = true :=
  lstsqPolyfit_total xs ys order hl hdist

/-- **lsq_exact_kernel.**  If `ln ω` is a polynomial `c` of degree ≤ order on ≥ order + 1 distinct abscissae, the executable
solver returns `c` itself, hence the kernel returns value, first and second derivative of `c` at EVERY evaluation point (the
whole extrapolated grid).  Unconditional: the solver's totality is `lsq_total`. -/
theorem lsq_exact_kernel (xs pts : List K) (order : ℕ) (c : List K) (hc : c.length = order + 1)
    (hdist : order + 1 ≤ xs.toFinset.card) :
    lstsqPolyfit xs (xs.map (polyval c)) order = some c ∧
      lsqInterpolant order xs (xs.map (polyval c)) pts
        = .ok (pts.map fun x => (polyval c x, polyval (polyder c) x, polyval (polyderN 2 c) x)) := by
  obtain ⟨a, ha, hne⟩ := lsq_total xs (xs.map (polyval c)) order (by simp) hdist
  have hac := (lsq_exact xs order c hc hdist).2 a hne
  subst hac
  refine ⟨ha, ?_⟩
  unfold lsqInterpolant
  rw [ha]

end Lsq

example : lstsqPolyfit ([0, 1, 2, 3] : List ℚ) [1, 3, 7, 13] 2 = some [1, 1, 1] := by decide +kernel
example : ([0, 1, 2, 3] : List ℚ).map (polyval [1, 1, 1]) = [1, 3, 7, 13] ∧ 2 + 1 ≤ ([0, 1, 2, 3] : List ℚ).toFinset.card := by
  decide +kernel
/-- a genuinely over-determined fit with non-zero residual (an instance of `lsq_total`: 4 data, 4 ≥ 1 + 1 distinct abscissae) -/
example : lstsqPolyfit ([0, 1, 2, 3] : List ℚ) [0, 1, 0, 1] 1 = some [1 / 5, 1 / 5] := by decide +kernel
example : ([0, 1, 2, 3] : List ℚ).length = ([0, 1, 0, 1] : List ℚ).length ∧ 1 + 1 ≤ ([0, 1, 2, 3] : List ℚ).toFinset.card := by
  decide +kernel
/-- `elimination_total`: a non-singular system whose first pivot candidate is zero (the row search matters); and a singular
one, on which the elimination does not answer -/
example : solve 2 ([[0, 1, 3], [2, 1, 5]] : List (List ℚ)) = some [1, 3] ∧
    solve 2 ([[1, 2, 3], [2, 4, 5]] : List (List ℚ)) = none := by decide +kernel
/-- the hypothesis `order + 1 ≤ #distinct` of `lsq_total` is needed: with 2 distinct abscissae a parabola is not determined,
the normal matrix is singular and the model does not answer -/
example : lstsqPolyfit ([1, 2, 1, 2] : List ℚ) [1, 2, 3, 4] 2 = none := by decide +kernel

/-! #### lagrange / krogh: THE interpolating polynomial -/

section Newton
variable {K : Type} [Field K] [DecidableEq K]

/-- For ANY data on distinct nodes the kernel's polynomial (i) passes through every node, (ii) has degree < number of nodes,
and (iii) is the only such polynomial. -/
theorem interp_poly_is_the_interpolant (xs ys : List K) (hlen : xs.length = ys.length) (hnd : xs.Nodup) :
    let P := newtonPoly (newtonBuild (xs.zip ys) [])
    (∀ p ∈ xs.zip ys, (newtonEval (newtonBuild (xs.zip ys) []) p.1).1 = p.2) ∧
      P.natDegree ≤ xs.length - 1 ∧
      ∀ Q : K[X], Q.natDegree < xs.length → (∀ p ∈ xs.zip ys, Q.eval p.1 = p.2) → Q = P := by
  intro P
  have hz : (xs.zip ys).map Prod.fst = xs := by
    rw [List.map_fst_zip]; omega
  have hb := newtonBuild_interp (xs.zip ys) [] [] rfl (by simp) (by simpa [hz] using hnd)
  simp only [List.nil_append, List.length_nil, zero_add, List.length_zip, hlen, min_self] at hb
  refine ⟨fun p hp => by rw [newtonEval_eq]; exact hb.1 p hp, ?_, ?_⟩
  · have := natDegree_newtonPoly_le (newtonBuild (xs.zip ys) [])
    rw [hb.2] at this
    rwa [hlen]
  · intro Q hQ hQi
    have hdeg : (Q - P).natDegree < xs.toFinset.card := by
      rw [List.toFinset_card_of_nodup hnd]
      refine lt_of_le_of_lt (natDegree_sub_le _ _) (max_lt hQ ?_)
      have := natDegree_newtonPoly_le (newtonBuild (xs.zip ys) [])
      rw [hb.2, ← hlen] at this
      have hpos : 0 < xs.length := by omega
      exact lt_of_le_of_lt this (by omega)
    have hroot : ∀ x ∈ xs.toFinset, (Q - P).eval x = 0 := by
      intro x hx
      have hx' : x ∈ (xs.zip ys).map Prod.fst := by rw [hz]; exact List.mem_toFinset.mp hx
      obtain ⟨p, hp, rfl⟩ := List.mem_map.mp hx'
      rw [eval_sub, hQi p hp, hb.1 p hp, sub_self]
    exact sub_eq_zero.mp (eq_zero_of_natDegree_lt_card_of_eval_eq_zero' _ _ hroot hdeg)

/-- **interp_poly_exact.**  If `ln ω` is a polynomial `c` with fewer coefficients than (thinned) nodes — degree < number of
nodes; a power law has degree 1 — the lagrange/krogh kernel returns `c`'s value, first and second derivative at EVERY
evaluation point (the whole extrapolated grid). -/
theorem interp_poly_exact (xs pts : List K) (c : List K) (hnd : xs.Nodup) (hc : c.length ≤ xs.length)
    (hpos : 0 < xs.length) :
    newtonInterpolant xs (xs.map (polyval c)) pts
      = .ok (pts.map fun x => (polyval c x, polyval (polyder c) x, polyval (polyderN 2 c) x)) := by
  have h := interp_poly_is_the_interpolant xs (xs.map (polyval c)) (by simp) hnd
  have hQ := h.2.2 (toPoly c) (natDegree_toPoly_lt c _ hc hpos) (by
    intro p hp
    rw [zip_map_self] at hp
    obtain ⟨x, _, rfl⟩ := List.mem_map.mp hp
    exact (polyval_eq_eval c x).symm)
  unfold newtonInterpolant
  simp only [Except.ok.injEq]
  refine List.map_congr_left fun x _ => ?_
  rw [newtonEval_eq, ← hQ]
  simp [polyval_eq_eval, toPoly_polyder, polyderN]

end Newton

example : newtonInterpolant ([1, 2, 4] : List ℚ) [1, 4, 16] [3, 5]
    = .ok [(9, 6, 2), (25, 10, 2)] := by decide +kernel

/-! #### the polynomial methods satisfy the contract for ALL data -/

/-- `lsq_poly`, `lagrange`, `krogh`: whatever the data, the three sample functions of the kernel are one polynomial function
`s`, its derivative and its second derivative — so `triple_consistent` applies with no further assumption. -/
theorem poly_methods_consistent :
    (∀ a : List ℝ, ∀ x, HasDerivAt (polyval a) (polyval (polyder a) x) x ∧
        HasDerivAt (polyval (polyder a)) (polyval (polyderN 2 a) x) x) ∧
    (∀ nodes : List (ℝ × ℝ), ∀ x,
        HasDerivAt (fun x => (newtonEval nodes x).1) (newtonEval nodes x).2.1 x ∧
        HasDerivAt (fun x => (newtonEval nodes x).2.1) (newtonEval nodes x).2.2 x) := by
  refine ⟨fun a x => polyder_is_derivative a x, fun nodes x => ?_⟩
  simp only [newtonEval_eq]
  exact ⟨(newtonPoly nodes).hasDerivAt x, (derivative (newtonPoly nodes)).hasDerivAt x⟩

/-! #### power laws -/

/-- **power-law exactness** for any kernel that is exact on degree-1 polynomials on the given nodes (`lsq_exact_kernel` with
order ≥ 1 — see `power_law_exact_lsq` —, `interp_poly_exact` with ≥ 2 nodes): the model returns `(ω₀ (V/V₀)^(−γ), γ, 0)` at every
`V > 0` of the grid, inside or outside the sampled range. -/
theorem power_law_exact (I : Interpolant ℝ) (nodeVols vArray : List ℝ) (w0 V0 g : ℝ) (hw : 0 < w0) (hV0 : 0 < V0)
    (hnodes : ∀ V ∈ nodeVols, 0 < V) (hgrid : ∀ V ∈ vArray, 0 < V)
    (hI : ∀ c : List ℝ, c.length = 2 → I (nodeVols.map Real.log) ((nodeVols.map Real.log).map (polyval c)) (vArray.map Real.log)
        = .ok ((vArray.map Real.log).map fun x => (polyval c x, polyval (polyder c) x, polyval (polyderN 2 c) x))) :
    finishMode I nodeVols (nodeVols.map fun V => w0 * (V / V0) ^ (-g)) vArray
      = .ok (vArray.map fun V => (w0 * (V / V0) ^ (-g), g, 0)) := by
  set c : List ℝ := [-g, Real.log w0 + g * Real.log V0] with hc
  have hys : (nodeVols.map fun V => w0 * (V / V0) ^ (-g)).map Real.log = (nodeVols.map Real.log).map (polyval c) := by
    simp only [List.map_map]
    refine List.map_congr_left fun V hVm => ?_
    simp only [Function.comp_def]
    exact power_law_log w0 V0 g V hw hV0 (hnodes V hVm)
  have := finishMode_eq I nodeVols (nodeVols.map fun V => w0 * (V / V0) ^ (-g)) vArray (polyval c)
    (polyval (polyder c)) (polyval (polyderN 2 c)) (by rw [hys]; exact hI c rfl)
  rw [this]
  simp only [Except.ok.injEq]
  refine List.map_congr_left fun V hVm => ?_
  have hV := hgrid V hVm
  have h1 : 0 < w0 * (V / V0) ^ (-g) := mul_pos hw (Real.rpow_pos_of_pos (div_pos hV hV0) _)
  rw [← power_law_log w0 V0 g V hw hV0 hV, Real.exp_log h1]
  simp [hc, polyder, polyderN, polyval]

/-- lagrange / krogh on ≥ 2 distinct positive node volumes reproduce a power law exactly on the whole grid -/
theorem power_law_exact_interp_poly (nodeVols vArray : List ℝ) (w0 V0 g : ℝ) (hw : 0 < w0) (hV0 : 0 < V0)
    (hnodes : ∀ V ∈ nodeVols, 0 < V) (hgrid : ∀ V ∈ vArray, 0 < V) (hnd : nodeVols.Nodup) (h2 : 2 ≤ nodeVols.length) :
    finishMode newtonInterpolant nodeVols (nodeVols.map fun V => w0 * (V / V0) ^ (-g)) vArray
      = .ok (vArray.map fun V => (w0 * (V / V0) ^ (-g), g, 0)) := by
  classical
  refine power_law_exact _ nodeVols vArray w0 V0 g hw hV0 hnodes hgrid fun c hc => ?_
  refine interp_poly_exact _ _ c ?_ (by simp [hc, h2]) (by simp; omega)
  refine (List.nodup_map_iff_inj_on hnd).mpr fun a ha b hb hab => ?_
  exact Real.log_injOn_pos (Set.mem_Ioi.mpr (hnodes a ha)) (Set.mem_Ioi.mpr (hnodes b hb)) hab

/-! #### mode level: `interpolate_mode_lsq_poly`, `interpolate_mode_lagrange`, `interpolate_mode_krogh` on polynomial laws -/

/-- `lsq_poly`: if ln ω is a polynomial `c` of degree ≤ order in ln V (a power law: leading coefficients 0) on ≥ order+1 distinct
positive volumes, the returned triple is `(exp c(ln V), −c'(ln V), −c''(ln V))` at EVERY grid volume — the exact ω, γ and V∂γ/∂V of the
generating law, inside and outside the sampled range.  No assumption on the solver (`lsq_total`). -/
theorem lsq_poly_law_exact (vols vArray : List ℝ) (order : ℕ) (c : List ℝ) (hc : c.length = order + 1)
    (hpos : ∀ V ∈ vols, 0 < V) (hdist : order + 1 ≤ vols.toFinset.card) :
    interpolateMode .lsqPoly order (kernelOf .lsqPoly order (fun _ _ _ => .error .valueError)) vols
        (vols.map fun V => Real.exp (polyval c (Real.log V))) vArray
      = .ok (vArray.map fun v => (Real.exp (polyval c (Real.log v)), -polyval (polyder c) (Real.log v),
          -polyval (polyderN 2 c) (Real.log v))) := by
  have hk := (lsq_exact_kernel (vols.map Real.log) (vArray.map Real.log) order c hc
    (by rw [log_nodes_card vols hpos]; exact hdist)).2
  have hys : (vols.map fun V => Real.exp (polyval c (Real.log V))).map Real.log = (vols.map Real.log).map (polyval c) := by
    simp [List.map_map, Function.comp_def]
  have := finishMode_eq (lsqInterpolant order) vols (vols.map fun V => Real.exp (polyval c (Real.log V))) vArray (polyval c)
    (polyval (polyder c)) (polyval (polyderN 2 c)) (by rw [hys]; exact hk)
  simpa [interpolateMode, modeNodes, kernelOf, bind, Except.bind] using this

/-- `lsq_poly` on ≥ 2 distinct positive volumes (any order ≥ 1) reproduces a power law `ω = ω₀ (V/V₀)^(−γ)` exactly on the whole
grid: `(ω, γ, V∂γ/∂V) = (ω₀ (V/V₀)^(−γ), γ, 0)` -/
theorem power_law_exact_lsq (nodeVols vArray : List ℝ) (w0 V0 g : ℝ) (hw : 0 < w0) (hV0 : 0 < V0)
    (hnodes : ∀ V ∈ nodeVols, 0 < V) (hgrid : ∀ V ∈ vArray, 0 < V) (h2 : 2 ≤ nodeVols.toFinset.card) :
    finishMode (lsqInterpolant 1) nodeVols (nodeVols.map fun V => w0 * (V / V0) ^ (-g)) vArray
      = .ok (vArray.map fun V => (w0 * (V / V0) ^ (-g), g, 0)) := by
  refine power_law_exact _ nodeVols vArray w0 V0 g hw hV0 hnodes hgrid fun c hc => ?_
  exact (lsq_exact_kernel (nodeVols.map Real.log) (vArray.map Real.log) 1 c hc
    (by rw [log_nodes_card nodeVols hnodes]; exact h2)).2

/-- the hypotheses of `lsq_poly_law_exact` / `power_law_exact_lsq` are satisfiable: three distinct positive volumes, order 1
or 2, a power law (leading coefficient 0 for order 2) -/
example : (∀ V ∈ ([3, 2, 1] : List ℝ), 0 < V) ∧ 2 + 1 ≤ ([3, 2, 1] : List ℝ).toFinset.card ∧
    ([0, -3 / 2, 5] : List ℝ).length = 2 + 1 := by
  refine ⟨by norm_num, ?_, rfl⟩
  rw [List.toFinset_card_of_nodup (by norm_num)]
  rfl

/-- `lagrange` / `krogh`: if ln ω is a polynomial `c` of degree < number of thinned nodes (power law: degree 1, needs 2 nodes) on
distinct positive volumes, the returned triple is exact at EVERY grid volume.  No further assumption. -/
theorem interp_poly_law_exact (m : Method) (hm : m = .lagrange ∨ m = .krogh) (order : ℕ) (ho : order ≠ 0)
    (vols vArray : List ℝ) (c : List ℝ) (hpos : ∀ V ∈ vols, 0 < V) (hnd : vols.Nodup)
    (hc : c.length ≤ (thin order vols).length) (hne : 0 < (thin order vols).length) :
    interpolateMode m order (kernelOf m order (fun _ _ _ => .error .valueError)) vols
        (vols.map fun V => Real.exp (polyval c (Real.log V))) vArray
      = .ok (vArray.map fun v => (Real.exp (polyval c (Real.log v)), -polyval (polyder c) (Real.log v),
          -polyval (polyderN 2 c) (Real.log v))) := by
  classical
  set nv := (thin order vols).reverse with hnv
  have hposn : ∀ V ∈ nv, 0 < V := fun V hV => hpos V (thin_subset order vols V (List.mem_reverse.mp hV))
  have hndn : (nv.map Real.log).Nodup :=
    (List.nodup_map_iff_inj_on (List.nodup_reverse.mpr (thin_nodup order vols hnd))).mpr fun a ha b hb hab =>
      Real.log_injOn_pos (Set.mem_Ioi.mpr (hposn a ha)) (Set.mem_Ioi.mpr (hposn b hb)) hab
  have hk := interp_poly_exact (nv.map Real.log) (vArray.map Real.log) c hndn (by simpa [hnv] using hc)
    (by simpa [hnv] using hne)
  have hys : (nv.map fun V => Real.exp (polyval c (Real.log V))).map Real.log = (nv.map Real.log).map (polyval c) := by
    simp [List.map_map, Function.comp_def]
  have := finishMode_eq newtonInterpolant nv (nv.map fun V => Real.exp (polyval c (Real.log V))) vArray (polyval c)
    (polyval (polyder c)) (polyval (polyderN 2 c)) (by rw [hys]; exact hk)
  have hthin : (thin order (vols.map fun V => Real.exp (polyval c (Real.log V)))).reverse
      = nv.map fun V => Real.exp (polyval c (Real.log V)) := by
    rw [thin_map, hnv, List.map_reverse]
  rcases hm with rfl | rfl <;>
    simpa [interpolateMode, modeNodes, kernelOf, ho, bind, Except.bind, hthin, ← hnv] using this

/-- the hypotheses of `interp_poly_law_exact` are satisfiable: three volumes, order 2 keeps the two end volumes, enough for a
power law (two coefficients) -/
example : (thin 2 ([3, 2, 1] : List ℝ)).length = 2 ∧ ([3, 2, 1] : List ℝ).Nodup ∧ ∀ V ∈ ([3, 2, 1] : List ℝ), 0 < V := by
  refine ⟨by decide, by norm_num, by norm_num⟩

/-! #### node-based piecewise cubics: `pchip`, `akima` (scipy's classes modelled in `CijModel/PPoly.lean`) -/

section PPolyField
open Cij.PPoly
variable {K : Type} [Field K] [LinearOrder K] [IsStrictOrderedRing K]

/-- **(a) the interpolant takes the node values.**  On any strictly increasing nodes (≥ 2), for arbitrary values: whatever the node
slopes, the `nu = 0` evaluation at node `x_i` is `y_i` (a query at an interior node is evaluated on the piece to its right, at the
last node on the last piece — both give `y_i`); in particular `PchipInterpolator(x, y)(x) = y` and `Akima1DInterpolator(x, y)(x) = y`. -/
theorem ppoly_interpolates_nodes (xs ys : List K) (h : xs.Pairwise (· < ·)) (hn : 2 ≤ xs.length) (hl : xs.length = ys.length) :
    (∀ ds : List K, ∀ i, i < xs.length → evalAt xs ys ds 0 (xs.getD i 0) = some (ys.getD i 0)) ∧
      (∃ r, pchipInterpolant xs ys xs = .ok r ∧ r.map (·.1) = ys) ∧
      (∃ r, akimaInterpolant xs ys xs = .ok r ∧ r.map (·.1) = ys) :=
  ⟨fun ds i hi => (evalAt_node xs ys ds h i hi hn).1, hermiteInterpolant_nodes _ xs ys h hn hl,
    hermiteInterpolant_nodes _ xs ys h hn hl⟩

/-- the constructor refuses exactly what scipy's `prepare_input` refuses (over an ordered field: fewer than two nodes, different
lengths, abscissae not strictly increasing) with `ValueError`, and otherwise answers for every query list -/
theorem ppoly_answers_iff (xs ys pts : List K) :
    ((∃ r, pchipInterpolant xs ys pts = .ok r) ↔ 2 ≤ xs.length ∧ xs.length = ys.length ∧ xs.Pairwise (· < ·)) ∧
      ((∃ r, akimaInterpolant xs ys pts = .ok r) ↔ 2 ≤ xs.length ∧ xs.length = ys.length ∧ xs.Pairwise (· < ·)) := by
  have key : ∀ slopes : List K → List K → List K,
      (∃ r, hermiteInterpolant slopes xs ys pts = .ok r) ↔ 2 ≤ xs.length ∧ xs.length = ys.length ∧ xs.Pairwise (· < ·) := by
    intro slopes
    rw [← validNodes_iff]
    constructor
    · rintro ⟨r, hr⟩
      by_contra hv
      simp [hermiteInterpolant, hv] at hr
    · intro hv
      obtain ⟨hn, -, hp⟩ := (validNodes_iff xs ys).mp hv
      exact ⟨_, hermiteInterpolant_ok slopes xs ys pts hv
        (fun q => ((evalAt xs ys (slopes xs ys) 0 q).getD 0, (evalAt xs ys (slopes xs ys) 1 q).getD 0,
          (evalAt xs ys (slopes xs ys) 2 q).getD 0)) fun q => by
        rw [sample, evalAt_isSome xs ys _ hp hn 0 q, evalAt_isSome xs ys _ hp hn 1 q, evalAt_isSome xs ys _ hp hn 2 q]
        simp⟩
  exact ⟨key _, key _⟩

/-- **(c) PCHIP, interior node `k`** (secants `a = m_{k-1}`, `b = m_k` of the adjacent pieces): the slope is `0` when the secants have
opposite signs or one vanishes; otherwise it has their common sign and `|d| ≤ 3·min(|a|, |b|)`. -/
theorem pchip_interior_slope (xs ys : List K) (h : xs.Pairwise (· < ·)) (k : ℕ) (h0 : 0 < k) (hk : k + 1 < xs.length) :
    (mAt xs ys (k - 1) * mAt xs ys k ≤ 0 → (pchipSlopes xs ys).getD k 0 = 0) ∧
      (0 < mAt xs ys (k - 1) → 0 < mAt xs ys k → 0 < (pchipSlopes xs ys).getD k 0) ∧
      (mAt xs ys (k - 1) < 0 → mAt xs ys k < 0 → (pchipSlopes xs ys).getD k 0 < 0) ∧
      |(pchipSlopes xs ys).getD k 0| ≤ 3 * min |mAt xs ys (k - 1)| |mAt xs ys k| := by
  rw [pchipSlopes_getD xs ys k (by omega), pchipSlopeAt_interior xs ys k h0 hk]
  have hh0 := hAt_pos xs h (k - 1) (by omega)
  have hh1 := hAt_pos xs h k hk
  refine ⟨pchipInterior_zero _ _ _ _, fun a b => (pchipInterior_pos _ _ _ _ hh0 hh1 a b).1,
    fun a b => (pchipInterior_neg _ _ _ _ hh0 hh1 a b).1, ?_⟩
  obtain ⟨⟨-, b0⟩, ⟨-, b1⟩⟩ := pchipInterior_shape (hAt xs (k - 1)) (hAt xs k) (mAt xs ys (k - 1)) (mAt xs ys k) hh0 hh1
  rcases le_total |mAt xs ys (k - 1)| |mAt xs ys k| with hle | hle
  · rwa [min_eq_left hle]
  · rwa [min_eq_right hle]

/-- **(c) PCHIP, every node incl. both ends, every piece** `[x_i, x_{i+1}]` with secant `Δ_i`: both end slopes of the piece never
oppose `Δ_i` and are at most `3|Δ_i|` in size (the Fritsch–Carlson box) — for all data, the `_edge_case` corrections included. -/
theorem pchip_slopes_in_box (xs ys : List K) (h : xs.Pairwise (· < ·)) (i : ℕ) (hi : i + 2 ≤ xs.length) :
    (0 ≤ (pchipSlopes xs ys).getD i 0 * mAt xs ys i ∧ |(pchipSlopes xs ys).getD i 0| ≤ 3 * |mAt xs ys i|) ∧
      (0 ≤ (pchipSlopes xs ys).getD (i + 1) 0 * mAt xs ys i ∧ |(pchipSlopes xs ys).getD (i + 1) 0| ≤ 3 * |mAt xs ys i|) := by
  rw [pchipSlopes_getD xs ys i (by omega), pchipSlopes_getD xs ys (i + 1) (by omega)]
  exact pchipSlopeAt_shape xs ys h i hi

/-- **(d) affine data** (`ln ω` affine in `ln V`: a power law) are reproduced exactly by both interpolators at EVERY query point —
inside, at nodes, in both extrapolated regions: value `a q + b`, first derivative `a`, second derivative `0`. -/
theorem ppoly_affine_exact (xs pts : List K) (h : xs.Pairwise (· < ·)) (hn : 2 ≤ xs.length) (a b : K) :
    pchipInterpolant xs (xs.map fun x => a * x + b) pts = .ok (pts.map fun q => (a * q + b, a, 0)) ∧
      akimaInterpolant xs (xs.map fun x => a * x + b) pts = .ok (pts.map fun q => (a * q + b, a, 0)) :=
  ⟨hermiteInterpolant_affine _ xs pts h hn a b (pchipSlopes_affine xs h hn a b),
    hermiteInterpolant_affine _ xs pts h hn a b (akimaSlopes_affine xs h hn a b)⟩

/-- non-vacuity and a worked instance over ℚ (nodes 0,1,3,4,6; values 0,2,3,1,1: a secant sign change at x = 3, a flat last piece):
PCHIP slopes — end rule 5/2, harmonic mean 6/7, then 0 at the sign change and at the flat piece; Akima slopes; the model refuses
non-increasing abscissae -/
example : pchipSlopes ([0, 1, 3, 4, 6] : List ℚ) [0, 2, 3, 1, 1] = [5 / 2, 6 / 7, 0, 0, 0] ∧
    akimaSlopes ([0, 1, 3, 4, 6] : List ℚ) [0, 2, 3, 1, 1] = [11 / 4, 23 / 16, -4 / 7, -8 / 9, 1] ∧
    pchipInterpolant ([0, 1, 3, 4, 6] : List ℚ) [0, 2, 3, 1, 1] [-1, 1 / 2, 3, 7]
      = .ok [(-12 / 7, 2 / 7, 29 / 7), (135 / 112, 121 / 56, -23 / 14), (3, 0, -12), (1, 0, 0)] ∧
    pchipInterpolant ([1, 2, 2] : List ℚ) [3, 5, 9] [0] = .error .valueError := by decide +kernel

/-- Akima's fallback `t = ½(m[i+3] + m[i])` where both weights vanish (node 2: secants 1,1 to the left, 0,0 to the right → ½), and
the 2-node special case of both classes (the secant at both nodes: a straight line) -/
example : akimaSlopes ([0, 1, 2, 3, 4, 5] : List ℚ) [0, 1, 2, 2, 2, 2] = [1, 1, 1 / 2, 0, 0, 0] ∧
    (List.range 6).map (akimaF12 ([0, 1, 2, 3, 4, 5] : List ℚ) [0, 1, 2, 2, 2, 2]) = [0, 1, 0, 1, 0, 0] ∧
    pchipInterpolant ([1, 2] : List ℚ) [3, 5] [0, 3 / 2, 4] = .ok [(1, 2, 0), (4, 2, 0), (9, 2, 0)] ∧
    akimaInterpolant ([1, 2, 4] : List ℚ) [3, 5, 9] [0, 3] = .ok [(1, 2, 0), (7, 2, 0)] := by decide +kernel

/-- piece location: a query at an interior node belongs to the piece on its right, at the last node (and beyond) to the last piece,
left of the first node to the first piece -/
example : locate ([0, 1, 3, 4, 6] : List ℚ) 3 = some 2 ∧ locate ([0, 1, 3, 4, 6] : List ℚ) 6 = some 3 ∧
    locate ([0, 1, 3, 4, 6] : List ℚ) 9 = some 3 ∧ locate ([0, 1, 3, 4, 6] : List ℚ) (-5) = some 0 := by decide +kernel

end PPolyField

section PPolyReal
open Cij.PPoly

/-- `triple_consistent`, pointwise: only differentiability AT `ln V` is needed -/
theorem triple_consistent_at (s s' s'' : ℝ → ℝ) (V : ℝ) (hV : 0 < V) :
    (HasDerivAt s (s' (Real.log V)) (Real.log V) →
        HasDerivAt (fun v => Real.exp (s (Real.log v))) (-((-s' (Real.log V)) * Real.exp (s (Real.log V)) / V)) V) ∧
      (HasDerivAt s' (s'' (Real.log V)) (Real.log V) →
        HasDerivAt (fun v => -s' (Real.log v)) ((-s'' (Real.log V)) / V) V) := by
  have hlog : HasDerivAt Real.log V⁻¹ V := Real.hasDerivAt_log hV.ne'
  constructor
  · intro hs
    have h1 : HasDerivAt (fun v => s (Real.log v)) (s' (Real.log V) * V⁻¹) V := hs.comp V hlog
    refine h1.exp.congr_deriv ?_
    field_simp
  · intro hs'
    have h1 : HasDerivAt (fun v => s' (Real.log v)) (s'' (Real.log V) * V⁻¹) V := hs'.comp V hlog
    refine h1.neg.congr_deriv ?_
    field_simp

/-- **(b) the derivative contract of the piecewise cubic, proved** (any node slopes `ds`, so for PCHIP and Akima alike; `spline … nu`
is the function `interp(·, nu, extrapolate=True)` computes):
1. the `nu = 1` evaluation is the derivative of the `nu = 0` evaluation at EVERY point — inside pieces, in both extrapolated
   regions, and at the nodes (C¹);
2. the `nu = 2` evaluation is the derivative of the `nu = 1` evaluation at every point that is not an interior node (strictly inside
   a piece, both extrapolated regions, the two end nodes);
3. at an interior node `x_{j+1}` the pieces on BOTH sides have first derivative `dydx[j+1]`, which is also the `nu = 1` evaluation
   there, and the `nu = 1` function is continuous there. -/
theorem ppoly_derivative_contract (xs ys ds : List ℝ) (h : xs.Pairwise (· < ·)) (hn : 2 ≤ xs.length) :
    (∀ q, HasDerivAt (spline xs ys ds 0) (spline xs ys ds 1 q) q) ∧
      (∀ q, (∀ j, j + 3 ≤ xs.length → q ≠ xs.getD (j + 1) 0) →
        HasDerivAt (spline xs ys ds 1) (spline xs ys ds 2 q) q) ∧
      (∀ j, j + 3 ≤ xs.length →
        (pieceAt xs ys ds j).eval 1 (xs.getD (j + 1) 0) = ds.getD (j + 1) 0 ∧
        (pieceAt xs ys ds (j + 1)).eval 1 (xs.getD (j + 1) 0) = ds.getD (j + 1) 0 ∧
        spline xs ys ds 1 (xs.getD (j + 1) 0) = ds.getD (j + 1) 0 ∧
        ContinuousAt (spline xs ys ds 1) (xs.getD (j + 1) 0)) := by
  refine ⟨spline_hasDerivAt_everywhere xs ys ds h hn, fun q hq => (spline_hasDerivAt_offnode xs ys ds h hn q hq).2, fun j hj => ?_⟩
  obtain ⟨a, b, -, c⟩ := spline_C1_at_node xs ys ds h j hj
  exact ⟨a, b, (spline_node xs ys ds h (j + 1) (by omega) hn).2, c⟩

/-- the glued function IS what the model's kernels return, for any query list -/
theorem ppoly_kernel_is_spline (xs ys pts : List ℝ) (h : xs.Pairwise (· < ·)) (hn : 2 ≤ xs.length) (hl : xs.length = ys.length) :
    pchipInterpolant xs ys pts = .ok (pts.map fun q =>
        (spline xs ys (pchipSlopes xs ys) 0 q, spline xs ys (pchipSlopes xs ys) 1 q, spline xs ys (pchipSlopes xs ys) 2 q)) ∧
      akimaInterpolant xs ys pts = .ok (pts.map fun q =>
        (spline xs ys (akimaSlopes xs ys) 0 q, spline xs ys (akimaSlopes xs ys) 1 q, spline xs ys (akimaSlopes xs ys) 2 q)) :=
  ⟨hermiteInterpolant_eq_spline _ xs ys pts h hn hl, hermiteInterpolant_eq_spline _ xs ys pts h hn hl⟩

/-- **(b, consequence) `interpolate_mode_ppoly` returns a consistent triple — no contract assumption.**  For `pchip` and `akima`, any
order ≥ 1, positive strictly decreasing sampled volumes (file order) of which the thinning keeps at least two, ARBITRARY frequencies and
any grid: with `s = spline` on the nodes the code hands to scipy (thinned `[::ceil(nv/order)]`, flipped, logged),
* the model returns exactly `(exp s(ln V), −s'(ln V), −s''(ln V))` on the grid;
* at EVERY `V > 0`: `dω/dV = −γ ω / V`  (γ = −dlnω/dlnV: the second array belongs to the first);
* at every `V > 0` whose `ln V` is not an interior node: `dγ/dV = g / V`  (g = V∂γ/∂V: the third array belongs to the second).
These are the conclusions of `triple_consistent`; its hypotheses are now theorems (`ppoly_derivative_contract`). -/
theorem ppoly_mode_consistent (m : Method) (hm : m = .pchip ∨ m = .akima) (order : ℕ) (ho : order ≠ 0) (lib : Interpolant ℝ)
    (vols freqs vArray : List ℝ) (hpos : ∀ V ∈ vols, 0 < V) (hdec : vols.Pairwise (· > ·)) (hlen : vols.length = freqs.length)
    (h2 : 2 ≤ (thin order vols).length) :
    let xs := ((thin order vols).reverse).map Real.log
    let ys := ((thin order freqs).reverse).map Real.log
    let s := spline xs ys (ppolySlopes m xs ys)
    interpolateMode m order (kernelFull m order lib) vols freqs vArray
        = .ok (vArray.map fun v => (Real.exp (s 0 (Real.log v)), -s 1 (Real.log v), -s 2 (Real.log v))) ∧
      ∀ V, 0 < V →
        HasDerivAt (fun v => Real.exp (s 0 (Real.log v))) (-((-s 1 (Real.log V)) * Real.exp (s 0 (Real.log V)) / V)) V ∧
        ((∀ j, j + 3 ≤ xs.length → Real.log V ≠ xs.getD (j + 1) 0) →
          HasDerivAt (fun v => -s 1 (Real.log v)) ((-s 2 (Real.log V)) / V) V) := by
  intro xs ys s
  have hinc : xs.Pairwise (· < ·) := log_nodes_increasing order vols hpos hdec
  have hn : 2 ≤ xs.length := by simpa [xs] using h2
  have hl : xs.length = ys.length := by simpa [xs, ys] using thin_length_congr order vols freqs hlen
  obtain ⟨c1, c2, -⟩ := ppoly_derivative_contract xs ys (ppolySlopes m xs ys) hinc hn
  refine ⟨?_, fun V hV => ?_⟩
  · have hk := ppoly_kernel_is_spline xs ys (vArray.map Real.log) hinc hn hl
    have hfin : ∀ I : Interpolant ℝ, I xs ys (vArray.map Real.log) = .ok ((vArray.map Real.log).map fun q => (s 0 q, s 1 q, s 2 q)) →
        finishMode I (thin order vols).reverse (thin order freqs).reverse vArray
          = .ok (vArray.map fun v => (Real.exp (s 0 (Real.log v)), -s 1 (Real.log v), -s 2 (Real.log v))) :=
      fun I hI => finishMode_eq I _ _ vArray (s 0) (s 1) (s 2) hI
    rcases hm with rfl | rfl
    · have := hfin pchipInterpolant (by simpa [s, ppolySlopes] using hk.1)
      simpa [interpolateMode, modeNodes, kernelFull, ho, bind, Except.bind] using this
    · have := hfin akimaInterpolant (by simpa [s, ppolySlopes] using hk.2)
      simpa [interpolateMode, modeNodes, kernelFull, ho, bind, Except.bind] using this
  · obtain ⟨t1, t2⟩ := triple_consistent_at (s 0) (s 1) (s 2) V hV
    exact ⟨t1 (c1 _), fun hoff => t2 (c2 _ hoff)⟩

/-- **(c) Fritsch–Carlson consequence for PCHIP.**  Monotone data give a monotone interpolant on the whole node range `[x_0, x_{n-1}]`:
non-decreasing values ⇒ non-decreasing interpolant, non-increasing values (the usual case: ω falls as V grows, γ > 0) ⇒ non-increasing
interpolant — so the interpolated γ never changes sign between the sampled volumes.  (Piece by piece: every end slope lies in the
box `[0, 3Δ]` of its piece, `pchip_slopes_in_box`, hence the derivative of the cubic keeps the sign of the secant.) -/
theorem pchip_monotone (xs ys : List ℝ) (h : xs.Pairwise (· < ·)) (hn : 2 ≤ xs.length) :
    ((∀ i, i + 1 < xs.length → ys.getD i 0 ≤ ys.getD (i + 1) 0) →
        MonotoneOn (spline xs ys (pchipSlopes xs ys) 0) (Set.Icc (xs.getD 0 0) (xs.getD (xs.length - 1) 0))) ∧
      ((∀ i, i + 1 < xs.length → ys.getD (i + 1) 0 ≤ ys.getD i 0) →
        AntitoneOn (spline xs ys (pchipSlopes xs ys) 0) (Set.Icc (xs.getD 0 0) (xs.getD (xs.length - 1) 0))) :=
  ⟨fun hy => monotoneOn_nodes _ xs h hn fun i hi => (pchip_piece_mono xs ys h i hi).1 (hy i (by omega)),
    fun hy => antitoneOn_nodes _ xs h hn fun i hi => (pchip_piece_mono xs ys h i hi).2 (hy i (by omega))⟩

/-- **(d) power laws, kernel level**: `pchip` and `akima` on ≥ 2 positive strictly increasing node volumes reproduce
`ω = ω₀ (V/V₀)^(−γ)` exactly on the whole grid: `(ω, γ, V∂γ/∂V) = (ω₀ (V/V₀)^(−γ), γ, 0)` -/
theorem power_law_exact_ppoly (nodeVols vArray : List ℝ) (w0 V0 g : ℝ) (hw : 0 < w0) (hV0 : 0 < V0)
    (hnodes : ∀ V ∈ nodeVols, 0 < V) (hgrid : ∀ V ∈ vArray, 0 < V) (hinc : nodeVols.Pairwise (· < ·)) (h2 : 2 ≤ nodeVols.length) :
    finishMode pchipInterpolant nodeVols (nodeVols.map fun V => w0 * (V / V0) ^ (-g)) vArray
        = .ok (vArray.map fun V => (w0 * (V / V0) ^ (-g), g, 0)) ∧
      finishMode akimaInterpolant nodeVols (nodeVols.map fun V => w0 * (V / V0) ^ (-g)) vArray
        = .ok (vArray.map fun V => (w0 * (V / V0) ^ (-g), g, 0)) := by
  have hlog : (nodeVols.map Real.log).Pairwise (· < ·) := by
    rw [List.pairwise_map]
    exact hinc.imp_of_mem fun {a b} ha _ hab => Real.log_lt_log (hnodes a ha) hab
  have key : ∀ I : Interpolant ℝ, (∀ a b : ℝ, I (nodeVols.map Real.log) ((nodeVols.map Real.log).map fun x => a * x + b)
        (vArray.map Real.log) = .ok ((vArray.map Real.log).map fun q => (a * q + b, a, 0))) →
      finishMode I nodeVols (nodeVols.map fun V => w0 * (V / V0) ^ (-g)) vArray
        = .ok (vArray.map fun V => (w0 * (V / V0) ^ (-g), g, 0)) := by
    intro I hI
    refine power_law_exact I nodeVols vArray w0 V0 g hw hV0 hnodes hgrid fun c hc => ?_
    obtain ⟨a, b, rfl⟩ : ∃ a b, c = [a, b] := by
      match c, hc with
      | [a, b], _ => exact ⟨a, b, rfl⟩
    have e : (fun x : ℝ => polyval [a, b] x) = fun x => a * x + b := by funext x; simp [polyval]
    have := hI a b
    rw [show (polyval [a, b]) = fun x => a * x + b from e]
    rw [this]
    simp [polyval, polyder, polyderN]
  have hn : 2 ≤ (nodeVols.map Real.log).length := by simpa using h2
  exact ⟨key _ fun a b => (ppoly_affine_exact _ _ hlog hn a b).1, key _ fun a b => (ppoly_affine_exact _ _ hlog hn a b).2⟩

/-- **(d) power laws, mode level**: `interpolate_mode_ppoly` with `pchip` / `akima`, any order ≥ 1 that keeps ≥ 2 of the positive strictly
decreasing sampled volumes: `γ` is the constant exponent and `V∂γ/∂V = 0` at every grid volume, inside and outside the sampled range -/
theorem power_law_exact_ppoly_mode (m : Method) (hm : m = .pchip ∨ m = .akima) (order : ℕ) (ho : order ≠ 0) (lib : Interpolant ℝ)
    (vols vArray : List ℝ) (w0 V0 g : ℝ) (hw : 0 < w0) (hV0 : 0 < V0) (hpos : ∀ V ∈ vols, 0 < V) (hgrid : ∀ V ∈ vArray, 0 < V)
    (hdec : vols.Pairwise (· > ·)) (h2 : 2 ≤ (thin order vols).length) :
    interpolateMode m order (kernelFull m order lib) vols (vols.map fun V => w0 * (V / V0) ^ (-g)) vArray
      = .ok (vArray.map fun V => (w0 * (V / V0) ^ (-g), g, 0)) := by
  set nv := (thin order vols).reverse with hnv
  have hposn : ∀ V ∈ nv, 0 < V := fun V hV => hpos V (thin_subset order vols V (List.mem_reverse.mp hV))
  have hinc : nv.Pairwise (· < ·) := by
    rw [hnv, List.pairwise_reverse]
    exact thin_pairwise _ order vols hdec
  have hk := power_law_exact_ppoly nv vArray w0 V0 g hw hV0 hposn hgrid hinc (by simpa [hnv] using h2)
  have hthin : (thin order (vols.map fun V => w0 * (V / V0) ^ (-g))).reverse = nv.map fun V => w0 * (V / V0) ^ (-g) := by
    rw [thin_map, hnv, List.map_reverse]
  rcases hm with rfl | rfl
  · simpa [interpolateMode, modeNodes, kernelFull, ho, bind, Except.bind, hthin, ← hnv] using hk.1
  · simpa [interpolateMode, modeNodes, kernelFull, ho, bind, Except.bind, hthin, ← hnv] using hk.2

/-- the hypotheses of `ppoly_mode_consistent` / `power_law_exact_ppoly_mode` are satisfiable: five positive strictly decreasing volumes,
order 3 keeps three of them (interval 2) -/
example : (∀ V ∈ ([5, 4, 3, 2, 1] : List ℝ), 0 < V) ∧ ([5, 4, 3, 2, 1] : List ℝ).Pairwise (· > ·) ∧
    (thin 3 ([5, 4, 3, 2, 1] : List ℝ)).length = 3 := by
  refine ⟨by norm_num, by norm_num, by decide⟩

/-- monotone data with a flat piece (values 0,1,1,5 on nodes 0,1,2,4): slopes 3/2, 0, 0, 10/3 — each inside the box `[0, 3Δ]` of both
adjacent pieces (Δ = 1, 0, 2), the instance of `pchip_slopes_in_box` behind `pchip_monotone` -/
example : pchipSlopes ([0, 1, 2, 4] : List ℚ) [0, 1, 1, 5] = [3 / 2, 0, 0, 10 / 3] ∧
    (List.range 3).map (mAt ([0, 1, 2, 4] : List ℚ) [0, 1, 1, 5]) = [1, 0, 2] := by decide +kernel

end PPolyReal

/-! #### the double loop: Γ-acoustic zeros, modes not mixed -/

section Loop
variable {α : Type} [Neg α] [Zero α] [ExpLog α]

/-- **modes_not_mixed.**  Two inputs that agree on the series of `(j, k)` (and on volumes, grid, method, order) give the same
three outputs at `(j, k)`, whatever all the other q-points and modes contain. -/
theorem modes_not_mixed (m : Method) (order : ℕ) (I : Interpolant α) (vols vArray : List α) (nq np : ℕ)
    (freqs freqs' : List (List (List α))) (F G D F' G' D' : List (List (List α)))
    (h : interpolateModes m order I vols vArray nq np freqs = .ok (F, G, D))
    (h' : interpolateModes m order I vols vArray nq np freqs' = .ok (F', G', D'))
    (t j k : ℕ) (ht : t < vArray.length) (hj : j < nq) (hk : k < np)
    (hser : series freqs j k = series freqs' j k) :
    entry F t j k = entry F' t j k ∧ entry G t j k = entry G' t j k ∧ entry D t j k = entry D' t j k := by
  obtain ⟨col, hcol, e1, e2, e3⟩ := modes_cell m order I vols vArray nq np freqs F G D h t j k ht hj hk
  obtain ⟨col', hcol', e1', e2', e3'⟩ := modes_cell m order I vols vArray nq np freqs' F' G' D' h' t j k ht hj hk
  rw [hser, hcol'] at hcol
  cases hcol
  exact ⟨e1.trans e1'.symm, e2.trans e2'.symm, e3.trans e3'.symm⟩

/-- **gamma_acoustic_zero.**  The three Γ-point acoustic modes (`j = 0`, `k < 3`) are exactly zero in all three arrays, at every
grid volume, for every method, order and input (whatever is stored at those positions of the input). -/
theorem gamma_acoustic_zero (m : Method) (order : ℕ) (I : Interpolant α) (vols vArray : List α) (nq np : ℕ)
    (freqs : List (List (List α))) (F G D : List (List (List α)))
    (h : interpolateModes m order I vols vArray nq np freqs = .ok (F, G, D))
    (t k : ℕ) (ht : t < vArray.length) (hq : 0 < nq) (hk : k < np) (hk3 : k < 3) :
    entry F t 0 k = some 0 ∧ entry G t 0 k = some 0 ∧ entry D t 0 k = some 0 := by
  obtain ⟨col, hcol, e1, e2, e3⟩ := modes_cell m order I vols vArray nq np freqs F G D h t 0 k ht hq hk
  have hcond : ((0 : ℕ) == 0 && decide (k < 3)) = true := by simp [hk3]
  have : col = vArray.map fun _ => ((0 : α), (0 : α), (0 : α)) := by
    rw [cell, if_pos hcond] at hcol
    exact (Except.ok.inj hcol).symm
  subst this
  simp only [List.getD_eq_getElem?_getD, List.getElem?_map, List.getElem?_eq_getElem ht, Option.map_some,
    Option.getD_some] at e1 e2 e3
  exact ⟨e1, e2, e3⟩

/-- **hermite_raises** (negative result, the code as it exists): with `hermite` and any order ≥ 1 every non-acoustic mode raises
`TypeError` (`CubicHermiteSpline(x, y)` lacks `dydx`), so `interpolate_modes` never returns as soon as there is one such mode. -/
theorem hermite_raises (order : ℕ) (ho : order ≠ 0) (I : Interpolant α) (vols vArray : List α) (nq np : ℕ)
    (freqs : List (List (List α))) (hq : 0 < nq) (hp : 3 < np) :
    (∀ ser, interpolateMode .hermite order I vols ser vArray = .error .typeError) ∧
      ∀ r, interpolateModes .hermite order I vols vArray nq np freqs ≠ .ok r := by
  have hm : ∀ ser, interpolateMode .hermite order I vols ser vArray = .error .typeError := by
    intro ser
    simp [interpolateMode, modeNodes, ho, bind, Except.bind]
  refine ⟨hm, ?_⟩
  rintro ⟨F, G, D⟩ h
  by_cases hv : 0 < vArray.length
  · obtain ⟨col, hcol, -⟩ := modes_cell .hermite order I vols vArray nq np freqs F G D h 0 0 3 hv hq hp
    simp [cell, hm] at hcol
  · -- an empty grid: the cell is still evaluated and raises
    unfold interpolateModes at h
    cases hc : cells .hermite order I vols vArray nq np freqs with
    | error e => rw [hc] at h; cases h
    | ok c =>
      unfold cells at hc
      rw [collect_eq_ok] at hc
      have hrow := congrArg (·[0]?) hc
      simp only [List.getElem?_map, List.getElem?_range hq, Option.map_some] at hrow
      cases hc0 : c[0]? with
      | none => rw [hc0] at hrow; cases hrow
      | some row =>
        rw [hc0, Option.map_some, Option.some.injEq, collect_eq_ok] at hrow
        have hcol := congrArg (·[3]?) hrow
        simp only [List.getElem?_map, List.getElem?_range hp, Option.map_some] at hcol
        cases hr3 : row[3]? with
        | none => rw [hr3] at hcol; cases hcol
        | some x => rw [hr3] at hcol; simp [cell, hm] at hcol

end Loop

/-- non-vacuity of the loop theorems: a run that returns (scalar ℚ with exp = log = id, least squares of order 1;
the Γ-acoustic input entries 7, 8, 9 are ignored) -/
example :
    letI : ExpLog ℚ := ⟨id, id⟩
    interpolateModes .lsqPoly 1 (lsqInterpolant 1) ([1, 2, 3] : List ℚ) [4] 1 4
        [[[7, 7, 7, 1]], [[8, 8, 8, 3]], [[9, 9, 9, 5]]]
      = .ok ([[[0, 0, 0, 7]]], [[[0, 0, 0, -2]]], [[[0, 0, 0, 0]]]) := by decide +kernel

/-! #### node thinning -/

/-- `[::ceil(n/order)]` keeps the first element and at most `order` elements (the code's "pick at most `order` nodes") -/
theorem thin_length_le (order n : ℕ) (ho : 0 < order) : (thin order (List.range n)).length ≤ order := by
  unfold thin stride thinInterval
  simp only [List.length_range]
  refine (List.length_filterMap_le _ _).trans ?_
  simp only [List.length_range]
  set i := (n + order - 1) / order with hi
  rcases Nat.eq_zero_or_pos i with h0 | hipos
  · rw [h0]; simp
  · have hi1 : n ≤ order * i := by
      have := Nat.div_add_mod (n + order - 1) order
      have hm := Nat.mod_lt (n + order - 1) ho
      rw [← hi] at this
      generalize order * i = P at *
      omega
    apply Nat.le_of_lt_succ
    rw [Nat.div_lt_iff_lt_mul hipos]
    have : (order + 1) * i = order * i + i := by ring
    rw [this]
    generalize order * i = P at *
    omega

example : thin 3 (List.range 7) = [0, 3, 6] ∧ thin 4 (List.range 7) = [0, 2, 4, 6] ∧ thin 2 (List.range 4) = [0, 2] := by
  decide

/-! #### the diagnostic plot -/

/-- **plot_select.**  The diagnostic plot selects, for n = 0, 1, 2, exactly what the docstring and the property say: ω, γ, V∂γ/∂V;
and for every other n nothing (Python: `w_arrays` unbound) — the model of `plot_modes` agrees with the specification for ALL n. -/
theorem plot_select : ∀ n : Int, plotSelect n = plotSelectSpec n := by
  intro n
  unfold plotSelect plotSelectSpec modeGammaTags
  split_ifs <;> rfl

/-- in particular n = 0 ↦ ω, n = 1 ↦ γ (`mode_gamma[1]`), n = 2 ↦ V∂γ/∂V (`mode_gamma[0]`) -/
theorem plot_select_012 : plotSelect 0 = some .omega ∧ plotSelect 1 = some .gamma ∧ plotSelect 2 = some .vdrDv := by decide

/-- the defect that was found and repaired (n = 1 drawing V∂γ/∂V, n = 2 drawing γ) is excluded -/
theorem plot_select_not_swapped : plotSelect 1 ≠ some .vdrDv ∧ plotSelect 2 ≠ some .gamma ∧
    plotSelect 1 ≠ plotSelect 2 := by decide

/-- the intended selection, stated about the specification: n = 0, 1, 2 ↦ ω, γ, V∂γ/∂V and nothing else -/
theorem plot_select_spec : plotSelectSpec 0 = some .omega ∧ plotSelectSpec 1 = some .gamma ∧
    plotSelectSpec 2 = some .vdrDv ∧ ∀ n : Int, n ≠ 0 → n ≠ 1 → n ≠ 2 → plotSelectSpec n = none := by
  refine ⟨by decide, by decide, by decide, fun n h0 h1 h2 => ?_⟩
  simp [plotSelectSpec, h0, h1, h2]

/-- array level: on the calculator state produced by the wiring line, `plot_modes(ax, n, iq)` draws, for every non-skipped
mode `k`, the column `[:, iq, k]` of the array that `plotSelect n` names -/
theorem plot_modes_draws_select {α : Type} [Mul α] [Zero α] (f g d : List (List (List α))) (np : ℕ) (n : Int) (iq : ℕ)
    (q : Quantity) (hq : plotSelect n = some q) :
    plotModes (calculatorWiring f g d) np n iq
      = .ok (((List.range np).filter fun k => !(iq == 0 && k < 3)).map fun k =>
          (arrayOf f g d q).map fun row => (row.getD iq []).getD k 0) := by
  unfold plotModes
  by_cases hks : ((List.range np).filter fun k => !(iq == 0 && k < 3)).isEmpty = true
  · simp only [hks, if_true]
    rw [List.isEmpty_iff.mp hks]; rfl
  · simp only [hks, Bool.false_eq_true, if_false]
    unfold plotSelect modeGammaTags at hq
    by_cases h0 : n = 0
    · subst h0; simp at hq; subst hq
      simp [calculatorWiring, arrayOf, bind, Except.bind, pure, Except.pure]
    by_cases h1 : n = 1
    · subst h1; simp at hq; subst hq
      simp [calculatorWiring, arrayOf, bind, Except.bind, pure, Except.pure]
    by_cases h2 : n = 2
    · subst h2; simp at hq; subst hq
      simp [calculatorWiring, arrayOf, bind, Except.bind, pure, Except.pure]
    · simp [h0, h1, h2] at hq

/-- concrete instance (a power law with γ = 3/2 on two grid volumes, one q-point, four modes, so γ ≠ V∂γ/∂V = 0):
`plot_modes(n=0)` draws ω, `plot_modes(n=1)` draws γ = 3/2, `plot_modes(n=2)` draws the zeros of V∂γ/∂V; any other n raises -/
example :
    let f : List (List (List ℚ)) := [[[0, 0, 0, 100]], [[0, 0, 0, 120]]]
    let g : List (List (List ℚ)) := [[[0, 0, 0, 3 / 2]], [[0, 0, 0, 3 / 2]]]
    let d : List (List (List ℚ)) := [[[0, 0, 0, 0]], [[0, 0, 0, 0]]]
    plotModes (calculatorWiring f g d) 4 0 0 = .ok [[100, 120]] ∧ plotModes (calculatorWiring f g d) 4 1 0 = .ok [[3 / 2, 3 / 2]] ∧
      plotModes (calculatorWiring f g d) 4 2 0 = .ok [[0, 0]] ∧ plotModes (calculatorWiring f g d) 4 3 0 = .error .unboundLocal := by
  decide +kernel


/-! #### the whole module `mode_gamma.py` is the source's (`tools/gens/modegamma_src.py`) -/

section GlueSrc
open Cij.ModeGammaGlue
open Generated.ModeGammaGlue (fns loop)
variable {α : Type} [Add α] [Mul α] [Neg α] [Zero α] [One α] [NatCast α] [ExpLog α]

/-- **inventory.**  `mode_gamma.py` defines exactly seven functions, each once, and every one of them is translated as data (six
statement lists `fns`, the loop structure `loop`) — none is only pinned as text; the module has no other statement than its imports
(no module-level state); `numpy` / `scipy` are the packages; NOTHING in any expression of the seven functions is outside the translator's
grammar (no `.other` node, no unknown dotted name, no unknown keyword, no unknown index pattern); the translator's name tables invert
`Lib.pyName` / `Kw.pyName`; and the library functions the module names are exactly the eighteen listed — the only elementwise
transcendental ones being `numpy.log` and `numpy.exp`. -/
theorem mode_glue_src_inventory :
    (Generated.ModeGammaGlue.definedFunctions = Generated.ModeGammaGlue.handled.map (·.1) ∧
      Generated.ModeGammaGlue.definedFunctions.Nodup ∧
      (∀ h ∈ Generated.ModeGammaGlue.handled, h.2 = .translated "fns" ∨ h.2 = .translated "loop") ∧
      Generated.ModeGammaGlue.definedFunctions = fns.map (·.name) ++ [loop.name] ∧
      Generated.ModeGammaGlue.moduleAssigns = [] ∧ Generated.ModeGammaGlue.moduleOtherStatements = [] ∧
      (∀ e ∈ Generated.ModeGammaGlue.imports, (e.1 = "numpy" → e.2 = "numpy") ∧ (e.1 = "scipy" → e.2.startsWith "scipy") ∧
        e.1 ∉ Generated.ModeGammaGlue.definedFunctions)) ∧
    outsideGrammar = [] ∧
    ((∀ e ∈ Generated.ModeGammaGlue.libTable, e.2.pyName = e.1) ∧ (∀ e ∈ Generated.ModeGammaGlue.kwTable, e.2.pyName = e.1)) ∧
    usedLibs.eraseDups =
      [.spUnivariateSpline, .npFlip, .npLog, .npExp, .pyInt, .npCeil, .spLagrange, .npPolyder, .spKrogh, .spPchip, .spAkima,
        .spHermite, .npVander, .npLstsq, .npPoly1d, .npPolyval, .npArray, .pyRange] :=
  ⟨inventory_complete, nothing_outside, tables_ok, used_libs⟩

/-- **`interpolate_mode_spline` is the source's.**  For every order, node arrays and grid — in the ORDER GIVEN, nothing is sorted —, every
spline library (`env.spline k` = `UnivariateSpline(x, y, k=k)` with no `w`, `s`, `ext`): the translated statements
(`UnivariateSpline(flip(log V), flip(log ω), k=order)`; `interp(log v)`, `interp(log v, nu=1)`, `interp(log v, nu=2)`; `exp`, `−`, `−`)
evaluate to the model's `interpolateModeF .spline`.  The NAME `numpy.log` is interpreted as `ExpLog.log` in all three positions (nodes,
values, grid) and `numpy.exp` as `ExpLog.exp`, for an arbitrary pair of functions: nothing about the base of the logarithm is assumed, a
`numpy.log10` anywhere has no interpretation.  (No volume: the empty arrays reach the constructor, whose exception — scipy:
`IndexError` — is the kernel's.) -/
theorem mode_glue_src_spline (env : Env α) (order : ℕ) (vols freqs va : List α) :
    runFn fns env 2 "interpolate_mode_spline" [.arr vols, .arr freqs, .arr va] [("order", .nat order)]
      = (Out.ofExcept (interpolateModeF .spline order (env.spline order) vols freqs va)).map colsVal :=
  spline_is_source env order vols freqs va

/-- **`interpolate_mode_lagrange` / `interpolate_mode_krogh` are the source's**, for ALL node arrays (round 5: no hypothesis — not "at
least one volume", not "equal lengths"): `interval = int(ceil(mode_volumes.shape[0] / order))` (order 0: `ZeroDivisionError` in both),
`[::interval]` with that ONE interval on BOTH arrays — `ValueError` (slice step cannot be zero) when there is no volume —, both flipped
and logged, `scipy.interpolate.lagrange` with `numpy.polyder(poly, m=1|2)` resp. `KroghInterpolator` with `.derivative(x, der=1|2)`,
`exp` / `−` / `−`. -/
theorem mode_glue_src_lagrange_krogh (env : Env α) (order : ℕ) (vols freqs va : List α) :
    runFn fns env 2 "interpolate_mode_lagrange" [.arr vols, .arr freqs, .arr va] [("order", .nat order)]
        = (Out.ofExcept (interpolateModeF .lagrange order env.lagrange vols freqs va)).map colsVal ∧
      runFn fns env 2 "interpolate_mode_krogh" [.arr vols, .arr freqs, .arr va] [("order", .nat order)]
        = (Out.ofExcept (interpolateModeF .krogh order env.krogh vols freqs va)).map colsVal :=
  ⟨lagrange_is_source env order vols freqs va, krogh_is_source env order vols freqs va⟩

/-- **`interpolate_mode_ppoly` is the source's** for its three method strings and ALL node arrays: the thinning as above (`ZeroDivisionError`,
then `ValueError` for no volume), the class chosen by the if/elif chain, the 2-argument constructor call on the thinned, flipped, logged
nodes, the three evaluations with `extrapolate=True` (and `nu=1|2`); `hermite`: `CubicHermiteSpline(x, y)` raises `TypeError` AFTER the
thinning (so no volume is a `ValueError` for `hermite` too), whatever the kernel. -/
theorem mode_glue_src_ppoly (env : Env α) (I : Interpolant α) (order : ℕ) (vols freqs va : List α) :
    runFn fns env 2 "interpolate_mode_ppoly" [.arr vols, .arr freqs, .arr va] [("method", .str "pchip"), ("order", .nat order)]
        = (Out.ofExcept (interpolateModeF .pchip order env.pchip vols freqs va)).map colsVal ∧
      runFn fns env 2 "interpolate_mode_ppoly" [.arr vols, .arr freqs, .arr va] [("method", .str "akima"), ("order", .nat order)]
        = (Out.ofExcept (interpolateModeF .akima order env.akima vols freqs va)).map colsVal ∧
      runFn fns env 2 "interpolate_mode_ppoly" [.arr vols, .arr freqs, .arr va] [("method", .str "hermite"), ("order", .nat order)]
        = (Out.ofExcept (interpolateModeF .hermite order I vols freqs va)).map colsVal :=
  ⟨pchip_is_source env order vols freqs va, akima_is_source env order vols freqs va, hermite_is_source env I order vols freqs va⟩

/-- the exceptions of the thinning, in the order the source raises them: `order = 0` → `ZeroDivisionError` (whatever the arrays); no
volume → `ValueError`; and with at least one volume and arrays of equal length `interpolateModeF` is `interpolateMode` -/
theorem mode_glue_src_thinning_errors (m : Method) (hm : m = .lagrange ∨ m = .krogh ∨ m = .pchip ∨ m = .akima ∨ m = .hermite)
    (order : ℕ) (I : Interpolant α) (vols freqs va : List α) :
    interpolateModeF m 0 I vols freqs va = .error .zeroDivision ∧
      (order ≠ 0 → interpolateModeF m order I [] freqs va = .error .valueError) ∧
      (vols.length = freqs.length → vols ≠ [] → interpolateModeF m order I vols freqs va = interpolateMode m order I vols freqs va) := by
  refine ⟨?_, ?_, fun hl hne => interpolateModeF_eq m order I vols freqs va hl hne⟩
  · rcases hm with rfl | rfl | rfl | rfl | rfl <;> rfl
  · intro ho
    have hz : thinInterval 0 order = 0 := by
      simp only [thinInterval, Nat.zero_add]
      exact Nat.div_eq_of_lt (by omega)
    rcases hm with rfl | rfl | rfl | rfl | rfl <;> simp [interpolateModeF, modeNodesF, hz, ho, bind, Except.bind]

/-- **`lstsq_polyfit` is the source's.**  `order += 1`; the matrix handed to `numpy.linalg.lstsq` is `numpy.vander(xs, order + 1)` — the
model's `vander`: `order + 1` columns, DECREASING powers `[x^order, …, x, 1]` — with the 1-d right-hand side `ys` of the ONE call;
the solution is returned as it is, together with `polyval` of it (highest power first) at `new_xs`.  For every solver `env.lstsq`. -/
theorem mode_glue_src_lstsq_polyfit (env : Env α) (fuel order : ℕ) (xs ys new : List α) :
    runFn fns env (fuel + 1) "lstsq_polyfit" [.arr xs, .arr ys, .arr new] [("order", .nat order)]
      = (Out.ofExcept (env.lstsq (vander xs (order + 1)) ys)).map fun a => .tuple2 (.arr a) (.arr (new.map (polyval a))) :=
  lstsq_polyfit_is_source env fuel order xs ys new

/-- **`interpolate_mode_lsq_poly` is the source's**: all volumes in file order (no thinning, no flip), `log` of nodes, values and grid,
one `lstsq_polyfit` call with `order=order`, `exp` of the fitted values, `−polyval(polyder(p, 1))`, `−polyval(polyder(p, 2))` — the
model's `interpolateModeF .lsqPoly` run with the least-squares kernel over the SAME solver (`lsqKernel`: `vander(x, order + 1)`,
1-d right-hand side).  No cap on the number of coefficients, no centring. -/
theorem mode_glue_src_lsq_poly (env : Env α) (order : ℕ) (vols freqs va : List α) :
    runFn fns env 2 "interpolate_mode_lsq_poly" [.arr vols, .arr freqs, .arr va] [("order", .nat order)]
      = (Out.ofExcept (interpolateModeF .lsqPoly order (lsqKernel env.lstsq order) vols freqs va)).map colsVal :=
  lsq_poly_is_source env order vols freqs va

/-- … and with a solver that returns on Vandermonde systems what the model's exact solver returns (the contract of
`numpy.linalg.lstsq`; `lstsqPolyfit` IS the least-squares polynomial by `lsq_minimises` / `lsq_total`) that kernel is the model's
`lsqInterpolant` (with the zero solution of the system with no rows — no volume —: `lsqInterpolantF`), and the libraries of `stdEnv`
give every method exactly the kernel `kernelFull` names.
**Hypothesis (iii) discharged for the modelled kernels**: the Newton-form polynomial kernel (`lagrange`, `krogh`), the least-squares
kernel over ANY solver, `lsqInterpolantF`, and the modelled scipy classes `PchipInterpolator` / `Akima1DInterpolator`
(`CijModel/PPoly.lean`) each return exactly one sample per evaluation point; so with `stdEnv` the loop's kernel contract is a
hypothesis for the FITPACK spline only. -/
theorem mode_glue_src_kernels {β : Type} [Add β] [Sub β] [Mul β] [Div β] [Neg β] [Zero β] [One β] [NatCast β] [BEq β] [LT β]
    [DecidableLT β] [LE β] [DecidableLE β] [ExpLog β] (lib : Interpolant β) (S : List (List β) → List β → Except Err (List β))
    (m : Method) (order : ℕ) :
    (SolvesVander S → lsqKernel S order = lsqInterpolant order ∧
        (stdEnv lib S).kernelFor m order = Cij.PPoly.kernelFull m order lib) ∧
      (SolvesVanderF S → lsqKernel S order = lsqInterpolantF order) ∧
      (LenOK (newtonInterpolant : Interpolant β) ∧ LenOK (lsqKernel S order) ∧ LenOK (lsqInterpolantF order : Interpolant β) ∧
        LenOK (Cij.PPoly.pchipInterpolant : Interpolant β) ∧ LenOK (Cij.PPoly.akimaInterpolant : Interpolant β)) ∧
      ((m = .spline → LenOK lib) → LenFor m ((stdEnv lib S).kernelFor m order)) :=
  ⟨fun hS => ⟨lsqKernel_model S hS order, stdEnv_kernelFor lib S hS m order⟩, fun hS => lsqKernel_modelF S hS order,
    ⟨lenOK_newton, lenOK_lsqKernel S order, lenOK_lsqInterpolantF order, lenOK_hermite _, lenOK_hermite _⟩,
    fun h => stdEnv_lenFor lib S m order h⟩

/-- **`interpolate_modes` is the source's — for EVERY input** (round 5: hypotheses (i) "at least one volume" and (ii) "every block carries
the header's nq × np frequencies" are gone; the model raises what the source raises).  For every method string `s` (the seven of the
dispatch table, or any other: no branch, zero arrays), every order, every list of volume blocks of whatever shapes, every library whose
kernel — where one is called — returns one sample per evaluation point: the interpretation of the translated function — `nq`, `np` from
the header, `ntv = v_array.shape[0]`; three `numpy.zeros((ntv, nq, np))`; `mode_volumes` from `qha_input.volumes`; `for j in range(nq):
for k in range(np):` with the single skip `j == 0 and k in range(3)` BEFORE anything is read; `mode_freqs` =
`[volume.q_points[j].modes[k] for volume in …]` — `IndexError` at the first volume (file order) of the first `(j, k)` (loop order)
that lacks the entry, also for a method outside the table —; the method → function dispatch with `order=order` (and `method=method` for
the ppoly branch) — no volume: `ValueError` of `[::0]` for the five thinning methods —; targets `[:, j, k]` of the three arrays in the order
of the returned triple; `return` in that order — IS the model's `interpolateModesF` (same arrays, same first exception in loop order). -/
theorem mode_glue_src_loop (env : Env α) (s : String) (order nv nq np : ℕ) (volumes : List (α × List (List α))) (va : List α)
    (hI : LenFor (Method.ofString s) (env.kernelFor (Method.ofString s) order)) :
    loop.run fns env [.qha nv nq np volumes, .arr va, .str s, .nat order]
      = (Out.ofExcept (interpolateModesF (Method.ofString s) order (env.kernelFor (Method.ofString s) order)
            (volumes.map (·.1)) va nq np (volumes.map (·.2)))).map fun r => [r.1, r.2.1, r.2.2] :=
  loop_is_source env s order nv nq np volumes va hI

/-- … with the libraries as the model has them (`stdEnv`) the ONLY hypothesis left is the contract of the FITPACK spline, and only when
the method is `spline` -/
theorem mode_glue_src_loop_std {β : Type} [Add β] [Sub β] [Mul β] [Div β] [Neg β] [Zero β] [One β] [NatCast β] [BEq β] [LT β]
    [DecidableLT β] [LE β] [DecidableLE β] [ExpLog β] (lib : Interpolant β) (S : List (List β) → List β → Except Err (List β))
    (s : String) (order nv nq np : ℕ) (volumes : List (β × List (List β))) (va : List β)
    (hlib : Method.ofString s = .spline → LenOK lib) :
    loop.run fns (stdEnv lib S) [.qha nv nq np volumes, .arr va, .str s, .nat order]
      = (Out.ofExcept (interpolateModesF (Method.ofString s) order ((stdEnv lib S).kernelFor (Method.ofString s) order)
            (volumes.map (·.1)) va nq np (volumes.map (·.2)))).map fun r => [r.1, r.2.1, r.2.2] :=
  loop_is_source (stdEnv lib S) s order nv nq np volumes va (stdEnv_lenFor lib S _ order hlib)

/-- **the faithful model on well-formed inputs is the model of the other theorems**: with at least one volume and every block carrying
the `nq × np` frequencies of the header, `interpolateModesF` is `interpolateModes` (about which `triple_consistent`, the exactness
theorems, C12 and C13 are stated); and a series that can be read is `series` -/
theorem mode_glue_src_wellformed (m : Method) (order : ℕ) (I : Interpolant α) (va : List α) (nq np : ℕ)
    (volumes : List (α × List (List α))) (hne : volumes ≠ []) (hshape : Shaped volumes nq np) :
    interpolateModesF m order I (volumes.map (·.1)) va nq np (volumes.map (·.2))
        = interpolateModes m order I (volumes.map (·.1)) va nq np (volumes.map (·.2)) ∧
      ∀ j k ser, seriesE (volumes.map (·.2)) j k = .ok ser → ser = series (volumes.map (·.2)) j k :=
  ⟨interpolateModesF_eq m order I va nq np volumes hne hshape, fun j k ser h => seriesE_ok _ j k ser h⟩

/-- **one independent fit per mode, indexed (v, q, m)** — for every input.  Whenever the translated `interpolate_modes` returns
`[F, G, D]`: at every grid index `t`, q-point `j`, mode `k`
* Γ-acoustic (`j = 0`, `k < 3`): the three entries are exactly `0` (whether or not the input carries those frequencies);
* otherwise: EVERY volume block carries the frequency `(j, k)` — the series `[volume.q_points[j].modes[k] for volume in volumes]` was
  read without `IndexError` — and (a method of the table) the entries are the `t`-th sample of the fit of `interpolateModeF` on THAT
  mode's own series and the node volumes — nothing of any other mode enters, nothing is reused between modes (the kernel is called
  afresh on these arguments). -/
theorem mode_glue_src_one_fit_per_mode (env : Env α) (s : String) (order nv nq np : ℕ) (volumes : List (α × List (List α)))
    (va : List α) (hI : LenFor (Method.ofString s) (env.kernelFor (Method.ofString s) order))
    (F G D : List (List (List α)))
    (h : loop.run fns env [.qha nv nq np volumes, .arr va, .str s, .nat order] = .ok [F, G, D])
    (t j k : ℕ) (ht : t < va.length) (hj : j < nq) (hk : k < np) :
    (j = 0 ∧ k < 3 → entry F t j k = some 0 ∧ entry G t j k = some 0 ∧ entry D t j k = some 0) ∧
      (¬(j = 0 ∧ k < 3) →
        seriesE (volumes.map (·.2)) j k = .ok (volumes.map fun vl => (vl.2.getD j []).getD k 0) ∧
        (Method.ofString s ≠ .unknown →
          ∃ col, interpolateModeF (Method.ofString s) order (env.kernelFor (Method.ofString s) order) (volumes.map (·.1))
              (volumes.map fun vl => (vl.2.getD j []).getD k 0) va = .ok col ∧
            entry F t j k = some (col.getD t (0, 0, 0)).1 ∧ entry G t j k = some (col.getD t (0, 0, 0)).2.1 ∧
            entry D t j k = some (col.getD t (0, 0, 0)).2.2)) := by
  rw [loop_is_source env s order nv nq np volumes va hI, interpolateModesF_eq_modesOf] at h
  have hm : modesOf (cellF (Method.ofString s) order (env.kernelFor (Method.ofString s) order) (volumes.map (·.1)) va
      (volumes.map (·.2))) va nq np = .ok (F, G, D) := by
    cases hx : modesOf (cellF (Method.ofString s) order (env.kernelFor (Method.ofString s) order) (volumes.map (·.1)) va
        (volumes.map (·.2))) va nq np with
    | error e => rw [hx] at h; simp [Out.ofExcept, Out.map] at h
    | ok r =>
      rw [hx] at h
      obtain ⟨a, b, c⟩ := r
      simp only [Out.ofExcept, Out.map, bind_ok, Out.ok.injEq, List.cons.injEq, and_true] at h
      obtain ⟨rfl, rfl, rfl⟩ := h
      rfl
  obtain ⟨col, hcol, e1, e2, e3⟩ := modesOf_cell _ va nq np F G D hm t j k ht hj hk
  have hser : series (volumes.map (·.2)) j k = volumes.map fun vl => (vl.2.getD j []).getD k 0 := by
    simp [series, List.map_map, Function.comp_def]
  constructor
  · rintro ⟨rfl, hk3⟩
    have hcond : ((0 : ℕ) == 0 && decide (k < 3)) = true := by simp [hk3]
    have : col = va.map fun _ => ((0 : α), (0 : α), (0 : α)) := by
      rw [cellF, if_pos hcond] at hcol
      exact (Except.ok.inj hcol).symm
    subst this
    simp only [List.getD_eq_getElem?_getD, List.getElem?_map, List.getElem?_eq_getElem ht, Option.map_some,
      Option.getD_some] at e1 e2 e3
    exact ⟨e1, e2, e3⟩
  · intro hs
    have hcond : (j == 0 && decide (k < 3)) = false := by
      simpa using hs
    rw [cellF, hcond] at hcol
    simp only [Bool.false_eq_true, if_false] at hcol
    cases hse : seriesE (volumes.map (·.2)) j k with
    | error e => rw [hse] at hcol; cases hcol
    | ok ser =>
      have hser' : ser = volumes.map fun vl => (vl.2.getD j []).getD k 0 := by
        rw [← hser]; exact seriesE_ok _ j k ser hse
      subst hser'
      refine ⟨rfl, fun hmu => ⟨col, ?_, e1, e2, e3⟩⟩
      have hmu' : (Method.ofString s == Method.unknown) = false := by simpa using hmu
      rw [hse] at hcol
      simpa [hmu'] using hcol

/-- non-vacuity of `mode_glue_src_loop` / `…_one_fit_per_mode`: a well-shaped input (three volumes, one q-point, four modes), and the
translated loop RUN on it (scalar ℚ with exp = log = id, `lsq_poly` of order 1 with the exact solver on the abscissae read back from
the Vandermonde matrix): the same arrays as the model's run in the example after `hermite_raises` — the Γ-acoustic entries 7, 8, 9 of
the input are ignored, the fourth mode is fitted on its own series 1, 3, 5 at volumes 1, 2, 3 -/
example :
    letI : ExpLog ℚ := ⟨id, id⟩
    loop.run (α := ℚ) fns (stdEnv (β := ℚ) (fun _ _ _ => Except.error Err.valueError)
        (fun A b => match lstsqPolyfit (A.map fun r => r.getD (r.length - 2) 0) b ((A.headD []).length - 1) with
          | some a => Except.ok a | none => Except.error Err.linAlg))
      [.qha 3 1 4 [((1 : ℚ), [[7, 7, 7, 1]]), (2, [[8, 8, 8, 3]]), (3, [[9, 9, 9, 5]])], .arr [4], .str "lsq_poly", .nat 1]
      = Out.ok [[[[0, 0, 0, 7]]], [[[0, 0, 0, -2]]], [[[0, 0, 0, 0]]]] := by decide +kernel

example : Shaped [((1 : ℚ), [[7, 7, 7, 1]]), (2, [[8, 8, 8, 3]]), (3, [[9, 9, 9, 5]])] 1 4 := by
  intro vl hvl j hj k hk
  have hj0 : j = 0 := by omega
  subst hj0
  simp only [List.mem_cons, List.not_mem_nil, or_false] at hvl
  have hk4 : k = 0 ∨ k = 1 ∨ k = 2 ∨ k = 3 := by omega
  rcases hvl with rfl | rfl | rfl <;> rcases hk4 with rfl | rfl | rfl | rfl <;> simp

/-- the malformed inputs, RUN through the translated loop (ℚ, exp = log = id, the libraries of `stdEnv`) and through the model:
(`runQ`, Lemmas/ModeGammaGlueSource.lean: the q-point count of the header is 1, the grid `[4]`)
* no volume: `ValueError` for `lagrange` / `pchip` / `hermite` (the `[::0]` slice; `hermite` never reaches its `TypeError`),
  `ZeroDivisionError` for order 0, three zero arrays for a method outside the table, and for `spline` whatever the constructor raises
  on empty arrays (here the stand-in library's `ValueError`; scipy: `IndexError`, compared by the harness);
* the second volume lacks the fourth mode of Γ: `IndexError`, also for a method outside the table — but a block that lacks only
  Γ-ACOUSTIC entries is not noticed (those are skipped before anything is read). -/
example :
    runQ [] 4 "lagrange" 3 = .raise .valueError ∧ runQ [] 4 "pchip" 3 = .raise .valueError ∧
      runQ [] 4 "hermite" 3 = .raise .valueError ∧ runQ [] 4 "krogh" 0 = .raise .zeroDivision ∧
      runQ [] 4 "nosuchmethod" 3 = .ok [[[[0, 0, 0, 0]]], [[[0, 0, 0, 0]]], [[[0, 0, 0, 0]]]] ∧
      runQ [] 4 "spline" 3 = .raise .valueError ∧
      runQ [(1, [[7, 7, 7, 1]]), (2, [[8, 8, 8]]), (3, [[9, 9, 9, 5]])] 4 "lagrange" 2 = .raise indexError ∧
      runQ [(1, [[7, 7, 7, 1]]), (2, [[8, 8, 8]]), (3, [[9, 9, 9, 5]])] 4 "nosuchmethod" 2 = .raise indexError ∧
      runQ [(1, [[7]]), (2, [[]]), (3, [[9, 9]])] 3 "lagrange" 2 = .ok [[[[0, 0, 0]]], [[[0, 0, 0]]], [[[0, 0, 0]]]] := by
  refine ⟨?_, ?_, ?_, ?_, ?_, ?_, ?_, ?_, ?_⟩ <;> decide +kernel

example :
    letI : ExpLog ℚ := ⟨id, id⟩
    (interpolateModesF (α := ℚ) .lagrange 3 newtonInterpolant [] [4] 1 4 [] = .error .valueError ∧
      interpolateModesF (α := ℚ) .lagrange 2 newtonInterpolant [1, 2, 3] [4] 1 4 [[[7, 7, 7, 1]], [[8, 8, 8]], [[9, 9, 9, 5]]]
        = .error indexError ∧
      -- where the total model of the earlier rounds answers with a default: an interpolation through the made-up value 0
      (interpolateModes (α := ℚ) .lagrange 2 newtonInterpolant [1, 2, 3] [4] 1 4 [[[7, 7, 7, 1]], [[8, 8, 8]], [[9, 9, 9, 5]]]).toBool
        = true ∧
      -- no volume, least squares: numpy's zero solution, no exception (ω = exp 0, γ = −0, V∂γ/∂V = −0)
      interpolateModesF (α := ℚ) .lsqPoly 2 (lsqInterpolantF 2) [] [4] 1 4 [] = .ok ([[[0, 0, 0, 0]]], [[[0, 0, 0, 0]]], [[[0, 0, 0, 0]]])) :=
  ⟨by decide +kernel, by decide +kernel, by decide +kernel, by decide +kernel⟩

/-- a decimal logarithm or a sorted grid has NO interpretation: an expression the semantics does not know is `stuck`, never a default -/
example :
    letI : ExpLog ℚ := ⟨id, id⟩
    (Ex.call (.other "numpy.log10") [.var "v"] []).eval (α := ℚ) (stdEnv (β := ℚ) (fun _ _ _ => Except.error Err.valueError)
        fun _ _ => Except.error Err.linAlg) (fun _ _ _ => Out.stuck) [("v", .arr [1])] = Out.stuck ∧
      (Ex.call (.other "numpy.sort") [.var "v"] []).eval (α := ℚ) (stdEnv (β := ℚ) (fun _ _ _ => Except.error Err.valueError)
        fun _ _ => Except.error Err.linAlg) (fun _ _ _ => Out.stuck) [("v", .arr [1])] = Out.stuck :=
  ⟨rfl, rfl⟩

end GlueSrc

/-! #### the glue is the source's -/

/-- **model-is-source** for the glue of `mode_gamma.py`.  For every method `m` that dispatches to a source function `f`
(`interpolate_modes`' if-chain, compared by the translator): (1) `f`'s returned triple, as extracted from the source on this run,
is `(exp ·(order 0), −·(order 1), −·(order 2))`; (2) `finishMode` applies exactly that pattern to the kernel's samples;
(3) `modeNodes` thins and flips the nodes exactly as `f` does.  A source change to a sign, a derivative order, the `exp`,
the thinning stride or a flip changes `Generated/ModeGammaSpec.lean` and this theorem stops checking. -/
theorem mode_glue_is_source {α : Type} [Neg α] [Zero α] [ExpLog α] (m : Method) (f : String) (h : m.pyFunction = some f)
    (order : ℕ) (ho : order ≠ 0) (I : Interpolant α) (vols freqs nv nf va : List α) :
    Generated.modeReturnPattern.lookup f = some canonicalPattern ∧
    (finishMode I nv nf va = (do
      let r ← I (nv.map ExpLog.log) (nf.map ExpLog.log) (va.map ExpLog.log)
      pure (r.map fun t => (applyElem t (true, false, 0), applyElem t (false, true, 1), applyElem t (false, true, 2))))) ∧
    ∃ sp, Generated.modeNodesSpec.lookup f = some sp ∧
      modeNodes m order vols freqs = .ok (nodesBySpec sp order vols, nodesBySpec sp order freqs) := by
  refine ⟨?_, finish_is_pattern I nv nf va, mode_nodes_is_source m f h order ho vols freqs⟩
  cases m <;> simp [Method.pyFunction] at h <;> subst h <;> decide

/-- **model-is-source for the ppoly branch.**  On this run the translator (`tools/gens/ppoly.py`) found in `interpolate_mode_ppoly`:
(1) the dispatch `pchip → PchipInterpolator`, `akima → Akima1DInterpolator`, `hermite → CubicHermiteSpline` — the classes `kernelFull` /
`interpolateMode` model for these methods; (2) three evaluation calls `nu = 0, 1, 2`, each with `extrapolate=True` — exactly what
`PPoly.sample` computes (whatever the class default); (3) a constructor call with the two positional arguments
`flip(log(mode_volumes))`, `flip(log(mode_freqs))` and no keyword, evaluated at `log(v_array)` — exactly what the model's kernel receives.
Dropping `extrapolate=True`, swapping `nu`, another class, an extra keyword (`method="makima"`), evaluating at `v_array`: each changes
`Generated/PPolySpec.lean` and this theorem stops checking. -/
theorem ppoly_glue_is_source {α : Type} [Add α] [Sub α] [Mul α] [Div α] [Neg α] [Zero α] [One α] [NatCast α] [LT α] [DecidableLT α]
    [LE α] [DecidableLE α] [ExpLog α] (I : Interpolant α) (tv tf va xs ys ds : List α) (q : α) (dflt : Bool) :
    (Generated.ppolyDispatch.map (·.1) = ["pchip", "akima", "hermite"] ∧
      ∀ e ∈ Generated.ppolyDispatch, Cij.PPoly.scipyClass (Method.ofString e.1) = some e.2) ∧
    Cij.PPoly.sample xs ys ds q
      = (Cij.PPoly.sampleBySpec Generated.ppolyEvalCalls dflt xs ys ds q).bind Cij.PPoly.tripleOfList ∧
    (Generated.ppolyCtorKeywords = [] ∧ Generated.ppolyEvalAbscissa = "numpy.log(v_array)" ∧
      ∃ a0 a1 x y, Generated.ppolyCtorArgs = [a0, a1] ∧ Cij.PPoly.ctorArgBySpec a0 tv tf = some x ∧
        Cij.PPoly.ctorArgBySpec a1 tv tf = some y ∧
        finishMode I tv.reverse tf.reverse va = (do
          let r ← I x y (va.map ExpLog.log)
          pure (r.map fun (s, s1, s2) => (ExpLog.exp s, -s1, -s2)))) :=
  ⟨Cij.PPoly.dispatch_is_source, Cij.PPoly.sample_is_source dflt xs ys ds q, Cij.PPoly.ctor_is_source I tv tf va⟩

/-- the two numeric constants of the slope rules are the literals of the INSTALLED scipy's `_cubic.py` (`break_mult = 1.e-9`,
`_edge_case`'s `3.`), whose four functions the model mirrors are pinned on their normalised ast by the same translator run -/
theorem ppoly_constants_are_scipy {K : Type} [Field K] :
    (Cij.PPoly.breakMult : K) = (Generated.akimaBreakMult.1 : K) / (Generated.akimaBreakMult.2 : K) ∧
      (Cij.PPoly.three : K) = (Generated.pchipEdgeFactor : K) ∧ Generated.scipyCubicPinned = true :=
  ⟨Cij.PPoly.breakMult_is_source, Cij.PPoly.edgeFactor_is_source, rfl⟩

/-- non-vacuity: with `extrapolate=False` (what dropping the keyword would mean for Akima) a query outside the nodes has no value,
with `True` it is the first piece's cubic -/
example : Cij.PPoly.evalBySpec false ([0, 1, 3] : List ℚ) [0, 2, 3] [1, 1, 1] 0 (-1) = none ∧
    Cij.PPoly.evalBySpec true ([0, 1, 3] : List ℚ) [0, 2, 3] [1, 1, 1] 0 (-1) = some 4 := by decide +kernel

/-- all five source functions are covered, and all return the canonical pattern -/
theorem mode_return_pattern_all : Generated.modeReturnPattern.length = 5 ∧
    ∀ e ∈ Generated.modeReturnPattern, e.2 = canonicalPattern := ⟨by decide, return_pattern_is_source⟩

/-- non-vacuity: `pchip` dispatches to `interpolate_mode_ppoly`, which thins and flips; `lsq_poly` does neither -/
example : Method.pchip.pyFunction = some "interpolate_mode_ppoly" ∧
    Generated.modeNodesSpec.lookup "interpolate_mode_ppoly" = some (true, true) ∧
    Generated.modeNodesSpec.lookup "interpolate_mode_lsq_poly" = some (false, false) := by decide

/-! #### the diagnostic plot, as written in cij/plot/modes.py and cij/cli/modes.py now -/

/-- **plot_select_is_source.**  For EVERY integer n the model's selection (`plot_select`: ω, γ, V∂γ/∂V for n = 0, 1, 2, nothing otherwise) is
the interpretation of the selection chain translated from `ModePlotter.plot_modes` on this run, applied to `mode_gamma = [V∂γ/∂V, γ, γ²]` as
`Calculator._interpolate_modes` builds it (translated from calculator.py on this run). -/
theorem plot_select_is_source (n : Int) :
    plotSelect n = Cij.PlotModesSource.selectBy Generated.PlotModes.selection Generated.CalcGlue.interpolateModes.gamma
      Generated.CalcGlue.interpolateModes.freqAttr Generated.CalcGlue.interpolateModes.gammaAttr n :=
  Cij.PlotModesSource.plotSelect_is_source n

/-- the command `cij modes` hands `-n` to `n` and `-q`/`--iq` to `iq` of `plot_modes`, in the declared order; Γ-acoustic skip and loops as
translated -/
theorem plot_command_wiring_is_source :
    Generated.PlotModes.plotParams = ["ax", "n", "iq"] ∧
    Generated.PlotModes.cliCallArgs.drop 1 = Generated.PlotModes.plotParams.drop 1 ∧
    Generated.PlotModes.gammaSkip = 3 ∧ Generated.PlotModes.loopsCanonical = true :=
  ⟨Cij.PlotModesSource.cli_modes_wiring_is_source.1, Cij.PlotModesSource.cli_modes_wiring_is_source.2.1,
   Cij.PlotModesSource.plot_loops_are_source.1, Cij.PlotModesSource.plot_loops_are_source.2.1⟩

end Cij.C11
