/-
  C02 — the adiabatic − isothermal gap is T·V·(∂P_ph/∂T)²/(9 e_i e_j C_V); zero at T = 0 and for shear.

  Subject: `isoToAdiaAt`, `valueAdiabatic…At` and the `calculate` loop of `CijModel/NonShear.lean` at ℝ
  (setting and notation as in `Properties/C01.lean`).  P_ph(T,V) = −∂F_ph/∂V (`Pof (Fph h k T w S) V`), and
  ∂P_ph/∂T is the `deriv` of T ↦ P_ph(T,V): the mixed derivative −∂²F_ph/∂T∂V of the same spectrum.
  C_V is whatever the QHA layer supplies (a parameter `cv ≠ 0`).
-/
import CijProofs.Lemmas.NonShearCalculus
import CijProofs.Lemmas.NonShearSource
import Generated.AdapterSpec
import CijProofs.Lemmas.ShearSource
import CijProofs.Lemmas.TasksSource
import CijProofs.Lemmas.QhaGlueSource

namespace Cij.C02

open Cij.NonShear

/-! #### one mode -/

/-- ∂/∂T of the thermal pressure (kT/V) γ Q₁(hω/kT) of one mode is (k/V) γ Q₂, at every T > 0 -/
theorem c02_mode_dPdT (k hdk T : ℝ) (hhdk : 0 < hdk) (hT : 0 < T) (m : Mode) (hm : m.Good) (V : ℝ) (hV : 0 < V) :
    let Q := fun T' => hdk * (m.ω V / T')
    HasDerivAt (fun T' => k * T' / V * m.γ V * (Q T' / (Real.exp (Q T') - 1)))
      (k / V * m.γ V * (Q T ^ 2 * Real.exp (Q T) / (Real.exp (Q T) - 1) ^ 2)) T := by
  intro Q
  have := hasDerivAt_pth_T k hdk T hhdk hT m hm V hV
  have hq : Q T ≠ 0 := (Qm_pos m hm hV hhdk hT).ne'
  simp only [pth, dpth, Qm, q1_real] at this
  rw [q2_eq_classic _ hq] at this
  exact this

/-! #### the gap formula -/

section Spectrum
variable (h k hdk : ℝ) (na : ℕ) (S : List (List Mode)) (w : List ℝ)
variable (hh : 0 < h) (hk : 0 < k) (hhdk : hdk = h / k)
variable (hna : na ≠ 0) (hlen : ∀ row ∈ S, row.length = 3 * na) (hw : sumL w ≠ 0) (hS : GoodS S)

/-- (∂P_ph/∂T)_V = −∂²F_ph/∂T∂V of the spectrum -/
noncomputable def dPdT (T V : ℝ) : ℝ := deriv (fun T' => Pof (Fph h k T' w S) V) T

include hh hk hhdk hna hlen hw hS in
/-- **C02, longitudinal class** (strain pair (e_i, e_j); the code passes (e_i, e_i)):
isothermal_to_adiabatic = T·V·(∂P_ph/∂T)²/(9 e_i e_j C_V) at every T ≥ 0, V > 0, C_V ≠ 0. -/
theorem c02_gap_longitudinal (T V ei ej pst cv : ℝ) (hT : 0 ≤ T) (hV : 0 < V) (_hei : ei ≠ 0) (_hej : ej ≠ 0)
    (_hcv : cv ≠ 0) :
    isoToAdiaAt k hdk na T V cv (mgLong (sliceOf S V ei ej pst)) (freqOf S V) w
      = T * V * (dPdT h k S w T V) ^ 2 / (9 * (ei * ej) * cv) := by
  rcases hT.eq_or_lt with h0 | hpos
  · subst h0; simp [isoToAdiaAt]
  · unfold dPdT
    rw [(Pph_hasDerivAt_T h k hdk T hh hk hhdk hpos w S hS V hV).deriv]
    exact isoToAdia_eq k hdk na S w T V ei ej hna hlen hw (prefactorsLong ei ej)
      (by simp [prefactorsLong, prefactors, pfAxis, Generated.prefLong])
      (by simp [prefactorsLong, prefactors, pfAxis, Generated.prefLong]) cv hpos.ne' hV.ne'

include hh hk hhdk hna hlen hw hS in
/-- **C02, off-diagonal class**: the same formula with the two different strain fractions -/
theorem c02_gap_offdiagonal (T V ei ej pst cv : ℝ) (hT : 0 ≤ T) (hV : 0 < V) (_hei : ei ≠ 0) (_hej : ej ≠ 0)
    (_hcv : cv ≠ 0) :
    isoToAdiaAt k hdk na T V cv (mgOff (sliceOf S V ei ej pst)) (freqOf S V) w
      = T * V * (dPdT h k S w T V) ^ 2 / (9 * (ei * ej) * cv) := by
  rcases hT.eq_or_lt with h0 | hpos
  · subst h0; simp [isoToAdiaAt]
  · unfold dPdT
    rw [(Pph_hasDerivAt_T h k hdk T hh hk hhdk hpos w S hS V hV).deriv]
    exact isoToAdia_eq k hdk na S w T V ei ej hna hlen hw (prefactorsOff ei ej)
      (by simp [prefactorsOff, prefactors, pfAxis, Generated.prefOff])
      (by simp [prefactorsOff, prefactors, pfAxis, Generated.prefOff]) cv hpos.ne' hV.ne'

include hh hk hhdk hna hlen hw hS in
/-- adiabatic − isothermal of c_ii and of c_ij, as the code computes `value_adiabatic` -/
theorem c02_adiabatic_minus_isothermal (T V ei ej P pst cv : ℝ) (hT : 0 ≤ T) (hV : 0 < V) (hei : ei ≠ 0)
    (hej : ej ≠ 0) (hcv : cv ≠ 0) :
    let c : Consts ℝ := { h := h, k := k, hdk := hdk, na := na }
    valueAdiabaticLongAt c w T cv (sliceOf S V ei ei pst) - valueIsothermalLongAt c w T (sliceOf S V ei ei pst)
      = T * V * (dPdT h k S w T V) ^ 2 / (9 * (ei * ei) * cv) ∧
    valueAdiabaticOffAt c w T P cv (sliceOf S V ei ej pst) - valueIsothermalOffAt c w T P (sliceOf S V ei ej pst)
      = T * V * (dPdT h k S w T V) ^ 2 / (9 * (ei * ej) * cv) := by
  intro c
  constructor
  · unfold valueAdiabaticLongAt
    rw [add_sub_cancel_left]
    exact c02_gap_longitudinal h k hdk na S w hh hk hhdk hna hlen hw hS T V ei ei pst cv hT hV hei hei hcv
  · unfold valueAdiabaticOffAt
    rw [add_sub_cancel_left]
    exact c02_gap_offdiagonal h k hdk na S w hh hk hhdk hna hlen hw hS T V ei ej pst cv hT hV hei hej hcv

end Spectrum

/-! #### sign and T = 0 — for arbitrary arrays (no hypothesis on the spectrum) -/

/-- on the diagonal (both strain fractions equal) the gap is ≥ 0 whenever C_V > 0, T ≥ 0, V > 0 -/
theorem c02_diag_nonneg (k hdk : ℝ) (na : ℕ) (T V cv e pst : ℝ) (freq mg0 mg1 mg2 : List (List ℝ)) (w : List ℝ)
    (hT : 0 ≤ T) (hV : 0 < V) (hcv : 0 < cv) :
    let s : VolSlice ℝ := { V := V, e0 := e, e1 := e, pstatic := pst, freq := freq, mg0 := mg0, mg1 := mg1, mg2 := mg2 }
    0 ≤ isoToAdiaAt k hdk na T V cv (mgLong s) s.freq w := by
  intro s
  unfold isoToAdiaAt
  by_cases h0 : T = 0
  · simp [h0]
  · simp only [isZero_real, h0, decide_false, Bool.false_eq_true, if_false]
    have hg : (mgLong s).g10 = (mgLong s).g11 := by
      simp [mgLong, modeGamma, prefactorsLong, prefactors, Generated.prefLong, s]
    rw [hg]
    have h1 : 0 ≤ T / V / cv := by positivity
    set a := averageOverModes (zw2 (· * ·) (Q2arr hdk T s.freq) (mgLong s).g11) w
    have : T / V / cv * a * a * (nat 3 * k * nat na * (nat 3 * k * nat na))
        = T / V / cv * ((a * (nat 3 * k * nat na)) * (a * (nat 3 * k * nat na))) := by ring
    rw [this]
    exact mul_nonneg h1 (mul_self_nonneg _)

/-- in the formula itself: T·V·x²/(9e²C_V) ≥ 0 -/
theorem c02_formula_nonneg (T V x e cv : ℝ) (hT : 0 ≤ T) (hV : 0 < V) (he : 0 < e) (hcv : 0 < cv) :
    0 ≤ T * V * x ^ 2 / (9 * (e * e) * cv) := by positivity

/-- rows with T = 0: the gap is exactly 0 and value_adiabatic = value_isothermal, for both classes -/
theorem c02_T0 (c : Consts ℝ) (w : List ℝ) (P cv : ℝ) (s : VolSlice ℝ) (g : ModeGamma ℝ) :
    isoToAdiaAt c.k c.hdk c.na 0 s.V cv g s.freq w = 0 ∧
    valueAdiabaticLongAt c w 0 cv s = valueIsothermalLongAt c w 0 s ∧
    valueAdiabaticOffAt c w 0 P cv s = valueIsothermalOffAt c w 0 P s := by
  simp [isoToAdiaAt, valueAdiabaticLongAt, valueAdiabaticOffAt]

/-! #### components carrying a Voigt index 4–6 -/

/-- shear.py: `value_adiabatic` *is* `value_isothermal` -/
theorem c02_shear_value_equal {κ β : Type} (target : Store κ β → β) (isoStore : Store κ β) :
    shearValueAdiabatic target isoStore = shearValueIsothermal target isoStore := rfl

/-- after `PhononContributionTaskList.calculate` over *any* task list (any order, any number of tasks, any
shear target functions), every shear key holds the same value in the adiabatic and the isothermal store -/
theorem c02_shear_equal {κ β : Type} [DecidableEq κ] (isShear : κ → Bool) (tasks : List (Task κ β))
    (hwf : ∀ t ∈ tasks, t.WF isShear) (key : κ) (hkey : isShear key = true) :
    (calculate tasks).1 key = (calculate tasks).2 key :=
  foldl_step_preserves isShear tasks hwf _ (fun _ _ => rfl) key hkey

/-! #### non-vacuity -/

/-- the hypotheses of the gap theorems are satisfiable (spectrum of `Properties/C01`), and for that spectrum
at h = k = 1, T = V = 1, e = 1/3, C_V = 1 the gap is a strictly positive number -/
example : GoodS [List.replicate 6 (invMode 100)] := by
  intro row hr m hm
  simp only [dropΓ, List.mem_singleton] at hr
  subst hr
  have : m = invMode 100 := by
    simp only [List.replicate, List.drop, List.mem_cons] at hm
    rcases hm with h | h | h | h <;> first | exact h | simp at h
  rw [this]; exact invMode_good 100 (by norm_num)

example : 0 < isoToAdiaAt 1 1 2 1 1 1 (mgLong (sliceOf [List.replicate 6 (invMode 100)] 1 (1/3) (1/3) 0))
    (freqOf [List.replicate 6 (invMode 100)] 1) [2] := by
  rw [show mgLong (sliceOf [List.replicate 6 (invMode 100)] 1 (1/3) (1/3) 0)
      = modeGamma (prefactorsLong (1/3) (1/3)) (mg0Of [List.replicate 6 (invMode 100)] 1)
          (mg1Of [List.replicate 6 (invMode 100)] 1) (mg2Of [List.replicate 6 (invMode 100)] 1) from rfl]
  rw [isoToAdia_eq 1 1 2 [List.replicate 6 (invMode 100)] [2] 1 1 (1/3) (1/3) (by norm_num) (by simp) (by simp)
    (prefactorsLong (1/3) (1/3)) (by simp [prefactorsLong, prefactors, pfAxis, Generated.prefLong])
    (by simp [prefactorsLong, prefactors, pfAxis, Generated.prefLong]) 1 (by norm_num) (by norm_num)]
  have hq : 0 < q2 (100 : ℝ) := by
    rw [q2_eq_classic 100 (by norm_num)]
    have : Real.exp 100 - 1 ≠ 0 := exp_sub_one_ne (by norm_num)
    positivity
  have : dPth 1 1 1 [2] [List.replicate 6 (invMode 100)] 1 = 3 * q2 100 := by
    simp [dPth, wsum, dropΓ, List.replicate, dpth, Qm, invMode]; ring
  rw [this]; positivity

/-- a task list with a non-shear and a shear task, the shear one reading the isothermal store -/
example : (calculate (κ := Nat) (β := Int)
    [.nonShear 11 5 7, .shear 44 (fun st => (st 11).getD 0 + 1)]).2 44 = some 6 := by
  decide

/-! #### the model IS the source (bodies of `isothermal_to_adiabatic` and `value_adiabatic` re-extracted from nonshear.py
on this run; see the corresponding section of `Properties/C01.lean`) -/

open Cij.NSExpr in
theorem c02_model_is_source (c : Consts ℝ) (w : List ℝ) (T P cv : ℝ) (s : VolSlice ℝ) (g : ModeGamma ℝ) (a b d e : ℝ) :
    isoToAdiaAt c.k c.hdk c.na T s.V cv g s.freq w = evalBody (envAt c w T P cv s g a b d e) Generated.nsGapLong ∧
    isoToAdiaAt c.k c.hdk c.na T s.V cv g s.freq w = evalBody (envAt c w T P cv s g a b d e) Generated.nsGapOff ∧
    valueAdiabaticLongAt c w T cv s = evalBody (envAt c w T P cv s (mgLong s) a b (valueIsothermalLongAt c w T s)
        (isoToAdiaAt c.k c.hdk c.na T s.V cv (mgLong s) s.freq w)) Generated.nsAdiaLong ∧
    valueAdiabaticOffAt c w T P cv s = evalBody (envAt c w T P cv s (mgOff s) a b (valueIsothermalOffAt c w T P s)
        (isoToAdiaAt c.k c.hdk c.na T s.V cv (mgOff s) s.freq w)) Generated.nsAdiaOff :=
  ⟨rfl, rfl, rfl, rfl⟩

/-! #### the heat capacity handed over is the (T,V) field -/

/-- qha's (T,V)-grid fields and (T,P)-grid fields (its naming: `…_tv…` / `…_tp…`), and the grid arrays -/
def tvFields : List String := ["g_tv_ry", "f_tv_ry", "h_tv_ry", "u_tv_ry", "p_tv_au", "p_tv_gpa", "alpha_tv", "bt_tv_au", "bs_tv_au", "cv_tv_au", "s_tv_j"]
def tpFields : List String := ["g_tp_ry", "f_tp_ry", "h_tp_ry", "u_tp_ry", "v_tp_bohr3", "v_tp_ang3", "alpha_tp", "bt_tp_au", "bs_tp_au",
  "cv_tp_au", "cp_tp_au", "gamma_tp", "btp_tp"]
def gridArrays : List String := ["finer_volumes_bohr3", "desired_pressures", "temperature_array", "temperature_sample_array", ""]

/-- **adapter-is-source**: as translated from `qha_adapter.py` on this run, `QHAVolumeBaseInterface.heat_capacity` is qha's
`cv_tv_au` (C_V on the (T,V) grid, the field the formula divides by) and `.pressures` is `p_tv_au`; every array the volume
interface hands over is a (T,V) field or a grid array, never a (T,P) field; symmetrically for the pressure interface
(`volumes = v_tp_bohr3`, `p_array = desired_pressures`); `read_input` passes the file's fields unchanged.  A one-token slip
between the two interfaces changes the generated tables and this theorem stops checking. -/
theorem qha_adapter_fields_are_source :
    Generated.qhaVolumeBaseAttrs.lookup "heat_capacity" = some "cv_tv_au" ∧
    Generated.qhaVolumeBaseAttrs.lookup "pressures" = some "p_tv_au" ∧
    Generated.qhaPressureBaseAttrs.lookup "volumes" = some "v_tp_bohr3" ∧
    Generated.qhaPressureBaseAttrs.lookup "p_array" = some "desired_pressures" ∧
    (∀ e ∈ Generated.qhaVolumeBaseAttrs, e.2 ∈ tvFields ++ gridArrays) ∧
    (∀ e ∈ Generated.qhaPressureBaseAttrs, e.2 ∈ tpFields ++ gridArrays) ∧
    (∀ a ∈ tvFields, a ∉ tpFields) ∧
    Generated.qhaReadInputCanonical = true := by
  decide +kernel

/-! #### the glue IS the source: `cij/core/qha_adapter.py` and `cij/util/units.py` translated completely (tools/gens/qha_src.py →
Generated/QhaGlue.lean; meaning in CijModel/QhaGlue.lean, lemmas in Lemmas/QhaGlueSource.lean).  Which C_V, which pressure, on which
grid, in which units the gap T·V·(∂P/∂T)²/(9 e_i e_j C_V) is evaluated — re-read from the files on every run. -/

open Cij.QhaGlue in
/-- **inventory**: all 38 defs of qha_adapter.py and all 10 defs of units.py are translated as data (every statement inside the
grammar; `desired_pressure_status` by adapter_guard.py), none defined twice; classes, bases and module-level statements by kind
(imports, logger, classes; docstring, `_T`, the default `pint.UnitRegistry()`, `__all__`, defs) — nothing else is in the files -/
theorem c02_glue_is_source_inventory : AdapterInventory ∧ UnitsInventory :=
  ⟨adapter_inventory, units_inventory⟩

open Cij.QhaGlue Generated.QhaGlue in
/-- **the fields of the gap formula are the (T,V) fields on the adapter's own volume grid**.  Reading through the translated
properties and `__init__`s (abstract object graph): the adapter's `v_array` and `volume_base.v_array` are the same attribute
`finer_volumes_bohr3` of the ONE qha calculator `_load_qha_calculator` returns; `volume_base.heat_capacity` is its `cv_tv_au`,
`volume_base.pressures` its `p_tv_au`, `t_array` its `temperature_array` (not the sample array), `ntv = len(v_array)` -/
theorem c02_glue_is_source_fields :
    readChain adapterModule adapterObj ["v_array"] = some (.attr qhaObj "finer_volumes_bohr3") ∧
    readChain adapterModule adapterObj ["volume_base", "v_array"] = some (.attr qhaObj "finer_volumes_bohr3") ∧
    readChain adapterModule adapterObj ["volume_base", "heat_capacity"] = some (.attr qhaObj "cv_tv_au") ∧
    readChain adapterModule adapterObj ["volume_base", "pressures"] = some (.attr qhaObj "p_tv_au") ∧
    readChain adapterModule adapterObj ["t_array"] = some (.attr qhaObj "temperature_array") ∧
    readChain adapterModule adapterObj ["t_sample_array"] = some (.attr qhaObj "temperature_sample_array") ∧
    readChain adapterModule adapterObj ["ntv"] = some (.len (.attr qhaObj "finer_volumes_bohr3")) ∧
    GapFields := by
  have h := gap_fields
  exact ⟨h.2.1, h.2.2.1, h.2.2.2.1, h.2.2.2.2.1, h.2.2.2.2.2.1, h.2.2.2.2.2.2.2.2.1, h.2.2.2.2.2.2.2.2.2.1, h⟩

open Cij.QhaGlue in
/-- **objects and tables**: `calculator`, `volume_base_results`, `pressure_base_results` are assigned once, in `__init__` (every read of
`volume_base` / `pressure_base` returns the object made at construction; `v2p` is `pass`); the property → attribute tables of
`gen_adapter_spec` agree row by row with the object-graph reading -/
theorem c02_glue_is_source_objects : ObjectsStable ∧ TablesAgree := ⟨objects_stable, tables_agree⟩

open Cij.QhaGlue in
/-- **which grid**: `_load_qha_calculator` calls `read_input(qha_input)` → `refine_grid()` → `desired_pressure_status()` on the calculator
it returns (this translation and adapter_guard.py's agree), so the fields are those of the refined grid; cij's `Calculator` defines no
`v_array` / `t_array` and delegates unknown attributes to `qha_calculator` (calc_src.py), and the non-shear classes read
`self.calculator.v_array`, `.t_array`, `.qha_calculator` (nonshear_src.py) -/
theorem c02_glue_is_source_grid :
    loadCalls = Generated.adapterLoadCalls ∧
    loadCalls = [("read_input", "qha_input"), ("refine_grid", ""), ("desired_pressure_status", "")] ∧ Delegation :=
  ⟨load_calls_agree.1, load_calls_agree.2, delegation⟩

open Cij.QhaGlue in
/-- **`read_input`** (every ordered scalar type, `Float` included): the translated statements hand qha the file's five fields
unchanged when `qha.tools.is_monotonic_decreasing(volumes)`, and raise RuntimeError otherwise -/
theorem c02_glue_is_source_read_input {α : Type} [Sub α] [LE α] [DecidableLE α] [OfNat α 0] (vols : List α) :
    runReadInput vols readInputBody [] =
      some (if isMonotonicDecreasing vols then .ok fiveFields else .error "RuntimeError") :=
  read_input_is_source vols

open Cij.QhaGlue in
/-- **volume blocks not in decreasing order are rejected** (the source's behaviour behind C13's "or is rejected"): over ℝ, ℚ, ℤ — any
linearly ordered additive group — a list of volumes is accepted iff every volume is ≤ its predecessor, and one increase anywhere
raises RuntimeError before anything is computed -/
theorem c02_glue_is_source_volume_order {α : Type} [AddCommGroup α] [LinearOrder α] [IsOrderedAddMonoid α] (vols : List α) :
    (runReadInput vols readInputBody [] = some (.ok fiveFields) ↔ ∀ i (h : i + 1 < vols.length), vols[i + 1] ≤ vols[i]) ∧
    ((∃ i, ∃ h : i + 1 < vols.length, vols[i] < vols[i + 1]) → runReadInput vols readInputBody [] = some (.error "RuntimeError")) :=
  read_input_accepts_iff vols

open Cij.QhaGlue Generated.QhaGlue in
/-- **`convert_unit`**: value form = `conv uFrom uTo v`, curried form = the function `conv uFrom uTo` (first argument the source unit),
for every unit type and every `conv` standing for pint's `Quantity(x, u).to(u').magnitude` -/
theorem c02_glue_is_source_convert_unit {U α : Type} (conv : U → U → α → α) (uFrom uTo : U) :
    (∀ v : α, convertUnit.meaning conv uFrom uTo (some v) = some (.value (conv uFrom uTo v))) ∧
    convertUnit.meaning conv uFrom uTo none = some (.function (conv uFrom uTo)) :=
  convert_unit_is_source conv uFrom uTo

open Cij.QhaGlue in
/-- **the unit helpers**: the nine `_to_*` / `_from_*` convert between units of one SI dimension (ℤ-exponent vectors); the four
`_from_x` are `_to_x` with source and target exchanged; C18's table of helpers is a sub-table of this one -/
theorem c02_glue_is_source_helpers :
    HelpersDimensional ∧ helperPairs.all pairInverse = true ∧ (∀ h ∈ Generated.staticUnitHelpers, h ∈ Generated.QhaGlue.unitHelpers) :=
  ⟨helpers_dimensional, pairs_inverse, helpers_agree_with_static⟩

open Cij.QhaGlue Cij.StaticSrc in
/-- **`_to_gpa ∘ _from_gpa = id`** (and the three other pairs, both ways), for every value and whatever non-zero values pint gives
the unit names -/
theorem c02_glue_is_source_roundtrip (base : String → ℝ) (p : String × String) (hp : p ∈ helperPairs) (a b : UnitHelper)
    (ha : helper? p.1 = some a) (hb : helper? p.2 = some b) (h1 : a.src.val base ≠ 0) (h2 : a.dst.val base ≠ 0) (v : ℝ) :
    v * a.factor base * b.factor base = v ∧ v * b.factor base * a.factor base = v :=
  pair_roundtrip base p hp a b ha hb h1 h2 v

open Cij.QhaGlue in
/-- **atomic units, consistently**: with `T` in K, `V` in bohr³, `C_V` in Ry/K, `P` in Ry/bohr³ (units of the qha fields the translated
adapter hands over) and `k_B`, `h` in the target units of their translated conversions (Ry/K, Ry·cm; ω in cm⁻¹), the translated body
of `isothermal_to_adiabatic` — and T·V·(∂P/∂T)²/C_V — is Ry/bohr³ as a monomial and M·L⁻¹·T⁻² as a dimension vector, the unit of
`pressures` and the source unit of `_to_gpa`; so are `value_adiabatic`, `value_isothermal`, the zero-point and thermal bodies -/
theorem c02_glue_is_source_units : GapUnits ∧ BodiesUnits := ⟨gap_units, bodies_units⟩

open Cij.QhaGlue Cij.NSGlue in
/-- **ħ and k_B**: `Q = (h/k_B)·ω/T` is dimensionless with `h_div_k` in K·cm, ω in cm⁻¹, `T` in K (monomials), every conversion of
nonshear.py is between like dimensions, `k` is `_k` from eV/K to Ry/K, `h` is `_h` from J·m to Ry·cm; and as numbers: the translated
`Q` does not change under a change of the units K and cm -/
theorem c02_glue_is_source_hbar_kB (lam : String → ℝ) (hK : lam "K" ≠ 0) (hc : lam "cm" ≠ 0) (hdk T f : ℝ) :
    QUnits ∧
    evalQDef (Mono2.val lam (hdkUnit.getD []) * hdk) (Mono2.val lam ((chainUnit ["t_array"]).getD []) * T)
        (Mono2.val lam freqUnit * f) Generated.NonShearGlue.qDef
      = evalQDef hdk T f Generated.NonShearGlue.qDef :=
  ⟨q_units, q_invariant lam hK hc hdk T f⟩

open Cij.QhaGlue Cij.NSExpr in
/-- **the bookkeeping as a statement about numbers**: change the units K, bohr, rydberg by any non-zero factors — `T`, `V`, `C_V`, `k_B`
change by the values of the units the sources give them — and the translated gap changes by the value of Ry/bohr³, for every
environment (spectrum, weights, grid point) -/
theorem c02_glue_is_source_covariant (lam : String → ℝ) (hK : lam "K" ≠ 0) (hb : lam "bohr" ≠ 0) (hr : lam "rydberg" ≠ 0)
    (e : SEnv ℝ) :
    evalS (rescale lam "isothermal_to_adiabatic" e) Generated.nsGapLong.expr
      = Mono2.val lam pressureAu * evalS e Generated.nsGapLong.expr ∧
    evalS (rescale lam "isothermal_to_adiabatic" e) Generated.nsGapOff.expr
      = Mono2.val lam pressureAu * evalS e Generated.nsGapOff.expr :=
  gap_covariant lam hK hb hr e

open Cij.QhaGlue in
/-- non-vacuity: a decreasing list is accepted with the five fields, an increase is rejected; a helper pair exists -/
example : runReadInput ([9, 7, 7, 4] : List Int) readInputBody [] = some (.ok fiveFields) ∧
    runReadInput ([9, 7, 8, 4] : List Int) readInputBody [] = some (.error "RuntimeError") ∧
    (∃ a b, helper? "_to_gpa" = some a ∧ helper? "_from_gpa" = some b) := by
  refine ⟨by decide +kernel, by decide +kernel, _, _, rfl, rfl⟩

/-! #### ties shared with other properties

The statement of this property also rests on code whose translation is owned by another property's file; the theorems are restated
here so that this property's obligations are re-checked against those files too (a change there breaks THIS check's proof as well). -/

/-- the arithmetic of the shear solver in `shear.py` as translated on this run: the target formula of the model is the translated one -/
theorem c02_shear_target_is_source {α : Type} [Add α] [Sub α] [Mul α] [Div α] [NatCast α]
    (key : Cij.Modulus) (e : Cij.Shear.Mat3 α) (eRot eOrig : α) :
    Cij.Shear.targetModulus key e eRot eOrig =
      Cij.ShExpr.eval (Cij.ShExpr.envOf eRot (e (Cij.Shear.idx key.i.i) (Cij.Shear.idx key.i.j)) (e (Cij.Shear.idx key.j.i) (Cij.Shear.idx key.j.j))
        eRot eOrig ((key.multiplicity : Nat) : α)) Generated.shearTarget :=
  Cij.ShExpr.target_is_source key e eRot eOrig

/-- `cij/core/tasks.py` as translated on this run: a non-shear task is identified by the two strain columns the source names,
task equality is at rounding level (`_STRAIN_RTOL ≤ 1e-9`, `atol = 0`), and `calculate()` feeds a shear task from the isothermal store -/
theorem c02_tasks_are_source {α : Type} [Add α] [Div α] (strain : Cij.Tasks.SField α) (key : Cij.Modulus) :
    (match Generated.makeParamCols with
     | [c0, c1] => Cij.Tasks.create strain key =
        if key.isShear then .shear strain key
        else .nonshear key.calcType (Cij.Tasks.component strain (Cij.Tasks.colOf key c0)) (Cij.Tasks.component strain (Cij.Tasks.colOf key c1))
     | _ => False) ∧
    (0 < Generated.strainRtol.1 ∧ Generated.strainRtol.1 * 1000000000 ≤ Generated.strainRtol.2) ∧
    Generated.tasksWiringCanonical = true :=
  ⟨Cij.Tasks.create_is_source strain key, Cij.Tasks.strain_rtol_tight, rfl⟩

end Cij.C02
