/-
  C13 — results do not depend on how the same physical data are presented.

  The statements are about the SAME model functions the correspondence runs of C01/C02 (`CijModel/NonShear.lean`),
  C11 (`CijModel/Interp.lean`), C05 (`CijModel/LeastSq.lean`, `CijModel/FullModulus.lean`) and C17
  (`CijModel/ElastDat.lean`) execute against the real code; "listed in another order" is `List.Perm`.

  1  `avg_perm_q`, `avg_perm_q_point`, `values_perm_q`
                                             non-Γ q-points listed in another order together with their weights
  2  `avg_perm_modes`, `avg_perm_modes_gamma_slots`, `avg_perm_modes_point`, `values_perm_modes`
                                             modes listed in another order inside a q-point (Γ: the three acoustic slots stay)
  3  `avg_weight_scale`, `avg_weight_scale_point`, `values_weight_scale`   all weights times a common factor c ≠ 0
     (`…_point`: the five quantities the longitudinal / off-diagonal classes compute at one (T, V) point, any prefactors;
      `values_…`: their `value_isothermal` / `value_adiabatic`)
  4  `interp_perm_equivariant`, `interp_perm_equivariant_total`, `interp_perm_gamma_zero`
                                             the per-(q,m) interpolation loop commutes with re-indexing (q,m); one presentation
                                             returns iff the other does (`interp_perm_error_may_differ`: the exception itself
                                             may be another one — the first failing cell in loop order differs)
  5  `lsq_row_perm`, `polyfit_row_perm`, `fit_modulus_row_perm`   least squares does not see the order of the rows
  6  `lsq_affine_abscissa`, `eulerian_reference_affine`, `fit_modulus_answers`, `fit_modulus_affine`, `static_row_perm`
                                             another reference volume V₀ = volumes[0]: abscissa changes affinely, fitted values do not
  7  `static_keys_canonical`, `static_columns_reordered`   column prefix / letter case / order of the static table
  9  `vol_check_is_source`, `vol_check_accepts_iff`, `vol_relisting_rejected_or_identical`, `vol_order_unique`,
     `vol_relisting_accepted_same_volumes`, `vol_relisting_repeated_may_differ`, `vol_strict_check_rejects_repeats`, `vol_check_not_strict`,
     `vol_check_position_is_source`, `vol_blocks_file_order`
                                             volume blocks of the phonon file in another order: for a file listed by strictly decreasing
                                             volume EVERY re-listing is the identity or is rejected by the translated `read_input`
                                             (tools/gens/volorder_src.py → Generated/VolOrderSpec.lean; the test is read from the installed qha)
  10 `avg_source_presentation`, `values_source_perm_q`, `values_source_perm_modes`, `values_source_weight_scale`,
     `interp_cell_is_source`, `static_reader_is_source`
                                             clauses 1–4 and 7 restated for values assembled from the TRANSLATED pieces
                                             (Generated.NonShearGlue, Generated.ModeGammaSpec, Generated.Readers)

  PARTIAL (details at the theorems):
    * (5/6 are unconditional since the solver-totality proofs `Lemmas/SolveTotal.lean`, `Lemmas/GaussJordan.lean`: on ≥ deg+1
      distinct abscissae both executable solvers answer — C11 `lsq_total`, `polyfit_total` — so `fit_modulus_affine` and
      `static_row_perm` are equalities of the results, "one answers iff the other does" included.)
    * (4 is total since `interp_perm_equivariant_total`: for a bijective re-indexing of the index rectangle one run returns iff
      the other does, and then the entries correspond.  WHICH exception a failing run raises is not presentation-independent:
      the loop aborts at the first failing cell in loop order, which is another cell after re-indexing — counter-example
      `interp_perm_error_may_differ`.)
    * volume blocks in another order: PROVED on the translated `read_input` for files listed by strictly decreasing volume (section 9).
      The installed qha's test is NOT strict (`diff <= 0`): a file with the same volume in neighbouring blocks is accepted, its accepted
      re-listings have the same volume list (`vol_relisting_accepted_same_volumes`) but may exchange the equal-volume blocks, and then the
      numbers can differ (`vol_relisting_repeated_may_differ`; harness site `vol-eqswap:differs`, a recorded finding).  What qha and scipy
      compute AFTER `read_input` is outside the model; it is irrelevant for the clause because the identity re-listing is the same input
      and every other one never gets past `read_input`.
    * rounding: theorems are over ℝ / ordered fields; "unchanged to rounding" is measured by the harness (1e-8 of scale).
-/
import CijProofs.Lemmas.Presentation
import CijProofs.Lemmas.InterpTotal
import CijProofs.Lemmas.GaussJordan
import CijProofs.Lemmas.Voigt
import CijProofs.Properties.C11
import CijProofs.Properties.C17
import Generated.FullModulusSpec
import Generated.AdapterSpec
import CijProofs.Lemmas.AdapterGuardSource
import CijProofs.Lemmas.NonShearSource
import Generated.ReadersSpec
import CijProofs.Lemmas.VolOrderSource
import CijProofs.Lemmas.NonShearGlueSource
import CijProofs.Lemmas.ModeGammaSource
import CijProofs.Lemmas.ReadersSource
import Generated.VolOrderSpec
import Generated.AdapterGuard
import Generated.CalcGlueSpec
import Generated.ModeGammaSpec

namespace Cij.C13

open Cij.NonShear

/-! ### 1. q-points in another order -/

/-- **avg_perm_q.**  The Γ point keeps the first place; the other q-points are listed in another order TOGETHER WITH their
weights (the list of (row, weight) pairs is permuted).  For all arrays and weights `average_over_modes` is unchanged. -/
theorem avg_perm_q (r0 : List ℝ) (w0 : ℝ) (rs rs' : List (List ℝ)) (ws ws' : List ℝ)
    (hl : rs.length = ws.length) (hl' : rs'.length = ws'.length) (h : (rs.zip ws).Perm (rs'.zip ws')) :
    averageOverModes (r0 :: rs) (w0 :: ws) = averageOverModes (r0 :: rs') (w0 :: ws') :=
  average_perm_q r0 w0 rs rs' ws ws' hl hl' h

/-- **avg_perm_q at a (T, V) point.**  `freq_array`, the three `mode_gamma` arrays and the weights are the projections of
one list of q-point records; listing the records after Γ in another order changes none of the five quantities the
longitudinal / off-diagonal classes compute (zero-point, thermal, isothermal→adiabatic), for any prefactors, any T, V, C_V. -/
theorem avg_perm_q_point (h k hdk : ℝ) (na : ℕ) (T V cv : ℝ) (p : Pref ℝ) (g : QPoint) (qs qs' : List QPoint)
    (hq : qs.Perm qs') :
    pointValues h k hdk na T V cv p ((g :: qs).map (·.freq)) ((g :: qs).map (·.mg0)) ((g :: qs).map (·.mg1))
        ((g :: qs).map (·.mg2)) ((g :: qs).map (·.w))
      = pointValues h k hdk na T V cv p ((g :: qs').map (·.freq)) ((g :: qs').map (·.mg0)) ((g :: qs').map (·.mg1))
        ((g :: qs').map (·.mg2)) ((g :: qs').map (·.w)) := by
  unfold pointValues zeroPointLongAt thermalLongAt zeroPointOffAt thermalOffAt isoToAdiaAt
  simp only [modeGamma, Qarr, Q1arr, Q2arr, zw2_mapq, map2_mapq]
  simp only [average_perm_q_map _ _ g qs qs' hq]

/-- **the results of the classes**: `value_isothermal` and `value_adiabatic` of the longitudinal and the off-diagonal class at any
(T, V) point — any strain fractions e₀, e₁, any P, P_static, C_V — do not depend on the order of the q-points after Γ -/
theorem values_perm_q (c : Consts ℝ) (T P cv V e0 e1 pst : ℝ) (g : QPoint) (qs qs' : List QPoint) (hq : qs.Perm qs') :
    values c T P cv (sliceOfQ V e0 e1 pst (g :: qs)) ((g :: qs).map (·.w))
      = values c T P cv (sliceOfQ V e0 e1 pst (g :: qs')) ((g :: qs').map (·.w)) :=
  values_eq_of_pointValues c T P cv _ _ _ _ rfl rfl rfl rfl
    (avg_perm_q_point c.h c.k c.hdk c.na T V cv (prefactorsLong e0 e1) g qs qs' hq)
    (avg_perm_q_point c.h c.k c.hdk c.na T V cv (prefactorsOff e0 e1) g qs qs' hq)

/-! ### 2. modes in another order -/

/-- **avg_perm_modes.**  Inside every non-Γ q-point the modes may be listed in any other order; at Γ the entries after the
three acoustic slots may be listed in any other order (whatever stands IN the three slots is masked anyway). -/
theorem avg_perm_modes (r0 r0' : List ℝ) (rs rs' : List (List ℝ)) (w : List ℝ)
    (hΓ : (r0.drop 3).Perm (r0'.drop 3)) (hlen : r0.length = r0'.length) (hrs : List.Forall₂ List.Perm rs rs') :
    averageOverModes (r0 :: rs) w = averageOverModes (r0' :: rs') w :=
  average_perm_modes r0 r0' rs rs' w hΓ hlen hrs

/-- the Γ clause as the property words it: a permutation of the Γ row that keeps the three acoustic modes in the first
three slots (`a ~ a'` among themselves, the optical ones `b ~ b'` among themselves) -/
theorem avg_perm_modes_gamma_slots (a a' b b' : List ℝ) (rs : List (List ℝ)) (w : List ℝ)
    (ha : a.length = 3) (haa : a.Perm a') (hbb : b.Perm b') :
    averageOverModes ((a ++ b) :: rs) w = averageOverModes ((a' ++ b') :: rs) w := by
  have ha' : a'.length = 3 := haa.length_eq ▸ ha
  apply average_perm_modes
  · rw [List.drop_left' ha, List.drop_left' ha']; exact hbb
  · simp [ha, ha', hbb.length_eq]
  · exact List.forall₂_same.mpr fun r _ => List.Perm.refl r

/-- **avg_perm_modes at a (T, V) point.**  The four `[q][m]` arrays are the images of one spectrum of mode records; every
non-Γ q-point lists its modes in another order, Γ lists its non-acoustic modes in another order (the same order in all four
arrays — one `List.Perm` of records): none of the five quantities changes. -/
theorem avg_perm_modes_point (h k hdk : ℝ) (na : ℕ) (T V cv : ℝ) (p : Pref ℝ) (g g' : List ModeRec)
    (S S' : List (List ModeRec)) (w : List ℝ)
    (hΓ : (g.drop 3).Perm (g'.drop 3)) (hlen : g.length = g'.length) (hS : List.Forall₂ List.Perm S S') :
    pointValues h k hdk na T V cv p ((g :: S).map (List.map (·.f))) ((g :: S).map (List.map (·.m0)))
        ((g :: S).map (List.map (·.m1))) ((g :: S).map (List.map (·.m2))) w
      = pointValues h k hdk na T V cv p ((g' :: S').map (List.map (·.f))) ((g' :: S').map (List.map (·.m0)))
        ((g' :: S').map (List.map (·.m1))) ((g' :: S').map (List.map (·.m2))) w := by
  unfold pointValues zeroPointLongAt thermalLongAt zeroPointOffAt thermalOffAt isoToAdiaAt
  simp only [modeGamma, Qarr, Q1arr, Q2arr, zw2_map, map2_map]
  simp only [average_perm_modes_map _ g g' S S' w hΓ hlen hS]

/-- **the results of the classes** do not depend on the order of the modes inside the q-points (Γ: of its non-acoustic modes) -/
theorem values_perm_modes (c : Consts ℝ) (T P cv V e0 e1 pst : ℝ) (g g' : List ModeRec) (S S' : List (List ModeRec))
    (w : List ℝ) (hΓ : (g.drop 3).Perm (g'.drop 3)) (hlen : g.length = g'.length) (hS : List.Forall₂ List.Perm S S') :
    values c T P cv (sliceOfM V e0 e1 pst (g :: S)) w = values c T P cv (sliceOfM V e0 e1 pst (g' :: S')) w :=
  values_eq_of_pointValues c T P cv _ _ _ _ rfl rfl rfl rfl
    (avg_perm_modes_point c.h c.k c.hdk c.na T V cv (prefactorsLong e0 e1) g g' S S' w hΓ hlen hS)
    (avg_perm_modes_point c.h c.k c.hdk c.na T V cv (prefactorsOff e0 e1) g g' S S' w hΓ hlen hS)

/-! ### 3. all weights times a common factor -/

/-- **avg_weight_scale.**  `numpy.average(…, weights=w)` normalises by Σw: a common factor `c ≠ 0` on all weights
(multiplicities vs. normalised weights) changes nothing. -/
theorem avg_weight_scale (X : List (List ℝ)) (w : List ℝ) (c : ℝ) (hc : c ≠ 0) (hw : sumL w ≠ 0) :
    averageOverModes X (w.map fun x => c * x) = averageOverModes X w :=
  average_weight_scale X w c hc hw

/-- the same for the five quantities of a (T, V) point -/
theorem avg_weight_scale_point (h k hdk : ℝ) (na : ℕ) (T V cv : ℝ) (p : Pref ℝ) (freq mg0 mg1 mg2 : List (List ℝ))
    (w : List ℝ) (c : ℝ) (hc : c ≠ 0) (hw : sumL w ≠ 0) :
    pointValues h k hdk na T V cv p freq mg0 mg1 mg2 (w.map fun x => c * x)
      = pointValues h k hdk na T V cv p freq mg0 mg1 mg2 w := by
  unfold pointValues zeroPointLongAt thermalLongAt zeroPointOffAt thermalOffAt isoToAdiaAt
  simp only [average_weight_scale _ w c hc hw]

/-- **the results of the classes** do not depend on a common factor on the weights -/
theorem values_weight_scale (c : Consts ℝ) (T P cv : ℝ) (s : VolSlice ℝ) (w : List ℝ) (a : ℝ) (ha : a ≠ 0)
    (hw : sumL w ≠ 0) : values c T P cv s (w.map fun x => a * x) = values c T P cv s w :=
  values_eq_of_pointValues c T P cv _ _ _ _ rfl rfl rfl rfl
    (avg_weight_scale_point c.h c.k c.hdk c.na T s.V cv _ s.freq s.mg0 s.mg1 s.mg2 w a ha hw)
    (avg_weight_scale_point c.h c.k c.hdk c.na T s.V cv _ s.freq s.mg0 s.mg1 s.mg2 w a ha hw)

/-! ### 4. the interpolation loop is equivariant under re-indexing of (q, m) -/

section Interp
open Cij.Interp
variable {α : Type} [Neg α] [Zero α] [ExpLog α]

/-- **interp_perm_equivariant.**  `σ` re-indexes the (q-point, mode) positions — e.g. q-points 2…n_q listed in another order,
or the modes of a q-point listed in another order — without moving anything into or out of the three Γ-acoustic slots.
If the re-presented phonon data carry at `σ(j,k)` the series (over volumes) the original carries at `(j,k)`, then all three
outputs (ω, γ, V∂γ/∂V) of `interpolate_modes` on the whole (extrapolated) volume grid are re-indexed by the same `σ`: for
every interpolation method, order and kernel.  (Per-mode independence: the cell `(j,k)` is computed from its series alone —
`modes_cell`, the lemma behind C11 `modes_not_mixed`.) -/
theorem interp_perm_equivariant (m : Method) (order : ℕ) (I : Interpolant α) (vols vArray : List α) (nq np : ℕ)
    (freqs freqs' : List (List (List α))) (F G D F' G' D' : List (List (List α)))
    (h : interpolateModes m order I vols vArray nq np freqs = .ok (F, G, D))
    (h' : interpolateModes m order I vols vArray nq np freqs' = .ok (F', G', D'))
    (σ : ℕ × ℕ → ℕ × ℕ)
    (hrange : ∀ j k, j < nq → k < np → (σ (j, k)).1 < nq ∧ (σ (j, k)).2 < np)
    (hΓ : ∀ j k, j < nq → k < np → isΓac (σ (j, k)) = isΓac (j, k))
    (hser : ∀ j k, j < nq → k < np → series freqs' (σ (j, k)).1 (σ (j, k)).2 = series freqs j k)
    (t j k : ℕ) (ht : t < vArray.length) (hj : j < nq) (hk : k < np) :
    entry F' t (σ (j, k)).1 (σ (j, k)).2 = entry F t j k ∧ entry G' t (σ (j, k)).1 (σ (j, k)).2 = entry G t j k ∧
      entry D' t (σ (j, k)).1 (σ (j, k)).2 = entry D t j k := by
  obtain ⟨col, hcol, e1, e2, e3⟩ := modes_cell m order I vols vArray nq np freqs F G D h t j k ht hj hk
  obtain ⟨hj', hk'⟩ := hrange j k hj hk
  obtain ⟨col', hcol', e1', e2', e3'⟩ :=
    modes_cell m order I vols vArray nq np freqs' F' G' D' h' t (σ (j, k)).1 (σ (j, k)).2 ht hj' hk'
  have hflag := hΓ j k hj hk
  simp only [isΓac] at hflag
  rw [hser j k hj hk] at hcol'
  have : cell m order I vols vArray (σ (j, k)).1 (σ (j, k)).2 (series freqs j k)
      = cell m order I vols vArray j k (series freqs j k) := by
    unfold cell
    rw [hflag]
  rw [this, hcol] at hcol'
  cases hcol'
  exact ⟨e1'.trans e1.symm, e2'.trans e2.symm, e3'.trans e3.symm⟩

/-- **interp_perm_equivariant_total.**  The same re-indexing hypotheses, with `σ` one-to-one on the `nq × np` index rectangle
(hence — the rectangle is finite — a bijection of it: `rect_surj`): NO assumption that either run returns.
* the re-presented run returns iff the original one does (equivalently: one raises iff the other raises);
* whenever the original run returns `(F, G, D)` the re-presented one returns some `(F', G', D')`, and all three arrays are
  re-indexed by `σ` at every grid volume.
Nothing is claimed about WHICH exception a failing run raises: the loop aborts at the first failing cell in loop order and
that is a different cell in the two presentations (`interp_perm_error_may_differ`).
(What each hypothesis is for: "re-presented returns ⇒ original returns" needs `hrange`, `hΓ`, `hser` only; the converse needs
every cell of the re-presented rectangle to BE the image of a cell — surjectivity, which on a finite rectangle is `hinj`;
without it a cell outside the image of `σ` carries data the hypotheses say nothing about and may raise.) -/
theorem interp_perm_equivariant_total (m : Method) (order : ℕ) (I : Interpolant α) (vols vArray : List α) (nq np : ℕ)
    (freqs freqs' : List (List (List α))) (σ : ℕ × ℕ → ℕ × ℕ)
    (hrange : ∀ j k, j < nq → k < np → (σ (j, k)).1 < nq ∧ (σ (j, k)).2 < np)
    (hinj : ∀ j k j' k', j < nq → k < np → j' < nq → k' < np → σ (j, k) = σ (j', k') → (j, k) = (j', k'))
    (hΓ : ∀ j k, j < nq → k < np → isΓac (σ (j, k)) = isΓac (j, k))
    (hser : ∀ j k, j < nq → k < np → series freqs' (σ (j, k)).1 (σ (j, k)).2 = series freqs j k) :
    ((∃ r, interpolateModes m order I vols vArray nq np freqs = .ok r) ↔
        ∃ r', interpolateModes m order I vols vArray nq np freqs' = .ok r') ∧
    ((∃ e, interpolateModes m order I vols vArray nq np freqs = .error e) ↔
        ∃ e', interpolateModes m order I vols vArray nq np freqs' = .error e') ∧
    ∀ F G D, interpolateModes m order I vols vArray nq np freqs = .ok (F, G, D) →
      ∃ F' G' D', interpolateModes m order I vols vArray nq np freqs' = .ok (F', G', D') ∧
        ∀ t j k, t < vArray.length → j < nq → k < np →
          entry F' t (σ (j, k)).1 (σ (j, k)).2 = entry F t j k ∧ entry G' t (σ (j, k)).1 (σ (j, k)).2 = entry G t j k ∧
            entry D' t (σ (j, k)).1 (σ (j, k)).2 = entry D t j k := by
  -- the cell at σ(j,k) of the re-presented data IS the cell at (j,k) of the original data
  have hcell : ∀ j k, j < nq → k < np →
      cell m order I vols vArray (σ (j, k)).1 (σ (j, k)).2 (series freqs' (σ (j, k)).1 (σ (j, k)).2)
        = cell m order I vols vArray j k (series freqs j k) := by
    intro j k hj hk
    have hflag := hΓ j k hj hk
    simp only [isΓac] at hflag
    rw [hser j k hj hk]
    unfold cell
    rw [hflag]
  have hiff : (∃ r, interpolateModes m order I vols vArray nq np freqs = .ok r) ↔
      ∃ r', interpolateModes m order I vols vArray nq np freqs' = .ok r' := by
    rw [interpolateModes_isOk_iff, interpolateModes_isOk_iff]
    constructor
    · intro h j' hj' k' hk'
      obtain ⟨j, k, hj, hk, e⟩ := rect_surj nq np σ hrange hinj j' k' hj' hk'
      have := hcell j k hj hk
      rw [e] at this
      rw [this]
      exact h j hj k hk
    · intro h j hj k hk
      obtain ⟨hj', hk'⟩ := hrange j k hj hk
      rw [← hcell j k hj hk]
      exact h _ hj' _ hk'
  refine ⟨hiff, ?_, ?_⟩
  · constructor
    · rintro ⟨e, he⟩
      rcases except_ok_or_error (interpolateModes m order I vols vArray nq np freqs') with hok | herr
      · obtain ⟨r, hr⟩ := hiff.mpr hok
        rw [he] at hr; cases hr
      · exact herr
    · rintro ⟨e, he⟩
      rcases except_ok_or_error (interpolateModes m order I vols vArray nq np freqs) with hok | herr
      · obtain ⟨r, hr⟩ := hiff.mp hok
        rw [he] at hr; cases hr
      · exact herr
  · intro F G D h
    obtain ⟨⟨F', G', D'⟩, h'⟩ := hiff.mp ⟨_, h⟩
    exact ⟨F', G', D', h', fun t j k ht hj hk =>
      interp_perm_equivariant m order I vols vArray nq np freqs freqs' F G D F' G' D' h h' σ hrange hΓ hser t j k ht hj hk⟩

/-- the Γ-acoustic positions stay exactly zero in the re-presented run as well (C11 `gamma_acoustic_zero` applied to it) -/
theorem interp_perm_gamma_zero (m : Method) (order : ℕ) (I : Interpolant α) (vols vArray : List α) (nq np : ℕ)
    (freqs' : List (List (List α))) (F' G' D' : List (List (List α)))
    (h' : interpolateModes m order I vols vArray nq np freqs' = .ok (F', G', D'))
    (t k : ℕ) (ht : t < vArray.length) (hq : 0 < nq) (hk : k < np) (hk3 : k < 3) :
    entry F' t 0 k = some 0 ∧ entry G' t 0 k = some 0 ∧ entry D' t 0 k = some 0 :=
  Cij.C11.gamma_acoustic_zero m order I vols vArray nq np freqs' F' G' D' h' t k ht hq hk hk3

end Interp

/-! ### 5. least squares does not see the order of the rows -/

section RowPerm
open Cij.Interp

/-- **lsq_row_perm** (`mode_gamma.lstsq_polyfit`).  The normal matrix `VᵀV`, the right-hand side `Vᵀy` and the certificate are
sums over the rows `(x_r, y_r)`; the solver is a function of these: rows in another order give the same normal system and
the same answer (same coefficients, or `none` for both). -/
theorem lsq_row_perm {K : Type} [Field K] [DecidableEq K] (xs ys xs' ys' : List K) (hl : xs.length = ys.length)
    (hl' : xs'.length = ys'.length) (h : (xs.zip ys).Perm (xs'.zip ys')) (order : ℕ) :
    normalMatrix xs (order + 1) = normalMatrix xs' (order + 1) ∧
      normalRhs xs ys (order + 1) = normalRhs xs' ys' (order + 1) ∧
      lstsqPolyfit xs ys order = lstsqPolyfit xs' ys' order :=
  ⟨normalMatrix_perm (fst_perm_of_zip_perm hl hl' h) _, normalRhs_perm h _, lstsqPolyfit_perm hl hl' h order⟩

/-- the same for the model of `numpy.polyfit` used by the static fit -/
theorem polyfit_row_perm {K : Type} [Field K] [BEq K] (xs ys xs' ys' : List K) (hl : xs.length = ys.length)
    (hl' : xs'.length = ys'.length) (h : (xs.zip ys).Perm (xs'.zip ys')) (deg : ℕ) :
    Cij.LeastSq.normalAug xs ys deg = Cij.LeastSq.normalAug xs' ys' deg ∧
      Cij.LeastSq.polyfit xs ys deg = Cij.LeastSq.polyfit xs' ys' deg :=
  ⟨Cij.LeastSq.normalAug_perm hl hl' h deg, Cij.LeastSq.polyfit_perm hl hl' h deg⟩

open Cij.FullModulus in
/-- **fit_modulus, rows in another order, same abscissae.**  The rows (strain, volume, tabulated value) of the static table are
listed in another order while the strains themselves are unchanged (the first row — the reference volume — keeps its
place, or the strains are simply given): `fit_modulus` returns the same array on the fine grid. -/
theorem fit_modulus_row_perm {K : Type} [Field K] [BEq K] (inp inp' : Inputs K) (moduli moduli' : List K) (order : ℕ)
    (hl1 : inp.strains.length = inp.volumes.length) (hl2 : inp.volumes.length = moduli.length)
    (hl1' : inp'.strains.length = inp'.volumes.length) (hl2' : inp'.volumes.length = moduli'.length)
    (hrows : (inp.strains.zip (inp.volumes.zip moduli)).Perm (inp'.strains.zip (inp'.volumes.zip moduli')))
    (hgrid : inp'.strainArray = inp.strainArray) (hv : inp'.vArray = inp.vArray) :
    fitModulus inp' moduli' order = fitModulus inp moduli order := by
  unfold fitModulus
  have hz : ∀ (s v c : List K), s.zip (List.zipWith (fun v c => v * c) v c)
      = (s.zip (v.zip c)).map fun t => (t.1, t.2.1 * t.2.2) := fun s v c => by
    rw [Cij.LeastSq.zipWith_eq_map_zip, List.zip_map_right]
    rfl
  have hperm : (inp.strains.zip (List.zipWith (fun v c => v * c) inp.volumes moduli)).Perm
      (inp'.strains.zip (List.zipWith (fun v c => v * c) inp'.volumes moduli')) := by
    rw [hz, hz]; exact hrows.map _
  rw [Cij.LeastSq.polyfit_perm (by simp [List.length_zipWith]; omega) (by simp [List.length_zipWith]; omega) hperm,
    hgrid, hv]

end RowPerm

/-! ### 6. another reference volume: the abscissa changes affinely, the fitted values do not -/

section Affine
open Cij.Interp
variable {K : Type} [Field K] [LinearOrder K] [IsStrictOrderedRing K]

/-- **lsq_affine_abscissa.**  `p` is a least-squares polynomial of degree ≤ d of the rows `(x_r, y_r)` (it satisfies the normal
equations — by C05/C11 `lsq_minimises` it minimises the sum of squared residuals), `p'` one of the rows `(a·x_r + b, y_r)`,
`a ≠ 0`, and there are at least d + 1 distinct abscissae (the property's "≥ 4 distinct volumes" for the cubic).  Then the
fitted VALUES agree at corresponding points, everywhere: `p'(a·x + b) = p(x)` for all `x` — the affine image of a polynomial
of degree ≤ d is one, and the least-squares polynomial is unique. -/
theorem lsq_affine_abscissa (xs ys : List K) (hlen : xs.length = ys.length) (a b : K) (ha : a ≠ 0) (d : ℕ) (p p' : List K)
    (hp : NormalEqs xs ys d p) (hp' : NormalEqs (xs.map fun x => a * x + b) ys d p')
    (hdist : d + 1 ≤ xs.toFinset.card) : ∀ x, polyval p' (a * x + b) = polyval p x :=
  affine_unique xs ys hlen a b ha d p p' hp hp' hdist

/-- uniqueness itself (a = 1, b = 0): any two certified answers for the same rows are the same function -/
theorem lsq_unique (xs ys : List K) (hlen : xs.length = ys.length) (d : ℕ) (p p' : List K)
    (hp : NormalEqs xs ys d p) (hp' : NormalEqs xs ys d p') (hdist : d + 1 ≤ xs.toFinset.card) :
    ∀ x, polyval p' x = polyval p x :=
  normalEqs_unique xs ys hlen d p p' hp hp' hdist

omit [IsStrictOrderedRing K] in
/-- what the two executable solvers return satisfies the hypothesis of `lsq_affine_abscissa` -/
theorem solvers_certified (xs ys : List K) (d : ℕ) (p : List K) :
    (lstsqPolyfit xs ys d = some p → NormalEqs xs ys d p) ∧
      (Cij.LeastSq.polyfit xs ys d = some p → NormalEqs xs ys d p) :=
  ⟨fun h => normalEqs_of_normalEq xs ys d p (Cij.C11.lsq_sound xs ys d p h),
   fun h => (Cij.LeastSq.normalEqs_of_polyfit xs ys d p h).2⟩

open Cij.FullModulus in
/-- **fit_modulus answers** on every well-shaped table: as many strains as products `V·c` and at least `order + 2` distinct
strains (the property's "≥ 4 distinct volumes" for the default cubic, order = 2).  The unpivoted Gauss–Jordan elimination of
the model never meets a zero pivot on these normal equations (`AᵀA` is positive definite: `normalAug_leadingNonsing`) and its
result passes the certificate (`polyfit_total`). -/
theorem fit_modulus_answers (inp : Inputs K) (moduli : List K) (order : ℕ)
    (hlen : inp.strains.length = (List.zipWith (fun v c => v * c) inp.volumes moduli).length)
    (hdist : order + 2 ≤ inp.strains.toFinset.card) :
    ∃ r, fitModulus inp moduli order = some r := by
  obtain ⟨p, hp⟩ := Cij.LeastSq.polyfit_total inp.strains _ (order + 1) hlen hdist
  unfold fitModulus
  rw [hp]
  exact ⟨_, rfl⟩

open Cij.FullModulus in
/-- **fit_modulus with another reference volume.**  Strains of the table volumes and of the fine grid are both transformed by
the one affine map `f ↦ a·f + b` (`eulerian_reference_affine`); at least `order + 2` distinct strains.  The fitted static
modulus on the fine grid is unchanged — as results of the executable model: both fits answer (`fit_modulus_answers`) with the
same array, or (table columns of different lengths: numpy's TypeError) neither does. -/
theorem fit_modulus_affine (inp inp' : Inputs K) (a b : K) (ha : a ≠ 0) (moduli : List K) (order : ℕ)
    (hs : inp'.strains = inp.strains.map fun x => a * x + b)
    (hsa : inp'.strainArray = inp.strainArray.map fun x => a * x + b)
    (hv : inp'.volumes = inp.volumes) (hva : inp'.vArray = inp.vArray)
    (hdist : order + 2 ≤ inp.strains.toFinset.card) :
    fitModulus inp' moduli order = fitModulus inp moduli order := by
  unfold fitModulus
  rw [hs, hv]
  by_cases hlen : inp.strains.length = (List.zipWith (fun v c => v * c) inp.volumes moduli).length
  · obtain ⟨p, hp⟩ := Cij.LeastSq.polyfit_total inp.strains _ (order + 1) hlen hdist
    obtain ⟨p', hp'⟩ := Cij.LeastSq.polyfit_total (inp.strains.map fun x => a * x + b)
      (List.zipWith (fun v c => v * c) inp.volumes moduli) (order + 1) (by simpa using hlen)
      (by rw [Cij.LeastSq.card_map_affine _ a b ha]; exact hdist)
    obtain ⟨_, hne⟩ := Cij.LeastSq.normalEqs_of_polyfit _ _ _ _ hp
    obtain ⟨_, hne'⟩ := Cij.LeastSq.normalEqs_of_polyfit _ _ _ _ hp'
    have key := affine_unique _ _ hlen a b ha (order + 1) p p' hne hne' hdist
    simp only [hp, hp', Option.pure_def, Option.bind_eq_bind, Option.bind_some, Option.some.injEq]
    rw [hsa, hva, List.zipWith_map_left]
    have : ∀ s v : K, Cij.LeastSq.polyval p' (a * s + b) / v = Cij.LeastSq.polyval p s / v := fun s v => by
      rw [Cij.LeastSq.polyval_eq_interp, Cij.LeastSq.polyval_eq_interp, key]
    simp only [this]
  · rw [Cij.LeastSq.polyfit_none_of_length_ne _ _ _ hlen,
      Cij.LeastSq.polyfit_none_of_length_ne _ _ _ (by simpa using hlen)]
    rfl

open Cij.FullModulus in
/-- **rows of the static table in ANY other order** (clauses 5 and 6 together): the rows (volume, value) are permuted, hence the
reference volume `volumes[0]` may change, hence the strains of the permuted rows and of the fine grid are the affine image
of the original ones.  `fit_modulus` returns the same array on the fine grid (and answers: `fit_modulus_answers`). -/
theorem static_row_perm (inp inp' : Inputs K) (a b : K) (ha : a ≠ 0) (moduli moduli' : List K) (order : ℕ)
    (hl1 : inp.strains.length = inp.volumes.length) (hl2 : inp.volumes.length = moduli.length)
    (hl1' : inp'.strains.length = inp'.volumes.length) (hl2' : inp'.volumes.length = moduli'.length)
    (hrows : (inp'.strains.zip (inp'.volumes.zip moduli')).Perm
      ((inp.strains.map fun x => a * x + b).zip (inp.volumes.zip moduli)))
    (hsa : inp'.strainArray = inp.strainArray.map fun x => a * x + b) (hva : inp'.vArray = inp.vArray)
    (hdist : order + 2 ≤ inp.strains.toFinset.card) :
    fitModulus inp' moduli' order = fitModulus inp moduli order ∧ ∃ r, fitModulus inp moduli order = some r := by
  -- the original rows with the new reference volume
  let mid : Inputs K := { inp with strains := inp.strains.map fun x => a * x + b,
                                   strainArray := inp.strainArray.map fun x => a * x + b }
  have hmid : fitModulus inp' moduli' order = fitModulus mid moduli order :=
    Cij.C13.fit_modulus_row_perm mid inp' moduli moduli' order (by simp [mid, hl1]) hl2 hl1' hl2' hrows.symm hsa hva
  refine ⟨?_, fit_modulus_answers inp moduli order (by simp [List.length_zipWith]; omega) hdist⟩
  rw [hmid]
  exact fit_modulus_affine inp mid a b ha moduli order rfl rfl rfl rfl hdist

/-- **eulerian_reference_affine.**  qha's Eulerian strain `f = ((V₀/V)^(2/3) − 1)/2` with another reference volume `V₀'` is the
affine image `c·f + (c − 1)/2`, `c = (V₀'/V₀)^(2/3) ≠ 0`, of the strain with reference `V₀` — for the table volumes and the
fine grid alike: the hypothesis of the three theorems above is what reordering the rows does. -/
theorem eulerian_reference_affine (v0 v0' : ℝ) (h0 : 0 < v0) (h0' : 0 < v0') :
    (v0' / v0) ^ ((2 : ℝ) / 3) ≠ 0 ∧ ∀ v, 0 < v →
      Cij.FullModulus.eulerian v0' v
        = (v0' / v0) ^ ((2 : ℝ) / 3) * Cij.FullModulus.eulerian v0 v + ((v0' / v0) ^ ((2 : ℝ) / 3) - 1) / 2 :=
  ⟨(Cij.FullModulus.eulerian_factor_pos v0 v0' h0 h0').ne', fun v hv => Cij.FullModulus.eulerian_affine v0 v0' v h0 h0' hv⟩

end Affine

/-! ### 7. static table: column prefix, letter case, column order -/

section Static
open Cij.ElastDat Cij.Lex
variable {Num : Type}

/-- **static_keys_canonical.**  Any two digit-free prefixes (`c`, `C`, `c_`, `C_`, nothing, …) in front of the two Voigt digits
— in either order of the two digits — give the SAME dictionary key, and it is one of the 21 canonical keys
(corollary of C17 `key_any_prefix_voigt`, `key_canonical`, themselves resting on C10). -/
theorem static_keys_canonical (pre pre' : String) (hpre : ∀ c ∈ pre.toList, c.isDigit = false)
    (hpre' : ∀ c ∈ pre'.toList, c.isDigit = false) :
    ∀ p ∈ allPairs, ∃ q ∈ keys21,
      findModulusKey (pre ++ pairStr p) = some (.mod (keyOfVoigt q)) ∧
      findModulusKey (pre' ++ pairStr p) = some (.mod (keyOfVoigt q)) ∧
      findModulusKey (pre' ++ pairStr (p.2, p.1)) = some (.mod (keyOfVoigt q)) := by
  intro p hp
  obtain ⟨q, hq, h1, h2⟩ := Cij.C17.key_canonical p hp
  have hp' : (p.2, p.1) ∈ allPairs := by
    rw [Cij.mem_allPairs] at hp ⊢
    exact ⟨hp.2, hp.1⟩
  refine ⟨q, hq, ?_, ?_, ?_⟩
  · rw [Cij.C17.key_any_prefix_voigt pre hpre p hp, h1]; rfl
  · rw [Cij.C17.key_any_prefix_voigt pre' hpre' p hp, h1]; rfl
  · rw [Cij.C17.key_any_prefix_voigt pre' hpre' (p.2, p.1) hp', h2]; rfl

/-- **static_columns_reordered.**  A well-formed static table `t` (distinct canonical keys, every row as wide as the key line) is
re-presented with its component columns listed in the order `idx` (any permutation of the column numbers) and under new
names that denote the same keys (`static_keys_canonical`: other prefix, other letter case, transposed digits).  Followed by
ANY rest of the file (nothing, a blank line, a lattice block), `read_elast_data` either fails on both or returns the same
data: same header numbers, same lattice, and for every volume the same map key ↦ value. -/
theorem static_columns_reordered (F : NumFmt Num) (t : TableFile Num) (kv : Key) (keys : List Key) (h : t.Ok F kv keys)
    (hnd : keys.Nodup) (hwide : ∀ r ∈ t.rows, r.2.length = t.names.length)
    (idx : List ℕ) (hidx : idx.Perm (List.range t.names.length)) (names' : List Token)
    (hnames : names'.map findModulusKey = (pick idx t.names).map findModulusKey) (tail : List Line) :
    SameRead (readElastData F (t.lines ++ tail)) (readElastData F ((t.recolumn idx names').lines ++ tail)) := by
  have hklen : keys.length = t.names.length := length_of_mapM _ _ _ h.keys
  have hok' := recolumn_ok F t kv keys h idx names' hnames
  have hnd' : (pick idx keys).Nodup :=
    (pick_perm idx keys (hklen ▸ hidx)).nodup_iff.mpr hnd
  rw [read_elast_core F t kv keys h tail, read_elast_core F _ kv _ hok' tail]
  have hrl : (t.recolumn idx names').rows.length = t.rows.length := by simp [TableFile.recolumn]
  rw [hrl]
  cases readTail F t.rows.length tail with
  | none => trivial
  | some lat =>
    refine ⟨rfl, rfl, rfl, rfl, ?_⟩
    simp only [TableFile.recolumn, List.map_map]
    rw [List.forall₂_map_left_iff, List.forall₂_map_right_iff, List.forall₂_same]
    intro r hr
    have hw : keys.length = (r.2.map Prod.snd).length := by rw [List.length_map, hwide r hr, hklen]
    have e' : Row.volume (kv :: pick idx keys) (r.1, pick idx r.2)
        = ⟨r.1.2, pick idx (keys.zip (r.2.map Prod.snd))⟩ := by
      simp only [Row.volume, List.tail_cons, dictOfZip_nodup _ _ hnd', pick_map, pick_zip idx keys _ hw]
    have e : Row.volume (kv :: keys) r = ⟨r.1.2, keys.zip (r.2.map Prod.snd)⟩ := by
      simp only [Row.volume, List.tail_cons, dictOfZip_nodup _ _ hnd]
    have hperm : (pick idx (keys.zip (r.2.map Prod.snd))).Perm (keys.zip (r.2.map Prod.snd)) := by
      apply pick_perm
      rw [List.length_zip, ← hw, Nat.min_self, hklen]
      exact hidx
    simp only [Function.comp, e, e']
    exact ⟨trivial, hperm, fun k => lookup_perm _ _ hperm (nodup_map_fst_zip keys _ hnd) k⟩

end Static

/-! ### 8. non-vacuity: concrete instances (3 q-points, 6 modes) -/

section Examples
open Cij.Interp Cij.ElastDat Cij.Lex

/-- the value on a 3-q-point, 6-mode instance: Γ row masked to (0,0,0,4,5,6), weights 1, 2, 5 -/
example : averageOverModes [[1, 2, 3, 4, 5, 6], [7, 8, 9, 10, 11, 12], [2, 4, 6, 8, 10, 12]] [1, 2, 5] = (113 : ℝ) / 16 := by
  norm_num [averageOverModes, clearGamma, zeroFirst, mean]

/-- `avg_perm_q` on it: q-points 2 and 3 exchanged together with their weights (a genuine transposition) -/
example : averageOverModes [[1, 2, 3, 4, 5, 6], [7, 8, 9, 10, 11, 12], [2, 4, 6, 8, 10, 12]] [1, 2, 5]
    = averageOverModes [[1, 2, 3, 4, 5, 6], [2, 4, 6, 8, 10, 12], [7, 8, 9, 10, 11, 12]] [(1 : ℝ), 5, 2] :=
  avg_perm_q _ _ _ _ _ _ rfl rfl (List.Perm.swap _ _ _)

/-- … and the hypothesis matters: exchanging the q-points WITHOUT their weights gives another number (8 ≠ 113/16) -/
example : averageOverModes [[1, 2, 3, 4, 5, 6], [2, 4, 6, 8, 10, 12], [7, 8, 9, 10, 11, 12]] [1, 2, 5] = (8 : ℝ) := by
  norm_num [averageOverModes, clearGamma, zeroFirst, mean]

/-- `avg_perm_modes` on it: Γ keeps its acoustic slots (permuted among themselves) and lists its optical modes in another order,
q-point 2 is reversed, q-point 3 rotated -/
example : averageOverModes [[1, 2, 3, 4, 5, 6], [7, 8, 9, 10, 11, 12], [2, 4, 6, 8, 10, 12]] [1, 2, 5]
    = averageOverModes [[3, 1, 2, 6, 4, 5], [12, 11, 10, 9, 8, 7], [4, 6, 8, 10, 12, 2]] [(1 : ℝ), 2, 5] := by
  apply avg_perm_modes
  · show List.Perm [(4 : ℝ), 5, 6] [6, 4, 5]
    exact (List.perm_cons_append_cons 6 (l₁ := [4, 5]) (l₂ := []) (List.Perm.refl _)).symm
  · rfl
  · refine List.Forall₂.cons ?_ (List.Forall₂.cons ?_ List.Forall₂.nil)
    · simpa using List.reverse_perm [(12 : ℝ), 11, 10, 9, 8, 7]
    · exact List.perm_append_comm (l₁ := [(2 : ℝ)]) (l₂ := [4, 6, 8, 10, 12])

/-- … and the Γ restriction matters: moving an acoustic mode out of the first three slots changes the result (7 ≠ 113/16) -/
example : averageOverModes [[4, 2, 3, 1, 5, 6], [7, 8, 9, 10, 11, 12], [2, 4, 6, 8, 10, 12]] [1, 2, 5] = (7 : ℝ) := by
  norm_num [averageOverModes, clearGamma, zeroFirst, mean]

/-- `avg_weight_scale`: weights scaled by 1/7 (multiplicities → un-normalised fractions) -/
example : averageOverModes [[1, 2, 3, 4, 5, 6], [7, 8, 9, 10, 11, 12], [2, 4, 6, 8, 10, 12]]
      (([1, 2, 5] : List ℝ).map fun x => 1 / 7 * x)
    = averageOverModes [[1, 2, 3, 4, 5, 6], [7, 8, 9, 10, 11, 12], [2, 4, 6, 8, 10, 12]] [1, 2, 5] :=
  avg_weight_scale _ _ _ (by norm_num) (by norm_num)

/-- the hypotheses of the (T, V)-point theorems are satisfiable by a genuine transposition of records -/
example (a b : QPoint) : [a, b].Perm [b, a] := List.Perm.swap _ _ _
example (m1 m2 m3 o1 o2 o3 : ModeRec) :
    (([m1, m2, m3, o1, o2, o3] : List ModeRec).drop 3).Perm (([m2, m1, m3, o3, o1, o2] : List ModeRec).drop 3) :=
  (List.perm_cons_append_cons o3 (l₁ := [o1, o2]) (l₂ := []) (List.Perm.refl _)).symm

/-- `interp_perm_equivariant`, an actual run (scalar ℚ with exp = log = id, least squares of order 2, 3 volumes, 3 q-points,
4 modes, 2 grid volumes; Γ-acoustic input entries 7, 8, 9 are ignored): the original presentation … -/
example :
    letI : ExpLog ℚ := ⟨id, id⟩
    interpolateModes .lsqPoly 2 (lsqInterpolant 2) ([1, 2, 3] : List ℚ) [4, 5] 3 4
        [[[7, 7, 7, 1], [2, 3, 5, 8], [1, 4, 9, 16]], [[8, 8, 8, 3], [3, 5, 6, 9], [2, 6, 12, 20]],
         [[9, 9, 9, 5], [5, 6, 9, 11], [3, 8, 15, 24]]]
      = .ok ([[[0, 0, 0, 7], [8, 6, 14, 14], [4, 10, 18, 28]], [[0, 0, 0, 9], [12, 5, 21, 18], [5, 12, 21, 32]]],
             [[[0, 0, 0, -2], [-7 / 2, 1 / 2, -6, -7 / 2], [-1, -2, -3, -4]],
              [[0, 0, 0, -2], [-9 / 2, 3 / 2, -8, -9 / 2], [-1, -2, -3, -4]]],
             [[[0, 0, 0, 0], [-1, 1, -2, -1], [0, 0, 0, 0]], [[0, 0, 0, 0], [-1, 1, -2, -1], [0, 0, 0, 0]]]) := by
  decide +kernel

/-- … and the re-presented one: q-points 2 and 3 listed in the other order, the modes of the (new) second q-point reversed — all
three outputs are re-indexed the same way, the Γ-acoustic zeros stay -/
example :
    letI : ExpLog ℚ := ⟨id, id⟩
    interpolateModes .lsqPoly 2 (lsqInterpolant 2) ([1, 2, 3] : List ℚ) [4, 5] 3 4
        [[[7, 7, 7, 1], [16, 9, 4, 1], [2, 3, 5, 8]], [[8, 8, 8, 3], [20, 12, 6, 2], [3, 5, 6, 9]],
         [[9, 9, 9, 5], [24, 15, 8, 3], [5, 6, 9, 11]]]
      = .ok ([[[0, 0, 0, 7], [28, 18, 10, 4], [8, 6, 14, 14]], [[0, 0, 0, 9], [32, 21, 12, 5], [12, 5, 21, 18]]],
             [[[0, 0, 0, -2], [-4, -3, -2, -1], [-7 / 2, 1 / 2, -6, -7 / 2]],
              [[0, 0, 0, -2], [-4, -3, -2, -1], [-9 / 2, 3 / 2, -8, -9 / 2]]],
             [[[0, 0, 0, 0], [0, 0, 0, 0], [-1, 1, -2, -1]], [[0, 0, 0, 0], [0, 0, 0, 0], [-1, 1, -2, -1]]]) := by
  decide +kernel

/-- the re-indexing of that run: q-points 1 ↔ 2 (0-based), modes of the new q-point 1 reversed; it maps the 3 × 4 index range into
itself and keeps the Γ-acoustic flag — the hypotheses `hrange`, `hΓ` of `interp_perm_equivariant` -/
example :
    let σ : ℕ × ℕ → ℕ × ℕ := fun jk => if jk.1 = 1 then (2, jk.2) else if jk.1 = 2 then (1, 3 - jk.2) else jk
    ∀ j < 3, ∀ k < 4, ((σ (j, k)).1 < 3 ∧ (σ (j, k)).2 < 4) ∧ isΓac (σ (j, k)) = isΓac (j, k) := by
  decide

set_option synthInstance.maxSize 2000 in
/-- … and it is one-to-one on the rectangle — the extra hypothesis `hinj` of `interp_perm_equivariant_total` -/
example :
    let σ : ℕ × ℕ → ℕ × ℕ := fun jk => if jk.1 = 1 then (2, jk.2) else if jk.1 = 2 then (1, 3 - jk.2) else jk
    ∀ j < 3, ∀ k < 4, ∀ j' < 3, ∀ k' < 4, σ (j, k) = σ (j', k') → (j, k) = (j', k') := by
  decide

set_option synthInstance.maxSize 4000 in
open Cij.Interp in
/-- **interp_perm_error_may_differ** — why `interp_perm_equivariant_total` says "raises iff raises" and not "raises the same
exception".  One q-point (Γ), five modes, one volume; the library kernel rejects BOTH optical series, the series `[1]` with
`ValueError` and the series `[2]` with another exception.  The loop aborts at the first failing cell in loop order, which is
mode 3: it carries `[1]` in the original presentation and `[2]` after the two optical modes are listed in the other order —
the two runs raise different exceptions although the hypotheses of the theorem hold (second and third conjunct). -/
theorem interp_perm_error_may_differ :
    letI : ExpLog ℚ := ⟨id, id⟩
    let I : Interpolant ℚ := fun _ ys _ => if ys = [1] then .error .valueError else .error .linAlg
    let σ : ℕ × ℕ → ℕ × ℕ := fun jk => if jk = (0, 3) then (0, 4) else if jk = (0, 4) then (0, 3) else jk
    let freqs : List (List (List ℚ)) := [[[0, 0, 0, 1, 2]]]
    let freqs' : List (List (List ℚ)) := [[[0, 0, 0, 2, 1]]]
    (interpolateModes .spline 3 I [1] [1] 1 5 freqs = .error .valueError ∧
      interpolateModes .spline 3 I [1] [1] 1 5 freqs' = .error .linAlg) ∧
    (∀ j < 1, ∀ k < 5, ((σ (j, k)).1 < 1 ∧ (σ (j, k)).2 < 5) ∧ isΓac (σ (j, k)) = isΓac (j, k) ∧
        series freqs' (σ (j, k)).1 (σ (j, k)).2 = series freqs j k) ∧
    (∀ j < 1, ∀ k < 5, ∀ j' < 1, ∀ k' < 5, σ (j, k) = σ (j', k') → (j, k) = (j', k')) := by
  decide +kernel

/-- `lsq_row_perm`: an over-determined fit with non-zero residual, rows listed in another order — hypothesis and conclusion -/
example : (([0, 1, 2, 3] : List ℚ).zip [0, 1, 0, 1]).Perm (([3, 0, 2, 1] : List ℚ).zip [1, 0, 0, 1]) := by decide
example : lstsqPolyfit ([0, 1, 2, 3] : List ℚ) [0, 1, 0, 1] 1 = some [1 / 5, 1 / 5] ∧
    lstsqPolyfit ([3, 0, 2, 1] : List ℚ) [1, 0, 0, 1] 1 = some [1 / 5, 1 / 5] := by decide +kernel

/-- `lsq_affine_abscissa`: a cubic fit with non-zero residual on 5 distinct abscissae and on their image under x ↦ 2x + 1: both
solvers answer, the coefficient lists differ, the fitted values at corresponding points (x = 7 ↦ 15, outside the data) agree -/
example :
    Cij.LeastSq.polyfit [(0 : ℚ), 1, 2, 3, 5] [1, 2, 9, 29, 126] 3 = some [143 / 159, 247 / 371, -914 / 1113, 391 / 371] ∧
    Cij.LeastSq.polyfit (([0, 1, 2, 3, 5] : List ℚ).map fun x => 2 * x + 1) [1, 2, 9, 29, 126] 3
      = some [143 / 1272, -507 / 2968, -3617 / 8904, 4507 / 2968] ∧
    Cij.LeastSq.polyval [143 / 1272, -507 / 2968, -3617 / 8904, 4507 / 2968] (2 * 7 + 1 : ℚ)
      = Cij.LeastSq.polyval [143 / 159, 247 / 371, -914 / 1113, 391 / 371] 7 ∧
    3 + 1 ≤ ([0, 1, 2, 3, 5] : List ℚ).toFinset.card := by
  decide +kernel

/-- `fit_modulus_affine` / `fit_modulus_answers` on an instance (ℚ; 5 rows, cubic, non-zero residual; strains ↦ 2·f + 1 for
the table and the grid): the hypotheses hold, both fits answer, with the same array -/
example :
    let inp : Cij.FullModulus.Inputs ℚ :=
      { strains := [0, 1, 2, 3, 5], strainArray := [0, 4, 7], volumes := [1, 1, 2, 1, 1], vArray := [1, 2, 4],
        table := [], lattice := [], gpaFactor := 1 }
    let inp' : Cij.FullModulus.Inputs ℚ :=
      { inp with strains := inp.strains.map (fun x => 2 * x + 1), strainArray := inp.strainArray.map (fun x => 2 * x + 1) }
    2 + 2 ≤ inp.strains.toFinset.card ∧
    inp.strains.length = (List.zipWith (fun v c => v * c) inp.volumes [1, 2, 9 / 2, 29, 126]).length ∧
    (Cij.FullModulus.fitModulus inp [1, 2, 9 / 2, 29, 126] 2).isSome = true ∧
    Cij.FullModulus.fitModulus inp' [1, 2, 9 / 2, 29, 126] 2 = Cij.FullModulus.fitModulus inp [1, 2, 9 / 2, 29, 126] 2 := by
  decide +kernel

/-- the affine map of the Eulerian strain is a genuine one: V₀ = 8, V₀' = 27 gives c = (27/8)^(2/3) = 9/4 ≠ 1 -/
example : ((27 : ℝ) / 8) ^ ((2 : ℝ) / 3) = 9 / 4 := by
  have h : ((27 : ℝ) / 8) = (3 / 2) ^ (3 : ℝ) := by norm_num
  rw [h, ← Real.rpow_mul (by norm_num)]
  norm_num

/-- `static_columns_reordered` / `static_keys_canonical`: the hypotheses on an instance — columns (c11, c12, c44) listed as
(C44, C_11, c21): a permutation of the column numbers, and names that denote the same keys -/
example : ([2, 0, 1] : List ℕ).Perm (List.range 3) ∧
    (["C44", "C_11", "c21"] : List Token).map findModulusKey = (pick [2, 0, 1] ["c11", "c12", "c44"]).map findModulusKey ∧
    (["c11", "c12", "c44"].mapM findModulusKey).isSome := by
  decide +kernel

/-- a static table with a lattice block … -/
def fileA : List Line :=
  [["title"], ["586.01996", "2", "200.782"], ["V", "c11", "c12", "c44"],
   ["617.47767", "399.2", "124.3", "88.35"], ["586.01996", "460.9", "156.2", "112.35"],
   ["lattice_a", "lattice_b", "lattice_c"], ["1.0", "0.8", "2.9"], ["0.9", "0.8", "2.8"]]
/-- … and the same table with the columns listed as (c44, c11, c12) under the names C44, C_11, c21 -/
def fileB : List Line :=
  [["title"], ["586.01996", "2", "200.782"], ["V", "C44", "C_11", "c21"],
   ["617.47767", "88.35", "399.2", "124.3"], ["586.01996", "112.35", "460.9", "156.2"],
   ["lattice_a", "lattice_b", "lattice_c"], ["1.0", "0.8", "2.9"], ["0.9", "0.8", "2.8"]]
/-- what a reader of the dictionaries sees: per volume the values under c11, c12, c44 -/
def view (d : ElastData Rat) : List (Rat × List (Option Rat)) :=
  d.volumes.map fun v => (v.volume, [((1 : Int), (1 : Int)), (1, 2), (4, 4)].map fun p => v.moduli.lookup (.mod (keyOfVoigt p)))

/-- … the conclusion computed on the two files: both parse, header numbers, lattice and the views agree, while the raw
dictionaries are listed in different orders -/
example : (readElastData ratFmt fileA).map view = (readElastData ratFmt fileB).map view ∧
    (readElastData ratFmt fileA).map (fun d => (d.vref, d.nv, d.cellmass)) = (readElastData ratFmt fileB).map (fun d => (d.vref, d.nv, d.cellmass)) ∧
    (readElastData ratFmt fileA).map (·.lattice) = (readElastData ratFmt fileB).map (·.lattice) := by
  decide +kernel
example : (readElastData ratFmt fileA).isSome = true ∧
    (readElastData ratFmt fileA).map (·.volumes.map (·.moduli.map (·.1)))
      ≠ (readElastData ratFmt fileB).map (·.volumes.map (·.moduli.map (·.1))) := by
  decide +kernel

/-- the two files ARE an instance of `static_columns_reordered`: `fileA` is the well-formed table `tableA` followed by its lattice
block, `fileB` is `tableA.recolumn [2, 0, 1] ["C44", "C_11", "c21"]` followed by the same block; keys distinct, rows as wide as
the key line -/
def tableA : TableFile Rat :=
  { title := ["title"], vref := ("586.01996", mkRat 58601996 100000), nvTok := "2", mass := ("200.782", mkRat 200782 1000),
    extra := [], vname := "V", names := ["c11", "c12", "c44"],
    rows := [(("617.47767", mkRat 61747767 100000), [("399.2", mkRat 3992 10), ("124.3", mkRat 1243 10), ("88.35", mkRat 8835 100)]),
             (("586.01996", mkRat 58601996 100000), [("460.9", mkRat 4609 10), ("156.2", mkRat 1562 10), ("112.35", mkRat 11235 100)])] }

example : tableA.lines ++ fileA.drop 5 = fileA ∧
    (tableA.recolumn [2, 0, 1] ["C44", "C_11", "c21"]).lines ++ fileA.drop 5 = fileB := by decide +kernel

example : tableA.Ok ratFmt (.raw "V") [.mod (keyOfVoigt (1, 1)), .mod (keyOfVoigt (1, 2)), .mod (keyOfVoigt (4, 4))] ∧
    [Key.mod (keyOfVoigt (1, 1)), .mod (keyOfVoigt (1, 2)), .mod (keyOfVoigt (4, 4))].Nodup ∧
    ∀ r ∈ tableA.rows, r.2.length = tableA.names.length := by
  refine ⟨⟨by decide +kernel, by decide +kernel, by decide +kernel, by decide +kernel, by decide +kernel, ?_⟩,
    by decide +kernel, by decide +kernel⟩
  unfold Row.ok cellsOk
  decide +kernel

end Examples

/-! ### 9. volume blocks of the phonon file listed in another order: identical or rejected

The reader returns the blocks in file order (`vol_blocks_file_order`, from C17's round trip); `QHACalculator.read_input` — translated on
every run into `Generated.VolOrder.readInputSteps` by tools/gens/volorder_src.py, its test read from the INSTALLED qha — stores the
per-block arrays in that order and first demands `numpy.all(numpy.diff(volumes) <= 0)`.  It is the first thing done with the blocks
(`vol_check_position_is_source`).  `runSteps Generated.VolOrder.readInputSteps` is the meaning of the translated method. -/

section VolOrder
open Cij.QhaInput Cij.VolOrder

/-- **vol_check_is_source.**  For every scalar type (Float in the driver, ordered fields below) and every data set the hand-written
`readInput` is the translated statement list run in order — same exception or same five arrays; its test is the expression the
installed qha spells in `is_monotonic_decreasing` (operator read from qha/tools.py on this run), which is what the guard calls. -/
theorem vol_check_is_source {α : Type} [Sub α] [OfNat α 0] [LT α] [DecidableLT α] [LE α] [DecidableLE α] (d : Data α) (a : List α) :
    runSteps Generated.VolOrder.readInputSteps d = (readInput d).map QhaArrays.toStore ∧
    isMonotonicDecreasing a = allDiff Generated.VolOrder.qhaMonotonicOp a ∧
    Generated.VolOrder.guardTestOrigin = "qha.tools.is_monotonic_decreasing" :=
  ⟨readInput_is_source d, rfl, rfl⟩

variable {K : Type} [Field K] [LinearOrder K] [IsStrictOrderedRing K]

/-- **vol_check_accepts_iff.**  The translated `read_input` returns iff the volumes are non-increasing in FILE order — and then it has
stored every array in file order, nothing sorted, nothing dropped — and raises exactly `RuntimeError` otherwise.  (The installed
qha's test is `<= 0`, not `< 0`: equal neighbours pass.) -/
theorem vol_check_accepts_iff (d : Data K) :
    (runSteps Generated.VolOrder.readInputSteps d
        = .ok (QhaArrays.toStore { nm := d.nm, volumes := d.volumes.map (·.volume), energies := d.volumes.map (·.energy),
                                   frequencies := d.volumes.map fun v => v.qPoints.map (·.modes),
                                   weights := d.weights.map (·.weight) })
      ↔ d.volumes.Pairwise fun a b => b.volume ≤ a.volume) ∧
    (runSteps Generated.VolOrder.readInputSteps d = .error (.raised "RuntimeError")
      ↔ ¬ d.volumes.Pairwise fun a b => b.volume ≤ a.volume) := by
  have hs : runSteps Generated.VolOrder.readInputSteps d = (readInput d).map QhaArrays.toStore := readInput_is_source d
  rw [hs]
  constructor
  · rw [← readInput_ok_iff d]
    constructor
    · intro h
      cases hr : readInput d with
      | error e => rw [hr] at h; cases h
      | ok r =>
        rw [hr] at h
        have hcase := (readInput_ok_iff d).mpr
        by_cases hp : d.volumes.Pairwise fun a b => b.volume ≤ a.volume
        · rw [← hr]; exact hcase hp
        · rw [(readInput_error_iff d).mpr hp] at hr; cases hr
    · intro h; rw [h]; rfl
  · rw [← readInput_error_iff d]
    constructor
    · intro h
      cases hr : readInput d with
      | error e => rw [hr] at h; cases h; rfl
      | ok r => rw [hr] at h; cases h
    · intro h; rw [h]; rfl

/-- **vol_relisting_rejected_or_identical — the last clause of the property, on the translated `read_input`, at full strength.**
A phonon file whose blocks are listed by strictly decreasing volume is accepted; for EVERY re-listing `bs'` of its blocks (any
permutation of the list of blocks — reversed, shuffled, one swap, …) the re-listed data set either IS the original one (the identity
re-listing: same results trivially) or is rejected with `RuntimeError` before anything is computed.  Never a third outcome. -/
theorem vol_relisting_rejected_or_identical (d : Data K) (bs' : List (VolumeData K)) (hperm : bs'.Perm d.volumes)
    (hdec : d.volumes.Pairwise fun a b => b.volume < a.volume) :
    (∃ r, runSteps Generated.VolOrder.readInputSteps d = .ok r) ∧
    (relist d bs' = d ∨ runSteps Generated.VolOrder.readInputSteps (relist d bs') = .error (.raised "RuntimeError")) := by
  refine ⟨⟨_, (vol_check_accepts_iff d).1.mpr (hdec.imp le_of_lt)⟩, ?_⟩
  by_cases hacc : (relist d bs').volumes.Pairwise fun a b => b.volume ≤ a.volume
  · left
    have : bs' = d.volumes := perm_eq_of_decreasing (fun v => v.volume) d.volumes bs' hperm hdec hacc
    rw [this]; rfl
  · right
    exact (vol_check_accepts_iff (relist d bs')).2.mpr hacc

/-- the same statement on the volumes alone: a permutation of a strictly decreasing list of volumes passes the installed qha's test
iff it is that list -/
theorem vol_order_unique (vols vols' : List K) (hperm : vols'.Perm vols) (hdec : vols.Pairwise fun a b => b < a) :
    allDiff Generated.VolOrder.qhaMonotonicOp vols' = true ↔ vols' = vols := by
  constructor
  · intro h
    exact perm_eq_of_decreasing (fun v => v) vols vols' hperm hdec ((allDiff_le_iff vols').mp h)
  · intro h
    rw [h]
    exact (allDiff_le_iff vols).mpr (hdec.imp le_of_lt)

/-- **vol_relisting_accepted_same_volumes — files with a repeated volume.**  Because the test is not strict, a file with equal volumes
in neighbouring blocks IS accepted.  For ANY accepted file and ANY accepted re-listing of its blocks the list of volumes (hence qha's
`_volumes`) is the same: the two listings can differ only in the order of blocks that carry the SAME volume. -/
theorem vol_relisting_accepted_same_volumes (d : Data K) (bs' : List (VolumeData K)) (hperm : bs'.Perm d.volumes)
    (hacc : ∃ r, runSteps Generated.VolOrder.readInputSteps d = .ok r)
    (hacc' : ∃ r, runSteps Generated.VolOrder.readInputSteps (relist d bs') = .ok r) :
    bs'.map (·.volume) = d.volumes.map (·.volume) ∧
      ∀ v, (bs'.filter fun b => decide (b.volume = v)).Perm (d.volumes.filter fun b => decide (b.volume = v)) := by
  have h1 : d.volumes.Pairwise fun a b => b.volume ≤ a.volume := by
    by_contra hn
    obtain ⟨r, hr⟩ := hacc
    rw [(vol_check_accepts_iff d).2.mpr hn] at hr; cases hr
  have h2 : bs'.Pairwise fun a b => b.volume ≤ a.volume := by
    by_contra hn
    obtain ⟨r, hr⟩ := hacc'
    rw [(vol_check_accepts_iff (relist d bs')).2.mpr hn] at hr; cases hr
  exact ⟨perm_map_eq_of_nonincreasing (fun v => v.volume) d.volumes bs' hperm h1 h2, fun v => hperm.filter _⟩

/-- … and the blocks that share a volume are NOT protected: **vol_relisting_repeated_may_differ**.  Four blocks with volumes 3, 2, 2, 1
(the two blocks at volume 2 carry different frequencies, 5 and 7): the file and the re-listing that exchanges the two middle blocks are
both accepted by the translated `read_input`, they are different data sets, qha receives different `_frequencies`, and an interpolator
that thins its nodes by POSITION (`[::ceil(nv/order)]`, order 2: positions 0 and 2) builds on different frequencies — the numbers can
differ although no error is raised.  Reproduced on the real code by harness/c13.py (`vol-eqswap`). -/
theorem vol_relisting_repeated_may_differ :
    let blk : ℚ → ℚ → VolumeData ℚ := fun v f => ⟨0, v, 0, [⟨[], [0, 0, 0, f]⟩]⟩
    let d : Data ℚ := { nv := 4, nq := 1, np := 4, nm := 1, na := 1, weights := [⟨[0, 0, 0], 1⟩],
                        volumes := [blk 3 4, blk 2 5, blk 2 7, blk 1 9] }
    let bs' := [blk 3 4, blk 2 7, blk 2 5, blk 1 9]
    bs'.Perm d.volumes ∧ relist d bs' ≠ d ∧
    (runSteps Generated.VolOrder.readInputSteps d).toBool = true ∧
    (runSteps Generated.VolOrder.readInputSteps (relist d bs')).toBool = true ∧
    (runSteps Generated.VolOrder.readInputSteps d).map (·.lookup "_volumes")
      = (runSteps Generated.VolOrder.readInputSteps (relist d bs')).map (·.lookup "_volumes") ∧
    (runSteps Generated.VolOrder.readInputSteps d).map (·.lookup "_frequencies")
      ≠ (runSteps Generated.VolOrder.readInputSteps (relist d bs')).map (·.lookup "_frequencies") ∧
    Cij.Interp.thin 2 (d.volumes.map fun b => (b.qPoints.map (·.modes)).flatten.getD 3 0) = [4, 7] ∧
    Cij.Interp.thin 2 (bs'.map fun b => (b.qPoints.map (·.modes)).flatten.getD 3 0) = [4, 5] := by
  refine ⟨?_, by decide +kernel, by decide +kernel, by decide +kernel, by decide +kernel, by decide +kernel, by decide +kernel,
    by decide +kernel⟩
  exact List.Perm.cons _ (List.Perm.swap _ _ _)

/-- what a STRICT test would give (`numpy.all(numpy.diff(volumes) < 0)`, the repair suggested for the finding above): no list with a
repeated volume passes, in any order — a file with a repeated volume would never be accepted -/
theorem vol_strict_check_rejects_repeats (vols : List K) (h : ¬ vols.Nodup) : allDiff .lt vols = false := by
  by_contra hn
  exact h (allDiff_lt_nodup vols (by simpa using hn))

/-- … whereas the test the installed qha spells accepts equal neighbours -/
theorem vol_check_not_strict (x y : K) (hxy : y ≤ x) : allDiff Generated.VolOrder.qhaMonotonicOp [x, y, y] = true :=
  (allDiff_le_iff [x, y, y]).mpr (by simp [hxy])

/-- **vol_check_position_is_source.**  WHEN the check runs, from four translated pieces:
* inside `read_input` the guard tests `_volumes`, negated (`if not …`), directly after the statement that stores the file's volumes in
  file order, and no per-block array is stored before it;
* `read_input` is the first call `_load_qha_calculator` makes on the qha calculator (before `refine_grid`);
* the adapter is built in `Calculator._load`, the first step of `Calculator.__init__`, right after the two readers, and is the only
  statement of `_load` that is handed `self.qha_input`;
* the only other functions of cij/core that read the volume blocks are `interpolate_modes` and `_calculate_pressure_static`, both called
  by later steps of `__init__`.
So no number is computed from the blocks before their order has been checked. -/
theorem vol_check_position_is_source :
    (∃ pre post, Generated.VolOrder.readInputSteps
        = pre ++ [.perBlock "_volumes" .volume, .guard ⟨"_volumes", true, Generated.VolOrder.qhaMonotonicOp, "RuntimeError"⟩] ++ post ∧
      pre.all (fun s => match s with | .scalar _ _ => true | _ => false) = true ∧
      post.all (fun s => match s with | .guard _ => false | _ => true) = true) ∧
    Generated.adapterLoadCalls.head? = some ("read_input", "qha_input") ∧
    Generated.CalcGlue.initSteps.head? = some ("call", "_load", ["config_fname"]) ∧
    "Calculator._load" ∈ Generated.CalcGlue.pinnedMethods ∧
    Generated.VolOrder.loadSteps.map (fun s => (s.1, s.2.2))
      = [("config", false), ("config", false), ("qha_input", false), ("elast_data", false), ("qha_calculator", true)] ∧
    Generated.VolOrder.loadSteps.getLast? = some ("qha_calculator", "QHACalculatorAdapter", true) ∧
    Generated.VolOrder.volumeBlockReaders.map (fun r => (r.1, r.2.1))
      = [("calculator", "Calculator._calculate_pressure_static"), ("mode_gamma", "interpolate_modes"),
         ("qha_adapter", "QHACalculator.read_input")] ∧
    ("call", "_interpolate_modes", []) ∈ Generated.CalcGlue.initSteps.tail ∧
    ("call", "_calculate_pressure_static", []) ∈ Generated.CalcGlue.initSteps.tail := by
  refine ⟨⟨[.scalar "_formula_unit_number" "nm"], _, rfl, by decide, by decide⟩, by decide, by decide, by decide, by decide,
    by decide, by decide, by decide, by decide⟩

omit [Field K] [LinearOrder K] [IsStrictOrderedRing K] in
/-- **vol_blocks_file_order.**  "Listing the blocks in another order" in the FILE is `relist` on the reader's result: for every
well-formed data set and every list of blocks `bs'`, the file `write_energy` prints for the re-listed data set is read back by
`read_energy` with exactly the blocks `bs'`, in that order (numbers rounded to the printed precision) — the reader neither sorts nor
drops blocks (C17 `read_write_energy_source`, i.e. through the formats and regexes `Generated.Readers` holds now). -/
theorem vol_blocks_file_order {Num : Type} (F : NumFmt Num) (hF : F.Lawful) (d : Data Num) (bs' : List (VolumeData Num))
    (hd : WellFormed (relist d bs')) (comment : Line) (hc : matchInfo comment = none) :
    ∃ ls, writeEnergy F (relist d bs') comment = some ls ∧
      (readEnergy F ls).map (·.volumes) = some (bs'.map (roundVolume F)) := by
  obtain ⟨ls, hw, hr⟩ := Cij.C17.read_write_energy F hF (relist d bs') hd comment hc
  exact ⟨ls, hw, by rw [hr]; rfl⟩

end VolOrder

/-! ### 10. clauses 1–4 and 7 restated on the translated code

`Cij.NSGlue.srcLong` / `srcOff` bundle what tools/gens/nonshear_src.py reads off `nonshear.py` on this run (averaging method → module
function → reduction tree, `clear_gamma_point`, prefactor expressions, wiring, `Q`, bodies, T = 0 statements); `q1Src`/`q2Src` are the
translated `Q1`/`Q2`.  The invariance theorems of sections 1–3 are stated here for values ASSEMBLED FROM THOSE PIECES ONLY. -/

section OnSource
open Cij.NSGlue

/-- **avg_source_presentation.**  `self.average_over_modes` as translated (both classes) does not depend on the order of the q-points
after Γ listed together with their weights, on the order of the modes inside a q-point (Γ: of its non-acoustic modes), nor on a common
factor on all weights. -/
theorem avg_source_presentation :
    (∀ (r0 : List ℝ) (w0 : ℝ) (rs rs' : List (List ℝ)) (ws ws' : List ℝ), rs.length = ws.length → rs'.length = ws'.length →
      (rs.zip ws).Perm (rs'.zip ws') →
      srcLong.avg (r0 :: rs) (w0 :: ws) = srcLong.avg (r0 :: rs') (w0 :: ws') ∧
      srcOff.avg (r0 :: rs) (w0 :: ws) = srcOff.avg (r0 :: rs') (w0 :: ws')) ∧
    (∀ (r0 r0' : List ℝ) (rs rs' : List (List ℝ)) (w : List ℝ), (r0.drop 3).Perm (r0'.drop 3) → r0.length = r0'.length →
      List.Forall₂ List.Perm rs rs' →
      srcLong.avg (r0 :: rs) w = srcLong.avg (r0' :: rs') w ∧ srcOff.avg (r0 :: rs) w = srcOff.avg (r0' :: rs') w) ∧
    (∀ (X : List (List ℝ)) (w : List ℝ) (c : ℝ), c ≠ 0 → sumL w ≠ 0 →
      srcLong.avg X (w.map fun x => c * x) = srcLong.avg X w ∧ srcOff.avg X (w.map fun x => c * x) = srcOff.avg X w) := by
  refine ⟨fun r0 w0 rs rs' ws ws' hl hl' h => ?_, fun r0 r0' rs rs' w hΓ hlen hrs => ?_, fun X w c hc hw => ?_⟩
  · simp only [srcLong_avg, srcOff_avg, avg_perm_q r0 w0 rs rs' ws ws' hl hl' h, and_self]
  · simp only [srcLong_avg, srcOff_avg, avg_perm_modes r0 r0' rs rs' w hΓ hlen hrs, and_self]
  · simp only [srcLong_avg, srcOff_avg, avg_weight_scale X w c hc hw, and_self]

/-- **values_source_perm_q.**  `value_isothermal` of both non-shear classes, assembled from the translated pieces only, at any (T, V)
point: unchanged when the q-points after Γ are listed in another order together with their weights. -/
theorem values_source_perm_q (c : Consts ℝ) (T P cv V e0 e1 pst : ℝ) (g : QPoint) (qs qs' : List QPoint) (hq : qs.Perm qs') :
    srcLong.valueIsothermalAt q1Src q2Src c ((g :: qs).map (·.w)) T P cv (sliceOfQ V e0 e1 pst (g :: qs))
      = srcLong.valueIsothermalAt q1Src q2Src c ((g :: qs').map (·.w)) T P cv (sliceOfQ V e0 e1 pst (g :: qs')) ∧
    srcOff.valueIsothermalAt q1Src q2Src c ((g :: qs).map (·.w)) T P cv (sliceOfQ V e0 e1 pst (g :: qs))
      = srcOff.valueIsothermalAt q1Src q2Src c ((g :: qs').map (·.w)) T P cv (sliceOfQ V e0 e1 pst (g :: qs')) := by
  have h := values_perm_q c T P cv V e0 e1 pst g qs qs' hq
  simp only [values, List.cons.injEq, and_true] at h
  rw [q1Src_eq, q2Src_eq, srcLong_valueIsothermal, srcLong_valueIsothermal, srcOff_valueIsothermal, srcOff_valueIsothermal,
    h.1, h.2.1]
  exact ⟨rfl, rfl⟩

/-- **values_source_perm_modes.**  … when the modes inside the q-points are listed in another order (Γ: its non-acoustic modes) -/
theorem values_source_perm_modes (c : Consts ℝ) (T P cv V e0 e1 pst : ℝ) (g g' : List ModeRec) (S S' : List (List ModeRec))
    (w : List ℝ) (hΓ : (g.drop 3).Perm (g'.drop 3)) (hlen : g.length = g'.length) (hS : List.Forall₂ List.Perm S S') :
    srcLong.valueIsothermalAt q1Src q2Src c w T P cv (sliceOfM V e0 e1 pst (g :: S))
      = srcLong.valueIsothermalAt q1Src q2Src c w T P cv (sliceOfM V e0 e1 pst (g' :: S')) ∧
    srcOff.valueIsothermalAt q1Src q2Src c w T P cv (sliceOfM V e0 e1 pst (g :: S))
      = srcOff.valueIsothermalAt q1Src q2Src c w T P cv (sliceOfM V e0 e1 pst (g' :: S')) := by
  have h := values_perm_modes c T P cv V e0 e1 pst g g' S S' w hΓ hlen hS
  simp only [values, List.cons.injEq, and_true] at h
  rw [q1Src_eq, q2Src_eq, srcLong_valueIsothermal, srcLong_valueIsothermal, srcOff_valueIsothermal, srcOff_valueIsothermal,
    h.1, h.2.1]
  exact ⟨rfl, rfl⟩

/-- **values_source_weight_scale.**  … when all weights are multiplied by a common factor -/
theorem values_source_weight_scale (c : Consts ℝ) (T P cv : ℝ) (s : VolSlice ℝ) (w : List ℝ) (a : ℝ) (ha : a ≠ 0)
    (hw : sumL w ≠ 0) :
    srcLong.valueIsothermalAt q1Src q2Src c (w.map fun x => a * x) T P cv s = srcLong.valueIsothermalAt q1Src q2Src c w T P cv s ∧
    srcOff.valueIsothermalAt q1Src q2Src c (w.map fun x => a * x) T P cv s = srcOff.valueIsothermalAt q1Src q2Src c w T P cv s := by
  have h := values_weight_scale c T P cv s w a ha hw
  simp only [values, List.cons.injEq, and_true] at h
  rw [q1Src_eq, q2Src_eq, srcLong_valueIsothermal, srcLong_valueIsothermal, srcOff_valueIsothermal, srcOff_valueIsothermal,
    h.1, h.2.1]
  exact ⟨rfl, rfl⟩

open Cij.Interp in
/-- **interp_cell_is_source — mode-by-mode independence on the translated glue.**  For every method that dispatches to a source function
`f` (order ≥ 1): the loop body of `interpolate_modes` for the position (j, k) is a function of THAT position's series alone — zeros in the
three Γ-acoustic slots, otherwise the nodes prepared as `Generated.modeNodesSpec` says `f` prepares them (thinned?/flipped?), handed to the
kernel, the samples mapped by the triple pattern `Generated.modeReturnPattern` holds for `f`; and the loop (skip condition, series
extraction, dispatch) is the one the translator compared.  This is the per-cell fact `interp_perm_equivariant(_total)` rests on. -/
theorem interp_cell_is_source {α : Type} [Neg α] [Zero α] [ExpLog α] (m : Method) (f : String) (h : m.pyFunction = some f)
    (order : ℕ) (ho : order ≠ 0) (I : Interpolant α) (vols vArray : List α) :
    Generated.interpolateModesLoopCanonical = true ∧
    Generated.modeReturnPattern.lookup f = some canonicalPattern ∧
    ∃ sp, Generated.modeNodesSpec.lookup f = some sp ∧ ∀ (j k : ℕ) (ser : List α),
      cell m order I vols vArray j k ser =
        if isΓac (j, k) then .ok (vArray.map fun _ => (0, 0, 0))
        else if m = .hermite then .error .typeError
        else (do
          let r ← I ((nodesBySpec sp order vols).map ExpLog.log) ((nodesBySpec sp order ser).map ExpLog.log) (vArray.map ExpLog.log)
          pure (r.map fun t => (applyElem t (true, false, 0), applyElem t (false, true, 1), applyElem t (false, true, 2)))) := by
  obtain ⟨hpat, -, sp, hsp, hnodes⟩ := Cij.C11.mode_glue_is_source m f h order ho I vols vols vols vols vArray
  refine ⟨rfl, hpat, sp, hsp, fun j k ser => ?_⟩
  obtain ⟨sp', hsp', hn⟩ := mode_nodes_is_source m f h order ho vols ser
  rw [hsp] at hsp'
  cases hsp'
  have hunk : m ≠ .unknown := by
    intro hm; rw [hm] at h; cases h
  unfold cell isΓac
  by_cases hΓ : (j == 0 && decide (k < 3)) = true
  · simp [hΓ]
  · simp only [hΓ, Bool.false_eq_true, if_false]
    have hu : (m == Method.unknown) = false := by
      cases m <;> first | rfl | exact absurd rfl hunk
    simp only [hu, Bool.false_eq_true, if_false]
    unfold interpolateMode
    rw [hn]
    by_cases hh : m = .hermite
    · subst hh; rfl
    · have hb : (m == Method.hermite) = false := by
        cases m <;> first | rfl | exact absurd rfl hh
      simp only [hh, if_false]
      show (if (m == Method.hermite) = true then _ else _) = _
      rw [hb]
      exact finish_is_pattern I _ _ vArray

open Cij.ElastDat Cij.ReadersSource Generated in
/-- **static_reader_is_source — columns by name, rows in file order.**  `read_elast_data` as `Generated.Readers` describes it now: a table
row is read as `fields[rowVolumeIndex]` + `zip(keys[rowKeySlice:], fields[rowValueSlice:])` — every value is stored under the KEY of its
column (the key line through `_find_modulus_key`, whatever prefix/case), the rows are consed in FILE order (nothing sorted: the reference
volume of `fit_modulus` is the first listed row, which `static_row_perm` shows to be immaterial), and the lattice rows likewise. -/
theorem static_reader_is_source {Num : Type} (F : NumFmt Num) :
    (∀ keys n ls, readRows F keys (n + 1) ls = ((ls.headD []).mapM (convNum F Readers.rowConv)).bind fun fields =>
      (fields[Readers.rowVolumeIndex]?).bind fun v =>
        (readRows F keys n ls.tail).bind fun (vs, r) =>
          some (⟨v, dictOfZip (keys.drop Readers.rowKeySlice) (fields.drop Readers.rowValueSlice)⟩ :: vs, r)) ∧
    (∀ n ls, readLattice F (n + 1) ls = ((ls.headD []).mapM (convNum F Readers.latticeConv)).bind fun fields =>
      (readLattice F n ls.tail).bind fun rest => some (fields :: rest)) ∧
    Readers.rowKeySlice = Readers.rowValueSlice :=
  ⟨(Cij.C17.readers_model_is_source_elast F).2.1, (Cij.C17.readers_model_is_source_elast F).2.2.1, by decide⟩

end OnSource

/-! #### non-vacuity of sections 9 and 10 -/

section Examples2
open Cij.QhaInput Cij.VolOrder

/-- a 4-block data set over ℚ listed by decreasing volume (hypothesis of `vol_relisting_rejected_or_identical`) … -/
def blocks4 : List (VolumeData ℚ) :=
  [⟨0, 40, -1, [⟨[], [0, 0, 0, 9]⟩]⟩, ⟨1, 35, -2, [⟨[], [0, 0, 0, 10]⟩]⟩, ⟨2, 30, -2, [⟨[], [0, 0, 0, 12]⟩]⟩,
   ⟨3, 25, -1, [⟨[], [0, 0, 0, 15]⟩]⟩]
/-- the same blocks with the two middle ones exchanged -/
def blocks4swap : List (VolumeData ℚ) :=
  [⟨0, 40, -1, [⟨[], [0, 0, 0, 9]⟩]⟩, ⟨2, 30, -2, [⟨[], [0, 0, 0, 12]⟩]⟩, ⟨1, 35, -2, [⟨[], [0, 0, 0, 10]⟩]⟩,
   ⟨3, 25, -1, [⟨[], [0, 0, 0, 15]⟩]⟩]
def data4 : Data ℚ := { nv := 4, nq := 1, np := 4, nm := 2, na := 1, weights := [⟨[0, 0, 0], 1⟩], volumes := blocks4 }

example : (blocks4.Pairwise fun a b => b.volume < a.volume) ∧ blocks4swap.Perm blocks4 ∧ blocks4.reverse.Perm blocks4 ∧
    (blocks4.rotate 1).Perm blocks4 := by decide +kernel

/-- … is accepted by the translated `read_input`, arrays in file order; reversed, with the two middle blocks exchanged, and rotated it is
rejected with RuntimeError — the three non-identity re-listings tried here are all instances of the second disjunct -/
example : runSteps Generated.VolOrder.readInputSteps data4
      = .ok [("_q_weights", .vec [1]), ("_frequencies", .cube [[[0, 0, 0, 9]], [[0, 0, 0, 10]], [[0, 0, 0, 12]], [[0, 0, 0, 15]]]),
             ("_static_energies", .vec [-1, -2, -2, -1]), ("_volumes", .vec [40, 35, 30, 25]), ("_formula_unit_number", .nat 2)] ∧
    runSteps Generated.VolOrder.readInputSteps (relist data4 blocks4.reverse) = .error (.raised "RuntimeError") ∧
    runSteps Generated.VolOrder.readInputSteps (relist data4 blocks4swap) = .error (.raised "RuntimeError") ∧
    runSteps Generated.VolOrder.readInputSteps (relist data4 (blocks4.rotate 1)) = .error (.raised "RuntimeError") := by
  decide +kernel

/-- the boundary cases of the test as the installed qha spells it: no block / one block pass; equal neighbours pass; an increase fails -/
example : allDiff Generated.VolOrder.qhaMonotonicOp ([] : List ℚ) = true ∧ allDiff Generated.VolOrder.qhaMonotonicOp [(7 : ℚ)] = true ∧
    allDiff Generated.VolOrder.qhaMonotonicOp [(3 : ℚ), 2, 2, 1] = true ∧ allDiff Generated.VolOrder.qhaMonotonicOp [(3 : ℚ), 2, 5 / 2, 1] = false ∧
    allDiff .lt [(3 : ℚ), 2, 2, 1] = false := by
  decide +kernel

/-- `avg_source_presentation` is about a non-trivial function: the translated averaging on a 2-q-point array -/
example : Cij.NSGlue.srcOff.avg [[7, 7, 7, 3], [1, 1, 1, 1]] ([1, 3] : List ℝ) = some (15 / 16) := by
  rw [Cij.NSGlue.srcOff_avg]
  norm_num [averageOverModes, clearGamma, zeroFirst, mean, sumL]

/-- `interp_cell_is_source`: every method has a source function, and the node preparation differs between them (lsq_poly: file order;
lagrange: thinned and flipped) -/
example : (Cij.Interp.Method.lsqPoly).pyFunction = some "interpolate_mode_lsq_poly" ∧
    Generated.modeNodesSpec.lookup "interpolate_mode_lsq_poly" = some (false, false) ∧
    Generated.modeNodesSpec.lookup "interpolate_mode_lagrange" = some (true, true) ∧
    Cij.Interp.nodesBySpec (true, true) 2 [(40 : ℚ), 35, 30, 25] = [30, 40] := by
  decide +kernel

end Examples2

/-! #### ties shared with other properties

The statement of this property also rests on code whose translation is owned by another property's file; the theorems are restated
here so that this property's obligations are re-checked against those files too (a change there breaks THIS check's proof as well). -/

/-- `full_modulus.py` / `_calculate_pressure_static` as translated on this run: default fit orders, degree offset, and the bodies of
`fit_modulus`, `get_axial_strains`, `get_static_modulus`, `modulus_adiabatic`, `modulus_isothermal` are the ones the model implements -/
theorem c13_full_modulus_is_source :
    Generated.fitModulusDegOffset = 1 ∧ Generated.fullModulusBodiesCanonical = true ∧
    Generated.fitModulusDefaultOrder = 2 ∧ Generated.staticPressureDefaultOrder = 3 := by decide

/-- `qha_adapter.py` as translated on this run: the (T,V) interface hands over qha's (T,V) fields (`heat_capacity = cv_tv_au`,
`pressures = p_tv_au`), the (T,P) interface `volumes = v_tp_bohr3`, `p_array = desired_pressures`; `read_input` passes the file's
fields unchanged; the requested grid is accepted by exactly the guard the model implements -/
theorem c13_qha_adapter_is_source {α : Type} [OfNat α 0] [LT α] [DecidableLT α] (pTvGpa : List (List α)) (desiredGpa : List α) :
    Generated.qhaVolumeBaseAttrs.lookup "heat_capacity" = some "cv_tv_au" ∧
    Generated.qhaVolumeBaseAttrs.lookup "pressures" = some "p_tv_au" ∧
    Generated.qhaPressureBaseAttrs.lookup "volumes" = some "v_tp_bohr3" ∧
    Generated.qhaPressureBaseAttrs.lookup "p_array" = some "desired_pressures" ∧
    Generated.qhaReadInputCanonical = true ∧
    Cij.AdapterGuardSource.evalGuard Generated.pressureGuard pTvGpa desiredGpa = some (Cij.V2P.desiredPressureStatus pTvGpa desiredGpa) :=
  ⟨by decide, by decide, by decide, by decide, rfl, Cij.AdapterGuardSource.desiredPressureStatus_is_source pTvGpa desiredGpa⟩

/-- `nonshear.py` as translated on this run: the model's isothermal and adiabatic values of both non-shear classes are the
translated bodies (zero-point + thermal; isothermal + gap), for every scalar type -/
theorem c13_nonshear_is_source {α : Type} [Cij.NonShear.Scalar α] [Add α] [Sub α] [Mul α] [Div α] [Neg α]
    (c : Cij.NonShear.Consts α) (w : List α) (T P cv : α) (s : Cij.NonShear.VolSlice α) (a b : α) :
    Cij.NonShear.valueAdiabaticLongAt c w T cv s =
      Cij.NSExpr.evalBody (Cij.NSExpr.envAt c w T P cv s (Cij.NonShear.mgLong s) a b (Cij.NonShear.valueIsothermalLongAt c w T s)
        (Cij.NonShear.isoToAdiaAt c.k c.hdk c.na T s.V cv (Cij.NonShear.mgLong s) s.freq w)) Generated.nsAdiaLong ∧
    Cij.NonShear.valueAdiabaticOffAt c w T P cv s =
      Cij.NSExpr.evalBody (Cij.NSExpr.envAt c w T P cv s (Cij.NonShear.mgOff s) a b (Cij.NonShear.valueIsothermalOffAt c w T P s)
        (Cij.NonShear.isoToAdiaAt c.k c.hdk c.na T s.V cv (Cij.NonShear.mgOff s) s.freq w)) Generated.nsAdiaOff :=
  ⟨Cij.NSExpr.valueAdiabaticLong_is_source c w T P cv s a b, Cij.NSExpr.valueAdiabaticOff_is_source c w T P cv s a b⟩

/-- `cij/io/traditional/elast_dat.py` (+ package glue) as translated on this run: `read_elast_data` and
`apply_symetry_on_elast_data` are the statements the reader model mirrors (rows in file order, lattice block in file order, one frame row
per volume BY NAME `"c%s%s" % key.v`, `fill_cij(df, **symmetry)` with the caller's dictionary untouched, rows written back as fresh
mappings from `c_(key[1:])`), and the package re-exports the readers themselves (no caching wrapper) -/
theorem c13_readers_are_source :
    Generated.Readers.elastDatCanonical = true ∧ Generated.Readers.columnLiterals = ["c", ""] ∧ Generated.Readers.backSlice = 1 ∧
    Generated.Readers.fillPositional = 1 ∧ Generated.Readers.fillKeywords = ["**<symmetry>"] ∧
    Generated.Readers.rowVolumeIndex = 0 ∧ Generated.Readers.rowKeySlice = 1 ∧ Generated.Readers.rowValueSlice = 1 ∧
    ("read_energy", "qha_input", "read_energy") ∈ Generated.Readers.packageImports ∧
    ("read_elast_data", "elast_dat", "read_elast_data") ∈ Generated.Readers.packageImports := by decide

end Cij.C13
