import CijModel.Voigt
namespace Cij.C13
end Cij.C13
