/-
  C17 — input files round-trip (record / line level).

  Statements are about `CijModel/QhaInput.lean` and `CijModel/ElastDat.lean` (the functions the driver runs
  against the real `read_energy` / `write_energy` / `read_elast_data` / `cij fill`).  Numbers are abstract:
  every theorem holds for ANY number type and ANY formatter/parser pair with `parse (fmt k x) = some (round k x)`
  (`NumFmt.Lawful`).  For the instance the driver and the correspondence run use — exact decimals over `Rat`,
  `Lex.ratFmt` — the law is itself a theorem, proved at character level (`rat_parse_fmt`, from
  `CijProofs/Lemmas/DecimalFmt.lean`), so the `…_rat` corollaries below carry no formatter hypothesis.
  That Python's `printf`/`float()`, `strip`/`split` and pandas' `to_string` behave as `Lex.ratFmt` / the token
  lists do is outside the model (tested through the real functions by `harness/c17.py`).
-/
import CijProofs.Lemmas.QhaInput
import CijProofs.Lemmas.ElastDat
import CijProofs.Lemmas.DecimalFmt

namespace Cij.C17
open Cij Cij.Lex Cij.QhaInput Cij.ElastDat

variable {Num : Type}

/-! ### phonon data: read ∘ write -/

/-- Writing a well-formed data set and reading it back gives the same counts, the same order of volumes,
q-points, modes and weights (weights paired with their q-points), every number rounded to its printed
precision (6 decimals; 4 for the q-coordinates inside the volume blocks). `comment` is any line that is not
itself five integers. -/
theorem read_write_energy (F : NumFmt Num) (hF : F.Lawful) (d : Data Num) (hd : WellFormed d)
    (comment : Line) (hc : matchInfo comment = none) :
    ∃ ls, writeEnergy F d comment = some ls ∧ readEnergy F ls = some (roundAll F d) := by
  obtain ⟨wl, hwl, hrw⟩ := readWeights_write F hF d.weights hd.w3
  refine ⟨[comment, [], headerNames, infoLine d, []] ++ d.volumes.flatMap (volumeLines F) ++ [[], ["weight"]] ++ wl, ?_, ?_⟩
  · simp [writeEnergy, hwl]
  · have hv := readVolumes_write F hF d.nq d.np d.volumes hd.nq_eq hd.np_eq ([] :: ["weight"] :: wl)
    rw [hd.nv_eq] at hv
    rw [hd.nw_eq] at hrw
    unfold readEnergy
    simp only [List.cons_append, List.nil_append, List.append_assoc]
    rw [findInfo_header d comment hc]
    cases hvs : d.volumes with
    | nil =>
      have hnv : d.nv = 0 := by rw [← hd.nv_eq, hvs]; rfl
      simp [hnv, readVolumes, scanWeight, hrw, roundAll, hvs]
    | cons v vs =>
      have hnv : d.nv = vs.length + 1 := by rw [← hd.nv_eq, hvs]; rfl
      rw [hvs, hnv] at hv
      simp only [hnv, Option.bind_eq_bind, Option.bind_some]
      rw [readVolumes_blank, hv]
      simp only [Option.bind_some, scanWeight_marker, hrw]
      simp [roundAll, hvs, hnv]

/-- the round trip preserves the declared counts and every list length (corollary, spelled out) -/
theorem read_write_counts (F : NumFmt Num) (hF : F.Lawful) (d : Data Num) (hd : WellFormed d)
    (comment : Line) (hc : matchInfo comment = none) :
    ∃ ls r, writeEnergy F d comment = some ls ∧ readEnergy F ls = some r ∧
      (r.nv, r.nq, r.np, r.nm, r.na) = (d.nv, d.nq, d.np, d.nm, d.na) ∧
      r.volumes.length = d.nv ∧ r.weights.length = d.nq ∧
      (∀ v ∈ r.volumes, v.qPoints.length = d.nq ∧ ∀ q ∈ v.qPoints, q.modes.length = d.np) := by
  obtain ⟨ls, h1, h2⟩ := read_write_energy F hF d hd comment hc
  refine ⟨ls, roundAll F d, h1, h2, rfl, ?_, ?_, ?_⟩
  · simp [roundAll, hd.nv_eq]
  · simp [roundAll, hd.nw_eq]
  · intro v hv
    simp only [roundAll, List.mem_map] at hv
    obtain ⟨v0, hv0, rfl⟩ := hv
    refine ⟨by simp [roundVolume, hd.nq_eq v0 hv0], ?_⟩
    intro q hq
    simp only [roundVolume, List.mem_map] at hq
    obtain ⟨q0, hq0, rfl⟩ := hq
    simp [roundQPoint, hd.np_eq v0 hv0 q0 hq0]

/-- the default comment is admissible -/
theorem default_comment_ok : matchInfo ["QHA", "Input", "data"] = none := by decide

/-- a comment that is itself five integers hijacks the header (why the hypothesis is there) -/
example : (findInfo [["1", "2", "3", "4", "5"], [], headerNames, ["7", "7", "7", "7", "7"]]).map (·.1) = some (1, 2, 3, 4, 5) := by
  decide

/-! ### static table: read_elast_data -/

/-- EXACT READ, no lattice block (end of file or a blank line after the rows): reference volume, count, cell mass,
every volume and every component in place; with distinct canonical keys each row's dictionary is exactly
column key ↦ value in that row. -/
theorem read_elast_exact (F : NumFmt Num) (t : TableFile Num) (kv : Key) (keys : List Key) (h : t.Ok F kv keys)
    (hnd : keys.Nodup) (tail : List Line) (hblank : tail.headD [] = []) :
    readElastData F (t.lines ++ tail) = some
      { vref := t.vref.2, nv := t.rows.length, cellmass := t.mass.2,
        volumes := t.rows.map fun r => ⟨r.1.2, keys.zip (r.2.map Prod.snd)⟩, lattice := [] } := by
  rw [read_elast_core F t kv keys h tail]
  have hb : tail.head?.getD [] = [] := by simpa using hblank
  simp [readTail, hb, Row.volume, dictOfZip_nodup keys _ hnd]

/-- EXACT READ with lattice block: one non-blank separator line, then as many lattice rows as volumes -/
theorem read_elast_exact_lattice (F : NumFmt Num) (t : TableFile Num) (kv : Key) (keys : List Key) (h : t.Ok F kv keys)
    (hnd : keys.Nodup) (sep : Line) (hsep : sep ≠ []) (lat : List (List (Cell Num)))
    (hlat : ∀ r ∈ lat, cellsOk F r) (hlen : lat.length = t.rows.length) (more : List Line) :
    readElastData F (t.lines ++ (sep :: lat.map (·.map Prod.fst) ++ more)) = some
      { vref := t.vref.2, nv := t.rows.length, cellmass := t.mass.2,
        volumes := t.rows.map fun r => ⟨r.1.2, keys.zip (r.2.map Prod.snd)⟩,
        lattice := lat.map (·.map Prod.snd) } := by
  rw [read_elast_core F t kv keys h]
  have := readLattice_cells F lat hlat more
  rw [hlen] at this
  simp [readTail, hsep, this, Row.volume, dictOfZip_nodup keys _ hnd]

/-- without the distinctness hypothesis the reader still returns, per row, Python's `dict(zip(keys, values))`
(a repeated canonical key — e.g. columns `c12` and `c21` — keeps the LAST value) -/
example : dictOfZip [Key.raw "a", Key.raw "b", Key.raw "a"] [1, 2, 3] = [(Key.raw "a", 3), (Key.raw "b", 2)] := by decide

/-! #### canonical key whatever the prefix or letter case -/

/-- any digit-free prefix (`c`, `C`, `C_`, `c_`, empty, …) + the two Voigt digits ↦ the canonical key of that pair -/
theorem key_any_prefix_voigt (pre : String) (hpre : ∀ c ∈ pre.toList, c.isDigit = false) :
    ∀ p ∈ allPairs, findModulusKey (pre ++ pairStr p) = (Modulus.fromVoigt p.1 p.2).map Key.mod := by
  intro p hp
  rw [findModulusKey_prefix pre _ hpre (digits_pairStr p hp).1 (digits_pairStr p hp).2, create_pairStr p hp]

/-- the same for the four standard indices (`c1111`, `C_2323`, …) -/
theorem key_any_prefix_standard (pre : String) (hpre : ∀ c ∈ pre.toList, c.isDigit = false) :
    ∀ t ∈ allTuples, findModulusKey (pre ++ tupleStr t)
      = (Modulus.fromStandard t.1 t.2.1 t.2.2.1 t.2.2.2).map Key.mod := by
  intro t ht
  rw [findModulusKey_prefix pre _ hpre (digits_tupleStr t ht).1 (digits_tupleStr t ht).2, create_tupleStr t ht]

/-- every in-range spelling lands on one of the 21 canonical keys; transposed and 4-index spellings on the same one -/
theorem key_canonical : ∀ p ∈ allPairs, ∃ q ∈ keys21,
    Modulus.fromVoigt p.1 p.2 = some (keyOfVoigt q) ∧ Modulus.fromVoigt p.2 p.1 = some (keyOfVoigt q) := by
  decide +kernel

/-- a name without trailing digits is kept as it is (the volume column); a name `c_` rejects makes the read fail -/
example : findModulusKey "V" = some (.raw "V") ∧ findModulusKey "1c1" = some (.raw "1c1") ∧
    findModulusKey "c1" = none ∧ findModulusKey "c123" = none ∧ findModulusKey "c77" = none ∧ findModulusKey "V0" = none := by
  decide +kernel

example : findModulusKey "C_11" = findModulusKey "c1111" ∧ findModulusKey "c21" = findModulusKey "C12" ∧
    findModulusKey "c44" = findModulusKey "c_3223" ∧ (findModulusKey "c44").isSome := by
  decide +kernel

/-! ### `cij fill`: the output is a table, its parse is the filled parse of the input -/

/-- rows of the filled frame (volume first) as printed cells -/
def frameRows (P : NumFmt Num) (k : Nat) (rows : List (Num × List Num)) : List (Row Num) :=
  rows.map fun r => ((P.fmt k r.1, P.round k r.1), r.2.map fun x => (P.fmt k x, P.round k x))

/-- RE-EMISSION + RE-PARSE.  Input: a static table `t` followed by anything (`tail`: nothing, a blank line, or
separator + lattice block).  If `fill_cij` maps the frame pandas reads to a frame with the same number of rows,
a volume column `vname'` in front and column names acceptable to `c_`, then the command's output
  * starts with the two header lines unchanged,
  * parses (by `read_elast_data`) to the same vref / nv / cellmass,
  * has exactly the rows of the filled frame (to the printed precision) under the canonical keys of its names,
  * and exactly the lattice block the input parse has (`readTail` of the same `tail`, cf. `read_elast_core`). -/
theorem fill_cmd_reparse (F P : NumFmt Num) (k : Nat) (hP : ∀ x, F.parse (P.fmt k x) = some (P.round k x))
    (fill : Table Num → Option (Table Num))
    (t : TableFile Num) (kv : Key) (keys : List Key) (h : t.Ok F kv keys)
    (hw : ∀ r ∈ t.rows, r.2.length = t.names.length) (tail : List Line)
    (vname' : Token) (names' : List Token) (rows' : List (Num × List Num)) (kv' : Key) (keys' : List Key)
    (hfill : fill t.frame = some ⟨vname' :: names', rows'.map fun r => r.1 :: r.2⟩)
    (hrows : rows'.length = t.rows.length)
    (hkv : findModulusKey vname' = some kv') (hkeys : names'.mapM findModulusKey = some keys') :
    ∃ out, fillCmd F P k fill (t.lines ++ tail) = some out ∧
      out.take 2 = [t.title, t.header2] ∧
      readElastData F out = (readTail F t.rows.length tail).map fun lat =>
        { vref := t.vref.2, nv := t.rows.length, cellmass := t.mass.2,
          volumes := rows'.map (fun r => ⟨P.round k r.1, dictOfZip keys' (r.2.map (P.round k))⟩), lattice := lat } := by
  have hlen : t.tableLines.length = t.rows.length + 1 := by simp [TableFile.tableLines]
  have htake : (t.tableLines ++ tail).take (t.rows.length + 1) = t.tableLines := by rw [← hlen]; simp
  have hdrop : (t.tableLines ++ tail).drop (t.rows.length + 1) = tail := by rw [← hlen]; simp
  have hcnt : ((t.rows.length : Int) + 1).toNat = t.rows.length + 1 := by omega
  refine ⟨t.title :: t.header2 ::
      (printTable P k ⟨vname' :: names', rows'.map fun r => r.1 :: r.2⟩ ++ tail), ?_, rfl, ?_⟩
  · simp only [TableFile.lines, List.cons_append, fillCmd]
    simp [TableFile.header2, h.nv, hcnt, htake, hdrop, parseTable_frame F t h.rows hw, hfill]
  · let t' : TableFile Num := ⟨t.title, t.vref, t.nvTok, t.mass, t.extra, vname', names', frameRows P k rows'⟩
    have hlenr : (frameRows P k rows').length = t.rows.length := by simp [frameRows, hrows]
    have hok : t'.Ok F kv' keys' := by
      refine ⟨h.vref, h.mass, by simpa [t', hlenr] using h.nv, hkv, hkeys, ?_⟩
      intro r hr
      simp only [t', frameRows, List.mem_map] at hr
      obtain ⟨r0, _, rfl⟩ := hr
      refine ⟨hP _, ?_⟩
      intro c hc
      simp only [List.mem_map] at hc
      obtain ⟨x, _, rfl⟩ := hc
      exact hP x
    have hlines : t.title :: t.header2 ::
        (printTable P k ⟨vname' :: names', rows'.map fun r => r.1 :: r.2⟩ ++ tail) = t'.lines ++ tail := by
      simp [TableFile.lines, TableFile.header2, TableFile.tableLines, t', printTable, frameRows, Row.line, Function.comp_def]
    rw [hlines, read_elast_core F t' kv' keys' hok tail]
    simp only [t', hlenr]
    congr 1
    funext lat
    simp [frameRows, Row.volume, Function.comp_def]

/-- THE FILL COMMAND'S OUTPUT IS A TABLE WHOSE PARSE IS THE SYMMETRY-FILLED PARSE OF ITS INPUT.
`fill` is `fill_cij(·, **options)` (owned by C08/C09), a parameter.  The two code paths hand it different frames:
the command the frame of the file (volume column in front, the file's column names), `apply_symetry_on_elast_data`
the frame rebuilt from the parse (canonical names `cIJ`, no volume column).  Hypotheses `hfile`/`hcanon`/`hkeys`/
`hkeys2` say that `fill` treats the two alike: same filled numbers `R` under the same canonical keys, volume column
untouched and in front (true of `fill_cij` for names `cIJ`/`CIJ`; measured by the harness on every case).  Then:
header lines, vref, nv, cell mass, volumes (to pandas' printed precision) and the lattice block are preserved and the
components are exactly the filled ones. -/
theorem fill_output_is_table (F P : NumFmt Num) (k : Nat) (hP : ∀ x, F.parse (P.fmt k x) = some (P.round k x))
    (fill : Table Num → Option (Table Num))
    (t : TableFile Num) (kv : Key) (keys : List Key) (h : t.Ok F kv keys)
    (hw : ∀ r ∈ t.rows, r.2.length = t.names.length) (hne : t.rows ≠ []) (hnd : keys.Nodup) (tail : List Line)
    (cn : List Token) (hcn : keys.mapM canonName = some cn)
    (vname' : Token) (names' : List Token) (kv' : Key) (keys' : List Key) (R : List (List Num))
    (hR : R.length = t.rows.length)
    (hfile : fill t.frame = some ⟨vname' :: names', List.zipWith (fun r x => r.1.2 :: x) t.rows R⟩)
    (cn' : List Token) (hcanon : fill ⟨cn, t.rows.map fun r => r.2.map Prod.snd⟩ = some ⟨cn', R⟩)
    (hkv : findModulusKey vname' = some kv') (hkeys : names'.mapM findModulusKey = some keys')
    (hkeys2 : cn'.mapM keyOfName = some keys') :
    ∃ out, fillCmd F P k fill (t.lines ++ tail) = some out ∧
      out.take 2 = [t.title, t.header2] ∧
      readElastData F out = ((readElastData F (t.lines ++ tail)).bind (applySymmetry fill)).map (roundData P k) := by
  have hklen : keys.length = t.names.length := length_of_mapM _ _ _ h.keys
  -- the filled frame of the file path, as (volume, components) rows
  let rows' : List (Num × List Num) := (t.rows.map fun r => r.1.2).zip R
  have hrows' : rows'.map (fun r => r.1 :: r.2) = List.zipWith (fun r x => r.1.2 :: x) t.rows R := by
    exact map_cons_zip _ _ _
  have hlen' : rows'.length = t.rows.length := by simp [rows', hR]
  obtain ⟨out, hout, htake, hparse⟩ := fill_cmd_reparse F P k hP fill t kv keys h hw tail vname' names' rows' kv' keys'
    (by rw [hrows']; exact hfile) hlen' hkv hkeys
  refine ⟨out, hout, htake, ?_⟩
  rw [hparse, read_elast_core F t kv keys h tail]
  cases readTail F t.rows.length tail with
  | none => rfl
  | some lat =>
    -- the parse of the input, explicitly
    have hvol : ∀ r ∈ t.rows, Row.volume (kv :: keys) r = ⟨r.1.2, keys.zip (r.2.map Prod.snd)⟩ := by
      intro r _; simp [Row.volume, dictOfZip_nodup keys _ hnd]
    have hvols : t.rows.map (Row.volume (kv :: keys)) = t.rows.map fun r => ⟨r.1.2, keys.zip (r.2.map Prod.snd)⟩ :=
      List.map_congr_left hvol
    obtain ⟨r0, rs, hrs⟩ := List.exists_cons_of_ne_nil hne
    have hr0 : (r0.2.map Prod.snd).length = keys.length := by
      simp [hklen, hw r0 (by simp [hrs])]
    have hvals : (t.rows.map fun r => (keys.zip (r.2.map Prod.snd)).map Prod.snd) = t.rows.map fun r => r.2.map Prod.snd := by
      apply List.map_congr_left
      intro r hr
      exact map_snd_zip_eq _ _ (by simp [hklen, hw r hr])
    simp only [Option.map_some, Option.bind_some, applySymmetry, hvols]
    have hkeys0 : ((List.map (fun r : Row Num => (⟨r.1.2, keys.zip (r.2.map Prod.snd)⟩ : ElastVolume Num)) t.rows).headD
        ⟨t.vref.2, []⟩).moduli.map (·.1) = keys := by
      rw [hrs]; simp only [List.map_cons, List.headD_cons]
      exact map_fst_zip_eq _ _ hr0
    rw [hkeys0]
    simp only [Option.bind_eq_bind, hcn, Option.bind_some, List.map_map, Function.comp_def, hvals, hcanon, hkeys2]
    have hlt : ¬ (R.length < (List.map (fun r : Row Num => (⟨r.1.2, keys.zip (r.2.map Prod.snd)⟩ : ElastVolume Num)) t.rows).length) := by
      simp [hR]
    simp only [hlt, if_false, Option.pure_def, Option.map_some, roundData, Option.some.injEq, ElastData.mk.injEq, true_and, and_true]
    simp only [rows', List.zip_map_left, List.map_map]
    apply List.map_congr_left
    intro e _
    simp [Function.comp_def, dictOfZip_map]

/-! ### non-vacuity: concrete instances with the driver's exact decimal arithmetic (`Lex.ratFmt`) -/

/-- 2 volumes × 2 q-points × 3 modes, values of either sign, more digits than are printed -/
def sample : Data Rat :=
  { nv := 2, nq := 2, np := 3, nm := 7, na := 1,
    weights := [⟨[0, 0, 0], 1⟩, ⟨[mkRat 1 2, mkRat (-1) 4, mkRat 1 128], mkRat 12345678 1000⟩],
    volumes := [
      ⟨-100000, mkRat 5860199612345 10000000000, mkRat (-1) 3,
        [⟨[0, 0, 0], [mkRat (-5) 10, 0, mkRat 99999999999 1000000]⟩, ⟨[mkRat 1 3, mkRat (-2) 3, 100000], [1, 2, 3]⟩]⟩,
      ⟨100000, 500, mkRat 1 128,
        [⟨[0, 0, 0], [4, 5, 6]⟩, ⟨[mkRat 1 3, mkRat (-2) 3, 100000], [7, 8, mkRat (-1) 10000000]⟩]⟩] }

example : WellFormed sample := by
  refine ⟨rfl, ?_, ?_, rfl, ?_⟩ <;> decide +kernel

/-- the conclusion of `read_write_energy` on the sample, computed (the law `Lawful` is not assumed here) -/
example : (writeEnergy ratFmt sample).bind (readEnergy ratFmt) = some (roundAll ratFmt sample) := by
  decide +kernel

/-- rounding is visible: the round trip is NOT the identity on data with more digits than printed -/
example : roundAll ratFmt sample ≠ sample := by decide +kernel

/-- the law on instances: ties to even (1/128 = 0.0078125), a negative number rounding to zero, the range boundary -/
example : ∀ x ∈ [mkRat 1 128, mkRat 3 128, mkRat (-1) 10000000, -100000, mkRat 99999999999 1000000, 0],
    ∀ k ∈ [4, 6], ratFmt.parse (ratFmt.fmt k x) = some (ratFmt.round k x) := by
  decide +kernel

example : ratFmt.fmt 6 (mkRat 1 128) = "0.007812" ∧ ratFmt.fmt 6 (mkRat 3 128) = "0.023438" ∧
    ratFmt.fmt 6 (mkRat (-1) 10000000) = "-0.000000" ∧ ratFmt.fmt 4 (-100000) = "-100000.0000" := by
  decide +kernel

/-- a static table with mixed spellings and a lattice block, read by the model as the theorems say -/
def sampleTable : List Line :=
  [["title", "line"], ["586.01996", "2", "200.782", "extra"], ["V", "C_11", "c1122", "44"],
   ["617.47767", "399.2", "124.3", "88.35"], ["586.01996", "460.9", "156.2", "112.35"],
   ["lattice_a", "lattice_b", "lattice_c"], ["1.0", "0.8", "2.9"], ["0.9", "0.8", "2.8"]]

example : (readElastData ratFmt sampleTable).map (fun d => (d.nv, d.volumes.length, d.lattice.length,
      d.volumes.map fun v => v.moduli.map (·.1))) =
    some (2, 2, 2, [[.mod (keyOfVoigt (1, 1)), .mod (keyOfVoigt (1, 2)), .mod (keyOfVoigt (4, 4))],
                    [.mod (keyOfVoigt (1, 1)), .mod (keyOfVoigt (1, 2)), .mod (keyOfVoigt (4, 4))]]) := by
  decide +kernel

/-- `cij fill` on it with a `fill` that appends a column: header lines and lattice survive, the table is replaced -/
example : (fillCmd ratFmt ratFmt 6 (fun t => some ⟨t.names ++ ["c55"], t.rows.map fun r => r ++ [r.getD 3 0]⟩) sampleTable).bind
      (fun out => (readElastData ratFmt out).map fun d => (out.take 2, d.lattice, d.volumes.map fun v => v.moduli.length)) =
    some (sampleTable.take 2, [[1, mkRat 4 5, mkRat 29 10], [mkRat 9 10, mkRat 4 5, mkRat 14 5]], [4, 4]) := by
  decide +kernel

/-! ### the driver's instance `Lex.ratFmt`: the formatter law is a theorem, the corollaries are hypothesis-free -/

/-- THE LAW, character level, for every precision and every rational (no sign / `k = 0` / zero corner excluded):
parsing the characters `"%.{k}f"` prints gives the value rounded half-even to `k` decimals. -/
theorem rat_parse_fmt (k : Nat) (q : Rat) : ratParse (ratFmtStr k q) = some (ratRound k q) :=
  Lex.ratParse_ratFmtStr k q

/-- the same, as the `Lawful` predicate the generic theorems ask for -/
theorem rat_lawful : ratFmt.Lawful := Lex.ratFmt_lawful

/-- `read_write_energy` for the driver's numbers: no hypothesis on the formatter is left -/
theorem read_write_energy_rat (d : Data Rat) (hd : WellFormed d) (comment : Line) (hc : matchInfo comment = none) :
    ∃ ls, writeEnergy ratFmt d comment = some ls ∧ readEnergy ratFmt ls = some (roundAll ratFmt d) :=
  read_write_energy ratFmt rat_lawful d hd comment hc

/-- `read_write_counts` for the driver's numbers -/
theorem read_write_counts_rat (d : Data Rat) (hd : WellFormed d) (comment : Line) (hc : matchInfo comment = none) :
    ∃ ls r, writeEnergy ratFmt d comment = some ls ∧ readEnergy ratFmt ls = some r ∧
      (r.nv, r.nq, r.np, r.nm, r.na) = (d.nv, d.nq, d.np, d.nm, d.na) ∧
      r.volumes.length = d.nv ∧ r.weights.length = d.nq ∧
      (∀ v ∈ r.volumes, v.qPoints.length = d.nq ∧ ∀ q ∈ v.qPoints, q.modes.length = d.np) :=
  read_write_counts ratFmt rat_lawful d hd comment hc

/-- `fill_cmd_reparse` with reader and printer both the exact-decimal instance, any printed precision `k`:
the hypothesis `hP` is discharged by `rat_parse_fmt` -/
theorem fill_cmd_reparse_rat (k : Nat) (fill : Table Rat → Option (Table Rat))
    (t : TableFile Rat) (kv : Key) (keys : List Key) (h : t.Ok ratFmt kv keys)
    (hw : ∀ r ∈ t.rows, r.2.length = t.names.length) (tail : List Line)
    (vname' : Token) (names' : List Token) (rows' : List (Rat × List Rat)) (kv' : Key) (keys' : List Key)
    (hfill : fill t.frame = some ⟨vname' :: names', rows'.map fun r => r.1 :: r.2⟩)
    (hrows : rows'.length = t.rows.length)
    (hkv : findModulusKey vname' = some kv') (hkeys : names'.mapM findModulusKey = some keys') :
    ∃ out, fillCmd ratFmt ratFmt k fill (t.lines ++ tail) = some out ∧
      out.take 2 = [t.title, t.header2] ∧
      readElastData ratFmt out = (readTail ratFmt t.rows.length tail).map fun lat =>
        { vref := t.vref.2, nv := t.rows.length, cellmass := t.mass.2,
          volumes := rows'.map (fun r => ⟨ratRound k r.1, dictOfZip keys' (r.2.map (ratRound k))⟩), lattice := lat } :=
  fill_cmd_reparse ratFmt ratFmt k (fun x => rat_parse_fmt k x) fill t kv keys h hw tail vname' names' rows' kv' keys'
    hfill hrows hkv hkeys

/-- `fill_output_is_table` with reader and printer both the exact-decimal instance (`hP` discharged) -/
theorem fill_output_is_table_rat (k : Nat) (fill : Table Rat → Option (Table Rat))
    (t : TableFile Rat) (kv : Key) (keys : List Key) (h : t.Ok ratFmt kv keys)
    (hw : ∀ r ∈ t.rows, r.2.length = t.names.length) (hne : t.rows ≠ []) (hnd : keys.Nodup) (tail : List Line)
    (cn : List Token) (hcn : keys.mapM canonName = some cn)
    (vname' : Token) (names' : List Token) (kv' : Key) (keys' : List Key) (R : List (List Rat))
    (hR : R.length = t.rows.length)
    (hfile : fill t.frame = some ⟨vname' :: names', List.zipWith (fun r x => r.1.2 :: x) t.rows R⟩)
    (cn' : List Token) (hcanon : fill ⟨cn, t.rows.map fun r => r.2.map Prod.snd⟩ = some ⟨cn', R⟩)
    (hkv : findModulusKey vname' = some kv') (hkeys : names'.mapM findModulusKey = some keys')
    (hkeys2 : cn'.mapM keyOfName = some keys') :
    ∃ out, fillCmd ratFmt ratFmt k fill (t.lines ++ tail) = some out ∧
      out.take 2 = [t.title, t.header2] ∧
      readElastData ratFmt out
        = ((readElastData ratFmt (t.lines ++ tail)).bind (applySymmetry fill)).map (roundData ratFmt k) :=
  fill_output_is_table ratFmt ratFmt k (fun x => rat_parse_fmt k x) fill t kv keys h hw hne hnd tail cn hcn
    vname' names' kv' keys' R hR hfile cn' hcanon hkv hkeys hkeys2

/-! #### what "rounded to the printed precision" means for the driver's numbers -/

/-- the surviving value is within half a unit of the last printed decimal of the original -/
theorem rat_round_error (k : Nat) (q : Rat) : |ratRound k q - q| ≤ 1 / (2 * (10 : Rat) ^ k) := Lex.ratRound_err k q

/-- rounding is idempotent: a value that has been through the file once is not changed by a second pass -/
theorem rat_round_idem (k : Nat) (q : Rat) : ratRound k (ratRound k q) = ratRound k q := Lex.ratRound_idem k q

/-- rounding preserves order (so sorted grids stay sorted through the file) -/
theorem rat_round_mono (k : Nat) {p q : Rat} (h : p ≤ q) : ratRound k p ≤ ratRound k q := Lex.ratRound_mono k h

/-- every multiple of 10^-k is read back exactly -/
theorem rat_round_grid (k : Nat) (n : Int) : ratRound k (mkRat n (pow10 k)) = mkRat n (pow10 k) := Lex.ratRound_of_grid k n

/-- hence the data set that survives one round trip is a fixed point of the rounding … -/
theorem roundAll_idem_rat (d : Data Rat) : roundAll ratFmt (roundAll ratFmt d) = roundAll ratFmt d := by
  have h : ∀ k q, ratFmt.round k (ratFmt.round k q) = ratFmt.round k q := rat_round_idem
  simp [roundAll, roundVolume, roundQPoint, roundWeight, Function.comp_def, h]

/-- … and the second write/read round trip is EXACT: what was read from a file written by `write_energy`
is reproduced digit for digit by writing and reading it again -/
theorem read_write_energy_rat_fixed (d : Data Rat) (hd : WellFormed d) (comment : Line) (hc : matchInfo comment = none) :
    ∃ ls, writeEnergy ratFmt (roundAll ratFmt d) comment = some ls ∧ readEnergy ratFmt ls = some (roundAll ratFmt d) := by
  have hwf : WellFormed (roundAll ratFmt d) := by
    refine ⟨by simp [roundAll, hd.nv_eq], ?_, ?_, by simp [roundAll, hd.nw_eq], ?_⟩
    · intro v hv
      simp only [roundAll, List.mem_map] at hv
      obtain ⟨v0, hv0, rfl⟩ := hv
      simp [roundVolume, roundAll, hd.nq_eq v0 hv0]
    · intro v hv q hq
      simp only [roundAll, List.mem_map] at hv
      obtain ⟨v0, hv0, rfl⟩ := hv
      simp only [roundVolume, List.mem_map] at hq
      obtain ⟨q0, hq0, rfl⟩ := hq
      simp [roundQPoint, roundAll, hd.np_eq v0 hv0 q0 hq0]
    · intro w hw
      simp only [roundAll, List.mem_map] at hw
      obtain ⟨w0, hw0, rfl⟩ := hw
      simp [roundWeight, hd.w3 w0 hw0]
  have := read_write_energy_rat (roundAll ratFmt d) hwf comment hc
  rwa [roundAll_idem_rat] at this

/-- non-vacuity of the `_rat` corollaries, end to end on text: one volume, one q-point, two modes; a tie
(1/128 → "0.007812"), a negative value rounding to zero (prints "-0.000000", reads back as 0), a negative energy -/
def tiny : Data Rat :=
  { nv := 1, nq := 1, np := 2, nm := 3, na := 1,
    weights := [⟨[0, mkRat 1 2, mkRat (-1) 3], 2⟩],
    volumes := [⟨mkRat (-1) 10000000, mkRat 1 128, mkRat (-22) 7, [⟨[mkRat 1 3, 0, mkRat (-1) 2], [mkRat 3 128, 100]⟩]⟩] }

example : WellFormed tiny := by
  refine ⟨rfl, ?_, ?_, rfl, ?_⟩ <;> decide +kernel

example : writeEnergy ratFmt tiny = some
    [["QHA", "Input", "data"], [], ["nv", "nq", "np", "nm", "na"], ["1", "1", "2", "3", "1"], [],
     ["P=", "-0.000000", "V=", "0.007812", "E=", "-3.142857"],
     ["0.3333", "0.0000", "-0.5000"], ["0.023438"], ["100.000000"],
     [], ["weight"], ["0.000000", "0.500000", "-0.333333", "2.000000"]] := by
  decide +kernel

example : (writeEnergy ratFmt tiny).bind (readEnergy ratFmt) = some
    { nv := 1, nq := 1, np := 2, nm := 3, na := 1,
      weights := [⟨[0, mkRat 1 2, mkRat (-333333) 1000000], 2⟩],
      volumes := [⟨0, mkRat 7812 1000000, mkRat (-3142857) 1000000,
        [⟨[mkRat 3333 10000, 0, mkRat (-1) 2], [mkRat 23438 1000000, 100]⟩]⟩] } := by
  decide +kernel

end Cij.C17
