/-
  C15 — output files carry the in-memory results on the requested grids, units and names.

  Every statement is about `CijModel/Writer.lean`; the rules are `Generated.writerRules`, re-translated from
  cij/data/output/writer_rules.yml on every run (so a changed YAML is re-checked by the kernel).  The CODE of the output path
  (results_writer.py, qha_output.py, write_table / write_variables of both interface classes, Calculator.write_output) is
  re-translated as well (`Generated/WriterSpec.lean`, tools/gens/writer_src.py); the `writer_model_is_source_*` theorems at the end
  say that every model function used above is the interpreter (Lemmas/WriterSource.lean) of those translated statements.
  Finite facts about the rules are closed by kernel evaluation (`decide +kernel`); the content theorems are
  for all scalars `α` (any type with `*`; a commutative ring where unit factors must cancel), all grids
  (NT, DT, T_MIN, NTV, DELTA_P, P_MIN), all in-memory arrays and all component lists.

  Outside the model (tested by harness/c15.py on the real files): pandas' text layout, "%.15e" rounding of the
  values, the 6-decimal rounding of the labels, pint's numeric factors.
-/
import CijProofs.Lemmas.Writer
import CijProofs.Lemmas.WriterSource

namespace Cij.C15

open Cij Cij.Writer Generated

/-! #### row labels: the last four guard temperatures are dropped, nothing else -/

/-- `t_array[:-4]` of qha's `arange(T_MIN, NT+4, DT)` is exactly `T_MIN + k·DT, k < NT` — for every NT. -/
theorem rows_are_grid {α} [Add α] [Mul α] [NatCast α] (tMin dt : α) (nt : Nat) :
    dropLast4 (arange tMin (nt + 4) dt) = arange tMin nt dt ∧
    (dropLast4 (arange tMin (nt + 4) dt)).length = nt ∧
    ∀ k < nt, (dropLast4 (arange tMin (nt + 4) dt))[k]? = some (tMin + dt * (k : α)) := by
  rw [dropLast4_arange]
  exact ⟨rfl, length_arange _ _ _, fun k hk => getElem?_arange _ _ _ _ hk⟩

/-- dropping FOUR is essential: three or five give a different grid (non-vacuity of the above). -/
example : dropLast4 (arange (0 : Int) (3 + 4) 10) = [0, 10, 20] ∧
    (arange (0 : Int) (3 + 4) 10).take (7 - 3) ≠ [0, 10, 20] ∧ (arange (0 : Int) (3 + 4) 10).drop 4 ≠ [0, 10, 20] := by
  decide

/-! #### column labels -/

/-- pressure base: `p_array` is qha's `desired_pressures` = (P_MIN + j·DELTA_P)·c with c = GPa→Ry/bohr³; the
writer multiplies by `toGPa`.  When the two factors are inverse the labels are the requested pressures in GPa. -/
theorem cols_are_grid {α} [CommRing α] (U : Writer.Units α) (b : Base α) (fname : String) (value : Matrix α)
    (t : Table α) (pMin dP c : α) (ntv : Nat)
    (hb : b.pressureBase = true)
    (hax : b.axis = (arange pMin ntv dP).map (· * c))
    (hc : c * U.toGPa = 1)
    (h : writeTable U b fname value = some t) :
    t.cols = arange pMin ntv dP ∧ ∀ j < ntv, t.cols[j]? = some (pMin + dP * (j : α)) := by
  have hcols : t.cols = arange pMin ntv dP := by
    obtain ⟨_, _, _, hcol, _⟩ := writeTable_some U b fname value t h
    rw [hcol, hb, hax, List.map_map]
    have : ((fun x => x * if true = true then U.toGPa else U.toAng3) ∘ fun x => x * c) = id := by
      funext x; simp [mul_assoc, hc]
    rw [this, List.map_id]
  exact ⟨hcols, fun j hj => by rw [hcols]; exact getElem?_arange _ _ _ _ hj⟩

/-- volume base: the labels are the grid volumes converted to Å³ (by definition of the conversion factor). -/
theorem cols_are_grid_volume {α} [Mul α] (U : Writer.Units α) (b : Base α) (fname : String) (value : Matrix α)
    (t : Table α) (hb : b.pressureBase = false) (h : writeTable U b fname value = some t) :
    t.cols = b.axis.map (· * U.toAng3) ∧ t.corner = "T(K)\\V(A^3)" := by
  obtain ⟨_, hcor, _, hcol, _⟩ := writeTable_some U b fname value t h
  simp [hcol, hcor, hb]

/-! #### the content of a written file = in-memory result × unit factor on the requested grid -/

/-- A `value` rule, no override: exactly one file, named by the pattern, rows = temperatures without the four
guard points, values = factor · in-memory (first NT rows). -/
theorem value_file_content {α} [Mul α] (U : Writer.Units α) (r : WriterRule) (b : Base α) (kw : String)
    (m : Matrix α) (k : α) (f : String)
    (hr : r.varType = "value")
    (hprop : dictGet b.props r.prop = some (.value m))
    (hk : U.conv r.unitInternal r.unit = some k)
    (hf : valueFname r b.baseName = some f)
    (hrows : m.length = b.tArray.length) (hcols : ∀ row ∈ m, row.length = b.axis.length) :
    writeRule U r b (some { keyword := kw }) = some [
      { fname := f
        corner := if b.pressureBase then "T(K)\\P(GPa)" else "T(K)\\V(A^3)"
        rows := dropLast4 b.tArray
        cols := b.axis.map (· * (if b.pressureBase then U.toGPa else U.toAng3))
        vals := scale k (dropLast4 m) }] := by
  have hshape := writeTable_shape_ok U b f (scale k m) (by simpa [scale] using hrows)
    (by intro row hrow; simp only [scale, List.mem_map] at hrow; obtain ⟨r0, hr0, rfl⟩ := hrow
        simpa using hcols r0 hr0)
  simp [writeRule, hr, writeVariable, factorOf, hk, hprop, hf, hshape, dropLast4_scale]

/-- the same on the requested grids: pressure base with qha's arrays. -/
theorem value_file_on_requested_grid {α} [CommRing α] (U : Writer.Units α) (r : WriterRule) (b : Base α) (kw : String)
    (m : Matrix α) (k c tMin dt pMin dP : α) (nt ntv : Nat) (f : String)
    (hr : r.varType = "value") (hprop : dictGet b.props r.prop = some (.value m))
    (hk : U.conv r.unitInternal r.unit = some k) (hf : valueFname r b.baseName = some f)
    (hb : b.pressureBase = true)
    (ht : b.tArray = arange tMin (nt + 4) dt)
    (hax : b.axis = (arange pMin ntv dP).map (· * c)) (hc : c * U.toGPa = 1)
    (hrows : m.length = nt + 4) (hcols : ∀ row ∈ m, row.length = ntv) :
    writeRule U r b (some { keyword := kw }) = some [
      { fname := f, corner := "T(K)\\P(GPa)", rows := arange tMin nt dt, cols := arange pMin ntv dP,
        vals := scale k (m.take nt) }] := by
  have hlen : b.tArray.length = nt + 4 := by rw [ht, length_arange]
  have haxl : b.axis.length = ntv := by rw [hax]; simp [length_arange]
  rw [value_file_content U r b kw m k f hr hprop hk hf (by rw [hlen, hrows]) (by rw [haxl]; exact hcols)]
  have h1 : dropLast4 b.tArray = arange tMin nt dt := by rw [ht, dropLast4_arange]
  have h2 : dropLast4 m = m.take nt := by simp [dropLast4, hrows]
  have h3 : b.axis.map (fun x => x * U.toGPa) = arange pMin ntv dP := by
    rw [hax, List.map_map]
    have : ((fun x => x * U.toGPa) ∘ fun x => x * c) = id := by
      funext x; simp [mul_assoc, hc]
    rw [this, List.map_id]
  simp [h1, h2, h3, hb]

/-- An `ij_value` rule, no override: one `write_table` per item of `.items()`, in order, component `i` named
by `{ij}` = "%d%d" of its Voigt pair and holding factor · that component. -/
theorem ij_file_content {α} [Mul α] (U : Writer.Units α) (r : WriterRule) (b : Base α) (kw : String)
    (items : List (Modulus × Matrix α)) (k : α) (ts : List (Table α))
    (hr : r.varType = "ij_value")
    (hprop : dictGet b.props r.prop = some (.items items))
    (hk : U.conv r.unitInternal r.unit = some k)
    (h : writeRule U r b (some { keyword := kw }) = some ts) :
    ts.length = items.length ∧
    ∀ i (hi : i < items.length) (hi' : i < ts.length),
      some (ts[i]).fname = ijFname r b.baseName (items[i]).1 ∧
      (ts[i]).rows = dropLast4 b.tArray ∧
      (ts[i]).cols = b.axis.map (· * (if b.pressureBase then U.toGPa else U.toAng3)) ∧
      (ts[i]).vals = scale k (dropLast4 (items[i]).2) := by
  simp only [writeRule, hr, writeIjVariable, factorOf, hk, hprop, Option.bind_some,
    Option.getD_none, beq_self_eq_true, if_true, Option.bind_eq_bind] at h
  have hmap := (optAll_eq_some _ _).1 h
  have hlen : ts.length = items.length := by
    have := congrArg List.length hmap; simpa using this.symm
  refine ⟨hlen, fun i hi hi' => ?_⟩
  have hi_eq := congrArg (fun l => l[i]?) hmap
  simp only [List.getElem?_map, List.getElem?_eq_getElem hi, List.getElem?_eq_getElem hi', Option.map_some] at hi_eq
  cases hfn : ijFname r b.baseName (items[i]).1 with
  | none => simp [hfn] at hi_eq
  | some fn =>
    simp only [hfn, Option.bind_some] at hi_eq
    obtain ⟨h1, _, h3, h4, h5⟩ := writeTable_some U b fn _ _ (Option.some.inj hi_eq)
    exact ⟨by rw [h1], h3, h4, by rw [h5, dropLast4_scale]⟩

/-! #### the translated rules: keywords, aliases, adiabatic / isothermal, documented units and names -/

/-- every keyword of every rule resolves, and to the rule that lists it (no keyword is shadowed by a later rule) -/
theorem every_keyword_resolves : ∀ r ∈ writerRules, ∀ k ∈ r.keywords, resolve k = some r := by
  decide +kernel

/-- the registry is "last rule listing the keyword wins", for ANY rule list -/
theorem registry_later_wins (rules : List WriterRule) (kw : String) :
    resolveIn rules kw = rules.reverse.find? (fun r => decide (kw ∈ r.keywords)) :=
  resolveIn_eq_last rules kw

/-- an unknown keyword is a KeyError -/
theorem unknown_keyword_rejected (rules : List WriterRule) (kw : String) (h : ∀ r ∈ rules, kw ∉ r.keywords) :
    resolveIn rules kw = none := by
  rw [resolveIn_eq_last, List.find?_eq_none]
  intro r hr; simpa using h r (List.mem_reverse.1 hr)

/-- aliases of one rule resolve to the same rule … -/
theorem aliases_same_rule : ∀ r ∈ writerRules, ∀ k₁ ∈ r.keywords, ∀ k₂ ∈ r.keywords, resolve k₁ = resolve k₂ := by
  intro r hr k₁ h₁ k₂ h₂
  rw [every_keyword_resolves r hr k₁ h₁, every_keyword_resolves r hr k₂ h₂]

/-- … hence produce identical files: same names, labels and values, for every base, every in-memory content,
every override. -/
theorem aliases_identical_content {α} [Mul α] (U : Writer.Units α) (b : Base α)
    (r : WriterRule) (hr : r ∈ writerRules) (k₁ k₂ : String) (h₁ : k₁ ∈ r.keywords) (h₂ : k₂ ∈ r.keywords)
    (fname unit unitInternal : Option String) :
    writeKeyword U b { keyword := k₁, fname := fname, unit := unit, unitInternal := unitInternal } =
    writeKeyword U b { keyword := k₂, fname := fname, unit := unit, unitInternal := unitInternal } := by
  have e₁ : resolveIn writerRules k₁ = some r := every_keyword_resolves r hr k₁ h₁
  have e₂ : resolveIn writerRules k₂ = some r := every_keyword_resolves r hr k₂ h₂
  simp [writeKeyword, writeKeywordIn, e₁, e₂, writeRule, writeVariable, writeIjVariable, factorOf]

/-- the adiabatic keywords select `modulus_adiabatic`, the isothermal ones `modulus_isothermal`, both per component -/
theorem adiabatic_isothermal_selection :
    (∀ k ∈ ["cij", "cij_s", "adiabatic_elastic_moduli"],
      (resolve k).map (fun r => (r.prop, r.varType, r.fnamePattern)) =
        some ("modulus_adiabatic", "ij_value", "c{ij}s_{base}_gpa.txt")) ∧
    (∀ k ∈ ["cij_t", "isothermal_elastic_moduli"],
      (resolve k).map (fun r => (r.prop, r.varType, r.fnamePattern)) =
        some ("modulus_isothermal", "ij_value", "c{ij}t_{base}_gpa.txt")) := by
  decide +kernel

def noSpace (s : String) : String := String.ofList (s.toList.filter (· ≠ ' '))

/-- The documented table (README / docs/usage/output.rst as rendered at the time of writing) — the
SPECIFICATION side: keyword ↦ (file name pattern, unit, internal unit, property read, kind). -/
def documented : List (List String × String × String × String × String × String) :=
  [ (["cij_s", "cij", "adiabatic_elastic_moduli"], "c{ij}s_{base}_gpa.txt", "GPa", "rydberg/bohr^3", "modulus_adiabatic", "ij_value"),
    (["cij_t", "isothermal_elastic_moduli"], "c{ij}t_{base}_gpa.txt", "GPa", "rydberg/bohr^3", "modulus_isothermal", "ij_value"),
    (["B_V", "Bm_V", "bm_V", "bulk_modulus_voigt"], "bm_V_{base}_gpa.txt", "GPa", "rydberg/bohr^3", "bulk_modulus_voigt", "value"),
    (["B_R", "Bm_R", "bm_R", "bulk_modulus_reuss"], "bm_R_{base}_gpa.txt", "GPa", "rydberg/bohr^3", "bulk_modulus_reuss", "value"),
    (["B_VRH", "Bm_VRH", "bm_VRH", "bulk_modulus_voigt_reuss_hill"], "bm_VRH_{base}_gpa.txt", "GPa", "rydberg/bohr^3", "bulk_modulus_voigt_reuss_hill", "value"),
    (["G_V", "shear_modulus_voigt"], "G_V_{base}_gpa.txt", "GPa", "rydberg/bohr^3", "shear_modulus_voigt", "value"),
    (["G_R", "shear_modulus_reuss"], "G_R_{base}_gpa.txt", "GPa", "rydberg/bohr^3", "shear_modulus_reuss", "value"),
    (["G_VRH", "shear_modulus_voigt_reuss_hill"], "G_VRH_{base}_gpa.txt", "GPa", "rydberg/bohr^3", "shear_modulus_voigt_reuss_hill", "value"),
    (["v_p", "vp", "primary_velocities"], "v_p_{base}_km_s.txt", "km/s", "km/s", "primary_velocities", "value"),
    (["v_s", "vs", "secondary_velocities"], "v_s_{base}_km_s.txt", "km/s", "km/s", "secondary_velocities", "value"),
    (["v", "V", "volumes"], "v_{base}_ang3.txt", "angstrom^3", "bohr^3", "volumes", "value"),
    (["p", "P", "pressures"], "p_{base}_gpa.txt", "GPa", "rydberg/bohr^3", "pressures", "value") ]

/-- every documented keyword resolves to a rule with the documented name pattern, unit, internal unit,
property and kind -/
theorem documented_units_and_patterns : ∀ d ∈ documented, ∀ k ∈ d.1,
    (resolve k).map (fun r => (r.fnamePattern, r.unit, noSpace r.unitInternal, r.prop, r.varType)) = some d.2 := by
  decide +kernel

/-- conversely every keyword the code accepts is a documented one (nothing undocumented is reachable) -/
theorem accepted_keywords_documented : ∀ r ∈ writerRules, ∀ k ∈ r.keywords, ∃ d ∈ documented, k ∈ d.1 := by
  decide +kernel

/-- the unit shown in the file name is the unit written: `_gpa` ⇔ GPa, `_km_s` ⇔ km/s, `_ang3` ⇔ Å³ -/
def unitTag (u : String) : Option String :=
  if u = "GPa" then some "gpa" else if u = "km/s" then some "km_s" else if u = "angstrom^3" then some "ang3" else none

theorem name_shows_unit : ∀ r ∈ writerRules, ∃ tag, unitTag r.unit = some tag ∧
    ("_{base}_" ++ tag ++ ".txt").toList.isSuffixOf r.fnamePattern.toList = true := by
  decide +kernel

/-! #### file names: formed as documented, never shared -/

/-- `{base}` ↦ tv / tp and `{ij}` ↦ the two Voigt digits: the names of all 21 components of both tensors -/
theorem ij_names_as_documented : ∀ base ∈ ["tv", "tp"], ∀ p ∈ keys21,
    (do let r ← resolve "cij_s"; ijFname r base (keyOfVoigt p)) =
        some ("c" ++ toString p.1 ++ toString p.2 ++ "s_" ++ base ++ "_gpa.txt") ∧
    (do let r ← resolve "cij_t"; ijFname r base (keyOfVoigt p)) =
        some ("c" ++ toString p.1 ++ toString p.2 ++ "t_" ++ base ++ "_gpa.txt") := by
  decide +kernel

/-- all names the rules can produce (10 value files + 2×21 component files, for each base) exist and are
pairwise different — also across the two bases, which write into the same directory -/
theorem no_two_rules_share_a_file :
    (allFnames writerRules "tv" ++ allFnames writerRules "tp").all Option.isSome = true ∧
    (allFnames writerRules "tv" ++ allFnames writerRules "tp").Nodup ∧
    (allFnames writerRules "tv").length = 52 := by
  decide +kernel

/-- "%d%d" of the Voigt pair is injective on the 21 keys, for each tensor rule and base -/
theorem one_file_per_component_names : ∀ r ∈ writerRules, r.varType = "ij_value" → ∀ base ∈ ["tv", "tp"],
    (keys21.map fun p => ijFname r base (keyOfVoigt p)).Nodup ∧
    (keys21.map fun p => ijFname r base (keyOfVoigt p)).all Option.isSome = true := by
  decide +kernel

/-- one file per available component, for EVERY component set: distinct keys ⇒ as many distinct file names
as components, and the directory afterwards holds exactly those files with their own content. -/
theorem one_file_per_component {α} [Mul α] (U : Writer.Units α) (r : WriterRule) (b : Base α) (kw : String)
    (items : List (Modulus × Matrix α)) (k : α) (ts : List (Table α))
    (hrm : r ∈ writerRules) (hr : r.varType = "ij_value") (hbase : b.baseName ∈ ["tv", "tp"])
    (hprop : dictGet b.props r.prop = some (.items items))
    (hk : U.conv r.unitInternal r.unit = some k)
    (hkeys : ∀ kv ∈ items, ∃ p ∈ keys21, kv.1 = keyOfVoigt p)
    (hnodup : (items.map (·.1)).Nodup)
    (h : writeRule U r b (some { keyword := kw }) = some ts) :
    ts.length = items.length ∧ (ts.map (·.fname)).Nodup ∧
    filesAfter ts = ts.map (fun t => (t.fname, t)) := by
  obtain ⟨hlen, hall⟩ := ij_file_content U r b kw items k ts hr hprop hk h
  obtain ⟨hnd, _⟩ := one_file_per_component_names r hrm hr b.baseName hbase
  have hinj := List.inj_on_of_nodup_map hnd
  -- names of the written tables = names computed from the keys
  have hnames : (ts.map (·.fname)).map some = items.map (fun kv => ijFname r b.baseName kv.1) := by
    apply List.ext_getElem
    · simp [hlen]
    · intro i h1 h2
      have hi : i < items.length := by simpa using h2
      have hi' : i < ts.length := by simpa using h1
      simpa using (hall i hi hi').1
  have hnd2 : (items.map (fun kv => ijFname r b.baseName kv.1)).Nodup := by
    have : items.map (fun kv => ijFname r b.baseName kv.1) = (items.map (·.1)).map (ijFname r b.baseName) := by
      simp
    rw [this]
    apply List.Nodup.map_on _ hnodup
    intro x hx y hy hxy
    obtain ⟨kvx, hkvx, rfl⟩ := List.mem_map.1 hx
    obtain ⟨kvy, hkvy, rfl⟩ := List.mem_map.1 hy
    obtain ⟨p, hp, hpx⟩ := hkeys kvx hkvx
    obtain ⟨q, hq, hqy⟩ := hkeys kvy hkvy
    rw [hpx, hqy] at hxy ⊢
    rw [hinj hp hq hxy]
  have hnd3 : (ts.map (·.fname)).Nodup := by
    rw [← hnames] at hnd2; exact List.Nodup.of_map _ hnd2
  exact ⟨hlen, hnd3, filesAfter_of_nodup ts hnd3⟩

/-! #### overrides -/

/-- `fname` override on a `value` rule: the file gets exactly that name, content unchanged. -/
theorem override_fname_value {α} [Mul α] (U : Writer.Units α) (r : WriterRule) (b : Base α) (kw f' : String)
    (hr : r.varType = "value") (hf : (valueFname r b.baseName).isSome) :
    writeRule U r b (some { keyword := kw, fname := some f' }) =
      (writeRule U r b (some { keyword := kw })).map (fun ts => ts.map fun t => { t with fname := f' }) := by
  obtain ⟨f, hf⟩ := Option.isSome_iff_exists.1 hf
  cases hconv : U.conv r.unitInternal r.unit with
  | none => simp [writeRule, hr, writeVariable, factorOf, hconv]
  | some k =>
    cases hp : dictGet b.props r.prop with
    | none => simp [writeRule, hr, writeVariable, factorOf, hconv, hp]
    | some pv =>
      cases pv with
      | items l => simp [writeRule, hr, writeVariable, factorOf, hconv, hp]
      | value m =>
        simp only [writeRule, hr, writeVariable, factorOf, hconv, hp, hf, beq_self_eq_true, if_true,
          Option.bind_some, Option.getD_none, Option.bind_eq_bind]
        rw [writeTable_rename U b f f']
        cases writeTable U b f (scale k m) <;> simp

/-- `unit` override: the values are converted to the REQUESTED unit (factor of (unit_internal → that unit));
names and labels do not change (the name keeps its documented suffix, e.g. `_gpa`, as coded). -/
theorem override_unit {α} [Mul α] (U : Writer.Units α) (r : WriterRule) (b : Base α) (kw u' : String)
    (m : Matrix α) (k' : α) (f : String)
    (hr : r.varType = "value")
    (hprop : dictGet b.props r.prop = some (.value m))
    (hk : U.conv r.unitInternal u' = some k')
    (hf : valueFname r b.baseName = some f)
    (hrows : m.length = b.tArray.length) (hcols : ∀ row ∈ m, row.length = b.axis.length) :
    writeRule U r b (some { keyword := kw, unit := some u' }) = some [
      { fname := f
        corner := if b.pressureBase then "T(K)\\P(GPa)" else "T(K)\\V(A^3)"
        rows := dropLast4 b.tArray
        cols := b.axis.map (· * (if b.pressureBase then U.toGPa else U.toAng3))
        vals := scale k' (dropLast4 m) }] := by
  have hshape := writeTable_shape_ok U b f (scale k' m) (by simpa [scale] using hrows)
    (by intro row hrow; simp only [scale, List.mem_map] at hrow; obtain ⟨r0, hr0, rfl⟩ := hrow
        simpa using hcols r0 hr0)
  simp [writeRule, hr, writeVariable, factorOf, hk, hprop, hf, hshape, dropLast4_scale]

/-- `unit` override on a tensor rule: every component in the requested unit. -/
theorem override_unit_ij {α} [Mul α] (U : Writer.Units α) (r : WriterRule) (b : Base α) (kw u' : String)
    (items : List (Modulus × Matrix α)) (k' : α) (ts : List (Table α))
    (hr : r.varType = "ij_value")
    (hprop : dictGet b.props r.prop = some (.items items))
    (hk : U.conv r.unitInternal u' = some k')
    (h : writeRule U r b (some { keyword := kw, unit := some u' }) = some ts) :
    ts.length = items.length ∧
    ∀ i (hi : i < items.length) (hi' : i < ts.length),
      some (ts[i]).fname = ijFname r b.baseName (items[i]).1 ∧ (ts[i]).vals = scale k' (dropLast4 (items[i]).2) := by
  simp only [writeRule, hr, writeIjVariable, factorOf, hk, hprop, Option.bind_some,
    Option.getD_none, Option.getD_some, beq_self_eq_true, if_true, Option.bind_eq_bind] at h
  have hmap := (optAll_eq_some _ _).1 h
  have hlen : ts.length = items.length := by
    have := congrArg List.length hmap; simpa using this.symm
  refine ⟨hlen, fun i hi hi' => ?_⟩
  have hi_eq := congrArg (fun l => l[i]?) hmap
  simp only [List.getElem?_map, List.getElem?_eq_getElem hi, List.getElem?_eq_getElem hi', Option.map_some] at hi_eq
  cases hfn : ijFname r b.baseName (items[i]).1 with
  | none => simp [hfn] at hi_eq
  | some fn =>
    simp only [hfn, Option.bind_some] at hi_eq
    obtain ⟨h1, _, _, _, h5⟩ := writeTable_some U b fn _ _ (Option.some.inj hi_eq)
    exact ⟨by rw [h1], by rw [h5, dropLast4_scale]⟩

/-
  FULL STATEMENT (property text): "one file is written per available component, and a user-supplied file name
  … override is honoured" — for a tensor keyword WITH an `fname` override both cannot hold in the code as
  written: `write_ij_variable` sends every component to the same literal name
  (`if "fname" in _config: fname = config["fname"]` inside the loop), each write truncating the previous one.
  What is true is `override_honoured_partial` (value rules: honoured; units: honoured everywhere) plus the two
  theorems below: the directory ends with ONE file under the given name holding only the LAST component.
-/

/-- all writes of a tensor rule with `fname` override go to that one name … -/
theorem override_fname_ij_single_file {α} [Mul α] (U : Writer.Units α) (r : WriterRule) (b : Base α) (kw f' : String)
    (items : List (Modulus × Matrix α)) (k : α) (ts : List (Table α))
    (hr : r.varType = "ij_value")
    (hprop : dictGet b.props r.prop = some (.items items))
    (hk : U.conv r.unitInternal r.unit = some k)
    (hne : items ≠ [])
    (h : writeRule U r b (some { keyword := kw, fname := some f' }) = some ts) :
    ts.length = items.length ∧ (∀ t ∈ ts, t.fname = f') ∧
    ∃ last, ts.getLast? = some last ∧ filesAfter ts = [(f', last)] ∧
      ∃ kv, items.getLast? = some kv ∧ last.vals = scale k (dropLast4 kv.2) := by
  simp only [writeRule, hr, writeIjVariable, factorOf, hk, hprop, Option.bind_some,
    Option.getD_none, beq_self_eq_true, if_true, Option.bind_eq_bind] at h
  have hmap := (optAll_eq_some _ _).1 h
  have hlen : ts.length = items.length := by
    have := congrArg List.length hmap; simpa using this.symm
  have hall : ∀ i (hi : i < items.length) (hi' : i < ts.length),
      (ts[i]).fname = f' ∧ (ts[i]).vals = scale k (dropLast4 (items[i]).2) := by
    intro i hi hi'
    have hi_eq := congrArg (fun l => l[i]?) hmap
    simp only [List.getElem?_map, List.getElem?_eq_getElem hi, List.getElem?_eq_getElem hi', Option.map_some] at hi_eq
    obtain ⟨h1, _, _, _, h5⟩ := writeTable_some U b f' _ _ (Option.some.inj hi_eq)
    exact ⟨h1, by rw [h5, dropLast4_scale]⟩
  have hfn : ∀ t ∈ ts, t.fname = f' := by
    intro t ht
    obtain ⟨i, hi, rfl⟩ := List.getElem_of_mem ht
    exact (hall i (by omega) hi).1
  have htsne : ts ≠ [] := by
    intro e; rw [e] at hlen; exact hne (List.length_eq_zero_iff.1 hlen.symm)
  refine ⟨hlen, hfn, ts.getLast htsne, List.getLast?_eq_getLast_of_ne_nil htsne,
    filesAfter_same_name ts f' htsne hfn, items.getLast hne, List.getLast?_eq_getLast_of_ne_nil hne, ?_⟩
  rw [List.getLast_eq_getElem, List.getLast_eq_getElem]
  have := (hall (items.length - 1) (by have := List.length_pos_iff.2 hne; omega)
    (by have := List.length_pos_iff.2 htsne; omega)).2
  simpa [hlen] using this

/-- … so with two components one file results, not two: the negation of "one file per component ∧ fname
honoured" on a concrete witness (rule cij_s, components c11 and c12, 1 requested temperature, 1 pressure). -/
def witnessBase : Base Int :=
  { baseName := "tp", pressureBase := true, tArray := [0, 1, 2, 3, 4], axis := [7],
    props := [("modulus_adiabatic", .items [(keyOfVoigt (1, 1), [[11], [0], [0], [0], [0]]),
                                            (keyOfVoigt (1, 2), [[12], [0], [0], [0], [0]])])] }
def witnessUnits : Writer.Units Int := { toGPa := 1, toAng3 := 1, conv := fun _ _ => some 1 }

theorem override_fname_ij_not_one_file_per_component :
    (writeKeyword witnessUnits witnessBase { keyword := "cij", fname := some "mine.txt" }).map
        (fun ts => (ts.length, (filesAfter ts).map fun e => (e.1, e.2.vals))) =
      some (2, [("mine.txt", [[12]])]) ∧
    (writeKeyword witnessUnits witnessBase { keyword := "cij" }).map
        (fun ts => (filesAfter ts).map fun e => (e.1, e.2.vals)) =
      some [("c11s_tp_gpa.txt", [[11]]), ("c12s_tp_gpa.txt", [[12]])] := by
  decide +kernel

/-- the part of "override honoured" that the code does satisfy: on a `value` rule the write that succeeds
without override succeeds with it, every file carries the requested name, and labels and values are unchanged.
(Units: `override_unit`, `override_unit_ij` hold without restriction.) -/
theorem override_honoured_partial {α} [Mul α] (U : Writer.Units α) (r : WriterRule) (b : Base α) (kw f' : String)
    (hr : r.varType = "value") (hf : (valueFname r b.baseName).isSome) (ts : List (Table α))
    (h : writeRule U r b (some { keyword := kw }) = some ts) :
    ∃ ts', writeRule U r b (some { keyword := kw, fname := some f' }) = some ts' ∧
      (∀ t ∈ ts', t.fname = f') ∧ ts'.map (·.vals) = ts.map (·.vals) ∧
      ts'.map (·.rows) = ts.map (·.rows) ∧ ts'.map (·.cols) = ts.map (·.cols) := by
  refine ⟨ts.map fun t => { t with fname := f' }, ?_, ?_, ?_, ?_, ?_⟩
  · rw [override_fname_value U r b kw f' hr hf, h]; rfl
  · intro t ht; obtain ⟨t0, _, rfl⟩ := List.mem_map.1 ht; rfl
  · simp [Function.comp_def]
  · simp [Function.comp_def]
  · simp [Function.comp_def]

/-! #### `write_variables` / `write_output`: the files of a list of requests are the files of each request, in order -/

theorem write_variables_concat {α} [Mul α] (U : Writer.Units α) (b : Base α) (cfgs : List Config) (tss : List (List (Table α)))
    (h : ∀ i (hi : i < cfgs.length), ∃ (hi' : i < tss.length), writeKeyword U b (cfgs[i]) = some (tss[i]))
    (hl : tss.length = cfgs.length) :
    writeVariables U b cfgs = some tss.flatten := by
  unfold writeVariables
  have : cfgs.map (writeKeyword U b) = tss.map some := by
    apply List.ext_getElem
    · simp [hl]
    · intro i h1 h2
      obtain ⟨hi', e⟩ := h i (by simpa using h1)
      simp [e]
  rw [this, optAll_map_some]; rfl

/-! #### the model is the source: every model function = the interpreter of the statements translated on this run

`Generated/WriterSpec.lean` is re-extracted from the working tree by tools/gens/writer_src.py on every run; the interpreters
(`Cij.Writer.Source.*`, Lemmas/WriterSource.lean) give the extracted data its meaning.  Each theorem is for ALL rules, bases,
configs and lists; a changed statement in the source changes the data and the theorem named after the function stops checking. -/

section source
open Cij.Writer.Source

/-- `ResultsWriterRule.create`: each of the six NamedTuple fields is the YAML entry of the same name, all six exist for every
rule, `_asdict()` has exactly these keys — in particular no `fname` and no `keyword`, so `"fname" in _config` asks the USER's entry. -/
theorem writer_model_is_source_create (r : WriterRule) :
    (∀ f ∈ writerRuleFields, tupleGet Src.generated r f = yamlGet r f ∧ (yamlGet r f).isSome) ∧
    (∀ k, asdictGet Src.generated r k = if k ∈ writerRuleFields then yamlGet r k else none) ∧
    writerRuleFields.length = 6 ∧ "fname" ∉ writerRuleFields ∧ "keyword" ∉ writerRuleFields := by
  have hP : Src.generated = Src.canonical := rfl
  refine ⟨?_, ?_, by decide +kernel, by decide +kernel, by decide +kernel⟩
  · intro f hf
    rw [hP]
    simp only [writerRuleFields, List.mem_cons, List.not_mem_nil, or_false] at hf
    rcases hf with rfl | rfl | rfl | rfl | rfl | rfl <;> simp [tupleGet, Src.canonical, dictGet, yamlGet]
  · intro k
    rw [hP]
    by_cases hk : k ∈ writerRuleFields
    · have hk' := hk
      simp only [writerRuleFields, List.mem_cons, List.not_mem_nil, or_false] at hk'
      rcases hk' with rfl | rfl | rfl | rfl | rfl | rfl <;>
        simp [asdictGet, tupleGet, Src.canonical, dictGet, yamlGet, writerRuleFields]
    · have hk' : k ∉ Src.canonical.fields := hk
      simp [asdictGet, hk, hk']

/-- `_format_ij`: the model's `{ij}` is `"<format>" % key.<attr>` with the translated format and attribute -/
theorem writer_model_is_source_format_ij (key : Modulus) : formatIj key = evalFormatIj Src.generated key := by
  have hP : Src.generated = Src.canonical := rfl
  rw [hP, formatIj_canonical]

/-- `write_variable`: override order (`_config = self._asdict(); _config.update(config)` — rule first, user entry over it),
`convert_unit(_config["unit_internal"], _config["unit"])`, `getattr(base, self.prop)`, the file-name rule and the single
`base.write_table(fname, convert(variable))` are the translated ones. -/
theorem writer_model_is_source_write_variable {α} [Mul α] (U : Writer.Units α) (r : WriterRule) (b : Base α) (cfg : Option Config) :
    writeVariable U r b cfg = evalWrite Src.generated writeVariableSpec U r b cfg := by
  have hP : Src.generated = Src.canonical := rfl
  have hS : writeVariableSpec = canonValueSpec := rfl
  rw [hP, hS, evalWrite_value_canonical]

/-- `write_ij_variable`: the same prologue; each item of `.items()`, in that order, gets its own file name
(`"fname" in _config` → `config["fname"]`, else the pattern with `base` and `ij = _format_ij(k)`) and its own
`base.write_table(fname, convert(v))`. -/
theorem writer_model_is_source_write_ij_variable {α} [Mul α] (U : Writer.Units α) (r : WriterRule) (b : Base α) (cfg : Option Config) :
    writeIjVariable U r b cfg = evalWrite Src.generated writeIjVariableSpec U r b cfg := by
  have hP : Src.generated = Src.canonical := rfl
  have hS : writeIjVariableSpec = canonIjSpec := rfl
  rw [hP, hS, evalWrite_ij_canonical]

/-- the unit factor of the model is pint's factor from (user's `unit_internal` over the rule's) to (user's `unit` over the rule's):
both dict lookups go through the translated layer order, the two strings reach `convert_unit` in the translated positions, and
`convert_unit` converts from its translated source parameter to its translated target parameter. -/
theorem writer_model_is_source_convert {α} [Mul α] (U : Writer.Units α) (r : WriterRule) (cfg : Option Config) :
    factorOf U r cfg =
      ((lookup writeVariableSpec.layers (asdictGet Src.generated r) (cfg.map userGet)
          writeVariableSpec.convertFrom.1 writeVariableSpec.convertFrom.2).bind PyVal.asStr).bind fun u₀ =>
      ((lookup writeVariableSpec.layers (asdictGet Src.generated r) (cfg.map userGet)
          writeVariableSpec.convertTo.1 writeVariableSpec.convertTo.2).bind PyVal.asStr).bind fun u₁ =>
      convertCall Src.generated U [u₀, u₁] := by
  have hP : Src.generated = Src.canonical := rfl
  have hS : writeVariableSpec = canonValueSpec := rfl
  rw [hP, hS]
  simp only [canonValueSpec, lookup_unit, lookup_unit_internal, convertCall_canonical, Option.bind_some, factorOf]

/-- `ResultsWriterRule.write`: the `var_type` dispatch table -/
theorem writer_model_is_source_dispatch {α} [Mul α] (U : Writer.Units α) (r : WriterRule) (b : Base α) (cfg : Option Config) :
    writeRule U r b cfg = evalDispatch writerDispatch U r b cfg := by
  have hD : writerDispatch = canonDispatch := rfl
  rw [hD, evalDispatch_canonical]

/-- `ResultsWriter._init_rules`: one registry entry per keyword of every rule in file order, a later rule overwriting an
earlier one — for ANY rule list -/
theorem writer_model_is_source_registry (rules : List WriterRule) :
    evalRegistry Src.generated registryKeyField rules = some (initRules rules) := by
  have hP : Src.generated = Src.canonical := rfl
  have hF : registryKeyField = "keywords" := rfl
  rw [hP, hF, evalRegistry_canonical]

/-- `ResultsWriter.write`: a bare string is wrapped under the translated key, the rule is looked up under the translated key,
and the (wrapped) entry is handed on — for any rule list, base and entry -/
theorem writer_model_is_source_write {α} [Mul α] (rules : List WriterRule) (U : Writer.Units α) (b : Base α) (q : Request) :
    writeKeywordIn rules U b q.config = evalWriterWrite writerBareKey writerDispatchKey rules U b q := by
  have h1 : writerBareKey = "keyword" := rfl
  have h2 : writerDispatchKey = "keyword" := rfl
  rw [h1, h2, evalWriterWrite_canonical]

/-- `write_table` of the class the base belongs to: the translated saver with the translated five arguments — rows `self.t_array`,
columns `_to_gpa(self.p_array)` resp. `_to_ang3(self.v_array)` with NO other operation on the labels, the sample argument being the
very label array (so qha's `isin` filter keeps every row / column), `value` and `fname` passed through. -/
theorem writer_model_is_source_write_table {α} [Mul α] (U : Writer.Units α) (b : Base α) (fname : String) (value : Matrix α) :
    writeTable U b fname value =
      evalWriteTable (if b.pressureBase then pressureWriteTable else volumeWriteTable) U b fname value := by
  have h1 : pressureWriteTable = canonPressureTable := rfl
  have h2 : volumeWriteTable = canonVolumeTable := rfl
  rw [h1, h2, evalWriteTable_canonical]

/-- `write_variables` of the class the base belongs to: a fresh `ResultsWriter(self)` per call (the base the method was called
on, the packaged rules), one `writer.write(c)` per entry of the list, in order — for every list -/
theorem writer_model_is_source_write_variables {α} [Mul α] (U : Writer.Units α) (b : Base α) (cfgs : List Config) :
    writeVariables U b cfgs =
      evalWriteVariables (if b.pressureBase then pressureWriteVariables else volumeWriteVariables) writerCtorParams U b cfgs := by
  have h1 : pressureWriteVariables = canonWriteVariables := rfl
  have h2 : volumeWriteVariables = canonWriteVariables := rfl
  have h3 : writerCtorParams = ["base", "rules"] := rfl
  rw [h1, h2, h3, ite_self, evalWriteVariables_canonical]

/-- `Calculator.write_output`: which list of the `output` section goes to which view, in which order -/
theorem writer_model_is_source_write_output {α} [Mul α] (U : Writer.Units α) (pb vb : Base α) (pcfg vcfg : Option (List Config)) :
    writeOutput U pb vb pcfg vcfg =
      evalWriteOutput writeOutputSteps calculatorViews U pb vb (outputLists pcfg vcfg) := by
  have h1 : writeOutputSteps = canonSteps := rfl
  have h2 : calculatorViews = canonViews := rfl
  rw [h1, h2, evalWriteOutput_canonical]

/-- the remaining translated facts the theorems above rely on: `_base_name` of the two classes (the `{base}` of every file
name); the packaged rules file is the translated YAML; qha_output.py binds every name to the function of the same name in
qha.basic_io.out, among them the two savers `write_table` calls; `_to_gpa` / `_to_ang3` convert Ry/bohr³ → GPa and bohr³ → Å³;
the tensor views of both classes hand out the calculator's tensor OF THE SAME NAME (so the rule's `prop` selects adiabatic vs
isothermal down to the calculator); the grid arrays are qha's. -/
theorem writer_model_is_source_static :
    baseNames = [("CijVolumeBaseInterface", "tv"), ("CijPressureBaseInterface", "tp")] ∧
    defaultRulesPath = "cij/data/output/writer_rules.yml" ∧
    (∀ e ∈ qhaOutputImports, e.1 = "qha.basic_io.out" ∧ e.2.1 = e.2.2) ∧
    (∀ W ∈ [volumeWriteTable, pressureWriteTable], W.saver ∈ qhaOutputImports.map (·.2.2)) ∧
    unitHelpers = [("_to_gpa", "units.rydberg / units.bohr ** 3", "units.GPa"),
                   ("_to_ang3", "units.bohr ** 3", "units.angstrom ** 3")] ∧
    (∀ v ∈ modulusViews, v.2.1 = v.2.2.1) ∧
    (∀ c ∈ baseNames.map (·.1), ∀ p ∈ ["modulus_adiabatic", "modulus_isothermal"], (c, p) ∈ modulusViews.map fun v => (v.1, v.2.1)) ∧
    baseArrays = [("CijVolumeBaseInterface", "t_array", "self.calculator.qha_calculator.volume_base.t_array"),
                  ("CijVolumeBaseInterface", "v_array", "self.calculator.qha_calculator.volume_base.v_array"),
                  ("CijPressureBaseInterface", "t_array", "self.calculator.qha_calculator.pressure_base.t_array"),
                  ("CijPressureBaseInterface", "p_array", "self.calculator.qha_calculator.pressure_base.p_array")] ∧
    convertUnitParams.take 2 = [convertUnitFrom, convertUnitTo] := by
  decide +kernel

/-- adiabatic / isothermal selection down to the calculator: the rule a keyword resolves to names a property whose view, in
BOTH classes, hands out the calculator attribute of that name -/
theorem tensor_selection_is_source :
    (∀ k ∈ ["cij", "cij_s", "adiabatic_elastic_moduli"], ∀ c ∈ baseNames.map (·.1),
      (resolve k).bind (fun r => (modulusViews.find? fun v => v.1 == c && v.2.1 == r.prop).map (·.2.2.1)) = some "modulus_adiabatic") ∧
    (∀ k ∈ ["cij_t", "isothermal_elastic_moduli"], ∀ c ∈ baseNames.map (·.1),
      (resolve k).bind (fun r => (modulusViews.find? fun v => v.1 == c && v.2.1 == r.prop).map (·.2.2.1)) = some "modulus_isothermal") := by
  decide +kernel

/-- consequence for the existing theorems: with the translated layer order a user `unit` really reaches pint, a user key
`prop` / `fname_pattern` never changes what is read or how the file is named (the code reads `self.prop`, `self.fname_pattern`). -/
theorem override_is_user_over_rule {α} [Mul α] (U : Writer.Units α) (r : WriterRule) (kw u' : String) :
    factorOf U r (some { keyword := kw, unit := some u' }) = U.conv r.unitInternal u' ∧
    factorOf U r (some { keyword := kw }) = U.conv r.unitInternal r.unit ∧
    factorOf U r none = U.conv r.unitInternal r.unit := by
  simp [writer_model_is_source_convert, writeVariableSpec, lookup, asdictGet, tupleGet, Src.generated, writerRuleFields,
    writerCreateKeys, convertUnitParams, convertUnitFrom, convertUnitTo, dictGet, yamlGet, userGet, PyVal.asStr, convertCall]

end source

/-! #### non-vacuity -/

example : (resolve "cij").isSome ∧ resolve "cij" = resolve "adiabatic_elastic_moduli" ∧ resolve "cij" ≠ resolve "cij_t" ∧
    resolve "nonsense" = none := by decide +kernel
example : (writerRules[2]?).bind (valueFname · "tp") = some "bm_V_tp_gpa.txt" := by decide +kernel
example : (writerRules[0]?).bind (ijFname · "tv" (keyOfVoigt (4, 6))) = some "c46s_tv_gpa.txt" := by decide +kernel
/-- a registry with a duplicated keyword: the later rule wins -/
example : (resolveIn [{ keywords := ["a", "b"], fnamePattern := "1", prop := "x", unit := "", unitInternal := "", varType := "value" },
                      { keywords := ["b"], fnamePattern := "2", prop := "y", unit := "", unitInternal := "", varType := "value" }] "b").map (·.prop)
    = some "y" := by decide +kernel
-- the hypotheses of `value_file_on_requested_grid` are satisfiable: NT = 1, NTV = 2 over ℤ with c = toGPa = 1
set_option synthInstance.maxSize 512 in
example : (writeKeyword (α := Int) { toGPa := 1, toAng3 := 1, conv := fun _ _ => some 3 }
      { baseName := "tp", pressureBase := true, tArray := arange 5 (1 + 4) 2, axis := (arange 0 2 10).map (· * 1),
        props := [("bulk_modulus_voigt", .value [[1, 2], [3, 4], [5, 6], [7, 8], [9, 10]])] }
      { keyword := "B_V" }).map (fun ts => ts.map fun t => (t.fname, t.rows, t.cols, t.vals)) =
    some [("bm_V_tp_gpa.txt", [5], [0, 10], [[3, 6]])] := by decide +kernel

-- the interpreters compute: the translated `write_variable` on the witness of `value_file_on_requested_grid` …
set_option synthInstance.maxSize 512 in
example : (Source.evalWrite Source.Src.generated writeVariableSpec (α := Int) { toGPa := 1, toAng3 := 1, conv := fun a b => if a = "rydberg / bohr ^ 3" ∧ b = "kbar" then some 10 else some 1 }
      { keywords := ["B_V"], fnamePattern := "bm_V_{base}_gpa.txt", prop := "bulk_modulus_voigt", unit := "GPa", unitInternal := "rydberg / bohr ^ 3", varType := "value" }
      { baseName := "tp", pressureBase := true, tArray := [0, 1, 2, 3, 4], axis := [7],
        props := [("bulk_modulus_voigt", .value [[1], [2], [3], [4], [5]])] }
      (some { keyword := "B_V", unit := some "kbar" })).map (fun ts => ts.map fun t => (t.fname, t.rows, t.cols, t.vals)) =
    some [("bm_V_tp_gpa.txt", [0], [7], [[10]])] := by decide +kernel
-- … and the data matters: with the layers in the other order (rule over user) the same request ignores the unit
set_option synthInstance.maxSize 512 in
example : (Source.evalWrite Source.Src.generated { writeVariableSpec with layers := ["user", "rule"] } (α := Int) { toGPa := 1, toAng3 := 1, conv := fun a b => if a = "rydberg / bohr ^ 3" ∧ b = "kbar" then some 10 else some 1 }
      { keywords := ["B_V"], fnamePattern := "bm_V_{base}_gpa.txt", prop := "bulk_modulus_voigt", unit := "GPa", unitInternal := "rydberg / bohr ^ 3", varType := "value" }
      { baseName := "tp", pressureBase := true, tArray := [0, 1, 2, 3, 4], axis := [7],
        props := [("bulk_modulus_voigt", .value [[1], [2], [3], [4], [5]])] }
      (some { keyword := "B_V", unit := some "kbar" })).map (fun ts => ts.map fun t => (t.fname, t.rows, t.cols, t.vals)) =
    some [("bm_V_tp_gpa.txt", [0], [7], [[1]])] := by decide +kernel
-- a wiring whose sample argument is not the label array is outside what the model covers (no silent agreement)
example : (Source.evalWriteTable { pressureWriteTable with args := [("", "value"), ("", "self.t_array"), ("_to_gpa", "self.p_array"), ("", "self.p_array"), ("", "fname")] }
      witnessUnits witnessBase "x" [[1], [2], [3], [4], [5]]).isNone = true ∧
    (Source.evalWriteTable pressureWriteTable witnessUnits witnessBase "x" [[1], [2], [3], [4], [5]]).isSome = true := by decide +kernel

end Cij.C15
