/-
  C14 — deterministic and isolated: hash seed, working directory, process history; fill idempotent; reading twice
  returns equal arrays.

  WHAT IS IN A THEOREM (the modelled part)
  * Lazily cached per-instance results.  `lazy_property.LazyProperty` is the read-through memo table of
    `CijModel/Memo.lean`: first read runs the body and stores the value in the instance (`_<name>`), later reads return
    the stored value.  The property graph of the three phonon-contribution classes is `Generated.lazyDeps*`,
    re-translated from nonshear.py / shear.py on every run and turned into `Memo` bodies by `CijModel/LazyGraph.lean`
    (the very functions the driver runs for the correspondence check of the CACHE STATE of real objects).
    `write_output()` twice, `calculate()` twice, reading a result again, reading results in another order are all just
    longer / permuted histories of reads, so one theorem over ALL lists of reads covers them.
  * Two calculators in one process = two memo tables (`historyMulti`), any interleaving.
  * Iteration over a Python `set` = iteration in an ARBITRARY order: a universally quantified permutation of the key
    list (`update_config`, C16), of the key/permutation set in `_calculate_compliances` (C07), of the rule list of
    the writer registry (C15).  These theorems are imported from the property files that own the models and
    re-stated here as corollaries; nothing is copied.
  * `Path(system).exists()` in the working directory = an ARBITRARY predicate `pathExists` of the lookup environment
    (C09's model of fill.py).
  * Symmetry filling is the exact model `CijModel/Fill.lean` (run by the driver over ℚ for C08/C09).
  * "No state outside the objects".  The memo model has per-object state only.  `Generated.State.*` is the inventory, re-taken
    from EVERY module under cij/ on every run (tools/gens/state_src.py), of what could carry state across objects and
    calls: module-level and class-level mutable bindings, statements that write to anything outliving a call, mutable default
    arguments, caching decorators, `id(…)` keys.  `c14_shared_objects_known` … `c14_no_hidden_state` pin it to what the
    model assumes: four constant tables, never written after import.

  WHAT IS NOT IN ANY THEOREM (only its abstraction above is):
  the interpreter's hash randomisation itself (PYTHONHASHSEED), the file system, BLAS/OpenMP threading and
  floating-point non-associativity, numba's JIT cache, import order, module-level objects of third-party packages
  (pint's registry, qha), in-place mutation of an array that a cache hands out (model values are immutable).
  Those are exercised on the real code by harness/c14.py: `cij run` / `cij fill` in subprocesses under several hash
  seeds and working directories with byte comparison of every output file, two calculations interleaved in one
  process against fresh-process results, random read/write histories on both bases, and random read histories on real
  objects of the three classes whose cache state (`hasattr(obj, "_" + name)`) is compared with the model after every
  read and whose values are compared with fresh objects.
-/
import CijProofs.Lemmas.MemoHistory
import CijProofs.Lemmas.OrderFree
import CijProofs.Lemmas.FillIdem
import CijProofs.Properties.C07
import CijProofs.Properties.C09
import CijProofs.Properties.C15
import CijProofs.Properties.C16
import Generated.LazyDeps
import Generated.StateSpec
import CijProofs.Lemmas.TasksSource
import Generated.FullModulusSpec
set_option linter.unusedSectionVars false
namespace Cij.C14
open Cij Cij.Memo Cij.LazyGraph

/-! #### the values returned do not depend on the history of reads -/

section memo
variable {ν β : Type} [DecidableEq ν]

/-- **cache_history_free.**  Bodies that only read properties of smaller rank (an acyclic property graph), `spec` the
pure denotation of the bodies.  For ANY sequence of reads `ns` (repeated reads, `calculate` twice, `write_output`
twice, any order) starting from ANY consistent cache state `t` (in particular a fresh object, `[]`): the history runs
to completion, every value returned is `spec` of the property read — a function of the object's inputs alone — and the
cache stays consistent. -/
theorem c14_cache_history_free {rk : ν → Nat} {defs : ν → Body ν β} (hdefs : ∀ n, ReadsBelow rk (rk n) (defs n))
    {spec : ν → β} (hspec : ∀ n, spec n = denote spec (defs n)) (fuel : Nat) (hfuel : ∀ n, rk n < fuel)
    (ns : List ν) (t : Table ν β) (ht : Consistent spec t) :
    ∃ t', history defs fuel ns t = some (ns.map spec, t') ∧ Consistent spec t' := by
  have htot := history_total hdefs fuel hfuel ns t
  cases h : history defs fuel ns t with
  | none => simp [h] at htot
  | some p =>
    obtain ⟨vs, t'⟩ := p
    obtain ⟨hv, hc⟩ := history_sound hspec fuel ns t vs t' ht h
    exact ⟨t', by rw [hv], hc⟩

/-- the "pure function of the inputs" exists and is unique for every ranked graph: the statement above is never
vacuous and does not depend on a choice of `spec` -/
theorem c14_spec_exists_unique [Inhabited β] {rk : ν → Nat} {defs : ν → Body ν β}
    (hdefs : ∀ n, ReadsBelow rk (rk n) (defs n)) :
    (∀ n, specOf rk defs n = denote (specOf rk defs) (defs n)) ∧
    ∀ s : ν → β, (∀ n, s n = denote s (defs n)) → ∀ n, s n = specOf rk defs n :=
  ⟨specOf_spec hdefs, fun _ hs => spec_unique hdefs hs (specOf_spec hdefs)⟩

/-- two histories that end with a read of the same property return the same value there, whatever was read (or
written, or recomputed) before — on the same object or on two objects with the same inputs -/
theorem c14_history_irrelevant {rk : ν → Nat} {defs : ν → Body ν β} (hdefs : ∀ n, ReadsBelow rk (rk n) (defs n))
    {spec : ν → β} (hspec : ∀ n, spec n = denote spec (defs n)) (fuel : Nat) (hfuel : ∀ n, rk n < fuel)
    (before₁ before₂ : List ν) (n : ν) :
    ∃ vs₁ vs₂ t₁ t₂, history defs fuel (before₁ ++ [n]) [] = some (vs₁, t₁) ∧
      history defs fuel (before₂ ++ [n]) [] = some (vs₂, t₂) ∧ vs₁.getLast? = vs₂.getLast? := by
  obtain ⟨t₁, h₁, _⟩ := c14_cache_history_free hdefs hspec fuel hfuel (before₁ ++ [n]) [] (consistent_nil spec)
  obtain ⟨t₂, h₂, _⟩ := c14_cache_history_free hdefs hspec fuel hfuel (before₂ ++ [n]) [] (consistent_nil spec)
  exact ⟨_, _, t₁, t₂, h₁, h₂, by simp⟩

/-- **read_twice_equal.**  Read `n`, then anything, then `n` again: both reads return the same value.  No hypothesis
on the bodies is needed at all (not even acyclicity): the second read is served from the cache, and a cached entry
is never replaced (`readProp_extends`). -/
theorem c14_read_twice_equal (defs : ν → Body ν β) (fuel : Nat) (n : ν) (between : List ν) (t : Table ν β)
    (vs : List β) (t' : Table ν β) (h : history defs fuel (n :: (between ++ [n])) t = some (vs, t')) :
    ∃ v mid, vs = v :: (mid ++ [v]) :=
  read_twice_same defs fuel n between t vs t' h

/-- … and under the hypotheses of `c14_cache_history_free`, any two reads of the same property anywhere in a history
agree (positions `i`, `j` of the returned list) -/
theorem c14_read_twice_equal_anywhere {rk : ν → Nat} {defs : ν → Body ν β}
    (hdefs : ∀ n, ReadsBelow rk (rk n) (defs n)) {spec : ν → β} (hspec : ∀ n, spec n = denote spec (defs n))
    (fuel : Nat) (hfuel : ∀ n, rk n < fuel) (ns : List ν) (i j : Nat) (hij : ns[i]? = ns[j]?) :
    ∃ vs t', history defs fuel ns [] = some (vs, t') ∧ vs[i]? = vs[j]? := by
  obtain ⟨t', h, _⟩ := c14_cache_history_free hdefs hspec fuel hfuel ns [] (consistent_nil spec)
  exact ⟨_, t', h, by simp [List.getElem?_map, hij]⟩

/-- **two_calculators_isolated.**  Several objects (index `i`), each with its own inputs (`defs i`, `spec i`) and its
own cache: in ANY interleaving of reads, the value returned for object `i` is `spec i` — nothing done on another
object can change it. -/
theorem c14_two_calculators_isolated {ι : Type} [DecidableEq ι] {rk : ι → ν → Nat} {defs : ι → ν → Body ν β}
    (hdefs : ∀ i n, ReadsBelow (rk i) (rk i n) (defs i n)) {spec : ι → ν → β}
    (hspec : ∀ i n, spec i n = denote (spec i) (defs i n)) (fuel : Nat) (hfuel : ∀ i n, rk i n < fuel)
    (ops : List (ι × ν)) :
    ∃ ts', historyMulti defs fuel ops (fun _ => []) = some (ops.map (fun o => spec o.1 o.2), ts') := by
  have htot := historyMulti_total hdefs fuel hfuel ops (fun _ => [])
  cases h : historyMulti defs fuel ops (fun _ => []) with
  | none => simp [h] at htot
  | some p =>
    obtain ⟨vs, ts'⟩ := p
    obtain ⟨hv, _⟩ := historyMulti_sound hspec fuel ops (fun _ => []) vs ts' (fun i => consistent_nil (spec i)) h
    exact ⟨ts', by rw [hv]⟩

/-- the interleaving is irrelevant also as a whole: the values object `i` returns in an interleaved run are the
values it returns when it is alone in a fresh process -/
theorem c14_interleaving_irrelevant {ι : Type} [DecidableEq ι] {rk : ι → ν → Nat} {defs : ι → ν → Body ν β}
    (hdefs : ∀ i n, ReadsBelow (rk i) (rk i n) (defs i n)) {spec : ι → ν → β}
    (hspec : ∀ i n, spec i n = denote (spec i) (defs i n)) (fuel : Nat) (hfuel : ∀ i n, rk i n < fuel)
    (ops : List (ι × ν)) (i : ι) :
    ∃ vs ts' vsAlone tAlone, historyMulti defs fuel ops (fun _ => []) = some (vs, ts') ∧
      history (defs i) fuel ((ops.filter (fun o => decide (o.1 = i))).map (·.2)) [] = some (vsAlone, tAlone) ∧
      ((List.zip ops vs).filter (fun p => decide (p.1.1 = i))).map (·.2) = vsAlone := by
  obtain ⟨ts', h⟩ := c14_two_calculators_isolated hdefs hspec fuel hfuel ops
  obtain ⟨tA, hA, _⟩ := c14_cache_history_free (hdefs i) (hspec i) fuel (hfuel i)
    ((ops.filter (fun o => decide (o.1 = i))).map (·.2)) [] (consistent_nil (spec i))
  exact ⟨_, ts', _, tA, h, hA, filter_zip_values spec i ops⟩

end memo

/-! #### the property graphs of the three phonon-contribution classes (translated from the source on every run) -/

/-- **lazy_graph_ranked.**  On the tables translated from nonshear.py / shear.py: every `@LazyProperty` reads only
lazy properties of strictly smaller rank (plain `@property`s inlined) — the graphs are acyclic, and the fuel the
driver uses is enough.  Kernel evaluation on the tables of THIS run. -/
theorem c14_lazy_graph_ranked :
    ranked Generated.lazyDepsLong = true ∧ ranked Generated.lazyDepsOff = true ∧
    ranked Generated.lazyDepsShear = true := by decide +kernel

/-- the three tables -/
def classTables : List Tab := [Generated.lazyDepsLong, Generated.lazyDepsOff, Generated.lazyDepsShear]

theorem c14_class_tables_ranked : ∀ tab ∈ classTables, ranked tab = true := by
  intro tab h
  simp only [classTables, List.mem_cons, List.not_mem_nil, or_false] at h
  rcases h with rfl | rfl | rfl
  · exact c14_lazy_graph_ranked.1
  · exact c14_lazy_graph_ranked.2.1
  · exact c14_lazy_graph_ranked.2.2

/-- `c14_cache_history_free` on the real graphs, for ANY value functions `f` (`f n` computes the lazy property `n`
from the values of the properties its body reads and from the object's inputs): every history of reads — of lazy or
plain properties (`expandOp` inlines the plain ones, as the interpreter does) — returns the pure values, and two
objects with their own `f` do not influence each other. -/
theorem c14_history_free_on_classes {β : Type} [Inhabited β] (tab : Tab) (htab : tab ∈ classTables)
    (f : String → List β → β) (ops : List String) :
    ∃ t', history (defsOf tab f) (fuelOf tab) (ops.flatMap (expandOp tab)) [] =
      some ((ops.flatMap (expandOp tab)).map (specOf (rank tab) (defsOf tab f)), t') := by
  have hr := c14_class_tables_ranked tab htab
  obtain ⟨t', h, _⟩ := c14_cache_history_free (defsOf_readsBelow hr f) (specOf_spec (defsOf_readsBelow hr f))
    (fuelOf tab) (rank_lt_fuel hr) (ops.flatMap (expandOp tab)) [] (consistent_nil _)
  exact ⟨t', h⟩

/-- the value of a lazy property IS `f n` of the values of what it reads, in reading order (unfolding of `specOf`) -/
theorem c14_value_equation {β : Type} [Inhabited β] (tab : Tab) (htab : tab ∈ classTables)
    (f : String → List β → β) (n : String) :
    specOf (rank tab) (defsOf tab f) n = f n ((lazyDeps tab n).map (specOf (rank tab) (defsOf tab f))) := by
  have hr := c14_class_tables_ranked tab htab
  rw [specOf_spec (defsOf_readsBelow hr f) n]
  simp [defsOf, denote_chain]

theorem c14_two_objects_on_classes {β : Type} [Inhabited β] (tab : Tab) (htab : tab ∈ classTables)
    (f : Bool → String → List β → β) (ops : List (Bool × String)) :
    ∃ ts', historyMulti (fun i => defsOf tab (f i)) (fuelOf tab) ops (fun _ => []) =
      some (ops.map (fun o => specOf (rank tab) (defsOf tab (f o.1)) o.2), ts') := by
  have hr := c14_class_tables_ranked tab htab
  exact c14_two_calculators_isolated (rk := fun _ => rank tab) (fun i => defsOf_readsBelow hr (f i))
    (fun i => specOf_spec (defsOf_readsBelow hr (f i))) (fuelOf tab) (fun _ => rank_lt_fuel hr) ops

/-- the cache-state sequence the driver reports for the correspondence check is always defined -/
theorem c14_cache_states_defined (tab : Tab) (htab : tab ∈ classTables) (ops : List String) :
    ∀ s ∈ cacheStates (β := Unit) tab (fun _ _ => ()) ops [], s.isSome = true :=
  cacheStates_total (c14_class_tables_ranked tab htab) _ ops []

/-- non-vacuity / what the model says on a concrete history (a literal table shaped like the longitudinal class, so
that a refactoring of the real classes cannot break this example): reading `Q1` caches `Q` and `Q1`; the plain
property `va` caches everything below it but not itself; reading again changes nothing -/
example : cacheStates (β := Unit)
      [("Q", true, ["f", "t"]), ("Q1", true, ["Q"]), ("f", false, []), ("t", false, []),
       ("gap", true, ["t", "Q"]), ("va", false, ["vi", "gap"]), ("vi", true, ["Q1"])]
      (fun _ _ => ()) ["Q1", "va", "Q1", "t"] [] =
    [some ["Q", "Q1"], some ["Q", "Q1", "gap", "vi"], some ["Q", "Q1", "gap", "vi"], some ["Q", "Q1", "gap", "vi"]] := by
  decide +kernel

/-- a cyclic table is NOT ranked, and the model reports the failure instead of a value (the certificate is not
vacuous) -/
example : ranked [("a", true, ["b"]), ("b", true, ["a"])] = false ∧
    cacheStates (β := Unit) [("a", true, ["b"]), ("b", true, ["a"])] (fun _ _ => ()) ["a"] [] = [none] := by
  decide +kernel

/-- a concrete two-level graph with numbers: whatever the history, `c` is `(a + b) * 2` -/
example : (history (defsOf (β := Int) [("a", true, []), ("b", true, ["a"]), ("c", true, ["a", "b"])]
      (fun n vs => match n with | "a" => 3 | "b" => vs.sum + 1 | _ => vs.sum * 2)) 4 ["c", "a", "c", "b"] []).map (·.1)
    = some [14, 3, 14, 4] := by decide +kernel

/-! #### set iteration order (hash seed) is irrelevant -/

/-- **update_config_order_free** (C16): whether `update_config` returns and what it returns as a map do not depend on
the order in which `set([*input.keys(), *default.keys()])` is iterated. -/
theorem c14_update_config_order_free {ord₁ ord₂ : List String → List String} (h₁ : Config.OrdOK ord₁)
    (h₂ : Config.OrdOK ord₂) {u d r₁ : J} (h : Config.updateConfig ord₁ u d = .ok r₁) :
    ∃ r₂, Config.updateConfig ord₂ u d = .ok r₂ ∧ Config.MapEq r₁ r₂ :=
  C16.c16_order_free h₁ h₂ h

/-- **compliance_assembly_order_free** (C07): the 6×6 matrix that `_calculate_compliances` inverts is the same for
two orders of `modulus_keys` (any permutation of the dictionary; the order inside `set(permutations(key.voigt, 2))` is
already immaterial in the model: only membership in `writes` is used). -/
theorem c14_compliance_assembly_order_free (inp inp' : VRH.Inputs ℝ) (hk : VRH.Keys inp)
    (hp : inp.modAd.Perm inp'.modAd) (t v : Nat) (i j : Int) (hij : (i, j) ∈ allPairs) :
    VRH.Cmat inp t v i j = VRH.Cmat inp' t v i j := by
  have hk' : VRH.Keys inp' :=
    ⟨fun k hk1 => hk.canon k ((hp.map _).mem_iff.2 hk1), (hp.map _).nodup_iff.1 hk.nodup,
     fun p hp1 => (hp.map _).mem_iff.1 (hk.ortho p hp1)⟩
  rw [(C07.c07_assembly inp hk t v i j hij).1, (C07.c07_assembly inp' hk' t v i j hij).1]
  unfold VRH.val
  have hperm : (VRH.kvAt inp.modAd t v).Perm (VRH.kvAt inp'.modAd t v) := hp.map _
  have hnd : ((VRH.kvAt inp.modAd t v).map (·.1)).Nodup := by rw [VRH.map_fst_kvAt]; exact hk.nodup
  rw [OrderFree.find_perm hperm hnd]

/-- **registry_order_free** (C15): the registry is "last rule listing the keyword wins" for any rule list; when no
keyword is listed by two rules the registry as a map does not depend on the order of the rules at all … -/
theorem c14_registry_order_free (rules rules' : List Generated.WriterRule) (hp : rules.Perm rules')
    (hdisj : ∀ r₁ ∈ rules, ∀ r₂ ∈ rules, ∀ k, k ∈ r₁.keywords → k ∈ r₂.keywords → r₁ = r₂) (kw : String) :
    Writer.resolveIn rules kw = Writer.resolveIn rules' kw := by
  rw [C15.registry_later_wins, C15.registry_later_wins]
  apply OrderFree.find?_perm_unique ((List.reverse_perm _).trans (hp.trans (List.reverse_perm _).symm))
  intro a ha b hb pa pb
  exact hdisj a (List.mem_reverse.1 ha) b (List.mem_reverse.1 hb) kw (by simpa using pa) (by simpa using pb)

/-- … and the packaged rules (translated on this run) are such a list: the module-level `DEFAULT_WRITER_RULES` may be
read in any order, by any number of writers -/
theorem c14_packaged_registry_order_free (rules' : List Generated.WriterRule)
    (hp : Generated.writerRules.Perm rules') (kw : String) :
    Writer.resolve kw = Writer.resolveIn rules' kw := by
  apply c14_registry_order_free _ _ hp
  intro r₁ h₁ r₂ h₂ k hk₁ hk₂
  have e₁ := C15.every_keyword_resolves r₁ h₁ k hk₁
  have e₂ := C15.every_keyword_resolves r₂ h₂ k hk₂
  rw [e₁] at e₂
  exact Option.some.inj e₂

/-- non-vacuity: with a keyword listed twice the order DOES matter (so the disjointness hypothesis is needed) -/
example :
    let r₁ : Generated.WriterRule := ⟨["k"], "a", "p", "u", "u", "value"⟩
    let r₂ : Generated.WriterRule := ⟨["k"], "b", "p", "u", "u", "value"⟩
    Writer.resolveIn [r₁, r₂] "k" = some r₂ ∧ Writer.resolveIn [r₂, r₁] "k" = some r₁ := by decide +kernel

/-! #### the working directory and the constraint lookup

The outcome of `fill` for a packaged crystal-system name does not depend on ANY entry of the working directory — neither
on `Path(system).exists()` (junk entries, a directory named like the system) nor on a regular file of that name
(`c14_lookup_cwd_irrelevant_full`).  This became true with fix 6f0d09b: before it, `Path(system).is_file()` was tried
before the packaged name, so a regular file called like the crystal system replaced the packaged relations (finding
`cwd:regular-file-named-like-system`, found by this check; the witness below is kept as a regression theorem).
A string with a directory part (`./cubic`) is a PATH, not a system name: the file it names is used
(`c14_lookup_path_with_directory_part_is_used`); packaged names have no directory part (`c14_lookup_packaged_names_are_bare`). -/

/-- **lookup_cwd_irrelevant** (C09): `fill_cij` gives the same outcome whatever `Path(system).exists()` says in the
working directory: it is never consulted. -/
theorem c14_lookup_cwd_irrelevant {α : Type} [Field α] [LinearOrder α] [IsStrictOrderedRing α]
    (pe pe' : String → Bool) (uf : String → Option Fill.Rows) (system : Option String) (P : Fill.Params α)
    (t : Fill.Table α) : Fill.fill ⟨pe, uf⟩ system P t = Fill.fill ⟨pe', uf⟩ system P t :=
  C09.lookup_cwd_irrelevant pe pe' uf system P t

/-- the FULL statement for packaged names: two arbitrary working directories (any `exists`, any regular files, also
files named like the system) give the same outcome -/
theorem c14_lookup_cwd_irrelevant_full {α : Type} [Field α] [LinearOrder α] [IsStrictOrderedRing α]
    (env env' : Fill.Env) (sys : String) (rows : Fill.Rows) (hp : Fill.packaged sys = .ok rows) (P : Fill.Params α)
    (t : Fill.Table α) : Fill.fill env (some sys) P t = Fill.fill env' (some sys) P t :=
  C09.lookup_env_irrelevant_packaged env env' sys rows hp P t

/-- every one of the nine documented system names is packaged, so the statement above applies to all of them -/
theorem c14_documented_systems_packaged :
    ∀ s ∈ ["triclinic", "monoclinic", "orthorhombic", "tetragonal7", "tetragonal6", "trigonal7", "trigonal6", "hexagonal", "cubic"],
      (match Fill.packaged s with | .ok _ => true | .error _ => false) = true := by
  decide +kernel

/-- a name that is NOT a packaged system and names a readable file is used as the relations (C09 `user_file_used`) -/
theorem c14_user_file_is_used {α : Type} [Field α] [LinearOrder α] [IsStrictOrderedRing α]
    (env : Fill.Env) (sys : String) (rows : Fill.Rows) (e : Fill.Err) (hp : Fill.packaged sys = .error e)
    (h : env.userFile sys = some rows) (P : Fill.Params α) (t : Fill.Table α) :
    Fill.fill env (some sys) P t =
      match Fill.recognise (t.map (·.1)) with
      | .error e => .error e
      | .ok sel => Fill.fillWith rows sel P t :=
  C09.user_file_used env sys rows e hp h P t

/-- a string WITH a directory part (`./cubic`, `sub/cubic`, `/abs/cubic`) naming a readable file is used as the relations,
whatever its base name — the working directory matters exactly through the file the PATH names (C09
`path_with_directory_part_is_used`; fix of the finding `fill_cij(df, "./cubic")` used the packaged relations) -/
theorem c14_lookup_path_with_directory_part_is_used {α : Type} [Field α] [LinearOrder α] [IsStrictOrderedRing α]
    (env : Fill.Env) (sys : String) (rows : Fill.Rows) (hd : FillSource.hasDirPart sys = true)
    (h : env.userFile sys = some rows) (P : Fill.Params α) (t : Fill.Table α) :
    Fill.fill env (some sys) P t =
      match Fill.recognise (t.map (·.1)) with
      | .error e => .error e
      | .ok sel => Fill.fillWith rows sel P t :=
  (C09.path_with_directory_part_is_used env sys rows hd h P t).2

/-- … and a packaged system name is a bare name (no directory part): the two statements never overlap -/
theorem c14_lookup_packaged_names_are_bare (sys : String) (rows : Fill.Rows) (hp : Fill.packaged sys = .ok rows) :
    FillSource.hasDirPart sys = false := FillSource.packaged_ok_bare hp

/-- regression witness of the repaired finding: an (empty) file called `cubic` in the working directory no longer
changes the outcome for the packaged system `cubic` -/
theorem c14_cwd_file_named_like_system_ignored :
    Fill.fill ⟨fun _ => false, fun s => if s = "cubic" then some [] else none⟩ (some "cubic")
        (⟨false, false, mkRat 1 100000000, mkRat 1 10⟩ : Fill.Params Rat) [("V", [100])] =
    Fill.fill ⟨fun _ => false, fun _ => none⟩ (some "cubic")
        (⟨false, false, mkRat 1 100000000, mkRat 1 10⟩ : Fill.Params Rat) [("V", [100])] := by decide +kernel

/-! #### symmetry filling is idempotent — unless an independent component vanishes identically -/

section fill
variable {α : Type} [Field α] [LinearOrder α] [IsStrictOrderedRing α]
open Cij.Fill

/-- what `fill` returns IS a filled table: for a rectangular input (`n` rows) without columns that differ by letter
case only, and ANY solution `xs` with one tensor per row, every modulus column of the output carries the tensor
component of its symbol, every symbol without a column is a component that was dropped (≤ `drop_atol` everywhere),
and no droppable column is left. -/
theorem c14_fill_output_is_filled (P : Params α) {t : Table α} (hnd : NoCaseDup t) {n : Nat}
    (hrect : ∀ c ∈ t, c.2.length = n) {xs : List (List α)} (hn : xs.length = n) :
    IsFilled P (finish P t xs) xs :=
  (finish_isFilled P hnd hrect hn).1

/-- a filled table is a fixed point of `fill` whenever its columns still determine the tensor: `xs` satisfy the
relations exactly, the table carries them (`IsFilled`), and the stacked system has no kernel.  (The write-back
rewrites every column with the value it already has, re-appends the dropped components in symbol order and drops
them again.) -/
theorem c14_filled_table_fixed (env : Env) (sys : String) (P : Params α) (t : Table α) (xs : List (List α))
    {sel : List (Option Nat)} (hrec : recognise (t.map (·.1)) = .ok sel)
    {rel : Rows} (hres : resolve env sys = .ok rel) (hne : (selIdxOf sel).isEmpty = false)
    {s : Solved α} (hs : solveStage (stackA (α := α) (selIdxOf sel) rel)
            ((List.range (nRows t)).map fun k => stackB (selColsOf sel t) rel k) = some s)
    (hfull : s.rankDeficient = false) (hrows : xs.length = nRows t) (hlen : ∀ x ∈ xs, x.length = nsym)
    (hrel : ∀ x ∈ xs, ∀ r ∈ rel,
      dot (castRow (α := α) r) x = (Int.cast r.rhs : α) / (Int.cast (Int.ofNat r.den) : α))
    (hf : IsFilled P t xs) (hatol : 0 ≤ P.residualAtol) :
    fill env (some sys) P t = .ok t :=
  fill_filled env sys P t xs hrec hres hne hs hfull hrows hlen hrel hf hatol

/-- **fill_idempotent.**  `fill (fill t) = fill t` on the model of fill.py, for every linearly ordered field, every
relations file (packaged or user-supplied), every rectangular table `t` without case-duplicated columns:
if the first call is accepted (`hv₁`) and its result satisfies the relations exactly (`hcons`; true whenever the
input was consistent, `C09.accept_consistent_exact`), then the second call returns the first result unchanged —
PROVIDED the components that survived the drop still determine the tensor (`hfull₂ : rankDeficient = false`).
By `C09.rank_refusal_iff` that proviso fails exactly when some non-zero relation-compatible tensor vanishes on all
remaining columns, i.e. when an independent component (class) was identically zero and has been dropped: then the
second call REFUSES (`c14_fill_not_idempotent_zero_component`).
`hs₁`, `hs₂` say that the model's own least-squares solve passed its exact check (it never failed in any run). -/
theorem c14_fill_idempotent (env : Env) (sys : String) (P : Params α) (t : Table α) (n : Nat)
    (hrect : ∀ c ∈ t, c.2.length = n) (hnd : NoCaseDup t)
    {sel₁ : List (Option Nat)} (hrec₁ : recognise (t.map (·.1)) = .ok sel₁)
    {rel : Rows} (hres : resolve env sys = .ok rel) (hne₁ : (selIdxOf sel₁).isEmpty = false)
    {s₁ : Solved α} (hs₁ : solveStage (stackA (α := α) (selIdxOf sel₁) rel)
            ((List.range (nRows t)).map fun k => stackB (selColsOf sel₁ t) rel k) = some s₁)
    (hv₁ : verdict P s₁ = .ok ())
    (hcons : ∀ x ∈ s₁.xs, ∀ r ∈ rel,
      dot (castRow (α := α) r) x = (Int.cast r.rhs : α) / (Int.cast (Int.ofNat r.den) : α))
    {sel₂ : List (Option Nat)} (hrec₂ : recognise ((finish P t s₁.xs).map (·.1)) = .ok sel₂)
    (hne₂ : (selIdxOf sel₂).isEmpty = false)
    {s₂ : Solved α} (hs₂ : solveStage (stackA (α := α) (selIdxOf sel₂) rel)
            ((List.range (nRows (finish P t s₁.xs))).map fun k =>
              stackB (selColsOf sel₂ (finish P t s₁.xs)) rel k) = some s₂)
    (hfull₂ : s₂.rankDeficient = false) (hatol : 0 ≤ P.residualAtol) :
    fill env (some sys) P t = .ok (finish P t s₁.xs) ∧
    fill env (some sys) P (finish P t s₁.xs) = .ok (finish P t s₁.xs) :=
  fill_fill env sys P t n hrect hnd hrec₁ hres hne₁ hs₁ hv₁ hcons hrec₂ hne₂ hs₂ hfull₂ hatol

end fill

/-! #### no state outside the objects (inventory of the whole package, re-translated on every run) -/

section state
open Generated.State

/-- **shared_objects_known.**  The only module-level or class-level bindings of possibly mutable objects anywhere in the
package are the writer-rule table, pint's unit registry and the two Voigt index tables (all four are constant tables:
`c14_no_shared_writes`).  In particular NO class of the package has a class-level container (results, compliances and
caches live on the instance, which is what `c14_two_calculators_isolated` assumes). -/
theorem c14_shared_objects_known :
    sharedObjects.map (fun r => (r.1, r.2.1, r.2.2.1)) =
      [("cij/io/output/results_writer.py", "<module>", "DEFAULT_WRITER_RULES"),
       ("cij/util/units.py", "<module>", "units"),
       ("cij/util/voigt.py", "<module>", "VOIGT_TO_STANDARD"),
       ("cij/util/voigt.py", "<module>", "STANDARD_TO_VOIGT")] := by decide +kernel

/-- **no_shared_writes.**  No function or method of the package contains a statement that assigns into, deletes from or
calls a mutating method on an object reachable from a module-level name, a class (`cls.x = …`, `type(self).x`,
`self.__class__`), a function object or an imported module's settings (`pandas.set_option`, `numpy.seterr`,
`os.environ`, `os.chdir`, `random.seed` …), and none declares `global`/`nonlocal`. -/
theorem c14_no_shared_writes :
    sharedWrites.filter (fun r => r.2.1 != "<module>") = [] := by decide +kernel

/-- **import_time_statements_known.**  Statements executed at import time other than imports, definitions and bindings occur
only in the three entry-point modules (reading `version.py`, registering the click sub-commands, one click display setting):
importing a sub-command cannot change how another one computes or prints. -/
theorem c14_import_time_statements_known :
    ∀ r ∈ sharedWrites, r.2.1 = "<module>" → r.1 ∈ ["cij/__init__.py", "cij/cli/cij.py", "cij/cli/main.py"] := by decide +kernel

/-- **no_hidden_state.**  No mutable default argument, no caching decorator (`lru_cache`, `cache`, `cached_property`, … — only
`property`, `classmethod`, `staticmethod`, `LazyProperty` and click decorators occur), no `id(…)`-keyed table, in any of the
modules scanned (all of them: the count is part of the statement so an unreadable package cannot pass vacuously). -/
theorem c14_no_hidden_state :
    mutableDefaults = [] ∧ otherDecorators = [] ∧ idCalls = [] ∧ 40 ≤ modulesScanned := by decide +kernel

end state

/-! concrete instances, evaluated by the kernel over ℚ.  A small user-supplied relations file keeps the kernel
evaluation short: `c11 = c22`, `c12` free, every other component `= 0` (a relations file given by path is looked up
through `Env.userFile`, C09 `user_file_used`). -/

def relsU : Fill.Rows :=
  ⟨(List.range 21).map fun j => if j = 0 then 1 else if j = 6 then -1 else 0, 0, 1⟩ ::
  ((List.range 21).filter fun j => j ≠ 0 ∧ j ≠ 6 ∧ j ≠ 1).map fun j =>
    ⟨(List.range 21).map fun i => if i = j then 1 else 0, 0, 1⟩
def envU : Fill.Env := ⟨fun _ => false, fun s => if s = "my.rel" then some relsU else none⟩
def PU : Fill.Params Rat := ⟨false, false, mkRat 1 100000000, mkRat 1 10⟩

/-- first call: `c22` is derived, the vanishing components are omitted … -/
theorem c14_fill_example_first :
    Fill.fill envU (some "my.rel") PU [("V", [100]), ("C11", [300]), ("c12", [95])] =
      .ok [("V", [100]), ("C11", [300]), ("c12", [95]), ("c22", [300])] := by decide +kernel

/-- … second call on the result: unchanged (non-vacuity of `c14_fill_idempotent`) -/
theorem c14_fill_example_second :
    Fill.fill envU (some "my.rel") PU [("V", [100]), ("C11", [300]), ("c12", [95]), ("c22", [300])] =
      .ok [("V", [100]), ("C11", [300]), ("c12", [95]), ("c22", [300])] := by decide +kernel

/-- the excluded point: the independent component `c12` is identically zero, so the first call drops its column … -/
theorem c14_fill_zero_component_first :
    Fill.fill envU (some "my.rel") PU [("c11", [300]), ("c12", [0])] = .ok [("c11", [300]), ("c22", [300])] := by
  decide +kernel

/-- … and the second call no longer knows it: it REFUSES for rank.  Filling is NOT idempotent there (with
`ignore_rank` it would be accepted and the component stays absent). -/
theorem c14_fill_not_idempotent_zero_component :
    Fill.fill envU (some "my.rel") PU [("c11", [300]), ("c22", [300])] = .error .refuseRank := by decide +kernel

/-! #### ties shared with other properties

The statement of this property also rests on code whose translation is owned by another property's file; the theorems are restated
here so that this property's obligations are re-checked against those files too (a change there breaks THIS check's proof as well). -/

/-- `cij/core/tasks.py` as translated on this run: a non-shear task is identified by the two strain columns the source names,
task equality is at rounding level (`_STRAIN_RTOL ≤ 1e-9`, `atol = 0`), and `calculate()` feeds a shear task from the isothermal store -/
theorem c14_tasks_are_source {α : Type} [Add α] [Div α] (strain : Cij.Tasks.SField α) (key : Cij.Modulus) :
    (match Generated.makeParamCols with
     | [c0, c1] => Cij.Tasks.create strain key =
        if key.isShear then .shear strain key
        else .nonshear key.calcType (Cij.Tasks.component strain (Cij.Tasks.colOf key c0)) (Cij.Tasks.component strain (Cij.Tasks.colOf key c1))
     | _ => False) ∧
    (0 < Generated.strainRtol.1 ∧ Generated.strainRtol.1 * 1000000000 ≤ Generated.strainRtol.2) ∧
    Generated.tasksWiringCanonical = true :=
  ⟨Cij.Tasks.create_is_source strain key, Cij.Tasks.strain_rtol_tight, rfl⟩

/-- `full_modulus.py` / `_calculate_pressure_static` as translated on this run: default fit orders, degree offset, and the bodies of
`fit_modulus`, `get_axial_strains`, `get_static_modulus`, `modulus_adiabatic`, `modulus_isothermal` are the ones the model implements -/
theorem c14_full_modulus_is_source :
    Generated.fitModulusDegOffset = 1 ∧ Generated.fullModulusBodiesCanonical = true ∧
    Generated.fitModulusDefaultOrder = 2 ∧ Generated.staticPressureDefaultOrder = 3 := by decide

end Cij.C14
