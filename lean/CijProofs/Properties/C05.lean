/-
  C05 — total modulus = interpolated static table + phonon part, end to end from files.

  The statements are about `CijModel/LeastSq.lean` and `CijModel/FullModulus.lean`, the functions the
  correspondence run (harness/c05.py) executes over `Rat` on the inputs the real `Calculator` gets, here over
  an arbitrary linearly ordered field (ℝ, ℚ).

  Proved:
    * the model's fit is *the* least-squares polynomial (`lsq_minimises`, `polyfit_minimises`) and reproduces
      cubics exactly (`lsq_exact_on_cubics`): "interpolated by a least-squares cubic in Eulerian strain of V·c";
    * the model's solver is total where the property quantifies (`gauss_jordan_total`, `polyfit_answers`, `cubic_fit_exact`):
      the unpivoted Gauss–Jordan elimination never meets a zero pivot on a system whose leading principal blocks are
      non-singular, the normal equations of ≥ deg+1 distinct abscissae are such a system (positive definite), so `polyfit`
      ANSWERS there and its answer is the least-squares polynomial;
    * decomposition total = static(key,V) + phonon(key,T,V) at every grid point (`c05_decomposition`), the phonon
      part is independent of the tabulated static values (`c05_phonon_indep_static`), the static part of T
      (`c05_static_indep_T`);
    * strain fractions: each grid point's triple sums to 1 (`axial_strains_sum_one`), equal thirds without
      lattice block (`axial_strains_default_thirds`);
    * unit conversion (`gpa_factor`).
  Outside the theorems (entered as data / tied by the correspondence and the oracle of harness/c05.py):
    qha's fine grid and Eulerian strains, the phonon contribution itself (C01–C04), the optional symmetry
    filling (C08/C09), rounding inside numpy.polyfit.
-/
import CijProofs.Lemmas.FullModulus
import CijProofs.Lemmas.GaussJordan
import Generated.FullModulusSpec
import CijProofs.Lemmas.TasksSource
import CijProofs.Lemmas.ModeGammaSource
import Generated.AdapterSpec
import CijProofs.Lemmas.AdapterGuardSource
import Generated.ReadersSpec
import CijProofs.Lemmas.ShearGlueSource
namespace Cij.C05

open Cij.LeastSq Cij.FullModulus

section LeastSquares
variable {α : Type} [Field α] [LinearOrder α] [IsStrictOrderedRing α]

/-- `Aᵀ(Ax − b) = 0 ⇒ ∀ y, ‖Ax − b‖² ≤ ‖Ay − b‖²` for the polynomial design matrix `A_ij = x_i^j`
    (`x` = coefficients `p`, `b` = `ys`): a coefficient vector that satisfies the normal equations minimises the
    sum of squared residuals among *all* polynomials of degree ≤ deg. -/
theorem lsq_minimises (xs ys : List α) (deg : Nat) (p : List α) (hlen : p.length ≤ deg + 1)
    (hnormal : ∀ j < deg + 1, normalResidual xs ys p j = 0) :
    ∀ p' : List α, p'.length ≤ deg + 1 → sqResidual xs ys p ≤ sqResidual xs ys p' :=
  fun p' hp' => normalEq_minimises xs ys deg p hlen hnormal p' hp'

/-- whatever `polyfit` returns *is* a least-squares polynomial of the requested degree (the model verifies
    the normal equations exactly before answering) -/
theorem polyfit_minimises (xs ys : List α) (deg : Nat) (p : List α) (h : polyfit xs ys deg = some p) :
    p.length = deg + 1 ∧ ∀ p' : List α, p'.length ≤ deg + 1 → sqResidual xs ys p ≤ sqResidual xs ys p' := by
  obtain ⟨_, hlen, hn⟩ := polyfit_spec xs ys deg p h
  exact ⟨hlen, lsq_minimises xs ys deg p (le_of_eq hlen) hn⟩

/-- A table that *is* a cubic in the abscissa (≥ 4 distinct abscissae) is reproduced exactly, everywhere —
    so the "interpolated" static value is the tabulated law, not merely close to it. -/
theorem lsq_exact_on_cubics (a b c d : α) (xs : List α) (p : List α)
    (h : polyfit xs (xs.map fun x => a + b * x + c * x ^ 2 + d * x ^ 3) 3 = some p)
    (x0 x1 x2 x3 : α) (m0 : x0 ∈ xs) (m1 : x1 ∈ xs) (m2 : x2 ∈ xs) (m3 : x3 ∈ xs)
    (h01 : x0 ≠ x1) (h02 : x0 ≠ x2) (h03 : x0 ≠ x3) (h12 : x1 ≠ x2) (h13 : x1 ≠ x3) (h23 : x2 ≠ x3) :
    ∀ x, polyval p x = a + b * x + c * x ^ 2 + d * x ^ 3 := by
  obtain ⟨hlen, hmin⟩ := polyfit_minimises xs _ 3 p h
  set q := fun x => a + b * x + c * x ^ 2 + d * x ^ 3 with hq
  -- the generating cubic has residual 0, so the fit has residual 0
  have hzero : sqResidual xs (xs.map q) [d, c, b, a] = 0 := by
    unfold sqResidual
    rw [sumL_eq_sum, List.zipWith_map_right, List.zipWith_self]
    apply List.sum_eq_zero
    intro y hy
    obtain ⟨x, _, rfl⟩ := List.mem_map.mp hy
    rw [polyval_cubic]; simp [hq]
  have hle := hmin [d, c, b, a] (by simp)
  have hres : sqResidual xs (xs.map q) p = 0 :=
    le_antisymm (hzero ▸ hle) (sqResidual_nonneg _ _ _)
  unfold sqResidual at hres
  rw [sumL_eq_sum, List.zipWith_map_right, List.zipWith_self] at hres
  have hpt : ∀ x ∈ xs, polyval p x - q x = 0 := sum_sq_eq_zero xs (fun x => polyval p x - q x) hres
  -- p − q has degree < 4 and four distinct roots
  have hpoly : IsPolyLT 4 (fun x => polyval p x - polyval [d, c, b, a] x) :=
    ((isPolyLT_polyval p).mono (le_of_eq hlen)).sub ((isPolyLT_polyval [d, c, b, a]).mono (by simp))
  intro x
  have r : ∀ y ∈ xs, (fun x => polyval p x - polyval [d, c, b, a] x) y = 0 := by
    intro y hy; simp only [polyval_cubic]; exact hpt y hy
  have := hpoly.eq_zero_of_four_roots x0 x1 x2 x3 h01 h02 h03 h12 h13 h23 (r x0 m0) (r x1 m1) (r x2 m2) (r x3 m3) x
  simp only [polyval_cubic] at this
  exact sub_eq_zero.mp this

omit [LinearOrder α] [IsStrictOrderedRing α] in
/-- **gauss_jordan_total.**  The model's UNPIVOTED Gauss–Jordan elimination `solve` on an `n × (n+1)` augmented system `[A | b]`
over a field.  Exact hypothesis: every leading principal block of `A` is non-singular (`LeadingNonsing`: a vector supported on
columns `0…k` and annihilated by rows `0…k` is zero — equivalently all leading principal minors ≠ 0; true of every symmetric
positive definite `A`).  Then no step divides by zero (`gj_invariant`), and the returned vector `s` has `n` entries and solves
the system: `Σ_j A[i][j]·s_j = b_i` for every row `i`. -/
theorem gauss_jordan_total (m : List (List α)) (n : Nat) (h : Rect m n (n + 1)) (hL : LeadingNonsing (ent m) n) :
    (∀ c < n, iterE (ent m) c c c ≠ 0) ∧ (solve m n).length = n ∧
      ∀ i < n, ∑ j ∈ Finset.range n, ent m i j * (solve m n).getD j 0 = ent m i n :=
  ⟨(gj_invariant (ent m) n hL n le_rfl).1, solve_correct m n h hL⟩

/-- **polyfit_answers.**  For ANY ordinates on abscissae with at least `deg + 1` distinct values (the property: ≥ 4 distinct
volumes for the cubic) the model of `numpy.polyfit` answers — `AᵀA` is positive definite (`normalAug_leadingNonsing`), the
elimination completes and its result passes the certificate — and the answer is the least-squares polynomial. -/
theorem polyfit_answers (xs ys : List α) (deg : Nat) (hl : xs.length = ys.length) (hdist : deg + 1 ≤ xs.toFinset.card) :
    ∃ p, polyfit xs ys deg = some p ∧ p.length = deg + 1 ∧
      ∀ p' : List α, p'.length ≤ deg + 1 → sqResidual xs ys p ≤ sqResidual xs ys p' := by
  obtain ⟨p, hp⟩ := polyfit_total xs ys deg hl hdist
  exact ⟨p, hp, polyfit_minimises xs ys deg p hp⟩

/-- **cubic_fit_exact** (`lsq_exact_on_cubics` without the assumption that the solver answers): a table that IS a cubic in the
abscissa on ≥ 4 distinct abscissae is fitted — the model answers — and reproduced exactly, everywhere. -/
theorem cubic_fit_exact (a b c d : α) (xs : List α)
    (x0 x1 x2 x3 : α) (m0 : x0 ∈ xs) (m1 : x1 ∈ xs) (m2 : x2 ∈ xs) (m3 : x3 ∈ xs)
    (h01 : x0 ≠ x1) (h02 : x0 ≠ x2) (h03 : x0 ≠ x3) (h12 : x1 ≠ x2) (h13 : x1 ≠ x3) (h23 : x2 ≠ x3) :
    ∃ p, polyfit xs (xs.map fun x => a + b * x + c * x ^ 2 + d * x ^ 3) 3 = some p ∧
      ∀ x, polyval p x = a + b * x + c * x ^ 2 + d * x ^ 3 := by
  have hcard : 3 + 1 ≤ xs.toFinset.card := by
    have hsub : ({x0, x1, x2, x3} : Finset α) ⊆ xs.toFinset := by
      intro y hy
      simp only [Finset.mem_insert, Finset.mem_singleton] at hy
      rcases hy with rfl | rfl | rfl | rfl <;> simpa using ‹_›
    have h4 : ({x0, x1, x2, x3} : Finset α).card = 4 := by
      rw [Finset.card_insert_of_notMem (by simp [h01, h02, h03]), Finset.card_insert_of_notMem (by simp [h12, h13]),
        Finset.card_insert_of_notMem (by simp [h23]), Finset.card_singleton]
    have := Finset.card_le_card hsub
    omega
  obtain ⟨p, hp⟩ := polyfit_total xs (xs.map fun x => a + b * x + c * x ^ 2 + d * x ^ 3) 3 (by simp) hcard
  exact ⟨p, hp, lsq_exact_on_cubics a b c d xs p hp x0 x1 x2 x3 m0 m1 m2 m3 h01 h02 h03 h12 h13 h23⟩

/-- non-vacuity of `gauss_jordan_total` / `polyfit_answers`: the hypotheses on an instance (5 abscissae, all distinct), an
elimination that needs no pivoting although the system is not diagonally dominant, and the need for the hypothesis — a
non-singular system with a zero LEADING entry, on which the unpivoted elimination does not produce the solution (1, 3) -/
example : ([0, 1, 2, 3, 5] : List ℚ).length = ([1, 2, 9, 29, 126] : List ℚ).length ∧
    3 + 1 ≤ ([0, 1, 2, 3, 5] : List ℚ).toFinset.card ∧
    solve ([[1, 2, 5], [3, 4, 11]] : List (List ℚ)) 2 = [1, 2] ∧
    solve ([[0, 1, 3], [2, 1, 5]] : List (List ℚ)) 2 ≠ [1, 3] := by decide +kernel

/-- non-vacuity: an exact run of the model (5 points on x³ + 1) -/
example : polyfit [(0 : ℚ), 1, 2, 3, 5] [1, 2, 9, 28, 126] 3 = some [1, 0, 0, 1] := by decide +kernel

/-- non-vacuity with a genuine residual: the certificate passes on data that are not a cubic -/
example : (polyfit [(0 : ℚ), 1, 2, 3, 5] [1, 2, 9, 29, 126] 3).isSome = true := by decide +kernel

end LeastSquares

section Decomposition
variable {α : Type} [Field α] [BEq α]

/-- Model output = static(key, V) + phonon(key, T, V), at every grid point (t, v): whenever the total is
    produced, the static part and the phonon part are produced and add up entry by entry. -/
theorem c05_decomposition (inp : Inputs α) (ph : Phonon α) (key : String) (m : List (List α))
    (h : modulusTotal inp ph key = some m) :
    ∃ st p, getStaticModulus inp key = some st ∧ phononPart inp ph key = some p ∧ m = addStatic st p ∧
      ∀ (t v : Nat) (row : List α) (sv ptv : α), p[t]? = some row → row[v]? = some ptv → st[v]? = some sv →
        ∃ mrow, m[t]? = some mrow ∧ mrow[v]? = some (sv + ptv) := by
  unfold modulusTotal at h
  simp only [bind, Option.bind_eq_some_iff, pure, Option.some.injEq] at h
  obtain ⟨p, hp, st, hst, rfl⟩ := h
  exact ⟨st, p, hst, hp, rfl, fun t v row sv ptv ht hv hs => addStatic_getElem? st p t v row sv ptv ht hv hs⟩

/-- The phonon part does not depend on the tabulated static values: two data sets with the same volumes,
    grid, strains and lattice block — and *any* two static tables, GPa factors included — get the same axial
    strains and hence the same phonon contribution for every key. -/
theorem c05_phonon_indep_static (i1 i2 : Inputs α) (ph : Phonon α)
    (h1 : i1.strains = i2.strains) (h2 : i1.strainArray = i2.strainArray) (h3 : i1.volumes = i2.volumes)
    (h4 : i1.vArray = i2.vArray) (h5 : i1.lattice = i2.lattice) :
    getAxialStrains i1 = getAxialStrains i2 ∧ ∀ key, phononPart i1 ph key = phononPart i2 ph key := by
  have h := getAxialStrains_congr i1 i2 h1 h2 h3 h4 h5
  refine ⟨h, fun key => ?_⟩
  unfold phononPart
  rw [h]

/-- … consequently total − static is the same for the two tables, entry by entry -/
theorem c05_total_minus_static (inp : Inputs α) (ph : Phonon α) (key : String) (m p : List (List α))
    (st1 : List α) (hm : modulusTotal inp ph key = some m) (hs : getStaticModulus inp key = some st1)
    (hp : phononPart inp ph key = some p) :
    ∀ (t v : Nat) (row : List α) (sv ptv : α), p[t]? = some row → row[v]? = some ptv → st1[v]? = some sv →
      ∃ mrow mv, m[t]? = some mrow ∧ mrow[v]? = some mv ∧ mv - sv = ptv := by
  obtain ⟨st', p', hst', hp', _, hall⟩ := c05_decomposition inp ph key m hm
  rw [hs] at hst'; rw [hp] at hp'
  simp only [Option.some.injEq] at hst' hp'
  subst hst' hp'
  intro t v row sv ptv ht hv hsv
  obtain ⟨mrow, h1, h2⟩ := hall t v row sv ptv ht hv hsv
  exact ⟨mrow, sv + ptv, h1, h2, by ring⟩

/-- The static part does not depend on temperature: at a fixed volume index, total − phonon is the same
    number `static[v]` in every temperature row. -/
theorem c05_static_indep_T (inp : Inputs α) (ph : Phonon α) (key : String) (m : List (List α))
    (h : modulusTotal inp ph key = some m) :
    ∃ st p, getStaticModulus inp key = some st ∧ phononPart inp ph key = some p ∧
      ∀ (t t' v : Nat) (row row' : List α) (sv ptv ptv' : α), p[t]? = some row → p[t']? = some row' →
        row[v]? = some ptv → row'[v]? = some ptv' → st[v]? = some sv →
        ∃ mrow mrow' mv mv', m[t]? = some mrow ∧ m[t']? = some mrow' ∧ mrow[v]? = some mv ∧
          mrow'[v]? = some mv' ∧ mv - ptv = sv ∧ mv' - ptv' = sv := by
  obtain ⟨st, p, hst, hp, _, hall⟩ := c05_decomposition inp ph key m h
  refine ⟨st, p, hst, hp, ?_⟩
  intro t t' v row row' sv ptv ptv' ht ht' hv hv' hs
  obtain ⟨mrow, a1, a2⟩ := hall t v row sv ptv ht hv hs
  obtain ⟨mrow', b1, b2⟩ := hall t' v row' sv ptv' ht' hv' hs
  exact ⟨mrow, mrow', _, _, a1, b1, a2, b2, by ring, by ring⟩

/-- the static part is a function of (key, table, volumes, grid) only: no temperature, no phonon argument -/
example (inp : Inputs α) (ph ph' : Phonon α) (key : String) (m m' : List (List α))
    (h : modulusTotal inp ph key = some m) (h' : modulusTotal inp ph' key = some m') :
    ∃ st p p', m = addStatic st p ∧ m' = addStatic st p' := by
  obtain ⟨st, p, hst, _, hm, _⟩ := c05_decomposition inp ph key m h
  obtain ⟨st', p', hst', _, hm', _⟩ := c05_decomposition inp ph' key m' h'
  rw [hst] at hst'
  simp only [Option.some.injEq] at hst'
  subst hst'
  exact ⟨st, p, p', hm, hm'⟩

end Decomposition

section Strains
variable {α : Type} [Field α] [BEq α]

/-- With a lattice block: every grid point's strain triple is a triple divided by its own sum, hence sums
    to 1 (whenever that sum is not zero — the inputs the property quantifies over: axis lengths that vary
    monotonically with volume). -/
theorem axial_strains_sum_one (inp : Inputs α) (e : List (List α)) (hl : inp.lattice ≠ [])
    (h : getAxialStrains inp = some e) :
    ∀ row ∈ e, ∃ raw : List α, raw.length = 3 ∧ row = normaliseBySum raw ∧ (sumL raw ≠ 0 → sumL row = 1) := by
  intro row hrow
  obtain ⟨raw, h3, hr⟩ := getAxialStrains_rows inp e hl h row hrow
  exact ⟨raw, h3, hr, fun hne => hr ▸ sumL_normaliseBySum raw hne⟩

/-- Without a lattice block `get_axial_strains` returns ones, and the task-parameter code
    (`strain[:, i] / sum(strain, axis=1)`) turns them into equal thirds. -/
theorem axial_strains_default_thirds (inp : Inputs α) (hl : inp.lattice = []) :
    getAxialStrains inp = some (List.replicate inp.vArray.length [1, 1, 1]) ∧
    normaliseBySum [(1 : α), 1, 1] = [1 / 3, 1 / 3, 1 / 3] := by
  constructor
  · unfold getAxialStrains
    simp [hl]
  · simp [normaliseBySum, sumL]
    norm_num

example : normaliseBySum [(2 : ℚ), 3, 5] = [1/5, 3/10, 1/2] := by decide +kernel

end Strains

section Units
variable {α : Type} [Field α]

/-- "converted to atomic units": with the factor `10⁹ / (R∞hc / a₀³)`, a tabulated value `x` (GPa) becomes the
    number `y` with `y · (R∞hc / a₀³) = x · 10⁹` — `y` Ry/bohr³ is the same pressure as `x` GPa in pascal. -/
theorem gpa_factor (ry a0 x : α) (hry : ry ≠ 0) (ha : a0 ≠ 0) :
    fromGpa (gpaInAtomicUnits ry a0) [x] = [x * 10 ^ 9 / (ry / a0 ^ 3)] ∧
    (x * gpaInAtomicUnits ry a0) * (ry / a0 ^ 3) = x * 10 ^ 9 := by
  unfold fromGpa gpaInAtomicUnits
  constructor
  · simp only [List.map_cons, List.map_nil]
    congr 1
    ring
  · field_simp

/-- `static_p_array = − gradient(E) / gradient(V)` has the sign and the quotient of a pressure, ends included:
    for a static energy that is affine in the volume on the fine grid, `E = a − P₀·V`, it returns `P₀` at every
    grid point (interior central differences and both one-sided end differences). -/
theorem c05_static_pressure_affine (a P0 : α) (v gv : List α) (h2 : (1 + 1 : α) ≠ 0)
    (hgv : gradient v = some gv) (hnz : ∀ g ∈ gv, g ≠ 0) :
    (do let ge ← gradient (v.map fun x => a - P0 * x)
        let gv' ← gradient v
        pure (List.zipWith (fun a b => -a / b) ge gv')) = some (gv.map fun _ => P0) := by
  rw [gradient_affine a P0 v gv h2 hgv, hgv]
  simp only [bind, Option.bind_some, pure]
  rw [neg_grad_ratio_affine P0 gv hnz]

example : gradient [(1 : ℚ), 4, 9, 16] = some [3, 4, 6, 7] := by decide +kernel

end Units

/-! #### tie to the source: defaults and bodies re-read from full_modulus.py / calculator.py on this run

The translator compares the bodies of `fit_modulus`, `get_axial_strains`, `get_static_modulus`, `modulus_adiabatic`,
`modulus_isothermal` and the last line of `_calculate_pressure_static` with the canonical text the model implements, and
emits the default orders.  The model's defaults are those numbers. -/

theorem c05_defaults_are_source {α : Type} [Add α] [Sub α] [Mul α] [Div α] [Neg α] [OfNat α 0] [OfNat α 1] [BEq α]
    (inp : FullModulus.Inputs α) (moduli strains energies strainArray vArray : List α) :
    FullModulus.fitModulus inp moduli = FullModulus.fitModulus inp moduli Generated.fitModulusDefaultOrder ∧
    FullModulus.staticPressure strains energies strainArray vArray =
      FullModulus.staticPressure strains energies strainArray vArray Generated.staticPressureDefaultOrder ∧
    Generated.fitModulusDegOffset = 1 ∧ Generated.fullModulusBodiesCanonical = true :=
  ⟨rfl, rfl, rfl, rfl⟩

/-! #### ties shared with other properties

The statement of this property also rests on code whose translation is owned by another property's file; the theorems are restated
here so that this property's obligations are re-checked against those files too (a change there breaks THIS check's proof as well). -/

/-- `cij/core/tasks.py` as translated on this run: a non-shear task is identified by the two strain columns the source names,
task equality is at rounding level (`_STRAIN_RTOL ≤ 1e-9`, `atol = 0`), and `calculate()` feeds a shear task from the isothermal store -/
theorem c05_tasks_are_source {α : Type} [Add α] [Div α] (strain : Cij.Tasks.SField α) (key : Cij.Modulus) :
    (match Generated.makeParamCols with
     | [c0, c1] => Cij.Tasks.create strain key =
        if key.isShear then .shear strain key
        else .nonshear key.calcType (Cij.Tasks.component strain (Cij.Tasks.colOf key c0)) (Cij.Tasks.component strain (Cij.Tasks.colOf key c1))
     | _ => False) ∧
    (0 < Generated.strainRtol.1 ∧ Generated.strainRtol.1 * 1000000000 ≤ Generated.strainRtol.2) ∧
    Generated.tasksWiringCanonical = true :=
  ⟨Cij.Tasks.create_is_source strain key, Cij.Tasks.strain_rtol_tight, rfl⟩

/-- the glue of `cij/core/mode_gamma.py` this property's statement rests on (which member of the returned triple is γ, which
V∂γ/∂V, the signs): every `interpolate_mode_*` function returns `(exp s, −s′, −s″)` as translated on this run -/
theorem c05_mode_glue_is_source : ∀ e ∈ Generated.modeReturnPattern, e.2 = Cij.Interp.canonicalPattern :=
  Cij.Interp.return_pattern_is_source

/-- `qha_adapter.py` as translated on this run: the (T,V) interface hands over qha's (T,V) fields (`heat_capacity = cv_tv_au`,
`pressures = p_tv_au`), the (T,P) interface `volumes = v_tp_bohr3`, `p_array = desired_pressures`; `read_input` passes the file's
fields unchanged; the requested grid is accepted by exactly the guard the model implements -/
theorem c05_qha_adapter_is_source {α : Type} [OfNat α 0] [LT α] [DecidableLT α] (pTvGpa : List (List α)) (desiredGpa : List α) :
    Generated.qhaVolumeBaseAttrs.lookup "heat_capacity" = some "cv_tv_au" ∧
    Generated.qhaVolumeBaseAttrs.lookup "pressures" = some "p_tv_au" ∧
    Generated.qhaPressureBaseAttrs.lookup "volumes" = some "v_tp_bohr3" ∧
    Generated.qhaPressureBaseAttrs.lookup "p_array" = some "desired_pressures" ∧
    Generated.qhaReadInputCanonical = true ∧
    Cij.AdapterGuardSource.evalGuard Generated.pressureGuard pTvGpa desiredGpa = some (Cij.V2P.desiredPressureStatus pTvGpa desiredGpa) :=
  ⟨by decide, by decide, by decide, by decide, rfl, Cij.AdapterGuardSource.desiredPressureStatus_is_source pTvGpa desiredGpa⟩

/-- `cij/io/traditional/elast_dat.py` (+ package glue) as translated on this run: `read_elast_data` and
`apply_symetry_on_elast_data` are the statements the reader model mirrors (rows in file order, lattice block in file order, one frame row
per volume BY NAME `"c%s%s" % key.v`, `fill_cij(df, **symmetry)` with the caller's dictionary untouched, rows written back as fresh
mappings from `c_(key[1:])`), and the package re-exports the readers themselves (no caching wrapper) -/
theorem c05_readers_are_source :
    Generated.Readers.elastDatCanonical = true ∧ Generated.Readers.columnLiterals = ["c", ""] ∧ Generated.Readers.backSlice = 1 ∧
    Generated.Readers.fillPositional = 1 ∧ Generated.Readers.fillKeywords = ["**<symmetry>"] ∧
    Generated.Readers.rowVolumeIndex = 0 ∧ Generated.Readers.rowKeySlice = 1 ∧ Generated.Readers.rowValueSlice = 1 ∧
    ("read_energy", "qha_input", "read_energy") ∈ Generated.Readers.packageImports ∧
    ("read_elast_data", "elast_dat", "read_elast_data") ∈ Generated.Readers.packageImports := by decide

/-- `shear.py` glue as translated on this run: the rotated strain fractions are diag(Tᵀ·diag(s)·T) in the written product order for
every T and s — which strain fraction belongs to which rotated axis is what the source says now — and every def of the file is translated -/
theorem c05_shear_glue_is_source {α : Type} [Add α] [Sub α] [Mul α] [Div α] [NatCast α] (env : Cij.ShearGlue.Env α)
    (T : Cij.Shear.Mat3 α) (s : Cij.Shear.Vec3 α) (hs : env.self "strain" = some (.rows s))
    (hT : env.self "transformation_matrix" = some (.mat T)) :
    Cij.ShearGlue.runSr env [] Generated.ShearGlue.cls.strainRotated.2 = some (.rows (Cij.Shear.strainRotated T s)) ∧
    Generated.ShearGlue.definedFunctions.length = 18 :=
  ⟨Cij.ShearGlue.strainRotated_stmts_is_source env T s hs hT, by decide⟩

end Cij.C05
