/-
  C05 — total modulus = interpolated static table + phonon part, end to end from files.

  The statements are about `CijModel/LeastSq.lean` and `CijModel/FullModulus.lean`, the functions the
  correspondence run (harness/c05.py) executes over `Rat` on the inputs the real `Calculator` gets, here over
  an arbitrary linearly ordered field (ℝ, ℚ).

  Proved:
    * the model's fit is *the* least-squares polynomial (`lsq_minimises`, `polyfit_minimises`) and reproduces
      cubics exactly (`lsq_exact_on_cubics`): "interpolated by a least-squares cubic in Eulerian strain of V·c";
    * the model's solver is total where the property quantifies (`gauss_jordan_total`, `polyfit_answers`, `cubic_fit_exact`):
      the unpivoted Gauss–Jordan elimination never meets a zero pivot on a system whose leading principal blocks are
      non-singular, the normal equations of ≥ deg+1 distinct abscissae are such a system (positive definite), so `polyfit`
      ANSWERS there and its answer is the least-squares polynomial;
    * decomposition total = static(key,V) + phonon(key,T,V) at every grid point (`c05_decomposition`), the phonon
      part is independent of the tabulated static values (`c05_phonon_indep_static`), the static part of T
      (`c05_static_indep_T`);
    * strain fractions: each grid point's triple sums to 1 (`axial_strains_sum_one`), equal thirds without
      lattice block (`axial_strains_default_thirds`);
    * unit conversion (`gpa_factor`);
    * the tie to the source at data level (`c05_glue_…`): every def of `cij/core/full_modulus.py` and
      `Calculator._calculate_pressure_static` is re-translated on every run into statement lists over expression trees
      (`Generated/FullModulusGlue.lean`), and the model functions above (`fitModulus`, `getStaticModulus`, `getAxialStrains`,
      `modulusTotal`, `staticPressure`) ARE the interpretation of those statements for all inputs; the strains of the static fit
      are functions of the static table's own volume column and of the grid only; `fit_modulus` differs from its sibling in
      `cij/cli/static.py` exactly in V·c / degree + 1 / division by V; `_from_gpa` is the helper whose factor is `gpaInAtomicUnits`.
  Outside the theorems (entered as data / tied by the correspondence and the oracle of harness/c05.py):
    qha's fine grid and Eulerian strains, the phonon contribution itself (C01–C04), the optional symmetry
    filling (C08/C09), rounding inside numpy.polyfit.
-/
import CijProofs.Lemmas.FullModulus
import CijProofs.Lemmas.GaussJordan
import Generated.FullModulusSpec
import CijProofs.Lemmas.TasksSource
import CijProofs.Lemmas.ModeGammaSource
import Generated.AdapterSpec
import CijProofs.Lemmas.AdapterGuardSource
import Generated.ReadersSpec
import CijProofs.Lemmas.ShearGlueSource
import CijProofs.Lemmas.FullModulusGlueAxial
import CijProofs.Lemmas.StaticUnits
import Generated.CalcGlueSpec
import CijProofs.Lemmas.FillSource
namespace Cij.C05

open Cij.LeastSq Cij.FullModulus

section LeastSquares
variable {α : Type} [Field α] [LinearOrder α] [IsStrictOrderedRing α]

/-- `Aᵀ(Ax − b) = 0 ⇒ ∀ y, ‖Ax − b‖² ≤ ‖Ay − b‖²` for the polynomial design matrix `A_ij = x_i^j`
    (`x` = coefficients `p`, `b` = `ys`): a coefficient vector that satisfies the normal equations minimises the
    sum of squared residuals among *all* polynomials of degree ≤ deg. -/
theorem lsq_minimises (xs ys : List α) (deg : Nat) (p : List α) (hlen : p.length ≤ deg + 1)
    (hnormal : ∀ j < deg + 1, normalResidual xs ys p j = 0) :
    ∀ p' : List α, p'.length ≤ deg + 1 → sqResidual xs ys p ≤ sqResidual xs ys p' :=
  fun p' hp' => normalEq_minimises xs ys deg p hlen hnormal p' hp'

/-- whatever `polyfit` returns *is* a least-squares polynomial of the requested degree (the model verifies
    the normal equations exactly before answering) -/
theorem polyfit_minimises (xs ys : List α) (deg : Nat) (p : List α) (h : polyfit xs ys deg = some p) :
    p.length = deg + 1 ∧ ∀ p' : List α, p'.length ≤ deg + 1 → sqResidual xs ys p ≤ sqResidual xs ys p' := by
  obtain ⟨_, hlen, hn⟩ := polyfit_spec xs ys deg p h
  exact ⟨hlen, lsq_minimises xs ys deg p (le_of_eq hlen) hn⟩

/-- A table that *is* a cubic in the abscissa (≥ 4 distinct abscissae) is reproduced exactly, everywhere —
    so the "interpolated" static value is the tabulated law, not merely close to it. -/
theorem lsq_exact_on_cubics (a b c d : α) (xs : List α) (p : List α)
    (h : polyfit xs (xs.map fun x => a + b * x + c * x ^ 2 + d * x ^ 3) 3 = some p)
    (x0 x1 x2 x3 : α) (m0 : x0 ∈ xs) (m1 : x1 ∈ xs) (m2 : x2 ∈ xs) (m3 : x3 ∈ xs)
    (h01 : x0 ≠ x1) (h02 : x0 ≠ x2) (h03 : x0 ≠ x3) (h12 : x1 ≠ x2) (h13 : x1 ≠ x3) (h23 : x2 ≠ x3) :
    ∀ x, polyval p x = a + b * x + c * x ^ 2 + d * x ^ 3 := by
  obtain ⟨hlen, hmin⟩ := polyfit_minimises xs _ 3 p h
  set q := fun x => a + b * x + c * x ^ 2 + d * x ^ 3 with hq
  -- the generating cubic has residual 0, so the fit has residual 0
  have hzero : sqResidual xs (xs.map q) [d, c, b, a] = 0 := by
    unfold sqResidual
    rw [sumL_eq_sum, List.zipWith_map_right, List.zipWith_self]
    apply List.sum_eq_zero
    intro y hy
    obtain ⟨x, _, rfl⟩ := List.mem_map.mp hy
    rw [polyval_cubic]; simp [hq]
  have hle := hmin [d, c, b, a] (by simp)
  have hres : sqResidual xs (xs.map q) p = 0 :=
    le_antisymm (hzero ▸ hle) (sqResidual_nonneg _ _ _)
  unfold sqResidual at hres
  rw [sumL_eq_sum, List.zipWith_map_right, List.zipWith_self] at hres
  have hpt : ∀ x ∈ xs, polyval p x - q x = 0 := sum_sq_eq_zero xs (fun x => polyval p x - q x) hres
  -- p − q has degree < 4 and four distinct roots
  have hpoly : IsPolyLT 4 (fun x => polyval p x - polyval [d, c, b, a] x) :=
    ((isPolyLT_polyval p).mono (le_of_eq hlen)).sub ((isPolyLT_polyval [d, c, b, a]).mono (by simp))
  intro x
  have r : ∀ y ∈ xs, (fun x => polyval p x - polyval [d, c, b, a] x) y = 0 := by
    intro y hy; simp only [polyval_cubic]; exact hpt y hy
  have := hpoly.eq_zero_of_four_roots x0 x1 x2 x3 h01 h02 h03 h12 h13 h23 (r x0 m0) (r x1 m1) (r x2 m2) (r x3 m3) x
  simp only [polyval_cubic] at this
  exact sub_eq_zero.mp this

omit [LinearOrder α] [IsStrictOrderedRing α] in
/-- **gauss_jordan_total.**  The model's UNPIVOTED Gauss–Jordan elimination `solve` on an `n × (n+1)` augmented system `[A | b]`
over a field.  Exact hypothesis: every leading principal block of `A` is non-singular (`LeadingNonsing`: a vector supported on
columns `0…k` and annihilated by rows `0…k` is zero — equivalently all leading principal minors ≠ 0; true of every symmetric
positive definite `A`).  Then no step divides by zero (`gj_invariant`), and the returned vector `s` has `n` entries and solves
the system: `Σ_j A[i][j]·s_j = b_i` for every row `i`. -/
theorem gauss_jordan_total (m : List (List α)) (n : Nat) (h : Rect m n (n + 1)) (hL : LeadingNonsing (ent m) n) :
    (∀ c < n, iterE (ent m) c c c ≠ 0) ∧ (solve m n).length = n ∧
      ∀ i < n, ∑ j ∈ Finset.range n, ent m i j * (solve m n).getD j 0 = ent m i n :=
  ⟨(gj_invariant (ent m) n hL n le_rfl).1, solve_correct m n h hL⟩

/-- **polyfit_answers.**  For ANY ordinates on abscissae with at least `deg + 1` distinct values (the property: ≥ 4 distinct
volumes for the cubic) the model of `numpy.polyfit` answers — `AᵀA` is positive definite (`normalAug_leadingNonsing`), the
elimination completes and its result passes the certificate — and the answer is the least-squares polynomial. -/
theorem polyfit_answers (xs ys : List α) (deg : Nat) (hl : xs.length = ys.length) (hdist : deg + 1 ≤ xs.toFinset.card) :
    ∃ p, polyfit xs ys deg = some p ∧ p.length = deg + 1 ∧
      ∀ p' : List α, p'.length ≤ deg + 1 → sqResidual xs ys p ≤ sqResidual xs ys p' := by
  obtain ⟨p, hp⟩ := polyfit_total xs ys deg hl hdist
  exact ⟨p, hp, polyfit_minimises xs ys deg p hp⟩

/-- **cubic_fit_exact** (`lsq_exact_on_cubics` without the assumption that the solver answers): a table that IS a cubic in the
abscissa on ≥ 4 distinct abscissae is fitted — the model answers — and reproduced exactly, everywhere. -/
theorem cubic_fit_exact (a b c d : α) (xs : List α)
    (x0 x1 x2 x3 : α) (m0 : x0 ∈ xs) (m1 : x1 ∈ xs) (m2 : x2 ∈ xs) (m3 : x3 ∈ xs)
    (h01 : x0 ≠ x1) (h02 : x0 ≠ x2) (h03 : x0 ≠ x3) (h12 : x1 ≠ x2) (h13 : x1 ≠ x3) (h23 : x2 ≠ x3) :
    ∃ p, polyfit xs (xs.map fun x => a + b * x + c * x ^ 2 + d * x ^ 3) 3 = some p ∧
      ∀ x, polyval p x = a + b * x + c * x ^ 2 + d * x ^ 3 := by
  have hcard : 3 + 1 ≤ xs.toFinset.card := by
    have hsub : ({x0, x1, x2, x3} : Finset α) ⊆ xs.toFinset := by
      intro y hy
      simp only [Finset.mem_insert, Finset.mem_singleton] at hy
      rcases hy with rfl | rfl | rfl | rfl <;> simpa using ‹_›
    have h4 : ({x0, x1, x2, x3} : Finset α).card = 4 := by
      rw [Finset.card_insert_of_notMem (by simp [h01, h02, h03]), Finset.card_insert_of_notMem (by simp [h12, h13]),
        Finset.card_insert_of_notMem (by simp [h23]), Finset.card_singleton]
    have := Finset.card_le_card hsub
    omega
  obtain ⟨p, hp⟩ := polyfit_total xs (xs.map fun x => a + b * x + c * x ^ 2 + d * x ^ 3) 3 (by simp) hcard
  exact ⟨p, hp, lsq_exact_on_cubics a b c d xs p hp x0 x1 x2 x3 m0 m1 m2 m3 h01 h02 h03 h12 h13 h23⟩

/-- non-vacuity of `gauss_jordan_total` / `polyfit_answers`: the hypotheses on an instance (5 abscissae, all distinct), an
elimination that needs no pivoting although the system is not diagonally dominant, and the need for the hypothesis — a
non-singular system with a zero LEADING entry, on which the unpivoted elimination does not produce the solution (1, 3) -/
example : ([0, 1, 2, 3, 5] : List ℚ).length = ([1, 2, 9, 29, 126] : List ℚ).length ∧
    3 + 1 ≤ ([0, 1, 2, 3, 5] : List ℚ).toFinset.card ∧
    solve ([[1, 2, 5], [3, 4, 11]] : List (List ℚ)) 2 = [1, 2] ∧
    solve ([[0, 1, 3], [2, 1, 5]] : List (List ℚ)) 2 ≠ [1, 3] := by decide +kernel

/-- non-vacuity: an exact run of the model (5 points on x³ + 1) -/
example : polyfit [(0 : ℚ), 1, 2, 3, 5] [1, 2, 9, 28, 126] 3 = some [1, 0, 0, 1] := by decide +kernel

/-- non-vacuity with a genuine residual: the certificate passes on data that are not a cubic -/
example : (polyfit [(0 : ℚ), 1, 2, 3, 5] [1, 2, 9, 29, 126] 3).isSome = true := by decide +kernel

end LeastSquares

section Decomposition
variable {α : Type} [Field α] [BEq α]

/-- Model output = static(key, V) + phonon(key, T, V), at every grid point (t, v): whenever the total is
    produced, the static part and the phonon part are produced and add up entry by entry. -/
theorem c05_decomposition (inp : Inputs α) (ph : Phonon α) (key : String) (m : List (List α))
    (h : modulusTotal inp ph key = some m) :
    ∃ st p, getStaticModulus inp key = some st ∧ phononPart inp ph key = some p ∧ m = addStatic st p ∧
      ∀ (t v : Nat) (row : List α) (sv ptv : α), p[t]? = some row → row[v]? = some ptv → st[v]? = some sv →
        ∃ mrow, m[t]? = some mrow ∧ mrow[v]? = some (sv + ptv) := by
  unfold modulusTotal at h
  simp only [bind, Option.bind_eq_some_iff, pure, Option.some.injEq] at h
  obtain ⟨p, hp, st, hst, rfl⟩ := h
  exact ⟨st, p, hst, hp, rfl, fun t v row sv ptv ht hv hs => addStatic_getElem? st p t v row sv ptv ht hv hs⟩

/-- The phonon part does not depend on the tabulated static values: two data sets with the same volumes,
    grid, strains and lattice block — and *any* two static tables, GPa factors included — get the same axial
    strains and hence the same phonon contribution for every key. -/
theorem c05_phonon_indep_static (i1 i2 : Inputs α) (ph : Phonon α)
    (h1 : i1.strains = i2.strains) (h2 : i1.strainArray = i2.strainArray) (h3 : i1.volumes = i2.volumes)
    (h4 : i1.vArray = i2.vArray) (h5 : i1.lattice = i2.lattice) :
    getAxialStrains i1 = getAxialStrains i2 ∧ ∀ key, phononPart i1 ph key = phononPart i2 ph key := by
  have h := getAxialStrains_congr i1 i2 h1 h2 h3 h4 h5
  refine ⟨h, fun key => ?_⟩
  unfold phononPart
  rw [h]

/-- … consequently total − static is the same for the two tables, entry by entry -/
theorem c05_total_minus_static (inp : Inputs α) (ph : Phonon α) (key : String) (m p : List (List α))
    (st1 : List α) (hm : modulusTotal inp ph key = some m) (hs : getStaticModulus inp key = some st1)
    (hp : phononPart inp ph key = some p) :
    ∀ (t v : Nat) (row : List α) (sv ptv : α), p[t]? = some row → row[v]? = some ptv → st1[v]? = some sv →
      ∃ mrow mv, m[t]? = some mrow ∧ mrow[v]? = some mv ∧ mv - sv = ptv := by
  obtain ⟨st', p', hst', hp', _, hall⟩ := c05_decomposition inp ph key m hm
  rw [hs] at hst'; rw [hp] at hp'
  simp only [Option.some.injEq] at hst' hp'
  subst hst' hp'
  intro t v row sv ptv ht hv hsv
  obtain ⟨mrow, h1, h2⟩ := hall t v row sv ptv ht hv hsv
  exact ⟨mrow, sv + ptv, h1, h2, by ring⟩

/-- The static part does not depend on temperature: at a fixed volume index, total − phonon is the same
    number `static[v]` in every temperature row. -/
theorem c05_static_indep_T (inp : Inputs α) (ph : Phonon α) (key : String) (m : List (List α))
    (h : modulusTotal inp ph key = some m) :
    ∃ st p, getStaticModulus inp key = some st ∧ phononPart inp ph key = some p ∧
      ∀ (t t' v : Nat) (row row' : List α) (sv ptv ptv' : α), p[t]? = some row → p[t']? = some row' →
        row[v]? = some ptv → row'[v]? = some ptv' → st[v]? = some sv →
        ∃ mrow mrow' mv mv', m[t]? = some mrow ∧ m[t']? = some mrow' ∧ mrow[v]? = some mv ∧
          mrow'[v]? = some mv' ∧ mv - ptv = sv ∧ mv' - ptv' = sv := by
  obtain ⟨st, p, hst, hp, _, hall⟩ := c05_decomposition inp ph key m h
  refine ⟨st, p, hst, hp, ?_⟩
  intro t t' v row row' sv ptv ptv' ht ht' hv hv' hs
  obtain ⟨mrow, a1, a2⟩ := hall t v row sv ptv ht hv hs
  obtain ⟨mrow', b1, b2⟩ := hall t' v row' sv ptv' ht' hv' hs
  exact ⟨mrow, mrow', _, _, a1, b1, a2, b2, by ring, by ring⟩

/-- the static part is a function of (key, table, volumes, grid) only: no temperature, no phonon argument -/
example (inp : Inputs α) (ph ph' : Phonon α) (key : String) (m m' : List (List α))
    (h : modulusTotal inp ph key = some m) (h' : modulusTotal inp ph' key = some m') :
    ∃ st p p', m = addStatic st p ∧ m' = addStatic st p' := by
  obtain ⟨st, p, hst, _, hm, _⟩ := c05_decomposition inp ph key m h
  obtain ⟨st', p', hst', _, hm', _⟩ := c05_decomposition inp ph' key m' h'
  rw [hst] at hst'
  simp only [Option.some.injEq] at hst'
  subst hst'
  exact ⟨st, p, p', hm, hm'⟩

end Decomposition

section Strains
variable {α : Type} [Field α] [BEq α]

/-- With a lattice block: every grid point's strain triple is a triple divided by its own sum, hence sums
    to 1 (whenever that sum is not zero — the inputs the property quantifies over: axis lengths that vary
    monotonically with volume). -/
theorem axial_strains_sum_one (inp : Inputs α) (e : List (List α)) (hl : inp.lattice ≠ [])
    (h : getAxialStrains inp = some e) :
    ∀ row ∈ e, ∃ raw : List α, raw.length = 3 ∧ row = normaliseBySum raw ∧ (sumL raw ≠ 0 → sumL row = 1) := by
  intro row hrow
  obtain ⟨raw, h3, hr⟩ := getAxialStrains_rows inp e hl h row hrow
  exact ⟨raw, h3, hr, fun hne => hr ▸ sumL_normaliseBySum raw hne⟩

/-- Without a lattice block `get_axial_strains` returns ones, and the task-parameter code
    (`strain[:, i] / sum(strain, axis=1)`) turns them into equal thirds. -/
theorem axial_strains_default_thirds (inp : Inputs α) (hl : inp.lattice = []) :
    getAxialStrains inp = some (List.replicate inp.vArray.length [1, 1, 1]) ∧
    normaliseBySum [(1 : α), 1, 1] = [1 / 3, 1 / 3, 1 / 3] := by
  constructor
  · unfold getAxialStrains
    simp [hl]
  · simp [normaliseBySum, sumL]
    norm_num

example : normaliseBySum [(2 : ℚ), 3, 5] = [1/5, 3/10, 1/2] := by decide +kernel

end Strains

section Units
variable {α : Type} [Field α]

/-- "converted to atomic units": with the factor `10⁹ / (R∞hc / a₀³)`, a tabulated value `x` (GPa) becomes the
    number `y` with `y · (R∞hc / a₀³) = x · 10⁹` — `y` Ry/bohr³ is the same pressure as `x` GPa in pascal. -/
theorem gpa_factor (ry a0 x : α) (hry : ry ≠ 0) (ha : a0 ≠ 0) :
    fromGpa (gpaInAtomicUnits ry a0) [x] = [x * 10 ^ 9 / (ry / a0 ^ 3)] ∧
    (x * gpaInAtomicUnits ry a0) * (ry / a0 ^ 3) = x * 10 ^ 9 := by
  unfold fromGpa gpaInAtomicUnits
  constructor
  · simp only [List.map_cons, List.map_nil]
    congr 1
    ring
  · field_simp

/-- `static_p_array = − gradient(E) / gradient(V)` has the sign and the quotient of a pressure, ends included:
    for a static energy that is affine in the volume on the fine grid, `E = a − P₀·V`, it returns `P₀` at every
    grid point (interior central differences and both one-sided end differences). -/
theorem c05_static_pressure_affine (a P0 : α) (v gv : List α) (h2 : (1 + 1 : α) ≠ 0)
    (hgv : gradient v = some gv) (hnz : ∀ g ∈ gv, g ≠ 0) :
    (do let ge ← gradient (v.map fun x => a - P0 * x)
        let gv' ← gradient v
        pure (List.zipWith (fun a b => -a / b) ge gv')) = some (gv.map fun _ => P0) := by
  rw [gradient_affine a P0 v gv h2 hgv, hgv]
  simp only [bind, Option.bind_some, pure]
  rw [neg_grad_ratio_affine P0 gv hnz]

example : gradient [(1 : ℚ), 4, 9, 16] = some [3, 4, 6, 7] := by decide +kernel

end Units

/-! #### tie to the source: the defaults re-read from full_modulus.py / calculator.py on this run

`Generated/FullModulusSpec.lean` (now written by tools/gens/fullmodulus_src.py) holds the default orders read off the signatures, the
degree offset read off the translated `numpy.polyfit` call, and a flag saying whether the translated trees are the ones the model was
written against.  The model's defaults are those numbers.  (The trees themselves are consumed by the `c05_glue_…` theorems below.) -/

theorem c05_defaults_are_source {α : Type} [Add α] [Sub α] [Mul α] [Div α] [Neg α] [OfNat α 0] [OfNat α 1] [BEq α]
    (inp : FullModulus.Inputs α) (moduli strains energies strainArray vArray : List α) :
    FullModulus.fitModulus inp moduli = FullModulus.fitModulus inp moduli Generated.fitModulusDefaultOrder ∧
    FullModulus.staticPressure strains energies strainArray vArray =
      FullModulus.staticPressure strains energies strainArray vArray Generated.staticPressureDefaultOrder ∧
    Generated.fitModulusDegOffset = 1 ∧ Generated.fullModulusBodiesCanonical = true :=
  ⟨rfl, rfl, rfl, rfl⟩

/-! #### tie to the source, at data level: `full_modulus.py` translated statement by statement (round 4)

`tools/gens/fullmodulus_src.py` re-translates EVERY def of `cij/core/full_modulus.py` and `Calculator._calculate_pressure_static` into
statement lists over expression trees (`Generated/FullModulusGlue.lean`; nothing is compared as text, locals are renamed canonically).
`CijModel/FullModulusGlue.lean` is a small honest interpreter of those trees (shape-checked numpy arithmetic, class properties,
instance attributes, the life cycle of the task list).  The theorems below say that the hand-written model this file's other theorems
are about IS that interpretation, for every field of scalars and all inputs. -/

section Glue
open Cij.FMGlue Generated.FullModulusGlue
variable {α : Type} [Field α] [BEq α]

/-- every `def` of full_modulus.py is a method of the one class and is translated (none pinned, none skipped); no duplicate; no
class-level statement besides the defs; which are properties / LazyProperties / plain methods -/
theorem c05_glue_is_source_inventory :
    definedFunctions = cls.map (fun m => "FullThermalElasticModulus." ++ m.name) ∧ definedFunctions.Nodup ∧ cls.length = 11 ∧
    classOtherStatements = [] ∧ classBases = [] ∧ moduleClasses = ["FullThermalElasticModulus"] ∧ moduleOtherStatements = [] ∧
    cls.map (fun m => (m.name, m.kind)) =
      [("__init__", "method"), ("modulus_keys", "property"), ("volumes", "property"), ("v_array", "property"),
       ("fit_modulus", "method"), ("get_static_modulus", "method"), ("_get_init_strain", "method"),
       ("get_axial_strains", "method"), ("calculate_phonon_contribution", "method"),
       ("modulus_adiabatic", "LazyProperty"), ("modulus_isothermal", "LazyProperty")] ∧
    pressureStatic.name = "_calculate_pressure_static" ∧ pressureStatic.kind = "method" := by
  decide +kernel

/-- `self.volumes` is the static table's OWN volume column in file order, `self.v_array` the calculator's grid, `self.modulus_keys`
the calculator's key list -/
theorem c05_glue_is_source_accessors (C : Ctx α) (n : Nat) (attrs : Env α) (hw : Wired attrs) :
    callV cls C (n + 1) attrs "volumes" [] = some (.ar (C.calculator.elastData.volumes.map (·.volume))) ∧
    callV cls C (n + 1) attrs "v_array" [] = some (.ar C.calculator.vArray) ∧
    callV cls C (n + 1) attrs "modulus_keys" [] = some (.keys C.calculator.modulusKeys) := by
  unfold callV
  rw [volumes_src C n attrs hw, v_array_src C n attrs hw, modulus_keys_src C n attrs hw]
  exact ⟨rfl, rfl, rfl⟩

/-- **`fit_modulus`**: the translated statements evaluate to the model's `fitModulus` on `inputsOf` — Eulerian strains of the static
table's own volumes and of the grid, both referred to the table's first row; `numpy.polyfit` of `volumes * moduli` with degree
`order + 1`; `numpy.polyval` on the grid strains divided by the grid — for every `moduli` and every `order`, and with the default order of the
source (2: a cubic) when none is given -/
theorem c05_glue_is_source_fit (C : Ctx α) (n : Nat) (attrs : Env α) (hw : Wired attrs) (table : List (String × List α))
    (m : List α) (k : Nat) (hv : vols C ≠ []) (hm : m.length = (vols C).length) :
    callV cls C (n + 2) attrs "fit_modulus" [.ar m, .nat k] = (fitModulus (inputsOf C table) m k).map .ar ∧
    callV cls C (n + 2) attrs "fit_modulus" [.ar m]
      = (fitModulus (inputsOf C table) m Generated.fitModulusDefaultOrder).map .ar ∧
    Generated.fitModulusDefaultOrder + Generated.fitModulusDegOffset = 3 := by
  unfold callV
  rw [fit_src C n attrs hw table m k hv hm, fit_default_src C n attrs hw table m hv hm]
  refine ⟨?_, ?_, by decide⟩
  · cases fitModulus (inputsOf C table) m k <;> rfl
  · have h2 : Generated.fitModulusDefaultOrder = 2 := rfl
    rw [h2]
    cases fitModulus (inputsOf C table) m 2 <;> rfl

/-- **`get_static_modulus(key)`** = the model's `getStaticModulus`: the values of `key` per volume in file order (KeyError when a volume
lacks it), `_from_gpa`, `fit_modulus` with the default order.  `htab`: the table handed to the model holds that column under the key's name. -/
theorem c05_glue_is_source_static (C : Ctx α) (n : Nat) (attrs : Env α) (hw : Wired attrs) (table : List (String × List α))
    (key : Key) (name : String) (htab : table.lookup name = columnOf C key) (hv : vols C ≠ []) :
    callV cls C (n + 3) attrs "get_static_modulus" [.key key] = (getStaticModulus (inputsOf C table) name).map .ar := by
  unfold callV
  rw [static_src C n attrs hw table key hv]
  have : getStaticModulus (inputsOf C table) name
      = (columnOf C key).bind fun col => fitModulus (inputsOf C table) (fromGpa C.gpa col) := by
    unfold getStaticModulus
    simp only [inputsOf, htab]
    rfl
  rw [this]
  cases (columnOf C key).bind fun col => fitModulus (inputsOf C table) (fromGpa C.gpa col) <;> rfl

/-- **the strains of the static fit are functions of the static table's own volume column and of the grid only** — syntactically:
`fit_modulus` reads `self.volumes` and `self.v_array` and nothing else of the object, calls no other method, and calls exactly
`calculate_eulerian_strain` (twice), `numpy.polyfit`, `numpy.polyval`; `self.volumes` is `[v.volume for v in self.elast_data.volumes]`,
`self.v_array` is `self.calculator.v_array`, `self.elast_data` is bound once, in `__init__`, to `self.calculator.elast_data`; no
method of the class reads the phonon file (`qha_input`) or assigns `elast_data` / `calculator` again -/
theorem c05_glue_static_fit_reads_own_volumes :
    m_fit_modulus.selfReads = [["volumes"], ["volumes"], ["volumes"], ["v_array"], ["volumes"], ["v_array"]] ∧
    m_fit_modulus.selfCalls = [] ∧
    m_fit_modulus.libCalls = ["qha.grid_interpolation.calculate_eulerian_strain", "qha.grid_interpolation.calculate_eulerian_strain",
      "numpy.polyfit", "numpy.polyval"] ∧
    m_volumes.body = [.ret (.fn1 "numpy.array" (.compAttr "volume" (.self ["elast_data", "volumes"])))] ∧
    m_v_array.body = [.ret (.self ["calculator", "v_array"])] ∧
    m_init.body = [.setSelf "calculator" (.param "calculator"), .setSelf "elast_data" (.self ["calculator", "elast_data"]),
      .callProc "calculate_phonon_contribution"] ∧
    (cls.all fun m => m.selfReads.all fun p => !p.contains "qha_input") = true ∧
    ((cls.filter fun m => m.name != "__init__").all fun m => m.body.all fun s =>
      match s with
      | .setSelf a _ => a != "elast_data" && a != "calculator"
      | _ => true) = true := by
  decide +kernel

/-- … semantically: two calculators with the same strain function, the same volume column in their static tables and the same grid get
the same static fit for the same ordinates, whatever their PHONON files (volumes, energies), table values, lattice blocks, key lists,
settings and phonon parts are -/
theorem c05_glue_static_fit_indep_of_phonon_file (C C' : Ctx α) (n : Nat) (attrs attrs' : Env α) (hw : Wired attrs) (hw' : Wired attrs')
    (m : List α) (k : Nat) (hs : C.strain = C'.strain) (hvol : vols C = vols C')
    (hgrid : C.calculator.vArray = C'.calculator.vArray) (hv : vols C ≠ []) (hm : m.length = (vols C).length) :
    callV cls C (n + 2) attrs "fit_modulus" [.ar m, .nat k] = callV cls C' (n + 2) attrs' "fit_modulus" [.ar m, .nat k] :=
  fit_reads_only C C' n attrs attrs' hw hw' m k hs hvol hgrid hv hm

/-- **`get_axial_strains()`** = the model's `getAxialStrains`: ones (equal thirds after the normalisation of C04's task parameters)
when there is no lattice block; otherwise per axis `i` the fit of `lattice_params[:, i]`, the edge replication, the centred ratio, and
every grid point's triple divided by its own sum (`keepdims=True`) -/
theorem c05_glue_is_source_axial (C : Ctx α) (n : Nat) (attrs : Env α) (hw : Wired attrs) (table : List (String × List α))
    (hwf : WF C) :
    callV cls C (n + 3) attrs "get_axial_strains" [] = (getAxialStrains (inputsOf C table)).map .mat := by
  unfold callV
  rw [axial_src C n attrs hw table hwf.vols_ne hwf.grid_ne hwf.lattice]
  cases getAxialStrains (inputsOf C table) <;> rfl

/-- **the strain-fraction formula as translated**: one pass of `for i in range(3)` fits column `i` of the lattice block, binds
`tmp = params[[0, *range(len(params)), -1]]` (= `tmpOf`) and writes into column `i` of the strain matrix the list `colF`, whose entries
are: first grid point `(p₁ − p₀)/(p₁ + p₀)`, interior `(p_{k+1} − p_{k−1})/(p_{k+1} + p_{k−1})`, last `(p_{n−1} − p_{n−2})/(p_{n−1} + p_{n−2})` -/
theorem c05_glue_is_source_axial_formula (C : Ctx α) (n : Nat) (attrs : Env α) (hw : Wired attrs) (table : List (String × List α))
    (loc : Env α) (i : Nat) (hi : i < 3) (f : Nat → List α) (hf : ∀ k, (f k).length = 3) (hwf : WF C)
    (hlat : C.calculator.elastData.lattice.length = (vols C).length)
    (hrow : ∀ row ∈ C.calculator.elastData.lattice, row.length = 3)
    (h1 : lookup loc "_l1" = some (.mat C.calculator.elastData.lattice))
    (h2 : lookup loc "_l2" = some (.mat ((List.range C.calculator.vArray.length).map f))) :
    execLs C (Kn C (n + 2)) axBody ⟨attrs, ("_l3", .nat i) :: loc⟩
      = (fitModulus (inputsOf C table) (C.calculator.elastData.lattice.map fun row => nth row i)).map (fun p =>
          ⟨attrs, ("_l2", .mat ((List.range C.calculator.vArray.length).map fun k =>
                      (f k).set i (nth (colF C.calculator.vArray.length p) k)))
                  :: ("_l5", .ar (tmpOf p)) :: ("_l4", .ar p) :: ("_l3", .nat i) :: loc⟩) ∧
    ∀ p : List α, 2 ≤ p.length →
      nth (colF p.length p) 0 = (nth p 1 - nth p 0) / (nth p 1 + nth p 0) ∧
      (∀ k, 0 < k → k + 1 < p.length →
        nth (colF p.length p) k = (nth p (k + 1) - nth p (k - 1)) / (nth p (k + 1) + nth p (k - 1))) ∧
      nth (colF p.length p) (p.length - 1)
        = (nth p (p.length - 1) - nth p (p.length - 2)) / (nth p (p.length - 1) + nth p (p.length - 2)) :=
  ⟨axial_iter C n attrs hw table loc i hi f hf hwf.vols_ne hwf.grid_ne hlat hrow h1 h2, fun p hp => colF_entries p hp⟩

/-- **`__init__` + `calculate_phonon_contribution`** as translated: the logged `_get_init_strain()` is evaluated and dropped; the
strains of `get_axial_strains()` and `self.modulus_keys` go to `resolve` of a fresh `PhononContributionTaskList(self.calculator)`, then
`calculate()`, then the ADIABATIC results are stored under `_adiabatic_phonon_contribution` and the ISOTHERMAL ones under
`_isothermal_phonon_contribution` (`builtAttrs`); any failure on the way is a failure of the construction -/
theorem c05_glue_is_source_wiring (C : Ctx α) (n : Nat) (table : List (String × List α)) (hwf : WF C)
    (hinit : ∃ v, callM cls C (n + 3) baseAttrs "_get_init_strain" [] = some (baseAttrs, v)) :
    construct cls C (n + 5)
      = (getAxialStrains (inputsOf C table)).bind fun e =>
        (results C.phA e C.calculator.modulusKeys).bind fun dA =>
        (results C.phI e C.calculator.modulusKeys).map fun dI => builtAttrs C e dA dI :=
  construct_src C n table hwf hinit

/-- `_get_init_strain()`: equal thirds when the settings have no `init_strain` entry (the schema allows none), the entry divided by
its sum otherwise — and its value goes nowhere but the log line: it is called exactly once in the class, inside a `log` statement -/
theorem c05_glue_is_source_init_strain (C : Ctx α) (n : Nat) (attrs : Env α) (hw : Wired attrs) (hc : HasElastSettings C)
    (h1 : C.calculator.cfgLeaf ["elast", "settings", "init_strain"] = none)
    (h2 : C.calculator.cfgSection ["elast", "settings", "init_strain"] = false) :
    callM cls C (n + 1) attrs "_get_init_strain" [] = some (attrs, .ar [1 / 3, 1 / 3, 1 / 3]) ∧
    (cls.flatMap fun m => m.selfCalls).count "_get_init_strain" = 1 ∧
    m_calculate_phonon_contribution.body.head? = some (.log [.callSelf0 "_get_init_strain"]) :=
  ⟨init_strain_absent_src C n attrs hw hc h1 h2, by decide +kernel, by decide +kernel⟩

/-- **`modulus_adiabatic` / `modulus_isothermal`** on the constructed object = the model's `modulusTotal` per key: a fresh dictionary
holding, for every key of `self.modulus_keys`, `get_static_modulus(key)[nax, :]` + the ADIABATIC (resp. ISOTHERMAL) task-list result of
that key for the axial strains of `get_axial_strains()` — total = static[v] + phonon[t][v].  (`hshape`: the task list returns arrays
with one column per grid volume; `htab`: the model's table holds each requested key's column under its name.) -/
theorem c05_glue_is_source_total (C : Ctx α) (n : Nat) (table : List (String × List α)) (name : Key → String) (phA phI : Phonon α)
    (hA : ∀ e k, C.phA e k = phA e (name k)) (hI : ∀ e k, C.phI e k = phI e (name k))
    (hwf : WF C) (htab : ∀ k ∈ C.calculator.modulusKeys, table.lookup (name k) = columnOf C k)
    (hshape : ∀ e k p, (C.phA e k = some p ∨ C.phI e k = some p) → ∀ row ∈ p, row.length = C.calculator.vArray.length)
    (e : List (List α)) (dA dI : List (Key × List (List α))) (he : getAxialStrains (inputsOf C table) = some e)
    (hdA : results C.phA e C.calculator.modulusKeys = some dA) (hdI : results C.phI e C.calculator.modulusKeys = some dI) :
    callV cls C (n + 4) (builtAttrs C e dA dI) "modulus_adiabatic" []
      = (allSomeL (C.calculator.modulusKeys.map fun k => (modulusTotal (inputsOf C table) phA (name k)).map fun m => (k, m))).map
          (fun l => .dict l.reverse) ∧
    callV cls C (n + 4) (builtAttrs C e dA dI) "modulus_isothermal" []
      = (allSomeL (C.calculator.modulusKeys.map fun k => (modulusTotal (inputsOf C table) phI (name k)).map fun m => (k, m))).map
          (fun l => .dict l.reverse) := by
  have hw := builtAttrs_wired C e dA dI
  obtain ⟨sA, sI⟩ := builtAttrs_stores C e dA dI
  unfold callV
  rw [total_src C n _ hw table hwf.vols_ne "modulus_adiabatic" "_adiabatic_phonon_contribution" m_modulus_adiabatic find_adiabatic rfl
        adiabatic_body isProp_adiabatic_store dA sA,
      total_src C n _ hw table hwf.vols_ne "modulus_isothermal" "_isothermal_phonon_contribution" m_modulus_isothermal find_isothermal rfl
        isothermal_body isProp_isothermal_store dI sI]
  constructor
  · rw [allSomeL_congr (totalEntry C table dA) (fun k => (modulusTotal (inputsOf C table) phA (name k)).map fun m => (k, m))
      C.calculator.modulusKeys (fun k hk => totalEntry_model C table name phA C.phA hA e he dA k
        (results_lookup C.phA e _ dA hdA k hk) (htab k hk) (fun p hp => hshape e k p (Or.inl hp)))]
    cases allSomeL (C.calculator.modulusKeys.map fun k => (modulusTotal (inputsOf C table) phA (name k)).map fun m => (k, m)) <;> rfl
  · rw [allSomeL_congr (totalEntry C table dI) (fun k => (modulusTotal (inputsOf C table) phI (name k)).map fun m => (k, m))
      C.calculator.modulusKeys (fun k hk => totalEntry_model C table name phI C.phI hI e he dI k
        (results_lookup C.phI e _ dI hdI k hk) (htab k hk) (fun p hp => hshape e k p (Or.inr hp)))]
    cases allSomeL (C.calculator.modulusKeys.map fun k => (modulusTotal (inputsOf C table) phI (name k)).map fun m => (k, m)) <;> rfl

/-- **`Calculator._calculate_pressure_static`** as translated = the model's `staticPressure` on the strains of the PHONON file's volumes
and of the grid (both referred to that file's first volume), its static energies, qha's least squares of the given order (default of the
source: 3) and `− numpy.gradient(E) / numpy.gradient(v_array)` stored as `static_p_array` -/
theorem c05_glue_is_source_static_pressure (C : Ctx α) (k : Nat) (hq : qvols C ≠ []) :
    runOnCalc C pressureStatic [.nat k]
      = (staticPressure ((qvols C).map (C.strain (nth (qvols C) 0))) (qenergies C)
            (C.calculator.vArray.map (C.strain (nth (qvols C) 0))) C.calculator.vArray k).map (fun p =>
          ([("static_p_array", .ar p), ("v_array", .ar C.calculator.vArray), ("qha_input", .qha)], .unit)) ∧
    runOnCalc C pressureStatic [] = runOnCalc C pressureStatic [.nat Generated.staticPressureDefaultOrder] :=
  ⟨pressure_src C k hq, pressure_default_src C⟩

/-- non-vacuity of the `c05_glue_…` hypotheses: a concrete calculator over ℚ (5 table rows with a lattice block, 7 grid volumes, a
settings tree without `init_strain`) is well-formed, its base attributes are wired, the logged `_get_init_strain()` evaluates, and the
translated `get_static_modulus` / `get_axial_strains` / construction / totals all ANSWER on it (kernel evaluation of the interpreter) -/
example : WF glueExample ∧ Wired (baseAttrs : Env ℚ) ∧ HasElastSettings glueExample ∧
    (callV cls glueExample 5 baseAttrs "get_static_modulus" [.key (.raw "c11")]).isSome = true ∧
    (callV cls glueExample 5 baseAttrs "get_axial_strains" []).isSome = true ∧
    ((construct cls glueExample 6).bind fun a => callV cls glueExample 5 a "modulus_isothermal" []).isSome = true ∧
    (runOnCalc glueExample pressureStatic []).isSome = true :=
  ⟨⟨by decide +kernel, by decide +kernel, Or.inr ⟨by decide +kernel, by decide +kernel⟩⟩, wired_base,
   ⟨rfl, rfl, rfl, rfl⟩, by decide +kernel, by decide +kernel, by decide +kernel, by decide +kernel⟩

end Glue

/-- **`fit_modulus` of full_modulus.py against its sibling in `cij/cli/static.py`** (both as translated on this run): the two differ
exactly in what they should — here `volumes * c` is fitted instead of `c`, with `numpy.polyfit` of degree `order + 1` instead of qha's
`polynomial_least_square_fitting` of order `order`, and the fit is divided by `v_array`; the Eulerian strains are the same two
expressions of the same two arrays (`self.volumes` ↦ `volumes`, `self.v_array` ↦ `v_array`).  Semantically (any scalars with the
operations) and syntactically (the trees). -/
theorem c05_glue_fit_vs_static_fit {α : Type} [Add α] [Sub α] [Mul α] [Div α] [Neg α] [OfNat α 0] [OfNat α 1] [NatCast α]
    [LE α] [DecidableLE α] [LT α] [DecidableLT α] [BEq α]
    (I : Cij.StaticSrc.Inp α) (hfit : I.fit = polynomialLeastSquareFitting) (v0 : α) (rest vArray m : List α) (k : Nat)
    (tbl : List (String × List α)) (lat : List (List α)) (gpa : α) :
    fitModulus ⟨(v0 :: rest).map (I.E.strain v0), vArray.map (I.E.strain v0), v0 :: rest, vArray, tbl, lat, gpa⟩ m k
      = ((Cij.StaticSrc.callFun I Generated.staticFitModulus
            [.ar (v0 :: rest), .ar vArray, .ar (List.zipWith (fun v c => v * c) (v0 :: rest) m), .nat (k + 1)]).bind
          Cij.StaticSrc.Val.toAr).map (fun r => List.zipWith (fun a b => a / b) r vArray) ∧
    ∃ S SA : Cij.FMGlue.X,
      Cij.FMGlue.inlineRet [] Generated.FullModulusGlue.m_fit_modulus.body
        = some (.div (.fn2 "numpy.polyval" (.fn3 "numpy.polyfit" S (.mul (.self ["volumes"]) (.param "moduli"))
            (.add (.param "order") (.lit 1))) SA) (.self ["v_array"])) ∧
      (do let s ← Cij.FMGlue.toStatic S; let sa ← Cij.FMGlue.toStatic SA
          pure (Cij.StaticSrc.X.lsq s (.loc "moduli") sa (.loc "order"))) = some Generated.staticFitModulus.ret ∧
      S.selfReads = [["volumes"], ["volumes"]] ∧ SA.selfReads = [["volumes"], ["v_array"]] :=
  ⟨Cij.FMGlue.fit_vs_static_fit I hfit v0 rest vArray m k tbl lat gpa, Cij.FMGlue.fit_trees_differ_exactly⟩

/-- **`_from_gpa` as used here**: full_modulus.py imports it from `cij.util`, which re-exports `cij.util.units._from_gpa`; that helper
(translated by static_src.py) converts GPa into rydberg / bohr³, and with the SI values of the three units its factor is the model's
`gpaInAtomicUnits` (the constant of `gpa_factor`) -/
theorem c05_glue_is_source_gpa (base : String → ℝ) (ry a0 : ℝ) (hG : base "GPa" = 10 ^ 9) (hr : base "rydberg" = ry)
    (hb : base "bohr" = a0) :
    Generated.FullModulusGlue.unitReexports.lookup "_from_gpa" = some "cij.util.units._from_gpa" ∧
    Generated.FullModulusGlue.imports.lookup "_from_gpa" = some "cij.util._from_gpa" ∧
    ∃ h, Cij.StaticSrc.unitHelper? "_from_gpa" = some h ∧ h.factor base = Cij.FullModulus.gpaInAtomicUnits ry a0 := by
  refine ⟨by decide +kernel, by decide +kernel,
    ⟨"_from_gpa", .u "GPa", .div (.u "rydberg") (.pow (.u "bohr") 3 1)⟩, by decide +kernel, ?_⟩
  simp only [Cij.StaticSrc.UnitHelper.factor, Cij.StaticSrc.UExpr.val, hG, hr, hb, Cij.FullModulus.gpaInAtomicUnits]
  rw [Nat.cast_one, div_one, Real.rpow_natCast]

/-! #### ties shared with other properties

The statement of this property also rests on code whose translation is owned by another property's file; the theorems are restated
here so that this property's obligations are re-checked against those files too (a change there breaks THIS check's proof as well). -/

/-- `cij/core/tasks.py` as translated on this run: a non-shear task is identified by the two strain columns the source names,
task equality is at rounding level (`_STRAIN_RTOL ≤ 1e-9`, `atol = 0`), and `calculate()` feeds a shear task from the isothermal store -/
theorem c05_tasks_are_source {α : Type} [Add α] [Div α] (strain : Cij.Tasks.SField α) (key : Cij.Modulus) :
    (match Generated.makeParamCols with
     | [c0, c1] => Cij.Tasks.create strain key =
        if key.isShear then .shear strain key
        else .nonshear key.calcType (Cij.Tasks.component strain (Cij.Tasks.colOf key c0)) (Cij.Tasks.component strain (Cij.Tasks.colOf key c1))
     | _ => False) ∧
    (0 < Generated.strainRtol.1 ∧ Generated.strainRtol.1 * 1000000000 ≤ Generated.strainRtol.2) ∧
    Generated.tasksWiringCanonical = true :=
  ⟨Cij.Tasks.create_is_source strain key, Cij.Tasks.strain_rtol_tight, rfl⟩

/-- the glue of `cij/core/mode_gamma.py` this property's statement rests on (which member of the returned triple is γ, which
V∂γ/∂V, the signs): every `interpolate_mode_*` function returns `(exp s, −s′, −s″)` as translated on this run -/
theorem c05_mode_glue_is_source : ∀ e ∈ Generated.modeReturnPattern, e.2 = Cij.Interp.canonicalPattern :=
  Cij.Interp.return_pattern_is_source

/-- `qha_adapter.py` as translated on this run: the (T,V) interface hands over qha's (T,V) fields (`heat_capacity = cv_tv_au`,
`pressures = p_tv_au`), the (T,P) interface `volumes = v_tp_bohr3`, `p_array = desired_pressures`; `read_input` passes the file's
fields unchanged; the requested grid is accepted by exactly the guard the model implements -/
theorem c05_qha_adapter_is_source {α : Type} [OfNat α 0] [LT α] [DecidableLT α] (pTvGpa : List (List α)) (desiredGpa : List α) :
    Generated.qhaVolumeBaseAttrs.lookup "heat_capacity" = some "cv_tv_au" ∧
    Generated.qhaVolumeBaseAttrs.lookup "pressures" = some "p_tv_au" ∧
    Generated.qhaPressureBaseAttrs.lookup "volumes" = some "v_tp_bohr3" ∧
    Generated.qhaPressureBaseAttrs.lookup "p_array" = some "desired_pressures" ∧
    Generated.qhaReadInputCanonical = true ∧
    Cij.AdapterGuardSource.evalGuard Generated.pressureGuard pTvGpa desiredGpa = some (Cij.V2P.desiredPressureStatus pTvGpa desiredGpa) :=
  ⟨by decide, by decide, by decide, by decide, rfl, Cij.AdapterGuardSource.desiredPressureStatus_is_source pTvGpa desiredGpa⟩

/-- `cij/io/traditional/elast_dat.py` (+ package glue) as translated on this run: `read_elast_data` and
`apply_symetry_on_elast_data` are the statements the reader model mirrors (rows in file order, lattice block in file order, one frame row
per volume BY NAME `"c%s%s" % key.v`, `fill_cij(df, **symmetry)` with the caller's dictionary untouched, rows written back as fresh
mappings from `c_(key[1:])`), and the package re-exports the readers themselves (no caching wrapper) -/
theorem c05_readers_are_source :
    Generated.Readers.elastDatCanonical = true ∧ Generated.Readers.columnLiterals = ["c", ""] ∧ Generated.Readers.backSlice = 1 ∧
    Generated.Readers.fillPositional = 1 ∧ Generated.Readers.fillKeywords = ["**<symmetry>"] ∧
    Generated.Readers.rowVolumeIndex = 0 ∧ Generated.Readers.rowKeySlice = 1 ∧ Generated.Readers.rowValueSlice = 1 ∧
    ("read_energy", "qha_input", "read_energy") ∈ Generated.Readers.packageImports ∧
    ("read_elast_data", "elast_dat", "read_elast_data") ∈ Generated.Readers.packageImports := by decide

/-- `shear.py` glue as translated on this run: the rotated strain fractions are diag(Tᵀ·diag(s)·T) in the written product order for
every T and s — which strain fraction belongs to which rotated axis is what the source says now — and every def of the file is translated -/
theorem c05_shear_glue_is_source {α : Type} [Add α] [Sub α] [Mul α] [Div α] [NatCast α] (env : Cij.ShearGlue.Env α)
    (T : Cij.Shear.Mat3 α) (s : Cij.Shear.Vec3 α) (hs : env.self "strain" = some (.rows s))
    (hT : env.self "transformation_matrix" = some (.mat T)) :
    Cij.ShearGlue.runSr env [] Generated.ShearGlue.cls.strainRotated.2 = some (.rows (Cij.Shear.strainRotated T s)) ∧
    Generated.ShearGlue.definedFunctions.length = 18 :=
  ⟨Cij.ShearGlue.strainRotated_stmts_is_source env T s hs hT, by decide⟩

/-- `Calculator.__init__` as translated on this run calls `_calculate_pressure_static()` WITHOUT arguments — so the static pressure that enters
the off-diagonal moduli is the cubic (default order 3, `c05_glue_is_source_static_pressure`) whatever EOS order the qha settings ask for —
after the modes are interpolated and before the moduli are assembled -/
theorem c05_static_pressure_call_is_source :
    ("call", "_calculate_pressure_static", []) ∈ Generated.CalcGlue.initSteps ∧
    (Generated.CalcGlue.initSteps.map (·.2.1)).filter (fun m => m = "_interpolate_modes" ∨ m = "_calculate_pressure_static" ∨ m = "_process_cij") =
      ["_interpolate_modes", "_calculate_pressure_static", "_process_cij"] := by decide

/-- `cij/util/fill.py` as translated on this run: a component is dropped by the DROP tolerance (`drop_atol`, not the residual tolerance) against
the target 0, and the verdict is the model's — so a small but non-vanishing symmetry-allowed component stays in the table the moduli are fitted from -/
theorem c05_fill_drop_is_source : Generated.fillDropAtolParam = .dropAtol ∧ Generated.fillDropTarget = (0, 1) ∧
    Cij.Fill.symbolNames = Generated.fillSymbols :=
  ⟨by decide, by decide, Cij.FillSource.symbols_are_source⟩

end Cij.C05
