/-
  C09 — fill refuses exactly when under-determined or inconsistent; never distorts data.

  All statements are about `CijModel/Fill.lean` (the model of `cij/util/fill.py`, run by the driver over `Rat` on the
  very tables the real code gets) for an arbitrary linearly ordered field `α` (ℚ, ℝ, …); the relation rows are
  `Generated.constraints_*` / `Generated.constraintDens` (re-translated from /repo on every run).
  `hs : solveStage … = some s` says that the model's own least-squares solve passed its exact check; a failure would be
  the separate outcome `Err.solver`, never a wrong table.  Since `lstsq_total` (section "the model's own solver never
  fails", Lemmas/FillTotal.lean) that outcome is PROVED impossible: the system `(AAᵀ)² z = AAᵀ b` always has a solution
  over a linearly ordered field, so `hs` holds for some `s` on every well-shaped input (`solve_stage_total`,
  `fill_never_solver`); `rank_refusal_iff_total`, `triclinic_refusal_iff_total`, `fill_with_decided` are the statements
  without that hypothesis.

  Section "the model is the source" (`fill_model_is_source_*`): the model's parameters ARE what `cij/util/fill.py` and
  `cij/cli/fill.py` say on this run — `Generated/FillSpec.lean` is re-extracted from the source by `tools/gens/fill_src.py`
  (symbol order, defaults, regexes, refusal tests and residual definition as expression trees, lookup test, equation
  rule, stacking order, write-back key, drop rule, command-line wiring, call sites); the semantics of those trees are in
  `Lemmas/FillSource.lean`.  Whatever the two functions contain besides is compared on the normalised ast by the
  translator (a difference is a broken tie naming the statement).

  The model is the code of /repo a4e5038 (residuals always computed; only modulus columns dropped; empty relations
  still go through the rank test; `is_file` lookup): every clause below is a positive statement.
-/
import Mathlib.Analysis.Real.Sqrt
import CijProofs.Lemmas.FillPerm
import CijProofs.Lemmas.FillTotal
import CijProofs.Lemmas.FillSource
set_option linter.unusedSectionVars false
namespace Cij.C09
open Cij Cij.Fill

section field
variable {α : Type} [Field α] [LinearOrder α] [IsStrictOrderedRing α]

/-! #### refusal for rank ⇔ under-determined -/

/-- With `ignore_rank` off, fill refuses for rank **iff** some non-zero tensor `v` satisfies every (homogeneous)
    symmetry relation and vanishes on every supplied component — i.e. iff two relation-compatible tensors agree on
    all supplied components and still differ (`two_tensors_iff_kernel`).  Exact: no numerical rank threshold. -/
theorem rank_refusal_iff {rel : Rows} {sel : List (Option Nat)} {P : Params α} {t : Table α} {s : Solved α}
    (hsel : (selIdxOf sel).isEmpty = false) (hidx : ∀ i ∈ selIdxOf sel, i < nsym)
    (hs : solveStage (stackA (α := α) (selIdxOf sel) rel)
            ((List.range (nRows t)).map fun k => stackB (selColsOf sel t) rel k) = some s) :
    fillWith rel sel P t = .error .refuseRank ↔
      (P.ignoreRank = false ∧ ∃ v : List α, v.length = nsym ∧ (∃ x ∈ v, x ≠ 0) ∧
        (∀ i ∈ selIdxOf sel, v.getD i 0 = 0) ∧ (∀ r ∈ rel, dot (castRow (α := α) r) v = 0)) := by
  rw [fillWith_refuseRank_iff hsel hs]
  simp only [stackA_kernel_iff _ _ hidx]

/-- the indices produced by the column recognition are always in range (so `hidx` above is automatic) -/
theorem recognised_in_range {names : List String} {sel : List (Option Nat)} (h : recognise names = .ok sel) :
    ∀ i ∈ selIdxOf sel, i < nsym := recognise_lt h

/-- two tensors that satisfy the same (inhomogeneous) relations and agree on the supplied components differ by a
    kernel vector of the stacked system, and conversely -/
theorem two_tensors_iff_kernel (sel : List Nat) (rel : Rows) (x0 : List α) (hx0 : x0.length = nsym) :
    (∃ y : List α, y.length = nsym ∧ y ≠ x0 ∧ (∀ i ∈ sel, y.getD i 0 = x0.getD i 0) ∧
        (∀ r ∈ rel, dot (castRow (α := α) r) y = dot (castRow (α := α) r) x0)) ↔
    (∃ v : List α, v.length = nsym ∧ (∃ e ∈ v, e ≠ 0) ∧ (∀ i ∈ sel, v.getD i 0 = 0) ∧
        (∀ r ∈ rel, dot (castRow (α := α) r) v = 0)) := by
  constructor
  · rintro ⟨y, hyl, hne, hsel, hrel⟩
    refine ⟨vsub y x0, by simp [vsub, length_axpy, hyl, hx0], ?_, ?_, ?_⟩
    · by_contra hall
      simp only [not_exists, not_and, not_not] at hall
      apply hne
      apply List.ext_getElem (by rw [hyl, hx0])
      intro i h1 h2
      have hi : i < (vsub y x0).length := by simp [vsub, length_axpy, hyl, hx0]; omega
      have hz := hall _ (List.getElem_mem hi)
      have g := getD_axpy (-1 : α) x0 y i
      rw [← vsub, getD_of_lt _ _ _ hi, hz, getD_of_lt _ _ _ h1, getD_of_lt _ _ _ h2] at g
      linarith
    · intro i hi
      have g := getD_axpy (-1 : α) x0 y i
      rw [← vsub] at g; rw [g, hsel i hi]; ring
    · intro r hr; rw [dot_vsub, hrel r hr]; ring
  · rintro ⟨v, hvl, ⟨e, he, he0⟩, hsel, hrel⟩
    refine ⟨axpy 1 v x0, by simp [length_axpy, hvl, hx0], ?_, ?_, ?_⟩
    · intro heq
      obtain ⟨i, hi, rfl⟩ := List.getElem_of_mem he
      have g := getD_axpy (1 : α) v x0 i
      rw [heq, getD_of_lt _ _ _ hi] at g
      apply he0; linarith
    · intro i hi
      rw [getD_axpy, hsel i hi]; ring
    · intro r hr
      rw [dot_comm, dot_axpy, dot_comm x0, dot_comm v, hrel r hr]; ring

/-! #### acceptance never distorts -/

/-- Whenever a table is accepted with `ignore_residuals` off — determined or under-determined (`ignore_rank`), any
    number of stacked rows — every entry `e` of every residual vector `A x − b` satisfies `e² ≤ residual_atol`.
    By `residual_shape` these entries are exactly: (written value − supplied value) for every supplied
    component at every volume, and the violation of every symmetry relation by the written table. -/
theorem accept_bounds {A : List (List α)} {bs : List (List α)} {s : Solved α} {P : Params α}
    (hs : solveStage A bs = some s) (hv : verdict P s = .ok ()) (hflag : P.ignoreResiduals = false) :
    ∀ p ∈ List.zip bs s.xs, ∀ e ∈ residualVec A p.1 p.2, e * e ≤ P.residualAtol :=
  accept_residual_entries hs hv hflag

/-- the residual vector of the stacked system: supplied-value displacements, then relation violations -/
theorem residual_shape (sel : List Nat) (selCols : List (List α)) (rel : Rows) (k : Nat) (x : List α)
    (hlen : sel.length = selCols.length) (hidx : ∀ i ∈ sel, i < nsym) :
    residualVec (stackA (α := α) sel rel) (stackB selCols rel k) x =
      List.zipWith (fun i c => x.getD i 0 - c.getD k 0) sel selCols ++
      rel.map (fun r => dot (castRow (α := α) r) x - (Int.cast r.rhs : α) / (Int.cast (Int.ofNat r.den) : α)) :=
  Fill.residualVec_stack sel selCols rel k x hlen hidx

/-- Consistent data are not moved at all: if (at a volume row) some tensor `t` reproduces every supplied value and
    satisfies every relation exactly, and the system is determined, the written solution IS `t` — for any number of
    stacked rows (also ≤ 21, where numpy reports no residuals). -/
theorem accept_consistent_exact {A : List (List α)} {bs : List (List α)} {s : Solved α}
    (hs : solveStage A bs = some s) (hfull : s.rankDeficient = false) :
    ∀ p ∈ List.zip bs s.xs, p.1.length = A.length → ∀ t : List α, t.length = nsym →
      (∀ e ∈ residualVec A p.1 t, e = 0) → p.2 = t :=
  solveStage_consistent hs hfull

/-- the written solution is the exact least-squares solution of the stacked system -/
theorem solution_is_least_squares {A : List (List α)} {bs : List (List α)} {s : Solved α}
    (hs : solveStage A bs = some s) :
    ∀ p ∈ List.zip bs s.xs, p.1.length = A.length → ∀ y : List α,
      sumSq (residualVec A p.1 p.2) ≤ sumSq (residualVec A p.1 y) := by
  intro p hp hb y
  exact lstsq_minimizes hb (solveStage_xs hs p hp).1 y

/-! #### the flags -/

/-- the two flags only disable refusals: a table accepted with both flags off is accepted, with the same result,
    under every setting of the flags -/
theorem flags_only_disable {rel : Rows} {sel : List (Option Nat)} (P : Params α) (t out : Table α)
    (h : fillWith rel sel { P with ignoreRank := false, ignoreResiduals := false } t = .ok out) :
    fillWith rel sel P t = .ok out := Fill.flags_only_disable P t out h

theorem ignore_rank_disables_rank_refusal {rel : Rows} {sel : List (Option Nat)} (P : Params α) (t : Table α)
    (h : P.ignoreRank = true) : fillWith rel sel P t ≠ .error .refuseRank := ignoreRank_never_refuseRank P t h

theorem ignore_residuals_disables_residual_refusal {rel : Rows} {sel : List (Option Nat)} (P : Params α)
    (t : Table α) (h : P.ignoreResiduals = true) : fillWith rel sel P t ≠ .error .refuseResidual :=
  ignoreResiduals_never_refuseResidual P t h

/-- the only outcomes of the decision stage are acceptance and the two refusals, rank first -/
theorem decision_outcomes (P : Params α) (s : Solved α) :
    verdict P s = .ok () ∨ verdict P s = .error .refuseRank ∨ verdict P s = .error .refuseResidual :=
  verdict_cases P s

/-- The flags switch off EXACTLY these refusals: once the rank refusal is out of the way (system determined, or
    `ignore_rank` on), the table is refused for residuals iff `ignore_residuals` is off and the sum of squared
    residuals exceeds the tolerance at some volume — also for an under-determined system under `ignore_rank`. -/
theorem residual_refusal_iff (P : Params α) (s : Solved α) (h : s.rankDeficient = false ∨ P.ignoreRank = true) :
    verdict P s = .error .refuseResidual ↔ (P.ignoreResiduals = false ∧ ∃ r ∈ s.ssq, P.residualAtol < r) := by
  rw [verdict_refuseResidual_iff]
  have : ¬(s.rankDeficient = true ∧ P.ignoreRank = false) := by
    rintro ⟨h1, h2⟩; rcases h with h | h <;> simp_all
  simp only [this, not_false_eq_true, true_and, Solved.residuals]
  tauto

/-- … and `ssq` is what it says: the sum of squared residuals of the written solution, per volume row -/
theorem ssq_is_sum_of_squares {A : List (List α)} {bs : List (List α)} {s : Solved α} (hs : solveStage A bs = some s) :
    s.ssq = List.zipWith (fun b x => sumSq (residualVec A b x)) bs s.xs := by
  unfold solveStage at hs
  cases hm : List.mapM (fun b => lstsq nsym A b) bs with
  | none => simp [hm] at hs
  | some xs => simp [hm] at hs; rw [← hs]

/-! #### column order and letter case -/

/-  `Rearranged t t'` (Lemmas/FillPerm.lean): `t'` consists of the columns of `t` in any order, every name possibly
    re-cased (`∃ t'', List.Forall₂ (fun c c' => c.1.toLower = c'.1.toLower ∧ c.2 = c'.2) t t'' ∧ t''.Perm t'`).
    `NoCaseDup t`: no two columns of `t` differ by letter case only.  `hrect`: all columns have `n` rows.
    `huser`: IF the system name means a user-supplied relations file, its rows have at most 21 coefficients (the
    packaged systems have exactly 21: `packaged_coeffs_length`, checked on `Generated.constraintSystems`; sympy's
    `linear_eq_to_matrix` over the 21 symbols cannot produce more).  No hypothesis on the solver: the model's own
    solve is PROVED to succeed for `t'` whenever it does for `t` (`lstsq_perm`), so also the outcome `Err.solver`
    is the same.  Both branches are covered: determined, and rank-deficient under `ignore_rank` (the model's
    `x = Aᵀ z` is the minimum-norm solution whatever solution `z` the elimination picks: `rowspace_normalEq_unique`). -/

/-- **Column order and letter case are irrelevant** (full clause).  There is ONE outcome `r` of the solve and
    decision stages — an error, or the solved tensors `xs`, one per volume row — common to `t` and `t'`, and
    `fill` returns, for either table, that error or

      `existingPart P xs ·  ++  newPart P xs t`

    * `existingPart P xs u = (u.map (updCol xs)).filter (keepCol P)`: the columns of the INPUT table `u`, in the
      input order, each name as spelled in the input; the values of a modulus column replaced by the solved component
      (`updCol`), other columns untouched; negligible modulus columns dropped (`keepCol`);
    * `newPart P xs t`: the components no input column stands for, named in lower case, in the order of the 21
      symbols, negligible ones dropped — literally the same list for `t` and `t'`.

    So the two results have the same status, and when they succeed they differ exactly as the inputs do: the block of
    surviving input columns is rearranged / re-cased in the same way (`Rearranged`), the appended block is identical. -/
theorem column_order_case_irrelevant (env : Env) (sys : String) (P : Params α) (t t' : Table α) (n : Nat)
    (hre : Rearranged t t') (hrect : ∀ c ∈ t, c.2.length = n) (hnd : NoCaseDup t) (hnd' : NoCaseDup t')
    (huser : ∀ rows, env.userFile sys = some rows → ∀ r ∈ rows, r.coeffs.length ≤ nsym) :
    ∃ r : Except Err (List (List α)),
      fill env (some sys) P t = r.map (fun xs => existingPart P xs t ++ newPart P xs t) ∧
      fill env (some sys) P t' = r.map (fun xs => existingPart P xs t' ++ newPart P xs t) ∧
      ∀ xs, Rearranged (existingPart P xs t) (existingPart P xs t') := by
  refine ⟨fillSol env sys P t, ?_, ?_, fun xs => hre.existingPart P xs⟩
  · have hf : finish P t = fun xs => existingPart P xs t ++ newPart P xs t :=
      funext fun xs => finish_closed P xs hnd
    rw [fill_eq_fillSol, hf]
  · have hf : finish P t' = fun xs => existingPart P xs t' ++ newPart P xs t :=
      funext fun xs => by rw [finish_closed P xs hnd', hre.newPart P xs]
    rw [fill_eq_fillSol, ← fillSol_rearranged env sys P hre hrect (resolve_coeffs_length env sys huser), hf]

/-- same status: the same error, or both succeed (`system = None` included) -/
theorem column_order_case_same_status (env : Env) (system : Option String) (P : Params α) (t t' : Table α) (n : Nat)
    (hre : Rearranged t t') (hrect : ∀ c ∈ t, c.2.length = n) (hnd : NoCaseDup t) (hnd' : NoCaseDup t')
    (huser : ∀ sys rows, env.userFile sys = some rows → ∀ r ∈ rows, r.coeffs.length ≤ nsym) :
    (∀ e, fill env system P t = .error e ↔ fill env system P t' = .error e) ∧
    ((∃ out, fill env system P t = .ok out) ↔ (∃ out', fill env system P t' = .ok out')) := by
  cases system with
  | none => exact ⟨fun e => by simp [fill], ⟨fun _ => ⟨t', rfl⟩, fun _ => ⟨t, rfl⟩⟩⟩
  | some sys =>
    obtain ⟨r, h1, h2, _⟩ := column_order_case_irrelevant env sys P t t' n hre hrect hnd hnd' (huser sys)
    rw [h1, h2]
    cases r with
    | error e0 => simp [Except.map]
    | ok xs => simp [Except.map]

/-- … and when they succeed the results are the SAME MAP: as lists, `out'` is `out` rearranged / re-cased exactly as
    the input was; hence every (lower-cased name ↦ value list) pair of one is a pair of the other -/
theorem column_order_case_same_map (env : Env) (system : Option String) (P : Params α) (t t' : Table α) (n : Nat)
    (hre : Rearranged t t') (hrect : ∀ c ∈ t, c.2.length = n) (hnd : NoCaseDup t) (hnd' : NoCaseDup t')
    (huser : ∀ sys rows, env.userFile sys = some rows → ∀ r ∈ rows, r.coeffs.length ≤ nsym)
    (out out' : Table α) (ho : fill env system P t = .ok out) (ho' : fill env system P t' = .ok out') :
    Rearranged out out' ∧
    ∀ (name : String) (vals : List α),
      (∃ c ∈ out, c.1.toLower = name ∧ c.2 = vals) ↔ (∃ c' ∈ out', c'.1.toLower = name ∧ c'.2 = vals) := by
  have key : Rearranged out out' := by
    cases system with
    | none =>
      simp only [fill, Except.ok.injEq] at ho ho'
      rw [← ho, ← ho']; exact hre
    | some sys =>
      obtain ⟨r, h1, h2, h3⟩ := column_order_case_irrelevant env sys P t t' n hre hrect hnd hnd' (huser sys)
      rw [h1] at ho; rw [h2] at ho'
      cases r with
      | error e0 => simp [Except.map] at ho
      | ok xs =>
        simp only [Except.map, Except.ok.injEq] at ho ho'
        rw [← ho, ← ho']
        exact (h3 xs).append_right _
  exact ⟨key, key.mem_iff⟩

/-- pure reordering (no re-casing): the result is a permutation of the result — the surviving input columns are
    permuted as in the input, the appended block stays where it is -/
theorem column_order_irrelevant (env : Env) (sys : String) (P : Params α) (t t' : Table α) (n : Nat)
    (hp : t.Perm t') (hrect : ∀ c ∈ t, c.2.length = n) (hnd : NoCaseDup t)
    (huser : ∀ rows, env.userFile sys = some rows → ∀ r ∈ rows, r.coeffs.length ≤ nsym) :
    ∃ r : Except Err (List (List α)),
      fill env (some sys) P t = r.map (fun xs => existingPart P xs t ++ newPart P xs t) ∧
      fill env (some sys) P t' = r.map (fun xs => existingPart P xs t' ++ newPart P xs t) ∧
      ∀ xs, (existingPart P xs t).Perm (existingPart P xs t') := by
  have hnd' : NoCaseDup t' := fun c hc c' hc' h => hnd c (hp.symm.subset hc) c' (hp.symm.subset hc') h
  obtain ⟨r, h1, h2, _⟩ :=
    column_order_case_irrelevant env sys P t t' n (Rearranged.of_perm hp) hrect hnd hnd' huser
  exact ⟨r, h1, h2, fun xs => (hp.map _).filter _⟩

/-- the documented naming rule and the order of the output: the surviving input columns come first, in input order
    and with the input spelling (their names are a sublist of the input names); every appended column is a symbol,
    spelled in lower case, that no input column stands for -/
theorem output_names_and_order (P : Params α) (xs : List (List α)) (t : Table α) :
    ((existingPart P xs t).map (·.1)).Sublist (t.map (·.1)) ∧
    ∀ e ∈ newPart P xs t, e.1 ∈ symbolNames ∧ e.1.toLower = e.1 ∧ ∀ c ∈ t, c.1.toLower ≠ e.1 := by
  constructor
  · have h1 : (t.map (updCol xs)).map (·.1) = t.map (·.1) := by
      rw [List.map_map]
      apply List.map_congr_left
      intro c _
      simp only [Function.comp, updCol]
      cases symIdx c.1 <;> rfl
    rw [← h1]
    exact (List.filter_sublist).map _
  · intro e he
    unfold newPart at he
    obtain ⟨q, hq, hqe⟩ := List.mem_filterMap.1 (List.mem_filter.1 he).1
    split at hqe
    · simp at hqe
    · rename_i hany
      injection hqe with hqe
      subst hqe
      refine ⟨symPairs_names q hq, symbols_lower q.2 (symPairs_names q hq), ?_⟩
      intro c hc hcq
      exact hany (List.any_eq_true.2 ⟨c, hc, by simp [hcq]⟩)

/-- the order of the equations is irrelevant for the model's least squares — outcome (also its own failure `none`)
    and vector, in the determined AND in the rank-deficient (minimum-norm) branch -/
theorem equation_order_irrelevant {n : Nat} {A A' : List (List α)} {b b' : List α} (hb : b.length = A.length)
    (hb' : b'.length = A'.length) (hp : (List.zip A b).Perm (List.zip A' b')) (hrows : ∀ a ∈ A, a.length ≤ n) :
    lstsq n A b = lstsq n A' b' := lstsq_perm hb hb' hp hrows

/-- (lemmas kept from the partial version) recognition only looks at the lower-cased names … -/
theorem column_case_irrelevant_partial (names names' : List String)
    (h : names.map String.toLower = names'.map String.toLower) : recognise names = recognise names' :=
  recognise_case names names' h

/-- … the rank decision only depends on the SET of stacked rows … -/
theorem column_order_irrelevant_rank_partial {n : Nat} {A A' : List (List α)} (h : ∀ r, r ∈ A ↔ r ∈ A') :
    (kerWitness n A).isSome = (kerWitness n A').isSome := kerWitness_isSome_congr h

/-- … and two checked solutions of a determined system coincide -/
theorem column_order_irrelevant_solution_partial {n : Nat} {A A' : List (List α)} {b b' x x' : List α}
    (hb : b.length = A.length) (hp : (List.zip A b).Perm (List.zip A' b'))
    (hker : kerWitness n A = none) (hx : lstsq n A b = some x) (hx' : lstsq n A' b' = some x') : x = x' :=
  lstsq_perm_invariant hb hp hker (lstsq_some hx).1 (lstsq_some hx').1 (lstsq_some hx).2 (lstsq_some hx').2

/-! #### pass-through and dropping -/

/-- non-modulus columns survive the write-back untouched … -/
theorem passthrough_writeback (t : Table α) (xs : List (List α)) (c : String × List α)
    (hc : c ∈ t) (hne : c.1.toLower ∉ symbolNames) : c ∈ writeAll t xs := writeAll_passthrough t xs c hc hne

/-- … and the drop: the output keeps exactly the written-back columns that are not modulus-like or exceed `drop_atol`
    at some volume -/
theorem drop_iff (P : Params α) (t : Table α) (xs : List (List α)) (c : String × List α) :
    c ∈ finish P t xs ↔
      c ∈ writeAll t xs ∧ (matchesCdd c.1.toLower.toList = false ∨ ∃ x ∈ c.2, P.dropAtol < |x|) :=
  mem_finish_iff P t xs c

/-- non-modulus columns pass through untouched — whatever their values (also all zeros) -/
theorem passthrough (P : Params α) (t : Table α) (xs : List (List α)) (c : String × List α)
    (hc : c ∈ t) (hnm : matchesCdd c.1.toLower.toList = false) : c ∈ finish P t xs := by
  rw [drop_iff]
  refine ⟨writeAll_passthrough t xs c hc ?_, Or.inl hnm⟩
  intro hmem
  have := symbolNames_match _ hmem
  rw [hnm] at this; exact absurd this (by simp)

/-- components below the drop tolerance at all volumes are omitted -/
theorem vanishing_component_omitted (P : Params α) (t : Table α) (xs : List (List α)) (c : String × List α)
    (hm : matchesCdd c.1.toLower.toList = true) (hz : ∀ x ∈ c.2, |x| ≤ P.dropAtol) : c ∉ finish P t xs := by
  intro h
  rcases ((drop_iff P t xs c).mp h).2 with h1 | ⟨x, hx, hlt⟩
  · rw [hm] at h1; exact absurd h1 (by simp)
  · exact absurd (hz x hx) (not_le.mpr hlt)

/-! #### trivial branches -/

theorem system_none_unchanged (env : Env) (P : Params α) (t : Table α) :
    fill env none P t = .ok t := rfl

/-! #### no relations (triclinic) -/

/-- with an empty relations file the stacked system has a kernel iff some of the 21 components is not supplied … -/
theorem triclinic_kernel_iff (sel : List Nat) :
    (∃ v : List α, v.length = nsym ∧ (∃ x ∈ v, x ≠ 0) ∧ ∀ i ∈ sel, v.getD i 0 = 0) ↔ ∃ j, j < nsym ∧ j ∉ sel := by
  constructor
  · rintro ⟨v, hl, ⟨x, hx, hx0⟩, hz⟩
    by_contra hall
    push Not at hall
    obtain ⟨i, hi, rfl⟩ := List.getElem_of_mem hx
    have := hz i (hall i (hl ▸ hi))
    rw [getD_of_lt _ _ _ hi] at this
    exact hx0 this
  · rintro ⟨j, hj, hns⟩
    refine ⟨selectorRow j, length_selectorRow j, ⟨1, ?_, one_ne_zero⟩, ?_⟩
    · have h1 := getD_selectorRow (α := α) j j hj
      have hlt : j < (selectorRow (α := α) j).length := by rw [length_selectorRow]; exact hj
      rw [getD_of_lt _ _ _ hlt, if_pos rfl] at h1
      rw [← h1]; exact List.getElem_mem hlt
    · intro i hi
      by_cases hin : i < nsym
      · rw [getD_selectorRow j i hin, if_neg]; rintro rfl; exact hns hi
      · exact getD_of_ge _ _ _ (by rw [length_selectorRow]; exact Nat.le_of_not_lt hin)

/-- … so triclinic is refused for rank (flag off) iff some of the 21 components is not supplied -/
theorem triclinic_refusal_iff {sel : List (Option Nat)} {P : Params α} {t : Table α} {s : Solved α}
    (hsel : (selIdxOf sel).isEmpty = false) (hidx : ∀ i ∈ selIdxOf sel, i < nsym)
    (hs : solveStage (stackA (α := α) (selIdxOf sel) [])
            ((List.range (nRows t)).map fun k => stackB (selColsOf sel t) [] k) = some s) :
    fillWith [] sel P t = .error .refuseRank ↔ (P.ignoreRank = false ∧ ∃ j, j < nsym ∧ j ∉ selIdxOf sel) := by
  rw [rank_refusal_iff hsel hidx hs, ← triclinic_kernel_iff (α := α)]
  simp

/-- with all 21 components supplied (system determined) the values are returned unchanged: the written solution is
    any tensor `τ` that reproduces the supplied values -/
theorem triclinic_supplied_unchanged {sel : List Nat} {selCols : List (List α)} (hlen : sel.length = selCols.length)
    (hidx : ∀ i ∈ sel, i < nsym) {bs : List (List α)} {s : Solved α}
    (hs : solveStage (stackA (α := α) sel []) bs = some s) (hfull : s.rankDeficient = false)
    (k : Nat) (x τ : List α) (hk : (stackB selCols [] k, x) ∈ List.zip bs s.xs) (hτl : τ.length = nsym)
    (hτ : ∀ e ∈ List.zipWith (fun i c => τ.getD i 0 - c.getD k 0) sel selCols, e = 0) : x = τ := by
  apply solveStage_consistent hs hfull _ hk (by simp [stackA, stackB, hlen]) τ hτl
  rw [residual_shape sel selCols [] k τ hlen hidx]
  simpa using hτ

/-! #### the model's own solver never fails -/

/-- **lstsq_total.**  The model's minimum-norm least squares answers on EVERY well-shaped system — any rank, consistent or
    not: the system `(AAᵀ)² z = AAᵀ b` it hands to its elimination always has a solution over a linearly ordered field
    (`AAᵀ b ∈ range (AAᵀ)(AAᵀ)ᵀ`, Mathlib `Matrix.rank_self_mul_transpose`), the elimination finds one
    (`solveAny_complete`) and `x = Aᵀ z` then passes the exact normal-equation check (`normalEq_of_sys_solved`). -/
theorem lstsq_total {n : Nat} {A : List (List α)} {b : List α} (hrows : ∀ r ∈ A, r.length = n)
    (hb : A.length = b.length) : ∃ x, lstsq n A b = some x :=
  Fill.lstsq_total hrows hb

/-- … hence the solve stage always reaches the decision stage: rows of at most 21 entries, right-hand sides as long as
    the matrix has rows -/
theorem solve_stage_total {A bs : List (List α)} (hrows : ∀ a ∈ A, a.length ≤ nsym)
    (hbs : ∀ b ∈ bs, b.length = A.length) : ∃ s, solveStage A bs = some s :=
  solveStage_total hrows hbs

/-- the order of the equations is irrelevant AND both presentations are answered, with the same vector -/
theorem equation_order_irrelevant_total {n : Nat} {A A' : List (List α)} {b b' : List α} (hb : b.length = A.length)
    (hb' : b'.length = A'.length) (hp : (List.zip A b).Perm (List.zip A' b')) (hrows : ∀ a ∈ A, a.length ≤ n) :
    ∃ x, lstsq n A b = some x ∧ lstsq n A' b' = some x := by
  obtain ⟨x, hx⟩ := lstsq_total' hrows hb
  exact ⟨x, hx, (lstsq_perm hb hb' hp hrows) ▸ hx⟩

/-- **fill_never_solver.**  `Err.solver` is not an outcome of `fill`: for every table, system name, flag setting and
    environment (a user-supplied relations file having at most 21 coefficients per row, as `linear_eq_to_matrix` over the
    21 symbols produces) the result is a table or one of the Python-visible outcomes (ValueError, FileNotFoundError,
    IndexError, LinAlgError, the two refusals). -/
theorem fill_never_solver (env : Env) (system : Option String) (P : Params α) (t : Table α)
    (huser : ∀ sys rows, env.userFile sys = some rows → ∀ r ∈ rows, r.coeffs.length ≤ nsym) :
    fill env system P t ≠ .error .solver :=
  fill_ne_solver env system P t huser

/-- **fill_with_decided.**  With at least one recognised modulus column the result of `fillWith` IS the decision on a
    solved record — there is no third case: `∃ s` with the solve stage returning `s` and the outcome being the verdict's
    refusal or the written-back table.  (`s` is what `accept_bounds`, `accept_consistent_exact`,
    `solution_is_least_squares`, `residual_refusal_iff`, `ssq_is_sum_of_squares` speak about.) -/
theorem fill_with_decided {rel : Rows} {sel : List (Option Nat)} (P : Params α) (t : Table α)
    (hsel : (selIdxOf sel).isEmpty = false) (hrel : ∀ r ∈ rel, r.coeffs.length ≤ nsym) (hlen : sel.length ≤ t.length) :
    ∃ s, solveStage (stackA (α := α) (selIdxOf sel) rel)
          ((List.range (nRows t)).map fun k => stackB (selColsOf sel t) rel k) = some s ∧
      fillWith rel sel P t = match verdict P s with
        | .error e => .error e
        | .ok () => .ok (finish P t s.xs) := by
  obtain ⟨s, hs⟩ := solveStage_stack_total rel sel t hrel hlen
  exact ⟨s, hs, fillWith_of_solved hsel hs⟩

/-- `rank_refusal_iff` without the hypothesis that the solve answered -/
theorem rank_refusal_iff_total {rel : Rows} {sel : List (Option Nat)} {P : Params α} {t : Table α}
    (hsel : (selIdxOf sel).isEmpty = false) (hidx : ∀ i ∈ selIdxOf sel, i < nsym)
    (hrel : ∀ r ∈ rel, r.coeffs.length ≤ nsym) (hlen : sel.length ≤ t.length) :
    fillWith rel sel P t = .error .refuseRank ↔
      (P.ignoreRank = false ∧ ∃ v : List α, v.length = nsym ∧ (∃ x ∈ v, x ≠ 0) ∧
        (∀ i ∈ selIdxOf sel, v.getD i 0 = 0) ∧ (∀ r ∈ rel, dot (castRow (α := α) r) v = 0)) := by
  obtain ⟨s, hs⟩ := solveStage_stack_total rel sel t hrel hlen
  exact rank_refusal_iff hsel hidx hs

/-- the whole call, packaged system or user file: once the columns are recognised (`sel`) and the relations found
    (`rel`), `fill` refuses for rank iff the flag is off and a non-zero relation-compatible tensor vanishes on all
    supplied components — no side condition on the solver, none on the shape (the recognition produces one selector per
    column, indices in range) -/
theorem fill_rank_refusal_iff (env : Env) (sys : String) (P : Params α) (t : Table α) (sel : List (Option Nat))
    (rel : Rows) (hrec : recognise (t.map (·.1)) = .ok sel) (hres : resolve env sys = .ok rel)
    (hsel : (selIdxOf sel).isEmpty = false)
    (huser : ∀ rows, env.userFile sys = some rows → ∀ r ∈ rows, r.coeffs.length ≤ nsym) :
    fill env (some sys) P t = .error .refuseRank ↔
      (P.ignoreRank = false ∧ ∃ v : List α, v.length = nsym ∧ (∃ x ∈ v, x ≠ 0) ∧
        (∀ i ∈ selIdxOf sel, v.getD i 0 = 0) ∧ (∀ r ∈ rel, dot (castRow (α := α) r) v = 0)) := by
  have hfill : fill env (some sys) P t = fillWith rel sel P t := by simp only [fill, hrec, hres]
  rw [hfill]
  exact rank_refusal_iff_total hsel (recognise_lt hrec) (resolve_coeffs_length env sys huser rel hres)
    (le_of_eq (by rw [recognise_length hrec]; simp))

/-- `triclinic_refusal_iff` without the hypothesis that the solve answered -/
theorem triclinic_refusal_iff_total {sel : List (Option Nat)} {P : Params α} {t : Table α}
    (hsel : (selIdxOf sel).isEmpty = false) (hidx : ∀ i ∈ selIdxOf sel, i < nsym) (hlen : sel.length ≤ t.length) :
    fillWith [] sel P t = .error .refuseRank ↔ (P.ignoreRank = false ∧ ∃ j, j < nsym ∧ j ∉ selIdxOf sel) := by
  obtain ⟨s, hs⟩ := solveStage_stack_total (α := α) [] sel t (by simp) hlen
  exact triclinic_refusal_iff hsel hidx hs

/-! #### lookup of the relations -/

/-- the outcome does not depend on what `Path(system).exists()` says: a directory named like the crystal system in
    the working directory is irrelevant (only `is_file` is consulted) … -/
theorem lookup_cwd_irrelevant (pe pe' : String → Bool) (uf : String → Option Rows) (system : Option String)
    (P : Params α) (t : Table α) :
    fill ⟨pe, uf⟩ system P t = fill ⟨pe', uf⟩ system P t := by
  cases system <;> rfl

/-- … a path to a relations file given in place of a system name is used as the relations … -/
theorem user_file_used (env : Env) (sys : String) (rows : Rows) (e : Err) (hp : packaged sys = .error e)
    (h : env.userFile sys = some rows) (P : Params α) (t : Table α) :
    fill env (some sys) P t =
      match recognise (t.map (·.1)) with
      | .error e => .error e
      | .ok sel => fillWith rows sel P t := by
  simp only [fill, resolve_user_file env sys rows e hp h]
  cases recognise (t.map (·.1)) <;> rfl

/-- … and for a PACKAGED system name nothing in the working directory matters at all — neither `Path.exists` nor a
regular file of that name (fix 6f0d09b; the C14 finding `cwd:regular-file-named-like-system`) -/
theorem lookup_env_irrelevant_packaged (env env' : Env) (sys : String) (rows : Rows) (hp : packaged sys = .ok rows)
    (P : Params α) (t : Table α) : fill env (some sys) P t = fill env' (some sys) P t := by
  simp only [fill, resolve_packaged env sys rows hp, resolve_packaged env' sys rows hp]

/-- … and a user-written file equivalent to the packaged one gives the same outcome as the system name -/
theorem user_file_equivalent (pe pe' : String → Bool) (uf : String → Option Rows) (name path : String) (rows : Rows)
    (e : Err) (hpath : packaged path = .error e) (hpk : packaged name = .ok rows) (hfile : uf path = some rows)
    (P : Params α) (t : Table α) :
    fill ⟨pe, uf⟩ (some path) P t = fill ⟨pe', uf⟩ (some name) P t := by
  simp only [fill, resolve_user_file ⟨pe, uf⟩ path rows e hpath hfile, resolve_packaged ⟨pe', uf⟩ name rows hpk]

end field

/-! #### over ℝ: the √ form of the acceptance bound -/

/-- every supplied value moves, and every relation is violated, by at most `√residual_atol` -/
theorem accept_bounds_sqrt {A : List (List ℝ)} {bs : List (List ℝ)} {s : Solved ℝ} {P : Params ℝ}
    (hs : solveStage A bs = some s) (hv : verdict P s = .ok ()) (hflag : P.ignoreResiduals = false) :
    ∀ p ∈ List.zip bs s.xs, ∀ e ∈ residualVec A p.1 p.2, |e| ≤ Real.sqrt P.residualAtol := by
  intro p hp e he
  have h := accept_bounds hs hv hflag p hp e he
  exact Real.abs_le_sqrt (by rw [sq]; exact h)

/-! #### non-vacuity: concrete instances, evaluated by the kernel over ℚ on the relations of THIS run -/

def env0 : Env := ⟨fun _ => false, fun _ => none⟩
def P0 (ir ik : Bool) : Params Rat := ⟨ir, ik, mkRat 1 100000000, mkRat 1 10⟩
def outcome (r : Except Err (Table Rat)) : String :=
  match r with
  | .ok t => "ok:" ++ String.intercalate "," (t.map fun c => c.1 ++ "=" ++ toString (c.2.headD 0))
  | .error .valueError => "ValueError"
  | .error .fileNotFound => "FileNotFoundError" | .error .indexError => "IndexError"
  | .error .linAlgError => "LinAlgError"
  | .error .refuseRank => "refuse:rank" | .error .refuseResidual => "refuse:residual" | .error .solver => "solver"

/-- a determined consistent cubic table is filled with the right values, vanishing components omitted -/
example : outcome (fill env0 (some "cubic") (P0 false false)
      [("V", [100]), ("c11", [300]), ("c12", [100]), ("c44", [80])])
    = "ok:V=100,c11=300,c12=100,c44=80,c13=100,c22=300,c23=100,c33=300,c55=80,c66=80" := by decide +kernel

/-- under-determined (c44 class missing): refused for rank; with `ignore_rank` a CONTRADICTORY table (c11 ≠ c22) is
    still refused — for residuals — while a consistent one is completed as far as it is determined -/
example : outcome (fill env0 (some "cubic") (P0 false false)
      [("c11", [300]), ("c22", [400]), ("c12", [100])]) = "refuse:rank" := by decide +kernel

example : outcome (fill env0 (some "cubic") (P0 false true)
      [("c11", [300]), ("c22", [400]), ("c12", [100])]) = "refuse:residual" := by decide +kernel

example : outcome (fill env0 (some "cubic") (P0 false true)
      [("c11", [300]), ("c22", [300]), ("c12", [100])])
      = "ok:c11=300,c22=300,c12=100,c13=100,c23=100,c33=300" := by decide +kernel

/-- triclinic with one component: refused for rank; a non-modulus zero column passes through under `ignore_rank` -/
example : outcome (fill env0 (some "triclinic") (P0 false false) [("c11", [300])]) = "refuse:rank" ∧
    outcome (fill env0 (some "triclinic") (P0 false true) [("c11", [300]), ("P", [0])]) = "ok:c11=300,P=0" := by
  decide +kernel

/-- determined but contradictory: refused for residuals unless `ignore_residuals` -/
example : outcome (fill env0 (some "cubic") (P0 false false)
      [("c11", [300]), ("C22", [305]), ("c12", [100]), ("c44", [80])]) = "refuse:residual" := by
  decide +kernel

example : outcome (fill env0 (some "cubic") (P0 false false) [("c21", [1]), ("c11", [300])])
    = "ValueError" := by decide +kernel

/-- `lstsq_total` on a rank-deficient AND inconsistent system (rows 1, 2 equal with different right-hand sides, row 3
    zero with a non-zero right-hand side): the model answers with the minimum-norm least-squares solution -/
example : kerWitness 2 ([[1, 1], [1, 1], [0, 0]] : List (List Rat)) = some [-1, 1] ∧
    lstsq 2 ([[1, 1], [1, 1], [0, 0]] : List (List Rat)) [1, 3, 5] = some [1, 1] := by decide +kernel

/-! non-vacuity of the column-order / letter-case clause: a rectangular two-volume table, the same columns in another
    order with two names re-cased; determined (both flags off) and rank-deficient (`ignore_rank`) -/

def tA : Table Rat := [("V", [100, 90]), ("c11", [300, 310]), ("c12", [100, 105]), ("c44", [80, 82])]
def tB : Table Rat := [("C44", [80, 82]), ("V", [100, 90]), ("c11", [300, 310]), ("C12", [100, 105])]

theorem tA_tB_rearranged : Rearranged tA tB :=
  ⟨[("V", [100, 90]), ("c11", [300, 310]), ("C12", [100, 105]), ("C44", [80, 82])],
    by unfold Recased SameCol tA; decide +kernel, by decide +kernel⟩

theorem tA_tB_hyps : NoCaseDup tA ∧ NoCaseDup tB ∧ ∀ c ∈ tA, c.2.length = 2 := by
  unfold NoCaseDup; decide +kernel

/-- the hypotheses of `column_order_case_irrelevant` are satisfiable: the theorem applied to `tA`, `tB` -/
example : ∃ r : Except Err (List (List Rat)),
    fill env0 (some "cubic") (P0 false false) tA =
      r.map (fun xs => existingPart (P0 false false) xs tA ++ newPart (P0 false false) xs tA) ∧
    fill env0 (some "cubic") (P0 false false) tB =
      r.map (fun xs => existingPart (P0 false false) xs tB ++ newPart (P0 false false) xs tA) ∧
    ∀ xs, Rearranged (existingPart (P0 false false) xs tA) (existingPart (P0 false false) xs tB) :=
  column_order_case_irrelevant env0 "cubic" (P0 false false) tA tB 2 tA_tB_rearranged tA_tB_hyps.2.2
    tA_tB_hyps.1 tA_tB_hyps.2.1 (fun rows h => by simp [env0] at h)

/-- … evaluated: the table of the first example above (`V, c11, c12, c44`, determined) with the columns in another
    order and two names re-cased — same values per (lower-cased) name, input spelling kept, the surviving input columns
    in the input order, the appended lower-case block identical -/
example : outcome (fill env0 (some "cubic") (P0 false false)
      [("C44", [80]), ("V", [100]), ("c11", [300]), ("C12", [100])])
    = "ok:C44=80,V=100,c11=300,C12=100,c13=100,c22=300,c23=100,c33=300,c55=80,c66=80" := by decide +kernel

/-- rank-deficient branch (`ignore_rank`, minimum-norm solution; compare the fourth example above): also independent
    of order and case -/
example : outcome (fill env0 (some "cubic") (P0 false true) [("C12", [100]), ("c22", [300]), ("C11", [300])])
    = "ok:C12=100,c22=300,C11=300,c13=100,c23=100,c33=300" := by decide +kernel

/-! #### the model is the source (`Generated/FillSpec.lean`, re-extracted from fill.py / cli/fill.py on every run) -/

section source
variable {α : Type} [Field α] [LinearOrder α] [IsStrictOrderedRing α]
open Cij.FillSource Generated

/-- **symbol order.**  The model's 21 symbols are the list obtained by evaluating the source's
    `itertools.product(range(1,7), range(1,7)) if i <= j` comprehension, in that order; it is the order of the canonical
    keys of the Voigt model (C10) and of `Generated.symbolPairs`, in which the Laue model (C08) and the translated
    relation rows list the components. -/
theorem fill_model_is_source_symbols :
    symbolNames = Generated.fillSymbols ∧ nsym = Generated.fillSymbols.length ∧
    Generated.fillSymbols = Cij.keys21.map (fun p => s!"c{p.1}{p.2}") ∧
    Generated.fillSymbols = Generated.symbolPairs.map (fun p => s!"c{p.1}{p.2}") :=
  ⟨symbols_are_source, nsym_is_source, symbols_are_keys21, symbols_are_symbolPairs⟩

/-- **refusals.**  The model's decision stage IS the semantics of the two `if …: raise Warning(…)` tests as they stand
    in the source (`rank < nsym and not ignore_rank`, then `numpy.any(residuals > residual_atol) and not ignore_residuals`):
    operators, operands, the flag each test consults and their order are extracted as trees; evaluated on the model's
    quantities they give the model's verdict — for every parameter setting, every solved record, and every value `rank`
    that is `< nsym` exactly when the stacked matrix has a kernel.  (Swapping the flags, comparing with `≥`, testing a
    mean or a sum of the residuals, or exchanging the two tests changes the tree and this statement fails.) -/
theorem fill_model_is_source_refusals (P : Params α) (s : Solved α) (rank : Nat)
    (hrank : rank < nsym ↔ s.rankDeficient = true) :
    evalRefusals (refusalEnv P s rank) Generated.fillRefusals = some (verdict P s) :=
  verdict_is_source P s rank hrank

/-- … in the form of the two refusal conditions: rank refusal ⇔ the first extracted test evaluates to true; residual
    refusal ⇔ the first is false and the second true -/
theorem fill_model_is_source_refusal_iff (P : Params α) (s : Solved α) (rank : Nat)
    (hrank : rank < nsym ↔ s.rankDeficient = true) :
    ∃ t0 t1 m0 m1, Generated.fillRefusals = [(t0, m0), (t1, m1)] ∧
      (verdict P s = .error .refuseRank ↔ evalBool (refusalEnv P s rank) t0 = some true) ∧
      (verdict P s = .error .refuseResidual ↔
        evalBool (refusalEnv P s rank) t0 = some false ∧ evalBool (refusalEnv P s rank) t1 = some true) := by
  refine ⟨_, _, _, _, rfl, ?_, ?_⟩
  · rw [verdict_refuseRank_iff]
    have hc : ((rank : α) < (nsym : α)) ↔ s.rankDeficient = true := by rw [Nat.cast_lt]; exact hrank
    simp only [evalBool, evalAtom, refusalEnv, evalCmp, bind, Option.bind, pure, Option.map]
    cases hk : P.ignoreRank <;> simp [hc]
  · rw [verdict_refuseResidual_iff]
    have hc : ((rank : α) < (nsym : α)) ↔ s.rankDeficient = true := by rw [Nat.cast_lt]; exact hrank
    simp only [evalBool, evalAtom, refusalEnv, evalCmp, bind, Option.bind, pure, Option.map, Solved.residuals]
    cases hk : P.ignoreRank <;> cases hr : P.ignoreResiduals <;> cases hd : s.rankDeficient <;> simp [hc, hd]

/-- **residuals.**  What the second test compares with `residual_atol` is the source's
    `numpy.sum((a @ x - b) ** 2, axis=0)`: the extracted array expression, evaluated for a volume column, is the model's
    `Σ (a·x − b)²`; and that is what the solve stage records per volume. -/
theorem fill_model_is_source_residuals {A : List (List α)} {bs : List (List α)} {s : Solved α}
    (hs : solveStage A bs = some s) :
    s.residuals = List.zipWith (fun b x => sumSq (residualVec A b x)) bs s.xs ∧
    ∀ b x : List α, evalArr (residualEnv A b x) Generated.fillResidualExpr = some (.scalar (sumSq (residualVec A b x))) :=
  ⟨ssq_is_sum_of_squares hs, fun b x => residual_is_source A b x⟩

/-- **lookup precedence.**  The relations come from the user's path exactly when the source's test
    (`(Path(system).name != system or not Path(packaged).is_file()) and Path(system).is_file()`, extracted as a tree) holds:
    a string with a directory part that names an existing file is that file; a bare name means the packaged file of that
    name, and the user's file only when no packaged file of that name exists; `Path(system).exists()` is not consulted.
    The probe `Path(packaged).is_file()` has its file-system meaning (`constraints/./cubic` IS `constraints/cubic`,
    `Lemmas/FillSource.lean: packagedProbe`): the test as it stood before the fix of the `./cubic` finding
    (`not Path(packaged).is_file() and Path(system).is_file()`) does not satisfy this statement. -/
theorem fill_model_is_source_lookup (env : Env) (sys : String) :
    ∃ useUser, evalBool (lookupEnv (α := α) env sys) Generated.fillLookupTest = some useUser ∧
      resolve env sys =
        if useUser then (match env.userFile sys with | some rows => .ok rows | none => .error .fileNotFound)
        else packaged sys :=
  resolve_is_source env sys

/-- **the repaired behaviour, outright.**  (i) A string WITH a directory part (`./cubic`, `sub/cubic`, `/abs/cubic`) that names
    an existing relations file is used as the relations, whatever its base name — also when the base name is a packaged
    crystal system.  (ii) A packaged system name has NO directory part, and for it nothing in the working directory is
    consulted: two arbitrary environments give the same outcome. -/
theorem path_with_directory_part_is_used (env : Env) (sys : String) (rows : Rows)
    (hd : FillSource.hasDirPart sys = true) (h : env.userFile sys = some rows) (P : Params α) (t : Table α) :
    resolve env sys = .ok rows ∧
    fill env (some sys) P t =
      match recognise (t.map (·.1)) with
      | .error e => .error e
      | .ok sel => fillWith rows sel P t := by
  have hr := FillSource.dir_path_is_used env sys rows hd h
  refine ⟨hr, ?_⟩
  simp only [fill, hr]
  cases recognise (t.map (·.1)) <;> rfl

theorem bare_packaged_name_ignores_cwd (sys : String) (rows : Rows) (hp : packaged sys = .ok rows) :
    FillSource.hasDirPart sys = false ∧
    ∀ (env env' : Env) (P : Params α) (t : Table α), fill env (some sys) P t = fill env' (some sys) P t :=
  ⟨FillSource.packaged_ok_bare hp, fun env env' P t => lookup_env_irrelevant_packaged env env' sys rows hp P t⟩

/-- **equations.**  (i) For every packaged system the relation rows of the model are, as the rational rows handed to the
    least squares and in order, what the source's rule (`parts = line.split("=")`, a row `parts[0] - part` for every
    `part in parts[1:]`; separator, indices and sign extracted) makes of the file's lines part by part;
    (ii) the stacked system is `[supplied rows; relation rows]` in the order of the tuples the source hands to
    `numpy.concatenate`, for the matrix and for the right-hand sides, the relations' constants being the same at every
    volume; (iii) a selector row is zero except for the extracted value (1) at the symbol's index. -/
theorem fill_model_is_source_equations (sel : List Nat) (selCols : List (List α)) (rel : Rows) (k : Nat) :
    (Generated.fillLineParts.map (·.1) = Generated.constraintSystems.map (·.1) ∧
      ∀ e ∈ Generated.fillLineParts,
        (match packaged e.1 with
          | .ok rows => rows.map ratRow
          | .error _ => []) =
        (e.2.flatMap (lineRows Generated.fillEqnLhsIndex Generated.fillEqnRhsFrom Generated.fillEqnRhsSign)).map ratRow) ∧
    stackA (α := α) sel rel = concatBy Generated.fillStackA (sel.map selectorRow) (rel.map castRow) ∧
    stackB selCols rel k = concatBy Generated.fillStackB (selCols.map fun c => c.getD k 0)
      (rel.map fun r => (Int.cast r.rhs : α) / (Int.cast (Int.ofNat r.den) : α)) ∧
    (∀ i, selectorRow (α := α) i = (List.range Generated.fillSymbols.length).map fun j =>
      if j = i then ((Generated.fillSelectorValue.1 : α) / (Generated.fillSelectorValue.2 : α)) else 0) :=
  ⟨relation_rows_are_source, stack_is_source sel selCols rel k⟩

/-- **columns.**  (i) A column is a component iff the source's regex (parsed from the literal; `re.search` semantics on
    ASCII) finds a match in its LOWER-CASED name, and the lower-cased name is what is looked up among the symbols; the drop
    loop uses the same regex, again on the lower-cased name.  (ii) A solved component is written to the first existing
    column whose lower-cased name equals the symbol, else to a new column named by the symbol (`next(…, index)`, extracted).
    (iii) A component column is dropped iff `numpy.allclose(col, 0, atol=drop_atol)` — extracted target 0, extracted
    tolerance parameter `drop_atol` (not `residual_atol`), numpy's default `rtol` multiplying `|0|`. -/
theorem fill_model_is_source_columns (P : Params α) (t : Table α) (xs : List (List α)) (names : List String)
    (sym : String) (col : List α) (hsym : sym ∈ symbolNames) :
    (∃ atoms, parseRegex Generated.fillRegexFit.toList = some atoms ∧
      parseRegex Generated.fillRegexDrop.toList = some atoms ∧
      recognise names = recogniseLower (if Generated.fillFitLowersFirst then names.map String.toLower else names) ∧
      (∀ s : String, matchesCdd s.toList = search atoms s.toList) ∧
      finish P t xs = (writeAll t xs).filter fun c =>
        !(search atoms (if Generated.fillDropLowersFirst then c.1.toLower else c.1).toList &&
          allcloseGeneric P.dropAtol (ratOf Generated.fillDropRtol) (ratOf Generated.fillDropTarget) c.2)) ∧
    writeBack t sym col = setColumn t (chooseKey Generated.fillKeyCompare (t.map (·.1)) sym) col ∧
    (paramValue P Generated.fillDropAtolParam).map (fun atol =>
      allcloseGeneric atol (ratOf Generated.fillDropRtol) (ratOf Generated.fillDropTarget) col)
      = some (allClose0 P.dropAtol col) := by
  refine ⟨?_, writeBack_is_source t sym col (symbols_lower sym hsym), drop_is_source P col⟩
  obtain ⟨atoms, h1, h2⟩ := finish_is_source P t xs
  obtain ⟨atoms', h1', h2', h3'⟩ := recognise_is_source names
  have hsame : atoms' = atoms := by
    rw [regex_drop_is_regex_fit, h1'] at h1
    exact Option.some.inj h1
  subst hsame
  exact ⟨atoms', h1', h1, h2', h3', h2⟩

/-- **defaults.**  The signature's parameter names and order and the default of every keyword parameter
    (`system=None, ignore_residuals=False, ignore_rank=False, drop_atol=1e-8, residual_atol=0.1`, as exact decimal
    fractions) are those of `CijModel/FillCall.lean`, from which the driver fills absent keywords. -/
theorem fill_model_is_source_defaults :
    Generated.fillParams = FillCall.paramNames ∧
    Generated.fillDefaults.map (·.1) = FillCall.paramNames.tail ∧
    (lookupDefault "system" = some .none ∧ FillCall.defaultSystem = none) ∧
    lookupDefault "ignore_residuals" = some (.bool FillCall.defaultParams.ignoreResiduals) ∧
    lookupDefault "ignore_rank" = some (.bool FillCall.defaultParams.ignoreRank) ∧
    (lookupDefault "drop_atol").bind defaultNum = some FillCall.defaultParams.dropAtol ∧
    (lookupDefault "residual_atol").bind defaultNum = some FillCall.defaultParams.residualAtol :=
  defaults_are_source

/-- **command line and callers.**  Every `@click.option` of `cij fill` reaches `fill_cij` under the keyword named by its
    own long flag (identity on names: `--ignore-rank` ↦ `ignore_rank`, … — options wired crosswise break this), that keyword
    is a parameter of `fill_cij` and the option's default is the library's; the popped keyword is the file argument; the
    table is printed without index.  Every call site of `fill_cij` in the package passes the table (and at most `system`)
    by position and its settings by `**mapping` or under the same names with the library's defaults. -/
theorem fill_model_is_source_cli :
    ((∀ o ∈ Generated.cliOptions,
        (o.decls.filter isLong).head?.map canonName = some o.kwarg ∧
        o.kwarg ∈ Generated.fillParams.tail ∧
        lookupDefault o.kwarg = some o.default) ∧
      (Generated.cliOptions.map (·.kwarg)).Nodup ∧
      Generated.cliPopped = Generated.cliArgument ∧
      Generated.cliArgument ∉ Generated.fillParams ∧
      Generated.cliArgument ∉ Generated.cliOptions.map (·.kwarg) ∧
      Generated.cliPrintIndex = false) ∧
    ∀ c ∈ Generated.fillCallSites, callSiteOk c = true :=
  ⟨cli_is_source, callers_pass_through⟩

/-- **re-emission.**  The line-level model of `cij fill` (`ElastDat.fillCmd`, C17) reads the count from the extracted field
    of line 2 and sends the next `N + 1` lines (extracted offset) through read_table → fill_cij → to_string. -/
theorem fill_model_is_source_cmd {Num : Type} (F P : NumFmt Num) (k : Nat)
    (fill : ElastDat.Table Num → Option (ElastDat.Table Num)) (l1 l2 : Line) (rest : List Line) :
    ElastDat.fillCmd F P k fill (l1 :: l2 :: rest) = (do
      let n ← l2[Generated.cliCountField]? >>= Lex.parseInt
      let cnt := (n + Generated.cliTableExtra).toNat
      let t ← ElastDat.parseTable F (rest.take cnt)
      let t' ← fill t
      pure (l1 :: l2 :: (ElastDat.printTable P k t' ++ rest.drop cnt))) :=
  fill_cmd_is_source F P k fill l1 l2 rest

/-- **remaining literals.**  `numpy.linalg.lstsq(a, b, rcond=None)` — numpy's own machine-precision rank threshold, which the
    model replaces by the exact rank (assumption 2 of the harness; measured on every case); the candidates of the write-back
    key are the table's columns and the fallback is the symbol; a line is split at `=`; the command is `fill` and its file
    argument must exist.  (Pins in theorem form: the model was written against exactly these.) -/
theorem fill_model_is_source_literals :
    Generated.fillLstsqRcond = none ∧ Generated.fillKeyCandidates = "columns" ∧ Generated.fillKeyFallback = "symbol" ∧
    Generated.fillEqnSeparator = "=" ∧ Generated.cliCommand = "fill" ∧ Generated.cliArgumentMustExist = true := by
  decide +kernel

end source

/-- non-vacuity of the source tie: the extracted tests evaluated over ℚ — a rank-deficient record (rank 20 < 21) with the
    flag off is refused for rank; with `ignore_rank` the second test fires on a residual 1/2 > 1/10; with both flags
    nothing fires -/
example :
    let s : Solved Rat := { rankDeficient := true, m := 3, xs := [], ssq := [0, mkRat 1 2] }
    FillSource.evalRefusals (FillSource.refusalEnv (P0 false false) s 20) Generated.fillRefusals = some (.error .refuseRank) ∧
    FillSource.evalRefusals (FillSource.refusalEnv (P0 false true) s 20) Generated.fillRefusals = some (.error .refuseResidual) ∧
    FillSource.evalRefusals (FillSource.refusalEnv (P0 true true) s 20) Generated.fillRefusals = some (.ok ()) := by
  decide +kernel

/-- the extracted regex finds components anywhere in a name (`xc11`), not in `c1`; the extracted key rule picks the first
    existing column spelled like the symbol in any case; the extracted residual tree on a 2×2 system -/
example :
    (FillSource.parseRegex Generated.fillRegexFit.toList).map (fun a => (FillSource.search a "xc11".toList,
      FillSource.search a "c1".toList)) = some (true, false) ∧
    FillSource.chooseKey Generated.fillKeyCompare ["V", "C12", "c12"] "c12" = "C12" ∧
    FillSource.chooseKey Generated.fillKeyCompare ["V", "C11"] "c12" = "c12" := by
  decide +kernel

/-- the `./cubic` finding, on the model: a user file `./cubic` holding only `c11 = c22` is USED (the table below is then
    under-determined: refused for rank), while the bare name `cubic` fills the same table with the packaged relations although
    the same file is there; the strings have / do not have a directory part -/
example :
    let rel : Rows := [⟨[1, 0, 0, 0, 0, 0, -1, 0, 0, 0, 0, 0, 0, 0, 0, 0, 0, 0, 0, 0, 0], 0, 1⟩]
    let env : Env := ⟨fun _ => true, fun s => if s = "./cubic" ∨ s = "cubic" then some rel else none⟩
    FillSource.hasDirPart "./cubic" = true ∧ FillSource.hasDirPart "cubic" = false ∧
    outcome (fill env (some "./cubic") (P0 false false) [("c11", [300]), ("c12", [100]), ("c44", [80])]) = "refuse:rank" ∧
    outcome (fill env (some "cubic") (P0 false false) [("c11", [300]), ("c12", [100]), ("c44", [80])])
      = "ok:c11=300,c12=100,c44=80,c13=100,c22=300,c23=100,c33=300,c55=80,c66=80" := by decide +kernel

end Cij.C09
