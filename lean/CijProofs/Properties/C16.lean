/-
  C16 — effective configuration = user settings over packaged defaults; invalid configurations rejected.

  Model: `CijModel/Config.lean` (`updateConfig`, `applyDefaultConfig`, `parserFor`) and `CijModel/Schema.lean`
  (`validate`), applied to `Generated.configSchema`, `Generated.defaultSettings`, `Generated.exampleSettings`
  (all three re-translated from /repo on every run).

  MERGE.  Every clause is proved for ALL nested dictionaries `u`, `d` and every iteration order `ord` of the
  key set (`OrdOK ord`: `ord l` is a permutation of `l`).  The call returns for all dictionaries
  (`c16_defined`); `c16_effective_config` bundles all clauses.  Where the user has a dictionary and the default a
  non-dictionary value the user's dictionary is taken whole (`c16_merge_spec_taken`) — this is the behaviour of
  /repo since fix a3016c4; before it the code raised AttributeError there (the former negation witness is now the
  positive regression theorem `c16_user_dict_over_default_list_kept`; the harness still reports an AttributeError
  at such a point under the site `update_config:user-dict-over-non-dict-default`).
  "Leaves both inputs unmodified" is trivially true of the model (a pure function); the harness deep-compares
  both inputs before/after the real call, and §5 ties it to the source: the only dict `update_config` stores into is
  the one it created as `{}`.

  VALIDATION.  Field-by-field theorems quantify over every configuration; the documented constraints
  (`documented`, typed from the documentation/property text) are tied to the translated schema by a kernel
  evaluation (`c16_documented_checked`).  No claim is made about unknown root-level keys (the schema's
  root-level "additionalProperties" sits inside "properties", where it is a property name).
  YAML/JSON parsers are not modelled (tested by the harness through the real `read_config`); only the choice of
  parser by suffix is (`c16_parser_by_suffix`).

  §5 SOURCE.  `Generated.ConfigSrc` is PRINTED on every run from the abstract syntax of `config.py` / `validate.py` /
  `__init__.py` (`tools/gens/config_src.py`).  `update_config_is_source`: the printed `update_config` equals the model
  for all values and all iteration orders, so every merge theorem of §1 is a theorem about the function as it is
  written now (`c16_source_effective_config`); `apply_default_config`, the suffix chain and the validate-then-return
  flow of `read_config`, and `validate_config` likewise; module-level state, decorators, validator extensions: none.

  §4.  `c16_valid_user_merges`: for every user configuration that VALIDATES the effective configuration exists
  and has all the properties; `c16_valid_user_dict_over_leaf_only_free_form`: in such a configuration a user
  dictionary can replace a non-dictionary default only at the four leaves the schema leaves untyped.
-/
import CijProofs.Lemmas.Config
import CijProofs.Lemmas.Schema
import CijProofs.Lemmas.ConfigSource
import Generated.ExampleSettings

namespace Cij.C16
open Cij Cij.Config Cij.Schema

/-! ## 1. merge: `update_config` / `apply_default_config` -/

/-- "the user does not specify `p`": following `p` in the user's dict runs into a missing key
(not into a leaf on the way, and `p` is not itself a key path of the user) -/
abbrev Unspecified (u : J) (p : List String) : Prop := walk u p = .fellOff

/-- complete specification (1): on every key path the result shows what the user has there, unless the user's
walk fell off a dict, in which case it shows what the default has there … -/
theorem c16_merge_spec {ord : List String → List String} (hord : OrdOK ord) {u d r : J}
    (h : updateConfig ord u d = .ok r) (p : List String) (hp : ¬ TakenWhole u d p) :
    walk r p = (walk u p).over (walk d p) :=
  walk_update hord p h hp

/-- … (2): except below a place where the user has a dictionary and the default a non-dictionary value: there
the user's dictionary is taken whole -/
theorem c16_merge_spec_taken {ord : List String → List String} (hord : OrdOK ord) {u d r : J}
    (h : updateConfig ord u d = .ok r) (p : List String) (hp : TakenWhole u d p) : walk r p = walk u p :=
  walk_update_taken hord p h hp

/-- the two cases combined, in the only direction that loses nothing: whatever the user's walk shows (other than
"fell off") is what the result shows -/
theorem c16_user_walk_wins {ord : List String → List String} (hord : OrdOK ord) {u d r : J}
    (h : updateConfig ord u d = .ok r) (p : List String) (hu : walk u p ≠ .fellOff) : walk r p = walk u p := by
  by_cases ht : TakenWhole u d p
  · exact walk_update_taken hord p h ht
  · rw [walk_update hord p h ht]
    cases hw : walk u p <;> simp_all [Walk.over]

/-- every user-specified leaf value is kept, at any depth -/
theorem c16_leaf_user_kept {ord : List String → List String} (hord : OrdOK ord) {u d r : J}
    (h : updateConfig ord u d = .ok r) {p : List String} {v : J} (hu : get u p = some v) (hv : isObj v = false) :
    get r p = some v := by
  have hw : walk u p = .leafAt v := walk_eq_leafAt.2 ⟨hu, hv⟩
  have := c16_user_walk_wins hord h p (by rw [hw]; exact fun e => by cases e)
  rw [hw] at this
  exact (walk_eq_leafAt.1 this).1

/-- every leaf the user does not specify is taken from the default -/
theorem c16_leaf_default_filled {ord : List String → List String} (hord : OrdOK ord) {u d r : J}
    (h : updateConfig ord u d = .ok r) {p : List String} {v : J} (hd : get d p = some v) (hv : isObj v = false)
    (hun : Unspecified u p) : get r p = some v := by
  have hw : walk d p = .leafAt v := walk_eq_leafAt.2 ⟨hd, hv⟩
  have hnt : ¬ TakenWhole u d p := not_takenWhole_of_leaf hw (by rw [hun]; exact fun e => by cases e)
  have := walk_update hord p h hnt
  rw [hun, hw] at this
  exact (walk_eq_leafAt.1 this).1

/-- the result contains no other keys: every key path of the result is a key path of the user or of the default -/
theorem c16_no_other_keys {ord : List String → List String} (hord : OrdOK ord) {u d r : J}
    (h : updateConfig ord u d = .ok r) {p : List String} (hr : (get r p).isSome = true) :
    (get u p).isSome = true ∨ (get d p).isSome = true := by
  rw [get_isSome_iff] at hr ⊢
  rw [get_isSome_iff]
  by_cases ht : TakenWhole u d p
  · rw [walk_update_taken hord p h ht] at hr; exact Or.inl hr
  have := walk_update hord p h ht
  cases hu : walk u p with
  | leafAt v => exact Or.inl (Or.inr ⟨v, rfl⟩)
  | dictAt => exact Or.inl (Or.inl rfl)
  | shadowed =>
    rw [hu] at this
    rcases hr with hr | ⟨v, hr⟩ <;> rw [hr] at this <;> cases this
  | fellOff =>
    rw [hu] at this
    right
    rcases hr with hr | ⟨v, hr⟩
    · exact Or.inl (by rw [← hr, this]; rfl)
    · exact Or.inr ⟨v, by rw [← hr, this]; rfl⟩

/-- … and no other values: a leaf of the result is the user's leaf there, or the default's leaf at a path the
user does not specify -/
theorem c16_no_other_values {ord : List String → List String} (hord : OrdOK ord) {u d r : J}
    (h : updateConfig ord u d = .ok r) {p : List String} {x : J} (hr : get r p = some x) (hx : isObj x = false) :
    get u p = some x ∨ (Unspecified u p ∧ get d p = some x) := by
  have hw : walk r p = .leafAt x := walk_eq_leafAt.2 ⟨hr, hx⟩
  by_cases ht : TakenWhole u d p
  · rw [walk_update_taken hord p h ht] at hw; exact Or.inl (walk_eq_leafAt.1 hw).1
  have := walk_update hord p h ht
  rw [hw] at this
  cases hu : walk u p with
  | leafAt v =>
    rw [hu] at this
    simp only [Walk.over, Walk.leafAt.injEq] at this
    subst this
    exact Or.inl (walk_eq_leafAt.1 hu).1
  | dictAt => rw [hu] at this; cases this
  | shadowed => rw [hu] at this; cases this
  | fellOff =>
    rw [hu] at this
    exact Or.inr ⟨hu, (walk_eq_leafAt.1 this.symm).1⟩

/-- the call returns for all dictionaries (and only for dictionaries: `.keys()` of anything else raises) -/
theorem c16_defined {ord : List String → List String} (hord : OrdOK ord) (u d : J) :
    (∃ r, updateConfig ord u d = .ok r) ↔ (isObj u = true ∧ isObj d = true) := ok_iff hord u d

theorem c16_only_attributeError {ord : List String → List String} (hord : OrdOK ord) (u d : J) (e : Err)
    (h : updateConfig ord u d = .error e) : e = .attributeError := error_is_attributeError hord u d e h

/-- idempotent: merging the result with the same default again changes nothing (as a map) -/
theorem c16_idempotent {ord : List String → List String} (hord : OrdOK ord) {u d r : J}
    (h : updateConfig ord u d = .ok r) : ∃ r', updateConfig ord r d = .ok r' ∧ MapEq r' r := by
  obtain ⟨ukv, dkv, rkv, rfl, rfl, rfl, _⟩ := ok_shape h
  obtain ⟨r', hr'⟩ := ok_of_obj hord (.obj rkv) (.obj dkv) rfl rfl
  refine ⟨r', hr', fun p => ?_⟩
  by_cases ht' : TakenWhole (.obj rkv) (.obj dkv) p
  · exact walk_update_taken hord p hr' ht'
  rw [walk_update hord p hr' ht']
  cases hw : walk (.obj rkv) p with
  | leafAt v => rfl
  | dictAt => rfl
  | shadowed => rfl
  | fellOff =>
    -- the result fell off: then so did the default (and the user), so nothing is added
    simp only [Walk.over]
    by_cases ht : TakenWhole (.obj ukv) (.obj dkv) p
    · exfalso
      obtain ⟨q, s, v, hp, hu, hd⟩ := ht
      apply ht'
      refine ⟨q, s, v, hp, ?_, hd⟩
      rw [walk_update_taken hord q h ⟨q, [], v, by simp, hu, hd⟩]; exact hu
    · have := walk_update hord p h ht
      rw [hw] at this
      exact (over_eq_fellOff this.symm).2

/-- the order in which the key set is iterated is irrelevant: whether the call returns, and what it returns
as a map -/
theorem c16_order_free {ord₁ ord₂ : List String → List String} (h₁ : OrdOK ord₁) (h₂ : OrdOK ord₂) {u d r₁ : J}
    (h : updateConfig ord₁ u d = .ok r₁) : ∃ r₂, updateConfig ord₂ u d = .ok r₂ ∧ MapEq r₁ r₂ := by
  obtain ⟨r₂, hr₂⟩ := (ok_iff h₂ u d).2 ((ok_iff h₁ u d).1 ⟨r₁, h⟩)
  refine ⟨r₂, hr₂, fun p => ?_⟩
  by_cases ht : TakenWhole u d p
  · rw [walk_update_taken h₁ p h ht, walk_update_taken h₂ p hr₂ ht]
  · rw [walk_update h₁ p h ht, walk_update h₂ p hr₂ ht]

/-- **The merge clause, for ALL nested dictionaries** and every iteration order: the effective configuration
exists, keeps the user's leaves, fills the unspecified ones from the default, has no other keys, and is
idempotent. -/
theorem c16_effective_config {ord : List String → List String} (hord : OrdOK ord) (u d : J)
    (hu : isObj u = true) (hd : isObj d = true) :
    ∃ r, updateConfig ord u d = .ok r ∧
      (∀ p v, get u p = some v → isObj v = false → get r p = some v) ∧
      (∀ p v, get d p = some v → isObj v = false → Unspecified u p → get r p = some v) ∧
      (∀ p, (get r p).isSome = true → (get u p).isSome = true ∨ (get d p).isSome = true) ∧
      (∃ r', updateConfig ord r d = .ok r' ∧ MapEq r' r) := by
  obtain ⟨r, h⟩ := ok_of_obj hord u d hu hd
  exact ⟨r, h, fun _ _ h1 h2 => c16_leaf_user_kept hord h h1 h2,
    fun _ _ h1 h2 h3 => c16_leaf_default_filled hord h h1 h2 h3,
    fun _ h1 => c16_no_other_keys hord h h1, c16_idempotent hord h⟩

/-- a user dictionary where the packaged default has a list (the input on which the code raised AttributeError
before fix a3016c4) -/
def witnessUser : J := .obj [("output", .obj [("pressure_base", .obj [("cij", .bool true)])])]

/-- **Regression theorem for the repaired defect**: for every iteration order the effective configuration of
`witnessUser` exists, contains the user's dictionary at `output.pressure_base` whole (its leaf, and nothing of
the default's list), and is filled from the default elsewhere. -/
theorem c16_user_dict_over_default_list_kept {ord : List String → List String} (hord : OrdOK ord) :
    ∃ r, applyDefaultConfig ord witnessUser = .ok r ∧
      get r ["output", "pressure_base", "cij"] = some (.bool true) ∧
      MapEq ((get r ["output", "pressure_base"]).getD .null) (.obj [("cij", .bool true)]) ∧
      get r ["output", "volume_base"] = some (.arr [.str "p"]) ∧
      get r ["qha", "settings", "NT"] = some (.num 16 1 true) := by
  obtain ⟨r, h⟩ := ok_of_obj hord witnessUser Generated.defaultSettings rfl (by decide)
  have hk : get r ["output", "pressure_base", "cij"] = some (.bool true) :=
    c16_leaf_user_kept hord h (by decide) rfl
  refine ⟨r, h, hk, ?_, c16_leaf_default_filled hord h (by decide) rfl (by decide),
    c16_leaf_default_filled hord h (by decide) rfl (by decide)⟩
  -- the sub-dictionary: its walks are the user's walks
  have htw : ∀ s, TakenWhole witnessUser Generated.defaultSettings (["output", "pressure_base"] ++ s) := fun s =>
    ⟨["output", "pressure_base"], s, (get Generated.defaultSettings ["output", "pressure_base"]).getD .null, rfl,
      by decide, by decide⟩
  obtain ⟨ikv, hg, _⟩ := Cij.Schema.get_append_singleton (x := r) (p := ["output", "pressure_base"]) (k := "cij") hk
  rw [hg]
  intro s
  simp only [Option.getD_some]
  rw [walk_of_get _ s hg, walk_update_taken hord _ h (htw s)]
  exact (walk_of_get (t := witnessUser) ["output", "pressure_base"] s (by decide)).symm

/-- the same by kernel evaluation for one iteration order, together with validity of the completed configuration -/
example : isOk (applyDefaultConfig id (.obj [("qha", .obj []), ("elast", .obj []),
      ("output", .obj [("pressure_base", .obj [("cij", .bool true)])])])) = true := by decide +kernel

/-- non-vacuity of the positive part, on the packaged default: a user file that sets two leaves and adds a key -/
def sampleUser : J := .obj [
  ("qha", .obj [("settings", .obj [("NT", .num 31 1 true), ("NTV", .num 81 1 true)])]),
  ("elast", .obj [("settings", .obj [("symmetry", .obj [("system", .str "cubic")])])]),
  ("output", .obj [("volume_base", .arr [.str "cij"])])]

example : ∃ r, applyDefaultConfig id sampleUser = .ok r ∧
    get r ["qha", "settings", "NT"] = some (.num 31 1 true) ∧          -- user leaf kept
    get r ["qha", "settings", "NTV"] = some (.num 81 1 true) ∧         -- user-only key kept
    get r ["qha", "settings", "DT"] = some (.num 100 1 true) ∧         -- default leaf filled
    get r ["elast", "settings", "symmetry", "system"] = some (.str "cubic") ∧
    get r ["elast", "settings", "symmetry", "drop_atol"] = some (.num 1 100000000 false) ∧
    get r ["output", "volume_base"] = some (.arr [.str "cij"]) ∧       -- a list is a leaf: replaced whole
    validateConfig r = true := by
  refine ⟨_, rfl, ?_⟩
  decide +kernel

example : isObj sampleUser = true ∧ isObj Generated.defaultSettings = true := ⟨rfl, by decide⟩

example : OrdOK List.reverse := ordOK_reverse

/-- a user leaf over a default dictionary is allowed (the whole default sub-dictionary is dropped) -/
example : isOk (updateConfig id (.obj [("elast", .str "none")]) Generated.defaultSettings) = true := by
  decide +kernel

/-! ## 2. `read_config`: parser chosen by suffix (the parsers themselves are not modelled) -/

theorem c16_parser_by_suffix :
    parserFor "settings.yaml" = .ok .yaml ∧ parserFor "dir.d/settings.yml" = .ok .yaml ∧
    parserFor "a/b/settings.json" = .ok .json ∧ parserFor "settings.tar.json" = .ok .json ∧
    parserFor "settings.txt" = .error .runtimeError ∧ parserFor "settings" = .error .runtimeError ∧
    parserFor ".json" = .error .runtimeError ∧ parserFor "settings.JSON" = .error .runtimeError := by
  decide +kernel

/-! ## 3. validation against the packaged schema -/

abbrev schema : J := Generated.configSchema

/-- the packaged schema stays inside the modelled JSON-Schema fragment (modelled keywords only, well-formed
values, every `$ref` resolves, nesting within the fuel) -/
theorem c16_schema_supported : supported Generated.configSchema = true := by decide +kernel

/-- the packaged default validates -/
theorem c16_default_valid : validateConfig Generated.defaultSettings = true := by decide +kernel

/-- every shipped example settings file validates -/
theorem c16_examples_valid : ∀ e ∈ Generated.exampleSettings, validateConfig e.2 = true := by decide +kernel

example : Generated.exampleSettings.length ≥ 3 := by decide +kernel

/-- … and so does every shipped example after the defaults were applied -/
theorem c16_examples_effective_valid : ∀ e ∈ Generated.exampleSettings,
    (match applyDefaultConfig id e.2 with
     | .ok r => validateConfig r
     | .error _ => false) = true := by decide +kernel

def interpolators : List String := ["lsq_poly", "lagrange", "spline", "krogh", "pchip", "hermite", "akima"]
def systems : List String :=
  ["triclinic", "monoclinic", "hexagonal", "trigonal6", "trigonal7", "orthorhombic", "tetragonal6", "tetragonal7", "cubic"]

/-- The documented fields and their constraints (typed from the documentation of `settings.yaml` — the tables
of `docs/usage/input.rst` — and the property statement; NOT read from the schema file).
`minimum := some (a, b)` is the rational a/b. -/
def documented : List (List String × Spec) := [
  (["qha", "input"],                                   { type := "string" }),
  (["qha", "settings", "NT"],                          { type := "integer", minimum := some (1, 1) }),
  (["qha", "settings", "DT"],                          { type := "number" }),
  (["qha", "settings", "T_MIN"],                       { type := "number", minimum := some (0, 1) }),
  (["qha", "settings", "NTV"],                         { type := "integer", minimum := some (1, 1) }),
  (["qha", "settings", "P_MIN"],                       { type := "number" }),
  (["qha", "settings", "DELTA_P"],                     { type := "number" }),
  (["qha", "settings", "DELTA_P_SAMPLE"],              { type := "number" }),
  (["qha", "settings", "volume_ratio"],                { type := "number", minimum := some (1, 1) }),
  (["qha", "settings", "order"],                       { type := "number", minimum := some (2, 1) }),
  (["elast", "input"],                                 { type := "string" }),
  (["elast", "settings", "mode_gamma", "interpolator"], { type := "string", enum := some interpolators }),
  (["elast", "settings", "mode_gamma", "order"],       { type := "integer", minimum := some (1, 1) }),
  (["elast", "settings", "symmetry", "system"],        { type := "string", enum := some systems }),
  (["elast", "settings", "symmetry", "ignore_residuals"], { type := "boolean" }),
  (["elast", "settings", "symmetry", "ignore_rank"],   { type := "boolean" }),
  (["elast", "settings", "symmetry", "drop_atol"],     { type := "number" }),
  (["elast", "settings", "symmetry", "residual_atol"], { type := "number" })]

/-- **Tie between the documented constraints and the translated schema** (kernel evaluation on
`Generated.configSchema`): for every documented field, (1) each part of its constraint (type / minimum /
enumeration) is imposed by a schema the validation applies at that path; (2) every schema applied at that path
asks for nothing beyond the documented constraint; (3) the field's parent dictionary exists in the packaged
default. -/
theorem c16_documented_checked : ∀ fk ∈ documented,
    enforced fk.2 (applicable Generated.configSchema fk.1) = true ∧
    (applicable Generated.configSchema fk.1).all (leafImplied fk.2) = true ∧
    parentIsDict Generated.defaultSettings fk.1 = true := by decide +kernel

/-- what `Spec.holds` means, spelled out (jsonschema's type rules: a bool is neither number nor integer,
3.0 counts as an integer; `minimum` compares exactly) -/
example : let nt : Spec := { type := "integer", minimum := some (1, 1) }
    nt.holds (.num 16 1 true) = true ∧ nt.holds (.num 3 1 false) = true ∧      -- 16, 3.0
    nt.holds (.num 7 2 false) = false ∧ nt.holds (.num 0 1 true) = false ∧     -- 3.5, 0
    nt.holds (.bool true) = false ∧ nt.holds (.str "16") = false ∧ nt.holds .null = false := by decide

example : let sys : Spec := { type := "string", enum := some systems }
    sys.holds (.str "cubic") = true ∧ sys.holds (.str "orthrohombic") = false ∧ sys.holds (.num 2 1 true) = false := by
  decide

/-- **Rejection, field by field, for every configuration**: a configuration whose value at a documented field
violates the documented constraint (wrong type, below the minimum, unknown enumeration value) is invalid. -/
theorem c16_field_rejects : ∀ fk ∈ documented, ∀ (cfg v : J),
    get cfg fk.1 = some v → fk.2.holds v = false → validateConfig cfg = false := by
  intro fk hfk cfg v hg hh
  cases hv : validateConfig cfg with
  | false => rfl
  | true =>
    exfalso
    have happ := valid_applic Generated.configSchema fuel Generated.configSchema cfg hv fk.1 v hg
    have := holds_of_enforced (c16_documented_checked fk hfk).1 happ
    rw [hh] at this; cases this

/-- the same in the form `¬κ v → ¬valid (cfg[f := v])` -/
theorem c16_field_rejects_set : ∀ fk ∈ documented, ∀ (cfg v : J),
    fk.2.holds v = false → validateConfig (setPath cfg fk.1 v) = false :=
  fun fk hfk cfg v hh => c16_field_rejects fk hfk _ v (get_setPath v fk.1 cfg) hh

/-- **Acceptance, field by field**: in any valid configuration, setting a documented field (replacing it, or
adding it to its existing parent dictionary) to any value satisfying the documented constraint gives a valid
configuration. -/
theorem c16_field_accepts : ∀ fk ∈ documented, ∀ (cfg v : J),
    validateConfig cfg = true → parentIsDict cfg fk.1 = true → fk.2.holds v = true →
    validateConfig (setPath cfg fk.1 v) = true := by
  intro fk hfk cfg v hv hp hh
  have hchk := (c16_documented_checked fk hfk).2.1
  rw [List.all_eq_true] at hchk
  exact valid_setPath Generated.configSchema fuel Generated.configSchema cfg hv fk.1 v hp
    (fun mT hm => valid_of_leafImplied (hchk mT hm) hh)

/-- `κ v → valid (base[f := v])` for the default-derived base -/
theorem c16_field_accepts_default : ∀ fk ∈ documented, ∀ (v : J),
    fk.2.holds v = true → validateConfig (setPath Generated.defaultSettings fk.1 v) = true :=
  fun fk hfk v hh => c16_field_accepts fk hfk _ v c16_default_valid (c16_documented_checked fk hfk).2.2 hh

/-- `valid ⇔ κ v` on the default-derived base, for every documented field and every value -/
theorem c16_field_iff_default : ∀ fk ∈ documented, ∀ (v : J),
    validateConfig (setPath Generated.defaultSettings fk.1 v) = fk.2.holds v := by
  intro fk hfk v
  cases hh : fk.2.holds v with
  | true => exact c16_field_accepts_default fk hfk v hh
  | false => exact c16_field_rejects_set fk hfk _ v hh

example : (["qha", "settings", "NT"], ({ type := "integer", minimum := some (1, 1) } : Spec)) ∈ documented := by
  simp [documented]

/-- concrete instances on the packaged default (evaluated by the kernel, independent of the lemmas) -/
example : validateConfig (setPath Generated.defaultSettings ["qha", "settings", "NT"] (.num 0 1 true)) = false ∧
    validateConfig (setPath Generated.defaultSettings ["qha", "settings", "NT"] (.num 31 1 true)) = true ∧
    validateConfig (setPath Generated.defaultSettings ["qha", "settings", "NT"] (.bool true)) = false ∧
    validateConfig (setPath Generated.defaultSettings ["elast", "settings", "mode_gamma", "interpolator"] (.str "cubic")) = false ∧
    validateConfig (setPath Generated.defaultSettings ["elast", "settings", "symmetry", "system"] (.str "cubic")) = true := by
  decide +kernel

/-- a valid configuration is a dictionary that has the `qha` and the `elast` section -/
theorem c16_valid_has_sections (cfg : J) (hv : validateConfig cfg = true) :
    ∃ kv, cfg = .obj kv ∧ hasKey "qha" kv = true ∧ hasKey "elast" kv = true := by
  have happ := valid_applic Generated.configSchema fuel Generated.configSchema cfg hv [] cfg rfl
  have hobj : enforced { type := "object" } (applicable Generated.configSchema []) = true := by decide +kernel
  have := holds_of_enforced hobj happ
  simp only [Spec.holds, Bool.and_true] at this
  cases cfg <;> simp [typeOk, isObj] at this
  rename_i kv
  have hq : requiredAt "qha" (applicable Generated.configSchema []) = true := by decide +kernel
  have he : requiredAt "elast" (applicable Generated.configSchema []) = true := by decide +kernel
  exact ⟨kv, rfl, hasKey_of_requiredAt hq happ, hasKey_of_requiredAt he happ⟩

/-- a missing `qha` or `elast` section is rejected -/
theorem c16_missing_section_rejected (kv : KV) (h : hasKey "qha" kv = false ∨ hasKey "elast" kv = false) :
    validateConfig (.obj kv) = false := by
  cases hv : validateConfig (.obj kv) with
  | false => rfl
  | true =>
    obtain ⟨kv', hkv, h1, h2⟩ := c16_valid_has_sections _ hv
    cases hkv
    rcases h with h | h
    · rw [h] at h1; cases h1
    · rw [h] at h2; cases h2

/-- removing a section from ANY configuration makes it invalid -/
theorem c16_section_removed_rejected (kv : KV) :
    validateConfig (.obj (delKey "qha" kv)) = false ∧ validateConfig (.obj (delKey "elast" kv)) = false := by
  have hdel : ∀ (k : String) (l : KV), hasKey k (delKey k l) = false := by
    intro k l
    induction l with
    | nil => rfl
    | cons e r ih =>
      obtain ⟨k', x⟩ := e
      simp only [delKey]
      by_cases hk : k' = k
      · simp [hk, ih]
      · simp only [hk, if_false, hasKey, lookup]
        exact ih
  exact ⟨c16_missing_section_rejected _ (Or.inl (hdel _ _)), c16_missing_section_rejected _ (Or.inr (hdel _ _))⟩

def elastSettingsKeys : List String := ["mode_gamma", "symmetry"]
def symmetryKeys : List String := ["system", "ignore_residuals", "ignore_rank", "drop_atol", "residual_atol"]

/-- unknown keys inside the elasticity settings are rejected, in every configuration -/
theorem c16_unknown_key_elast_settings (cfg : J) (k : String) (x : J)
    (hg : get cfg (["elast", "settings"] ++ [k]) = some x) (hk : k ∉ elastSettingsKeys) :
    validateConfig cfg = false := by
  cases hv : validateConfig cfg with
  | false => rfl
  | true =>
    exfalso
    obtain ⟨ikv, h1, h2⟩ := get_append_singleton hg
    have happ := valid_applic Generated.configSchema fuel Generated.configSchema cfg hv _ _ h1
    have hc : closedAt elastSettingsKeys (applicable Generated.configSchema ["elast", "settings"]) = true := by
      decide +kernel
    exact hk (keys_of_closedAt hc happ k x h2)

/-- unknown keys inside the symmetry settings are rejected, in every configuration -/
theorem c16_unknown_key_symmetry (cfg : J) (k : String) (x : J)
    (hg : get cfg (["elast", "settings", "symmetry"] ++ [k]) = some x) (hk : k ∉ symmetryKeys) :
    validateConfig cfg = false := by
  cases hv : validateConfig cfg with
  | false => rfl
  | true =>
    exfalso
    obtain ⟨ikv, h1, h2⟩ := get_append_singleton hg
    have happ := valid_applic Generated.configSchema fuel Generated.configSchema cfg hv _ _ h1
    have hc : closedAt symmetryKeys (applicable Generated.configSchema ["elast", "settings", "symmetry"]) = true := by
      decide +kernel
    exact hk (keys_of_closedAt hc happ k x h2)

/-- the documented keys of these two dictionaries are exactly the ones with a documented field -/
example : validateConfig (setPath Generated.defaultSettings ["elast", "settings", "symmetry", "sytem"] (.str "cubic")) = false ∧
    validateConfig (setPath Generated.defaultSettings ["elast", "settings", "mode_gama"] (.obj [])) = false := by
  decide +kernel

/-! ## 4. the real pipeline: `read_config` validates, then `apply_default_config` merges (`Calculator.__init__`) -/

/-- the leaves of the packaged default that the schema does not type: a valid user file may put a dictionary there -/
def freeFormLeaves : List (List String) :=
  [["qha", "settings", "DT_SAMPLE"], ["qha", "settings", "static_only"], ["output", "pressure_base"], ["output", "volume_base"]]

/-- every leaf of the packaged default is one of the four free-form ones or is typed as a non-object by the schema -/
theorem c16_default_leaves_typed :
    depthLe 8 Generated.defaultSettings = true ∧
    ∀ q ∈ leafPaths 8 Generated.defaultSettings,
      q ∈ freeFormLeaves ∨ scalarTyped (applicable Generated.configSchema q) = true := by decide +kernel

/-- **For every VALID user configuration the effective configuration exists**, for every iteration order, and has
all the properties of `c16_effective_config` with respect to the packaged default. -/
theorem c16_valid_user_merges {ord : List String → List String} (hord : OrdOK ord) (u : J)
    (hv : validateConfig u = true) :
    ∃ r, applyDefaultConfig ord u = .ok r ∧
      (∀ p v, get u p = some v → isObj v = false → get r p = some v) ∧
      (∀ p v, get Generated.defaultSettings p = some v → isObj v = false → Unspecified u p → get r p = some v) ∧
      (∀ p, (get r p).isSome = true → (get u p).isSome = true ∨ (get Generated.defaultSettings p).isSome = true) ∧
      (∃ r', applyDefaultConfig ord r = .ok r' ∧ MapEq r' r) := by
  obtain ⟨kv, rfl, _, _⟩ := c16_valid_has_sections u hv
  exact c16_effective_config hord _ _ rfl (by decide)

/-- in a valid user configuration, a user dictionary replaces a non-dictionary default only at (a path through)
one of the four free-form leaves; everywhere else the plain "user over default" specification `c16_merge_spec`
applies -/
theorem c16_valid_user_dict_over_leaf_only_free_form (u : J) (hv : validateConfig u = true) (p : List String)
    (ht : TakenWhole u Generated.defaultSettings p) : ∃ q ∈ freeFormLeaves, q <+: p ∧ walk u q = .dictAt :=
  takenWhole_free_of_valid c16_default_leaves_typed.1 c16_default_leaves_typed.2 hv ht

/-- the free-form leaves are really free: the former witness with the two sections added validates, and its
effective configuration validates too -/
example : validateConfig (.obj [("qha", .obj []), ("elast", .obj []),
      ("output", .obj [("pressure_base", .obj [("cij", .bool true)])])]) = true ∧
    (match applyDefaultConfig id (.obj [("qha", .obj []), ("elast", .obj []),
      ("output", .obj [("pressure_base", .obj [("cij", .bool true)])])]) with
     | .ok r => validateConfig r
     | .error _ => false) = true := by
  decide +kernel

/-! ## 5. the source code as it is written now (`Generated.ConfigSrc`, printed from the abstract syntax on this run) -/

open Cij.ConfigSource

/-- **`update_config` as written now IS the model**: the definition printed from the function's abstract syntax
(fresh `{}`, loop over the key set in an arbitrary order, the `not in` / `isinstance … and isinstance …` chain, the
recursive call) equals `Config.updateConfig` for ALL values — dictionaries of any nesting, and non-dictionaries — and
ALL iteration orders (no hypothesis on `ord`). -/
theorem update_config_is_source (ord : List String → List String) (u d : J) :
    Generated.ConfigSrc.update_config ord u d = updateConfig ord u d := update_config_eq ord u d

/-- **Every merge clause is a theorem about the function as written now**: for all nested dictionaries and every
iteration order the printed function returns; the result keeps the user's leaves, fills the unspecified ones from the
default, has no other keys, is idempotent, and does not depend on the iteration order. -/
theorem c16_source_effective_config {ord : List String → List String} (hord : OrdOK ord) (u d : J)
    (hu : isObj u = true) (hd : isObj d = true) :
    ∃ r, Generated.ConfigSrc.update_config ord u d = .ok r ∧
      (∀ p v, get u p = some v → isObj v = false → get r p = some v) ∧
      (∀ p v, get d p = some v → isObj v = false → Unspecified u p → get r p = some v) ∧
      (∀ p, (get r p).isSome = true → (get u p).isSome = true ∨ (get d p).isSome = true) ∧
      (∃ r', Generated.ConfigSrc.update_config ord r d = .ok r' ∧ MapEq r' r) ∧
      (∀ ord₂, OrdOK ord₂ → ∃ r₂, Generated.ConfigSrc.update_config ord₂ u d = .ok r₂ ∧ MapEq r r₂) := by
  simp only [update_config_is_source]
  obtain ⟨r, h, h1, h2, h3, h4⟩ := c16_effective_config hord u d hu hd
  exact ⟨r, h, h1, h2, h3, h4, fun ord₂ h₂ => c16_order_free hord h₂ h⟩

/-- **Inputs unmodified, at the source**: the printed function is a pure function of its two arguments, and in the
Python text the only dictionary ever stored into is the local created as `{}` — it is not a parameter, it is what is
returned, and the only method called on a parameter is `.keys()`.  (The recursion builds its own `{}` at every level:
it is the same function.) -/
theorem update_config_source_builds_fresh_dict :
    Generated.ConfigSrc.updateConfigFresh ∉ Generated.ConfigSrc.updateConfigParams ∧
    Generated.ConfigSrc.updateConfigStoreTargets ≠ [] ∧
    (∀ t ∈ Generated.ConfigSrc.updateConfigStoreTargets, t = Generated.ConfigSrc.updateConfigFresh) ∧
    Generated.ConfigSrc.updateConfigReturned = Generated.ConfigSrc.updateConfigFresh ∧
    (∀ m ∈ Generated.ConfigSrc.updateConfigParamMethods, m = "keys") := by decide

/-- **`apply_default_config` as written now IS the model**: it merges its argument (first) over the content of the
packaged `default/settings.yaml` (second), which it reads inside the call with the YAML parser the translator of
`Generated.defaultSettings` uses. -/
theorem apply_default_is_source (ord : List String → List String) (u : J) :
    Generated.ConfigSrc.apply_default_config ord packagedData u = applyDefaultConfig ord u ∧
    Generated.ConfigSrc.applyDefaultParser = .yaml :=
  ⟨apply_default_eq ord u, rfl⟩

/-- the argument order matters and is the right one: the other order lets the default win -/
example : Generated.ConfigSrc.update_config id (.obj [("a", .str "user")]) (.obj [("a", .str "default")])
      = .ok (.obj [("a", .str "user")]) ∧
    Generated.ConfigSrc.update_config id (.obj [("a", .str "default")]) (.obj [("a", .str "user")])
      = .ok (.obj [("a", .str "default")]) := by decide

/-- **No state between calls**: `config.py` has no module-level assignment and nothing at module level but imports and
its three functions, none decorated (no `lru_cache`), no parameter with a default except `read_config`'s
`validate=True` (no mutable-default cache); `validate.py` and `__init__.py` assign `__all__` only and are undecorated.
Together with the printed bodies (the default file and the schema are opened inside the call) every call loads them
afresh. -/
theorem config_modules_stateless :
    Generated.ConfigSrc.configPyAssignments = [] ∧ Generated.ConfigSrc.configPyOther = [] ∧
    (∀ n, n ∈ Generated.ConfigSrc.configPyFunctions.map (·.1) ↔ n ∈ ["read_config", "update_config", "apply_default_config"]) ∧
    Generated.ConfigSrc.configPyFunctions.length = 3 ∧
    (∀ f ∈ Generated.ConfigSrc.configPyFunctions, f.2.1 = [] ∧
      ∀ a ∈ f.2.2, a.2 = none ∨ (f.1 = "read_config" ∧ a = ("validate", some "True"))) ∧
    Generated.ConfigSrc.readConfigValidateDefault = true ∧
    (∀ a ∈ Generated.ConfigSrc.validatePyAssignments, a = "__all__") ∧ Generated.ConfigSrc.validatePyOther = [] ∧
    (∀ f ∈ Generated.ConfigSrc.validatePyFunctions, f.1 = "validate_config" ∧ f.2.1 = [] ∧ ∀ a ∈ f.2.2, a.2 = none) ∧
    Generated.ConfigSrc.validatePyFunctions.length = 1 ∧
    (∀ a ∈ Generated.ConfigSrc.initPyAssignments, a = "__all__") ∧ Generated.ConfigSrc.initPyOther = [] ∧
    Generated.ConfigSrc.initPyFunctions = [] := by
  exact ⟨by decide, by decide, mem_iff_of_subsets (by decide) (by decide), by decide, by decide, by decide, by decide,
    by decide, by decide, by decide, by decide, by decide, by decide⟩

/-- the names the printed bodies use resolve to what they say: `validate_config` in `config.py` is `validate.py`'s,
`Path` is pathlib's, `jsonschema` / `json` / `cij.data` in `validate.py` are the modules; and the package exports
exactly these four functions from these two modules -/
theorem config_names_resolve :
    (∀ i, i ∈ Generated.ConfigSrc.configPyImports ↔
      i ∈ ["from pathlib import Path", "from .validate import validate_config", "from typing import Union"]) ∧
    (∀ i, i ∈ Generated.ConfigSrc.validatePyImports ↔ i ∈ ["import cij.data", "import json", "import jsonschema"]) ∧
    (∀ e, e ∈ Generated.ConfigSrc.initPyExports ↔
      e ∈ [("read_config", ".config", "read_config"), ("update_config", ".config", "update_config"),
           ("apply_default_config", ".config", "apply_default_config"), ("validate_config", ".validate", "validate_config")]) := by
  exact ⟨mem_iff_of_subsets (by decide) (by decide), mem_iff_of_subsets (by decide) (by decide),
    mem_iff_of_subsets (by decide) (by decide)⟩

/-- the documented suffixes of a settings file -/
def documentedSuffixes : List String := [".json", ".yml", ".yaml"]

/-- **The suffix dispatch of `read_config` as written now IS the model** `parserFor` (`Path(fname).suffix` →
parser or `RuntimeError`) -/
theorem read_config_parser_is_source (fname : String) :
    parserFor fname = (match Generated.ConfigSrc.read_config_parser (pathSuffix fname) with
      | some p => .ok p
      | none => .error .runtimeError) ∧
    Generated.ConfigSrc.readConfigElseRaises = "RuntimeError" :=
  ⟨parser_eq fname, rfl⟩

/-- **The parser table is total on the documented suffixes and rejects every other one**: `.yml` / `.yaml` are read
with the YAML parser, `.json` with the JSON parser, anything else raises. -/
theorem c16_parser_table_total (s : String) :
    ((Generated.ConfigSrc.read_config_parser s).isSome = true ↔ s ∈ documentedSuffixes) ∧
    (Generated.ConfigSrc.read_config_parser s = some .yaml ↔ (s = ".yml" ∨ s = ".yaml")) ∧
    (Generated.ConfigSrc.read_config_parser s = some .json ↔ s = ".json") := by
  refine ⟨?_, ?_, ?_⟩
  · constructor
    · intro h
      obtain ⟨p, hp⟩ := Option.isSome_iff_exists.1 h
      rcases (parser_some_iff s p).1 hp with ⟨h | h, _⟩ | ⟨h, _⟩ <;> simp [documentedSuffixes, h]
    · intro h
      simp only [documentedSuffixes, List.mem_cons, List.mem_nil_iff, or_false] at h
      rcases h with rfl | rfl | rfl <;> decide
  · rw [parser_some_iff]; simp
  · rw [parser_some_iff]; simp

/-- **`read_config` as written now returns the file's own content, validated as written**: for any parser and any
validator, the call returns `cfg` iff the suffix selects a parser, that parser made `cfg` of the file, and — only when
`validate` is set — `validate_config` accepted that very value `cfg` (not a merged or completed one); nothing is
merged before or after. -/
theorem read_config_is_source {ε : Type} (raised : ε) (parse : Parser → Except ε J) (vc : J → Except ε Unit)
    (s : String) (v : Bool) (cfg : J) :
    Generated.ConfigSrc.read_config raised parse vc s v = .ok cfg ↔
      ∃ p, Generated.ConfigSrc.read_config_parser s = some p ∧ parse p = .ok cfg ∧ (v = true → vc cfg = .ok ()) :=
  read_config_ok_iff raised parse vc s v cfg

/-- … and raises: for an unsupported suffix, when the parser raises, or — only when `validate` is set — what
`validate_config` raised on the parsed value -/
theorem read_config_raises_is_source {ε : Type} (raised : ε) (parse : Parser → Except ε J) (vc : J → Except ε Unit)
    (s : String) (v : Bool) (e : ε) :
    Generated.ConfigSrc.read_config raised parse vc s v = .error e ↔
      (Generated.ConfigSrc.read_config_parser s = none ∧ e = raised) ∨
      (∃ p, Generated.ConfigSrc.read_config_parser s = some p ∧ parse p = .error e) ∨
      (∃ p c, Generated.ConfigSrc.read_config_parser s = some p ∧ parse p = .ok c ∧ v = true ∧ vc c = .error e) :=
  read_config_error raised parse vc s v e

/-- **`validate_config` as written now**: `jsonschema.validate` receives exactly (instance = the argument, schema =
the packaged `schema/config.schema.json`, read inside the call with the JSON parser) and no validator class; nothing in
`validate.py` mentions the validator-extension API (`jsonschema.validators.extend`, `validator_for`, … — how
default-filling or type-extended validators are built).  With `jsonschema.validate` as modelled it is `validateConfig`. -/
theorem validate_config_is_source (cfg : J) :
    (∀ {ε : Type} (jsv : J → J → Except ε Unit),
      Generated.ConfigSrc.validate_config packagedData jsv cfg = jsv cfg Generated.configSchema) ∧
    Generated.ConfigSrc.validate_config packagedData jsonschemaValidate cfg =
      (if validateConfig cfg = true then .ok () else .error .validationError) ∧
    Generated.ConfigSrc.validateConfigArgs = ["instance", "schema"] ∧
    Generated.ConfigSrc.validateExtendedValidatorRefs = [] ∧
    Generated.ConfigSrc.validateConfigSchemaParser = .json :=
  ⟨fun jsv => validate_config_eq jsv cfg, by rw [validate_config_eq]; rfl, by decide, by decide, rfl⟩

/-- **Validation is applied to the file's own content**: `read_config(fname)` (as printed, with `validate_config` as
printed and the modelled `jsonschema.validate`) on a file with a documented suffix whose parser yields `content`
returns `content` itself iff `content` validates, and raises ValidationError otherwise; with `validate=False` it
returns `content` whatever it is. -/
theorem c16_read_config_validates_file_content (content : J) (s : String) (hs : s ∈ documentedSuffixes) :
    readFile content s true = (if validateConfig content = true then .ok content else .error .validationError) ∧
    readFile content s false = .ok content := by
  have h := (c16_parser_table_total s).1.2 hs
  obtain ⟨p, hp⟩ := Option.isSome_iff_exists.1 h
  constructor
  · rw [readFile_eq, hp]
    cases validateConfig content <;> simp
  · rw [readFile_eq, hp]; simp

/-- **Corollary: a file without a `qha` or `elast` section is rejected even though the defaults would supply them** —
and read without validation it is returned as written. -/
theorem c16_file_without_section_rejected (kv : KV) (s : String) (hs : s ∈ documentedSuffixes)
    (h : hasKey "qha" kv = false ∨ hasKey "elast" kv = false) :
    readFile (.obj kv) s true = .error .validationError ∧ readFile (.obj kv) s false = .ok (.obj kv) := by
  obtain ⟨h1, h2⟩ := c16_read_config_validates_file_content (.obj kv) s hs
  exact ⟨by rw [h1, c16_missing_section_rejected kv h]; rfl, h2⟩

/-- non-vacuity: the empty file `{}` is rejected by `read_config`, although its effective configuration (= the packaged
default, which does have both sections) validates; a file with both sections is accepted and returned unchanged -/
example : readFile (.obj []) ".yaml" true = .error .validationError ∧
    (match applyDefaultConfig id (.obj []) with
     | .ok r => validateConfig r && hasKey "qha" (match r with | .obj kv => kv | _ => []) | .error _ => false) = true ∧
    readFile (.obj [("qha", .obj []), ("elast", .obj [])]) ".json" true = .ok (.obj [("qha", .obj []), ("elast", .obj [])]) ∧
    readFile (.obj []) ".txt" false = .error .unsupportedSuffix := by
  decide +kernel

end Cij.C16
