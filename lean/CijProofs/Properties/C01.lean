/-
  C01 — thermal c11…c33, c12, c13, c23 are strain derivatives of the QHA free energy.

  Subject: the model `CijModel/NonShear.lean` (the same definitions the driver runs at `Float` against the real
  classes), instantiated at ℝ.  Its integer prefactor denominators are `Generated.prefLong` / `Generated.prefOff`,
  re-extracted from `nonshear.py` on every run.

  Setting.  A spectrum is an arbitrary `S : List (List Mode)` ([q][m]; any number of q-points; each row has
  `3·na` modes), a mode being functions ω(V), γ(V), g(V) with ω > 0, ω' = −γω/V, γ' = g/V at every V > 0
  (`Mode.Good`; nothing is assumed about the three Γ-point acoustic entries, which the code masks).
  Weights `w` are arbitrary with Σw ≠ 0.  The arrays handed to the code at volume V are
  `freqOf S V`, `mg0Of S V = [g]`, `mg1Of S V = [γ]`, `mg2Of S V = [γ·γ]` (`calculator.mode_gamma`).
  The unit constants are parameters h > 0, k > 0, h_div_k = h/k (their numerical values are checked against
  CODATA by the harness).

      F_zp(V)   = Σ_q (w_q/Σw) Σ_{m not Γ-acoustic} hω/2
      F_th(T,V) = Σ_q (w_q/Σw) Σ_{m not Γ-acoustic} kT ln(1 − e^{−hω/kT})          F_ph = F_zp + F_th
      Pof F V = −∂F/∂V  (`deriv`),        Aof F V = V ∂²F/∂V² − Pof F V  (`deriv (deriv F)`)
-/
import CijProofs.Lemmas.NonShearCalculus
import CijProofs.Lemmas.NonShearSource
import CijProofs.Lemmas.ModeGammaSource
import CijProofs.Lemmas.NonShearGlueSource

namespace Cij.C01

open Cij.NonShear

/-! #### list level: `average_over_modes · 3 · na` is the weighted sum over non-Γ-acoustic modes -/

/-- For every spectrum shape (any list of q-points, rows of 3·na entries of *any* type), any weights with
Σw ≠ 0 and any per-mode quantity φ:  average_over_modes([φ]) · 3 · na = Σ_q (w_q/Σw) Σ_{m ∉ Γ-acoustic} φ_qm. -/
theorem c01_average_eq_sum {μ : Type} (S : List (List μ)) (w : List ℝ) (φ : μ → ℝ) (na : ℕ) (hna : na ≠ 0)
    (hlen : ∀ row ∈ S, row.length = 3 * na) (hw : sumL w ≠ 0) :
    averageOverModes (S.map (List.map φ)) w * 3 * na = wsum w (dropΓ S) φ :=
  average_eq_wsum S w φ na hna hlen hw

/-- masked = excluded: the entries `[0][0:3]` do not influence `average_over_modes` at all -/
theorem c01_gamma_acoustic_ignored (r r' : List ℝ) (X : List (List ℝ)) (w : List ℝ)
    (h : r.drop 3 = r'.drop 3) (hl : r.length = r'.length) :
    averageOverModes (r :: X) w = averageOverModes (r' :: X) w := by
  unfold averageOverModes clearGamma
  simp only [List.map_cons, mean, zeroFirst_length, sumL_zeroFirst, h, hl]

/-! #### one mode: closed forms of −∂f/∂V and V∂²f/∂V² − (−∂f/∂V) -/

/-- f_zp = hω/2:   −∂f/∂V = hγω/(2V),   V∂²f/∂V² − (−∂f/∂V) = hω(γ² − g)/(2V) -/
theorem c01_mode_zero_point (h : ℝ) (m : Mode) (hm : m.Good) (V : ℝ) (hV : 0 < V) :
    Pof (fun v => h * m.ω v / 2) V = h * m.γ V * m.ω V / (2 * V) ∧
    Aof (fun v => h * m.ω v / 2) V = h * m.ω V * (m.γ V ^ 2 - m.g V) / (2 * V) :=
  Pof_Aof_of_hasDerivAt (fzp h m) (pzp h m) (azp h m V) V hV
    (fun v hv => hasDerivAt_fzp h m hm v hv) (hasDerivAt_pzp h m hm V hV)

/-- f_th = kT ln(1 − e^{−Q}), Q = hω/kT, T > 0:
−∂f/∂V = (kT/V) γ Q/(e^Q − 1),
V∂²f/∂V² − (−∂f/∂V) = (kT/V) (γ² (Q/(e^Q−1) − Q²e^Q/(e^Q−1)²) − g Q/(e^Q−1)). -/
theorem c01_mode_thermal (h k T : ℝ) (hh : 0 < h) (hk : 0 < k) (hT : 0 < T) (m : Mode) (hm : m.Good)
    (V : ℝ) (hV : 0 < V) :
    let Q := h * m.ω V / (k * T)
    let Q1 := Q / (Real.exp Q - 1)
    let Q2 := Q ^ 2 * Real.exp Q / (Real.exp Q - 1) ^ 2
    Pof (fun v => k * T * Real.log (1 - Real.exp (-(h * m.ω v / (k * T))))) V = k * T / V * m.γ V * Q1 ∧
    Aof (fun v => k * T * Real.log (1 - Real.exp (-(h * m.ω v / (k * T))))) V
      = k * T / V * (m.γ V ^ 2 * (Q1 - Q2) - m.g V * Q1) := by
  intro Q Q1 Q2
  have hdk : 0 < h / k := by positivity
  have hQ : Qm (h / k) T m V = Q := by
    simp only [Qm, Q]; field_simp
  have hQpos : 0 < Q := by rw [← hQ]; exact Qm_pos m hm hV hdk hT
  have := Pof_Aof_of_hasDerivAt (fth h k T m) (pth k (h / k) T m) (ath k (h / k) T m V) V hV
    (fun v hv => hasDerivAt_fth h k (h / k) T hh hk rfl hT m hm v hv)
    (hasDerivAt_pth k (h / k) T hdk hT m hm V hV)
  simp only [pth, ath, hQ, q2_eq_classic Q hQpos.ne', q1_real] at this
  exact this

/-! #### the model's contributions are the strain-derivative formulas — each part separately -/

section Spectrum
variable (h k hdk : ℝ) (na : ℕ) (S : List (List Mode)) (w : List ℝ)
variable (hh : 0 < h) (hk : 0 < k) (hhdk : hdk = h / k)
variable (hna : na ≠ 0) (hlen : ∀ row ∈ S, row.length = 3 * na) (hw : sumL w ≠ 0) (hS : GoodS S)

include hna hlen hw hS in
/-- zero-point part, longitudinal class with strain pair (e₀, e₁):  A_zp/(5e₀e₁) + P_zp/(3e₀) -/
theorem c01_longitudinal_zero_point (V e0 e1 pst : ℝ) (hV : 0 < V) (_he0 : e0 ≠ 0) (_he1 : e1 ≠ 0) :
    zeroPointLongAt h na V (mgLong (sliceOf S V e0 e1 pst)) (freqOf S V) w
      = Aof (Fzp h w S) V / (5 * (e0 * e1)) + Pof (Fzp h w S) V / (3 * e0) := by
  obtain ⟨hP, hA⟩ := Fzp_PA h w S hS V hV
  rw [hP, hA]
  exact zeroPointLong_eq h na S w V e0 e1 pst hna hlen hw

include hh hk hhdk hna hlen hw hS in
/-- thermal part, longitudinal class, every T ≥ 0 (at T = 0 both sides vanish) -/
theorem c01_longitudinal_thermal (T V e0 e1 pst : ℝ) (hT : 0 ≤ T) (hV : 0 < V) (_he0 : e0 ≠ 0) (_he1 : e1 ≠ 0) :
    thermalLongAt k hdk na T V (mgLong (sliceOf S V e0 e1 pst)) (freqOf S V) w
      = Aof (Fth h k T w S) V / (5 * (e0 * e1)) + Pof (Fth h k T w S) V / (3 * e0) := by
  rcases hT.eq_or_lt with h0 | hpos
  · subst h0
    obtain ⟨hP, hA⟩ := Fth_zero_PA h k w S V
    rw [hP, hA]
    simp [thermalLongAt]
  · obtain ⟨hP, hA⟩ := Fth_PA h k hdk T hh hk hhdk hpos w S hS V hV
    rw [hP, hA]
    exact thermalLong_eq k hdk na S w T V e0 e1 pst hna hlen hw hpos.ne'

include hh hk hhdk hna hlen hw hS in
/-- **C01, longitudinal.**  value_isothermal of c_ii (strain fraction e) at any grid point T ≥ 0, V > 0 equals
A/(5e²) + P_ph/(3e) with P_ph = −∂F_ph/∂V, A = V∂²F_ph/∂V² − P_ph. -/
theorem c01_longitudinal (T V e pst : ℝ) (hT : 0 ≤ T) (hV : 0 < V) (_he : e ≠ 0) :
    valueIsothermalLongAt { h := h, k := k, hdk := hdk, na := na } w T (sliceOf S V e e pst)
      = Aof (Fph h k T w S) V / (5 * e ^ 2) + Pof (Fph h k T w S) V / (3 * e) := by
  have hzp := zeroPointLong_eq h na S w V e e pst hna hlen hw
  obtain ⟨hPz, hAz⟩ := Fzp_PA h w S hS V hV
  unfold valueIsothermalLongAt
  show zeroPointLongAt h na V (mgLong (sliceOf S V e e pst)) (freqOf S V) w
      + thermalLongAt k hdk na T V (mgLong (sliceOf S V e e pst)) (freqOf S V) w = _
  rcases hT.eq_or_lt with h0 | hpos
  · subst h0
    rw [Fph_zero, hPz, hAz, hzp]
    simp [thermalLongAt]; ring
  · obtain ⟨hP, hA⟩ := Fph_PA h k hdk T hh hk hhdk hpos w S hS V hV
    rw [hP, hA, hzp, thermalLong_eq k hdk na S w T V e e pst hna hlen hw hpos.ne']
    ring

include hna hlen hw hS in
/-- zero-point part, off-diagonal class:  A_zp/(15e_ie_j) -/
theorem c01_offdiagonal_zero_point (V ei ej pst : ℝ) (hV : 0 < V) (_hei : ei ≠ 0) (_hej : ej ≠ 0) :
    zeroPointOffAt h na V (mgOff (sliceOf S V ei ej pst)) (freqOf S V) w
      = Aof (Fzp h w S) V / (15 * (ei * ej)) := by
  rw [(Fzp_PA h w S hS V hV).2]
  exact zeroPointOff_eq h na S w V ei ej pst hna hlen hw

include hh hk hhdk hna hlen hw hS in
/-- thermal part, off-diagonal class, every T ≥ 0:  A_th/(15e_ie_j) -/
theorem c01_offdiagonal_thermal (T V ei ej pst : ℝ) (hT : 0 ≤ T) (hV : 0 < V) (_hei : ei ≠ 0) (_hej : ej ≠ 0) :
    thermalOffAt k hdk na T V (mgOff (sliceOf S V ei ej pst)) (freqOf S V) w
      = Aof (Fth h k T w S) V / (15 * (ei * ej)) := by
  rcases hT.eq_or_lt with h0 | hpos
  · subst h0
    rw [(Fth_zero_PA h k w S V).2]
    simp [thermalOffAt]
  · rw [(Fth_PA h k hdk T hh hk hhdk hpos w S hS V hV).2]
    exact thermalOff_eq k hdk na S w T V ei ej pst hna hlen hw hpos.ne'

include hh hk hhdk hna hlen hw hS in
/-- **C01, off-diagonal.**  value_isothermal of c_ij (i ≠ j ≤ 3) equals A/(15e_ie_j) + (P − P_static) where P is
the supplied total pressure at the grid point and P_static the supplied static pressure at that volume. -/
theorem c01_offdiagonal (T V ei ej P pst : ℝ) (hT : 0 ≤ T) (hV : 0 < V) (_hei : ei ≠ 0) (_hej : ej ≠ 0) :
    valueIsothermalOffAt { h := h, k := k, hdk := hdk, na := na } w T P (sliceOf S V ei ej pst)
      = Aof (Fph h k T w S) V / (15 * (ei * ej)) + (P - pst) := by
  have hzp := zeroPointOff_eq h na S w V ei ej pst hna hlen hw
  obtain ⟨_, hAz⟩ := Fzp_PA h w S hS V hV
  unfold valueIsothermalOffAt
  show zeroPointOffAt h na V (mgOff (sliceOf S V ei ej pst)) (freqOf S V) w
      + thermalOffAt k hdk na T V (mgOff (sliceOf S V ei ej pst)) (freqOf S V) w + (P - pst) = _
  rcases hT.eq_or_lt with h0 | hpos
  · subst h0
    rw [Fph_zero, hAz, hzp]
    simp [thermalOffAt]
  · obtain ⟨_, hA⟩ := Fph_PA h k hdk T hh hk hhdk hpos w S hS V hV
    rw [hA, hzp, thermalOff_eq k hdk na S w T V ei ej pst hna hlen hw hpos.ne']
    ring

include hh hk hhdk hna hlen hw hS in
/-- the statement's literal form: when the supplied total pressure is static + phonon pressure of the same
spectrum, c_ij = A/(15e_ie_j) + P_ph -/
theorem c01_offdiagonal_phonon_pressure (T V ei ej P pst : ℝ) (hT : 0 ≤ T) (hV : 0 < V) (hei : ei ≠ 0)
    (hej : ej ≠ 0) (hP : P = pst + Pof (Fph h k T w S) V) :
    valueIsothermalOffAt { h := h, k := k, hdk := hdk, na := na } w T P (sliceOf S V ei ej pst)
      = Aof (Fph h k T w S) V / (15 * (ei * ej)) + Pof (Fph h k T w S) V := by
  rw [c01_offdiagonal h k hdk na S w hh hk hhdk hna hlen hw hS T V ei ej P pst hT hV hei hej, hP]
  ring

include hh hk hhdk hna hlen hw hS in
/-- the same identity for a whole (T, V) grid: every entry `[t][v]` of the model's `value_isothermal` array -/
theorem c01_longitudinal_grid (ts : List (TempRow ℝ)) (pts : List (ℝ × ℝ × ℝ))
    (hts : ∀ r ∈ ts, 0 ≤ r.T) (hpts : ∀ x ∈ pts, 0 < x.1 ∧ x.2.1 ≠ 0) :
    valueIsothermalLong { h := h, k := k, hdk := hdk, na := na } w ts
        (pts.map fun x => sliceOf S x.1 x.2.1 x.2.1 x.2.2)
      = ts.map fun r => pts.map fun x =>
          Aof (Fph h k r.T w S) x.1 / (5 * x.2.1 ^ 2) + Pof (Fph h k r.T w S) x.1 / (3 * x.2.1) := by
  unfold valueIsothermalLong
  refine List.map_congr_left (fun r hr => ?_)
  rw [List.map_map]
  refine List.map_congr_left (fun x hx => ?_)
  exact c01_longitudinal h k hdk na S w hh hk hhdk hna hlen hw hS r.T x.1 x.2.1 x.2.2 (hts r hr)
    (hpts x hx).1 (hpts x hx).2

end Spectrum

/-! #### clauses that hold for arbitrary arrays (no hypothesis on the spectrum at all) -/

/-- the off-diagonal pressure term is exactly supplied total pressure − supplied static pressure -/
theorem c01_offdiagonal_pressure_term (c : Consts ℝ) (w : List ℝ) (T P : ℝ) (s : VolSlice ℝ) :
    valueIsothermalOffAt c w T P s
      - (zeroPointOffAt c.h c.na s.V (mgOff s) s.freq w + thermalOffAt c.k c.hdk c.na T s.V (mgOff s) s.freq w)
      = P - s.pstatic := by
  unfold valueIsothermalOffAt; ring

/-- rows with T = 0: the thermal part is exactly 0, so value_isothermal is the zero-point part -/
theorem c01_T0 (c : Consts ℝ) (w : List ℝ) (s : VolSlice ℝ) (g : ModeGamma ℝ) :
    thermalLongAt c.k c.hdk c.na 0 s.V g s.freq w = 0 ∧ thermalOffAt c.k c.hdk c.na 0 s.V g s.freq w = 0 ∧
    valueIsothermalLongAt c w 0 s = zeroPointLongAt c.h c.na s.V (mgLong s) s.freq w := by
  simp [thermalLongAt, thermalOffAt, valueIsothermalLongAt]

/-! #### non-vacuity: a concrete spectrum satisfying every hypothesis, and the numbers it gives -/

/-- two atoms, one q-point of weight 2, six modes ω = 100/V (γ = 1, g = 0) -/
noncomputable abbrev Sx : List (List Mode) := [List.replicate 6 (invMode 100)]

example : GoodS Sx ∧ (∀ row ∈ Sx, row.length = 3 * 2) ∧ sumL ([2] : List ℝ) ≠ 0 := by
  refine ⟨?_, by simp [Sx], by simp⟩
  intro row hr m hm
  simp only [dropΓ, List.mem_singleton] at hr
  subst hr
  have : m = invMode 100 := by
    simp only [List.replicate, List.drop, List.mem_cons] at hm
    rcases hm with h | h | h | h <;> first | exact h | simp at h
  rw [this]; exact invMode_good 100 (by norm_num)

/-- with h = 1, V = 1, e = 1/3: A_zp = 150, P_zp = 150, so c_ii^zp = 150/(5/9) + 150/1 = 420 (not 0 = 0) -/
example : zeroPointLongAt 1 2 1 (mgLong (sliceOf Sx 1 (1/3) (1/3) 0)) (freqOf Sx 1) [2] = 420 := by
  rw [zeroPointLong_eq 1 2 Sx [2] 1 (1/3) (1/3) 0 (by norm_num) (by simp [Sx]) (by simp)]
  simp [Azp, Pzp, wsum, dropΓ, List.replicate, azp, pzp, invMode]
  norm_num

/-! #### the model IS the source: bodies re-extracted from nonshear.py on this run

`tools/gen_tables.py` parses the bodies of `zero_point_contribution`, `thermal_contribution`, `value_isothermal` (both
classes), the `mode_gamma` wiring and the return expressions of `Q1`, `Q2` from the working tree into expression trees
(`Generated.ns*`, `Generated.mgWiring*`, `Generated.q1Expr/q2Expr`).  The model functions about which everything above is
proved are *definitionally* those trees (for every scalar type — `Lemmas/NonShearSource.lean`, by `rfl`); here the
statement at ℝ.  A changed sign, index or factor in those Python bodies makes these theorems fail to check. -/

open Cij.NSExpr in
theorem c01_model_is_source (c : Consts ℝ) (w : List ℝ) (T P cv : ℝ) (s : VolSlice ℝ) (g : ModeGamma ℝ) (a b d e : ℝ) :
    zeroPointLongAt c.h c.na s.V g s.freq w = evalBody (envAt c w T P cv s g a b d e) Generated.nsZpLong ∧
    zeroPointOffAt c.h c.na s.V g s.freq w = evalBody (envAt c w T P cv s g a b d e) Generated.nsZpOff ∧
    thermalLongAt c.k c.hdk c.na T s.V g s.freq w = evalBody (envAt c w T P cv s g a b d e) Generated.nsThLong ∧
    thermalOffAt c.k c.hdk c.na T s.V g s.freq w = evalBody (envAt c w T P cv s g a b d e) Generated.nsThOff ∧
    valueIsothermalLongAt c w T s = evalBody (envAt c w T P cv s (mgLong s)
        (zeroPointLongAt c.h c.na s.V (mgLong s) s.freq w) (thermalLongAt c.k c.hdk c.na T s.V (mgLong s) s.freq w) d e)
        Generated.nsIsoLong ∧
    valueIsothermalOffAt c w T P s = evalBody (envAt c w T P cv s (mgOff s)
        (zeroPointOffAt c.h c.na s.V (mgOff s) s.freq w) (thermalOffAt c.k c.hdk c.na T s.V (mgOff s) s.freq w) d e)
        Generated.nsIsoOff :=
  ⟨rfl, rfl, rfl, rfl, rfl, rfl⟩

theorem c01_mode_gamma_wiring_is_source :
    Generated.mgWiringLong = [([0], 0), ([1, 0], 1), ([1, 1], 1), ([2], 2)] ∧
    Generated.mgWiringOff = [([0], 0), ([1, 0], 1), ([1, 1], 1), ([2], 2)] :=
  Cij.NSExpr.modeGamma_wiring_is_source

/-- the model's Bose factors are the translated `Q1`, `Q2` return expressions -/
theorem c01_q_is_source (x : ℝ) :
    q1 x = Generated.q1Expr.eval Real.exp x ∧ q2 x = Generated.q2Expr.eval Real.exp x := by
  constructor
  · simp [q1, Generated.q1Expr, QExpr.eval]
  · simp [q2, Generated.q2Expr, QExpr.eval, List.replicate]

/-! #### the glue IS the source: averaging, weights, prefactors, Q, masks, class table — re-extracted from nonshear.py on this run

`tools/gens/nonshear_src.py` translates what the generators above leave out (`Generated/NonShearGlue.lean`): the module function
`average_over_modes` as a reduction tree (copy → `clear_gamma_point` → `numpy.average` over the mode axis → `numpy.average` with
`weights=q_weights` over the q axis), `clear_gamma_point` as index data, the method `average_over_modes(self, amount)`, `q_weights`,
the accessors, `__init__`, `prefactors` of both classes as whole expression trees, the broadcasting subscripts, `Q`, the
`ret[numpy.where(self.t_array == 0), :] = 0` statements, the unit conversions, the class table.  `CijModel/NSGlue.lean` gives these
data their meaning; the theorems below say that the model functions about which everything above is proved ARE that meaning, for
all inputs.  The `…_source` theorems at the end restate the headline identities for `Source.valueIsothermalAt`, a
`value_isothermal` assembled from translated pieces only. -/

section GlueSource
open Cij.NSGlue Cij.NSExpr Generated.NonShearGlue

/-- `NonShear.averageOverModes` is the meaning of the translated method → module function → reduction tree, for ALL arrays and
weights; the tree clears a COPY (the caller's array is untouched), `clear_gamma_point` works in place on what it is given -/
theorem c01_glue_is_source_average (x : List (List ℝ)) (w : List ℝ) :
    methodAvg avgMethod avgTree clearSpec x w = .a0 (averageOverModes x w) ∧
    avgTree.mutatesInput = false ∧ clearSpec.inPlaceOnly = true :=
  ⟨methodAvg_gen x w, by decide, by decide⟩

/-- the translated `clear_gamma_point` on any `[q][m]` array, any number of q-points: the first three entries of the FIRST row
become 0, every other entry of every row is kept -/
theorem c01_glue_is_source_clear (r : List ℝ) (X : List (List ℝ)) :
    clearAt clearSpec (r :: X) = (List.replicate (min 3 r.length) 0 ++ r.drop 3) :: X := by
  rw [clearAt_gen]
  show zeroFirst 3 r :: X = _
  congr 1
  match r with
  | [] => rfl
  | [a] => simp [zeroFirst]
  | [a, b] => simp [zeroFirst, List.replicate]
  | a :: b :: c :: rest => simp [zeroFirst, List.replicate]

/-- **the translated averaging is the weighted mode sum**: for every spectrum shape (ANY number of q-points, rows of 3·na entries),
any weights with Σw ≠ 0 and any per-mode quantity φ, `self.average_over_modes([φ])` as translated, times 3·na, is
Σ_q (w_q / Σw) Σ_{m ∉ Γ-acoustic} φ_qm: only the three acoustic modes of the first q-point are left out, whatever nq, and the
weights are divided by their exact sum -/
theorem c01_glue_is_source_average_sum {μ : Type} (S : List (List μ)) (w : List ℝ) (φ : μ → ℝ) (na : ℕ) (hna : na ≠ 0)
    (hlen : ∀ row ∈ S, row.length = 3 * na) (hw : sumL w ≠ 0) :
    ∃ a, srcLong.avg (S.map (List.map φ)) w = some a ∧ srcOff.avg (S.map (List.map φ)) w = some a ∧
      a * 3 * na = wsum w (dropΓ S) φ :=
  ⟨_, srcLong_avg _ w, srcOff_avg _ w, average_eq_wsum S w φ na hna hlen hw⟩

/-- `q_weights` as translated: the second components of `calculator.qha_input.weights`, in file order, nothing scaled, rounded,
normalised or dropped -/
theorem c01_glue_is_source_weights {β : Type} (pairs : List (β × ℝ)) :
    evalQWeights qWeights pairs = some (pairs.map (·.2)) ∧ qWeights.path = ["calculator", "qha_input", "weights"] :=
  ⟨rfl, rfl⟩

/-- the model's prefactors are the translated `prefactors` expressions for all strain fractions; in closed form
(1/(5e²), 1/(3e)) and (1/(15e_ie_j), 1/(3e_i), 1/(3e_j)) -/
theorem c01_glue_is_source_prefactors (e0 e1 : ℝ) :
    prefactorsLong e0 e1 = evalPref prefExprsLong e0 e1 ∧ prefactorsOff e0 e1 = evalPref prefExprsOff e0 e1 ∧
    (e0 ≠ 0 → (evalPref prefExprsLong e0 e0).p0 = 1 / (5 * e0 ^ 2) ∧ (evalPref prefExprsLong e0 e0).p2 = 1 / (5 * e0 ^ 2) ∧
      (evalPref prefExprsLong e0 e0).p10 = 1 / (3 * e0)) ∧
    (e0 ≠ 0 → e1 ≠ 0 → (evalPref prefExprsOff e0 e1).p0 = 1 / (15 * (e0 * e1)) ∧
      (evalPref prefExprsOff e0 e1).p2 = 1 / (15 * (e0 * e1))) := by
  refine ⟨rfl, rfl, fun h => ?_, fun h0 h1 => ?_⟩
  · exact ⟨(prefLong_closed e0 h).1, (prefLong_closed e0 h).2.1, (prefLong_closed e0 h).2.2.1⟩
  · exact ⟨(prefOff_closed e0 e1 h0 h1).1, (prefOff_closed e0 e1 h0 h1).2.1⟩

/-- `mode_gamma` as translated (wiring + the broadcasting subscript of each prefactor: one prefactor per VOLUME) is the model's
`modeGamma`, in both classes; and every broadcasting subscript of every method has the pattern the per-(T, V) model assumes -/
theorem c01_glue_is_source_mode_gamma (p : Pref ℝ) (mg0 mg1 mg2 : List (List ℝ)) :
    wiringGamma Generated.mgWiringLong mgBroadcastLong p mg0 mg1 mg2 = some (modeGamma p mg0 mg1 mg2) ∧
    wiringGamma Generated.mgWiringOff mgBroadcastOff p mg0 mg1 mg2 = some (modeGamma p mg0 mg1 mg2) ∧
    bcastTable.all bcastOk = true :=
  ⟨wiringGammaLong_gen p mg0 mg1 mg2, wiringGammaOff_gen p mg0 mg1 mg2, by decide⟩

/-- `Q` as translated is `h_div_k · (ω / T)`, elementwise, with no special case (T = 0 and ω ≤ 0 are not treated here: the
T = 0 rows are overwritten afterwards, the Γ-acoustic entries by `clear_gamma_point`) -/
theorem c01_glue_is_source_Q (hdk T : ℝ) (freq : List (List ℝ)) :
    Qarr hdk T freq = map2 (fun f => evalQDef hdk T f qDef) freq ∧ ∀ f, evalQDef hdk T f qDef = hdk * (f / T) :=
  ⟨rfl, fun _ => rfl⟩

/-- the translated `ret[numpy.where(self.t_array == 0), :] = 0` on ANY temperature grid and any `[t][v]` array: exactly the rows
whose temperature IS 0 become 0 — wherever they stand, none, one or several; and the model's `thermal_contribution` grids are
the translated masks applied to the translated unmasked bodies -/
theorem c01_glue_is_source_T0_rows (c : Consts ℝ) (w : List ℝ) (ts : List (TempRow ℝ)) (vs : List (VolSlice ℝ))
    (temps : List ℝ) (grid : List (List ℝ)) :
    applyMasks masksThLong temps grid
      = some (List.zipWith (fun T row => if T = 0 then row.map (fun _ => (0 : ℝ)) else row) temps grid) ∧
    applyMasks masksThOff temps grid
      = some (List.zipWith (fun T row => if T = 0 then row.map (fun _ => (0 : ℝ)) else row) temps grid) ∧
    applyMasks masksThLong (ts.map (·.T)) (rawGrid Generated.nsThLong mgLong c w ts vs) = some (thermalLong c w ts vs) ∧
    applyMasks masksThOff (ts.map (·.T)) (rawGrid Generated.nsThOff mgOff c w ts vs) = some (thermalOff c w ts vs) ∧
    masksZpLong = [] ∧ masksZpOff = [] ∧ masksIsoLong = [] ∧ masksIsoOff = [] := by
  refine ⟨?_, ?_, thermalLong_mask_gen c w ts vs, thermalOff_mask_gen c w ts vs, masks_gen.2.2.2.2.1,
    masks_gen.2.2.2.2.2.1, masks_gen.2.2.2.2.2.2.1, masks_gen.2.2.2.2.2.2.2.1⟩
  · rw [masks_gen.1, applyMasks_t0]; simp
  · rw [masks_gen.2.1, applyMasks_t0]; simp

/-- accessors hand over the calculator's arrays of the same name; `__init__` stores `e` and the calculator untouched and reads
`na` off the calculator -/
theorem c01_glue_is_source_accessors : AccessorsKnown := by decide

/-- every `units.Quantity(…).to(…).magnitude` is dimensionally consistent; h: `_h` J·m → Ry·cm, k: `_k` eV/K → Ry/K,
`h_div_k`: `_h/_k` with units(h)/units(k) on both sides (the hypothesis h_div_k = h/k of the theorems above) -/
theorem c01_glue_is_source_units : UnitsKnown := by decide

/-- the off-diagonal class overrides exactly prefactors, mode_gamma, zero_point_contribution, thermal_contribution,
value_isothermal and inherits the rest (averaging, weights, Q, Q1, Q2 included) -/
theorem c01_glue_is_source_hierarchy : HierarchyKnown := by decide

/-- every function of the module and every method of its three classes is translated (tree / data) — the list is complete -/
theorem c01_glue_coverage_complete : CoverageComplete := by decide

/-- no module-level container (nothing a result could be cached in between calculators) -/
theorem c01_glue_no_module_state : NoModuleState := by decide

variable (h k hdk : ℝ) (na : ℕ) (S : List (List Mode)) (w : List ℝ)
variable (hh : 0 < h) (hk : 0 < k) (hhdk : hdk = h / k)
variable (hna : na ≠ 0) (hlen : ∀ row ∈ S, row.length = 3 * na) (hw : sumL w ≠ 0) (hS : GoodS S)

include hh hk hhdk hna hlen hw hS in
/-- **C01, longitudinal, on the source.**  `value_isothermal` ASSEMBLED FROM THE TRANSLATED PIECES (translated averaging tree and
method, translated prefactor expressions, wiring and broadcasting, translated `Q`, `Q1`, `Q2`, translated bodies, translated
T = 0 statement) at any grid point T ≥ 0, V > 0 equals A/(5e²) + P_ph/(3e) -/
theorem c01_longitudinal_source (T V e pst P cv : ℝ) (hT : 0 ≤ T) (hV : 0 < V) (he : e ≠ 0) :
    srcLong.valueIsothermalAt q1Src q2Src { h := h, k := k, hdk := hdk, na := na } w T P cv (sliceOf S V e e pst)
      = some (Aof (Fph h k T w S) V / (5 * e ^ 2) + Pof (Fph h k T w S) V / (3 * e)) := by
  rw [q1Src_eq, q2Src_eq, srcLong_valueIsothermal,
    c01_longitudinal h k hdk na S w hh hk hhdk hna hlen hw hS T V e pst hT hV he]

include hh hk hhdk hna hlen hw hS in
/-- **C01, off-diagonal, on the source.**  A/(15e_ie_j) + (P − P_static) -/
theorem c01_offdiagonal_source (T V ei ej P pst cv : ℝ) (hT : 0 ≤ T) (hV : 0 < V) (hei : ei ≠ 0) (hej : ej ≠ 0) :
    srcOff.valueIsothermalAt q1Src q2Src { h := h, k := k, hdk := hdk, na := na } w T P cv (sliceOf S V ei ej pst)
      = some (Aof (Fph h k T w S) V / (15 * (ei * ej)) + (P - pst)) := by
  rw [q1Src_eq, q2Src_eq, srcOff_valueIsothermal,
    c01_offdiagonal h k hdk na S w hh hk hhdk hna hlen hw hS T V ei ej P pst hT hV hei hej]

include hh hk hhdk hna hlen hw hS in
/-- zero-point and thermal part separately, on the source, both classes -/
theorem c01_parts_source (T V e0 e1 pst P cv : ℝ) (hT : 0 ≤ T) (hV : 0 < V) (he0 : e0 ≠ 0) (he1 : e1 ≠ 0) :
    srcLong.zeroPointAt q1Src q2Src { h := h, k := k, hdk := hdk, na := na } w T P cv (sliceOf S V e0 e1 pst)
      = some (Aof (Fzp h w S) V / (5 * (e0 * e1)) + Pof (Fzp h w S) V / (3 * e0)) ∧
    srcLong.thermalAt q1Src q2Src { h := h, k := k, hdk := hdk, na := na } w T P cv (sliceOf S V e0 e1 pst)
      = some (Aof (Fth h k T w S) V / (5 * (e0 * e1)) + Pof (Fth h k T w S) V / (3 * e0)) ∧
    srcOff.zeroPointAt q1Src q2Src { h := h, k := k, hdk := hdk, na := na } w T P cv (sliceOf S V e0 e1 pst)
      = some (Aof (Fzp h w S) V / (15 * (e0 * e1))) ∧
    srcOff.thermalAt q1Src q2Src { h := h, k := k, hdk := hdk, na := na } w T P cv (sliceOf S V e0 e1 pst)
      = some (Aof (Fth h k T w S) V / (15 * (e0 * e1))) := by
  rw [q1Src_eq, q2Src_eq, srcLong_zeroPoint, srcLong_thermal, srcOff_zeroPoint, srcOff_thermal]
  exact ⟨congrArg some (c01_longitudinal_zero_point h na S w hna hlen hw hS V e0 e1 pst hV he0 he1),
    congrArg some (c01_longitudinal_thermal h k hdk na S w hh hk hhdk hna hlen hw hS T V e0 e1 pst hT hV he0 he1),
    congrArg some (c01_offdiagonal_zero_point h na S w hna hlen hw hS V e0 e1 pst hV he0 he1),
    congrArg some (c01_offdiagonal_thermal h k hdk na S w hh hk hhdk hna hlen hw hS T V e0 e1 pst hT hV he0 he1)⟩

end GlueSource

/-- non-vacuity of the source evaluators: the translated averaging on a concrete 2-q-point array with weights (1, 3):
the three Γ-acoustic entries of the first q-point are ignored, the second q-point counts in full -/
example : Cij.NSGlue.srcLong.avg [[7, 7, 7, 3], [1, 1, 1, 1]] ([1, 3] : List ℝ) = some (15 / 16) := by
  rw [Cij.NSGlue.srcLong_avg]
  norm_num [averageOverModes, clearGamma, zeroFirst, mean, sumL]

/-- … and a temperature grid where T = 0 is the SECOND row and occurs twice -/
example : Cij.NSGlue.applyMasks Generated.NonShearGlue.masksThLong ([300, 0, 0] : List ℝ) [[1, 2], [3, 4], [5, 6]]
    = some [[1, 2], [0, 0], [0, 0]] := by
  rw [Cij.NSGlue.masks_gen.1, Cij.NSGlue.applyMasks_t0]
  simp

/-! #### ties shared with other properties

The statement of this property also rests on code whose translation is owned by another property's file; the theorems are restated
here so that this property's obligations are re-checked against those files too (a change there breaks THIS check's proof as well). -/

/-- the glue of `cij/core/mode_gamma.py` this property's statement rests on (which member of the returned triple is γ, which
V∂γ/∂V, the signs): every `interpolate_mode_*` function returns `(exp s, −s′, −s″)` as translated on this run -/
theorem c01_mode_glue_is_source : ∀ e ∈ Generated.modeReturnPattern, e.2 = Cij.Interp.canonicalPattern :=
  Cij.Interp.return_pattern_is_source

end Cij.C01
