/-
  C06 — (T,V) → (T,P) conversion evaluates each quantity at the volume where P(T,V)=P.

  Every statement is about `CijModel/V2P.lean` (the functions the correspondence run executes at `Float`),
  here over an arbitrary linearly ordered field `α` (ℝ and ℚ are instances).

  Proved: the algebraic and the discrete content of the property —
    * the 4-point Lagrange rule is exact for every quantity that is a polynomial of degree ≤ 3 in P on the
      window (in particular the pressure field itself comes back as the requested pressures, and a quantity
      tabulated at a node pressure is returned unchanged),
    * the bisection brackets the requested pressure (loop invariant), also on the padded row used by `v2p`,
      and the bracket is the unique one when P increases strictly along the volume axis,
    * cij's range check accepts exactly the grids that stay below P(T, V_last) for every T,
    * every pressure-base quantity is the same `v2p` with the same pressure field and the same target grid.
  Not proved (numerical analysis about qha's scheme on arbitrary data; monitored by harness/c06.py):
    * the size of the interpolation error for quantities that are not cubic in P,
    * `P(T, V(T,P)) = P` and `V(T,P)` decreasing in P for isotherms along which V is NOT a cubic polynomial of P
      (`c06_volume_roundtrip_cubic`, `c06_volumes_tp_roundtrip_cubic`: exact whenever V is a polynomial of degree ≤ 3 in P
      along the isotherm — the model interpolates V over the abscissa P; `c06_volume_roundtrip_affine_partial` is the
      affine special case; `c06_roundtrip_inexact_for_cubic_in_V`: P an invertible cubic of V is NOT enough).
-/
import CijProofs.Lemmas.V2P
import Generated.PressureBaseSpec
import CijProofs.Lemmas.AdapterGuardSource
namespace Cij.C06

open Cij.V2P

section Lagrange
variable {α : Type} [Field α]

/-- The interpolation rule reproduces every polynomial of degree ≤ 3 in P, for pairwise distinct nodes. -/
theorem lagrange4_exact_cubic (a b c d x x0 x1 x2 x3 : α)
    (h01 : x0 ≠ x1) (h02 : x0 ≠ x2) (h03 : x0 ≠ x3) (h12 : x1 ≠ x2) (h13 : x1 ≠ x3) (h23 : x2 ≠ x3) :
    lagrange4 x x0 x1 x2 x3
      (a + b * x0 + c * x0 ^ 2 + d * x0 ^ 3) (a + b * x1 + c * x1 ^ 2 + d * x1 ^ 3)
      (a + b * x2 + c * x2 ^ 2 + d * x2 ^ 3) (a + b * x3 + c * x3 ^ 2 + d * x3 ^ 3)
      = a + b * x + c * x ^ 2 + d * x ^ 3 :=
  lagrange4_cubic a b c d x x0 x1 x2 x3 h01 h02 h03 h12 h13 h23

/-- … in particular the identity: interpolating the nodes' own abscissae returns the evaluation point. -/
theorem lagrange4_identity (x x0 x1 x2 x3 : α)
    (h01 : x0 ≠ x1) (h02 : x0 ≠ x2) (h03 : x0 ≠ x3) (h12 : x1 ≠ x2) (h13 : x1 ≠ x3) (h23 : x2 ≠ x3) :
    lagrange4 x x0 x1 x2 x3 x0 x1 x2 x3 = x := by
  have h := lagrange4_cubic 0 1 0 0 x x0 x1 x2 x3 h01 h02 h03 h12 h13 h23
  simpa using h

/-- At a node the tabulated value is returned (all four nodes). -/
theorem lagrange4_node (x0 x1 x2 x3 y0 y1 y2 y3 : α)
    (h01 : x0 ≠ x1) (h02 : x0 ≠ x2) (h03 : x0 ≠ x3) (h12 : x1 ≠ x2) (h13 : x1 ≠ x3) (h23 : x2 ≠ x3) :
    lagrange4 x0 x0 x1 x2 x3 y0 y1 y2 y3 = y0 ∧ lagrange4 x1 x0 x1 x2 x3 y0 y1 y2 y3 = y1 ∧
    lagrange4 x2 x0 x1 x2 x3 y0 y1 y2 y3 = y2 ∧ lagrange4 x3 x0 x1 x2 x3 y0 y1 y2 y3 = y3 := by
  have e01 : x0 - x1 ≠ 0 := sub_ne_zero.mpr h01
  have e02 : x0 - x2 ≠ 0 := sub_ne_zero.mpr h02
  have e03 : x0 - x3 ≠ 0 := sub_ne_zero.mpr h03
  have e12 : x1 - x2 ≠ 0 := sub_ne_zero.mpr h12
  have e13 : x1 - x3 ≠ 0 := sub_ne_zero.mpr h13
  have e23 : x2 - x3 ≠ 0 := sub_ne_zero.mpr h23
  refine ⟨?_, ?_, ?_, ?_⟩ <;>
  · rw [lagrange4_basis _ x0 x1 x2 x3 _ _ _ _ h01 h02 h03 h12 h13 h23]
    field_simp
    ring

example : lagrange4 (5 : ℚ) 1 2 4 7 (1 ^ 3) (2 ^ 3) (4 ^ 3) (7 ^ 3) = 5 ^ 3 := by
  norm_num [lagrange4]

end Lagrange

section Bisection
variable {α : Type} [LinearOrder α] [Zero α]

/-- Loop invariant of qha's bisection (any array, any value): started on `0 < n-1`, it returns `k < n-1`
    such that `k = 0 ∨ a[k] ≤ v` and `k+1 = n-1 ∨ v < a[k+1]`. -/
theorem findNearest_invariant (a : List α) (v : α) (hn : 2 ≤ a.length) :
    findNearest a v + 1 < a.length ∧
    (findNearest a v = 0 ∨ nth a (findNearest a v) ≤ v) ∧
    (findNearest a v + 1 = a.length - 1 ∨ v < nth a (findNearest a v + 1)) := by
  rw [findNearest_eq_bisect]
  obtain ⟨_, h2, h3, h4⟩ := bisect_inv a v 0 (a.length - 1) (by omega)
  exact ⟨by omega, h3, h4⟩

/-- For a target inside the tabulated range the returned index brackets it: `x_k ≤ p < x_{k+1}`.
    (In qha the volumes decrease with the index, so the pressures *increase* with it; monotonicity is not even
    needed for the bracket, only for its uniqueness below.) -/
theorem findNearest_brackets (a : List α) (v : α) (hn : 2 ≤ a.length)
    (h0 : nth a 0 ≤ v) (h1 : v < nth a (a.length - 1)) :
    findNearest a v + 1 < a.length ∧
    nth a (findNearest a v) ≤ v ∧ v < nth a (findNearest a v + 1) := by
  obtain ⟨hk, h3, h4⟩ := findNearest_invariant a v hn
  refine ⟨hk, ?_, ?_⟩
  · rcases h3 with h3 | h3
    · rw [h3]; exact h0
    · exact h3
  · rcases h4 with h4 | h4
    · rw [h4]; exact h1
    · exact h4

/-- With strictly increasing pressures the bracket is unique: the bisection returns *the* interval. -/
theorem findNearest_unique (a : List α) (v : α) (hn : 2 ≤ a.length) (hs : StrictIncr a)
    (h0 : nth a 0 ≤ v) (h1 : v < nth a (a.length - 1))
    (j : Nat) (hj : j + 1 < a.length) (hjl : nth a j ≤ v) (hju : v < nth a (j + 1)) :
    j = findNearest a v := by
  obtain ⟨hk, hl, hu⟩ := findNearest_brackets a v hn h0 h1
  by_contra hne
  rcases Nat.lt_or_gt_of_ne hne with h | h
  · -- j + 1 ≤ k : a[j+1] ≤ a[k] ≤ v < a[j+1]
    have := hs.le (i := j + 1) (j := findNearest a v) (by omega) (by omega)
    exact absurd (lt_of_le_of_lt (le_trans this hl) hju) (lt_irrefl _)
  · have := hs.le (i := findNearest a v + 1) (j := j) (by omega) (by omega)
    exact absurd (lt_of_le_of_lt (le_trans this hjl) hu) (lt_irrefl _)

/-- The clamping statements in front of the loop are consistent with the loop (whose result overwrites
    them): for strictly increasing arrays a value at or below the first entry gives 0, a value at or above
    the last entry gives `n-2`. -/
theorem findNearest_clamp_consistent (a : List α) (v : α) (hn : 2 ≤ a.length) (hs : StrictIncr a)
    (hout : v ≤ nth a 0 ∨ nth a (a.length - 1) ≤ v) (hne : nth a 0 < nth a (a.length - 1)) :
    findNearest a v = clamp a v := by
  obtain ⟨hk, h3, h4⟩ := findNearest_invariant a v hn
  unfold clamp
  rcases hout with h | h
  · rw [if_pos h]
    rcases h3 with h3 | h3
    · exact h3
    · by_contra hk0
      have := hs 0 (findNearest a v) (by omega) (by omega)
      exact absurd (lt_of_lt_of_le this (le_trans h3 h)) (lt_irrefl _)
  · have hn0 : ¬ v ≤ nth a 0 := not_le.mpr (lt_of_lt_of_le hne h)
    rw [if_neg hn0, if_pos h]
    rcases h4 with h4 | h4
    · omega
    · have := hs.le (i := findNearest a v + 1) (j := a.length - 1) (by omega) (by omega)
      exact absurd (lt_of_lt_of_le h4 (le_trans this h)) (lt_irrefl _)

/-- On the padded row that `v2p` searches (`[p₃, p₀ … p_{n-1}, p_{n-4}]`) the returned index `k` satisfies
    `1 ≤ k ≤ n-1` and, in terms of the *original* row, `p_{k-1} ≤ v < p_k`: no off-by-one in the bracket, and
    the padding entries are never the bracket. -/
theorem findNearest_padded_brackets (p : List α) (v : α) (hn : 4 ≤ p.length)
    (h0 : nth p 0 ≤ v) (h1 : v < nth p (p.length - 1)) :
    1 ≤ findNearest (extend p) v ∧ findNearest (extend p) v + 1 ≤ p.length ∧
    nth p (findNearest (extend p) v - 1) ≤ v ∧ v < nth p (findNearest (extend p) v) := by
  obtain ⟨hk1, hk2, hl, hu⟩ := findNearest_extend p v hn h0 h1
  refine ⟨hk1, hk2, ?_, ?_⟩
  · rw [nth_extend p _ (by omega)] at hl
    rwa [extIdx_mid _ _ hk1 (by omega)] at hl
  · rw [nth_extend p _ (by omega)] at hu
    rwa [extIdx_mid _ _ (by omega) (by omega)] at hu

example : findNearest (extend [(-1 : ℚ), 0, 2, 5, 9]) 3 = 3 ∧ findNearest [(-1 : ℚ), 0, 2, 5, 9] 3 = 2 := by
  decide +kernel

end Bisection

section Conversion
variable {α : Type} [Field α] [LinearOrder α]

/-- Along one isotherm with strictly increasing pressures (≥ 4 volumes) every quantity that is a cubic
    polynomial in P is converted *exactly*, for every requested pressure inside the tabulated range —
    including the two end intervals, where the window is the padded one. -/
theorem c06_v2p_exact_cubic (a b c d : α) (p desired : List α) (hn : 4 ≤ p.length) (hs : StrictIncr p)
    (hin : ∀ x ∈ desired, nth p 0 ≤ x ∧ x < nth p (p.length - 1)) :
    v2pRow (p.map fun x => a + b * x + c * x ^ 2 + d * x ^ 3) p desired
      = .ok (desired.map fun x => a + b * x + c * x ^ 2 + d * x ^ 3) := by
  unfold v2pRow
  have hlen : ¬ ((p.map fun x => a + b * x + c * x ^ 2 + d * x ^ 3).length < 4 ∨ p.length < 4) := by
    simp only [List.length_map]; omega
  rw [if_neg hlen]
  apply mapM_ok
  intro x hx
  obtain ⟨h0, h1⟩ := hin x hx
  obtain ⟨hk1, hk2, _, _⟩ := findNearest_extend p x hn h0 h1
  unfold v2pPoint
  rw [extend_map _ p hn]
  simp only [List.length_map, length_extend]
  set k := findNearest (extend p) x with hk
  have hcond : 1 ≤ k ∧ k + 3 ≤ p.length + 2 ∧ k + 3 ≤ p.length + 2 := ⟨hk1, by omega, by omega⟩
  rw [if_pos hcond]
  have hl : (extend p).length = p.length + 2 := length_extend p
  rw [nth_map _ _ (k - 1) (by omega), nth_map _ _ k (by omega), nth_map _ _ (k + 1) (by omega),
    nth_map _ _ (k + 2) (by omega)]
  obtain ⟨w0, w1, w2, w3, d01, d02, d03, d12, d13, d23⟩ := extIdx_window p.length k hn hk1 hk2
  congr 1
  apply lagrange4_cubic
  all_goals rw [nth_extend p _ (by omega), nth_extend p _ (by omega)]
  · exact hs.ne w0 w1 d01
  · exact hs.ne w0 w2 d02
  · exact hs.ne w0 w3 d03
  · exact hs.ne w1 w2 d12
  · exact hs.ne w1 w3 d13
  · exact hs.ne w2 w3 d23

/-- "Converting the pressure field itself returns the requested pressures": `v2p(P_tv, P_tv, p) = p` in every
    row, for all isotherms with strictly increasing pressures and all requested pressures inside the range. -/
theorem c06_pressure_field_returns_requested (P : List (List α)) (desired : List α)
    (hrow : ∀ p ∈ P, 4 ≤ p.length ∧ StrictIncr p ∧ ∀ x ∈ desired, nth p 0 ≤ x ∧ x < nth p (p.length - 1)) :
    v2p P P desired = .ok (P.map fun _ => desired) := by
  unfold v2p
  rw [if_neg (lt_irrefl _)]
  have : ∀ fp ∈ P.zip P, v2pRow fp.1 fp.2 desired = .ok ((fun _ => desired) fp) := by
    intro fp hfp
    have h12 : fp.1 = fp.2 := by
      have := List.of_mem_zip hfp
      rcases List.mem_iff_getElem.mp hfp with ⟨i, hi, rfl⟩
      simp
    obtain ⟨hn, hs, hin⟩ := hrow fp.2 (List.of_mem_zip hfp).2
    have h := c06_v2p_exact_cubic 0 1 0 0 fp.2 desired hn hs hin
    simp only [zero_add, one_mul, zero_mul, add_zero, List.map_id'] at h
    rw [h12]; exact h
  rw [mapM_ok _ _ _ this]
  congr 1
  clear this hrow
  induction P with
  | nil => rfl
  | cons a t ih => simp only [List.zip_cons_cons, List.map_cons, ih]

/-- At a node pressure the tabulated value of *any* quantity is returned (no polynomial assumption):
    for `0 ≤ i < n-1`, `v2p` at `P = p_i` gives `f_i`. -/
theorem c06_v2p_node (f p : List α) (i : Nat) (hn : 4 ≤ p.length) (hf : f.length = p.length)
    (hs : StrictIncr p) (hi : i + 1 < p.length) :
    v2pPoint (extend f) (extend p) (nth p i) = .ok (nth f i) := by
  have h0 : nth p 0 ≤ nth p i := hs.le (Nat.zero_le _) (by omega)
  have h1 : nth p i < nth p (p.length - 1) := hs i (p.length - 1) (by omega) (by omega)
  obtain ⟨hk1, hk2, hl, hu⟩ := findNearest_padded_brackets p (nth p i) hn h0 h1
  unfold v2pPoint
  set k := findNearest (extend p) (nth p i) with hk
  -- the bracket p_{k-1} ≤ p_i < p_k pins k = i + 1
  have hki : k = i + 1 := by
    by_contra hne
    rcases Nat.lt_or_gt_of_ne hne with h | h
    · have := hs.le (i := k) (j := i) (by omega) (by omega)
      exact absurd (lt_of_lt_of_le hu this) (lt_irrefl _)
    · have := hs i (k - 1) (by omega) (by omega)
      exact absurd (lt_of_lt_of_le this hl) (lt_irrefl _)
  have hcond : 1 ≤ k ∧ k + 3 ≤ (extend p).length ∧ k + 3 ≤ (extend f).length := by
    rw [length_extend, length_extend, hf]; omega
  rw [if_pos hcond]
  obtain ⟨w0, w1, w2, w3, d01, d02, d03, d12, d13, d23⟩ := extIdx_window p.length k hn hk1 hk2
  have e1 : nth (extend p) k = nth p i := by
    rw [nth_extend p _ (by omega)]
    have : extIdx p.length k = i := by rw [extIdx_mid _ _ hk1 (by omega)]; omega
    rw [this]
  have e1f : nth (extend f) k = nth f i := by
    rw [nth_extend f _ (by omega), hf]
    have : extIdx p.length k = i := by rw [extIdx_mid _ _ hk1 (by omega)]; omega
    rw [this]
  congr 1
  rw [← e1, e1f.symm]
  refine (lagrange4_node _ _ _ _ _ _ _ _ ?_ ?_ ?_ ?_ ?_ ?_).2.1
  all_goals rw [nth_extend p _ (by omega), nth_extend p _ (by omega)]
  · exact hs.ne w0 w1 d01
  · exact hs.ne w0 w2 d02
  · exact hs.ne w0 w3 d03
  · exact hs.ne w1 w2 d12
  · exact hs.ne w1 w3 d13
  · exact hs.ne w2 w3 d23

/- Full statement of the round-trip clause (NOT proved — numerical analysis, monitored by the harness):
     for every isotherm P(T,·) produced by qha and every requested P inside the range,
     |P(T, V(T,P)) − P| ≤ C·h⁴·max|∂⁴V/∂P⁴| and V(T,·) is strictly decreasing.
   Proved part: when P is affine in V along the isotherm (P = s + r·V, r ≠ 0), the reported volume
   `v2p(V, P_tv, p)` is exactly the volume at which the pressure equals the requested one, and it decreases
   with P when r < 0. -/
theorem c06_volume_roundtrip_affine_partial (r s : α) (hr : r ≠ 0) (p desired : List α) (hn : 4 ≤ p.length)
    (hs : StrictIncr p) (hin : ∀ x ∈ desired, nth p 0 ≤ x ∧ x < nth p (p.length - 1)) :
    -- the volumes of the grid points, recovered from P = s + r V
    ∃ vtp, v2pRow (p.map fun x => (x - s) / r) p desired = .ok vtp ∧
      vtp.map (fun v => s + r * v) = desired := by
  have h := c06_v2p_exact_cubic (-s / r) (1 / r) 0 0 p desired hn hs hin
  have e : (fun x : α => -s / r + 1 / r * x + 0 * x ^ 2 + 0 * x ^ 3) = fun x => (x - s) / r := by
    funext x; field_simp; ring
  rw [e] at h
  refine ⟨_, h, ?_⟩
  rw [List.map_map]
  have : ((fun v => s + r * v) ∘ fun x => (x - s) / r) = id := by
    funext x; simp only [Function.comp, id]; field_simp; ring
  rw [this, List.map_id]

/-- **Round trip, cubic case.**  `Pf` is the isotherm `V ↦ P(T, V)` (ANY function), `vs` the volume grid, so the tabulated
    pressures are `vs.map Pf` (strictly increasing along the grid, ≥ 4 volumes).  If along this isotherm the volume is a
    polynomial of degree ≤ 3 of the pressure — `g(P) = a + bP + cP² + dP³` with `g(Pf v) = v` at the grid volumes and
    `Pf (g x) = x` at the requested pressures (`g` is the inverse function of the isotherm there) — then for every requested
    pressure inside the tabulated range the reported volume `v2p(V, P_tv, p)` is EXACTLY `g(p)`, i.e. the volume at which the
    pressure equals the requested one: `P(T, V(T,P)) = P`.
    This is the exactness class of the scheme: `v2p` interpolates the ordinate (here V) over the ABSCISSA P by the 4-point
    Lagrange rule, which reproduces cubics in P (`c06_v2p_exact_cubic`). -/
theorem c06_volume_roundtrip_cubic (a b c d : α) (Pf : α → α) (vs desired : List α) (hn : 4 ≤ vs.length)
    (hs : StrictIncr (vs.map Pf))
    (hgrid : ∀ v ∈ vs, a + b * Pf v + c * Pf v ^ 2 + d * Pf v ^ 3 = v)
    (hinv : ∀ x ∈ desired, Pf (a + b * x + c * x ^ 2 + d * x ^ 3) = x)
    (hin : ∀ x ∈ desired, nth (vs.map Pf) 0 ≤ x ∧ x < nth (vs.map Pf) ((vs.map Pf).length - 1)) :
    ∃ vtp, v2pRow vs (vs.map Pf) desired = .ok vtp ∧
      vtp = desired.map (fun x => a + b * x + c * x ^ 2 + d * x ^ 3) ∧ vtp.map Pf = desired := by
  have hvs : (vs.map Pf).map (fun x => a + b * x + c * x ^ 2 + d * x ^ 3) = vs := by
    rw [List.map_map]
    conv_rhs => rw [← List.map_id vs]
    exact List.map_congr_left fun v hv => hgrid v hv
  have h := c06_v2p_exact_cubic a b c d (vs.map Pf) desired (by simpa using hn) hs hin
  rw [hvs] at h
  refine ⟨_, h, rfl, ?_⟩
  rw [List.map_map]
  conv_rhs => rw [← List.map_id desired]
  exact List.map_congr_left fun x hx => hinv x hx

/-- … and the reported volumes decrease with the requested pressure whenever the inverse isotherm `g` does (requested
    pressures in increasing order, as `desired_pressures` are) -/
theorem c06_volume_decreasing_cubic (a b c d : α) (Pf : α → α) (vs desired vtp : List α) (hn : 4 ≤ vs.length)
    (hs : StrictIncr (vs.map Pf))
    (hgrid : ∀ v ∈ vs, a + b * Pf v + c * Pf v ^ 2 + d * Pf v ^ 3 = v)
    (hin : ∀ x ∈ desired, nth (vs.map Pf) 0 ≤ x ∧ x < nth (vs.map Pf) ((vs.map Pf).length - 1))
    (hanti : ∀ x ∈ desired, ∀ y ∈ desired, x < y →
      a + b * y + c * y ^ 2 + d * y ^ 3 < a + b * x + c * x ^ 2 + d * x ^ 3)
    (hsorted : desired.Pairwise (· < ·)) (hv : v2pRow vs (vs.map Pf) desired = .ok vtp) :
    vtp.Pairwise (· > ·) := by
  have hvs : (vs.map Pf).map (fun x => a + b * x + c * x ^ 2 + d * x ^ 3) = vs := by
    rw [List.map_map]
    conv_rhs => rw [← List.map_id vs]
    exact List.map_congr_left fun v hv => hgrid v hv
  have h := c06_v2p_exact_cubic a b c d (vs.map Pf) desired (by simpa using hn) hs hin
  rw [hvs, hv] at h
  injection h with h
  subst h
  rw [List.pairwise_map]
  exact hsorted.imp_of_mem fun hx hy hxy => hanti _ hx _ hy hxy

/-- the same for the quantity cij reports, `pressure_base.volumes` = `volumesTp` (all temperatures): isotherm `i` is the
    function `I.1`, its inverse on the requested pressures the cubic with coefficients `I.2` -/
theorem c06_volumes_tp_roundtrip_cubic (q : Qha α) (isos : List ((α → α) × α × α × α × α)) (hn : 4 ≤ q.vArray.length)
    (hP : q.pressuresAu = isos.map fun I => q.vArray.map I.1)
    (hrow : ∀ I ∈ isos, StrictIncr (q.vArray.map I.1) ∧
      (∀ v ∈ q.vArray, I.2.1 + I.2.2.1 * I.1 v + I.2.2.2.1 * I.1 v ^ 2 + I.2.2.2.2 * I.1 v ^ 3 = v) ∧
      (∀ x ∈ q.pArrayAu, I.1 (I.2.1 + I.2.2.1 * x + I.2.2.2.1 * x ^ 2 + I.2.2.2.2 * x ^ 3) = x) ∧
      ∀ x ∈ q.pArrayAu, nth (q.vArray.map I.1) 0 ≤ x ∧ x < nth (q.vArray.map I.1) ((q.vArray.map I.1).length - 1)) :
    volumesTp q = .ok (isos.map fun I =>
        q.pArrayAu.map fun x => I.2.1 + I.2.2.1 * x + I.2.2.2.1 * x ^ 2 + I.2.2.2.2 * x ^ 3) ∧
      ∀ I ∈ isos, (q.pArrayAu.map fun x => I.2.1 + I.2.2.1 * x + I.2.2.2.1 * x ^ 2 + I.2.2.2.2 * x ^ 3).map I.1
        = q.pArrayAu := by
  constructor
  · unfold volumesTp v2p
    rw [if_neg (by simp)]
    rw [hP, List.map_map, List.zip_map']
    have hm : ∀ I ∈ isos, (fun fp : List α × List α => v2pRow fp.1 fp.2 q.pArrayAu)
          (((fun _ => q.vArray) ∘ fun I : (α → α) × α × α × α × α => q.vArray.map I.1) I, q.vArray.map I.1) =
        .ok (q.pArrayAu.map fun x => I.2.1 + I.2.2.1 * x + I.2.2.2.1 * x ^ 2 + I.2.2.2.2 * x ^ 3) := by
      intro I hI
      obtain ⟨h1, h2, h3, h4⟩ := hrow I hI
      obtain ⟨vtp, hv, he, _⟩ := c06_volume_roundtrip_cubic I.2.1 I.2.2.1 I.2.2.2.1 I.2.2.2.2 I.1 q.vArray q.pArrayAu hn
        h1 h2 h3 h4
      simp only [Function.comp]
      rw [hv, he]
    rw [List.mapM_map]
    exact mapM_ok _ _ _ hm
  · intro I hI
    obtain ⟨_, _, h3, _⟩ := hrow I hI
    rw [List.map_map]
    conv_rhs => rw [← List.map_id q.pArrayAu]
    exact List.map_congr_left fun x hx => h3 x hx

/-- **What is NOT exact**: an isotherm whose PRESSURE is an invertible cubic of the volume (here `P = (6 − V)³`, strictly
    decreasing; five volumes 5 … 1, pressures 1, 8, 27, 64, 125).  `V` is then the cube root of an affine function of `P`,
    not a cubic in `P`, and the composed rule does not invert the isotherm: at the requested pressures 2, 10, 30, 100 the
    reported volumes give back the pressures 1.605…, 10.77…, 30.40…, 90.64…  The error is the interpolation error of
    `P ↦ V(T,P)` on the tabulated mesh (4th divided difference × node polynomial), monitored by the harness. -/
theorem c06_roundtrip_inexact_for_cubic_in_V :
    let Pf : ℚ → ℚ := fun v => (6 - v) ^ 3
    let vs : List ℚ := [5, 4, 3, 2, 1]
    vs.map Pf = [1, 8, 27, 64, 125] ∧
    v2pRow vs (vs.map Pf) [2, 10, 30, 100]
      = .ok [4325091 / 895622, 3395647 / 895622, 8278243 / 2875418, 41193221 / 27316471] ∧
    ([4325091 / 895622, 3395647 / 895622, 8278243 / 2875418, 41193221 / 27316471] : List ℚ).map Pf
      = [1153135922665238721 / 718413126674181848, 7739891078293764125 / 718413126674181848,
         722764259792036059625 / 23774038475817534632, 1847537249265764889320125 / 20383266238204058755111] ∧
    ∀ x ∈ ([4325091 / 895622, 3395647 / 895622, 8278243 / 2875418, 41193221 / 27316471] : List ℚ).zip [2, 10, 30, 100],
      Pf x.1 ≠ x.2 := by
  decide +kernel

/-- `c06_volume_roundtrip_cubic` on an instance: along the isotherm `V = 10 − P³/8` (so `P = 2·∛(10 − V)`, here given on ℚ
    only through its values at the six volumes that occur), pressures 0 … 4 at the volumes 10, 79/8, 9, 53/8, 2; requested
    pressures 1/2 ↦ 639/64 and 3 ↦ 53/8 … -/
example : v2pRow [(10 : ℚ), 79 / 8, 9, 53 / 8, 2] [0, 1, 2, 3, 4] [1 / 2, 3] = .ok [639 / 64, 53 / 8] ∧
    (10 : ℚ) - (1 / 2) ^ 3 / 8 = 639 / 64 := by decide +kernel

example : v2pRow [(10 : ℚ), 8, 6, 4, 2] [0, 1, 2, 3, 4] [0, 1/2, 5/2, 7/2] = .ok [10, 9, 5, 3] := by
  decide +kernel

/-- a row too short for the padding is an error, as in Python (`x[:, 3]` raises IndexError) -/
example : v2pRow [(1 : ℚ), 2, 3] [0, 1, 2] [1/2] = .error .indexError := by decide +kernel

/-- a requested pressure at or above the last tabulated one makes the 4-slice too short (ValueError in the
    unpacking) — the situation the range check exists to prevent -/
example : v2pRow [(10 : ℚ), 8, 6, 4, 2] [0, 1, 2, 3, 4] [4] = .error .valueError := by decide +kernel

end Conversion

section RangeCheck
variable {α : Type} [Field α] [LinearOrder α]

/-- Accepted ⇒ every requested pressure is ≤ P(T, V_last) for every T: nothing is extrapolated above. -/
theorem status_accept_in_range (pTvGpa : List (List α)) (desired : List α)
    (h : desiredPressureStatus pTvGpa desired = .ok ()) :
    ∀ row ∈ pTvGpa, ∀ x ∈ desired, x ≤ row.getLastD 0 := by
  unfold desiredPressureStatus at h
  split_ifs at h with hemp
  cases hlo : listMin (lastColumn pTvGpa) with
  | none => rw [hlo] at h; simp at h
  | some lo =>
    cases hhi : listMax desired with
    | none => rw [hlo, hhi] at h; simp at h
    | some hi =>
      rw [hlo, hhi] at h
      simp only at h
      split_ifs at h with hlt
      intro row hrow x hx
      have h1 := (listMin_spec hlo).2 (row.getLastD 0) (by
        unfold lastColumn; exact List.mem_map.mpr ⟨row, hrow, rfl⟩)
      have h2 := (listMax_spec hhi).2 x hx
      exact le_trans h2 (le_trans (not_lt.mp hlt) h1)

/-- Overshooting grid ⇒ ValueError: if some requested pressure exceeds P(T, V_last) for some T, the check
    raises (rows non-empty as produced by qha). -/
theorem status_reject_overshoot (pTvGpa : List (List α)) (desired : List α)
    (hne : ∀ row ∈ pTvGpa, row ≠ [])
    (h : ∃ row ∈ pTvGpa, ∃ x ∈ desired, row.getLastD 0 < x) :
    desiredPressureStatus pTvGpa desired = .error .valueError := by
  obtain ⟨row, hrow, x, hx, hlt⟩ := h
  unfold desiredPressureStatus
  have hemp : ¬ (pTvGpa.any fun r => r.isEmpty) = true := by
    simp only [List.any_eq_true, not_exists, not_and]
    intro r hr
    have := hne r hr
    cases r <;> simp_all
  rw [if_neg hemp]
  have hc : lastColumn pTvGpa ≠ [] := by
    unfold lastColumn
    intro hnil
    rw [List.map_eq_nil_iff] at hnil
    rw [hnil] at hrow; exact absurd hrow List.not_mem_nil
  obtain ⟨lo, hlo⟩ := listMin_isSome hc
  obtain ⟨hi, hhi⟩ := listMax_isSome (List.ne_nil_of_mem hx)
  rw [hlo, hhi]
  have h1 := (listMin_spec hlo).2 (row.getLastD 0) (by
    unfold lastColumn; exact List.mem_map.mpr ⟨row, hrow, rfl⟩)
  have h2 := (listMax_spec hhi).2 x hx
  have : lo < hi := lt_of_le_of_lt h1 (lt_of_lt_of_le hlt h2)
  simp [this]

/-- The same in terms of the settings, for all `P_MIN`, `DELTA_P`, `NTV`: the grid
    `P_MIN + DELTA_P·n (n < NTV)` is accepted iff all of it lies at or below `P(T, V_last)` for all T. -/
theorem status_iff_settings (pTvGpa : List (List α)) (pMin dP : α) (ntv : Nat)
    (hne : ∀ row ∈ pTvGpa, row ≠ []) (hnt : pTvGpa ≠ []) (hntv : 0 < ntv) :
    desiredPressureStatus pTvGpa (desiredPressuresGpa pMin dP ntv) = .ok () ↔
      ∀ row ∈ pTvGpa, ∀ n < ntv, pMin + dP * (n : α) ≤ row.getLastD 0 := by
  constructor
  · intro h row hrow n hn
    refine status_accept_in_range pTvGpa _ h row hrow _ ?_
    unfold desiredPressuresGpa
    exact List.mem_map.mpr ⟨n, List.mem_range.mpr hn, rfl⟩
  · intro h
    by_contra hc
    -- the status is either ok or an error; exclude each error
    cases hst : desiredPressureStatus pTvGpa (desiredPressuresGpa pMin dP ntv) with
    | ok u => exact hc (by rw [hst])
    | error e =>
      unfold desiredPressureStatus at hst
      have hemp : ¬ (pTvGpa.any fun r => r.isEmpty) = true := by
        simp only [List.any_eq_true, not_exists, not_and]
        intro r hr
        have := hne r hr
        cases r <;> simp_all
      rw [if_neg hemp] at hst
      have hc1 : lastColumn pTvGpa ≠ [] := by
        unfold lastColumn; intro hnil; rw [List.map_eq_nil_iff] at hnil; exact hnt hnil
      have hc2 : desiredPressuresGpa pMin dP ntv ≠ [] := by
        unfold desiredPressuresGpa; intro hnil
        rw [List.map_eq_nil_iff, List.range_eq_nil] at hnil; omega
      obtain ⟨lo, hlo⟩ := listMin_isSome hc1
      obtain ⟨hi, hhi⟩ := listMax_isSome hc2
      rw [hlo, hhi] at hst
      simp only at hst
      split_ifs at hst with hlt
      · obtain ⟨row, hrow, rfl⟩ := List.mem_map.mp (listMin_spec hlo).1
        obtain ⟨n, hn, rfl⟩ := List.mem_map.mp (listMax_spec hhi).1
        exact absurd (h row hrow n (List.mem_range.mp hn)) (not_le.mpr hlt)

example : desiredPressureStatus [[(-3 : ℚ), 10, 40], [-1, 12, 38]] (desiredPressuresGpa 0 2 20) = .ok () ∧
          desiredPressureStatus [[(-3 : ℚ), 10, 40], [-1, 12, 38]] (desiredPressuresGpa 0 2 21)
            = .error .valueError := by
  decide +kernel

/-- **pressure_guard_is_source.**  The range check of the model is the meaning of the `if` test that
`QHACalculator.desired_pressure_status` contains NOW (translated on this run into `Generated.pressureGuard`: which field, which
column, which reduction on either side, the comparison operator, the exception), for every table and every requested grid. -/
theorem pressure_guard_is_source (pTvGpa : List (List α)) (desired : List α) :
    Cij.AdapterGuardSource.evalGuard Generated.pressureGuard pTvGpa desired = some (desiredPressureStatus pTvGpa desired) :=
  Cij.AdapterGuardSource.desiredPressureStatus_is_source pTvGpa desired

/-- … hence the two clauses above hold of the guard as written: a grid the translated guard accepts stays at or below
P(T, V_last) for every T … -/
theorem source_guard_accept_in_range (pTvGpa : List (List α)) (desired : List α)
    (h : Cij.AdapterGuardSource.evalGuard Generated.pressureGuard pTvGpa desired = some (.ok ())) :
    ∀ row ∈ pTvGpa, ∀ x ∈ desired, x ≤ row.getLastD 0 := by
  rw [pressure_guard_is_source] at h
  exact status_accept_in_range pTvGpa desired (Option.some.inj h)

/-- … and a non-empty grid that stays at or below P(T, V_last) for every T is NOT refused by the guard as written (no
off-by-one margin: a requested pressure equal to the smallest last-column pressure is still accepted). -/
theorem source_guard_accepts_in_range (pTvGpa : List (List α)) (desired : List α)
    (hne : ∀ row ∈ pTvGpa, row ≠ []) (hp : pTvGpa ≠ []) (hd : desired ≠ [])
    (h : ∀ row ∈ pTvGpa, ∀ x ∈ desired, x ≤ row.getLastD 0) :
    Cij.AdapterGuardSource.evalGuard Generated.pressureGuard pTvGpa desired = some (.ok ()) := by
  rw [pressure_guard_is_source]
  congr 1
  unfold desiredPressureStatus
  have hemp : ¬ (pTvGpa.any fun r => r.isEmpty) = true := by
    simp only [List.any_eq_true, not_exists, not_and]
    intro r hr
    have := hne r hr
    cases r <;> simp_all
  rw [if_neg hemp]
  have hc : lastColumn pTvGpa ≠ [] := by
    unfold lastColumn
    intro hnil
    rw [List.map_eq_nil_iff] at hnil
    exact hp hnil
  obtain ⟨lo, hlo⟩ := listMin_isSome hc
  obtain ⟨hi, hhi⟩ := listMax_isSome hd
  rw [hlo, hhi]
  have hlo' := (listMin_spec hlo).1
  have hhi' := (listMax_spec hhi).1
  unfold lastColumn at hlo'
  obtain ⟨row, hrow, hrl⟩ := List.mem_map.mp hlo'
  have := h row hrow hi hhi'
  rw [hrl] at this
  simp [not_lt.mpr this]

/-- **adapter_load_order_is_source.**  `_load_qha_calculator` hands the file to qha, refines the volume grid and applies the
guard last (on the refined grid), then returns that calculator: the order translated from the source on this run. -/
theorem adapter_load_order_is_source :
    Generated.adapterLoadCalls = [("read_input", "qha_input"), ("refine_grid", ""), ("desired_pressure_status", "")] :=
  Cij.AdapterGuardSource.load_order_is_source

end RangeCheck

section Wiring
variable {α : Type} [Field α] [LinearOrder α]

/-- Every pressure-base quantity is `v2p` of the volume-base quantity *of the same name*, with one and the
    same pressure field (`qha volume_base.pressures`, atomic units) and one and the same target grid
    (`qha pressure_base.p_array`, atomic units): named properties, `__getattr__` names (c11, c11s, c11t, s12 …),
    and the two modulus dictionaries. -/
theorem pressure_base_is_v2p_of_volume_base (q : Qha α) (volumeBase : String → Option (List (List α)))
    (name : String) (f : List (List α)) (hname : name ≠ "volumes") (hf : volumeBase name = some f) :
    pressureBase q volumeBase name = v2p f q.pressuresAu q.pArrayAu := by
  unfold pressureBase
  have h1 : (name == "volumes") = false := by simpa using hname
  simp only [h1, Bool.false_eq_true, if_false]
  have hsrc : sourceAttribute name = name := by
    unfold sourceAttribute
    cases hl : namedProperties.lookup name with
    | none => rfl
    | some s =>
      -- every entry of the table maps a name to itself
      have hall : ∀ e ∈ namedProperties, e.1 = e.2 := by decide
      have hmem : (name, s) ∈ namedProperties := by
        have := List.lookup_eq_some_iff.mp hl
        obtain ⟨l1, l2, he, _⟩ := this
        rw [he]; simp
      exact (hall _ hmem).symm
  rw [hsrc, hf]
  rfl

theorem pressure_base_modulus_is_v2p (q : Qha α) (modulus : String → Option (List (List α)))
    (key : String) (f : List (List α)) (hf : modulus key = some f) :
    pressureBaseModulus q modulus key = v2p f q.pressuresAu q.pArrayAu := by
  unfold pressureBaseModulus
  rw [hf]; rfl

/-- the reported volume `V(T,P)` is the same conversion applied to the volume grid itself -/
theorem pressure_base_volumes_is_v2p (q : Qha α) (volumeBase : String → Option (List (List α))) :
    pressureBase q volumeBase "volumes" = v2p (q.pressuresAu.map fun _ => q.vArray) q.pressuresAu q.pArrayAu := by
  unfold pressureBase volumesTp
  simp

end Wiring

/-- **model-is-source** for the named properties of `CijPressureBaseInterface`: the list `(property, volume-base attribute it
converts)` of the model is the one the translator extracts from `calculator.py` on this run, and every property converts the
attribute of its own name (so `pressure_base.x = v2p(volume_base.x)` for all eight, and by `__getattr__` for every other name). -/
theorem pressure_base_props_are_source :
    V2P.namedProperties = Generated.pressureBaseV2pProps ∧ (∀ e ∈ Generated.pressureBaseV2pProps, e.1 = e.2) ∧
    Generated.pressureBaseModulusProps = [("modulus_adiabatic", "modulus_adiabatic"), ("modulus_isothermal", "modulus_isothermal")] := by
  refine ⟨rfl, by decide, rfl⟩

end Cij.C06
