/-
  C10 — Voigt/standard index algebra is a canonical 21-class quotient of the 81 tuples.

  The statements `c10_*` are about `CijModel/Voigt.lean`, whose table is `Generated.voigtToStandard`
  (re-translated from `cij/util/voigt.py` on every run).  Finite quantifiers are stated over ℤ with
  range hypotheses and discharged by kernel evaluation over the complete domain (`decide +kernel`,
  no axioms beyond propext/Quot.sound) plus the membership lemmas of `Lemmas/Voigt.lean`.

  The statements `voigt_model_is_source*` / `voigt_source_*` (second half) are about the TRANSLATED SOURCE:
  `Generated.VoigtSrc.module` is the whole of `cij/util/voigt.py`, re-emitted from its `ast` on every run as a `PyLite.Module`
  literal and given meaning by the evaluator `PyLite.eval` (`CijModel/PyLite.lean`, the same code the driver runs against
  CPython).  `voigt_model_is_source` says the hand-written model and the translated source agree on the complete finite
  domain; the `voigt_source_*` theorems restate the clauses of the property about the source itself, so they are theorems about
  what the file says now (relative to the evaluator's semantics, which the harness tests against CPython on every run).

  Beyond the finite domain — ALL integers, no `_partial` left:
  * `voigt_source_rejects_voigt`, `voigt_source_rejects_voigt_pair`: Voigt indices, symbolic kernel evaluation (every test the source
    makes on one symbolic integer is decided by its constructors);
  * `voigt_source_rejects_standard_pair`, `voigt_source_standard_pair_canonical`, `voigt_source_rejects_standard`: standard pairs and
    quadruples, `e_` / `c_` and the two `from_standard` classmethods.  `sorted((i, j))` compares two symbolic magnitudes; the kernel
    cannot decide that, so Lemmas/VoigtSrcSort extracts the evaluator's continuation around the sort (a definitional equality
    between two stuck terms, checked by the kernel), rewrites the sort under `i ≤ j` / `j < i` by an ordinary lemma about the
    evaluator's insertion sort, and evaluates the rest — valid for any remaining fuel ≥ 41 and any call depth below the recursion
    limit, so every calling context (direct, via `create`, via the digit spellings) reuses it;
  * `voigt_source_rejects_strain_index`, `voigt_source_modulus_integer`: one-argument integers `n`.  The source spells `str(n)` and
    calls itself on `int(c) for c in …`; Lemmas/VoigtSrcDigits proves the evaluator's `str(int)` is the decimal digit string, runs
    the generator expression over a digit string of SYMBOLIC length by induction (one unit of fuel per character), and dispatches
    on the number of digits.  Stated for `n < intBound = 10 ^ 1900`: the evaluator's fuel covers 1975 digits, beyond that it
    answers `outOfFuel` (never an answer); CPython's own `str(int)` raises ValueError from 10 ^ 4300 on, which PyLite does not model.
    Negative `n`: `e_` → RuntimeError (Voigt index), `c_` → ValueError (`int('-')`), as in CPython.
  * `voigt_model_is_source_ints`: hand model = translated source for every one-, two- and four-integer spelling (the model's
    `toString` digits are the evaluator's, Lemmas/VoigtSrcModelInts).
-/
import CijProofs.Lemmas.Voigt
import CijProofs.Lemmas.VoigtSrc
namespace Cij.C10

open Cij

/-- the canonical key of a 4-index tuple / of a Voigt pair -/
abbrev key4 (t : Int × Int × Int × Int) : Option Modulus := Modulus.fromStandard t.1 t.2.1 t.2.2.1 t.2.2.2
abbrev key2 (p : Int × Int) : Option Modulus := Modulus.fromVoigt p.1 p.2

/-! #### 81 tuples and 36 pairs map onto exactly the 21 canonical keys -/

theorem c10_tuples_into_21 : ∀ t ∈ allTuples, ∃ p ∈ keys21, key4 t = some (keyOfVoigt p) := by
  decide +kernel

theorem c10_pairs_into_21 : ∀ q ∈ allPairs, ∃ p ∈ keys21, key2 q = some (keyOfVoigt p) := by
  decide +kernel

theorem c10_21_onto : ∀ p ∈ keys21, (∃ t ∈ allTuples, key4 t = some (keyOfVoigt p)) ∧
    (∃ q ∈ allPairs, key2 q = some (keyOfVoigt p)) := by
  decide +kernel

theorem c10_21_distinct : keys21.length = 21 ∧ (keys21.map keyOfVoigt).Nodup := by
  decide +kernel

/-- for all integers in range (not just "the list"): a 4-index spelling denotes one of the 21 keys -/
theorem c10_tuples_into_21' (i j k l : Int) (hi : 1 ≤ i ∧ i ≤ 3) (hj : 1 ≤ j ∧ j ≤ 3)
    (hk : 1 ≤ k ∧ k ≤ 3) (hl : 1 ≤ l ∧ l ≤ 3) :
    ∃ p ∈ keys21, Modulus.fromStandard i j k l = some (keyOfVoigt p) :=
  c10_tuples_into_21 (i, j, k, l) ((mem_allTuples i j k l).2 ⟨hi, hj, hk, hl⟩)

/-! #### equality of keys ⇔ related by minor/major symmetry -/

theorem c10_eq_iff_orbit : ∀ s ∈ allTuples, ∀ t ∈ allTuples, (key4 s = key4 t ↔ t ∈ orbit s) := by
  decide +kernel

/-- structural equality is what Python's NamedTuple `__eq__`/`__hash__` use: equal keys have equal
hashes for *any* hash function of the fields. -/
theorem c10_hash_respects_eq {β} (hash : Modulus → β) (a b : Modulus) (h : a = b) : hash a = hash b := by
  rw [h]

/-- a Voigt pair and its transpose give the same key; distinct unordered pairs give distinct keys -/
theorem c10_pair_eq_iff : ∀ p ∈ allPairs, ∀ q ∈ allPairs,
    (key2 p = key2 q ↔ (q = p ∨ q = (p.2, p.1))) := by
  decide +kernel

/-! #### string / integer / 2-index / 4-index spellings agree -/

/-- decimal spelling of a tuple, e.g. (1,1,2,3) ↦ "1123" and 1123 -/
def tupleStr (t : Int × Int × Int × Int) : String :=
  toString t.1 ++ toString t.2.1 ++ toString t.2.2.1 ++ toString t.2.2.2
def tupleInt (t : Int × Int × Int × Int) : Int := 1000 * t.1 + 100 * t.2.1 + 10 * t.2.2.1 + t.2.2.2
def pairStr (p : Int × Int) : String := toString p.1 ++ toString p.2
def pairInt (p : Int × Int) : Int := 10 * p.1 + p.2

theorem c10_spellings_4 : ∀ t ∈ allTuples,
    Modulus.create [.int t.1, .int t.2.1, .int t.2.2.1, .int t.2.2.2] = key4 t ∧
    Modulus.create [.str (tupleStr t)] = key4 t ∧
    Modulus.create [.int (tupleInt t)] = key4 t := by
  decide +kernel

theorem c10_spellings_2 : ∀ p ∈ allPairs,
    Modulus.create [.int p.1, .int p.2] = key2 p ∧
    Modulus.create [.str (pairStr p)] = key2 p ∧
    Modulus.create [.int (pairInt p)] = key2 p := by
  decide +kernel

/-- the documented Voigt map 1→11, 2→22, 3→33, 4→23, 5→13, 6→12 -/
theorem c10_voigt_map :
    Strain.fromVoigt 1 = some ⟨1, 1⟩ ∧ Strain.fromVoigt 2 = some ⟨2, 2⟩ ∧ Strain.fromVoigt 3 = some ⟨3, 3⟩ ∧
    Strain.fromVoigt 4 = some ⟨2, 3⟩ ∧ Strain.fromVoigt 5 = some ⟨1, 3⟩ ∧ Strain.fromVoigt 6 = some ⟨1, 2⟩ := by
  decide +kernel

/-- two-index and four-index spellings of the same component agree -/
theorem c10_two_vs_four : ∀ p ∈ allPairs, ∀ a b, Strain.fromVoigt p.1 = some a → Strain.fromVoigt p.2 = some b →
    key2 p = Modulus.fromStandard a.i a.j b.i b.j := by
  intro p hp a b ha hb
  have : ∀ p ∈ allPairs, key2 p =
      (do let a ← Strain.fromVoigt p.1; let b ← Strain.fromVoigt p.2; Modulus.fromStandard a.i a.j b.i b.j) := by
    decide +kernel
  rw [this p hp, ha, hb]; rfl

/-- strain spellings: e_(v), e_(i,j), e_("ij"), e_(10 i + j), e_("v") agree -/
theorem c10_strain_spellings : ∀ i ∈ idx3, ∀ j ∈ idx3,
    Strain.create [.int i, .int j] = Strain.fromStandard i j ∧
    Strain.create [.str (pairStr (i, j))] = Strain.fromStandard i j ∧
    Strain.create [.int (pairInt (i, j))] = Strain.fromStandard i j ∧
    Strain.fromStandard i j = Strain.fromStandard j i ∧
    (∃ v ∈ idx6, Strain.fromVoigt v = Strain.fromStandard i j ∧ Strain.create [.int v] = Strain.fromVoigt v
        ∧ Strain.create [.str (toString v)] = Strain.fromVoigt v) := by
  decide +kernel

/-! #### round trips through the Voigt and the standard view -/

theorem c10_roundtrip : ∀ p ∈ keys21,
    (keyOfVoigt p).voigt = some p ∧
    key4 (keyOfVoigt p).standard = some (keyOfVoigt p) ∧
    key2 p = some (keyOfVoigt p) := by
  decide +kernel

theorem c10_strain_roundtrip : ∀ v ∈ idx6, ∃ s, Strain.fromVoigt v = some s ∧ s.voigt = some v ∧
    Strain.fromStandard s.standard.1 s.standard.2 = some s := by
  decide +kernel

/-! #### multiplicity = class size, summing to 81 -/

def classSize (k : Modulus) : Nat := (allTuples.filter fun t => key4 t == some k).length

theorem c10_multiplicity : ∀ p ∈ keys21, (keyOfVoigt p).multiplicity = classSize (keyOfVoigt p) := by
  decide +kernel

theorem c10_multiplicity_orbit : ∀ t ∈ allTuples, ∀ k, key4 t = some k →
    k.multiplicity = (orbit t).eraseDups.length := by
  intro t ht k hk
  have : ∀ t ∈ allTuples, (key4 t).map Modulus.multiplicity = some (orbit t).eraseDups.length := by
    decide +kernel
  have h := this t ht
  rw [hk] at h; simpa using h

theorem c10_multiplicity_sum : ((keys21.map keyOfVoigt).map Modulus.multiplicity).sum = 81 := by
  decide +kernel

/-! #### classification partitions the keys 3 / 3 / 15 -/

theorem c10_classification :
    (∀ p ∈ keys21, let k := keyOfVoigt p
      ((k.isLongitudinal && !k.isOffDiagonal && !k.isShear) ||
       (!k.isLongitudinal && k.isOffDiagonal && !k.isShear) ||
       (!k.isLongitudinal && !k.isOffDiagonal && k.isShear)) = true) ∧
    ((keys21.map keyOfVoigt).filter Modulus.isLongitudinal).length = 3 ∧
    ((keys21.map keyOfVoigt).filter Modulus.isOffDiagonal).length = 3 ∧
    ((keys21.map keyOfVoigt).filter Modulus.isShear).length = 15 := by
  decide +kernel

theorem c10_classification_meaning : ∀ p ∈ keys21, let k := keyOfVoigt p
    (k.isLongitudinal = (p.1 == p.2 && p.1 ≤ 3)) ∧
    (k.isOffDiagonal = (p.1 != p.2 && p.2 ≤ 3)) ∧
    (k.isShear = decide (4 ≤ p.2)) ∧
    (k.calcType = if p.2 ≤ 3 then (if p.1 = p.2 then .longitudinal else .offDiagonal) else .shear) := by
  decide +kernel

/-! #### out-of-range indices are rejected — for *every* integer, not only the neighbours -/

theorem c10_reject_standard (i j k l : Int)
    (h : ¬ ((1 ≤ i ∧ i ≤ 3) ∧ (1 ≤ j ∧ j ≤ 3) ∧ (1 ≤ k ∧ k ≤ 3) ∧ (1 ≤ l ∧ l ≤ 3))) :
    Modulus.fromStandard i j k l = none := by
  cases hm : Modulus.fromStandard i j k l with
  | none => rfl
  | some m =>
    exfalso
    obtain ⟨a, b, ha, hb⟩ := modulus_fromStandard_some i j k l m hm
    have h1 := strain_fromStandard_range i j a ha
    have h2 := strain_fromStandard_range k l b hb
    omega

theorem c10_reject_voigt (i j : Int) (h : ¬ ((1 ≤ i ∧ i ≤ 6) ∧ (1 ≤ j ∧ j ≤ 6))) :
    Modulus.fromVoigt i j = none := by
  cases hm : Modulus.fromVoigt i j with
  | none => rfl
  | some m =>
    exfalso
    obtain ⟨a, b, ha, hb⟩ := modulus_fromVoigt_some i j m hm
    have h1 := strain_fromVoigt_range i a ha
    have h2 := strain_fromVoigt_range j b hb
    omega

theorem c10_reject_strain (i j : Int) (h : ¬ ((1 ≤ i ∧ i ≤ 3) ∧ (1 ≤ j ∧ j ≤ 3))) :
    Strain.fromStandard i j = none := by
  cases hm : Strain.fromStandard i j with
  | none => rfl
  | some s => exfalso; have := strain_fromStandard_range i j s hm; omega

theorem c10_reject_strain_voigt (v : Int) (h : ¬ (1 ≤ v ∧ v ≤ 6)) : Strain.fromVoigt v = none := by
  cases hm : Strain.fromVoigt v with
  | none => rfl
  | some s => exfalso; have := strain_fromVoigt_range v s hm; omega

/-- spellings that reach the out-of-range neighbours through the string / integer forms -/
theorem c10_reject_spellings :
    (∀ s ∈ ["", "1", "7", "123", "12345", "10", "01", "17", "70", "1104", "1140", "0111", "4111", "1a", "-12", "1 2"],
        Modulus.create [.str s] = none) ∧
    (∀ n ∈ ([0, 1, 6, 7, 10, 17, 70, 77, 123, 1104, 1140, 4111, 12345, -12, -1123] : List Int),
        Modulus.create [.int n] = none) ∧
    (∀ s ∈ ["", "0", "7", "14", "41", "04", "123", "a"], Strain.create [.str s] = none) ∧
    (∀ n ∈ ([0, 7, 8, 9, -1, 14, 41, 40, 123] : List Int), Strain.create [.int n] = none) := by
  decide +kernel

/-! ## The translated source (`Generated.VoigtSrc.module` under `PyLite.eval`) -/

section Source
open Cij.VoigtSrc

/-- **model = source on the complete finite domain.**  For every spelling in `domainC` (4 indices 0..4 and 2 Voigt indices 0..7,
each positional / str / int; one-argument ints −2..11, malformed strings, long and negative ints; wrong arities) and in `domainE`:
running the translated `cij.util.c_` / `e_` gives the value the model gives, or both reject.  Out-of-fuel / unsupported agree with
nothing, so the evaluator answered on every input. -/
theorem voigt_model_is_source :
    (∀ a ∈ domainC, agreeWith valToModulus (c_ a) (Modulus.create a) = true) ∧
    (∀ a ∈ domainE, agreeWith valToStrain (e_ a) (Strain.create a) = true) :=
  ⟨domainC_agrees, List.all_eq_true.mp domainE_agrees⟩

/-- the domain of `voigt_model_is_source` contains every spelling the property names -/
example : ([.int 1, .int 1, .int 2, .int 3] : List Arg) ∈ domainC ∧ [Arg.str "2311"] ∈ domainC ∧ [Arg.int 46] ∈ domainC ∧
    [Arg.int 4, .int 1, .int 1, .int 1] ∈ domainC ∧ [Arg.int 7, .int 0] ∈ domainC ∧ [Arg.str "1a"] ∈ domainC ∧
    [Arg.int 3, .int 1] ∈ domainE ∧ [Arg.str "6"] ∈ domainE ∧ domainC.length = 1980 ∧ domainE.length = 115 := by
  decide +kernel

/-- the keys the source builds for the 81 tuples, 36 pairs, 9 strain pairs and 6 strain indices are the model's -/
theorem voigt_model_is_source_keys :
    (∀ t ∈ allTuples, srcKey4 t = key4 t) ∧ (∀ p ∈ allPairs, srcKey2 p = key2 p) ∧
    (∀ i ∈ idx3, ∀ j ∈ idx3, srcStrain2 i j = Strain.fromStandard i j) ∧ (∀ v ∈ idx6, srcStrain1 v = Strain.fromVoigt v) :=
  ⟨src_table4, src_table2, src_tableE.1, src_tableE.2⟩

/-- every view of each of the 21 keys read off the source (`.voigt .standard .multiplicity .is_* .calc_type`) is the model's -/
theorem voigt_model_is_source_views : ∀ p ∈ keys21,
    srcVoigt (keyOfVoigt p) = ((keyOfVoigt p).voigt.map fun (a, b) => [a, b]) ∧
    srcStandard (keyOfVoigt p) = some (let (a, b, c, d) := (keyOfVoigt p).standard; [a, b, c, d]) ∧
    srcMultiplicity (keyOfVoigt p) = some (Int.ofNat (keyOfVoigt p).multiplicity) ∧
    srcFlag "is_longitudinal" (keyOfVoigt p) = some (keyOfVoigt p).isLongitudinal ∧
    srcFlag "is_off_diagonal" (keyOfVoigt p) = some (keyOfVoigt p).isOffDiagonal ∧
    srcFlag "is_shear" (keyOfVoigt p) = some (keyOfVoigt p).isShear ∧
    srcCalcType (keyOfVoigt p) = some (calcName (keyOfVoigt p).calcType) := by
  intro p hp
  have hm : ∀ p ∈ keys21, ((keyOfVoigt p).voigt.map fun (a, b) => [a, b]) = some [p.1, p.2] ∧
      (let (a, b, c, d) := (keyOfVoigt p).standard; [a, b, c, d]) = stdOf p.1 ++ stdOf p.2 := by decide +kernel
  obtain ⟨h1, h2, h3, h4, h5, h6, h7, _⟩ := src_views p hp
  exact ⟨h1.trans (hm p hp).1.symm, h2.trans (congrArg some (hm p hp).2.symm), h3, h4, h5, h6, h7⟩

/-! #### the clauses of C10, restated about the translated source -/

/-- 81 tuples and 36 pairs map ONTO exactly 21 distinct keys -/
theorem voigt_source_canonical_21 :
    (∀ t ∈ allTuples, ∃ p ∈ keys21, srcKey4 t = some (keyOfVoigt p)) ∧
    (∀ q ∈ allPairs, ∃ p ∈ keys21, srcKey2 q = some (keyOfVoigt p)) ∧
    (∀ p ∈ keys21, (∃ t ∈ allTuples, srcKey4 t = some (keyOfVoigt p)) ∧ (∃ q ∈ allPairs, srcKey2 q = some (keyOfVoigt p))) ∧
    keys21.length = 21 ∧ (keys21.map keyOfVoigt).Nodup := by
  refine ⟨fun t ht => ?_, fun q hq => ?_, fun p hp => ⟨?_, ?_⟩, c10_21_distinct.1, c10_21_distinct.2⟩
  · rw [src_table4 t ht]; exact c10_tuples_into_21 t ht
  · rw [src_table2 q hq]; exact c10_pairs_into_21 q hq
  · obtain ⟨t, ht, h⟩ := (c10_21_onto p hp).1; exact ⟨t, ht, (src_table4 t ht).trans h⟩
  · obtain ⟨q, hq, h⟩ := (c10_21_onto p hp).2; exact ⟨q, hq, (src_table2 q hq).trans h⟩

/-- two tuples get the same key from the source iff they are related by the minor / major symmetries -/
theorem voigt_source_eq_iff_orbit : ∀ s ∈ allTuples, ∀ t ∈ allTuples, (srcKey4 s = srcKey4 t ↔ t ∈ orbit s) := by
  intro s hs t ht
  rw [src_table4 s hs, src_table4 t ht]; exact c10_eq_iff_orbit s hs t ht

theorem voigt_source_pair_eq_iff : ∀ p ∈ allPairs, ∀ q ∈ allPairs, (srcKey2 p = srcKey2 q ↔ (q = p ∨ q = (p.2, p.1))) := by
  intro p hp q hq
  rw [src_table2 p hp, src_table2 q hq]; exact c10_pair_eq_iff p hp q hq

/-- string, integer, two-index and four-index spellings of the same component give the same key -/
theorem voigt_source_spellings :
    (∀ t ∈ allTuples, decodeC (c_ [.str (tupleStr t)]) = srcKey4 t ∧ decodeC (c_ [.int (tupleInt t)]) = srcKey4 t) ∧
    (∀ p ∈ allPairs, decodeC (c_ [.str (pairStr p)]) = srcKey2 p ∧ decodeC (c_ [.int (pairInt p)]) = srcKey2 p) ∧
    (∀ p ∈ allPairs, ∀ a b, Strain.fromVoigt p.1 = some a → Strain.fromVoigt p.2 = some b →
        srcKey2 p = srcKey4 (a.i, a.j, b.i, b.j)) := by
  have e4 : ∀ t ∈ allTuples, tupleStr t = digitsStr [t.1, t.2.1, t.2.2.1, t.2.2.2] ∧
      tupleInt t = digitsInt [t.1, t.2.1, t.2.2.1, t.2.2.2] := by decide +kernel
  have e2 : ∀ p ∈ allPairs, pairStr p = digitsStr [p.1, p.2] ∧ pairInt p = digitsInt [p.1, p.2] := by decide +kernel
  have e3' : ∀ p ∈ allPairs, (match Strain.fromVoigt p.1, Strain.fromVoigt p.2 with
      | some a, some b => decide ((a.i, a.j, b.i, b.j) ∈ allTuples)
      | _, _ => true) = true := by decide +kernel
  have e3 : ∀ p ∈ allPairs, ∀ a b, Strain.fromVoigt p.1 = some a → Strain.fromVoigt p.2 = some b →
      (a.i, a.j, b.i, b.j) ∈ allTuples := by
    intro p hp a b ha hb
    have := e3' p hp
    rw [ha, hb] at this
    exact of_decide_eq_true this
  refine ⟨fun t ht => ?_, fun p hp => ?_, fun p hp a b ha hb => ?_⟩
  · rw [(e4 t ht).1, (e4 t ht).2]; exact src_spell4 t ht
  · rw [(e2 p hp).1, (e2 p hp).2]; exact src_spell2 p hp
  · rw [src_table2 p hp, src_table4 _ (e3 p hp a b ha hb)]; exact c10_two_vs_four p hp a b ha hb

/-- round trip through the Voigt and the standard view (1→11, 2→22, 3→33, 4→23, 5→13, 6→12 — the map as translated), and
canonical ordering: whatever the order of the arguments, the Voigt view of the key is ascending -/
theorem voigt_source_roundtrip :
    (∀ p ∈ keys21, srcKey2 p = some (keyOfVoigt p) ∧ srcVoigt (keyOfVoigt p) = some [p.1, p.2] ∧
        srcStandard (keyOfVoigt p) = some (stdOf p.1 ++ stdOf p.2) ∧
        srcKey4 (keyOfVoigt p).standard = some (keyOfVoigt p)) ∧
    (∀ q ∈ allPairs, (srcKey2 q).bind srcVoigt = some [min q.1 q.2, max q.1 q.2]) ∧
    (∀ t ∈ allTuples, ascending ((srcKey4 t).bind srcVoigt) = true) ∧
    ([1, 2, 3, 4, 5, 6].map stdOf = [[1, 1], [2, 2], [3, 3], [2, 3], [1, 3], [1, 2]]) := by
  have hk : ∀ p ∈ keys21, p ∈ allPairs ∧ (keyOfVoigt p).standard ∈ allTuples := by decide +kernel
  refine ⟨fun p hp => ⟨?_, (src_views p hp).1, (src_views p hp).2.1, ?_⟩, src_canonical_order.1, src_canonical_order.2,
    by decide +kernel⟩
  · rw [src_table2 p (hk p hp).1]; exact (c10_roundtrip p hp).2.2
  · rw [src_table4 _ (hk p hp).2]; exact (c10_roundtrip p hp).2.1

/-- the multiplicity the source computes for a key is the number of tuples the source maps to it; the 21 multiplicities sum to 81 -/
theorem voigt_source_multiplicity :
    (∀ p ∈ keys21, srcMultiplicity (keyOfVoigt p) =
        some (Int.ofNat (allTuples.filter fun t => srcKey4 t == some (keyOfVoigt p)).length)) ∧
    ((keys21.map fun p => (srcMultiplicity (keyOfVoigt p)).getD 0).sum = 81) := by
  have hf : ∀ k, (allTuples.filter fun t => srcKey4 t == some k) = (allTuples.filter fun t => key4 t == some k) := by
    intro k; apply List.filter_congr; intro t ht; rw [src_table4 t ht]
  refine ⟨fun p hp => ?_, ?_⟩
  · rw [(src_views p hp).2.2.1, hf, c10_multiplicity p hp]; rfl
  · have : (keys21.map fun p => (srcMultiplicity (keyOfVoigt p)).getD 0) =
        (keys21.map fun p => Int.ofNat (keyOfVoigt p).multiplicity) := by
      apply List.map_congr_left; intro p hp; rw [(src_views p hp).2.2.1]; rfl
    rw [this]; decide +kernel

/-- longitudinal / off-diagonal / shear as the source computes them partition the 21 keys 3 / 3 / 15, and `calc_type` names the
class -/
theorem voigt_source_classification :
    (∀ p ∈ keys21,
      srcFlag "is_longitudinal" (keyOfVoigt p) = some (p.1 == p.2 && p.1 ≤ 3) ∧
      srcFlag "is_off_diagonal" (keyOfVoigt p) = some (p.1 != p.2 && p.2 ≤ 3) ∧
      srcFlag "is_shear" (keyOfVoigt p) = some (decide (4 ≤ p.2)) ∧
      srcCalcType (keyOfVoigt p) =
        some (if p.2 ≤ 3 then (if p.1 = p.2 then "LONGITUDINAL" else "OFF_DIAGONAL") else "SHEAR")) ∧
    (keys21.filter fun p => p.1 == p.2 && p.1 ≤ 3).length = 3 ∧
    (keys21.filter fun p => p.1 != p.2 && p.2 ≤ 3).length = 3 ∧
    (keys21.filter fun p => decide (4 ≤ p.2)).length = 15 := by
  refine ⟨fun p hp => ?_, by decide +kernel, by decide +kernel, by decide +kernel⟩
  obtain ⟨_, _, _, h4, h5, h6, h7, _⟩ := src_views p hp
  obtain ⟨m1, m2, m3, m4⟩ := c10_classification_meaning p hp
  refine ⟨h4.trans (congrArg some m1), h5.trans (congrArg some m2), h6.trans (congrArg some m3), h7.trans ?_⟩
  rw [m4]
  by_cases a : p.2 ≤ 3 <;> by_cases b : p.1 = p.2 <;> simp [a, b, calcName]

/-- `repr` of the 21 keys and of the 6 strains as the source formats them: Voigt digits, standard digits in parentheses -/
theorem voigt_source_repr :
    (∀ p ∈ keys21, strOfR (srcRepr (keyOfVoigt p)) = some (reprSpec p)) ∧
    (∀ v ∈ idx6, ∃ s, Strain.fromVoigt v = some s ∧ strOfR (srcReprE s) = some (reprSpecE v)) ∧
    reprSpec (1, 4) = "14(1123)" ∧ reprSpec (6, 6) = "66(1212)" ∧ reprSpecE 5 = "5(13)" := by
  refine ⟨fun p hp => (src_views p hp).2.2.2.2.2.2.2, fun v hv => ?_, by decide +kernel, by decide +kernel, by decide +kernel⟩
  obtain ⟨s, h1, _, _, h4⟩ := src_viewsE v hv
  exact ⟨s, h1, h4⟩

/-! #### out-of-range indices are rejected by the source — for every integer, by evaluating the AST with symbolic arguments -/

/-- `StrainRepresentation.from_voigt(v)` raises RuntimeError for EVERY integer outside 1..6 -/
theorem voigt_source_rejects_voigt (v : Int) (h : ¬(1 ≤ v ∧ v ≤ 6)) :
    excKind (srcFun "StrainRepresentation" "from_voigt" [.int v]) = some "RuntimeError" ∧ Strain.fromVoigt v = none :=
  ⟨src_from_voigt_rejects v h, c10_reject_strain_voigt v h⟩

/-- `c_(i, j)` raises RuntimeError for EVERY pair of integers not both in 1..6 — as the model rejects it -/
theorem voigt_source_rejects_voigt_pair (i j : Int) (h : ¬((1 ≤ i ∧ i ≤ 6) ∧ (1 ≤ j ∧ j ≤ 6))) :
    excKind (srcCall "c_" [.int i, .int j]) = some "RuntimeError" ∧ Modulus.fromVoigt i j = none :=
  ⟨src_c2_rejects i j h, c10_reject_voigt i j h⟩

/-- `e_(i, j)` and `StrainRepresentation.from_standard(i, j)` raise RuntimeError for EVERY pair of integers not both in 1..3
(no exclusions: `sorted((i, j))` on two symbolic magnitudes is handled by continuation extraction + `i ≤ j ∨ j < i`, Lemmas/VoigtSrcSort) -/
theorem voigt_source_rejects_standard_pair (i j : Int) (h : ¬((1 ≤ i ∧ i ≤ 3) ∧ (1 ≤ j ∧ j ≤ 3))) :
    excKind (srcCall "e_" [.int i, .int j]) = some "RuntimeError" ∧
    excKind (srcFun "StrainRepresentation" "from_standard" [.int i, .int j]) = some "RuntimeError" ∧
    Strain.fromStandard i j = none :=
  ⟨(src_e2_all i j).1 (fun hin => h ((in3_iff i j).1 hin)), (src_fs_all i j).1 (fun hin => h ((in3_iff i j).1 hin)),
   c10_reject_strain i j h⟩

/-- … and for EVERY pair in 1..3 both return the canonical strain `(min, max)` — sorted within the pair, for all integers at once -/
theorem voigt_source_standard_pair_canonical (i j : Int) (h : (1 ≤ i ∧ i ≤ 3) ∧ (1 ≤ j ∧ j ≤ 3)) :
    srcCall "e_" [.int i, .int j] = .ok (Strain.toVal ⟨min i j, max i j⟩) ∧
    srcFun "StrainRepresentation" "from_standard" [.int i, .int j] = .ok (Strain.toVal ⟨min i j, max i j⟩) ∧
    Strain.fromStandard i j = some ⟨min i j, max i j⟩ := by
  have hin := (in3_iff i j).2 h
  refine ⟨(src_e2_all i j).2 hin, (src_fs_all i j).2 hin, ?_⟩
  rw [model_fromStandard' i j, if_pos hin]

/-- `c_(i, j, k, l)` and `ModulusRepresentation.from_standard(i, j, k, l)` raise RuntimeError for EVERY quadruple of integers not all
in 1..3 -/
theorem voigt_source_rejects_standard (i j k l : Int)
    (h : ¬((1 ≤ i ∧ i ≤ 3) ∧ (1 ≤ j ∧ j ≤ 3) ∧ (1 ≤ k ∧ k ≤ 3) ∧ (1 ≤ l ∧ l ≤ 3))) :
    excKind (srcCall "c_" [.int i, .int j, .int k, .int l]) = some "RuntimeError" ∧
    excKind (srcFun "ModulusRepresentation" "from_standard" [.int i, .int j, .int k, .int l]) = some "RuntimeError" ∧
    Modulus.fromStandard i j k l = none := by
  have hn : ¬(in3 i j ∧ in3 k l) := fun ⟨a, b⟩ => h ⟨((in3_iff i j).1 a).1, ((in3_iff i j).1 a).2, ((in3_iff k l).1 b).1, ((in3_iff k l).1 b).2⟩
  exact ⟨src_c4_rejects i j k l hn, src_c4_direct_rejects i j k l hn, c10_reject_standard i j k l h⟩

/-- **model = source for ALL integer spellings**, not only the decided domain: two and four positional integers without any bound;
one integer `n` (the source spells `str(n)` and calls itself on the digits) for every `n < intBound = 10 ^ 1900`, negative ones
included.  The bound is the evaluator's fuel (one unit per digit of `str(n)`; 1975 digits fit into `fuel.depth = 2000`); CPython's
own `str(int)` refuses from 10 ^ 4300 on. -/
theorem voigt_model_is_source_ints :
    (∀ i j : Int, agreeWith valToStrain (e_ [.int i, .int j]) (Strain.create [.int i, .int j]) = true) ∧
    (∀ i j : Int, agreeWith valToModulus (c_ [.int i, .int j]) (Modulus.create [.int i, .int j]) = true) ∧
    (∀ i j k l : Int, agreeWith valToModulus (c_ [.int i, .int j, .int k, .int l])
        (Modulus.create [.int i, .int j, .int k, .int l]) = true) ∧
    (∀ n : Int, n < Int.ofNat intBound →
        agreeWith valToStrain (e_ [.int n]) (Strain.create [.int n]) = true ∧
        agreeWith valToModulus (c_ [.int n]) (Modulus.create [.int n]) = true) :=
  ⟨agreeE_pair, agreeC_pair, agreeC_quad, fun n hn => ⟨agreeE_int n hn, agreeC_int n hn⟩⟩

/-- `e_(v)` with one integer, every `v < intBound`: below 10 it is the Voigt index (RuntimeError outside 1..6, negative included);
two digits `10 a + b` are the standard pair `(a, b)` (RuntimeError unless both in 1..3, the canonical strain otherwise); three or more
digits are too many positional arguments for `create` — TypeError -/
theorem voigt_source_rejects_strain_index (v : Int) :
    (v < 10 → ¬(1 ≤ v ∧ v ≤ 6) → excKind (srcCall "e_" [.int v]) = some "RuntimeError") ∧
    (∀ n : Nat, v = Int.ofNat n → 10 ≤ n → n < 100 →
        (¬((1 ≤ n / 10 ∧ n / 10 ≤ 3) ∧ (1 ≤ n % 10 ∧ n % 10 ≤ 3)) → excKind (srcCall "e_" [.int v]) = some "RuntimeError") ∧
        ((1 ≤ n / 10 ∧ n / 10 ≤ 3) ∧ (1 ≤ n % 10 ∧ n % 10 ≤ 3) →
          srcCall "e_" [.int v] = .ok (Strain.toVal ⟨Int.ofNat (min (n / 10) (n % 10)), Int.ofNat (max (n / 10) (n % 10))⟩))) ∧
    (∀ n : Nat, v = Int.ofNat n → 100 ≤ n → n < intBound → excKind (srcCall "e_" [.int v]) = some "TypeError") := by
  refine ⟨src_e1_rejects v, ?_, ?_⟩
  · rintro n rfl h1 h2
    obtain ⟨r, a⟩ := src_e1_two n h1 h2
    have hi : in3 (Int.ofNat (n / 10)) (Int.ofNat (n % 10)) ↔ (1 ≤ n / 10 ∧ n / 10 ≤ 3) ∧ (1 ≤ n % 10 ∧ n % 10 ≤ 3) := by
      rw [in3_iff]
      have e1 : (Int.ofNat (n / 10)) = ((n / 10 : Nat) : Int) := rfl
      have e2 : (Int.ofNat (n % 10)) = ((n % 10 : Nat) : Int) := rfl
      rw [e1, e2]; omega
    refine ⟨fun hn => r (fun hin => hn (hi.1 hin)), fun hy => ?_⟩
    rw [a (hi.2 hy)]
    have e1 : (Int.ofNat (n / 10)) = ((n / 10 : Nat) : Int) := rfl
    have e2 : (Int.ofNat (n % 10)) = ((n % 10 : Nat) : Int) := rfl
    have m1 : min (Int.ofNat (n / 10)) (Int.ofNat (n % 10)) = Int.ofNat (min (n / 10) (n % 10)) := by
      have : (Int.ofNat (min (n / 10) (n % 10))) = ((min (n / 10) (n % 10) : Nat) : Int) := rfl
      rw [e1, e2, this]; omega
    have m2 : max (Int.ofNat (n / 10)) (Int.ofNat (n % 10)) = Int.ofNat (max (n / 10) (n % 10)) := by
      have : (Int.ofNat (max (n / 10) (n % 10))) = ((max (n / 10) (n % 10) : Nat) : Int) := rfl
      rw [e1, e2, this]; omega
    rw [m1, m2]
  · rintro n rfl h1 hn
    exact src_e1_many n h1 hn

/-- `c_(v)` with one integer, every `v < intBound`: a negative one dies in `int('-')` (ValueError, as in CPython); one digit
recurses for ever (`create(5)` → `create("5")` → `create(5)` …: RecursionError); two digits `10 a + b` are the Voigt pair `(a, b)`; three
digits and five or more are "Invalid modulus representation" (RuntimeError); four digits are the standard tuple -/
theorem voigt_source_modulus_integer (v : Int) :
    (v < 0 → excKind (srcCall "c_" [.int v]) = some "ValueError") ∧
    (∀ n : Nat, v = Int.ofNat n →
      (n < 10 → excKind (srcCall "c_" [.int v]) = some "RecursionError") ∧
      (10 ≤ n → n < 100 → agreeWith valToModulus (srcCall "c_" [.int v]) (Modulus.fromVoigt (Int.ofNat (n / 10)) (Int.ofNat (n % 10))) = true) ∧
      (100 ≤ n → n < 1000 → excKind (srcCall "c_" [.int v]) = some "RuntimeError") ∧
      (1000 ≤ n → n < 10000 → agreeWith valToModulus (srcCall "c_" [.int v])
          (Modulus.fromStandard (Int.ofNat (n / 1000)) (Int.ofNat (n / 100 % 10)) (Int.ofNat (n / 10 % 10)) (Int.ofNat (n % 10))) = true) ∧
      (10000 ≤ n → n < intBound → excKind (srcCall "c_" [.int v]) = some "RuntimeError")) := by
  refine ⟨fun h => ?_, ?_⟩
  · cases v with
    | ofNat k => exact absurd h (by have : (Int.ofNat k) = (k : Int) := rfl; omega)
    | negSucc a => exact c1_neg a
  · rintro n rfl
    refine ⟨src_c1_one n, src_c1_two n, src_c1_three n, fun h1 h2 => ?_, src_c1_many n⟩
    obtain ⟨r, a⟩ := src_c1_four n h1 h2
    by_cases hin : in3 (Int.ofNat (n / 1000)) (Int.ofNat (n / 100 % 10)) ∧ in3 (Int.ofNat (n / 10 % 10)) (Int.ofNat (n % 10))
    · exact a hin
    · rw [model_fromStandard4, if_neg hin]; exact agree_exc _ (r hin)

/-- non-vacuity of the symbolic statements, and the messages on a few concrete instances -/
example : isExcMsg (srcCall "c_" [.int 0, .int 3]) "RuntimeError" "Invalid voigt index 0" = true ∧
    isExcMsg (srcCall "c_" [.int 1, .int 1, .int 2, .int 4]) "RuntimeError" "Invalid standard index 24" = true ∧
    isExcMsg (srcCall "e_" [.int (-5), .int 2]) "RuntimeError" "Invalid standard index -52" = true ∧
    isExc (srcCall "c_" [.int 5]) "RecursionError" = true ∧ isExc (srcCall "c_" [.str (PyLite.codes "1a")]) "ValueError" = true ∧
    isExc (srcCall "e_" [.int 123]) "TypeError" = true ∧
    isExcMsg (srcCall "e_" [.int (-7), .int (-5)]) "RuntimeError" "Invalid standard index -7-5" = true ∧
    isExcMsg (srcCall "e_" [.int 9, .int 5]) "RuntimeError" "Invalid standard index 59" = true ∧
    isExc (srcCall "c_" [.int (-12)]) "ValueError" = true ∧ isExc (srcCall "c_" [.int 123456789012]) "RuntimeError" = true := by
  decide +kernel

/-- non-vacuity of the bound: twelve-digit integers are far below it -/
example : (123456789012 : Int) < Int.ofNat intBound ∧ (10 : Nat) ^ 1899 < intBound := by
  decide +kernel

end Source

/-! #### non-vacuity: concrete instances of the hypotheses -/

example : (1, 1, 2, 3) ∈ allTuples ∧ key4 (1, 1, 2, 3) = key4 (3, 2, 1, 1) ∧ key4 (1, 1, 2, 3) ≠ key4 (1, 2, 1, 3) := by
  decide +kernel
example : Modulus.create [.str "46"] = Modulus.create [.int 2312] ∧ (Modulus.create [.str "46"]).isSome := by
  decide +kernel
example : Modulus.fromStandard 1 1 2 4 = none ∧ Modulus.fromVoigt 0 3 = none ∧ Modulus.fromVoigt 7 1 = none := by
  decide +kernel

end Cij.C10
