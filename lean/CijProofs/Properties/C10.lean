/-
  C10 — Voigt/standard index algebra is a canonical 21-class quotient of the 81 tuples.

  Every statement below is about `CijModel/Voigt.lean`, whose table is `Generated.voigtToStandard`
  (re-translated from `cij/util/voigt.py` on every run).  Finite quantifiers are stated over ℤ with
  range hypotheses and discharged by kernel evaluation over the complete domain (`decide +kernel`,
  no axioms beyond propext/Quot.sound) plus the membership lemmas of `Lemmas/Voigt.lean`.
-/
import CijProofs.Lemmas.Voigt
namespace Cij.C10

open Cij

/-- the canonical key of a 4-index tuple / of a Voigt pair -/
abbrev key4 (t : Int × Int × Int × Int) : Option Modulus := Modulus.fromStandard t.1 t.2.1 t.2.2.1 t.2.2.2
abbrev key2 (p : Int × Int) : Option Modulus := Modulus.fromVoigt p.1 p.2

/-! #### 81 tuples and 36 pairs map onto exactly the 21 canonical keys -/

theorem c10_tuples_into_21 : ∀ t ∈ allTuples, ∃ p ∈ keys21, key4 t = some (keyOfVoigt p) := by
  decide +kernel

theorem c10_pairs_into_21 : ∀ q ∈ allPairs, ∃ p ∈ keys21, key2 q = some (keyOfVoigt p) := by
  decide +kernel

theorem c10_21_onto : ∀ p ∈ keys21, (∃ t ∈ allTuples, key4 t = some (keyOfVoigt p)) ∧
    (∃ q ∈ allPairs, key2 q = some (keyOfVoigt p)) := by
  decide +kernel

theorem c10_21_distinct : keys21.length = 21 ∧ (keys21.map keyOfVoigt).Nodup := by
  decide +kernel

/-- for all integers in range (not just "the list"): a 4-index spelling denotes one of the 21 keys -/
theorem c10_tuples_into_21' (i j k l : Int) (hi : 1 ≤ i ∧ i ≤ 3) (hj : 1 ≤ j ∧ j ≤ 3)
    (hk : 1 ≤ k ∧ k ≤ 3) (hl : 1 ≤ l ∧ l ≤ 3) :
    ∃ p ∈ keys21, Modulus.fromStandard i j k l = some (keyOfVoigt p) :=
  c10_tuples_into_21 (i, j, k, l) ((mem_allTuples i j k l).2 ⟨hi, hj, hk, hl⟩)

/-! #### equality of keys ⇔ related by minor/major symmetry -/

theorem c10_eq_iff_orbit : ∀ s ∈ allTuples, ∀ t ∈ allTuples, (key4 s = key4 t ↔ t ∈ orbit s) := by
  decide +kernel

/-- structural equality is what Python's NamedTuple `__eq__`/`__hash__` use: equal keys have equal
hashes for *any* hash function of the fields. -/
theorem c10_hash_respects_eq {β} (hash : Modulus → β) (a b : Modulus) (h : a = b) : hash a = hash b := by
  rw [h]

/-- a Voigt pair and its transpose give the same key; distinct unordered pairs give distinct keys -/
theorem c10_pair_eq_iff : ∀ p ∈ allPairs, ∀ q ∈ allPairs,
    (key2 p = key2 q ↔ (q = p ∨ q = (p.2, p.1))) := by
  decide +kernel

/-! #### string / integer / 2-index / 4-index spellings agree -/

/-- decimal spelling of a tuple, e.g. (1,1,2,3) ↦ "1123" and 1123 -/
def tupleStr (t : Int × Int × Int × Int) : String :=
  toString t.1 ++ toString t.2.1 ++ toString t.2.2.1 ++ toString t.2.2.2
def tupleInt (t : Int × Int × Int × Int) : Int := 1000 * t.1 + 100 * t.2.1 + 10 * t.2.2.1 + t.2.2.2
def pairStr (p : Int × Int) : String := toString p.1 ++ toString p.2
def pairInt (p : Int × Int) : Int := 10 * p.1 + p.2

theorem c10_spellings_4 : ∀ t ∈ allTuples,
    Modulus.create [.int t.1, .int t.2.1, .int t.2.2.1, .int t.2.2.2] = key4 t ∧
    Modulus.create [.str (tupleStr t)] = key4 t ∧
    Modulus.create [.int (tupleInt t)] = key4 t := by
  decide +kernel

theorem c10_spellings_2 : ∀ p ∈ allPairs,
    Modulus.create [.int p.1, .int p.2] = key2 p ∧
    Modulus.create [.str (pairStr p)] = key2 p ∧
    Modulus.create [.int (pairInt p)] = key2 p := by
  decide +kernel

/-- the documented Voigt map 1→11, 2→22, 3→33, 4→23, 5→13, 6→12 -/
theorem c10_voigt_map :
    Strain.fromVoigt 1 = some ⟨1, 1⟩ ∧ Strain.fromVoigt 2 = some ⟨2, 2⟩ ∧ Strain.fromVoigt 3 = some ⟨3, 3⟩ ∧
    Strain.fromVoigt 4 = some ⟨2, 3⟩ ∧ Strain.fromVoigt 5 = some ⟨1, 3⟩ ∧ Strain.fromVoigt 6 = some ⟨1, 2⟩ := by
  decide +kernel

/-- two-index and four-index spellings of the same component agree -/
theorem c10_two_vs_four : ∀ p ∈ allPairs, ∀ a b, Strain.fromVoigt p.1 = some a → Strain.fromVoigt p.2 = some b →
    key2 p = Modulus.fromStandard a.i a.j b.i b.j := by
  intro p hp a b ha hb
  have : ∀ p ∈ allPairs, key2 p =
      (do let a ← Strain.fromVoigt p.1; let b ← Strain.fromVoigt p.2; Modulus.fromStandard a.i a.j b.i b.j) := by
    decide +kernel
  rw [this p hp, ha, hb]; rfl

/-- strain spellings: e_(v), e_(i,j), e_("ij"), e_(10 i + j), e_("v") agree -/
theorem c10_strain_spellings : ∀ i ∈ idx3, ∀ j ∈ idx3,
    Strain.create [.int i, .int j] = Strain.fromStandard i j ∧
    Strain.create [.str (pairStr (i, j))] = Strain.fromStandard i j ∧
    Strain.create [.int (pairInt (i, j))] = Strain.fromStandard i j ∧
    Strain.fromStandard i j = Strain.fromStandard j i ∧
    (∃ v ∈ idx6, Strain.fromVoigt v = Strain.fromStandard i j ∧ Strain.create [.int v] = Strain.fromVoigt v
        ∧ Strain.create [.str (toString v)] = Strain.fromVoigt v) := by
  decide +kernel

/-! #### round trips through the Voigt and the standard view -/

theorem c10_roundtrip : ∀ p ∈ keys21,
    (keyOfVoigt p).voigt = some p ∧
    key4 (keyOfVoigt p).standard = some (keyOfVoigt p) ∧
    key2 p = some (keyOfVoigt p) := by
  decide +kernel

theorem c10_strain_roundtrip : ∀ v ∈ idx6, ∃ s, Strain.fromVoigt v = some s ∧ s.voigt = some v ∧
    Strain.fromStandard s.standard.1 s.standard.2 = some s := by
  decide +kernel

/-! #### multiplicity = class size, summing to 81 -/

def classSize (k : Modulus) : Nat := (allTuples.filter fun t => key4 t == some k).length

theorem c10_multiplicity : ∀ p ∈ keys21, (keyOfVoigt p).multiplicity = classSize (keyOfVoigt p) := by
  decide +kernel

theorem c10_multiplicity_orbit : ∀ t ∈ allTuples, ∀ k, key4 t = some k →
    k.multiplicity = (orbit t).eraseDups.length := by
  intro t ht k hk
  have : ∀ t ∈ allTuples, (key4 t).map Modulus.multiplicity = some (orbit t).eraseDups.length := by
    decide +kernel
  have h := this t ht
  rw [hk] at h; simpa using h

theorem c10_multiplicity_sum : ((keys21.map keyOfVoigt).map Modulus.multiplicity).sum = 81 := by
  decide +kernel

/-! #### classification partitions the keys 3 / 3 / 15 -/

theorem c10_classification :
    (∀ p ∈ keys21, let k := keyOfVoigt p
      ((k.isLongitudinal && !k.isOffDiagonal && !k.isShear) ||
       (!k.isLongitudinal && k.isOffDiagonal && !k.isShear) ||
       (!k.isLongitudinal && !k.isOffDiagonal && k.isShear)) = true) ∧
    ((keys21.map keyOfVoigt).filter Modulus.isLongitudinal).length = 3 ∧
    ((keys21.map keyOfVoigt).filter Modulus.isOffDiagonal).length = 3 ∧
    ((keys21.map keyOfVoigt).filter Modulus.isShear).length = 15 := by
  decide +kernel

theorem c10_classification_meaning : ∀ p ∈ keys21, let k := keyOfVoigt p
    (k.isLongitudinal = (p.1 == p.2 && p.1 ≤ 3)) ∧
    (k.isOffDiagonal = (p.1 != p.2 && p.2 ≤ 3)) ∧
    (k.isShear = decide (4 ≤ p.2)) ∧
    (k.calcType = if p.2 ≤ 3 then (if p.1 = p.2 then .longitudinal else .offDiagonal) else .shear) := by
  decide +kernel

/-! #### out-of-range indices are rejected — for *every* integer, not only the neighbours -/

theorem c10_reject_standard (i j k l : Int)
    (h : ¬ ((1 ≤ i ∧ i ≤ 3) ∧ (1 ≤ j ∧ j ≤ 3) ∧ (1 ≤ k ∧ k ≤ 3) ∧ (1 ≤ l ∧ l ≤ 3))) :
    Modulus.fromStandard i j k l = none := by
  cases hm : Modulus.fromStandard i j k l with
  | none => rfl
  | some m =>
    exfalso
    obtain ⟨a, b, ha, hb⟩ := modulus_fromStandard_some i j k l m hm
    have h1 := strain_fromStandard_range i j a ha
    have h2 := strain_fromStandard_range k l b hb
    omega

theorem c10_reject_voigt (i j : Int) (h : ¬ ((1 ≤ i ∧ i ≤ 6) ∧ (1 ≤ j ∧ j ≤ 6))) :
    Modulus.fromVoigt i j = none := by
  cases hm : Modulus.fromVoigt i j with
  | none => rfl
  | some m =>
    exfalso
    obtain ⟨a, b, ha, hb⟩ := modulus_fromVoigt_some i j m hm
    have h1 := strain_fromVoigt_range i a ha
    have h2 := strain_fromVoigt_range j b hb
    omega

theorem c10_reject_strain (i j : Int) (h : ¬ ((1 ≤ i ∧ i ≤ 3) ∧ (1 ≤ j ∧ j ≤ 3))) :
    Strain.fromStandard i j = none := by
  cases hm : Strain.fromStandard i j with
  | none => rfl
  | some s => exfalso; have := strain_fromStandard_range i j s hm; omega

theorem c10_reject_strain_voigt (v : Int) (h : ¬ (1 ≤ v ∧ v ≤ 6)) : Strain.fromVoigt v = none := by
  cases hm : Strain.fromVoigt v with
  | none => rfl
  | some s => exfalso; have := strain_fromVoigt_range v s hm; omega

/-- spellings that reach the out-of-range neighbours through the string / integer forms -/
theorem c10_reject_spellings :
    (∀ s ∈ ["", "1", "7", "123", "12345", "10", "01", "17", "70", "1104", "1140", "0111", "4111", "1a", "-12", "1 2"],
        Modulus.create [.str s] = none) ∧
    (∀ n ∈ ([0, 1, 6, 7, 10, 17, 70, 77, 123, 1104, 1140, 4111, 12345, -12, -1123] : List Int),
        Modulus.create [.int n] = none) ∧
    (∀ s ∈ ["", "0", "7", "14", "41", "04", "123", "a"], Strain.create [.str s] = none) ∧
    (∀ n ∈ ([0, 7, 8, 9, -1, 14, 41, 40, 123] : List Int), Strain.create [.int n] = none) := by
  decide +kernel

/-! #### non-vacuity: concrete instances of the hypotheses -/

example : (1, 1, 2, 3) ∈ allTuples ∧ key4 (1, 1, 2, 3) = key4 (3, 2, 1, 1) ∧ key4 (1, 1, 2, 3) ≠ key4 (1, 2, 1, 3) := by
  decide +kernel
example : Modulus.create [.str "46"] = Modulus.create [.int 2312] ∧ (Modulus.create [.str "46"]).isSome := by
  decide +kernel
example : Modulus.fromStandard 1 1 2 4 = none ∧ Modulus.fromVoigt 0 3 = none ∧ Modulus.fromVoigt 7 1 = none := by
  decide +kernel

end Cij.C10
