/-
  C18 — `cij run-static` reports a consistent static EoS and elasticity table in every mode.

  Every statement is about `CijModel/Static.lean` (`table` = all rows, `run` = after the sampling), the functions
  the driver executes at `Float` (fit over `Rat`) on the inputs the real command gets, here at `α = ℝ`.
  `E : Ext ℝ` are the library calls (Eulerian strain, sqrt, spline, batched 6×6 inverse, `fill_cij`, `round`),
  `U : Units ℝ` the six pint factors, `o : Options ℝ` the command-line options, `d1`/`d2` the parsed files.

  Proved (column relations, for all inputs):
    * the table factors through the stages of the Python source (`table_stages`) and its `V`, `F`, `P`, `density`
      columns are the mode columns times the unit factors (`final_VFP`, `final_density`);
    * mode none: F = input energies, V = input volumes (`mode_none_F_is_input`); mode volume: V = the grid, F = the
      least-squares fit on it, P = −gradient(F)/gradient(V) = central difference quotients
      (`mode_volume_F_is_fit`, `mode_volume_P_is_minus_gradient`, exact for quadratics/affine data);
      mode pressure: P = requested grid `P_MIN + j·DELTA_P` (`mode_pressure_rows_at_requested_P`), V and F by the SAME
      interpolation rule with the same pressures (`mode_pressure_F_is_fit_at_V`), exact at node pressures and whenever V, F
      are cubic in P (`mode_pressure_F_on_fit_partial`, `mode_pressure_node`);
    * the fit is THE least-squares polynomial of degree 2 in Eulerian strain (`fit_is_least_squares`, from C05);
    * every modulus column is the fit of input02's OWN (volume, value) pairs at the row volume (`moduli_at_row_volume`);
    * the private VRH formulas are C07's (`static_vrh_eq_c07`), are evaluated on the FILLED table (`vrh_from_filled_table`),
      the 6×6 is symmetric by construction, Reuss ≤ Hill ≤ Voigt for SPD stiffness (`static_reuss_hill_voigt`), Reuss
      averages are the tensor contractions of C07 (`static_reuss_tensor`);
    * velocities: ρ v_s² = G, ρ v_p² = K + 4G/3, ρ v_φ² = K (`velocities_from_vrh`), units (`kms_factor_one`, `gcm3_factor`);
    * the fill contract used above holds for the model of fill_cij (`fill_contract_of_model`);
    * `--cellmass` overrides the header mass (`cellmass_override`), `-s` without a table is ignored (`system_without_table`);
    * sampling keeps the rows `0, s, 2s, …` with `s = round(DELTA_P_SAMPLE/DELTA_P)` (`sampling_rows`, `sampling_step_exact`).
  Tie to the SOURCE (`static_model_is_source…`, `static_defaults_are_source`, `static_units_are_source`; Lemmas/StaticSource.lean,
  Lemmas/StaticUnits.lean): `tools/gens/static_src.py` re-translates `cij/cli/static.py::main` and the unit helpers of
  `cij/util/units.py` on every run (`Generated/StaticSpec.lean`: click declaration, the two inner helpers, the body of `main` as 17
  guarded blocks of assignments in source order, the six VRH formulas, the pint unit expressions);
    * `runWith` (hence `table`, `run`, i.e. everything above) IS the interpretation of those blocks, in that order, from the empty
      state (`static_model_is_source` — no hypothesis: `fill_cij` is its model `Fill.fill`, and what used to be the hypothesis
      `FillFrame` is the theorem `fill_keeps_frame`; `…_of_fill_frame` is the general form for any `fill` with that contract;
      `…_driver` the same for the driver's `Float` run), and block by block (`…_eos`, `…_modes`, `…_moduli`, `…_fill`, `…_cellmass`, `…_vrh`,
      `…_units`, `…_velocities`, `…_sampling`), for every input;
    * `fitModulus`/`v2p1d` are the inner helpers incl. `order=2`, `volumes[0]` as strain reference and the `[::-1]` flips
      (`…_helpers`); the six averages are the typed formulas through calculator.py's evaluator (`…_vrh_formulas`);
    * order of the statements, guards, click names / types / choices / defaults, units (dimensions, `_from_gpa` ∘ `_to_gpa` = 1,
      `_to_kms` = 1, `_to_gcm3` = 1/(N_A a₀³)).
  Partial (external numerics; monitored by harness/c18.py with tolerances that shrink with the grid):
    * "P is the negative volume derivative of the fit": `numpy.gradient` is a difference quotient — exact for fits that
      are quadratic in V on a uniform grid (interior rows) and for affine ones (all rows); O(h²)/O(h) otherwise;
    * mode none: P = spline through (v_array, p_array) at the input volumes — the spline is a parameter (`Ext.spline`);
    * mode pressure: (V, F) lies on the fit to the accuracy of 4-point Lagrange interpolation in P.
-/
import CijProofs.Lemmas.Static
import CijProofs.Lemmas.StaticSource
import CijProofs.Lemmas.StaticFill
import CijProofs.Lemmas.StaticFillDriver
import CijProofs.Lemmas.StaticUnits
import CijProofs.Properties.C05
import CijProofs.Properties.C06
import CijProofs.Properties.C07
namespace Cij.C18

open Cij Cij.Static Cij.LeastSq Matrix

/-! #### the table factors through the stages; V, F, P, density of the final table -/

/-- `table` is the composition of the blocks of `cli/static.py`, in the order of the source: input columns, EoS
    arrays, mode columns, density + moduli, fill, `--cellmass`, VRH (after the fill), unit conversion, velocities. -/
theorem table_stages (E : Ext ℝ) (U : Static.Units ℝ) (o : Options ℝ) (d1 : QhaInput.Data ℝ)
    (d2 : Option (ElastDat.ElastData ℝ)) (t : Table ℝ) (h : table E U o d1 d2 = some t) :
    ∃ ve e x t1 t2 t3 t4, input01Columns d1 = some ve ∧
      eos polynomialLeastSquareFitting E o.vRatio o.ntv ve.1 ve.2 = some e ∧
      modeTable E U o ve.1 ve.2 e = some x ∧ addModuli polynomialLeastSquareFitting E d2 x = some t1 ∧
      applyFill E o.system d2.isSome t1 = some t2 ∧ overrideDensity o.cellmass t2 = some t3 ∧
      addVrh E d2.isSome t3 = some t4 ∧ addVelocities E U d2.isSome (convertUnits U t4) = some t :=
  tableWith_stages _ E U o d1 d2 t h

/-- "V, F, P are in Å³, eV, GPa": the three columns of the printed table are the mode columns `x` (atomic units)
    times `_to_ang3`, `_to_ev`, `_to_gpa` — each converted exactly once, none overwritten by a later block
    (`FillKeeps`: fill_cij returns the non-modulus columns unchanged). -/
theorem final_VFP (E : Ext ℝ) (hf : FillKeeps E) (U : Static.Units ℝ) (o : Options ℝ) (d1 : QhaInput.Data ℝ)
    (d2 : Option (ElastDat.ElastData ℝ)) (t : Table ℝ) (h : table E U o d1 d2 = some t) :
    ∃ ve e x, input01Columns d1 = some ve ∧ eos polynomialLeastSquareFitting E o.vRatio o.ntv ve.1 ve.2 = some e ∧
      modeTable E U o ve.1 ve.2 e = some x ∧
      getCol t "V" = some (x.v.map (· * U.toAng3)) ∧ getCol t "F" = some (x.f.map (· * U.toEv)) ∧
      getCol t "P" = some (x.p.map (· * U.toGpa)) := by
  obtain ⟨ve, e, x, t1, t2, t3, t4, h1, h2, h3, h4, h5, h6, h7, h8⟩ := table_stages E U o d1 d2 t h
  refine ⟨ve, e, x, h1, h2, h3, ?_, ?_, ?_⟩
  · rw [addVelocities_keeps E U _ _ _ h8 "V" (by decide), convertUnits_V,
      addVrh_keeps E _ _ _ h7 "V" (by decide), overrideDensity_keeps _ _ _ h6 "V" (by decide),
      applyFill_keeps E hf _ _ _ _ h5 "V" (by decide), addModuli_keeps _ E d2 x t1 h4 "V" (by decide)]
    rfl
  · rw [addVelocities_keeps E U _ _ _ h8 "F" (by decide), convertUnits_F,
      addVrh_keeps E _ _ _ h7 "F" (by decide), overrideDensity_keeps _ _ _ h6 "F" (by decide),
      applyFill_keeps E hf _ _ _ _ h5 "F" (by decide), addModuli_keeps _ E d2 x t1 h4 "F" (by decide)]
    rfl
  · rw [addVelocities_keeps E U _ _ _ h8 "P" (by decide), convertUnits_P,
      addVrh_keeps E _ _ _ h7 "P" (by decide), overrideDensity_keeps _ _ _ h6 "P" (by decide),
      applyFill_keeps E hf _ _ _ _ h5 "P" (by decide), addModuli_keeps _ E d2 x t1 h4 "P" (by decide)]
    rfl

/-- `FillKeeps` is not an extra assumption about the MODEL of `fill_cij` (CijModel/Fill.lean, the function the driver
    runs and C08/C09 are about): whenever `Ext.fill` is that model — any lookup environment, any parameters —, the
    columns V, F, P, density come back unchanged (write-back only touches the 21 symbols, the drop only `c<d><d>` names). -/
theorem fill_contract_of_model (E : Ext ℝ) (env : Fill.Env) (P : Fill.Params ℝ)
    (hE : ∀ s t, E.fill s t = (Fill.fill env (some s) P t).toOption) : FillKeeps E := by
  intro s t t' h name hn
  rw [hE] at h
  cases hfill : Fill.fill env (some s) P t with
  | error e => rw [hfill] at h; cases h
  | ok out =>
    rw [hfill] at h
    have e : out = t' := by simpa [Except.toOption] using h
    subst e
    obtain ⟨uV, uF, uP, uD⟩ := untouched_fixed
    simp only [List.mem_cons, List.not_mem_nil, or_false] at hn
    rcases hn with rfl | rfl | rfl | rfl
    · exact fill_model_keeps env _ P t out hfill "V" uV
    · exact fill_model_keeps env _ P t out hfill "F" uF
    · exact fill_model_keeps env _ P t out hfill "P" uP
    · exact fill_model_keeps env _ P t out hfill "density" uD

/-! #### the three modes -/

/-- mode none: the rows are the input volumes, F the input energies (no fit enters the F column) and P the spline
    through the numerical pressure evaluated at the input volumes. -/
theorem mode_none_F_is_input (E : Ext ℝ) (U : Static.Units ℝ) (o : Options ℝ) (volumes energies : List ℝ) (e : Eos ℝ)
    (x : VFP ℝ) (hi : o.interp = .none) (h : modeTable E U o volumes energies e = some x) :
    x.v = volumes ∧ x.f = energies ∧ x.p = E.spline e.vArray e.pArray volumes := by
  unfold modeTable at h
  rw [hi] at h
  simp only [Option.some.injEq] at h
  subst h
  exact ⟨rfl, rfl, rfl⟩

/-- … hence, in the printed table, `F` = input energies in eV and `V` = input volumes in Å³ -/
theorem mode_none_final (E : Ext ℝ) (hf : FillKeeps E) (U : Static.Units ℝ) (o : Options ℝ) (d1 : QhaInput.Data ℝ)
    (d2 : Option (ElastDat.ElastData ℝ)) (t : Table ℝ) (hi : o.interp = .none) (h : table E U o d1 d2 = some t) :
    ∃ ve, input01Columns d1 = some ve ∧ getCol t "V" = some (ve.1.map (· * U.toAng3)) ∧
      getCol t "F" = some (ve.2.map (· * U.toEv)) := by
  obtain ⟨ve, e, x, h1, _, h3, hV, hF, _⟩ := final_VFP E hf U o d1 d2 t h
  obtain ⟨ev, ef, _⟩ := mode_none_F_is_input E U o ve.1 ve.2 e x hi h3
  exact ⟨ve, h1, by rw [hV, ev], by rw [hF, ef]⟩

/-- mode volume: V is the grid `linspace(min V / r, max V · r, ntv)`, F the finite-strain fit of the input energies
    evaluated on it — a polynomial `p` of degree 2 in the Eulerian strain relative to `volumes[0]` —, P the numerical
    pressure. -/
theorem mode_volume_F_is_fit (E : Ext ℝ) (U : Static.Units ℝ) (o : Options ℝ) (volumes energies : List ℝ) (e : Eos ℝ)
    (x : VFP ℝ) (hi : o.interp = .volume)
    (he : eos polynomialLeastSquareFitting E o.vRatio o.ntv volumes energies = some e)
    (h : modeTable E U o volumes energies e = some x) :
    x.v = e.vArray ∧ x.f = e.fArray ∧ x.p = e.pArray ∧
    ∃ lo hi v0 p, V2P.listMin volumes = some lo ∧ V2P.listMax volumes = some hi ∧ volumes.head? = some v0 ∧
      x.v = linspace (lo / o.vRatio) (hi * o.vRatio) o.ntv ∧
      polyfit (volumes.map (E.strain v0)) energies 2 = some p ∧ p.length = 3 ∧
      x.f = x.v.map fun v => polyval p (E.strain v0 v) := by
  unfold modeTable at h
  rw [hi] at h
  simp only [Option.some.injEq] at h
  subst h
  refine ⟨rfl, rfl, rfl, ?_⟩
  obtain ⟨lo, hi', gf, gv, hlo, hhi, hv, hfit, _, _, _⟩ := eos_spec _ E _ _ _ _ e he
  obtain ⟨v0, p, hv0, hp, hcol⟩ := fitModulus_spec E volumes e.vArray energies e.fArray 2 hfit
  exact ⟨lo, hi', v0, p, hlo, hhi, hv0, hv, hp, (polyfit_spec _ _ _ _ hp).2.1, hcol⟩

/-- `p_array = − numpy.gradient(f_array) / numpy.gradient(v_array)`: at every interior grid point the central
    difference quotient `−(F_{i+1} − F_{i−1}) / (V_{i+1} − V_{i−1})`, at the two ends the one-sided quotients. -/
theorem mode_volume_P_is_minus_gradient (E : Ext ℝ) (vRatio : ℝ) (ntv : Nat) (volumes energies : List ℝ) (e : Eos ℝ)
    (he : eos polynomialLeastSquareFitting E vRatio ntv volumes energies = some e) :
    e.pArray.length = e.fArray.length ∧ e.fArray.length = e.vArray.length ∧ 2 ≤ e.vArray.length ∧
    (∀ i, 0 < i → i + 1 < e.vArray.length →
      e.pArray.getD i 0 = -(e.fArray.getD (i + 1) 0 - e.fArray.getD (i - 1) 0)
                            / (e.vArray.getD (i + 1) 0 - e.vArray.getD (i - 1) 0)) ∧
    e.pArray.getD 0 0 = -(e.fArray.getD 1 0 - e.fArray.getD 0 0) / (e.vArray.getD 1 0 - e.vArray.getD 0 0) ∧
    e.pArray.getD (e.vArray.length - 1) 0 =
      -(e.fArray.getD (e.vArray.length - 1) 0 - e.fArray.getD (e.vArray.length - 2) 0)
        / (e.vArray.getD (e.vArray.length - 1) 0 - e.vArray.getD (e.vArray.length - 2) 0) := by
  obtain ⟨lo, hi, gf, gv, _, _, _, hfit, hgf, hgv, hp⟩ := eos_spec _ E _ _ _ _ e he
  obtain ⟨v0, p, _, _, hcol⟩ := fitModulus_spec E volumes e.vArray energies e.fArray 2 hfit
  have hfl : e.fArray.length = e.vArray.length := by rw [hcol]; simp
  obtain ⟨lf, _⟩ := gradient_length _ _ hgf
  obtain ⟨lv, h2⟩ := gradient_length _ _ hgv
  refine ⟨by rw [hp]; simp [lf, lv, hfl], hfl, h2, ?_, ?_, ?_⟩
  · intro i h0 h1
    rw [hp, getD_zipWith _ _ _ _ (by omega) (by omega), gradient_interior _ _ hgf i h0 (by omega),
      gradient_interior _ _ hgv i h0 h1]
    rw [neg_div, neg_div, div_div_div_cancel_right₀ (by norm_num : (2 : ℝ) ≠ 0)]
  · rw [hp, getD_zipWith _ _ _ _ (by omega) (by omega), gradient_first _ _ hgf, gradient_first _ _ hgv]
  · rw [hp, getD_zipWith _ _ _ _ (by omega) (by omega)]
    have := gradient_last _ _ hgf
    rw [hfl] at this
    rw [this, gradient_last _ _ hgv]

/- Full statement of "the reported P is the negative volume derivative of the fit" (NOT proved — numerical analysis of
   `numpy.gradient`; monitored by harness/c18.py against the analytic derivative of an independent fit):
     for the fitted curve Φ(V) and the grid spacing h,  |P_i + dΦ/dV(V_i)| ≤ h²/6 · max|d³Φ/dV³|  at interior grid points
     and ≤ h/2 · max|d²Φ/dV²| at the two ends (mode volume); mode none adds the error of the interpolating spline, mode
     pressure that of the 4-point Lagrange rule.
   Proved part: the column IS the difference quotient of the fitted values (`mode_volume_P_is_minus_gradient`), and the
   difference quotient is the exact derivative whenever the fitted values are a quadratic in V on a uniform grid
   (interior rows), resp. affine in V on any grid (every row, `numerical_pressure_exact_affine`). -/
theorem p_is_minus_dFdV_partial (a b c h : ℝ) (hh : h ≠ 0) (v gf gv : List ℝ)
    (hu : ∀ i, i + 1 < v.length → v.getD (i + 1) 0 = v.getD i 0 + h)
    (hgf : FullModulus.gradient (v.map fun V => a + b * V + c * V ^ 2) = some gf)
    (hgv : FullModulus.gradient v = some gv) :
    ∀ i, 0 < i → i + 1 < v.length →
      (List.zipWith (fun a b => -a / b) gf gv).getD i 0 = -(b + 2 * c * v.getD i 0) := by
  intro i h0 h1
  obtain ⟨lf, _⟩ := gradient_length _ _ hgf
  obtain ⟨lv, _⟩ := gradient_length _ _ hgv
  simp only [List.length_map] at lf
  have hm : ∀ j, j < v.length → (v.map fun V => a + b * V + c * V ^ 2).getD j 0
      = a + b * v.getD j 0 + c * v.getD j 0 ^ 2 := by
    intro j hj
    rw [List.getD_eq_getElem _ _ (by simpa using hj), List.getD_eq_getElem _ _ hj]
    simp
  rw [getD_zipWith _ _ _ _ (by omega) (by omega), gradient_interior _ _ hgf i h0 (by simpa using h1),
    gradient_interior _ _ hgv i h0 h1, hm _ (by omega), hm _ (by omega)]
  have e1 : v.getD (i + 1) 0 = v.getD i 0 + h := hu i h1
  have e2 : v.getD (i - 1) 0 = v.getD i 0 - h := by
    have := hu (i - 1) (by omega)
    rw [show i - 1 + 1 = i by omega] at this
    linarith
  rw [e1, e2]
  have hden : (v.getD i 0 + h - (v.getD i 0 - h)) / 2 = h := by ring
  rw [hden]
  field_simp
  ring

/-- the same fact at one grid point: for `F(V) = a + bV + cV²`, `−(F(V+h) − F(V−h)) / ((V+h) − (V−h)) = −F'(V)` -/
theorem central_difference_exact_quadratic (a b c V h : ℝ) (hh : h ≠ 0) :
    -((a + b * (V + h) + c * (V + h) ^ 2) - (a + b * (V - h) + c * (V - h) ^ 2)) / ((V + h) - (V - h))
      = -(b + 2 * c * V) := by
  have : (V + h) - (V - h) = 2 * h := by ring
  rw [this]
  field_simp
  ring

/-- … and for an energy that is affine in V the whole column (ends included) is exactly the constant pressure `P₀`
    (C05's statement about the same `numpy.gradient` model). -/
theorem numerical_pressure_exact_affine (a P0 : ℝ) (v gv : List ℝ) (hgv : FullModulus.gradient v = some gv)
    (hnz : ∀ g ∈ gv, g ≠ 0) :
    (do let gf ← FullModulus.gradient (v.map fun x => a - P0 * x)
        let gv' ← FullModulus.gradient v
        pure (List.zipWith (fun a b => -a / b) gf gv')) = some (gv.map fun _ => P0) :=
  C05.c05_static_pressure_affine a P0 v gv (by norm_num) hgv hnz

/-- mode pressure: the P column is exactly the requested grid — row `j` sits at `(P_MIN + j·DELTA_P)` GPa expressed
    in Ry/bohr³ — and the table has `ntv` rows. -/
theorem mode_pressure_rows_at_requested_P (E : Ext ℝ) (U : Static.Units ℝ) (o : Options ℝ) (volumes energies : List ℝ)
    (e : Eos ℝ) (x : VFP ℝ) (hi : o.interp = .pressure) (hn : 2 ≤ o.ntv)
    (h : modeTable E U o volumes energies e = some x) :
    x.p = requestedPressures U o ∧ x.p.length = o.ntv ∧
    ∀ j < o.ntv, x.p.getD j 0 = (o.pMin + (j : ℝ) * o.deltaP) * U.fromGpa := by
  unfold modeTable at h
  rw [hi] at h
  simp only at h
  split at h
  · simp only [Option.some.injEq] at h
    subst h
    refine ⟨rfl, ?_, fun j hj => requestedPressures_getD U o j hn hj⟩
    unfold requestedPressures
    exact linspace_length _ _ _
  · cases h

/-- … printed in GPa that is `P_MIN + j·DELTA_P` itself, given that the two pint factors are inverse to each other -/
theorem mode_pressure_printed_P (U : Static.Units ℝ) (o : Options ℝ) (j : Nat) (hn : 2 ≤ o.ntv) (hj : j < o.ntv)
    (hu : U.fromGpa * U.toGpa = 1) :
    (requestedPressures U o).getD j 0 * U.toGpa = o.pMin + (j : ℝ) * o.deltaP := by
  rw [requestedPressures_getD U o j hn hj, mul_assoc, hu, mul_one]

/-- mode pressure: V and F are the SAME rule (`v2p1d` = qha's 4-point Lagrange interpolation in P on the reversed
    arrays) applied to `v_array` and to `f_array`, with the same pressure field `p_array` and the same requested
    pressures — not V twice (the defect repaired in /repo: `F = v2p1d(f_array, …)`). -/
theorem mode_pressure_F_is_fit_at_V (E : Ext ℝ) (U : Static.Units ℝ) (o : Options ℝ) (volumes energies : List ℝ)
    (e : Eos ℝ) (x : VFP ℝ) (hi : o.interp = .pressure) (h : modeTable E U o volumes energies e = some x) :
    v2p1d e.vArray e.pArray x.p = some x.v ∧ v2p1d e.fArray e.pArray x.p = some x.f := by
  unfold modeTable at h
  rw [hi] at h
  simp only at h
  split at h
  · rename_i v f hv hf'
    simp only [Option.some.injEq] at h
    subst h
    exact ⟨hv, hf'⟩
  · cases h

/-- the rule reproduces every quantity that is a cubic polynomial in P along the (decreasing-in-V) pressure
    array, for requested pressures inside the tabulated range (C06's exactness theorem on the reversed arrays) -/
theorem v2p1d_exact_cubic (a b c d : ℝ) (pOld pNew : List ℝ) (hn : 4 ≤ pOld.length)
    (hs : V2P.StrictIncr pOld.reverse)
    (hin : ∀ x ∈ pNew, V2P.nth pOld.reverse 0 ≤ x ∧ x < V2P.nth pOld.reverse (pOld.length - 1)) :
    v2p1d (pOld.map fun x => a + b * x + c * x ^ 2 + d * x ^ 3) pOld pNew
      = some (pNew.map fun x => a + b * x + c * x ^ 2 + d * x ^ 3) := by
  unfold v2p1d V2P.v2p
  have hl : pOld.reverse.length = pOld.length := List.length_reverse
  have h := C06.c06_v2p_exact_cubic a b c d pOld.reverse pNew (by rw [hl]; exact hn) hs
    (by rw [hl]; exact hin)
  rw [← List.map_reverse]
  simp only [List.length_cons, List.length_nil, lt_irrefl, if_false, List.zip_cons_cons, List.zip_nil_right,
    List.mapM_cons, List.mapM_nil, h]
  rfl

/-- Exact case of "F is the fit at the reported V": when along the grid V and F are cubic polynomials `g`, `k` of the
    numerical pressure (data where P is cubic-reproducible), every row is `(V, F) = (g(P), k(P))` at its requested P —
    a point of the tabulated curve; if the fit `Φ` satisfies `Φ ∘ g = k` the row lies on the fit: `F = Φ(V)`.
    For other data the pair lies on the fit to the accuracy of the 4-point Lagrange rule (not proved; monitored). -/
theorem mode_pressure_F_on_fit_partial (E : Ext ℝ) (U : Static.Units ℝ) (o : Options ℝ) (volumes energies : List ℝ)
    (e : Eos ℝ) (x : VFP ℝ) (hi : o.interp = .pressure) (h : modeTable E U o volumes energies e = some x)
    (g k : ℝ × ℝ × ℝ × ℝ)
    (hg : e.vArray = e.pArray.map fun p => g.1 + g.2.1 * p + g.2.2.1 * p ^ 2 + g.2.2.2 * p ^ 3)
    (hk : e.fArray = e.pArray.map fun p => k.1 + k.2.1 * p + k.2.2.1 * p ^ 2 + k.2.2.2 * p ^ 3)
    (hn : 4 ≤ e.pArray.length) (hs : V2P.StrictIncr e.pArray.reverse)
    (hin : ∀ p ∈ x.p, V2P.nth e.pArray.reverse 0 ≤ p ∧ p < V2P.nth e.pArray.reverse (e.pArray.length - 1))
    (Φ : ℝ → ℝ)
    (hΦ : ∀ p, Φ (g.1 + g.2.1 * p + g.2.2.1 * p ^ 2 + g.2.2.2 * p ^ 3)
                = k.1 + k.2.1 * p + k.2.2.1 * p ^ 2 + k.2.2.2 * p ^ 3) :
    x.v = x.p.map (fun p => g.1 + g.2.1 * p + g.2.2.1 * p ^ 2 + g.2.2.2 * p ^ 3) ∧
    x.f = x.p.map (fun p => k.1 + k.2.1 * p + k.2.2.1 * p ^ 2 + k.2.2.2 * p ^ 3) ∧ x.f = x.v.map Φ := by
  obtain ⟨hv, hf'⟩ := mode_pressure_F_is_fit_at_V E U o volumes energies e x hi h
  rw [hg, v2p1d_exact_cubic _ _ _ _ _ _ hn hs hin] at hv
  rw [hk, v2p1d_exact_cubic _ _ _ _ _ _ hn hs hin] at hf'
  simp only [Option.some.injEq] at hv hf'
  refine ⟨hv.symm, hf'.symm, ?_⟩
  rw [← hv, ← hf', List.map_map]
  exact List.map_congr_left fun p _ => (hΦ p).symm

/-- No polynomial assumption at the nodes: a requested pressure that coincides with a grid pressure `p_i` returns
    the grid volume `v_i` and the fitted energy `f_i` of that SAME grid point, so the row is exactly on the fit. -/
theorem mode_pressure_node (xOld fOld pOld : List ℝ) (i : Nat) (hn : 4 ≤ pOld.length)
    (hx : xOld.length = pOld.length) (hfl : fOld.length = pOld.length) (hs : V2P.StrictIncr pOld.reverse)
    (hi : i + 1 < pOld.length) :
    v2p1d xOld pOld [V2P.nth pOld.reverse i] = some [V2P.nth xOld.reverse i] ∧
    v2p1d fOld pOld [V2P.nth pOld.reverse i] = some [V2P.nth fOld.reverse i] := by
  have hl : pOld.reverse.length = pOld.length := List.length_reverse
  have key : ∀ f : List ℝ, f.length = pOld.length →
      v2p1d f pOld [V2P.nth pOld.reverse i] = some [V2P.nth f.reverse i] := by
    intro f hf'
    have h := C06.c06_v2p_node f.reverse pOld.reverse i (by rw [hl]; exact hn)
      (by rw [List.length_reverse, hl, hf']) hs (by rw [hl]; exact hi)
    unfold v2p1d V2P.v2p V2P.v2pRow
    have hlen : ¬ (f.reverse.length < 4 ∨ pOld.reverse.length < 4) := by
      rw [List.length_reverse, hl, hf']; omega
    simp only [List.length_cons, List.length_nil, lt_irrefl, if_false, List.zip_cons_cons, List.zip_nil_right,
      List.mapM_cons, List.mapM_nil, hlen, h]
    rfl
  exact ⟨key xOld hx, key fOld hfl⟩

/-! #### the fit -/

/-- `fit_modulus` returns the values of THE least-squares polynomial: a coefficient vector `p` with `order + 1`
    entries (order 2: quadratic in the Eulerian strain relative to `volumes[0]` — the second-order finite-strain
    fit) whose sum of squared residuals is minimal among all polynomials of that degree (C05 `polyfit_minimises`),
    evaluated at the strains of the target volumes. -/
theorem fit_is_least_squares (E : Ext ℝ) (volumes vArray values col : List ℝ) (order : Nat)
    (h : fitModulus polynomialLeastSquareFitting E volumes vArray values order = some col) :
    ∃ v0 p, volumes.head? = some v0 ∧ p.length = order + 1 ∧
      col = vArray.map (fun v => polyval p (E.strain v0 v)) ∧
      ∀ p' : List ℝ, p'.length ≤ order + 1 →
        sqResidual (volumes.map (E.strain v0)) values p ≤ sqResidual (volumes.map (E.strain v0)) values p' := by
  obtain ⟨v0, p, hv0, hp, hcol⟩ := fitModulus_spec E volumes vArray values col order h
  obtain ⟨hlen, hmin⟩ := C05.polyfit_minimises _ _ _ p hp
  exact ⟨v0, p, hv0, hlen, hcol, hmin⟩

/-- data that ARE a quadratic in the Eulerian strain (≥ 4 distinct strains) are reproduced exactly, everywhere:
    the fitted curve is the generating law, also between and beyond the data -/
theorem fit_exact_on_quadratics (a b c : ℝ) (xs p : List ℝ)
    (h : polyfit xs (xs.map fun x => a + b * x + c * x ^ 2) 2 = some p)
    (x0 x1 x2 x3 : ℝ) (m0 : x0 ∈ xs) (m1 : x1 ∈ xs) (m2 : x2 ∈ xs) (m3 : x3 ∈ xs)
    (h01 : x0 ≠ x1) (h02 : x0 ≠ x2) (h03 : x0 ≠ x3) (h12 : x1 ≠ x2) (h13 : x1 ≠ x3) (h23 : x2 ≠ x3) :
    ∀ x, polyval p x = a + b * x + c * x ^ 2 := by
  obtain ⟨hlen, hmin⟩ := C05.polyfit_minimises xs _ 2 p h
  have hq : ∀ x, polyval [c, b, a] x = a + b * x + c * x ^ 2 := by
    intro x; simp only [polyval, List.foldl_cons, List.foldl_nil]; ring
  have hzero : sqResidual xs (xs.map fun x => a + b * x + c * x ^ 2) [c, b, a] = 0 := by
    unfold sqResidual
    rw [sumL_eq_sum, List.zipWith_map_right, List.zipWith_self]
    apply List.sum_eq_zero
    intro y hy
    obtain ⟨x, _, rfl⟩ := List.mem_map.mp hy
    rw [hq]; ring
  have hres : sqResidual xs (xs.map fun x => a + b * x + c * x ^ 2) p = 0 :=
    le_antisymm (hzero ▸ hmin [c, b, a] (by simp)) (sqResidual_nonneg _ _ _)
  unfold sqResidual at hres
  rw [sumL_eq_sum, List.zipWith_map_right, List.zipWith_self] at hres
  have hpt := sum_sq_eq_zero xs (fun x => polyval p x - (a + b * x + c * x ^ 2)) hres
  have hpoly : IsPolyLT 4 (fun x => polyval p x - polyval [c, b, a] x) :=
    ((isPolyLT_polyval p).mono (by rw [hlen]; norm_num)).sub ((isPolyLT_polyval [c, b, a]).mono (by simp))
  have r : ∀ y ∈ xs, (fun x => polyval p x - polyval [c, b, a] x) y = 0 := by
    intro y hy; simp only [hq]; exact hpt y hy
  intro x
  have := hpoly.eq_zero_of_four_roots x0 x1 x2 x3 h01 h02 h03 h12 h13 h23 (r x0 m0) (r x1 m1) (r x2 m2) (r x3 m3) x
  simp only [hq] at this
  linarith

/-! #### moduli -/

/-- Each `c_ij` column is the finite-strain fit of THAT column of the static table — least squares in the Eulerian
    strain relative to input02's own first volume, on input02's OWN (volume, value) pairs — evaluated at the row
    volumes `x.v` of the table being printed (the input volumes, the grid, or V(P)); input01's volumes do not enter. -/
theorem moduli_at_row_volume (E : Ext ℝ) (d : ElastDat.ElastData ℝ) (x : VFP ℝ) (t1 : Table ℝ)
    (cols : List (String × List ℝ)) (hc : moduliColumns polynomialLeastSquareFitting E d x.v = some cols)
    (hnd : (cols.map (·.1)).Nodup) (h : addModuli polynomialLeastSquareFitting E (some d) x = some t1) :
    ∃ v0, d.volumes.head? = some v0 ∧ cols.length = v0.moduli.length ∧
    ∀ c ∈ cols, getCol t1 c.1 = some c.2 ∧
      ∃ kv ∈ v0.moduli, ∃ vals p, ElastDat.canonName kv.1 = some c.1 ∧ keyValues d kv.1 = some vals ∧
        polyfit ((d.volumes.map (·.volume)).map (E.strain v0.volume)) vals 2 = some p ∧
        c.2 = x.v.map (fun v => polyval p (E.strain v0.volume v)) := by
  obtain ⟨v0, hv0, hlen, hall⟩ := moduliColumns_spec _ E d x.v cols hc
  refine ⟨v0, hv0, hlen, fun c hcm => ⟨?_, ?_⟩⟩
  · unfold addModuli at h
    simp only [bind, Option.bind_eq_some_iff, pure, Option.some.injEq] at h
    obtain ⟨cols', hc', rfl⟩ := h
    rw [hc] at hc'
    simp only [Option.some.injEq] at hc'
    subst hc'
    exact getCol_foldl_setCol_mem _ _ c hcm hnd
  · obtain ⟨kv, hkv, vals, hname, hvals, hfit⟩ := hall c hcm
    obtain ⟨v0', p, hv0', hp, hcol⟩ := fitModulus_spec E _ x.v vals c.2 2 hfit
    have : v0' = v0.volume := by
      cases hd : d.volumes with
      | nil => rw [hd] at hv0; cases hv0
      | cons a r =>
        rw [hd] at hv0 hv0'
        simp only [List.head?_cons, Option.some.injEq, List.map_cons] at hv0 hv0'
        rw [← hv0', ← hv0]
    subst this
    exact ⟨kv, hkv, vals, p, hname, hvals, hp, hcol⟩

/-- the density column before the options: header mass of the static table over the row volume -/
theorem density_from_header (E : Ext ℝ) (d : ElastDat.ElastData ℝ) (x : VFP ℝ) (t1 : Table ℝ)
    (h : addModuli polynomialLeastSquareFitting E (some d) x = some t1) :
    getCol t1 "density" = some (x.v.map fun v => d.cellmass / v) := by
  unfold addModuli at h
  simp only [bind, Option.bind_eq_some_iff, pure, Option.some.injEq] at h
  obtain ⟨cols, hc, rfl⟩ := h
  rw [getCol_foldl_setCol_ne cols _ "density"
    (fun c hc' => ne_of_startsWithC (by decide) (moduliColumns_names _ E d x.v cols hc c hc'))]
  exact getCol_setCol_self _ _ _

/-! #### options: `--cellmass`, `-s` -/

/-- `--cellmass m` (m ≠ 0) replaces the density by `m / V` whatever mass the table header carried; without the
    option (or with 0, which Python treats as false) the table is left alone. -/
theorem cellmass_override (t : Table ℝ) (v : List ℝ) (hv : getCol t "V" = some v) (m : ℝ) (hm : m ≠ 0) :
    (∃ t', overrideDensity (some m) t = some t' ∧ getCol t' "density" = some (v.map fun x => m / x) ∧
        ∀ name, name ≠ "density" → getCol t' name = getCol t name) ∧
    overrideDensity (none : Option ℝ) t = some t ∧ overrideDensity (some (0 : ℝ)) t = some t := by
  refine ⟨?_, rfl, ?_⟩
  · have ht : truthy (some m) = some m := by simp [truthy, hm]
    refine ⟨setCol t "density" (v.map fun x => m / x), ?_, getCol_setCol_self _ _ _,
      fun name hn => getCol_setCol_ne _ _ _ _ hn⟩
    unfold overrideDensity
    rw [ht]
    simp [hv]
  · simp [overrideDensity, truthy]

/-- the printed density is `(mass / V)·_to_gcm3` with mass = `--cellmass` when given (non-zero), else the header's -/
theorem final_density (E : Ext ℝ) (hf : FillKeeps E) (U : Static.Units ℝ) (o : Options ℝ) (d1 : QhaInput.Data ℝ)
    (d : ElastDat.ElastData ℝ) (t : Table ℝ) (h : table E U o d1 (some d) = some t) :
    ∃ ve e x, input01Columns d1 = some ve ∧ eos polynomialLeastSquareFitting E o.vRatio o.ntv ve.1 ve.2 = some e ∧
      modeTable E U o ve.1 ve.2 e = some x ∧
      getCol t "density" = some (x.v.map fun v =>
        (match truthy o.cellmass with | some m => m | none => d.cellmass) / v * U.toGcm3) := by
  obtain ⟨ve, e, x, t1, t2, t3, t4, h1, h2, h3, h4, h5, h6, h7, h8⟩ := table_stages E U o d1 (some d) t h
  refine ⟨ve, e, x, h1, h2, h3, ?_⟩
  rw [addVelocities_keeps E U _ _ _ h8 "density" (by decide), convertUnits_density,
    addVrh_keeps E _ _ _ h7 "density" (by decide)]
  have hd2 : getCol t2 "density" = some (x.v.map fun v => d.cellmass / v) := by
    rw [applyFill_keeps E hf _ _ _ _ h5 "density" (by decide)]
    exact density_from_header E d x t1 h4
  have hV2 : getCol t2 "V" = some x.v := by
    rw [applyFill_keeps E hf _ _ _ _ h5 "V" (by decide), addModuli_keeps _ E _ x t1 h4 "V" (by decide)]
    rfl
  unfold overrideDensity at h6
  cases htr : truthy o.cellmass with
  | none =>
    rw [htr] at h6
    simp only [Option.some.injEq] at h6
    subst h6
    rw [hd2]
    simp [List.map_map, Function.comp_def]
  | some m =>
    rw [htr] at h6
    simp only [hV2, Option.map_some, Option.some.injEq] at h6
    subst h6
    rw [getCol_setCol_self]
    simp [List.map_map, Function.comp_def]

/-- `-s SYSTEM` without a static table changes nothing (there are no tensor components to fill): the command
    reports the same table as without the option (/repo 34736c8; before, `fill_cij` raised IndexError). -/
theorem system_without_table (E : Ext ℝ) (U : Static.Units ℝ) (o : Options ℝ) (d1 : QhaInput.Data ℝ) (s : String) :
    table E U { o with system := some s } d1 none = table E U { o with system := none } d1 none := by
  unfold table tableWith applyFill
  rfl

/-- with a table, `fill_cij(df, system)` is applied to the frame that holds V, F, P, density and the fitted moduli -/
theorem system_applied (E : Ext ℝ) (s : String) (t1 : Table ℝ) : applyFill E (some s) true t1 = E.fill s t1 := by
  simp [applyFill]

/-! #### the private VRH block -/

/-- a 1-based `Nat`-indexed array seen with C07's `Int` indices -/
def asInt (c : Nat → Nat → ℝ) : Int → Int → ℝ := fun i j => c i.toNat j.toNat

/-- The formulas typed into `cli/static.py` are the model functions of C07 (`CijModel/VRH.lean`), argument by
    argument — so everything C07 proves about those (tensor identities, bounds) holds for run-static's columns. -/
theorem static_vrh_eq_c07 (c s : Nat → Nat → ℝ) (v r : ℝ) :
    bmV c = VRH.bulkVoigtPt (c 1 1) (c 2 2) (c 3 3) (c 1 2) (c 2 3) (c 1 3) ∧
    bmR s = VRH.bulkReussPt (s 1 1) (s 2 2) (s 3 3) (s 1 2) (s 2 3) (s 1 3) ∧
    gV c = VRH.shearVoigtPt (c 1 1) (c 2 2) (c 3 3) (c 1 2) (c 2 3) (c 1 3) (c 4 4) (c 5 5) (c 6 6) ∧
    gR s = VRH.shearReussPt (s 1 1) (s 2 2) (s 3 3) (s 1 2) (s 2 3) (s 1 3) (s 4 4) (s 5 5) (s 6 6) ∧
    vrh v r = VRH.hillPt r v := by
  refine ⟨?_, ?_, ?_, ?_, ?_⟩
  · simp [bmV, VRH.bulkVoigtPt, lit]
  · simp [bmR, VRH.bulkReussPt, lit]
  · simp [gV, VRH.shearVoigtPt, lit]
  · simp [gR, VRH.shearReussPt, lit]
  · simp [vrh, VRH.hillPt, lit, add_comm]

/-- Reuss ≤ Hill ≤ Voigt (and Reuss > 0) for run-static's own averages, whenever the row's 6×6 stiffness is
    symmetric positive definite and `s` is its inverse — inherited from C07's bounds. -/
theorem static_reuss_hill_voigt (c s : Nat → Nat → ℝ)
    (hc : (VRH.toMat (asInt c))ᵀ = VRH.toMat (asInt c)) (hpd : VRH.PosDef6 (asInt c))
    (hinv : VRH.toMat (asInt c) * VRH.toMat (asInt s) = 1) :
    0 < bmR s ∧ bmR s ≤ vrh (bmV c) (bmR s) ∧ vrh (bmV c) (bmR s) ≤ bmV c ∧
    0 < gR s ∧ gR s ≤ vrh (gV c) (gR s) ∧ vrh (gV c) (gR s) ≤ gV c := by
  obtain ⟨e1, e2, e3, e4, _⟩ := static_vrh_eq_c07 c s 0 0
  have hk := VRH.kr_le_kv_pt (asInt c) (asInt s) hc hpd hinv
  have hg := VRH.gr_le_gv_pt (asInt c) (asInt s) hc hpd hinv
  have ek : bmR s ≤ bmV c := by rw [e1, e2]; exact hk.2
  have eg : gR s ≤ gV c := by rw [e3, e4]; exact hg.2
  have pk : 0 < bmR s := by rw [e2]; exact hk.1
  have pg : 0 < gR s := by rw [e4]; exact hg.1
  have hv : ∀ a b : ℝ, vrh a b = (a + b) / 2 := fun a b => by simp [vrh, lit]
  refine ⟨pk, ?_, ?_, pg, ?_, ?_⟩ <;> rw [hv] <;> linarith

/-- the Reuss averages are C07's contractions of the compliance TENSOR `S_ijkl = s_pq·(1, ½, ¼)`:
    `K_R = 1 / S_iijj`, `G_R = 15 / (6 S_ijij − 2 S_iijj)` -/
theorem static_reuss_tensor (s : Nat → Nat → ℝ) :
    bmR s = 1 / VRH.contractIIJJ (VRH.complTensorOf (asInt s)) ∧
    gR s = 15 / (6 * VRH.contractIJIJ (VRH.complTensorOf (asInt s)) - 2 * VRH.contractIIJJ (VRH.complTensorOf (asInt s))) := by
  rw [VRH.contractIIJJ_complTensorOf, VRH.contractIJIJ_complTensorOf]
  have e1 : Int.toNat 1 = 1 := rfl
  have e2 : Int.toNat 2 = 2 := rfl
  have e3 : Int.toNat 3 = 3 := rfl
  have e4 : Int.toNat 4 = 4 := rfl
  have e5 : Int.toNat 5 = 5 := rfl
  have e6 : Int.toNat 6 = 6 := rfl
  simp only [bmR, gR, lit, asInt, e1, e2, e3, e4, e5, e6]
  constructor
  · norm_num
  · norm_num
    congr 1
    ring

/-- The 6×6 that is inverted is built from the columns of the table the block RECEIVES — i.e. after `fill_cij` and
    `--cellmass` (`table_stages`: `addVrh` is applied to `t3`) —: entry (i, j) is the column of the sorted pair, 0 when
    absent, hence symmetric; and the six average columns are the formulas above on it and on the batched inverse. -/
theorem vrh_from_filled_table (E : Ext ℝ) (t3 t4 : Table ℝ) (h : addVrh E true t3 = some t4) :
    (∀ r i j, 1 ≤ i ∧ i ≤ 6 → 1 ≤ j ∧ j ≤ 6 →
      at6 (cMat t3 r) i j = cEntry t3 r i j ∧ at6 (cMat t3 r) i j = at6 (cMat t3 r) j i) ∧
    ∃ ss, E.inv6 ((List.range (nRows t3)).map (cMat t3)) = some ss ∧
      getCol t4 "bm_V" = some ((List.range (nRows t3)).map fun r => bmV (at6 (cMat t3 r))) ∧
      getCol t4 "G_V" = some ((List.range (nRows t3)).map fun r => gV (at6 (cMat t3 r))) ∧
      getCol t4 "bm_R" = some (ss.map fun s => bmR (at6 s)) ∧
      getCol t4 "G_R" = some (ss.map fun s => gR (at6 s)) ∧
      getCol t4 "bm_VRH" = some (List.zipWith vrh ((List.range (nRows t3)).map fun r => bmV (at6 (cMat t3 r)))
                                  (ss.map fun s => bmR (at6 s))) ∧
      getCol t4 "G_VRH" = some (List.zipWith vrh ((List.range (nRows t3)).map fun r => gV (at6 (cMat t3 r)))
                                  (ss.map fun s => gR (at6 s))) := by
  constructor
  · intro r i j hi hj
    refine ⟨at6_cMat t3 r i j hi hj, ?_⟩
    rw [at6_cMat t3 r i j hi hj, at6_cMat t3 r j i hj hi, cEntry_symm]
  · obtain ⟨ss, hs, a1, a2, a3, a4, a5, a6⟩ := addVrh_spec E t3 t4 h
    simp only [List.map_map, Function.comp_def] at a1 a3 a4 a6
    exact ⟨ss, hs, a1, a4, a2, a5, a3, a6⟩

/-! #### velocities and units -/

/-- the three velocity columns are `sqrt(M/ρ)·_to_kms` of the printed `bm_VRH`, `G_VRH`, `density` columns with
    `M = K + 4G/3, G, K`; with the real square root and `_to_kms = 1` (see `kms_factor_one`):
    `ρ v_p² = K + 4G/3`, `ρ v_s² = G`, `ρ v_φ² = K`. -/
theorem velocities_from_vrh (E : Ext ℝ) (U : Static.Units ℝ) (t t' : Table ℝ) (h : addVelocities E U true t = some t') :
    ∃ k g rho, getCol t "bm_VRH" = some k ∧ getCol t "G_VRH" = some g ∧ getCol t "density" = some rho ∧
      getCol t' "v_p" = some (zip3 (vP E U) k g rho) ∧ getCol t' "v_s" = some (List.zipWith (vS E U) g rho) ∧
      getCol t' "v_phi" = some (List.zipWith (vPhi E U) k rho) :=
  addVelocities_spec E U t t' h

theorem velocity_squares (E : Ext ℝ) (U : Static.Units ℝ) (hs : E.sqrt = Real.sqrt) (hu : U.toKms = 1) (K G rho : ℝ)
    (hr : 0 < rho) (hK : 0 ≤ K) (hG : 0 ≤ G) :
    rho * vP E U K G rho ^ 2 = K + 4 * G / 3 ∧ rho * vS E U G rho ^ 2 = G ∧ rho * vPhi E U K rho ^ 2 = K := by
  simp only [vP, vS, vPhi, hs, hu, mul_one, lit, Nat.cast_ofNat]
  have h1 : 0 ≤ (K + 4 / 3 * G) / rho := by positivity
  have h2 : 0 ≤ G / rho := by positivity
  have h3 : 0 ≤ K / rho := by positivity
  rw [Real.sq_sqrt h1, Real.sq_sqrt h2, Real.sq_sqrt h3]
  refine ⟨?_, ?_, ?_⟩ <;> field_simp

/-- `_to_kms` is 1 exactly: a modulus of `M` GPa = `M·10⁹` Pa and a density of `ρ` g/cm³ = `ρ·10³` kg/m³ give
    `sqrt(M·10⁹ / (ρ·10³))` m/s = `sqrt(M/ρ)·10³` m/s = `sqrt(M/ρ)` km/s. -/
theorem kms_factor_one (M rho : ℝ) (hM : 0 ≤ M) (hr : 0 < rho) :
    Real.sqrt (M * 10 ^ 9 / (rho * 10 ^ 3)) = Real.sqrt (M / rho) * 10 ^ 3 := by
  have h : M * 10 ^ 9 / (rho * 10 ^ 3) = M / rho * (10 ^ 3) ^ 2 := by field_simp
  rw [h, Real.sqrt_mul (by positivity), Real.sqrt_sq (by positivity)]

/-- `_to_gcm3`: a cell of mass `m` g/mol per particle, i.e. `m / N_A` g, in a volume of `V` bohr³ = `V·a₀³` cm³
    (a₀ in cm) has the density `(m / V) · 1/(N_A·a₀³)` g/cm³ — the factor is `1/(N_A·a₀³[cm³])`. -/
theorem gcm3_factor (m V NA a0 : ℝ) (hV : V ≠ 0) (hN : NA ≠ 0) (ha : a0 ≠ 0) :
    (m / NA) / (V * a0 ^ 3) = (m / V) * (1 / (NA * a0 ^ 3)) := by
  field_simp

/-! #### sampling -/

/-- Sampling (mode pressure with a non-zero `--delta-p-sample` only): with `s = round(DELTA_P_SAMPLE / DELTA_P) > 0`
    the printed rows are those with label `0, s, 2s, …` (a label is kept iff it is a multiple of `s`), each column
    restricted to them; in every other case all rows are printed. -/
theorem sampling_rows (E : Ext ℝ) (o : Options ℝ) (t : Table ℝ) :
    ((o.interp ≠ .pressure ∨ truthy o.deltaPSample = none) →
        sample E o t = some ⟨List.range (nRows t), t⟩) ∧
    (∀ dps (s : Nat), o.interp = .pressure → truthy o.deltaPSample = some dps → E.round (dps / o.deltaP) = s → 0 < s →
      ∃ out, sample E o t = some out ∧ (∀ i, i ∈ out.index ↔ i < nRows t ∧ s ∣ i) ∧
        out.table = t.map fun c => (c.1, out.index.map fun i => c.2.getD i 0)) := by
  constructor
  · intro h
    unfold sample
    rcases h with h | h
    · cases hi : o.interp <;> simp_all
    · rw [h]; cases o.interp <;> rfl
  · intro dps s hi hd hr hs
    unfold sample
    rw [hi, hd]
    simp only [hr]
    have hne : ((s : Int) = 0) = False := by simp; omega
    simp only [hne, if_false]
    refine ⟨_, rfl, ?_, rfl⟩
    intro i
    simp only [sliceIdx, Int.natCast_pos, hs, if_true, Int.toNat_natCast, List.mem_filter, List.mem_range,
      decide_eq_true_eq, Nat.dvd_iff_mod_eq_zero]

/-- when `DELTA_P_SAMPLE = m · DELTA_P` (m ≥ 1 whole) and `round` fixes the integers, the step is `m`:
    the printed rows sit at `P_MIN + k·DELTA_P_SAMPLE`. -/
theorem sampling_step_exact (E : Ext ℝ) (hround : ∀ k : Int, E.round (k : ℝ) = k) (dP : ℝ) (hd : dP ≠ 0) (m : Nat) :
    E.round ((m : ℝ) * dP / dP) = m := by
  rw [mul_div_assoc, div_self hd, mul_one]
  exact_mod_cast hround m

/-! #### the model is the source (`tools/gens/static_src.py` → `Generated/StaticSpec.lean`, re-translated on every run) -/

/-- `runWith` — the function the driver executes and every theorem above is about — is the interpretation
    (`CijModel/StaticExpr.lean`) of the blocks of `cij/cli/static.py::main` as they are in the working tree now, in source order,
    from the empty state: same table, same row labels, same failures — for EVERY input, with no hypothesis.
    `fill_cij` is its model `Fill.fill` (CijModel/Fill.lean, the function C08/C09 are about; any lookup environment `env`, any
    keyword parameters `P`; `StaticSrc.withModelFill E env P` is `E` with `fill s t := (Fill.fill env (some s) P t).toOption`);
    the other library calls (`E`: strain, sqrt, spline, batched inverse, round), the fit, units, options and files are arbitrary.
    What was the hypothesis `FillFrame` is now `fill_keeps_frame` below. -/
theorem static_model_is_source (fit : Fit ℝ) (E : Ext ℝ) (env : Fill.Env) (P : Fill.Params ℝ) (U : Static.Units ℝ)
    (o : Options ℝ) (d1 : QhaInput.Data ℝ) (d2 : Option (ElastDat.ElastData ℝ)) :
    runWith fit (StaticSrc.withModelFill E env P) U o d1 d2
      = StaticSrc.run ⟨fit, StaticSrc.withModelFill E env P, U, o, d1, d2⟩ Generated.staticBlocks :=
  (StaticSrc.run_is_source_model fit E env P U o d1 d2).symm

/-- The contract of `fill_cij(df, system)` that the in-place unit conversion `df[c] = f(df[c])` of blocks 12-13 relies on, PROVED
    of the model: for every frame without duplicate labels that has V, F, P (whatever else it holds: density, `c_ij` columns under
    any spelling), every system (or `None`), every lookup environment and keyword parameters, the frame `Fill.fill` returns when it
    accepts has no duplicate labels and still has V, F, P — and V, F, P, density hold the values they had.
    (The write-back appends a label `sym` only when no label lower-cases to `sym`, and each of the 21 symbols generated from
    `Generated.symbolPairs` is its own lower-case form; the drop keeps a sub-list and only looks at `c\d\d` labels.) -/
theorem fill_keeps_frame (env : Fill.Env) (system : Option String) (P : Fill.Params ℝ) (t t' : Table ℝ)
    (h : Fill.fill env system P t = .ok t') (hnd : (t.map (·.1)).Nodup)
    (hV : (getCol t "V").isSome) (hF : (getCol t "F").isSome) (hP : (getCol t "P").isSome) :
    (t'.map (·.1)).Nodup ∧ (getCol t' "V").isSome ∧ (getCol t' "F").isSome ∧ (getCol t' "P").isSome ∧
    getCol t' "V" = getCol t "V" ∧ getCol t' "F" = getCol t "F" ∧ getCol t' "P" = getCol t "P" ∧
    getCol t' "density" = getCol t "density" := by
  obtain ⟨G, e⟩ := StaticSrc.fill_model_good env system P t t' h ⟨hnd, hV, hF, hP⟩
  exact ⟨G.1, G.2.1, G.2.2.1, G.2.2.2, e⟩

/-- … i.e. `FillFrame` holds of the environment the theorem above is about, and of every environment whose `fill` is the model -/
theorem fill_frame_of_model (E : Ext ℝ) (env : Fill.Env) (P : Fill.Params ℝ) :
    StaticSrc.FillFrame (StaticSrc.withModelFill E env P) ∧
    ((∀ s t, E.fill s t = (Fill.fill env (some s) P t).toOption) → StaticSrc.FillFrame E) :=
  ⟨StaticSrc.fillFrame_model E env P, StaticSrc.fillFrame_of_model E env P⟩

/-- the general form the above follows from: ANY `fill` (not only the model) that maps frames without duplicate labels holding
    V, F, P to such frames (`FillFrame`) -/
theorem static_model_is_source_of_fill_frame (fit : Fit ℝ) (E : Ext ℝ) (hf : StaticSrc.FillFrame E) (U : Static.Units ℝ)
    (o : Options ℝ) (d1 : QhaInput.Data ℝ) (d2 : Option (ElastDat.ElastData ℝ)) :
    runWith fit E U o d1 d2 = StaticSrc.run ⟨fit, E, U, o, d1, d2⟩ Generated.staticBlocks :=
  (StaticSrc.run_is_source ⟨fit, E, U, o, d1, d2⟩ hf).symm

/-- … in particular `run` (qha's least squares as modelled for C05) -/
theorem static_model_is_source_run (E : Ext ℝ) (env : Fill.Env) (P : Fill.Params ℝ) (U : Static.Units ℝ) (o : Options ℝ)
    (d1 : QhaInput.Data ℝ) (d2 : Option (ElastDat.ElastData ℝ)) :
    Static.run (StaticSrc.withModelFill E env P) U o d1 d2
      = StaticSrc.run ⟨polynomialLeastSquareFitting, StaticSrc.withModelFill E env P, U, o, d1, d2⟩ Generated.staticBlocks :=
  static_model_is_source _ E env P U o d1 d2

/-- … and the `Float` run of the driver: the two results the op `c18.run` compares under `"check_source": true`
    (`Ops.C18.runModel` = `runWith` with the driver's `Float` environment, whose `fill` is the model over `Rat` on the exact values
    of the doubles; `Ops.C18.runSource` = the interpretation of the translated blocks) are equal on every input. -/
theorem static_model_is_source_driver (u : Static.Units Float) (o : Options Float) (d1 : QhaInput.Data Float)
    (d2 : Option (ElastDat.ElastData Float)) : Ops.C18.runModel u o d1 d2 = Ops.C18.runSource u o d1 d2 :=
  (StaticSrc.run_is_source_driver u o d1 d2).symm

/-- the two inner helpers: `fit_modulus` (Eulerian strains of nodes AND targets relative to `volumes[0]`, least squares of
    the given order, default `order=2`) and `v2p1d` (both arrays flipped, one isotherm through qha's `v2p`) -/
theorem static_model_is_source_helpers (I : StaticSrc.Inp ℝ) (vols vArr mod x p pn : List ℝ) (order : Nat) :
    fitModulus I.fit I.E vols vArr mod order
      = (StaticSrc.callFun I Generated.staticFitModulus [.ar vols, .ar vArr, .ar mod, .nat order]).bind StaticSrc.Val.toAr ∧
    fitModulus I.fit I.E vols vArr mod
      = (StaticSrc.callFun I Generated.staticFitModulus [.ar vols, .ar vArr, .ar mod]).bind StaticSrc.Val.toAr ∧
    v2p1d x p pn = (StaticSrc.callFun I Generated.staticV2p1d [.ar x, .ar p, .ar pn]).bind StaticSrc.Val.toAr :=
  ⟨StaticSrc.fitModulus_is_source I vols vArr mod order, StaticSrc.fitModulus_default_is_source I vols vArr mod,
    StaticSrc.v2p1d_is_source I x p pn⟩

/-- block 2: the frame of INPUT01 (`V`, `F` from `volume`, `energy`) and `v_array`, `f_array`, `p_array` are `input01Columns`
    and `eos` -/
theorem static_model_is_source_eos (I : StaticSrc.Inp ℝ) (st : StaticSrc.St ℝ) :
    StaticSrc.execBlock I st (StaticSrc.blk 2) = (input01Columns I.d1).bind fun ve =>
      (eos I.fit I.E I.o.vRatio I.o.ntv ve.1 ve.2).map (StaticSrc.stEos st ve) :=
  StaticSrc.eos_block_is_source I st

/-- blocks 3-6: the `if / elif / elif` over `interp` and `v_array = df.loc[:, "V"]` are `modeTable` -/
theorem static_model_is_source_modes (I : StaticSrc.Inp ℝ) (st : StaticSrc.St ℝ) (ve : List ℝ × List ℝ) (e : Eos ℝ) :
    StaticSrc.execBlocks I [StaticSrc.blk 3, StaticSrc.blk 4, StaticSrc.blk 5, StaticSrc.blk 6] (StaticSrc.stEos st ve e)
      = (modeTable I.E I.U I.o ve.1 ve.2 e).map (StaticSrc.stMode st ve e I.o.interp) :=
  StaticSrc.mode_blocks_are_source I st ve e

/-- block 7 (`if input02`): density from the header mass, then every key fitted on INPUT02's own (volume, value) pairs and
    evaluated at `v_array` = the `V` column before the unit conversion -/
theorem static_model_is_source_moduli (I : StaticSrc.Inp ℝ) (st : StaticSrc.St ℝ) (x : VFP ℝ) (hdf : st.df = x.table)
    (hv : StaticSrc.lookup st.loc "v_array" = some (.ar x.v)) :
    StaticSrc.execBlock I st (StaticSrc.blk 7) = (addModuli I.fit I.E I.d2 x).map fun t => { st with df := t } :=
  StaticSrc.moduli_block_eq_addModuli I st x hdf hv

/-- blocks 8-9: `if system == None: warning  elif input02: df = fill_cij(df, system)` -/
theorem static_model_is_source_fill (I : StaticSrc.Inp ℝ) (st : StaticSrc.St ℝ) :
    StaticSrc.execBlocks I [StaticSrc.blk 8, StaticSrc.blk 9] st
      = (applyFill I.E I.o.system I.d2.isSome st.df).map fun t => { st with df := t } :=
  StaticSrc.fill_blocks_are_source I st

/-- block 10, AFTER the table's density and the fill: `if cellmass: density = cellmass / V` -/
theorem static_model_is_source_cellmass (I : StaticSrc.Inp ℝ) (st : StaticSrc.St ℝ) :
    StaticSrc.execBlock I st (StaticSrc.blk 10) = (overrideDensity I.o.cellmass st.df).map fun t => { st with df := t } :=
  StaticSrc.cellmass_block_is_source I st

/-- block 11 (`if input02`): the 6×6 from the columns present now, the batched inverse, the six averages -/
theorem static_model_is_source_vrh (I : StaticSrc.Inp ℝ) (st : StaticSrc.St ℝ) :
    (StaticSrc.execBlock I st (StaticSrc.blk 11)).map (·.df) = addVrh I.E I.d2.isSome st.df := by
  rw [StaticSrc.vrh_block_is_source]
  unfold addVrh
  cases I.d2.isSome with
  | false => rfl
  | true =>
    simp only [if_true, Bool.not_true, Bool.false_eq_true, if_false]
    cases I.E.inv6 ((List.range (nRows st.df)).map (cMat st.df)) <;> rfl

/-- the six formulas typed into the script, row by row, through the evaluator of calculator.py's averages -/
theorem static_model_is_source_vrh_formulas (E : Ext ℝ) (c s : Nat → Nat → ℝ) (kv kr gv gr : ℝ) :
    bmV c = @VExpr.eval ℝ (StaticSrc.scalarOf E) _ _ _ _ (StaticSrc.rowEnv c s kv kr gv gr) Generated.staticVrh_bm_V ∧
    bmR s = @VExpr.eval ℝ (StaticSrc.scalarOf E) _ _ _ _ (StaticSrc.rowEnv c s kv kr gv gr) Generated.staticVrh_bm_R ∧
    vrh kv kr = @VExpr.eval ℝ (StaticSrc.scalarOf E) _ _ _ _ (StaticSrc.rowEnv c s kv kr gv gr) Generated.staticVrh_bm_VRH ∧
    gV c = @VExpr.eval ℝ (StaticSrc.scalarOf E) _ _ _ _ (StaticSrc.rowEnv c s kv kr gv gr) Generated.staticVrh_G_V ∧
    gR s = @VExpr.eval ℝ (StaticSrc.scalarOf E) _ _ _ _ (StaticSrc.rowEnv c s kv kr gv gr) Generated.staticVrh_G_R ∧
    vrh gv gr = @VExpr.eval ℝ (StaticSrc.scalarOf E) _ _ _ _ (StaticSrc.rowEnv c s kv kr gv gr) Generated.staticVrh_G_VRH :=
  StaticSrc.vrh_formulas_are_source E c s kv kr gv gr

/-- blocks 12-13: V, F, P (and density when present) each converted once, BEFORE the velocities -/
theorem static_model_is_source_units (I : StaticSrc.Inp ℝ) (st : StaticSrc.St ℝ) (h : StaticSrc.Good st.df) :
    StaticSrc.execBlocks I [StaticSrc.blk 12, StaticSrc.blk 13] st = some { st with df := convertUnits I.U st.df } :=
  StaticSrc.units_blocks_are_source I st h.1 h.2.1 h.2.2.1 h.2.2.2

/-- block 14 (`if input02`): the three velocities from the converted density, then `_to_kms` -/
theorem static_model_is_source_velocities (I : StaticSrc.Inp ℝ) (st : StaticSrc.St ℝ) :
    StaticSrc.execBlock I st (StaticSrc.blk 14)
      = (addVelocities I.E I.U I.d2.isSome st.df).map fun t => { st with df := t } :=
  StaticSrc.velocity_block_is_source I st

/-- blocks 15-16: `step = round(delta_p_sample / delta_p)`, `df.iloc[::step, :]` under `interp == "pressure" and
    delta_p_sample`, then the frame is written -/
theorem static_model_is_source_sampling (I : StaticSrc.Inp ℝ) (st : StaticSrc.St ℝ) (hidx : st.index = none) :
    (StaticSrc.execBlocks I [StaticSrc.blk 15, StaticSrc.blk 16] st).bind (·.out) = sample I.E I.o st.df :=
  StaticSrc.sample_blocks_are_source I st hidx

/-- the ORDER of the script: what each of the seventeen blocks assigns, top to bottom — the table's density (block 7) before
    the fill (9) before the `--cellmass` override (10) before the averages (11) before the unit conversion (12, 13) before the
    velocities (14) before the sampling (15) before the write (16) — and the guard of every block. -/
theorem static_model_is_source_order :
    (Generated.staticBlocks.map fun b => b.body.map StaticSrc.Stmt.tag) =
      [["input01=read_energy"], ["input02=read_elast_data"],
       ["df=frame(input01)", "volumes", "v_array", "energies", "f_array", "p_array"],
       ["df.P"], ["df=frame", "df.V", "df.F", "df.P"],
       ["_p_array", "_v_array", "_f_array", "df=frame", "df.V", "df.F", "df.P"], ["v_array"],
       ["df.density", "df.c_ij"], ["warning"], ["df=fill_cij"], ["df.density"],
       ["c,s", "df.bm_V", "df.bm_R", "df.bm_VRH", "df.G_V", "df.G_R", "df.G_VRH"],
       ["df.V", "df.F", "df.P"], ["df.density"],
       ["df.v_p", "df.v_s", "df.v_phi", "df.v_p", "df.v_s", "df.v_phi"], ["df=df.iloc[::step]"], ["stdout"]] ∧
    Generated.staticBlocks.map (·.guard) =
      [[], [(true, .input02)], [],
       [(true, .interpIs "none")], [(false, .interpIs "none"), (true, .interpIs "volume")],
       [(false, .interpIs "none"), (false, .interpIs "volume"), (true, .interpIs "pressure")], [],
       [(true, .input02)], [(true, .systemIsNone)], [(false, .systemIsNone), (true, .input02)], [(true, .cellmass)],
       [(true, .input02)], [], [(true, .hasCol "density")], [(true, .input02)],
       [(true, .interpIs "pressure"), (true, .deltaPSample)], []] :=
  ⟨by decide, StaticSrc.guards_are_source⟩

/-- the click declaration: command name, the parameters under the names `main` receives (= its signature, no Python-level
    default), kinds / types / required, and `-I` accepting exactly the three modes of the model -/
theorem static_model_is_source_click :
    Generated.staticCommand = "run-static" ∧
    Generated.staticClick.map (·.pyName)
      = ["input01", "input02", "interp", "ntv", "p_min", "delta_p", "delta_p_sample", "cellmass", "v_ratio", "system"] ∧
    (∀ n ∈ Generated.staticClick.map (·.pyName), n ∈ Generated.staticMainParams.map (·.1)) ∧
    (∀ n ∈ Generated.staticMainParams.map (·.1), n ∈ Generated.staticClick.map (·.pyName)) ∧
    (Generated.staticClick.map fun p => (p.pyName, p.kind, p.type, p.required))
      = [("input01", "argument", "Path(exists=True)", true), ("input02", "argument", "Path(exists=True)", false),
         ("interp", "option", "Choice", false), ("ntv", "option", "INT", false), ("p_min", "option", "FLOAT", false),
         ("delta_p", "option", "FLOAT", false), ("delta_p_sample", "option", "FLOAT", false),
         ("cellmass", "option", "FLOAT", false), ("v_ratio", "option", "FLOAT", false), ("system", "option", "", false)] ∧
    ∀ s, (s ∈ ((StaticSrc.clickParam? Generated.staticClick "interp").map (·.choices)).getD []) ↔
      (∃ i : Interp, StaticSrc.interpName i = s) :=
  ⟨StaticSrc.click_names_are_source.1, StaticSrc.click_names_are_source.2.1, StaticSrc.click_names_are_source.2.2.1,
    StaticSrc.click_names_are_source.2.2.2.1, StaticSrc.click_types_are_source, StaticSrc.interp_choices_are_source⟩

/-- a bare `cij run-static INPUT01 [INPUT02]` runs with `-I none -n 201 --p-min 0 --delta-p 1.0 --v-ratio 1.2`, no sampling, no
    `--cellmass`, no `-s` (the driver takes these from the declaration whenever the harness leaves an option out) -/
theorem static_defaults_are_source :
    StaticSrc.defaultOptions (α := ℝ) = some { interp := .none, ntv := 201, pMin := 0, deltaP := 1, deltaPSample := none,
                                               cellmass := none, vRatio := 6 / 5, system := none } := by
  obtain ⟨h1, h2, h3, h4, h5, h6, h7, h8, _⟩ := StaticSrc.click_defaults_are_source
  simp [StaticSrc.defaultOptions, h1, h2, h3, h4, h5, h6, h7, h8, StaticSrc.interpOfName, StaticSrc.PyLit.toScalar,
    StaticSrc.PyLit.toOptScalar, StaticSrc.intToScalar]

/-- units.py: the seven helpers exist and convert between units of the same dimension; `_from_gpa` is `_to_gpa` reversed, so
    the two factors multiply to 1 (the hypothesis `hu` of `mode_pressure_printed_P`); `_to_kms` is exactly 1 (`kms_factor_one`);
    `_to_gcm3` is `1/(N_A (a₀/cm)³)` (`gcm3_factor`). -/
theorem static_units_are_source :
    (Generated.staticUnitHelpers.map (·.name)
      = ["_to_gpa", "_from_gpa", "_to_ang3", "_from_ang3", "_to_gcm3", "_to_ev", "_to_kms"] ∧
     ∀ h ∈ Generated.staticUnitHelpers, h.src.dim.isSome ∧ h.src.dim = h.dst.dim) ∧
    (∀ (base : String → ℝ) (a b : StaticSrc.UnitHelper), StaticSrc.unitHelper? "_to_gpa" = some a →
      StaticSrc.unitHelper? "_from_gpa" = some b → a.src.val base ≠ 0 → a.dst.val base ≠ 0 →
      b.factor base * a.factor base = 1) ∧
    (∀ h, StaticSrc.unitHelper? "_to_kms" = some h → h.factor StaticSrc.siBase = 1) ∧
    (∀ (base : String → ℝ) (h : StaticSrc.UnitHelper) (NA : ℝ), StaticSrc.unitHelper? "_to_gcm3" = some h →
      base "mol" = NA * base "particle" → base "g" ≠ 0 → base "particle" ≠ 0 → NA ≠ 0 → base "bohr" ≠ 0 → base "cm" ≠ 0 →
      h.factor base = 1 / (NA * (base "bohr" / base "cm") ^ 3)) :=
  ⟨StaticSrc.unit_helpers_dimensions, fun base a b ha hb h1 h2 => StaticSrc.gpa_factors_inverse base a b ha hb h1 h2,
    fun h hh => StaticSrc.kms_factor_is_one h hh,
    fun base h NA hh hm hg hp hN hb hc => StaticSrc.gcm3_factor_is_source base h hh NA hm hg hp hN hb hc⟩

/-! #### non-vacuity: exact runs of the model over ℚ -/

section Examples

/-- library stand-ins for the examples: strain = plain volume ratio − 1, no fill, exact inverse not needed -/
def exE : Ext ℚ where
  strain v0 v := v0 / v - 1
  sqrt x := x
  spline _ _ ts := ts.map fun _ => 0
  inv6 cs := some cs
  fill _ t := some t
  round x := x.floor
def exU : Static.Units ℚ := ⟨1, 1, 1, 1, 1, 1⟩
/-- `-I pressure -n 5 --p-min 2 --delta-p 0.5` -/
def exO : Options ℚ where
  interp := .pressure
  ntv := 5
  pMin := 2
  deltaP := 1 / 2
  deltaPSample := none
  cellmass := none
  vRatio := 6 / 5
  system := none

/-- the grid of mode volume and pressure -/
example : linspace (1 : ℚ) 3 5 = [1, 3/2, 2, 5/2, 3] := by decide +kernel

/-- a fit with a genuine residual exists and is evaluated on the grid -/
example : (fitModulus polynomialLeastSquareFitting exE [(4 : ℚ), 3, 2, 1] [4, 2] [1, 2, 5, 9]).isSome = true := by
  decide +kernel

/-- sampling with step 3 keeps the labels 0, 3, 6, 9 of an 11-row table -/
example : sliceIdx 11 3 = [0, 3, 6, 9] := by decide +kernel

/-- requested pressures: P_MIN = 2, DELTA_P = 1/2, ntv = 5 (factor 1) -/
example : requestedPressures exU exO = [2, 5/2, 3, 7/2, 4] := by decide +kernel

/-- `v2p1d` on data that are affine in P: volumes 10 … 2 at pressures 0 … 4 (arrays stored by increasing V) -/
example : v2p1d [(2 : ℚ), 4, 6, 8, 10] [4, 3, 2, 1, 0] [1/2, 5/2] = some [9, 5] := by decide +kernel

/-- the sorted-pair column name used by the VRH block, and a hypothesis instance of `static_reuss_hill_voigt`:
    cubic `c11 = 3, c12 = 1, c44 = 1` with its exact inverse (C07's example matrices) -/
example : cName 3 1 = "c13" ∧ cName 2 2 = "c22" := by decide

example : bmV (fun i j => if i = j then (if i ≤ 3 then (3 : ℚ) else 1) else if i ≤ 3 ∧ j ≤ 3 then 1 else 0) = 5 / 3 ∧
    gV (fun i j => if i = j then (if i ≤ 3 then (3 : ℚ) else 1) else if i ≤ 3 ∧ j ≤ 3 then 1 else 0) = 1 := by
  decide +kernel

/-- the contract `FillFrame` is inhabited (the identity fill of the examples) and the helpers of units.py are found -/
example : StaticSrc.FillFrame exE := fun _ _ _ h e => by cases e; exact h

/-- `fill_keeps_frame` is not vacuous: the model ACCEPTS a cubic frame `V, F, P, density, c11, c12, c44` as run-static builds it
    (over ℚ: exact run), returns the 9 cubic components after the four untouched columns, without duplicates -/
example : (Fill.fill ⟨fun _ => false, fun _ => none⟩ (some "cubic")
      ({ ignoreResiduals := false, ignoreRank := false, dropAtol := 1 / 100000000, residualAtol := 1 / 10 } : Fill.Params ℚ)
      [("V", [10, 11]), ("F", [1, 2]), ("P", [3, 4]), ("density", [5, 6]), ("c11", [3, 4]), ("c12", [1, 2]),
       ("c44", [1, 1])]).toOption.map (fun t => t.map (·.1))
    = some ["V", "F", "P", "density", "c11", "c12", "c44", "c13", "c22", "c23", "c33", "c55", "c66"] := by
  decide +kernel

example : (StaticSrc.unitHelper? "_to_gpa").isSome ∧ (StaticSrc.unitHelper? "_from_gpa").isSome ∧
    (StaticSrc.unitHelper? "_to_kms").isSome ∧ (StaticSrc.unitHelper? "_to_gcm3").isSome := by decide

end Examples

end Cij.C18
