/-
  C20 — eigenvector tools: sorting recovers the permutation; displacement → eigenvector conversion; loader.

  Statements are about `CijModel/Evec.lean` (the functions the driver runs against the real `evec_sort`,
  `evec_disp2eig`, `evec_load`).  The greedy loop is proved over ANY linearly ordered type with a zero; the
  margin theorem over any real or complex inner-product space; the conversion over ℝ-pairs (`Cx ℝ`).
  Floating-point rounding, `float()` and the regex engine are outside the model.
-/
import CijProofs.Lemmas.Evec

namespace Cij.C20
open Cij Cij.Evec

/-! ### evec_sort: the greedy loop recovers a planted permutation -/

section sort
variable {α : Type} [LinearOrder α] [Zero α] {ι : Type}

/-- GREEDY RECOVERS.  If `π` permutes the indices `< n` and every planted entry `a i (π i)` is positive and strictly
larger than every other entry of its row, the loop of `evec_sort` puts `target[π i]` at position `i`, for all `i`.
(Induction over the rounds: the eliminated rows/columns are always planted pairs, `Lemmas.greedyLoop_elim`.)
Dominance over the column is NOT needed. -/
theorem greedy_recovers (n : Nat) (a : Nat → Nat → α) (π : Nat → Nat) (hP : Planted n a π) (target : Nat → ι) :
    ∀ i < n, evecSortMag n a target i = some (target (π i)) := by
  intro i hi
  have h := (greedyLoop_elim n a π hP target n ∅ (fun _ => none) (by simp) (by simp)).1 i hi (by simp)
  rwa [elim_empty] at h

/-- the form of the loop that the driver executes (`evecSortRun`, picked pairs as an explicit list) is the same function,
so it returns exactly the planted arrangement -/
theorem greedy_recovers_run (n : Nat) (a : Nat → Nat → α) (π : Nat → Nat) (hP : Planted n a π) (target : Nat → ι) :
    evecSortRun n a target = (List.range n).map fun i => some (target (π i)) := by
  rw [evecSortRun_eq]
  apply List.map_congr_left
  intro i hi
  exact greedy_recovers n a π hP target i (List.mem_range.mp hi)

/-- the same from the hypothesis as the property words it: non-negative magnitudes, `n ≥ 2`, every planted entry
strictly dominates the other entries of its row (positivity then follows) -/
theorem greedy_recovers' (n : Nat) (hn : 2 ≤ n) (a : Nat → Nat → α) (π : Nat → Nat)
    (hrange : ∀ i < n, π i < n) (hinj : ∀ i < n, ∀ j < n, π i = π j → i = j)
    (hnonneg : ∀ i < n, ∀ j < n, 0 ≤ a i j)
    (hrow : ∀ i < n, ∀ j < n, j ≠ π i → a i j < a i (π i)) (target : Nat → ι) :
    ∀ i < n, evecSortMag n a target i = some (target (π i)) := by
  apply greedy_recovers n a π ⟨hrange, hinj, ?_, hrow⟩
  intro i hi
  -- some other column exists because n ≥ 2
  obtain ⟨j, hj, hne⟩ : ∃ j < n, j ≠ π i := by
    by_cases h0 : π i = 0
    · exact ⟨1, by omega, by omega⟩
    · exact ⟨0, by omega, fun h => h0 h.symm⟩
  exact lt_of_le_of_lt (hnonneg i hi j hj) (hrow i hi j hj hne)

/-- GREEDY PERM.  Under the same hypothesis the output list is a permutation of the input list. -/
theorem greedy_perm (n : Nat) (a : Nat → Nat → α) (π : Nat → Nat) (hP : Planted n a π) (target : Nat → ι) :
    List.Perm ((List.range n).map (evecSortMag n a target)) ((List.range n).map fun j => some (target j)) := by
  have h1 : (List.range n).map (evecSortMag n a target) = ((List.range n).map π).map fun j => some (target j) := by
    rw [List.map_map]
    apply List.map_congr_left
    intro i hi
    exact greedy_recovers n a π hP target i (List.mem_range.mp hi)
  rw [h1]
  apply List.Perm.map
  -- π maps range n injectively into itself: its image list is a permutation of range n
  have hnd : ((List.range n).map π).Nodup := by
    rw [List.nodup_map_iff_inj_on (List.nodup_range)]
    intro i hi j hj h
    exact hP.inj i (List.mem_range.mp hi) j (List.mem_range.mp hj) h
  apply (List.perm_ext_iff_of_nodup hnd (List.nodup_range)).mpr
  intro x
  have hsub : ((List.range n).map π).toFinset ⊆ Finset.range n := by
    intro y hy
    simp only [List.mem_toFinset, List.mem_map, List.mem_range] at hy
    obtain ⟨i, hi, rfl⟩ := hy
    exact Finset.mem_range.mpr (hP.range i hi)
  have hcard : (Finset.range n).card ≤ ((List.range n).map π).toFinset.card := by
    rw [List.toFinset_card_of_nodup hnd]; simp
  have heq := Finset.eq_of_subset_of_card_le hsub hcard
  constructor
  · intro hx
    have : x ∈ ((List.range n).map π).toFinset := List.mem_toFinset.mpr hx
    rw [heq] at this
    exact List.mem_range.mpr (Finset.mem_range.mp this)
  · intro hx
    have : x ∈ Finset.range n := Finset.mem_range.mpr (List.mem_range.mp hx)
    rw [← heq] at this
    exact List.mem_toFinset.mp this

end sort

/-- WITHOUT DOMINANCE the result need not be a permutation (DESIGN §7.10; outside C20's quantifier — this is why the
hypothesis is there): two identical target vectors give the magnitude matrix [[1,1],[0,0]]; after the first round the
remainder is all zero, numpy's argmax returns (0,0) again, position 0 is assigned twice and position 1 stays `None`. -/
theorem greedy_not_perm_without_dominance :
    let a : Nat → Nat → Nat := fun i _ => if i = 0 then 1 else 0
    (List.range 2).map (evecSortMag 2 a (fun j => j)) = [some 0, none] := by
  decide

/-! ### the dominance hypothesis holds, with margin, for a permuted / re-phased / perturbed copy of an orthonormal basis -/

section margin
variable {𝕜 E : Type*} [RCLike 𝕜] [NormedAddCommGroup E] [InnerProductSpace 𝕜 E] {ι : Type}

/-- MARGIN.  `b` orthonormal (real or complex), `t j = c j • b (σ j) + δ j` with unit phases `c j` and perturbations
`‖δ j‖ ≤ ε`: every planted overlap magnitude is ≥ 1 − ε and every other one ≤ ε, so for ε < 1/2 the planted entry
dominates its row AND its column with margin ≥ 1 − 2ε. -/
theorem dominance_margin (n : ℕ) (b t δ : ℕ → E) (c : ℕ → 𝕜) (σ π : ℕ → ℕ) (ε : ℝ)
    (hnorm : ∀ i < n, ‖b i‖ = 1) (horth : ∀ i < n, ∀ k < n, i ≠ k → inner 𝕜 (b i) (b k) = 0)
    (hc : ∀ j < n, ‖c j‖ = 1) (ht : ∀ j < n, t j = c j • b (σ j) + δ j) (hδ : ∀ j < n, ‖δ j‖ ≤ ε)
    (hσ : ∀ j < n, σ j < n) (hπ : ∀ i < n, π i < n) (hσπ : ∀ i < n, σ (π i) = i) (hπσ : ∀ j < n, π (σ j) = j) :
    ∀ i < n, ∀ j < n, j ≠ π i →
      (1 - 2 * ε ≤ ‖inner 𝕜 (b i) (t (π i))‖ - ‖inner 𝕜 (b i) (t j)‖) ∧          -- row
      (1 - 2 * ε ≤ ‖inner 𝕜 (b (σ j)) (t j)‖ - ‖inner 𝕜 (b i) (t j)‖) := by     -- column of t j
  intro i hi j hj hne
  have hb := overlap_bounds n b t δ c σ ε hnorm horth hc ht hδ hσ
  have h1 := (hb i (π i) hi (hπ i hi)).1 (hσπ i hi)
  have h2 := (hb i j hi hj).2 (fun h => hne (by rw [← h, hπσ j hj]))
  have h3 := (hb (σ j) j (hσ j hj) hj).1 rfl
  constructor <;> linarith

/-- SORT RECOVERS for any perturbation below one half (the property's 5 % is `ε = 1/20`): the loop of `evec_sort`
on the exact overlap magnitudes places `items[π i]` — the item whose vector is the re-phased, perturbed copy of base
vector `i` — at position `i`, and the result is a permutation of the items. -/
theorem sort_recovers_perturbed (n : ℕ) (b t δ : ℕ → E) (c : ℕ → 𝕜) (σ π : ℕ → ℕ) (ε : ℝ)
    (hnorm : ∀ i < n, ‖b i‖ = 1) (horth : ∀ i < n, ∀ k < n, i ≠ k → inner 𝕜 (b i) (b k) = 0)
    (hc : ∀ j < n, ‖c j‖ = 1) (ht : ∀ j < n, t j = c j • b (σ j) + δ j) (hδ : ∀ j < n, ‖δ j‖ ≤ ε) (hε : ε < 1 / 2)
    (hσ : ∀ j < n, σ j < n) (hπ : ∀ i < n, π i < n) (hσπ : ∀ i < n, σ (π i) = i) (hπσ : ∀ j < n, π (σ j) = j)
    (items : ℕ → ι) :
    (∀ i < n, evecSortMag n (fun i j => ‖inner 𝕜 (b i) (t j)‖) items i = some (items (π i))) ∧
    List.Perm ((List.range n).map (evecSortMag n (fun i j => ‖inner 𝕜 (b i) (t j)‖) items))
      ((List.range n).map fun j => some (items j)) := by
  have hP := planted_of_perturbed n b t δ c σ π ε hnorm horth hc ht hδ hε hσ hπ hσπ hπσ
  exact ⟨greedy_recovers n _ π hP items, greedy_perm n _ π hP items⟩

/-- the exact case ε = 0 (pure permutation + phases) and the 5 % case, as instances -/
example (n : ℕ) (b t : ℕ → E) (c : ℕ → 𝕜) (σ π : ℕ → ℕ)
    (hnorm : ∀ i < n, ‖b i‖ = 1) (horth : ∀ i < n, ∀ k < n, i ≠ k → inner 𝕜 (b i) (b k) = 0)
    (hc : ∀ j < n, ‖c j‖ = 1) (ht : ∀ j < n, t j = c j • b (σ j))
    (hσ : ∀ j < n, σ j < n) (hπ : ∀ i < n, π i < n) (hσπ : ∀ i < n, σ (π i) = i) (hπσ : ∀ j < n, π (σ j) = j)
    (items : ℕ → ι) : ∀ i < n, evecSortMag n (fun i j => ‖inner 𝕜 (b i) (t j)‖) items i = some (items (π i)) :=
  (sort_recovers_perturbed n b t (fun _ => 0) c σ π 0 hnorm horth hc (fun j hj => by rw [ht j hj, add_zero])
    (fun _ _ => by simp) (by norm_num) hσ hπ hσπ hπσ items).1

example (n : ℕ) (b t δ : ℕ → E) (c : ℕ → 𝕜) (σ π : ℕ → ℕ)
    (hnorm : ∀ i < n, ‖b i‖ = 1) (horth : ∀ i < n, ∀ k < n, i ≠ k → inner 𝕜 (b i) (b k) = 0)
    (hc : ∀ j < n, ‖c j‖ = 1) (ht : ∀ j < n, t j = c j • b (σ j) + δ j) (hδ : ∀ j < n, ‖δ j‖ ≤ 1 / 20)
    (hσ : ∀ j < n, σ j < n) (hπ : ∀ i < n, π i < n) (hσπ : ∀ i < n, σ (π i) = i) (hπσ : ∀ j < n, π (σ j) = j)
    (items : ℕ → ι) : ∀ i < n, evecSortMag n (fun i j => ‖inner 𝕜 (b i) (t j)‖) items i = some (items (π i)) :=
  (sort_recovers_perturbed n b t δ c σ π (1 / 20) hnorm horth hc ht hδ (by norm_num) hσ hπ hσπ hπσ items).1

end margin

/-- a concrete instance of `Planted` run through the model (3 vectors, rotated by one place, 5 % leakage) -/
example :
    let a : Nat → Nat → Rat := fun i j => if j = (i + 1) % 3 then mkRat 95 100 else mkRat 5 100
    (List.range 3).map (evecSortMag 3 a (fun j => j)) = [some 1, some 2, some 0] := by
  decide +kernel

/-! ### dimension mismatches are rejected -/

/-- `evec_sort` answers iff both vector lists have `len(items)` rows of `len(items)` components -/
theorem dimension_mismatch_rejected {ρ ι : Type} [Add ρ] [Sub ρ] [Mul ρ] [Div ρ] [Neg ρ] [OfNat ρ 0] [HasSqrt ρ]
    [LT ρ] [DecidableRel (fun a b : ρ => a < b)] (items : List ι) (T B : List (List (Cx ρ))) :
    evecSort items T B = none ↔
      ¬ (T.length = items.length ∧ B.length = items.length ∧ ∀ v ∈ T ++ B, v.length = items.length) := by
  unfold evecSort dimsOk
  simp only [List.all_cons, List.all_map, Bool.and_eq_true, beq_iff_eq, List.all_eq_true, Function.comp]
  constructor
  · intro h hc
    simp [hc.1, hc.2.1] at h
    obtain ⟨x, hx, hne⟩ := h
    exact hne (hc.2.2 x (List.mem_append.mpr hx))
  · intro h
    split
    · rename_i hc
      exact absurd ⟨hc.1, hc.2.1, fun v hv => by simpa using hc.2.2 v hv⟩ h
    · rfl

/-- `evec_disp2eig` answers iff there is at least one row and every row has 3·(number of atoms) components -/
theorem disp2eig_dimension_mismatch_rejected {ρ : Type} [Add ρ] [Sub ρ] [Mul ρ] [Div ρ] [Neg ρ] [OfNat ρ 0] [HasSqrt ρ]
    (a : List (List (Cx ρ))) (mass : List ρ) :
    disp2eig a mass = none ↔ (a = [] ∨ ∃ r ∈ a, r.length ≠ 3 * mass.length) := by
  unfold disp2eig
  cases a with
  | nil => simp
  | cons r a =>
    simp only [List.isEmpty_cons, Bool.not_false, Bool.true_and, List.all_eq_true, beq_iff_eq]
    constructor
    · intro h
      right
      by_contra hc
      push Not at hc
      simp [hc] at h
      obtain ⟨x, hx, hne⟩ := h
      exact hne (hc x (by simp [hx]))
    · rintro (h | ⟨r', hr', hne⟩)
      · simp at h
      · split
        · rename_i hall; exact absurd (hall r' hr') hne
        · rfl

example : evecSort [1, 2] [[(⟨1, 0⟩ : Cx Float)], [⟨0, 0⟩]] [[⟨1, 0⟩, ⟨0, 0⟩], [⟨0, 0⟩, ⟨1, 0⟩]] = none := rfl

/-! ### evec_disp2eig -/

/-- UNIT NORM.  For any positive masses and any non-zero displacement rows (arbitrary norm) of 3·N components, every
output row has Σ|z_k|² = 1. -/
theorem disp2eig_unit_norm (a : List (List (Cx ℝ))) (mass : List ℝ) (hm : ∀ m ∈ mass, 0 < m) (hne : a ≠ [])
    (hdim : ∀ r ∈ a, r.length = 3 * mass.length) (hnz : ∀ r ∈ a, ∃ z ∈ r, 0 < Cx.normSq z) :
    ∃ out, disp2eig a mass = some out ∧ out.length = a.length ∧ ∀ r ∈ out, sumNormSq r = 1 := by
  refine ⟨_, disp2eig_some a mass hne hdim, by simp, ?_⟩
  intro r hr
  obtain ⟨r0, hr0, rfl⟩ := List.mem_map.mp hr
  apply disp2eigRow_unit
  apply sumNormSq_scaled_pos
  · intro m hmem; exact hm m (mem_repeat3 mass m hmem)
  · rw [length_repeat3, hdim r0 hr0]
  · exact hnz r0 hr0

/-- RESTORES.  Rows `c_i · M^{-1/2} e_i` (unit vectors `e_i`, any complex factors `c_i ≠ 0`, any positive masses, the
mass of atom `k` repeated for its three Cartesian components) come back as `(c_i / |c_i|) · e_i`. -/
theorem disp2eig_restores (mass : List ℝ) (hm : ∀ m ∈ mass, 0 < m) (es : List (List (Cx ℝ))) (cs : List (Cx ℝ))
    (hne : es ≠ []) (hlen : cs.length = es.length) (hdim : ∀ e ∈ es, e.length = 3 * mass.length)
    (hunit : ∀ e ∈ es, sumNormSq e = 1) :
    disp2eig (List.zipWith (displace (repeat3 mass)) cs es) mass
      = some (List.zipWith (fun c e => e.map (Cx.mul (unitOf c))) cs es) := by
  have hm3 : ∀ m ∈ repeat3 mass, 0 < m := fun m h => hm m (mem_repeat3 mass m h)
  rw [disp2eig_some]
  · congr 1
    rw [List.map_zipWith]
    clear hne
    induction cs generalizing es with
    | nil => simp
    | cons c cs ih =>
      cases es with
      | nil => simp
      | cons e es =>
        simp only [List.zipWith_cons_cons, List.cons.injEq]
        refine ⟨?_, ih es (by simpa using hlen) (fun e' h => hdim e' (by simp [h])) (fun e' h => hunit e' (by simp [h]))⟩
        apply disp2eigRow_displace _ hm3
        · rw [length_repeat3, hdim e (by simp)]
        · exact hunit e (by simp)
  · intro h
    have := (zipWith_displace_props (repeat3 mass) cs es hlen (fun e he => by rw [length_repeat3, hdim e he])).1
    rw [h] at this
    exact hne (List.length_eq_zero_iff.mp this.symm)
  · intro r hr
    rw [(zipWith_displace_props (repeat3 mass) cs es hlen (fun e he => by rw [length_repeat3, hdim e he])).2 r hr,
      length_repeat3]

/-- ORTHONORMALITY RESTORED.  If the `e_i` are orthonormal for the Hermitian product Σ conj(x_k) y_k (the model's
`overlap`, what `conj(A) @ A.T` computes), the output rows of `evec_disp2eig` applied to `c_i M^{-1/2} e_i` are
orthonormal again, whatever the non-zero factors `c_i` and the positive masses. -/
theorem disp2eig_orthonormal (mass : List ℝ) (hm : ∀ m ∈ mass, 0 < m) (es : List (List (Cx ℝ))) (cs : List (Cx ℝ))
    (hne : es ≠ []) (hlen : cs.length = es.length) (hdim : ∀ e ∈ es, e.length = 3 * mass.length)
    (hc : ∀ c ∈ cs, 0 < Cx.normSq c)
    (horth : ∀ (i j : Nat) (hi : i < es.length) (hj : j < es.length),
      overlap es[i] es[j] = if i = j then ⟨1, 0⟩ else ⟨0, 0⟩) :
    ∃ out : List (List (Cx ℝ)), disp2eig (List.zipWith (displace (repeat3 mass)) cs es) mass = some out ∧
      ∃ hl : out.length = es.length, ∀ (i j : Nat) (hi : i < es.length) (hj : j < es.length),
        overlap (out[i]'(hl ▸ hi)) (out[j]'(hl ▸ hj)) = if i = j then ⟨1, 0⟩ else ⟨0, 0⟩ := by
  have hunit : ∀ e ∈ es, sumNormSq e = 1 := by
    intro e he
    obtain ⟨i, hi, rfl⟩ := List.getElem_of_mem he
    have := horth i i hi hi
    rw [overlap_self] at this
    simp at this
    exact this
  refine ⟨_, disp2eig_restores mass hm es cs hne hlen hdim hunit, by simp [hlen], ?_⟩
  intro i j hi hj
  simp only [List.getElem_zipWith]
  rw [overlap_scaled, horth i j hi hj]
  by_cases hij : i = j
  · subst hij
    rw [conj_mul_self, normSq_unitOf _ (hc _ (List.getElem_mem _))]
    simp only [if_true]
    apply cx_ext <;> simp [Cx.mul]
  · simp only [hij, if_false]
    exact mul_zero_cx _

/-- non-vacuity of the conversion theorems on the model at exact arithmetic is not possible (sqrt); the Float
instance is exercised by the harness.  Dimension mismatch instance: -/
example : disp2eig [[(⟨1, 0⟩ : Cx Float), ⟨0, 0⟩]] [1.0] = none := rfl

/-! ### evec_load (partial: line / slice level; `float()` and the two regexes are parameters or tested) -/

section load
variable {Num : Type}

/-- BLOCK STRUCTURE.  A file made of q-point blocks — two lines that are skipped, the q line, a separator, for each of
the `np` modes a `freq` line and `np / 3` vector lines, a closing separator — is read back as exactly the printed
q-coordinates, (mode index, THz, cm⁻¹) and vector components, in order, for ANY line readers that read the lines
back (`QBlock.ok`), whatever follows the last block. -/
theorem evec_load_blocks (R : LineReaders Num) (np : Nat) (bs : List (QBlock Num)) (h : ∀ b ∈ bs, b.ok R np)
    (rest : List (List Char)) :
    readQPoints R np bs.length (bs.flatMap QBlock.lines ++ rest) = some (bs.map QBlock.value) :=
  readQPoints_blocks R np bs h rest

/-- COLUMN SLICES.  On a vector line in matdyn's layout `(1x,'(',3(f10.6,1x,f10.6,3x),')')` the loader passes to
`float()` each 10-character field MINUS ITS FIRST CHARACTER plus one trailing blank (the slices are those of the
unstripped line, but the line is stripped first).  Hence: if `float` ignores surrounding blanks and every field
starts with a blank (|x| < 10 in `f10.6`, true of every component of a normalised vector) the six printed numbers
are returned. -/
theorem vec_line_fields (pf : List Char → Option Num) (hpf : ∀ cs, pf (cs ++ [' ']) = pf cs)
    (hpf' : ∀ cs, pf (' ' :: cs) = pf cs)
    (T1 T2 T3 T4 T5 T6 : List Char)
    (h1 : T1.length = 9) (h2 : T2.length = 9) (h3 : T3.length = 9) (h4 : T4.length = 9) (h5 : T5.length = 9)
    (h6 : T6.length = 9) (x1 y1 x2 y2 x3 y3 : Num)
    (p1 : pf (' ' :: T1) = some x1) (p2 : pf (' ' :: T2) = some y1) (p3 : pf (' ' :: T3) = some x2)
    (p4 : pf (' ' :: T4) = some y2) (p5 : pf (' ' :: T5) = some x3) (p6 : pf (' ' :: T6) = some y3) :
    readVecLine pf (vecLine ' ' T1 ' ' T2 ' ' T3 ' ' T4 ' ' T5 ' ' T6) = some [(x1, y1), (x2, y2), (x3, y3)] := by
  obtain ⟨s1, s2, s3, s4, s5, s6⟩ := slices_vecLine ' ' ' ' ' ' ' ' ' ' ' ' T1 T2 T3 T4 T5 T6 h1 h2 h3 h4 h5 h6
  simp only [readVecLine, s1, s2, s3, s4, s5, s6, hpf]
  rw [hpf'] at p1 p2 p3 p4 p5 p6
  simp [p1, p2, p3, p4, p5, p6]

/-- … and what is lost otherwise: a field that uses all ten columns (x ≤ −10 or x ≥ 100) loses its first character —
`-12.345678` is read as `12.345678`.  Outside C20's quantifier (eigenvector components have modulus ≤ 1), kept as
the reason for the hypothesis. -/
example :
    readVecLine pfRat " (-12.345678   0.000000     0.500000   0.000000     0.000000   0.000000   )".toList
      = some [(mkRat 12345678 1000000, 0), (mkRat 1 2, 0), (0, 0)] := by
  decide +kernel

/-- a complete small file (1 q-point, 3 modes) through the concrete readers (regex scanners + exact decimals) -/
def sampleEig : List (List Char) := [
  "     diagonalizing the dynamical matrix ...", "", " q =       0.1258     -0.0347      0.0000",
  " **************************************************************************",
  "     freq (    1) =      -0.018788 [THz] =      -0.626714 [cm-1]",
  " ( -0.211208  -0.000000    -0.215596   0.125000     0.041957   0.000000   )",
  "     freq (    2) =       0.810621 [THz] =      27.039414 [cm-1]",
  " (  1.000000   0.000000     0.000000   0.000000     0.000000  -1.000000   )",
  "     freq (    3) =      12.500000 [THz] =     416.955119 [cm-1]",
  " (  0.000000   0.500000    -0.500000   0.000000     0.707107   0.000000   )",
  " **************************************************************************"].map String.toList

example : evecLoad pfRat 1 3 sampleEig = some [([mkRat 1258 10000, mkRat (-347) 10000, 0], [
    ((1, mkRat (-18788) 1000000, mkRat (-626714) 1000000),
      [(mkRat (-211208) 1000000, 0), (mkRat (-215596) 1000000, mkRat 1 8), (mkRat 41957 1000000, 0)]),
    ((2, mkRat 810621 1000000, mkRat 27039414 1000000), [(1, 0), (0, 0), (0, -1)]),
    ((3, mkRat 25 2, mkRat 416955119 1000000), [(0, mkRat 1 2), (mkRat (-1) 2, 0), (mkRat 707107 1000000, 0)])])] := by
  decide +kernel

/-- the closing separator line is required: the generator's trailing `next(fp)` runs after the last block too -/
example : evecLoad pfRat 1 3 sampleEig.dropLast = none := by decide +kernel

end load

end Cij.C20
