/-
  C20 — eigenvector tools: sorting recovers the permutation; displacement → eigenvector conversion; loader.

  Statements are about `CijModel/Evec.lean` (the functions the driver runs against the real `evec_sort`,
  `evec_disp2eig`, `evec_load`).  The greedy loop is proved over ANY linearly ordered type with a zero; the
  margin theorem over any real or complex inner-product space; the conversion over ℝ-pairs (`Cx ℝ`).
  The two are joined: the model's `overlap` on ℝ-pairs is Mathlib's `inner` on `EuclideanSpace ℂ (Fin n)`
  (`overlap_is_inner`), hence `evecSort_recovers` — the end-to-end statement about `Evec.evecSort` itself.
  Floating-point rounding and `float()` are outside the model.
  The last section (`evec_model_is_source…`) ties the model to the SOURCE of the three files: `tools/gens/evec_src.py` extracts set
  display, tests, matrix expressions, loop statements, both regex literals, column slices, converters and step lists into
  `Generated/EvecSpec.lean`; `CijModel/EvecSrc.lean` interprets that data with its Python/numpy meaning (the regexes by a backtracking
  matcher); the theorems say the interpreted source IS the model, for all inputs.
-/
import CijProofs.Lemmas.Evec
import CijProofs.Lemmas.EvecBridge
import CijProofs.Lemmas.EvecSource

namespace Cij.C20
open Cij Cij.Evec

/-! ### evec_sort: the greedy loop recovers a planted permutation -/

section sort
variable {α : Type} [LinearOrder α] [Zero α] {ι : Type}

/-- GREEDY RECOVERS.  If `π` permutes the indices `< n` and every planted entry `a i (π i)` is positive and strictly
larger than every other entry of its row, the loop of `evec_sort` puts `target[π i]` at position `i`, for all `i`.
(Induction over the rounds: the eliminated rows/columns are always planted pairs, `Lemmas.greedyLoop_elim`.)
Dominance over the column is NOT needed. -/
theorem greedy_recovers (n : Nat) (a : Nat → Nat → α) (π : Nat → Nat) (hP : Planted n a π) (target : Nat → ι) :
    ∀ i < n, evecSortMag n a target i = some (target (π i)) := by
  intro i hi
  have h := (greedyLoop_elim n a π hP target n ∅ (fun _ => none) (by simp) (by simp)).1 i hi (by simp)
  rwa [elim_empty] at h

/-- the form of the loop that the driver executes (`evecSortRun`, picked pairs as an explicit list) is the same function,
so it returns exactly the planted arrangement -/
theorem greedy_recovers_run (n : Nat) (a : Nat → Nat → α) (π : Nat → Nat) (hP : Planted n a π) (target : Nat → ι) :
    evecSortRun n a target = (List.range n).map fun i => some (target (π i)) := by
  rw [evecSortRun_eq]
  apply List.map_congr_left
  intro i hi
  exact greedy_recovers n a π hP target i (List.mem_range.mp hi)

/-- the same from the hypothesis as the property words it: non-negative magnitudes, `n ≥ 2`, every planted entry
strictly dominates the other entries of its row (positivity then follows) -/
theorem greedy_recovers' (n : Nat) (hn : 2 ≤ n) (a : Nat → Nat → α) (π : Nat → Nat)
    (hrange : ∀ i < n, π i < n) (hinj : ∀ i < n, ∀ j < n, π i = π j → i = j)
    (hnonneg : ∀ i < n, ∀ j < n, 0 ≤ a i j)
    (hrow : ∀ i < n, ∀ j < n, j ≠ π i → a i j < a i (π i)) (target : Nat → ι) :
    ∀ i < n, evecSortMag n a target i = some (target (π i)) := by
  apply greedy_recovers n a π ⟨hrange, hinj, ?_, hrow⟩
  intro i hi
  -- some other column exists because n ≥ 2
  obtain ⟨j, hj, hne⟩ : ∃ j < n, j ≠ π i := by
    by_cases h0 : π i = 0
    · exact ⟨1, by omega, by omega⟩
    · exact ⟨0, by omega, fun h => h0 h.symm⟩
  exact lt_of_le_of_lt (hnonneg i hi j hj) (hrow i hi j hj hne)

/-- GREEDY PERM.  Under the same hypothesis the output list is a permutation of the input list. -/
theorem greedy_perm (n : Nat) (a : Nat → Nat → α) (π : Nat → Nat) (hP : Planted n a π) (target : Nat → ι) :
    List.Perm ((List.range n).map (evecSortMag n a target)) ((List.range n).map fun j => some (target j)) := by
  have h1 : (List.range n).map (evecSortMag n a target) = ((List.range n).map π).map fun j => some (target j) := by
    rw [List.map_map]
    apply List.map_congr_left
    intro i hi
    exact greedy_recovers n a π hP target i (List.mem_range.mp hi)
  rw [h1]
  apply List.Perm.map
  -- π maps range n injectively into itself: its image list is a permutation of range n
  have hnd : ((List.range n).map π).Nodup := by
    rw [List.nodup_map_iff_inj_on (List.nodup_range)]
    intro i hi j hj h
    exact hP.inj i (List.mem_range.mp hi) j (List.mem_range.mp hj) h
  apply (List.perm_ext_iff_of_nodup hnd (List.nodup_range)).mpr
  intro x
  have hsub : ((List.range n).map π).toFinset ⊆ Finset.range n := by
    intro y hy
    simp only [List.mem_toFinset, List.mem_map, List.mem_range] at hy
    obtain ⟨i, hi, rfl⟩ := hy
    exact Finset.mem_range.mpr (hP.range i hi)
  have hcard : (Finset.range n).card ≤ ((List.range n).map π).toFinset.card := by
    rw [List.toFinset_card_of_nodup hnd]; simp
  have heq := Finset.eq_of_subset_of_card_le hsub hcard
  constructor
  · intro hx
    have : x ∈ ((List.range n).map π).toFinset := List.mem_toFinset.mpr hx
    rw [heq] at this
    exact List.mem_range.mpr (Finset.mem_range.mp this)
  · intro hx
    have : x ∈ Finset.range n := Finset.mem_range.mpr (List.mem_range.mp hx)
    rw [← heq] at this
    exact List.mem_toFinset.mp this

end sort

/-- WITHOUT DOMINANCE the result need not be a permutation (DESIGN §7.10; outside C20's quantifier — this is why the
hypothesis is there): two identical target vectors give the magnitude matrix [[1,1],[0,0]]; after the first round the
remainder is all zero, numpy's argmax returns (0,0) again, position 0 is assigned twice and position 1 stays `None`. -/
theorem greedy_not_perm_without_dominance :
    let a : Nat → Nat → Nat := fun i _ => if i = 0 then 1 else 0
    (List.range 2).map (evecSortMag 2 a (fun j => j)) = [some 0, none] := by
  decide

/-! ### the dominance hypothesis holds, with margin, for a permuted / re-phased / perturbed copy of an orthonormal basis -/

section margin
variable {𝕜 E : Type*} [RCLike 𝕜] [NormedAddCommGroup E] [InnerProductSpace 𝕜 E] {ι : Type}

/-- MARGIN.  `b` orthonormal (real or complex), `t j = c j • b (σ j) + δ j` with unit phases `c j` and perturbations
`‖δ j‖ ≤ ε`: every planted overlap magnitude is ≥ 1 − ε and every other one ≤ ε, so for ε < 1/2 the planted entry
dominates its row AND its column with margin ≥ 1 − 2ε. -/
theorem dominance_margin (n : ℕ) (b t δ : ℕ → E) (c : ℕ → 𝕜) (σ π : ℕ → ℕ) (ε : ℝ)
    (hnorm : ∀ i < n, ‖b i‖ = 1) (horth : ∀ i < n, ∀ k < n, i ≠ k → inner 𝕜 (b i) (b k) = 0)
    (hc : ∀ j < n, ‖c j‖ = 1) (ht : ∀ j < n, t j = c j • b (σ j) + δ j) (hδ : ∀ j < n, ‖δ j‖ ≤ ε)
    (hσ : ∀ j < n, σ j < n) (hπ : ∀ i < n, π i < n) (hσπ : ∀ i < n, σ (π i) = i) (hπσ : ∀ j < n, π (σ j) = j) :
    ∀ i < n, ∀ j < n, j ≠ π i →
      (1 - 2 * ε ≤ ‖inner 𝕜 (b i) (t (π i))‖ - ‖inner 𝕜 (b i) (t j)‖) ∧          -- row
      (1 - 2 * ε ≤ ‖inner 𝕜 (b (σ j)) (t j)‖ - ‖inner 𝕜 (b i) (t j)‖) := by     -- column of t j
  intro i hi j hj hne
  have hb := overlap_bounds n b t δ c σ ε hnorm horth hc ht hδ hσ
  have h1 := (hb i (π i) hi (hπ i hi)).1 (hσπ i hi)
  have h2 := (hb i j hi hj).2 (fun h => hne (by rw [← h, hπσ j hj]))
  have h3 := (hb (σ j) j (hσ j hj) hj).1 rfl
  constructor <;> linarith

/-- SORT RECOVERS for any perturbation below one half (the property's 5 % is `ε = 1/20`): the loop of `evec_sort`
on the exact overlap magnitudes places `items[π i]` — the item whose vector is the re-phased, perturbed copy of base
vector `i` — at position `i`, and the result is a permutation of the items. -/
theorem sort_recovers_perturbed (n : ℕ) (b t δ : ℕ → E) (c : ℕ → 𝕜) (σ π : ℕ → ℕ) (ε : ℝ)
    (hnorm : ∀ i < n, ‖b i‖ = 1) (horth : ∀ i < n, ∀ k < n, i ≠ k → inner 𝕜 (b i) (b k) = 0)
    (hc : ∀ j < n, ‖c j‖ = 1) (ht : ∀ j < n, t j = c j • b (σ j) + δ j) (hδ : ∀ j < n, ‖δ j‖ ≤ ε) (hε : ε < 1 / 2)
    (hσ : ∀ j < n, σ j < n) (hπ : ∀ i < n, π i < n) (hσπ : ∀ i < n, σ (π i) = i) (hπσ : ∀ j < n, π (σ j) = j)
    (items : ℕ → ι) :
    (∀ i < n, evecSortMag n (fun i j => ‖inner 𝕜 (b i) (t j)‖) items i = some (items (π i))) ∧
    List.Perm ((List.range n).map (evecSortMag n (fun i j => ‖inner 𝕜 (b i) (t j)‖) items))
      ((List.range n).map fun j => some (items j)) := by
  have hP := planted_of_perturbed n b t δ c σ π ε hnorm horth hc ht hδ hε hσ hπ hσπ hπσ
  exact ⟨greedy_recovers n _ π hP items, greedy_perm n _ π hP items⟩

/-- the exact case ε = 0 (pure permutation + phases) and the 5 % case, as instances -/
example (n : ℕ) (b t : ℕ → E) (c : ℕ → 𝕜) (σ π : ℕ → ℕ)
    (hnorm : ∀ i < n, ‖b i‖ = 1) (horth : ∀ i < n, ∀ k < n, i ≠ k → inner 𝕜 (b i) (b k) = 0)
    (hc : ∀ j < n, ‖c j‖ = 1) (ht : ∀ j < n, t j = c j • b (σ j))
    (hσ : ∀ j < n, σ j < n) (hπ : ∀ i < n, π i < n) (hσπ : ∀ i < n, σ (π i) = i) (hπσ : ∀ j < n, π (σ j) = j)
    (items : ℕ → ι) : ∀ i < n, evecSortMag n (fun i j => ‖inner 𝕜 (b i) (t j)‖) items i = some (items (π i)) :=
  (sort_recovers_perturbed n b t (fun _ => 0) c σ π 0 hnorm horth hc (fun j hj => by rw [ht j hj, add_zero])
    (fun _ _ => by simp) (by norm_num) hσ hπ hσπ hπσ items).1

example (n : ℕ) (b t δ : ℕ → E) (c : ℕ → 𝕜) (σ π : ℕ → ℕ)
    (hnorm : ∀ i < n, ‖b i‖ = 1) (horth : ∀ i < n, ∀ k < n, i ≠ k → inner 𝕜 (b i) (b k) = 0)
    (hc : ∀ j < n, ‖c j‖ = 1) (ht : ∀ j < n, t j = c j • b (σ j) + δ j) (hδ : ∀ j < n, ‖δ j‖ ≤ 1 / 20)
    (hσ : ∀ j < n, σ j < n) (hπ : ∀ i < n, π i < n) (hσπ : ∀ i < n, σ (π i) = i) (hπσ : ∀ j < n, π (σ j) = j)
    (items : ℕ → ι) : ∀ i < n, evecSortMag n (fun i j => ‖inner 𝕜 (b i) (t j)‖) items i = some (items (π i)) :=
  (sort_recovers_perturbed n b t δ c σ π (1 / 20) hnorm horth hc ht hδ (by norm_num) hσ hπ hσπ hπσ items).1

end margin

/-! ### the bridge: the model's overlaps ARE Mathlib's inner products; end-to-end statement about `Evec.evecSort` -/

section bridge
variable {ι : Type}

/-- BRIDGE.  `Cx.toC : Cx ℝ → ℂ` and `toVec n : List (Cx ℝ) → EuclideanSpace ℂ (Fin n)` (Lemmas/EvecBridge.lean) turn the
model's ℝ-pairs and lists into Mathlib's complex numbers and Euclidean vectors.  One entry of
`numpy.conj(base) @ target.T` — the model's `overlap b t = Σ_k conj(b_k)·t_k` — is `⟪b, t⟫_ℂ` (Mathlib's inner product
is conjugate-linear in its FIRST argument: the base vector is the conjugated one, as in the Python), and `numpy.abs` of
it (`Cx.abs`, √(re²+im²) on pairs) is the norm `‖⟪b, t⟫‖` the margin theorems are about. -/
theorem overlap_is_inner (n : ℕ) (b t : List (Cx ℝ)) (hb : b.length = n) (ht : t.length = n) :
    Cx.toC (overlap b t) = inner ℂ (toVec n b) (toVec n t) ∧
    Cx.abs (overlap b t) = ‖inner ℂ (toVec n b) (toVec n t)‖ :=
  ⟨toC_overlap_eq_inner n b t hb ht, abs_overlap_eq_norm_inner n b t hb ht⟩

/-- … and the squared norm is `Σ|v_k|²` on pairs -/
theorem norm_sq_is_sumNormSq (n : ℕ) (v : List (Cx ℝ)) (hv : v.length = n) : ‖toVec n v‖ ^ 2 = sumNormSq v :=
  norm_toVec_sq n v hv

/-- SORT RECOVERS, END TO END — about `Evec.evecSort` itself (the function the driver runs against the real
`evec_sort`), over ℝ-pairs.  `B`: `n = len(items)` base vectors, orthonormal for the model's Hermitian product;
`T[j] = c_j · B[σ j] + D_j` component by component, with unit phases `|c_j|² = 1` and perturbation rows
`Σ_k |D_j[k]|² ≤ ε²` (row norm ≤ ε; a perturbation matrix of operator norm ≤ ε has such rows), `0 ≤ ε < 1/2`; `σ`, `π`
mutually inverse on `{0,…,n-1}`.  Then `evec_sort(items, T, B)` answers, position `i` holds `items[π i]` — the item
whose vector is the re-phased, perturbed copy of base vector `i` — and the answer is a permutation of the items
(in particular no `None` entry). -/
theorem evecSort_recovers (items : List ι) (B T : List (List (Cx ℝ))) (c : ℕ → Cx ℝ) (D : ℕ → List (Cx ℝ))
    (σ π : ℕ → ℕ) (ε : ℝ)
    (hB : B.length = items.length) (hT : T.length = items.length) (hBl : ∀ v ∈ B, v.length = items.length)
    (horth : ∀ (i k : ℕ) (hi : i < B.length) (hk : k < B.length),
      overlap B[i] B[k] = if i = k then ⟨1, 0⟩ else ⟨0, 0⟩)
    (hc : ∀ j < items.length, Cx.normSq (c j) = 1)
    (hDl : ∀ j < items.length, (D j).length = items.length)
    (hD : ∀ j < items.length, sumNormSq (D j) ≤ ε ^ 2) (hε0 : 0 ≤ ε) (hε : ε < 1 / 2)
    (hTj : ∀ (j : ℕ) (hj : j < T.length),
      T[j] = List.zipWith (fun bk dk => Cx.add (Cx.mul (c j) bk) dk) (B.getD (σ j) []) (D j))
    (hσ : ∀ j < items.length, σ j < items.length) (hπ : ∀ i < items.length, π i < items.length)
    (hσπ : ∀ i < items.length, σ (π i) = i) (hπσ : ∀ j < items.length, π (σ j) = j) :
    evecSort items T B = some ((List.range items.length).map fun i => items[π i]?) ∧
    (∀ i < items.length, ∃ x, items[π i]? = some x) ∧
    ((List.range items.length).map fun i => items[π i]?).Perm (items.map some) := by
  set n := items.length with hn
  have hBget : ∀ i (hi : i < n), B.getD i [] = B[i]'(hB ▸ hi) := by
    intro i hi; simp [List.getD_eq_getElem?_getD, hB, hi]
  have hTget : ∀ j (hj : j < n), T.getD j [] = T[j]'(hT ▸ hj) := by
    intro j hj; simp [List.getD_eq_getElem?_getD, hT, hj]
  have hBlen : ∀ i < n, (B.getD i []).length = n := by
    intro i hi; rw [hBget i hi]; exact hBl _ (List.getElem_mem _)
  have hTlen : ∀ j < n, (T.getD j []).length = n := by
    intro j hj
    rw [hTget j hj, hTj j (hT ▸ hj), List.length_zipWith, hBlen _ (hσ j hj), hDl j hj, Nat.min_self]
  -- the Mathlib side
  have hnorm : ∀ i < n, ‖toVec n (B.getD i [])‖ = 1 := by
    intro i hi
    have h1 := norm_toVec_sq n _ (hBlen i hi)
    have h2 := horth i i (hB ▸ hi) (hB ▸ hi)
    rw [overlap_self, if_pos rfl] at h2
    have h3 : sumNormSq (B.getD i []) = 1 := by rw [hBget i hi]; exact congrArg Cx.re h2
    rw [h3] at h1
    have h0 := norm_nonneg (toVec n (B.getD i []))
    nlinarith
  have horth' : ∀ i < n, ∀ k < n, i ≠ k → inner ℂ (toVec n (B.getD i [])) (toVec n (B.getD k [])) = 0 := by
    intro i hi k hk hik
    rw [← toC_overlap_eq_inner n _ _ (hBlen i hi) (hBlen k hk), hBget i hi, hBget k hk,
      horth i k (hB ▸ hi) (hB ▸ hk), if_neg hik]
    exact toC_zero
  have hc' : ∀ j < n, ‖Cx.toC (c j)‖ = 1 := by
    intro j hj
    have h1 := normSq_eq_norm_sq (c j)
    rw [hc j hj] at h1
    have h0 := norm_nonneg (Cx.toC (c j))
    nlinarith
  have ht : ∀ j < n, toVec n (T.getD j []) = Cx.toC (c j) • toVec n (B.getD (σ j) []) + toVec n (D j) := by
    intro j hj
    rw [hTget j hj, hTj j (hT ▸ hj)]
    exact toVec_combination n (c j) _ _ (hBlen _ (hσ j hj)) (hDl j hj)
  have hδ : ∀ j < n, ‖toVec n (D j)‖ ≤ ε := by
    intro j hj
    calc ‖toVec n (D j)‖ = Real.sqrt (‖toVec n (D j)‖ ^ 2) := (Real.sqrt_sq (norm_nonneg _)).symm
      _ ≤ Real.sqrt (ε ^ 2) := Real.sqrt_le_sqrt (by rw [norm_toVec_sq n _ (hDl j hj)]; exact hD j hj)
      _ = ε := Real.sqrt_sq hε0
  have hP' := planted_of_perturbed n (fun i => toVec n (B.getD i [])) (fun j => toVec n (T.getD j []))
    (fun j => toVec n (D j)) (fun j => Cx.toC (c j)) σ π ε hnorm horth' hc' ht hδ hε hσ hπ hσπ hπσ
  -- the model side: the matrix inside `evecSort` is that matrix
  have hP : Planted n (magMat T B) π := by
    apply Planted.congr hP'
    intro i hi j hj
    rw [magMat_apply T B i j (hB ▸ hi) (hT ▸ hj), ← hBget i hi, ← hTget j hj]
    exact abs_overlap_eq_norm_inner n _ _ (hBlen i hi) (hTlen j hj)
  have hd : dimsOk n T B = true := by
    rw [dimsOk_iff]
    refine ⟨hT, hB, ?_⟩
    intro v hv
    rcases List.mem_append.mp hv with hv | hv
    · obtain ⟨j, hj, rfl⟩ := List.getElem_of_mem hv
      rw [← hTget j (hT ▸ hj)]; exact hTlen j (hT ▸ hj)
    · exact hBl v hv
  obtain ⟨h1, h2⟩ := evecSort_planted items T B π hd hP
  refine ⟨h1, ?_, h2⟩
  intro i hi
  exact ⟨items[π i]'(hπ i hi), List.getElem?_eq_getElem (hπ i hi)⟩

/-- non-vacuity, explicit numbers (n = 2): base = the rotation (3/5, 4/5), (−4/5, 3/5); the two targets are the base
vectors SWAPPED, multiplied by the phases `i` and `−1`, and perturbed by 1/10 in one component (ε = 1/10):
`evec_sort(["x", "y"], T, B)` returns `["y", "x"]`. -/
example :
    evecSort ["x", "y"]
      [[⟨1 / 10, -4 / 5⟩, ⟨0, 3 / 5⟩], [⟨-3 / 5, 0⟩, ⟨-4 / 5, -1 / 10⟩]]
      [[(⟨3 / 5, 0⟩ : Cx ℝ), ⟨4 / 5, 0⟩], [⟨-4 / 5, 0⟩, ⟨3 / 5, 0⟩]] = some [some "y", some "x"] := by
  have h := (evecSort_recovers ["x", "y"]
    [[(⟨3 / 5, 0⟩ : Cx ℝ), ⟨4 / 5, 0⟩], [⟨-4 / 5, 0⟩, ⟨3 / 5, 0⟩]]
    [[⟨1 / 10, -4 / 5⟩, ⟨0, 3 / 5⟩], [⟨-3 / 5, 0⟩, ⟨-4 / 5, -1 / 10⟩]]
    (fun j => if j = 0 then ⟨0, 1⟩ else ⟨-1, 0⟩)
    (fun j => if j = 0 then [⟨1 / 10, 0⟩, ⟨0, 0⟩] else [⟨0, 0⟩, ⟨0, -1 / 10⟩])
    (fun j => 1 - j) (fun i => 1 - i) (1 / 10) rfl rfl
    (by intro v hv; simp at hv; rcases hv with rfl | rfl <;> rfl)
    (by
      intro i k hi hk
      simp only [List.length_cons, List.length_nil] at hi hk
      interval_cases i <;> interval_cases k <;>
        simp [overlap, Cx.add, Cx.mul, Cx.conj, Cx.zero] <;> norm_num)
    (by intro j _; by_cases hj : j = 0 <;> simp [hj, Cx.normSq])
    (by intro j _; by_cases hj : j = 0 <;> simp [hj])
    (by intro j _; by_cases hj : j = 0 <;> simp [hj, sumNormSq, Cx.normSq] <;> norm_num)
    (by norm_num) (by norm_num)
    (by
      intro j hj
      simp only [List.length_cons, List.length_nil] at hj
      interval_cases j
      all_goals simp [Cx.add, Cx.mul]
      all_goals norm_num)
    (by intro j hj; simp only [List.length_cons, List.length_nil] at hj ⊢; omega)
    (by intro j hj; simp only [List.length_cons, List.length_nil] at hj ⊢; omega)
    (by intro j hj; simp only [List.length_cons, List.length_nil] at hj ⊢; omega)
    (by intro j hj; simp only [List.length_cons, List.length_nil] at hj ⊢; omega)).1
  rw [h]
  rfl

end bridge

/-- a concrete instance of `Planted` run through the model (3 vectors, rotated by one place, 5 % leakage) -/
example :
    let a : Nat → Nat → Rat := fun i j => if j = (i + 1) % 3 then mkRat 95 100 else mkRat 5 100
    (List.range 3).map (evecSortMag 3 a (fun j => j)) = [some 1, some 2, some 0] := by
  decide +kernel

/-! ### dimension mismatches are rejected -/

/-- `evec_sort` answers iff both vector lists have `len(items)` rows of `len(items)` components -/
theorem dimension_mismatch_rejected {ρ ι : Type} [Add ρ] [Sub ρ] [Mul ρ] [Div ρ] [Neg ρ] [OfNat ρ 0] [HasSqrt ρ]
    [LT ρ] [DecidableRel (fun a b : ρ => a < b)] (items : List ι) (T B : List (List (Cx ρ))) :
    evecSort items T B = none ↔
      ¬ (T.length = items.length ∧ B.length = items.length ∧ ∀ v ∈ T ++ B, v.length = items.length) := by
  unfold evecSort dimsOk
  simp only [List.all_cons, List.all_map, Bool.and_eq_true, beq_iff_eq, List.all_eq_true, Function.comp]
  constructor
  · intro h hc
    simp [hc.1, hc.2.1] at h
    obtain ⟨x, hx, hne⟩ := h
    exact hne (hc.2.2 x (List.mem_append.mpr hx))
  · intro h
    split
    · rename_i hc
      exact absurd ⟨hc.1, hc.2.1, fun v hv => by simpa using hc.2.2 v hv⟩ h
    · rfl

/-- `evec_disp2eig` answers iff there is at least one row and every row has 3·(number of atoms) components -/
theorem disp2eig_dimension_mismatch_rejected {ρ : Type} [Add ρ] [Sub ρ] [Mul ρ] [Div ρ] [Neg ρ] [OfNat ρ 0] [HasSqrt ρ]
    (a : List (List (Cx ρ))) (mass : List ρ) :
    disp2eig a mass = none ↔ (a = [] ∨ ∃ r ∈ a, r.length ≠ 3 * mass.length) := by
  unfold disp2eig
  cases a with
  | nil => simp
  | cons r a =>
    simp only [List.isEmpty_cons, Bool.not_false, Bool.true_and, List.all_eq_true, beq_iff_eq]
    constructor
    · intro h
      right
      by_contra hc
      push Not at hc
      simp [hc] at h
      obtain ⟨x, hx, hne⟩ := h
      exact hne (hc x (by simp [hx]))
    · rintro (h | ⟨r', hr', hne⟩)
      · simp at h
      · split
        · rename_i hall; exact absurd (hall r' hr') hne
        · rfl

example : evecSort [1, 2] [[(⟨1, 0⟩ : Cx Float)], [⟨0, 0⟩]] [[⟨1, 0⟩, ⟨0, 0⟩], [⟨0, 0⟩, ⟨1, 0⟩]] = none := rfl

/-! ### evec_disp2eig -/

/-- UNIT NORM.  For any positive masses and any non-zero displacement rows (arbitrary norm) of 3·N components, every
output row has Σ|z_k|² = 1. -/
theorem disp2eig_unit_norm (a : List (List (Cx ℝ))) (mass : List ℝ) (hm : ∀ m ∈ mass, 0 < m) (hne : a ≠ [])
    (hdim : ∀ r ∈ a, r.length = 3 * mass.length) (hnz : ∀ r ∈ a, ∃ z ∈ r, 0 < Cx.normSq z) :
    ∃ out, disp2eig a mass = some out ∧ out.length = a.length ∧ ∀ r ∈ out, sumNormSq r = 1 := by
  refine ⟨_, disp2eig_some a mass hne hdim, by simp, ?_⟩
  intro r hr
  obtain ⟨r0, hr0, rfl⟩ := List.mem_map.mp hr
  apply disp2eigRow_unit
  apply sumNormSq_scaled_pos
  · intro m hmem; exact hm m (mem_repeat3 mass m hmem)
  · rw [length_repeat3, hdim r0 hr0]
  · exact hnz r0 hr0

/-- RESTORES.  Rows `c_i · M^{-1/2} e_i` (unit vectors `e_i`, any complex factors `c_i ≠ 0`, any positive masses, the
mass of atom `k` repeated for its three Cartesian components) come back as `(c_i / |c_i|) · e_i`. -/
theorem disp2eig_restores (mass : List ℝ) (hm : ∀ m ∈ mass, 0 < m) (es : List (List (Cx ℝ))) (cs : List (Cx ℝ))
    (hne : es ≠ []) (hlen : cs.length = es.length) (hdim : ∀ e ∈ es, e.length = 3 * mass.length)
    (hunit : ∀ e ∈ es, sumNormSq e = 1) :
    disp2eig (List.zipWith (displace (repeat3 mass)) cs es) mass
      = some (List.zipWith (fun c e => e.map (Cx.mul (unitOf c))) cs es) := by
  have hm3 : ∀ m ∈ repeat3 mass, 0 < m := fun m h => hm m (mem_repeat3 mass m h)
  rw [disp2eig_some]
  · congr 1
    rw [List.map_zipWith]
    clear hne
    induction cs generalizing es with
    | nil => simp
    | cons c cs ih =>
      cases es with
      | nil => simp
      | cons e es =>
        simp only [List.zipWith_cons_cons, List.cons.injEq]
        refine ⟨?_, ih es (by simpa using hlen) (fun e' h => hdim e' (by simp [h])) (fun e' h => hunit e' (by simp [h]))⟩
        apply disp2eigRow_displace _ hm3
        · rw [length_repeat3, hdim e (by simp)]
        · exact hunit e (by simp)
  · intro h
    have := (zipWith_displace_props (repeat3 mass) cs es hlen (fun e he => by rw [length_repeat3, hdim e he])).1
    rw [h] at this
    exact hne (List.length_eq_zero_iff.mp this.symm)
  · intro r hr
    rw [(zipWith_displace_props (repeat3 mass) cs es hlen (fun e he => by rw [length_repeat3, hdim e he])).2 r hr,
      length_repeat3]

/-- ORTHONORMALITY RESTORED.  If the `e_i` are orthonormal for the Hermitian product Σ conj(x_k) y_k (the model's
`overlap`, what `conj(A) @ A.T` computes), the output rows of `evec_disp2eig` applied to `c_i M^{-1/2} e_i` are
orthonormal again, whatever the non-zero factors `c_i` and the positive masses. -/
theorem disp2eig_orthonormal (mass : List ℝ) (hm : ∀ m ∈ mass, 0 < m) (es : List (List (Cx ℝ))) (cs : List (Cx ℝ))
    (hne : es ≠ []) (hlen : cs.length = es.length) (hdim : ∀ e ∈ es, e.length = 3 * mass.length)
    (hc : ∀ c ∈ cs, 0 < Cx.normSq c)
    (horth : ∀ (i j : Nat) (hi : i < es.length) (hj : j < es.length),
      overlap es[i] es[j] = if i = j then ⟨1, 0⟩ else ⟨0, 0⟩) :
    ∃ out : List (List (Cx ℝ)), disp2eig (List.zipWith (displace (repeat3 mass)) cs es) mass = some out ∧
      ∃ hl : out.length = es.length, ∀ (i j : Nat) (hi : i < es.length) (hj : j < es.length),
        overlap (out[i]'(hl ▸ hi)) (out[j]'(hl ▸ hj)) = if i = j then ⟨1, 0⟩ else ⟨0, 0⟩ := by
  have hunit : ∀ e ∈ es, sumNormSq e = 1 := by
    intro e he
    obtain ⟨i, hi, rfl⟩ := List.getElem_of_mem he
    have := horth i i hi hi
    rw [overlap_self] at this
    simp at this
    exact this
  refine ⟨_, disp2eig_restores mass hm es cs hne hlen hdim hunit, by simp [hlen], ?_⟩
  intro i j hi hj
  simp only [List.getElem_zipWith]
  rw [overlap_scaled, horth i j hi hj]
  by_cases hij : i = j
  · subst hij
    rw [conj_mul_self, normSq_unitOf _ (hc _ (List.getElem_mem _))]
    simp only [if_true]
    apply cx_ext <;> simp [Cx.mul]
  · simp only [hij, if_false]
    exact mul_zero_cx _

/-- non-vacuity of the conversion theorems on the model at exact arithmetic is not possible (sqrt); the Float
instance is exercised by the harness.  Dimension mismatch instance: -/
example : disp2eig [[(⟨1, 0⟩ : Cx Float), ⟨0, 0⟩]] [1.0] = none := rfl

/-! ### evec_load (partial: line / slice level; `float()` and the two regexes are parameters or tested) -/

section load
variable {Num : Type}

/-- BLOCK STRUCTURE.  A file made of q-point blocks — two lines that are skipped, the q line, a separator, for each of
the `np` modes a `freq` line and `np / 3` vector lines, a closing separator — is read back as exactly the printed
q-coordinates, (mode index, THz, cm⁻¹) and vector components, in order, for ANY line readers that read the lines
back (`QBlock.ok`), whatever follows the last block. -/
theorem evec_load_blocks (R : LineReaders Num) (np : Nat) (bs : List (QBlock Num)) (h : ∀ b ∈ bs, b.ok R np)
    (rest : List (List Char)) :
    readQPoints R np bs.length (bs.flatMap QBlock.lines ++ rest) = some (bs.map QBlock.value) :=
  readQPoints_blocks R np bs h rest

/-- COLUMN SLICES.  On a vector line in matdyn's layout `(1x,'(',3(f10.6,1x,f10.6,3x),')')` the loader passes to
`float()` each 10-character field MINUS ITS FIRST CHARACTER plus one trailing blank (the slices are those of the
unstripped line, but the line is stripped first).  Hence: if `float` ignores surrounding blanks and every field
starts with a blank (|x| < 10 in `f10.6`, true of every component of a normalised vector) the six printed numbers
are returned. -/
theorem vec_line_fields (pf : List Char → Option Num) (hpf : ∀ cs, pf (cs ++ [' ']) = pf cs)
    (hpf' : ∀ cs, pf (' ' :: cs) = pf cs)
    (T1 T2 T3 T4 T5 T6 : List Char)
    (h1 : T1.length = 9) (h2 : T2.length = 9) (h3 : T3.length = 9) (h4 : T4.length = 9) (h5 : T5.length = 9)
    (h6 : T6.length = 9) (x1 y1 x2 y2 x3 y3 : Num)
    (p1 : pf (' ' :: T1) = some x1) (p2 : pf (' ' :: T2) = some y1) (p3 : pf (' ' :: T3) = some x2)
    (p4 : pf (' ' :: T4) = some y2) (p5 : pf (' ' :: T5) = some x3) (p6 : pf (' ' :: T6) = some y3) :
    readVecLine pf (vecLine ' ' T1 ' ' T2 ' ' T3 ' ' T4 ' ' T5 ' ' T6) = some [(x1, y1), (x2, y2), (x3, y3)] := by
  obtain ⟨s1, s2, s3, s4, s5, s6⟩ := slices_vecLine ' ' ' ' ' ' ' ' ' ' ' ' T1 T2 T3 T4 T5 T6 h1 h2 h3 h4 h5 h6
  simp only [readVecLine, s1, s2, s3, s4, s5, s6, hpf]
  rw [hpf'] at p1 p2 p3 p4 p5 p6
  simp [p1, p2, p3, p4, p5, p6]

/-- … and what is lost otherwise: a field that uses all ten columns (x ≤ −10 or x ≥ 100) loses its first character —
`-12.345678` is read as `12.345678`.  Outside C20's quantifier (eigenvector components have modulus ≤ 1), kept as
the reason for the hypothesis. -/
example :
    readVecLine pfRat " (-12.345678   0.000000     0.500000   0.000000     0.000000   0.000000   )".toList
      = some [(mkRat 12345678 1000000, 0), (mkRat 1 2, 0), (0, 0)] := by
  decide +kernel

/-- a complete small file (1 q-point, 3 modes) through the concrete readers (regex scanners + exact decimals) -/
def sampleEig : List (List Char) := [
  "     diagonalizing the dynamical matrix ...", "", " q =       0.1258     -0.0347      0.0000",
  " **************************************************************************",
  "     freq (    1) =      -0.018788 [THz] =      -0.626714 [cm-1]",
  " ( -0.211208  -0.000000    -0.215596   0.125000     0.041957   0.000000   )",
  "     freq (    2) =       0.810621 [THz] =      27.039414 [cm-1]",
  " (  1.000000   0.000000     0.000000   0.000000     0.000000  -1.000000   )",
  "     freq (    3) =      12.500000 [THz] =     416.955119 [cm-1]",
  " (  0.000000   0.500000    -0.500000   0.000000     0.707107   0.000000   )",
  " **************************************************************************"].map String.toList

example : evecLoad pfRat 1 3 sampleEig = some [([mkRat 1258 10000, mkRat (-347) 10000, 0], [
    ((1, mkRat (-18788) 1000000, mkRat (-626714) 1000000),
      [(mkRat (-211208) 1000000, 0), (mkRat (-215596) 1000000, mkRat 1 8), (mkRat 41957 1000000, 0)]),
    ((2, mkRat 810621 1000000, mkRat 27039414 1000000), [(1, 0), (0, 0), (0, -1)]),
    ((3, mkRat 25 2, mkRat 416955119 1000000), [(0, mkRat 1 2), (mkRat (-1) 2, 0), (mkRat 707107 1000000, 0)])])] := by
  decide +kernel

/-- the closing separator line is required: the generator's trailing `next(fp)` runs after the last block too -/
example : evecLoad pfRat 1 3 sampleEig.dropLast = none := by decide +kernel

end load

/-! ### the model IS the source (translator tie): `Generated.sortSpec`, `Generated.dispSpec`, `Generated.loadSpec` are re-extracted from
`cij/misc/evec_sort.py`, `evec_disp2eig.py`, `evec_load.py` on every run; everything not extracted is compared with a canonical skeleton -/

section source
open Cij.EvecSrc
variable {ι : Type}

/-- DIMENSION TEST = SOURCE.  `s = set([len(T), len(B), *[len(i) for i in (T + B)]])`, `if len(s) != 1 or ndim not in s: raise`, as
extracted (set display and test as trees) and given their Python meaning (`len(s)` = number of distinct lengths), reject exactly when the
model's `dimsOk` fails: for ALL length vectors — every `ndim`, every two lists of vectors of any lengths. -/
theorem evec_model_is_source_dimension_test {β : Type} (ndim : Nat) (T B : List (List β)) :
    Generated.sortSpec.dimReject.eval ndim (Generated.sortSpec.dimSet.flatMap (SetElem.eval T B)) = true ↔
      ¬ (T.length = ndim ∧ B.length = ndim ∧ ∀ v ∈ T ++ B, v.length = ndim) := by
  rw [sort_dim_test_is_model, ← dimsOk_iff]
  simp

/-- OVERLAP = SOURCE.  Entry (i, j) of the extracted expression `numpy.conj(numpy.array(base_evecs)) @ numpy.array(target_evecs).T`
is the model's `overlap B[i] T[j] = Σ_k conj(B[i][k])·T[j][k]`: the BASE is conjugated (not the product), the target transposed, row =
base index, column = target index — over any scalar. -/
theorem evec_model_is_source_overlap {ρ : Type} [Add ρ] [Sub ρ] [Mul ρ] [Div ρ] [Neg ρ] [OfNat ρ 0] [HasSqrt ρ]
    (T B : List (List (Cx ρ))) (n i j : Nat) (hi : i < B.length) (hj : j < T.length)
    (hBi : (B[i]).length = n) (hTj : (T[j]).length = n) :
    Generated.sortSpec.overlap.eval (fun name =>
        if name == "base_evecs" then matOf B else if name == "target_evecs" then matOf T else fun _ _ => Cx.zero) n i j
      = overlap B[i] T[j] :=
  conj_matmul_tr_eval _ "base_evecs" "target_evecs" B T (by simp) (by simp) n i j hi hj hBi hTj

/-- … which over ℝ-pairs is Mathlib's `⟪B[i], T[j]⟫_ℂ` (conjugate-linear in the base vector) -/
theorem evec_model_is_source_overlap_inner (T B : List (List (Cx ℝ))) (n i j : Nat) (hi : i < B.length) (hj : j < T.length)
    (hBi : (B[i]).length = n) (hTj : (T[j]).length = n) :
    Cx.toC (Generated.sortSpec.overlap.eval (fun name =>
        if name == "base_evecs" then matOf B else if name == "target_evecs" then matOf T else fun _ _ => Cx.zero) n i j)
      = inner ℂ (toVec n B[i]) (toVec n T[j]) := by
  rw [evec_model_is_source_overlap T B n i j hi hj hBi hTj]
  exact toC_overlap_eq_inner n _ _ hBi hTj

/-- LOOP = SOURCE.  `k` rounds of the loop as written — `idx = unravel_index(argmax(abs(m)), m.shape)`, the threshold test
(`threshold and m[idx] < threshold`, false without a threshold), `m[idx[0], :] = 0`, `m[:, idx[1]] = 0`,
`sorted_arr[idx[0]] = target_arr[idx[1]]`, in the extracted order — never raise and leave in `sorted_arr` what `k` rounds of the model's
greedy step leave on the magnitude matrix. -/
theorem evec_model_is_source_loop (n : Nat) (target : Nat → ι) (k : Nat) (st : SortState ℝ ι) :
    (sortLoop Generated.sortSpec n none target k st).map (·.sorted)
      = some (greedyLoop n target k (fun i j => Cx.abs (st.m i j)) st.sorted) :=
  sortLoop_is_greedy abs_zero_real n target k st

/-- SORT = SOURCE.  The whole of `evec_sort` as the source says it now, run with the extracted defaults (`filter=None`,
`threshold=None`), is the model's `evecSort`, for all items and vector lists … -/
theorem evec_model_is_source_sort (items : List ι) (T B : List (List (Cx ℝ))) :
    runSort Generated.sortSpec none none items T B = evecSort items T B ∧
    Generated.sortSpec.defaults = [("filter", "None"), ("threshold", "None")] :=
  ⟨runSort_is_evecSort abs_zero_real items T B, by decide⟩

/-- … over ANY scalar in which `|0| = 0` (for the driver's `Float` that is `sqrt(0*0+0*0) = 0`) -/
theorem evec_model_is_source_sort_scalar {ρ : Type} [Add ρ] [Sub ρ] [Mul ρ] [Div ρ] [Neg ρ] [OfNat ρ 0] [HasSqrt ρ]
    [LT ρ] [DecidableRel (fun a b : ρ => a < b)] [BEq ρ] (habs0 : Cx.abs (Cx.zero : Cx ρ) = 0)
    (items : List ι) (T B : List (List (Cx ρ))) :
    runSort Generated.sortSpec none none items T B = evecSort items T B :=
  runSort_is_evecSort habs0 items T B

/-- hence SORT RECOVERS is a statement about the loop AS WRITTEN: under the hypotheses of `evecSort_recovers` the interpreted source
returns the planted arrangement, a permutation of the items -/
theorem evec_sort_source_recovers (items : List ι) (B T : List (List (Cx ℝ))) (c : ℕ → Cx ℝ) (D : ℕ → List (Cx ℝ))
    (σ π : ℕ → ℕ) (ε : ℝ)
    (hB : B.length = items.length) (hT : T.length = items.length) (hBl : ∀ v ∈ B, v.length = items.length)
    (horth : ∀ (i k : ℕ) (hi : i < B.length) (hk : k < B.length),
      overlap B[i] B[k] = if i = k then ⟨1, 0⟩ else ⟨0, 0⟩)
    (hc : ∀ j < items.length, Cx.normSq (c j) = 1)
    (hDl : ∀ j < items.length, (D j).length = items.length)
    (hD : ∀ j < items.length, sumNormSq (D j) ≤ ε ^ 2) (hε0 : 0 ≤ ε) (hε : ε < 1 / 2)
    (hTj : ∀ (j : ℕ) (hj : j < T.length),
      T[j] = List.zipWith (fun bk dk => Cx.add (Cx.mul (c j) bk) dk) (B.getD (σ j) []) (D j))
    (hσ : ∀ j < items.length, σ j < items.length) (hπ : ∀ i < items.length, π i < items.length)
    (hσπ : ∀ i < items.length, σ (π i) = i) (hπσ : ∀ j < items.length, π (σ j) = j) :
    runSort Generated.sortSpec none none items T B = some ((List.range items.length).map fun i => items[π i]?) ∧
    ((List.range items.length).map fun i => items[π i]?).Perm (items.map some) := by
  rw [(evec_model_is_source_sort items T B).1]
  have h := evecSort_recovers items B T c D σ π ε hB hT hBl horth hc hDl hD hε0 hε hTj hσ hπ hσπ hπσ
  exact ⟨h.1, h.2.2⟩

/-- the explicit instance of `evecSort_recovers`' example through the interpreted source -/
example :
    runSort Generated.sortSpec none none ["x", "y"]
      [[⟨1 / 10, -4 / 5⟩, ⟨0, 3 / 5⟩], [⟨-3 / 5, 0⟩, ⟨-4 / 5, -1 / 10⟩]]
      [[(⟨3 / 5, 0⟩ : Cx ℝ), ⟨4 / 5, 0⟩], [⟨-4 / 5, 0⟩, ⟨3 / 5, 0⟩]]
      = evecSort ["x", "y"] [[⟨1 / 10, -4 / 5⟩, ⟨0, 3 / 5⟩], [⟨-3 / 5, 0⟩, ⟨-4 / 5, -1 / 10⟩]]
          [[(⟨3 / 5, 0⟩ : Cx ℝ), ⟨4 / 5, 0⟩], [⟨-4 / 5, 0⟩, ⟨3 / 5, 0⟩]] :=
  (evec_model_is_source_sort _ _ _).1

/-- DISP2EIG = SOURCE.  `evec_disp2eig` as the source says it now — `numpy.repeat(mass, 3)` (each mass three times consecutively), the
test `a.shape[1] == 3*N` with RuntimeError in the other branch, `a *= sqrt(m[nax, :])` (one factor per column),
`norm = diag(conj(a) @ a.T)`, `a /= sqrt(norm)[:, nax]` (one factor per row), in the extracted order — is the model's `disp2eig`, for
every list of rows and every mass list; and `numpy.repeat(mass, 3)` is the model's `repeat3`. -/
theorem evec_model_is_source_disp2eig (a : List (List (Cx ℝ))) (mass : List ℝ) :
    runDisp Generated.dispSpec a mass = disp2eig a mass ∧
    repeatEach Generated.dispSpec.times mass = repeat3 mass ∧ Generated.dispSpec.repeated = "mass" :=
  ⟨runDisp_is_disp2eig a mass, repeatEach_three mass, by decide⟩

/-- NO DIVISIBILITY ESCAPE.  The extracted shape test is true exactly when the number of COLUMNS is `3·N`, whatever the number of rows;
the interpreted source rejects a non-empty rectangular `M × K` array exactly when `K ≠ 3·len(mass)` — for every shape, also when
`3N ∣ M·K` — and no call or attribute of the function reshapes `a`. -/
theorem evec_model_is_source_disp2eig_rejects (a : List (List (Cx ℝ))) (mass : List ℝ) (K : Nat) (hne : a ≠ [])
    (hK : ∀ r ∈ a, r.length = K) :
    (∀ M N, Generated.dispSpec.shapeTest.eval M K N = true ↔ K = 3 * N) ∧
    (runDisp Generated.dispSpec a mass = none ↔ K ≠ 3 * mass.length) ∧
    (disp2eig a mass = none ↔ K ≠ 3 * mass.length) ∧
    (∀ f ∈ ["reshape", "ravel", "flatten", "resize", "squeeze", "atleast_2d", "transpose", "swapaxes", "flat"],
      f ∉ Generated.dispSpec.attributes ∧ ("numpy." ++ f) ∉ Generated.dispSpec.calls) := by
  refine ⟨fun M N => disp_shape_test_iff M K N, runDisp_rejects_iff a mass K hne hK, ?_, disp_no_reshape⟩
  rw [← runDisp_is_disp2eig]
  exact runDisp_rejects_iff a mass K hne hK

/-- a 6 × 7 array with two atoms (42 = 7·6 elements, 3N = 6 divides it) is rejected -/
example : disp2eig (List.replicate 6 (List.replicate 7 (⟨1, 0⟩ : Cx ℝ))) [1, 1] = none :=
  ((evec_model_is_source_disp2eig_rejects (List.replicate 6 (List.replicate 7 (⟨1, 0⟩ : Cx ℝ))) [1, 1] 7 (by simp)
    (by intro r hr; rw [List.eq_of_mem_replicate hr]; simp)).2.2.1).2 (by norm_num)

/-- the norm the division uses is real: the diagonal entry of the extracted `conj(a) @ a.T` is `⟨Σ_k |a_ik|², 0⟩` -/
theorem evec_model_is_source_norm_real (a : List (List (Cx ℝ))) (K i : Nat) (hi : i < a.length) (hK : (a[i]).length = K) :
    ∀ name e, DispStmt.normDiag name e ∈ Generated.dispSpec.body →
      e.eval (fun n => if n == "a" then matOf a else fun _ _ => Cx.zero) K i i = ⟨sumNormSq a[i], 0⟩ :=
  disp_norm_is_real a K i hi hK

/-- REGEXES = SOURCE.  For EVERY string: the backtracking matcher (greedy quantifiers, alternatives in Python's priority order, leftmost
start position) run on the extracted `Q_COORDS_REGEX` / `MODE_INDEX_REGEX` finds exactly the groups the model's deterministic scanners
find, and fails exactly when they fail — the scanners recognise the language of the patterns and capture what `re.search(...).groups()`
captures. -/
theorem evec_model_is_source_regex (l : List Char) :
    Rx.search Generated.qCoordsRegex l = (Evec.search matchQAt l).map (fun p => [p.1, p.2.1, p.2.2]) ∧
    Rx.search Generated.modeIndexRegex l = (Evec.search matchFreqAt l).map (fun p => [p.1, p.2.1, p.2.2]) :=
  ⟨Rx.search_qCoords l, Rx.search_modeIndex l⟩

example : Rx.search Generated.qCoordsRegex " q =       0.1258     -0.0347      0.0000".toList
    = some ["0.1258".toList, "-0.0347".toList, "0.0000".toList] := by decide +kernel

example : Rx.search Generated.modeIndexRegex "     freq (    2) =       0.810621 [THz] =      27.039414 [cm-1]".toList
    = some ["2".toList, "0.810621".toList, "27.039414".toList] := by decide +kernel

/-- backtracking is really exercised: `\d+\.?\d*` first takes `2.5`, then must give back (no blank follows) and fails on `2.5.3` -/
example : Rx.search Generated.qCoordsRegex "q = 1. 2.5.3 7".toList = none := by decide +kernel

/-- SLICES = SOURCE.  One vector line is read through the extracted table of (real, imaginary) column slices of the STRIPPED line, in
tuple order; the table is `[2:12]+[13:23]·1j, [26:36]+[37:47]·1j, [50:60]+[61:71]·1j`: six pairwise different slices of ten columns, each
used exactly once; there is NO conditional construct in `_read_vecs` / `_read_modes` / `_read_q_points` (nothing depends on the q-point,
Γ included). -/
theorem evec_model_is_source_slices {Num : Type} (pf : List Char → Option Num) (raw : List Char) :
    readVecLine pf raw = (specReaders Generated.loadSpec pf).readVec raw ∧
    (specReaders Generated.loadSpec pf).readVec raw =
      (Generated.loadSpec.vecComponents.mapM fun s => do
        let x ← pf (slice (strip raw) s.1.1 s.1.2)
        let y ← pf (slice (strip raw) s.2.1 s.2.2)
        pure (x, y)) ∧
    (Generated.loadSpec.vecComponents.flatMap fun s => [s.1, s.2]).Nodup ∧
    (∀ s ∈ Generated.loadSpec.vecComponents.flatMap (fun s => [s.1, s.2]), s.2 = s.1 + 10) ∧
    Generated.loadSpec.vecComponents.length = 3 ∧
    Generated.loadSpec.conditionals = [] := by
  refine ⟨?_, rfl, by decide, by decide, by decide, by decide⟩
  rw [specReaders_is_concrete]
  rfl

/-- LOADER = SOURCE.  `evec_load` as the source says it now — both regexes, the slice table, `np // 3` vector lines per mode, the
converters `(int, float, float)` zipped to the groups, the step list of `_read_q_points` (two lines skipped, q line, one skipped, `np`
modes, one skipped), every line stripped before use — is the model's `evecLoad`: for every `float`, `nq`, `np` and list of lines. -/
theorem evec_model_is_source_load {Num : Type} (pf : List Char → Option Num) (nq np : Nat) (file : List (List Char)) :
    evecLoadS Generated.loadSpec pf nq np file = evecLoad pf nq np file ∧
    Generated.loadSpec.qSteps = [.skip 2, .qLine, .skip 1, .modes, .skip 1] ∧
    Generated.loadSpec.converters = ["int", "float", "float"] ∧ Generated.loadSpec.vecLinesDiv = 3 :=
  ⟨evecLoadS_is_evecLoad pf nq np file, by decide, by decide, by decide⟩

/-- the sample file through the interpreted source -/
example : (evecLoadS Generated.loadSpec pfRat 1 3 sampleEig).map List.length = some 1 := by
  rw [(evec_model_is_source_load pfRat 1 3 sampleEig).1]
  decide +kernel

/-- `cij/misc/__init__.py` re-exports each tool from the module the model mirrors, under its own name -/
theorem evec_model_is_source_exports :
    ∀ n ∈ ["evec_sort", "evec_load", "evec_disp2eig"], (n, n, n) ∈ Generated.miscExports ∧ n ∈ Generated.miscAll := by
  decide

end source

end Cij.C20
