/-
  C19 — `cij extract` and `cij extract-geotherm` return table values faithfully.

  Statements are about `CijModel/Extract.lean` (the selection / wiring of cij/cli/extract.py and
  cij/cli/geotherm.py) over an arbitrary ordered field (ℝ, ℚ); file names are those of
  `Generated.writerRules` through `CijModel/Writer.lean`.

  Tie to the SOURCE: `tools/gens/extract_src.py` re-reads cij/cli/extract.py, cij/cli/geotherm.py and the
  registrations of cij/cli/cij.py on every run into `Generated/ExtractSpec.lean` (glob pattern, reader arguments,
  the if/elif selection, `y_index = …` as an expression tree, click options and defaults, spline-call wiring,
  every signature default and module-level statement); the `extract_model_is_source_*` theorems below say that the
  model is the interpretation (`CijModel/ExtractSrc.lean`) of exactly that data.

  Partial by design: `scipy.interpolate.RectBivariateSpline` is a parameter `S` with two contracts,
  `Interpolates` (`S x y z x_i y_j = z_ij`) and `ReproducesBicubicsOn` (a table sampled from a polynomial of degree ≤ 3
  in each variable is reproduced everywhere in the window — what an interpolating bicubic spline does, the spline
  space containing those polynomials).  Proved here: what follows from the contracts along every geotherm; that for
  4×4 tables (no interior knots: the spline is ONE bicubic polynomial) the contracts DETERMINE the spline —
  `bicubic44`, the tensor Lagrange form, is the unique bicubic through the table — and satisfy both.  FITPACK's
  not-a-knot construction for more than 4 nodes per axis is not modelled, and convergence O(h⁴) for general smooth
  functions (`geotherm_between_nodes`, comment below) is not proved: harness/c19.py measures both contracts on the
  real command and the error ratio under refinement.
  Printing (`DataFrame.to_string`) is outside the model (the harness parses the real stdout).
-/
import CijProofs.Lemmas.Extract
import CijProofs.Lemmas.ExtractSource
import CijProofs.Lemmas.Bicubic

namespace Cij.C19

open Cij Cij.Writer Cij.Extract Cij.ExtractSrc Generated

/-! #### nearest-index selection -/

/-- `numpy.argmin(|x − y|)`: the index returned is a nearest grid value, and the FIRST one on a tie. -/
theorem argmin_nearest {α} [Field α] [LinearOrder α] [IsStrictOrderedRing α] (xs : List α) (y : α) (i : Nat)
    (h : argminAbs xs y = some i) :
    ∃ xi, xs[i]? = some xi ∧ ∀ j xj, xs[j]? = some xj → |xi - y| ≤ |xj - y| ∧ (j < i → |xi - y| < |xj - y|) := by
  obtain ⟨v, hv, hall⟩ := argminFirst_spec _ _ h
  simp only [List.getElem?_map, Option.map_eq_some_iff] at hv
  obtain ⟨xi, hxi, rfl⟩ := hv
  refine ⟨xi, hxi, fun j xj hj => ?_⟩
  have := hall j (absv (xj - y)) (by simp [hj])
  simpa [absv_eq_abs] using this

/-- a non-empty axis always yields an index (requests beyond the grid select the end point, see examples) -/
theorem argmin_defined {α} [Field α] [LinearOrder α] [IsStrictOrderedRing α] (xs : List α) (y : α) (h : xs ≠ []) :
    (argminAbs xs y).isSome := by
  unfold argminAbs
  exact argminFirst_isSome _ (by simpa using h)

/-- a requested value that IS on the grid selects (the first occurrence of) itself -/
theorem argmin_on_grid {α} [Field α] [LinearOrder α] [IsStrictOrderedRing α] (xs : List α) (y : α) (i k : Nat)
    (h : argminAbs xs y = some i) (hk : xs[k]? = some y) : xs[i]? = some y := by
  obtain ⟨xi, hxi, hall⟩ := argmin_nearest xs y i h
  have := (hall k y hk).1
  simp only [sub_self, abs_zero, abs_nonpos_iff] at this
  rw [hxi, sub_eq_zero.1 this]

/-! #### extract: one variable -/

/-- `-T t`: the series extracted from a table is the row whose temperature is nearest to `t`, labelled by the
table's pressures.  (`-T` wins if `-P` is given too, as coded.) -/
theorem extract_row_T {α} [Field α] [LinearOrder α] [IsStrictOrderedRing α] (tab : Tab α) (t : α) (p : Option α)
    (labels values : List α) (h : selectRow tab (some t) p = some (labels, values)) :
    labels = tab.cols ∧
    ∃ i ti, tab.rows[i]? = some ti ∧ tab.vals[i]? = some values ∧
      ∀ (j : Nat) (tj : α), tab.rows[j]? = some tj → |ti - t| ≤ |tj - t| ∧ (j < i → |ti - t| < |tj - t|) := by
  simp only [selectRow, pick, Option.bind_eq_bind] at h
  cases hi : argminAbs tab.rows t with
  | none => simp [hi] at h
  | some i =>
    simp only [hi, Option.bind_some] at h
    cases hrow : tab.vals[i]? with
    | none => simp [hrow] at h
    | some row =>
      simp only [hrow, Option.bind_some, Option.pure_def, Option.some.injEq, Prod.mk.injEq] at h
      obtain ⟨rfl, rfl⟩ := h
      obtain ⟨ti, hti, hall⟩ := argmin_nearest tab.rows t i hi
      exact ⟨rfl, i, ti, hti, hrow, hall⟩

/-- `-P p`: the series is the COLUMN whose pressure is nearest to `p`, labelled by the table's temperatures
(the transpose is applied before the row selection). -/
theorem extract_row_P {α} [Field α] [LinearOrder α] [IsStrictOrderedRing α] (tab : Tab α) (p : α)
    (labels values : List α) (hrect : ∀ row ∈ tab.vals, row.length = tab.cols.length)
    (h : selectRow tab none (some p) = some (labels, values)) :
    labels = tab.rows ∧
    ∃ j pj, tab.cols[j]? = some pj ∧
      (∀ (k : Nat) (pk : α), tab.cols[k]? = some pk → |pj - p| ≤ |pk - p| ∧ (k < j → |pj - p| < |pk - p|)) ∧
      values.length = tab.vals.length ∧
      ∀ (i : Nat) (row : List α), tab.vals[i]? = some row → values[i]? = row[j]? := by
  simp only [selectRow, pick, Tab.transpose, Option.bind_eq_bind] at h
  cases hj : argminAbs tab.cols p with
  | none => simp [hj] at h
  | some j =>
    simp only [hj, Option.bind_some] at h
    obtain ⟨pj, hpj, hall⟩ := argmin_nearest tab.cols p j hj
    have hjlt : j < tab.cols.length := by
      by_contra hcon; rw [List.getElem?_eq_none (by omega)] at hpj; cases hpj
    simp only [List.getElem?_map, List.getElem?_range hjlt, Option.map_some, Option.bind_some,
      Option.pure_def, Option.some.injEq, Prod.mk.injEq] at h
    obtain ⟨rfl, rfl⟩ := h
    obtain ⟨c1, c2⟩ := column_spec tab.vals j (fun row hrow => by rw [hrect row hrow]; exact hjlt)
    exact ⟨rfl, j, pj, hpj, hall, c1, c2⟩

/-- neither `-T` nor `-P`: the command fails (UnboundLocalError in the code) -/
theorem extract_needs_T_or_P {α} [Field α] [LinearOrder α] [IsStrictOrderedRing α] (tab : Tab α) :
    selectRow tab none none = none := rfl

/-! #### extract: any number of variables -/

/-- The printed table: index = the shared other-axis labels, one column per requested variable, in the
requested order, each column being exactly the series selected from THAT variable's table. -/
theorem extract_columns {α} [Field α] [LinearOrder α] [IsStrictOrderedRing α]
    (dir : List (String × Tab α)) (vars : List String) (T P : Option α)
    (labels : List α) (series : String → List α)
    (hne : vars ≠ []) (hnodup : labels.Nodup)
    (hsel : ∀ v ∈ vars, (loadData dir v).bind (fun tab => selectRow tab T P) = some (labels, series v))
    (hlen : ∀ v ∈ vars, (series v).length = labels.length) :
    extract dir vars T P = some (labels, vars.map fun v => (v, (series v).map some)) := by
  unfold extract
  have hmap : (vars.map fun v => (loadData dir v).bind fun t => selectRow t T P) =
      (vars.map fun v => (labels, series v)).map some := by
    rw [List.map_map]; apply List.map_congr_left; intro v hv; simpa using hsel v hv
  have hmap' : (vars.map fun v => do let t ← loadData dir v; selectRow t T P) =
      (vars.map fun v => (labels, series v)).map some := hmap
  rw [hmap', optAll_map_some]
  have hlast : (vars.map fun v => (labels, series v)).getLast? =
      some (labels, series (vars.getLast hne)) := by
    rw [List.getLast?_map, List.getLast?_eq_getLast_of_ne_nil hne]; rfl
  simp only [Option.bind_eq_bind, Option.bind_some, hlast, Option.pure_def, Option.some.injEq, Prod.mk.injEq,
    true_and]
  rw [zip_map_self, List.map_map]
  apply List.map_congr_left
  intro v hv
  simp only [Function.comp]
  rw [align_self labels (series v) hnodup (hlen v hv)]

/-! #### variable ↦ file -/

/-- if exactly one file of the directory matches `"{var}_tp_*"`, that file is read — whatever the order in
which glob lists the directory -/
theorem load_unique {α} (dir : List (String × Tab α)) (var f : String) (tab : Tab α)
    (hmem : (f, tab) ∈ dir) (hmatch : globMatches var f = true)
    (huniq : ∀ e ∈ dir, globMatches var e.1 = true → e = (f, tab)) :
    loadData dir var = some tab := by
  unfold loadData
  cases hfind : dir.find? (fun e => globMatches var e.1) with
  | none =>
    rw [List.find?_eq_none] at hfind
    exact absurd hmatch (by simpa using hfind (f, tab) hmem)
  | some e =>
    have h1 := List.find?_some hfind
    have h2 := List.mem_of_find?_eq_some hfind
    rw [huniq e h2 h1]; rfl

/-- on the names the writer rules produce for the pressure base (10 + 2×21 files): a variable name — the part
of a file name before "_tp_", e.g. c11s, bm_VRH, v_p — matches its own file and no other, so `extract` never
reads a different variable's table (e.g. `v` does not pick up `v_p_tp_km_s.txt`, `bm_V` not `bm_VRH_…`). -/
theorem variable_selects_its_file :
    ∀ n₁ ∈ allFnames writerRules "tp", ∀ n₂ ∈ allFnames writerRules "tp",
      ∀ f₁, n₁ = some f₁ → ∀ f₂, n₂ = some f₂ →
        globMatches (stem f₁) f₁ = true ∧ (globMatches (stem f₁) f₂ = true → f₁ = f₂) := by
  decide +kernel

/-- the variable names users type are the documented stems -/
theorem documented_variable_names :
    stem "c11s_tp_gpa.txt" = "c11s" ∧ stem "c46t_tp_gpa.txt" = "c46t" ∧ stem "bm_VRH_tp_gpa.txt" = "bm_VRH" ∧
    stem "G_V_tp_gpa.txt" = "G_V" ∧ stem "v_p_tp_km_s.txt" = "v_p" ∧ stem "v_tp_ang3.txt" = "v" ∧
    (∀ p ∈ keys21, (do let r ← resolve "cij_s"; let f ← ijFname r "tp" (keyOfVoigt p); pure (stem f)) =
      some ("c" ++ toString p.1 ++ toString p.2 ++ "s")) := by
  decide +kernel

/-! #### extract-geotherm -/

/-- the interpolation contract of the spline on one table -/
def Interpolates {α} (S : Spline α) (tab : Tab α) : Prop :=
  ∀ (i j : Nat) (x y z : α), tab.rows[i]? = some x → tab.cols[j]? = some y → (tab.vals[i]?).bind (·[j]?) = some z →
    S tab.rows tab.cols tab.vals x y = z

/-- What the command computes, for any number of (distinct, fresh) variables and ANY spline: the geotherm's
own columns unchanged and in order, followed by one column per variable whose r-th entry is the spline of that
variable's table evaluated at (column named by `--p-col`, column named by `--t-col`) of geotherm row r. -/
theorem geotherm_spec {α} (S : Spline α) (dir : List (String × Tab α)) (vars : List String)
    (geo : List (String × List α)) (tCol pCol : String) (xs ys : List α) (tabs : String → Tab α)
    (hx : dictGet geo pCol = some xs) (hy : dictGet geo tCol = some ys)
    (hload : ∀ v ∈ vars, loadData dir v = some (tabs v))
    (hnodup : vars.Nodup) (hfresh : ∀ v ∈ vars, v ∉ geo.map (·.1)) :
    geotherm S dir vars geo tCol pCol =
      some (geo ++ vars.map fun v => (v, List.zipWith (S (tabs v).rows (tabs v).cols (tabs v).vals) xs ys)) := by
  unfold geotherm
  induction vars generalizing geo with
  | nil => simp
  | cons v vs ih =>
    have hv := hload v (by simp)
    have hnew : v ∉ geo.map (·.1) := hfresh v (by simp)
    simp only [List.foldlM_cons, geothermStep, hv, hx, hy, Option.bind_eq_bind, Option.bind_some,
      Option.pure_def, dictSet_new geo v _ hnew]
    rw [ih (geo ++ [(v, _)]) (dictGet_append_left _ _ _ _ hx) (dictGet_append_left _ _ _ _ hy)
      (fun w hw => hload w (by simp [hw])) (List.nodup_cons.1 hnodup).2
      (fun w hw => by
        simp only [List.map_append, List.map_cons, List.map_nil, List.mem_append, List.mem_singleton, not_or]
        exact ⟨hfresh w (by simp [hw]), fun e => (List.nodup_cons.1 hnodup).1 (e ▸ hw)⟩)]
    simp

/-- pass-through: every column of the geotherm file is in the output, unchanged, in the same position, with the
same rows in the same order. -/
theorem geotherm_passthrough {α} (S : Spline α) (dir : List (String × Tab α)) (vars : List String)
    (geo : List (String × List α)) (tCol pCol : String) (xs ys : List α) (tabs : String → Tab α)
    (hx : dictGet geo pCol = some xs) (hy : dictGet geo tCol = some ys)
    (hload : ∀ v ∈ vars, loadData dir v = some (tabs v))
    (hnodup : vars.Nodup) (hfresh : ∀ v ∈ vars, v ∉ geo.map (·.1)) :
    ∃ out, geotherm S dir vars geo tCol pCol = some out ∧ out.take geo.length = geo ∧
      out.length = geo.length + vars.length ∧ (out.drop geo.length).map (·.1) = vars := by
  refine ⟨_, geotherm_spec S dir vars geo tCol pCol xs ys tabs hx hy hload hnodup hfresh, ?_, ?_, ?_⟩
  · simp
  · simp
  · simp [Function.comp_def]

/-- grid node ⇒ table entry (default options `--t-col P --p-col T`, i.e. a geotherm file with columns named
T and P): if row r of the geotherm has T = the i-th tabulated temperature and P = the j-th tabulated pressure,
the value reported for variable v is entry (i, j) of v's table — NOT (j, i): temperature and pressure are not
transposed. -/
theorem geotherm_at_node {α} (S : Spline α) (dir : List (String × Tab α)) (vars : List String)
    (geo : List (String × List α)) (ts ps : List α) (tabs : String → Tab α)
    (hT : dictGet geo "T" = some ts) (hP : dictGet geo "P" = some ps)
    (hload : ∀ v ∈ vars, loadData dir v = some (tabs v))
    (hnodup : vars.Nodup) (hfresh : ∀ v ∈ vars, v ∉ geo.map (·.1))
    (hS : ∀ v ∈ vars, Interpolates S (tabs v)) :
    ∃ out, geotherm S dir vars geo = some out ∧
      ∀ v ∈ vars, ∃ col, dictGet out v = some col ∧
        ∀ (r i j : Nat) (t p z : α), ts[r]? = some t → ps[r]? = some p →
          (tabs v).rows[i]? = some t → (tabs v).cols[j]? = some p → ((tabs v).vals[i]?).bind (·[j]?) = some z →
          col[r]? = some z := by
  refine ⟨_, geotherm_spec S dir vars geo "P" "T" ts ps tabs hT hP hload hnodup hfresh, fun v hv => ?_⟩
  refine ⟨List.zipWith (S (tabs v).rows (tabs v).cols (tabs v).vals) ts ps, ?_,
    fun r i j t p z htr hpr hi hj hz => ?_⟩
  · rw [dictGet_append_right _ _ _ (hfresh v hv)]
    exact dictGet_map_self vars (fun v => List.zipWith (S (tabs v).rows (tabs v).cols (tabs v).vals) ts ps) v hv
  · simp only [List.getElem?_zipWith, htr, hpr, Option.some.injEq]
    exact hS v hv i j t p z hi hj hz

/-- explicitly named columns: the column given to `--t-col` feeds the PRESSURE axis of the table and the one
given to `--p-col` the TEMPERATURE axis — as the help strings say ("--t-col: name of geotherm pressure column"),
contrary to what the option names suggest. -/
theorem geotherm_named_columns {α} (S : Spline α) (dir : List (String × Tab α)) (var : String)
    (geo : List (String × List α)) (tempName presName : String) (ts ps : List α) (tab : Tab α)
    (hT : dictGet geo tempName = some ts) (hP : dictGet geo presName = some ps)
    (hload : loadData dir var = some tab) (hfresh : var ∉ geo.map (·.1)) :
    geotherm S dir [var] geo (tCol := presName) (pCol := tempName) =
      some (geo ++ [(var, List.zipWith (S tab.rows tab.cols tab.vals) ts ps)]) ∧
    geotherm S dir [var] geo (tCol := tempName) (pCol := presName) =
      some (geo ++ [(var, List.zipWith (S tab.rows tab.cols tab.vals) ps ts)]) := by
  constructor
  · have := geotherm_spec S dir [var] geo presName tempName ts ps (fun _ => tab) hT hP
      (fun v hv => by rw [List.mem_singleton.1 hv]; exact hload) (by simp)
      (fun v hv => by rw [List.mem_singleton.1 hv]; exact hfresh)
    simpa using this
  · have := geotherm_spec S dir [var] geo tempName presName ps ts (fun _ => tab) hP hT
      (fun v hv => by rw [List.mem_singleton.1 hv]; exact hload) (by simp)
      (fun v hv => by rw [List.mem_singleton.1 hv]; exact hfresh)
    simpa using this

/-! #### the model IS the source (Generated/ExtractSpec.lean, re-translated from the working tree on every run) -/

/-- nearest-index rule = semantics of the expression tree read from `y_index = …`, for EVERY index vector and
request: where the tree has a value it is the position of a nearest label, the first one on a tie. -/
theorem extract_model_is_source_nearest {α} [Field α] [LinearOrder α] [IsStrictOrderedRing α] (t : Tab α) (y : α)
    (i : Nat) (h : ExtractSpec.extractMain.yIndex.eval t y = some i) :
    ∃ xi, t.rows[i]? = some xi ∧
      ∀ j xj, t.rows[j]? = some xj → |xi - y| ≤ |xj - y| ∧ (j < i → |xi - y| < |xj - y|) :=
  argmin_nearest t.rows y i (by rw [← yIndex_eval]; exact h)

/-- … and it has a value on every non-empty axis; as a function it is the model's `argminAbs` of the row labels. -/
theorem extract_model_is_source_nearest_total {α} [Field α] [LinearOrder α] [IsStrictOrderedRing α] (t : Tab α)
    (y : α) : ExtractSpec.extractMain.yIndex.eval t y = argminAbs t.rows y ∧
      (t.rows ≠ [] → (ExtractSpec.extractMain.yIndex.eval t y).isSome) :=
  ⟨yIndex_eval t y, fun h => by rw [yIndex_eval]; exact argmin_defined t.rows y h⟩

/-- the `if temperature != None … elif pressure != None …` chain of the source: `-T` takes the frame as it is
(also when `-P` is given too), `-P` alone takes the TRANSPOSED frame, neither leaves `y` unbound. -/
theorem extract_model_is_source_transpose {α} [Field α] [LinearOrder α] [IsStrictOrderedRing α] (t : Tab α) (y : α)
    (P : Option α) :
    selectOf ExtractSpec.extractMain t (envTP (some y) P) = some (y, t) ∧
    selectOf ExtractSpec.extractMain t (envTP none (some y)) = some (y, t.transpose) ∧
    selectOf ExtractSpec.extractMain t (envTP (none : Option α) none) = none := by
  refine ⟨?_, ?_, ?_⟩ <;> simp [selectOf, envTP, ExtractSpec.extractMain]

/-- labelling by the OTHER coordinate: `x_array` is the column axis of the frame the row is taken from — the
pressures for `-T`, and (after the transposition) the temperatures for `-P`; the row is taken by position. -/
theorem extract_model_is_source_labels {α} [Field α] [LinearOrder α] [IsStrictOrderedRing α] (t : Tab α) (y : α)
    (labels row : List α) (h : pickOf ExtractSpec.extractMain t y = some (labels, row)) :
    labels = t.cols ∧ t.transpose.cols = t.rows ∧
      ∃ i, ExtractSpec.extractMain.yIndex.eval t y = some i ∧ t.vals[i]? = some row := by
  simp only [pickOf, ExtractSpec.extractMain, Option.bind_eq_bind, beq_self_eq_true, if_true, Option.bind_some] at h
  cases hi : (IExpr.argmin (AExpr.abs (AExpr.sub AExpr.index AExpr.y))).eval t y with
  | none => simp [hi] at h
  | some i =>
    simp only [hi, Option.bind_some] at h
    cases hr : t.vals[i]? with
    | none => simp [hr] at h
    | some r =>
      simp only [hr, Option.bind_some, Option.pure_def, Option.some.injEq, Prod.mk.injEq] at h
      exact ⟨h.1.symm, rfl, i, hi, by rw [← h.2]; exact hr⟩

/-- the per-table step and the whole command of the model are the interpretation of the source data -/
theorem extract_model_is_source_select {α} [Field α] [LinearOrder α] [IsStrictOrderedRing α] (t : Tab α)
    (T P : Option α) : selectRow t T P = selectRowOf ExtractSpec.extractMain t T P :=
  (selectRowOf_eq t T P).symm

theorem extract_model_is_source_table {α} [Field α] [LinearOrder α] [IsStrictOrderedRing α]
    (dir : List (String × Tab α)) (vars : List String) (T P : Option α) :
    extract dir vars T P = extractOf ExtractSpec.loadExtract ExtractSpec.extractMain dir vars T P :=
  (extractOf_eq dir vars T P).symm

/-- `load_data` of BOTH modules: `glob(f"{var}_tp_*")[0]` = the model's first match on the prefix `var ++ "_tp_"`,
read with white-space separator, first column as row labels, both label axes through `float`. -/
theorem extract_model_is_source_load {α} (dir : List (String × Tab α)) (var : String) :
    loadData dir var = loadOf ExtractSpec.loadExtract dir var ∧
    loadData dir var = loadOf ExtractSpec.loadGeotherm dir var ∧
    ExtractSpec.loadExtract.readsLabelledFloatTable = true ∧
    ExtractSpec.loadGeotherm.readsLabelledFloatTable = true :=
  ⟨(loadOf_eq_loadData _ rfl rfl dir var).symm, (loadOf_eq_loadData _ rfl rfl dir var).symm, by decide, by decide⟩

/-- no state between invocations: no parameter default of any function of the two modules is anything but a
constant (a mutable default would survive the call), nothing but imports / definitions / the `__main__` guard
stands at module level (nothing is executed at import, e.g. no global pandas option is set), and the only
decorators are click's. -/
theorem extract_model_is_source_stateless :
    noMutableDefault ExtractSpec.signatureDefaults = true ∧
    inertModule ExtractSpec.extractModuleStmts = true ∧ inertModule ExtractSpec.geothermModuleStmts = true ∧
    onlyClickDecorators ExtractSpec.decorators = true := by decide

/-- command-line declarations → keyword parameters; `-T` / `-P` arrive as floats; the separator of `-v` -/
theorem extract_model_is_source_options :
    optParam ExtractSpec.extractOptions "-T" = some "temperature" ∧
    optParam ExtractSpec.extractOptions "-P" = some "pressure" ∧
    optParam ExtractSpec.extractOptions "-v" = some "variables" ∧
    optType ExtractSpec.extractOptions "temperature" = some "click.FLOAT" ∧
    optType ExtractSpec.extractOptions "pressure" = some "click.FLOAT" ∧
    optDefault ExtractSpec.extractOptions "temperature" = none ∧
    optDefault ExtractSpec.extractOptions "pressure" = none ∧
    optParam ExtractSpec.geothermOptions "-g" = some "geotherm" ∧
    optParam ExtractSpec.geothermOptions "--t-col" = some "t_col" ∧
    optParam ExtractSpec.geothermOptions "--p-col" = some "p_col" ∧
    optParam ExtractSpec.geothermOptions "-v" = some "variables" ∧
    ExtractSpec.extractMain.splitSep = "," ∧ ExtractSpec.geothermMain.splitSep = "," := by decide

/-- the registered commands: `cij extract` is cij/cli/extract.py, `cij extract-geotherm` is cij/cli/geotherm.py,
and no command name is registered twice (a later registration would replace an earlier one). -/
theorem extract_model_is_source_registration :
    registeredModule ExtractSpec.registrations "extract" = some "cij.cli.extract" ∧
    registeredModule ExtractSpec.registrations "extract-geotherm" = some "cij.cli.geotherm" ∧
    (ExtractSpec.registrations.map (·.2)).Nodup := by decide

/-- argument wiring of the spline: `RectBivariateSpline(x = df.index, y = df.columns, z = df.to_numpy())` with no
keyword argument (default degrees 3 × 3, s = 0, no bounding box). -/
theorem extract_model_is_source_spline_wiring {α} (S : Spline α) (t : Tab α) :
    fitOf ExtractSpec.fitData S t = some (S t.rows t.cols t.vals) ∧ ExtractSpec.fitData.kw = [] :=
  ⟨fitOf_eq S t, rfl⟩

/-- one pass of the geotherm loop and the whole command, with explicit `--t-col`, `--p-col` and with click's
defaults (`--t-col` ↦ "P", `--p-col` ↦ "T" as the source declares them): the spline's first argument is the column
named by `--p-col`, the second the column named by `--t-col`, `grid=False`. -/
theorem extract_model_is_source_geotherm {α} (S : Spline α) (dir : List (String × Tab α)) (vars : List String)
    (geo : List (String × List α)) (tCol pCol : String) :
    (∀ table var, geothermStep S dir tCol pCol table var =
      geothermStepOf ExtractSpec.loadGeotherm ExtractSpec.fitData ExtractSpec.geothermMain S dir (colEnv tCol pCol) table var) ∧
    geotherm S dir vars geo tCol pCol =
      geothermOf ExtractSpec.loadGeotherm ExtractSpec.fitData ExtractSpec.geothermMain ExtractSpec.geothermOptions S dir vars geo
        (some tCol) (some pCol) ∧
    geotherm S dir vars geo =
      geothermOf ExtractSpec.loadGeotherm ExtractSpec.fitData ExtractSpec.geothermMain ExtractSpec.geothermOptions S dir vars geo :=
  ⟨fun table var => (geothermStepOf_eq S dir tCol pCol table var).symm, (geothermOf_eq S dir vars geo tCol pCol).symm,
    (geothermOf_defaults_eq S dir vars geo).symm⟩

/-- the geotherm file is read with its first line as header and no index column, and printed without an index:
with `table[var] = …` per variable (new column at the end, `geotherm_passthrough`) the geotherm's own columns pass
through and one column per variable is appended in order. -/
theorem extract_model_is_source_passthrough : ExtractSpec.geothermMain.passesColumnsThrough = true := by decide

/-! #### the spline between nodes: what the contracts give, and the 4×4 case in full -/

/-- the table holds the values of `f` at its labels -/
def SampledFrom {α} (tab : Tab α) (f : α → α → α) : Prop :=
  tab.vals = tab.rows.map fun x => tab.cols.map fun y => f x y

/-- (x, y) lies inside the tabulated window -/
def InWindow {α} [LE α] (tab : Tab α) (x y : α) : Prop :=
  (∃ a b, tab.rows.head? = some a ∧ tab.rows.getLast? = some b ∧ a ≤ x ∧ x ≤ b) ∧
  (∃ a b, tab.cols.head? = some a ∧ tab.cols.getLast? = some b ∧ a ≤ y ∧ y ≤ b)

/-- second contract of the spline on one table: polynomials of degree ≤ 3 in each variable are reproduced -/
def ReproducesBicubicsOn {α} [Field α] [LE α] (S : Spline α) (tab : Tab α) : Prop :=
  ∀ c : Fin 4 → Fin 4 → α, SampledFrom tab (bicubicPoly c) →
    ∀ x y, InWindow tab x y → S tab.rows tab.cols tab.vals x y = bicubicPoly c x y

/-- Any interpolant that reproduces bicubic polynomials reproduces them along EVERY geotherm inside the window:
if the table of variable v holds a polynomial `p_v` of degree ≤ 3 in T and in P, the value reported at geotherm row
r is `p_v(T_r, P_r)` exactly — on and between nodes, for any number of variables. -/
theorem geotherm_reproduces_bicubic {α} [Field α] [LinearOrder α] [IsStrictOrderedRing α] (S : Spline α)
    (dir : List (String × Tab α)) (vars : List String)
    (geo : List (String × List α)) (ts ps : List α) (tabs : String → Tab α) (c : String → Fin 4 → Fin 4 → α)
    (hT : dictGet geo "T" = some ts) (hP : dictGet geo "P" = some ps)
    (hload : ∀ v ∈ vars, loadData dir v = some (tabs v))
    (hnodup : vars.Nodup) (hfresh : ∀ v ∈ vars, v ∉ geo.map (·.1))
    (hS : ∀ v ∈ vars, ReproducesBicubicsOn S (tabs v))
    (hc : ∀ v ∈ vars, SampledFrom (tabs v) (bicubicPoly (c v)))
    (hin : ∀ v ∈ vars, ∀ (r : Nat) (t p : α), ts[r]? = some t → ps[r]? = some p → InWindow (tabs v) t p) :
    ∃ out, geotherm S dir vars geo = some out ∧
      ∀ v ∈ vars, ∃ col, dictGet out v = some col ∧
        ∀ (r : Nat) (t p : α), ts[r]? = some t → ps[r]? = some p → col[r]? = some (bicubicPoly (c v) t p) := by
  refine ⟨_, geotherm_spec S dir vars geo "P" "T" ts ps tabs hT hP hload hnodup hfresh, fun v hv => ?_⟩
  refine ⟨List.zipWith (S (tabs v).rows (tabs v).cols (tabs v).vals) ts ps, ?_, fun r t p htr hpr => ?_⟩
  · rw [dictGet_append_right _ _ _ (hfresh v hv)]
    exact dictGet_map_self vars (fun v => List.zipWith (S (tabs v).rows (tabs v).cols (tabs v).vals) ts ps) v hv
  · simp only [List.getElem?_zipWith, htr, hpr, Option.some.injEq]
    exact hS v hv (c v) (hc v hv) t p (hin v hv r t p htr hpr)

/-- 4×4 tables: the tensor-product Lagrange form `bicubic44` meets the interpolation contract … -/
theorem bicubic44_interpolates {α} [Field α] (X Y : Fin 4 → α) (Z : Fin 4 → Fin 4 → α)
    (hX : Function.Injective X) (hY : Function.Injective Y) : Interpolates bicubic44 (tab44 X Y Z) := by
  intro i j x y z hi hj hz
  have hi4 : i < 4 := by
    by_contra h; rw [List.getElem?_eq_none (by simp [tab44]; omega)] at hi; cases hi
  have hj4 : j < 4 := by
    by_contra h; rw [List.getElem?_eq_none (by simp [tab44]; omega)] at hj; cases hj
  have hx : x = X ⟨i, hi4⟩ := by
    interval_cases i <;> simp [tab44] at hi <;> exact hi.symm
  have hy : y = Y ⟨j, hj4⟩ := by
    interval_cases j <;> simp [tab44] at hj <;> exact hj.symm
  have hzz : z = Z ⟨i, hi4⟩ ⟨j, hj4⟩ := by
    interval_cases i <;> interval_cases j <;> simp [tab44] at hz <;> exact hz.symm
  rw [hx, hy, hzz]
  exact bicubic44_node X Y Z hX hY _ _

/-- … and the reproduction contract, at every (x, y) (not only inside the window). -/
theorem bicubic44_reproduces_bicubics {α} [Field α] [LE α] (X Y : Fin 4 → α) (Z : Fin 4 → Fin 4 → α)
    (hX : Function.Injective X) (hY : Function.Injective Y) : ReproducesBicubicsOn bicubic44 (tab44 X Y Z) := by
  intro c hc x y _
  have hZ : tab44 X Y Z = tab44 X Y fun i j => bicubicPoly c (X i) (Y j) := by
    simp only [SampledFrom, tab44, List.map_cons, List.map_nil] at hc
    simp only [tab44, hc]
  rw [hZ]
  exact bicubic44_reproduces X Y c hX hY x y

/-- The bicubic polynomial through a 4×4 grid of distinct nodes is UNIQUE (its 16 coefficients are determined), and
it is `bicubic44`: every polynomial of degree ≤ 3 in each variable that takes the table's values at the 16 nodes
equals the tensor Lagrange form everywhere.  For a 4×4 table the two contracts therefore leave no freedom: this IS
what `RectBivariateSpline` (one polynomial piece, no interior knot) returns. -/
theorem bicubic_through_4x4_unique {α} [Field α] (X Y : Fin 4 → α) (Z : Fin 4 → Fin 4 → α)
    (hX : Function.Injective X) (hY : Function.Injective Y) (c d : Fin 4 → Fin 4 → α)
    (hc : ∀ i j, bicubicPoly c (X i) (Y j) = Z i j) (hd : ∀ i j, bicubicPoly d (X i) (Y j) = Z i j) :
    c = d ∧ ∀ x y, bicubicPoly c x y = bicubic44 (tab44 X Y Z).rows (tab44 X Y Z).cols (tab44 X Y Z).vals x y := by
  refine ⟨bicubic_unique X Y c d hX hY fun i j => by rw [hc, hd], fun x y => ?_⟩
  have hZ : Z = fun i j => bicubicPoly c (X i) (Y j) := by funext i j; exact (hc i j).symm
  rw [hZ]
  exact (bicubic44_reproduces X Y c hX hY x y).symm

/-
  FULL STATEMENT not expressible in the model (kept as comment):
  theorem geotherm_between_nodes : for tables sampled from a smooth f on grids of mesh h, the value reported at
    an interior (P, T) tends to f(T, P) as h → 0.
  This is a property of scipy's bicubic RectBivariateSpline (FITPACK), outside cij.  Proved instead: exactness on
  tables of degree ≤ 3 (`geotherm_reproduces_bicubic`, from the contract) and the 4×4 case in full
  (`bicubic44_*`, `bicubic_through_4x4_unique`).  harness/c19.py measures the contract on the real command (bicubic
  tables reproduced to rounding on grids of every size ≥ 4×4) and the error at two/three resolutions of a smooth
  function (must shrink by ≥ 8 per halving of the spacing: fourth order).
-/

/-! #### non-vacuity: concrete instances -/

/-- exact node lookup: a spline satisfying `Interpolates` on tables with distinct labels (value 0 off-node) -/
def nodeSpline : Spline Rat := fun xs ys z x y =>
  match xs.findIdx? (· == x), ys.findIdx? (· == y) with
  | some i, some j => ((z[i]?).bind (·[j]?)).getD 0
  | _, _ => 0

def demoTab : Tab Rat := { rows := [0, 100, 200], cols := [0, 10], vals := [[1, 2], [3, 4], [5, 6]] }
def demoDir : List (String × Tab Rat) := [("bm_V_tp_gpa.txt", demoTab)]

-- nearest row, tie → first, beyond the grid → end point
example : argminAbs ([0, 100, 200] : List Rat) 149 = some 1 ∧ argminAbs ([0, 100, 200] : List Rat) 150 = some 1 ∧
    argminAbs ([0, 100, 200] : List Rat) 151 = some 2 ∧ argminAbs ([0, 100, 200] : List Rat) 1000 = some 2 ∧
    argminAbs ([0, 100, 200] : List Rat) (-5) = some 0 ∧ argminAbs ([] : List Rat) 1 = none := by
  decide +kernel
-- -T picks a row labelled by P; -P picks a column labelled by T
set_option synthInstance.maxSize 512 in
example : extract demoDir ["bm_V"] (some 120) none = some ([0, 10], [("bm_V", [some 3, some 4])]) ∧
    extract demoDir ["bm_V"] none (some 9) = some ([0, 100, 200], [("bm_V", [some 2, some 4, some 6])]) ∧
    extract demoDir ["bm_V"] none none = none ∧ extract demoDir ["bm_R"] (some 1) none = none := by
  decide +kernel
-- geotherm through the nodes (T,P) = (100,10), (200,0): entries (1,1) = 4 and (2,0) = 5 — not the transposed ones
example : geotherm nodeSpline demoDir ["bm_V"] [("P", [10, 0]), ("D", [7, 8]), ("T", [100, 200])] =
    some [("P", [10, 0]), ("D", [7, 8]), ("T", [100, 200]), ("bm_V", [4, 5])] := by
  decide +kernel
-- reading the option NAMES literally (--t-col T --p-col P) feeds P into the temperature axis: off-node here (0)
example : geotherm nodeSpline demoDir ["bm_V"] [("P", [10, 0]), ("T", [100, 200])] (tCol := "T") (pCol := "P") =
    some [("P", [10, 0]), ("T", [100, 200]), ("bm_V", [0, 0])] := by
  decide +kernel
example : Interpolates nodeSpline demoTab := by
  intro i j x y z hi hj hz
  have hi3 : i < 3 := by
    by_contra h; rw [List.getElem?_eq_none (by simp [demoTab]; omega)] at hi; cases hi
  have hj2 : j < 2 := by
    by_contra h; rw [List.getElem?_eq_none (by simp [demoTab]; omega)] at hj; cases hj
  interval_cases i <;> interval_cases j <;> simp [demoTab] at hi hj hz <;> subst hi hj hz <;> decide +kernel

-- the source-read expression tree, evaluated: nearest, tie → first, beyond the grid → end point, empty → none
example : ExtractSpec.extractMain.yIndex.eval ({ rows := [0, 100, 200], cols := [], vals := [] } : Tab Rat) 150 = some 1 ∧
    ExtractSpec.extractMain.yIndex.eval ({ rows := [0, 100, 200], cols := [], vals := [] } : Tab Rat) 151 = some 2 ∧
    ExtractSpec.extractMain.yIndex.eval ({ rows := [0, 100, 200], cols := [], vals := [] } : Tab Rat) 1000 = some 2 ∧
    ExtractSpec.extractMain.yIndex.eval ({ rows := [], cols := [1], vals := [] } : Tab Rat) 1 = none := by
  decide +kernel
-- a 4×4 table of p(x, y) = x³ − 2xy² + y + 3 on nodes 0,1,2,4 × 0,1,3,4: the spline of the model returns p off the nodes
-- (hypotheses of bicubic44_interpolates / _reproduces_bicubics / bicubic_through_4x4_unique are satisfiable)
def demoX : Fin 4 → Rat | 0 => 0 | 1 => 1 | 2 => 2 | 3 => 4
def demoY : Fin 4 → Rat | 0 => 0 | 1 => 1 | 2 => 3 | 3 => 4
def demoP (x y : Rat) : Rat := x * x * x - 2 * x * y * y + y + 3
example : bicubic44 (tab44 demoX demoY fun i j => demoP (demoX i) (demoY j)).rows
      (tab44 demoX demoY fun i j => demoP (demoX i) (demoY j)).cols
      (tab44 demoX demoY fun i j => demoP (demoX i) (demoY j)).vals (3 / 2) (5 / 2) = demoP (3 / 2) (5 / 2) := by
  decide +kernel
example : Function.Injective demoX ∧ Function.Injective demoY :=
  ⟨by intro a b; revert a b; decide +kernel, by intro a b; revert a b; decide +kernel⟩

end Cij.C19
