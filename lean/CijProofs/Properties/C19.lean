/-
  C19 — `cij extract` and `cij extract-geotherm` return table values faithfully.

  Statements are about `CijModel/Extract.lean` (the selection / wiring of cij/cli/extract.py and
  cij/cli/geotherm.py) over an arbitrary ordered field (ℝ, ℚ); file names are those of
  `Generated.writerRules` through `CijModel/Writer.lean`.

  Partial by design: `scipy.interpolate.RectBivariateSpline` is a parameter `S` with the interpolation contract
  `S x y z x_i y_j = z_ij`; CONVERGENCE of its values between nodes under grid refinement is not expressible here
  (`geotherm_between_nodes` below is a comment; the harness monitors the error at two resolutions).
  Printing (`DataFrame.to_string`) is outside the model (the harness parses the real stdout).
-/
import CijProofs.Lemmas.Extract

namespace Cij.C19

open Cij Cij.Writer Cij.Extract Generated

/-! #### nearest-index selection -/

/-- `numpy.argmin(|x − y|)`: the index returned is a nearest grid value, and the FIRST one on a tie. -/
theorem argmin_nearest {α} [Field α] [LinearOrder α] [IsStrictOrderedRing α] (xs : List α) (y : α) (i : Nat)
    (h : argminAbs xs y = some i) :
    ∃ xi, xs[i]? = some xi ∧ ∀ j xj, xs[j]? = some xj → |xi - y| ≤ |xj - y| ∧ (j < i → |xi - y| < |xj - y|) := by
  obtain ⟨v, hv, hall⟩ := argminFirst_spec _ _ h
  simp only [List.getElem?_map, Option.map_eq_some_iff] at hv
  obtain ⟨xi, hxi, rfl⟩ := hv
  refine ⟨xi, hxi, fun j xj hj => ?_⟩
  have := hall j (absv (xj - y)) (by simp [hj])
  simpa [absv_eq_abs] using this

/-- a non-empty axis always yields an index (requests beyond the grid select the end point, see examples) -/
theorem argmin_defined {α} [Field α] [LinearOrder α] [IsStrictOrderedRing α] (xs : List α) (y : α) (h : xs ≠ []) :
    (argminAbs xs y).isSome := by
  unfold argminAbs
  exact argminFirst_isSome _ (by simpa using h)

/-- a requested value that IS on the grid selects (the first occurrence of) itself -/
theorem argmin_on_grid {α} [Field α] [LinearOrder α] [IsStrictOrderedRing α] (xs : List α) (y : α) (i k : Nat)
    (h : argminAbs xs y = some i) (hk : xs[k]? = some y) : xs[i]? = some y := by
  obtain ⟨xi, hxi, hall⟩ := argmin_nearest xs y i h
  have := (hall k y hk).1
  simp only [sub_self, abs_zero, abs_nonpos_iff] at this
  rw [hxi, sub_eq_zero.1 this]

/-! #### extract: one variable -/

/-- `-T t`: the series extracted from a table is the row whose temperature is nearest to `t`, labelled by the
table's pressures.  (`-T` wins if `-P` is given too, as coded.) -/
theorem extract_row_T {α} [Field α] [LinearOrder α] [IsStrictOrderedRing α] (tab : Tab α) (t : α) (p : Option α)
    (labels values : List α) (h : selectRow tab (some t) p = some (labels, values)) :
    labels = tab.cols ∧
    ∃ i ti, tab.rows[i]? = some ti ∧ tab.vals[i]? = some values ∧
      ∀ (j : Nat) (tj : α), tab.rows[j]? = some tj → |ti - t| ≤ |tj - t| ∧ (j < i → |ti - t| < |tj - t|) := by
  simp only [selectRow, pick, Option.bind_eq_bind] at h
  cases hi : argminAbs tab.rows t with
  | none => simp [hi] at h
  | some i =>
    simp only [hi, Option.bind_some] at h
    cases hrow : tab.vals[i]? with
    | none => simp [hrow] at h
    | some row =>
      simp only [hrow, Option.bind_some, Option.pure_def, Option.some.injEq, Prod.mk.injEq] at h
      obtain ⟨rfl, rfl⟩ := h
      obtain ⟨ti, hti, hall⟩ := argmin_nearest tab.rows t i hi
      exact ⟨rfl, i, ti, hti, hrow, hall⟩

/-- `-P p`: the series is the COLUMN whose pressure is nearest to `p`, labelled by the table's temperatures
(the transpose is applied before the row selection). -/
theorem extract_row_P {α} [Field α] [LinearOrder α] [IsStrictOrderedRing α] (tab : Tab α) (p : α)
    (labels values : List α) (hrect : ∀ row ∈ tab.vals, row.length = tab.cols.length)
    (h : selectRow tab none (some p) = some (labels, values)) :
    labels = tab.rows ∧
    ∃ j pj, tab.cols[j]? = some pj ∧
      (∀ (k : Nat) (pk : α), tab.cols[k]? = some pk → |pj - p| ≤ |pk - p| ∧ (k < j → |pj - p| < |pk - p|)) ∧
      values.length = tab.vals.length ∧
      ∀ (i : Nat) (row : List α), tab.vals[i]? = some row → values[i]? = row[j]? := by
  simp only [selectRow, pick, Tab.transpose, Option.bind_eq_bind] at h
  cases hj : argminAbs tab.cols p with
  | none => simp [hj] at h
  | some j =>
    simp only [hj, Option.bind_some] at h
    obtain ⟨pj, hpj, hall⟩ := argmin_nearest tab.cols p j hj
    have hjlt : j < tab.cols.length := by
      by_contra hcon; rw [List.getElem?_eq_none (by omega)] at hpj; cases hpj
    simp only [List.getElem?_map, List.getElem?_range hjlt, Option.map_some, Option.bind_some,
      Option.pure_def, Option.some.injEq, Prod.mk.injEq] at h
    obtain ⟨rfl, rfl⟩ := h
    obtain ⟨c1, c2⟩ := column_spec tab.vals j (fun row hrow => by rw [hrect row hrow]; exact hjlt)
    exact ⟨rfl, j, pj, hpj, hall, c1, c2⟩

/-- neither `-T` nor `-P`: the command fails (UnboundLocalError in the code) -/
theorem extract_needs_T_or_P {α} [Field α] [LinearOrder α] [IsStrictOrderedRing α] (tab : Tab α) :
    selectRow tab none none = none := rfl

/-! #### extract: any number of variables -/

/-- The printed table: index = the shared other-axis labels, one column per requested variable, in the
requested order, each column being exactly the series selected from THAT variable's table. -/
theorem extract_columns {α} [Field α] [LinearOrder α] [IsStrictOrderedRing α]
    (dir : List (String × Tab α)) (vars : List String) (T P : Option α)
    (labels : List α) (series : String → List α)
    (hne : vars ≠ []) (hnodup : labels.Nodup)
    (hsel : ∀ v ∈ vars, (loadData dir v).bind (fun tab => selectRow tab T P) = some (labels, series v))
    (hlen : ∀ v ∈ vars, (series v).length = labels.length) :
    extract dir vars T P = some (labels, vars.map fun v => (v, (series v).map some)) := by
  unfold extract
  have hmap : (vars.map fun v => (loadData dir v).bind fun t => selectRow t T P) =
      (vars.map fun v => (labels, series v)).map some := by
    rw [List.map_map]; apply List.map_congr_left; intro v hv; simpa using hsel v hv
  have hmap' : (vars.map fun v => do let t ← loadData dir v; selectRow t T P) =
      (vars.map fun v => (labels, series v)).map some := hmap
  rw [hmap', optAll_map_some]
  have hlast : (vars.map fun v => (labels, series v)).getLast? =
      some (labels, series (vars.getLast hne)) := by
    rw [List.getLast?_map, List.getLast?_eq_getLast_of_ne_nil hne]; rfl
  simp only [Option.bind_eq_bind, Option.bind_some, hlast, Option.pure_def, Option.some.injEq, Prod.mk.injEq,
    true_and]
  rw [zip_map_self, List.map_map]
  apply List.map_congr_left
  intro v hv
  simp only [Function.comp]
  rw [align_self labels (series v) hnodup (hlen v hv)]

/-! #### variable ↦ file -/

/-- if exactly one file of the directory matches `"{var}_tp_*"`, that file is read — whatever the order in
which glob lists the directory -/
theorem load_unique {α} (dir : List (String × Tab α)) (var f : String) (tab : Tab α)
    (hmem : (f, tab) ∈ dir) (hmatch : globMatches var f = true)
    (huniq : ∀ e ∈ dir, globMatches var e.1 = true → e = (f, tab)) :
    loadData dir var = some tab := by
  unfold loadData
  cases hfind : dir.find? (fun e => globMatches var e.1) with
  | none =>
    rw [List.find?_eq_none] at hfind
    exact absurd hmatch (by simpa using hfind (f, tab) hmem)
  | some e =>
    have h1 := List.find?_some hfind
    have h2 := List.mem_of_find?_eq_some hfind
    rw [huniq e h2 h1]; rfl

/-- on the names the writer rules produce for the pressure base (10 + 2×21 files): a variable name — the part
of a file name before "_tp_", e.g. c11s, bm_VRH, v_p — matches its own file and no other, so `extract` never
reads a different variable's table (e.g. `v` does not pick up `v_p_tp_km_s.txt`, `bm_V` not `bm_VRH_…`). -/
theorem variable_selects_its_file :
    ∀ n₁ ∈ allFnames writerRules "tp", ∀ n₂ ∈ allFnames writerRules "tp",
      ∀ f₁, n₁ = some f₁ → ∀ f₂, n₂ = some f₂ →
        globMatches (stem f₁) f₁ = true ∧ (globMatches (stem f₁) f₂ = true → f₁ = f₂) := by
  decide +kernel

/-- the variable names users type are the documented stems -/
theorem documented_variable_names :
    stem "c11s_tp_gpa.txt" = "c11s" ∧ stem "c46t_tp_gpa.txt" = "c46t" ∧ stem "bm_VRH_tp_gpa.txt" = "bm_VRH" ∧
    stem "G_V_tp_gpa.txt" = "G_V" ∧ stem "v_p_tp_km_s.txt" = "v_p" ∧ stem "v_tp_ang3.txt" = "v" ∧
    (∀ p ∈ keys21, (do let r ← resolve "cij_s"; let f ← ijFname r "tp" (keyOfVoigt p); pure (stem f)) =
      some ("c" ++ toString p.1 ++ toString p.2 ++ "s")) := by
  decide +kernel

/-! #### extract-geotherm -/

/-- the interpolation contract of the spline on one table -/
def Interpolates {α} (S : Spline α) (tab : Tab α) : Prop :=
  ∀ (i j : Nat) (x y z : α), tab.rows[i]? = some x → tab.cols[j]? = some y → (tab.vals[i]?).bind (·[j]?) = some z →
    S tab.rows tab.cols tab.vals x y = z

/-- What the command computes, for any number of (distinct, fresh) variables and ANY spline: the geotherm's
own columns unchanged and in order, followed by one column per variable whose r-th entry is the spline of that
variable's table evaluated at (column named by `--p-col`, column named by `--t-col`) of geotherm row r. -/
theorem geotherm_spec {α} (S : Spline α) (dir : List (String × Tab α)) (vars : List String)
    (geo : List (String × List α)) (tCol pCol : String) (xs ys : List α) (tabs : String → Tab α)
    (hx : dictGet geo pCol = some xs) (hy : dictGet geo tCol = some ys)
    (hload : ∀ v ∈ vars, loadData dir v = some (tabs v))
    (hnodup : vars.Nodup) (hfresh : ∀ v ∈ vars, v ∉ geo.map (·.1)) :
    geotherm S dir vars geo tCol pCol =
      some (geo ++ vars.map fun v => (v, List.zipWith (S (tabs v).rows (tabs v).cols (tabs v).vals) xs ys)) := by
  unfold geotherm
  induction vars generalizing geo with
  | nil => simp
  | cons v vs ih =>
    have hv := hload v (by simp)
    have hnew : v ∉ geo.map (·.1) := hfresh v (by simp)
    simp only [List.foldlM_cons, geothermStep, hv, hx, hy, Option.bind_eq_bind, Option.bind_some,
      Option.pure_def, dictSet_new geo v _ hnew]
    rw [ih (geo ++ [(v, _)]) (dictGet_append_left _ _ _ _ hx) (dictGet_append_left _ _ _ _ hy)
      (fun w hw => hload w (by simp [hw])) (List.nodup_cons.1 hnodup).2
      (fun w hw => by
        simp only [List.map_append, List.map_cons, List.map_nil, List.mem_append, List.mem_singleton, not_or]
        exact ⟨hfresh w (by simp [hw]), fun e => (List.nodup_cons.1 hnodup).1 (e ▸ hw)⟩)]
    simp

/-- pass-through: every column of the geotherm file is in the output, unchanged, in the same position, with the
same rows in the same order. -/
theorem geotherm_passthrough {α} (S : Spline α) (dir : List (String × Tab α)) (vars : List String)
    (geo : List (String × List α)) (tCol pCol : String) (xs ys : List α) (tabs : String → Tab α)
    (hx : dictGet geo pCol = some xs) (hy : dictGet geo tCol = some ys)
    (hload : ∀ v ∈ vars, loadData dir v = some (tabs v))
    (hnodup : vars.Nodup) (hfresh : ∀ v ∈ vars, v ∉ geo.map (·.1)) :
    ∃ out, geotherm S dir vars geo tCol pCol = some out ∧ out.take geo.length = geo ∧
      out.length = geo.length + vars.length ∧ (out.drop geo.length).map (·.1) = vars := by
  refine ⟨_, geotherm_spec S dir vars geo tCol pCol xs ys tabs hx hy hload hnodup hfresh, ?_, ?_, ?_⟩
  · simp
  · simp
  · simp [Function.comp_def]

/-- grid node ⇒ table entry (default options `--t-col P --p-col T`, i.e. a geotherm file with columns named
T and P): if row r of the geotherm has T = the i-th tabulated temperature and P = the j-th tabulated pressure,
the value reported for variable v is entry (i, j) of v's table — NOT (j, i): temperature and pressure are not
transposed. -/
theorem geotherm_at_node {α} (S : Spline α) (dir : List (String × Tab α)) (vars : List String)
    (geo : List (String × List α)) (ts ps : List α) (tabs : String → Tab α)
    (hT : dictGet geo "T" = some ts) (hP : dictGet geo "P" = some ps)
    (hload : ∀ v ∈ vars, loadData dir v = some (tabs v))
    (hnodup : vars.Nodup) (hfresh : ∀ v ∈ vars, v ∉ geo.map (·.1))
    (hS : ∀ v ∈ vars, Interpolates S (tabs v)) :
    ∃ out, geotherm S dir vars geo = some out ∧
      ∀ v ∈ vars, ∃ col, dictGet out v = some col ∧
        ∀ (r i j : Nat) (t p z : α), ts[r]? = some t → ps[r]? = some p →
          (tabs v).rows[i]? = some t → (tabs v).cols[j]? = some p → ((tabs v).vals[i]?).bind (·[j]?) = some z →
          col[r]? = some z := by
  refine ⟨_, geotherm_spec S dir vars geo "P" "T" ts ps tabs hT hP hload hnodup hfresh, fun v hv => ?_⟩
  refine ⟨List.zipWith (S (tabs v).rows (tabs v).cols (tabs v).vals) ts ps, ?_,
    fun r i j t p z htr hpr hi hj hz => ?_⟩
  · rw [dictGet_append_right _ _ _ (hfresh v hv)]
    exact dictGet_map_self vars (fun v => List.zipWith (S (tabs v).rows (tabs v).cols (tabs v).vals) ts ps) v hv
  · simp only [List.getElem?_zipWith, htr, hpr, Option.some.injEq]
    exact hS v hv i j t p z hi hj hz

/-- explicitly named columns: the column given to `--t-col` feeds the PRESSURE axis of the table and the one
given to `--p-col` the TEMPERATURE axis — as the help strings say ("--t-col: name of geotherm pressure column"),
contrary to what the option names suggest. -/
theorem geotherm_named_columns {α} (S : Spline α) (dir : List (String × Tab α)) (var : String)
    (geo : List (String × List α)) (tempName presName : String) (ts ps : List α) (tab : Tab α)
    (hT : dictGet geo tempName = some ts) (hP : dictGet geo presName = some ps)
    (hload : loadData dir var = some tab) (hfresh : var ∉ geo.map (·.1)) :
    geotherm S dir [var] geo (tCol := presName) (pCol := tempName) =
      some (geo ++ [(var, List.zipWith (S tab.rows tab.cols tab.vals) ts ps)]) ∧
    geotherm S dir [var] geo (tCol := tempName) (pCol := presName) =
      some (geo ++ [(var, List.zipWith (S tab.rows tab.cols tab.vals) ps ts)]) := by
  constructor
  · have := geotherm_spec S dir [var] geo presName tempName ts ps (fun _ => tab) hT hP
      (fun v hv => by rw [List.mem_singleton.1 hv]; exact hload) (by simp)
      (fun v hv => by rw [List.mem_singleton.1 hv]; exact hfresh)
    simpa using this
  · have := geotherm_spec S dir [var] geo tempName presName ps ts (fun _ => tab) hP hT
      (fun v hv => by rw [List.mem_singleton.1 hv]; exact hload) (by simp)
      (fun v hv => by rw [List.mem_singleton.1 hv]; exact hfresh)
    simpa using this

/-
  FULL STATEMENT not expressible in the model (kept as comment):
  theorem geotherm_between_nodes : for tables sampled from a smooth f on grids of mesh h, the value reported at
    an interior (P, T) tends to f(T, P) as h → 0.
  This is a property of scipy's bicubic RectBivariateSpline (FITPACK), outside cij; harness/c19.py measures the
  error at two resolutions and requires it to shrink.
-/

/-! #### non-vacuity: concrete instances -/

/-- exact node lookup: a spline satisfying `Interpolates` on tables with distinct labels (value 0 off-node) -/
def nodeSpline : Spline Rat := fun xs ys z x y =>
  match xs.findIdx? (· == x), ys.findIdx? (· == y) with
  | some i, some j => ((z[i]?).bind (·[j]?)).getD 0
  | _, _ => 0

def demoTab : Tab Rat := { rows := [0, 100, 200], cols := [0, 10], vals := [[1, 2], [3, 4], [5, 6]] }
def demoDir : List (String × Tab Rat) := [("bm_V_tp_gpa.txt", demoTab)]

-- nearest row, tie → first, beyond the grid → end point
example : argminAbs ([0, 100, 200] : List Rat) 149 = some 1 ∧ argminAbs ([0, 100, 200] : List Rat) 150 = some 1 ∧
    argminAbs ([0, 100, 200] : List Rat) 151 = some 2 ∧ argminAbs ([0, 100, 200] : List Rat) 1000 = some 2 ∧
    argminAbs ([0, 100, 200] : List Rat) (-5) = some 0 ∧ argminAbs ([] : List Rat) 1 = none := by
  decide +kernel
-- -T picks a row labelled by P; -P picks a column labelled by T
set_option synthInstance.maxSize 512 in
example : extract demoDir ["bm_V"] (some 120) none = some ([0, 10], [("bm_V", [some 3, some 4])]) ∧
    extract demoDir ["bm_V"] none (some 9) = some ([0, 100, 200], [("bm_V", [some 2, some 4, some 6])]) ∧
    extract demoDir ["bm_V"] none none = none ∧ extract demoDir ["bm_R"] (some 1) none = none := by
  decide +kernel
-- geotherm through the nodes (T,P) = (100,10), (200,0): entries (1,1) = 4 and (2,0) = 5 — not the transposed ones
example : geotherm nodeSpline demoDir ["bm_V"] [("P", [10, 0]), ("D", [7, 8]), ("T", [100, 200])] =
    some [("P", [10, 0]), ("D", [7, 8]), ("T", [100, 200]), ("bm_V", [4, 5])] := by
  decide +kernel
-- reading the option NAMES literally (--t-col T --p-col P) feeds P into the temperature axis: off-node here (0)
example : geotherm nodeSpline demoDir ["bm_V"] [("P", [10, 0]), ("T", [100, 200])] (tCol := "T") (pCol := "P") =
    some [("P", [10, 0]), ("T", [100, 200]), ("bm_V", [0, 0])] := by
  decide +kernel
example : Interpolates nodeSpline demoTab := by
  intro i j x y z hi hj hz
  have hi3 : i < 3 := by
    by_contra h; rw [List.getElem?_eq_none (by simp [demoTab]; omega)] at hi; cases hi
  have hj2 : j < 2 := by
    by_contra h; rw [List.getElem?_eq_none (by simp [demoTab]; omega)] at hj; cases hj
  interval_cases i <;> interval_cases j <;> simp [demoTab] at hi hj hz <;> subst hi hj hz <;> decide +kernel

end Cij.C19
