/-
  C03 — shear components obtained by strain-energy rotation are exact tensor algebra.

  Everything below is about `CijModel/Shear.lean` (the functions the driver runs at `Float` against the real
  `ShearElasticModulusPhononContribution`).  `numpy.linalg.eigh` is the parameter `(T, lam)` with the contract
  `Contract T lam e` (`TᵀT = 1`, `Tᵀ e T = diag lam`); `numpy.isclose(·, 0)` is the parameter `isZero` with the
  contract `isZero x = true ↔ x = 0`.  The theorems hold for EVERY decomposition meeting the contract, hence for
  any sign / order / choice inside a degenerate eigenspace.
-/
import CijProofs.Lemmas.Shear
import CijProofs.Lemmas.ShearSource
import Mathlib.Analysis.Real.Sqrt

namespace Cij.C03
open Cij Cij.Shear

/-! #### the strain energy of a symmetric strain does not depend on the frame (any commutative ring) -/

/-- `Σ_ijkl C_ijkl e_ij e_kl = Σ_ab C'_aabb λ_a λ_b` for `C' = rotate T C`, `T` orthogonal and diagonalising `e`.
No symmetry of `C` is needed. -/
theorem energy_invariant {R : Type} [CommRing R] (T : Mat3 R) (lam : Vec3 R) (e : Mat3 R) (h : Contract T lam e)
    (C : Fin 3 → Fin 3 → Fin 3 → Fin 3 → R) :
    (sum3 fun i => sum3 fun j => sum3 fun k => sum3 fun l => C i j k l * e i j * e k l) =
    sum3 fun a => sum3 fun b => rotate T C a a b b * lam a * lam b :=
  energy_invariant_model h C

/-! #### exactness: for each of the 15 shear keys the solver returns the component itself -/

/-- Field of characteristic 0 (so also `ℝ`), every symmetric tensor `c` (21 values), every shear key, every
eigen-decomposition meeting the contract, and ANY dictionaries that agree with the exact tensor on the keys the class
asks for (`modulus` on `get_modulus_keys()`, `modulus_rotated` on `get_modulus_keys_rotated()`): the value is `c key`. -/
theorem c03_exact {R : Type} [Field R] [CharZero R] (isZero : R → Bool) (hz : ∀ x, isZero x = true ↔ x = 0)
    (key : Modulus) (hk : key ∈ shearKeys) (c : Modulus → R) (T : Mat3 R) (lam : Vec3 R)
    (h : Contract T lam (fictitiousStrain key))
    (modulus modulusRotated : Modulus → R)
    (hm : ∀ k ∈ modulusKeys isZero key, modulus k = c k)
    (hr : ∀ k ∈ modulusKeysRotated isZero lam, modulusRotated k = rotatedLookup T c k) :
    shearValue isZero key lam modulus modulusRotated = c key := by
  have := shearValue_exact isZero hz key hk c T lam h
  unfold shearValue at this ⊢
  rw [strainEnergy_congr isZero (diagMat lam) none modulusRotated (rotatedLookup T c) hr,
    strainEnergy_congr isZero (fictitiousStrain key) (some key) modulus c hm]
  exact this

/-- the same over `ℝ`, the instance named in the property -/
theorem c03_exact_real (isZero : ℝ → Bool) (hz : ∀ x, isZero x = true ↔ x = 0)
    (key : Modulus) (hk : key ∈ shearKeys) (c : Modulus → ℝ) (T : Mat3 ℝ) (lam : Vec3 ℝ)
    (h : Contract T lam (fictitiousStrain key)) :
    shearValue isZero key lam c (rotatedLookup T c) = c key :=
  c03_exact isZero hz key hk c T lam h c (rotatedLookup T c) (fun _ _ => rfl) (fun _ _ => rfl)

/-- the shear keys are exactly the 15 keys carrying a Voigt index 4–6 -/
theorem c03_shear_keys : shearKeys.length = 15 ∧ shearKeys.Nodup ∧
    ∀ p ∈ keys21, (keyOfVoigt p ∈ shearKeys ↔ 4 ≤ p.2) := by
  decide +kernel

/-! #### the requested keys -/

/-- the original-frame keys never contain the target — for every scalar type and every zero test (so also for the
`Float` instance the driver runs) -/
theorem c03_no_self_dependency {α : Type} [NatCast α] (isZero : α → Bool) (key : Modulus) :
    key ∉ modulusKeys isZero key := by
  intro hmem
  unfold modulusKeys energyKeys energyPairs at hmem
  obtain ⟨pq, hpq, hkey⟩ := List.mem_map.mp hmem
  have := (List.mem_filter.mp hpq).2
  simp [hkey] at this

/-- the original-frame keys, as pure combinatorics of the key (no scalar involved): the components `c_(ijkl)` with
`e_ij = e_kl = 1` other than the target -/
theorem c03_requested_keys {R : Type} [Field R] (isZero : R → Bool) (hz : ∀ x, isZero x = true ↔ x = 0)
    (key : Modulus) : modulusKeys isZero key = (origPairs key).map keyOfPairs := by
  have h0 : isZero (0 : R) = true := (hz 0).2 rfl
  have h1 : isZero (1 : R) = false := by
    cases hh : isZero (1 : R)
    · rfl
    · exact absurd ((hz 1).1 hh) one_ne_zero
  unfold modulusKeys energyKeys
  rw [energyPairs_fict isZero h0 h1]

/-- what the 15 keys ask for in the original frame: the longitudinal partner (if any) and the pure-shear diagonal
components; exactly `multiplicity` loop iterations are skipped as "target" -/
theorem c03_requested_keys_table : ∀ key ∈ shearKeys,
    key ∉ (origPairs key).map keyOfPairs ∧
    (targetPairs key).length = key.multiplicity ∧
    (origPairs key).length + key.multiplicity = (maskPairs key).length * (maskPairs key).length ∧
    ∀ k ∈ (origPairs key).map keyOfPairs, k.isLongitudinal = true ∨ (k.isShear = true ∧ k.i = k.j) := by
  decide +kernel

/-- the rotated-frame keys are longitudinal or off-diagonal only, for every spectrum -/
theorem c03_rotated_keys_nonshear {R : Type} [Field R] (isZero : R → Bool) (hz : ∀ x, isZero x = true ↔ x = 0)
    (lam : Vec3 R) : ∀ k ∈ modulusKeysRotated isZero lam, k.isShear = false := by
  intro k hk
  have h0 : isZero (0 : R) = true := (hz 0).2 rfl
  unfold modulusKeysRotated energyKeys energyPairs at hk
  rw [nzPairs_diag isZero h0] at hk
  obtain ⟨pq, hpq, rfl⟩ := List.mem_map.mp hk
  have hm := mem_product.mp (List.mem_filter.mp hpq).1
  obtain ⟨a, _, ha⟩ := List.mem_map.mp hm.1
  obtain ⟨b, _, hb⟩ := List.mem_map.mp hm.2
  obtain ⟨p, q⟩ := pq
  simp only at ha hb
  subst ha; subst hb
  exact key4_diag_nonshear a b

/-! #### the axial strain fractions of the rotated frame -/

/-- `strain_rotated` is the diagonal of the rotated diagonal strain: `(Tᵀ diag(s) T)_aa = Σ_i T_ia² s_i` -/
theorem c03_strain_rotated {R : Type} [CommRing R] (T : Mat3 R) (s : Vec3 R) (a : Fin 3) :
    strainRotated T s a = sum3 fun i => T i a * T i a * s i := by
  simp only [strainRotated, sum3]
  simp
  ring

/-- the trace is preserved -/
theorem c03_strain_rotated_trace {R : Type} [CommRing R] (T : Mat3 R) (lam : Vec3 R) (e : Mat3 R)
    (h : Contract T lam e) (s : Vec3 R) : sum3 (strainRotated T s) = sum3 s := by
  have r0 := h.rows 0 0
  have r1 := h.rows 1 1
  have r2 := h.rows 2 2
  simp only [Fin.sum_univ_three, if_true] at r0 r1 r2
  simp only [c03_strain_rotated, sum3]
  linear_combination (s 0) * r0 + (s 1) * r1 + (s 2) * r2

/-- independent of the sign of the eigenvectors -/
theorem c03_strain_rotated_sign {R : Type} [CommRing R] (T : Mat3 R) (σ : Vec3 R) (hσ : ∀ a, σ a * σ a = 1)
    (s : Vec3 R) : strainRotated (fun i a => T i a * σ a) s = strainRotated T s := by
  funext a
  simp only [c03_strain_rotated, sum3]
  have := hσ a
  linear_combination (T 0 a * T 0 a * s 0 + T 1 a * T 1 a * s 1 + T 2 a * T 2 a * s 2) * this

/-- permuted together with the eigenvectors -/
theorem c03_strain_rotated_perm {R : Type} [CommRing R] (T : Mat3 R) (π : Fin 3 → Fin 3) (s : Vec3 R) (a : Fin 3) :
    strainRotated (fun i a => T i (π a)) s a = strainRotated T s (π a) := by
  simp only [c03_strain_rotated]

/-- a sign-flipped decomposition still meets the contract … -/
theorem c03_contract_sign {R : Type} [CommRing R] (T : Mat3 R) (lam : Vec3 R) (e : Mat3 R) (h : Contract T lam e)
    (σ : Vec3 R) (hσ : ∀ a, σ a * σ a = 1) : Contract (fun i a => T i a * σ a) lam e := by
  constructor
  · intro a b
    have := h.orth a b
    simp only [sum3] at this ⊢
    by_cases hab : a = b
    · subst hab
      simp only [if_true] at this ⊢
      have hs := hσ a
      linear_combination (σ a * σ a) * this + (1 : R) * hs
    · simp only [if_neg hab] at this ⊢
      linear_combination (σ a * σ b) * this
  · intro a b
    have := h.diag a b
    simp only [sum3] at this ⊢
    by_cases hab : a = b
    · subst hab
      simp only [if_true] at this ⊢
      have hs := hσ a
      linear_combination (σ a * σ a) * this + (lam a) * hs
    · simp only [if_neg hab] at this ⊢
      linear_combination (σ a * σ b) * this

/-- … and so does a column-permuted one (with the eigenvalues permuted alike) -/
theorem c03_contract_perm {R : Type} [CommRing R] (T : Mat3 R) (lam : Vec3 R) (e : Mat3 R) (h : Contract T lam e)
    (π : Fin 3 → Fin 3) (hπ : Function.Injective π) : Contract (fun i a => T i (π a)) (fun a => lam (π a)) e := by
  constructor
  · intro a b
    have := h.orth (π a) (π b)
    by_cases hab : a = b
    · subst hab; simpa using this
    · have : π a ≠ π b := fun hh => hab (hπ hh)
      simp_all
  · intro a b
    have := h.diag (π a) (π b)
    by_cases hab : a = b
    · subst hab; simpa using this
    · have : π a ≠ π b := fun hh => hab (hπ hh)
      simp_all

/-- hence the result does not depend on which valid eigen-decomposition is used (sign, order, or the choice of a basis
inside a degenerate eigenspace), when each is given the exact rotated components of ITS frame -/
theorem c03_basis_independent {R : Type} [Field R] [CharZero R] (isZero : R → Bool) (hz : ∀ x, isZero x = true ↔ x = 0)
    (key : Modulus) (hk : key ∈ shearKeys) (c : Modulus → R) (T T' : Mat3 R) (lam lam' : Vec3 R)
    (h : Contract T lam (fictitiousStrain key)) (h' : Contract T' lam' (fictitiousStrain key)) :
    shearValue isZero key lam c (rotatedLookup T c) = shearValue isZero key lam' c (rotatedLookup T' c) := by
  rw [shearValue_exact isZero hz key hk c T lam h, shearValue_exact isZero hz key hk c T' lam' h']

/-! #### non-vacuity: concrete instances of the hypotheses -/

/-- the contract is met over `ℝ` for c44 by the frame numpy returns (up to sign): spectrum (−1, 0, 1),
`T = [[0,1,0],[−s,0,s],[s,0,s]]`, `s = √2/2` -/
example : ∃ (T : Mat3 ℝ) (lam : Vec3 ℝ), Contract T lam (fictitiousStrain (keyOfVoigt (4, 4))) ∧
    lam 0 = -1 ∧ lam 1 = 0 ∧ lam 2 = 1 := by
  have hs : (Real.sqrt 2 / 2) * (Real.sqrt 2 / 2) = 1 / 2 := by
    have := Real.mul_self_sqrt (show (0 : ℝ) ≤ 2 by norm_num)
    nlinarith
  refine ⟨fun i a => ![![0, 1, 0], ![-(Real.sqrt 2 / 2), 0, Real.sqrt 2 / 2], ![Real.sqrt 2 / 2, 0, Real.sqrt 2 / 2]] i a,
    fun a => ![-1, 0, 1] a, ⟨?_, ?_⟩, by simp, by simp, by simp⟩
  · intro a b
    fin_cases a <;> fin_cases b <;> simp [sum3] <;> nlinarith [hs]
  · have hf : ∀ i j : Fin 3, fictitiousStrain (α := ℝ) (keyOfVoigt (4, 4)) i j =
        ![![0, 0, 0], ![0, 0, 1], ![0, 1, 0]] i j := by
      intro i j
      have hmask : ∀ i j : Fin 3, fictitiousMask (keyOfVoigt (4, 4)) i j =
          ![![false, false, false], ![false, false, true], ![false, true, false]] i j := by decide +kernel
      unfold fictitiousStrain
      rw [hmask]
      fin_cases i <;> fin_cases j <;> simp
    intro a b
    simp only [hf]
    fin_cases a <;> fin_cases b <;> simp [sum3] <;> nlinarith [hs]

/-- a zero test meeting its contract exists -/
example : ∃ isZero : ℝ → Bool, ∀ x, isZero x = true ↔ x = 0 := by
  classical
  exact ⟨fun x => decide (x = 0), fun x => by simp⟩

/-- c44 asks for nothing in the original frame and for c'11, c'13, c'13, c'33 in the rotated one (spectrum −1,0,1);
c14 asks for c11 once and c44 four times; c45 for c44 and c55 four times each -/
example : (origPairs (keyOfVoigt (4, 4))).map keyOfPairs = [] ∧
    ((origPairs (keyOfVoigt (1, 4))).map keyOfPairs).map Modulus.voigt =
      [some (1, 1), some (4, 4), some (4, 4), some (4, 4), some (4, 4)] ∧
    ((origPairs (keyOfVoigt (4, 5))).map keyOfPairs).length = 8 ∧
    (modulusKeysRotated (α := ℚ) (fun x => decide (x = 0)) (fun a => ![-1, 0, 1] a)).map Modulus.voigt =
      [some (1, 1), some (1, 3), some (1, 3), some (3, 3)] := by
  decide +kernel

/-! #### the model IS the source: formulas and loop structure re-extracted from shear.py on this run

`tools/gen_tables.py` extracts the term accumulated into `_energy`, the value returned by
`get_target_elastic_modulus` (locals inlined) and checks the loop structure (`itertools.product(nz, nz)`, key
`c_(i+1, j+1, k+1, l+1)`, skip condition `target and key == target`) of both strain-energy functions.  The model's
`strainEnergy` fold and `targetModulus` are definitionally those expressions for every scalar type. -/

theorem c03_model_is_source {α : Type} [Add α] [Sub α] [Mul α] [Div α] [NatCast α]
    (isZero : α → Bool) (e : Shear.Mat3 α) (resolve : Modulus → α) (target : Option Modulus) (key : Modulus) (eRot eOrig : α) :
    Shear.strainEnergy isZero e resolve target =
      (Shear.energyPairs isZero e target).foldl
        (fun acc pq => acc + ShExpr.eval (ShExpr.envOf (resolve (Shear.keyOfPairs pq)) (e pq.1.1 pq.1.2) (e pq.2.1 pq.2.2) acc acc acc)
          Generated.shearEnergyTerm) ((0 : Nat) : α) ∧
    Shear.targetModulus key e eRot eOrig =
      ShExpr.eval (ShExpr.envOf eRot (e (Shear.idx key.i.i) (Shear.idx key.i.j)) (e (Shear.idx key.j.i) (Shear.idx key.j.j)) eRot eOrig
        ((key.multiplicity : Nat) : α)) Generated.shearTarget :=
  ⟨ShExpr.energy_term_is_source isZero e resolve target, ShExpr.target_is_source key e eRot eOrig⟩

end Cij.C03
