/-
  C03 — shear components obtained by strain-energy rotation are exact tensor algebra.

  Everything below is about `CijModel/Shear.lean` (the functions the driver runs at `Float` against the real
  `ShearElasticModulusPhononContribution`).  `numpy.linalg.eigh` is the parameter `(T, lam)` with the contract
  `Contract T lam e` (`TᵀT = 1`, `Tᵀ e T = diag lam`); `numpy.isclose(·, 0)` is the parameter `isZero` with the
  contract `isZero x = true ↔ x = 0`.  The theorems hold for EVERY decomposition meeting the contract, hence for
  any sign / order / choice inside a degenerate eigenspace.
-/
import CijProofs.Lemmas.Shear
import CijProofs.Lemmas.ShearSource
import CijProofs.Lemmas.ShearGlueSource
import Mathlib.Analysis.Real.Sqrt

namespace Cij.C03
open Cij Cij.Shear

/-! #### the strain energy of a symmetric strain does not depend on the frame (any commutative ring) -/

/-- `Σ_ijkl C_ijkl e_ij e_kl = Σ_ab C'_aabb λ_a λ_b` for `C' = rotate T C`, `T` orthogonal and diagonalising `e`.
No symmetry of `C` is needed. -/
theorem energy_invariant {R : Type} [CommRing R] (T : Mat3 R) (lam : Vec3 R) (e : Mat3 R) (h : Contract T lam e)
    (C : Fin 3 → Fin 3 → Fin 3 → Fin 3 → R) :
    (sum3 fun i => sum3 fun j => sum3 fun k => sum3 fun l => C i j k l * e i j * e k l) =
    sum3 fun a => sum3 fun b => rotate T C a a b b * lam a * lam b :=
  energy_invariant_model h C

/-! #### exactness: for each of the 15 shear keys the solver returns the component itself -/

/-- (model form; `c03_exact` below states the same about the pieces translated from shear.py on this run)
Field of characteristic 0 (so also `ℝ`), every symmetric tensor `c` (21 values), every shear key, every
eigen-decomposition meeting the contract, and ANY dictionaries that agree with the exact tensor on the keys the class
asks for (`modulus` on `get_modulus_keys()`, `modulus_rotated` on `get_modulus_keys_rotated()`): the value is `c key`. -/
theorem c03_exact_model {R : Type} [Field R] [CharZero R] (isZero : R → Bool) (hz : ∀ x, isZero x = true ↔ x = 0)
    (key : Modulus) (hk : key ∈ shearKeys) (c : Modulus → R) (T : Mat3 R) (lam : Vec3 R)
    (h : Contract T lam (fictitiousStrain key))
    (modulus modulusRotated : Modulus → R)
    (hm : ∀ k ∈ modulusKeys isZero key, modulus k = c k)
    (hr : ∀ k ∈ modulusKeysRotated isZero lam, modulusRotated k = rotatedLookup T c k) :
    shearValue isZero key lam modulus modulusRotated = c key := by
  have := shearValue_exact isZero hz key hk c T lam h
  unfold shearValue at this ⊢
  rw [strainEnergy_congr isZero (diagMat lam) none modulusRotated (rotatedLookup T c) hr,
    strainEnergy_congr isZero (fictitiousStrain key) (some key) modulus c hm]
  exact this

/-- the same over `ℝ`, the instance named in the property -/
theorem c03_exact_real (isZero : ℝ → Bool) (hz : ∀ x, isZero x = true ↔ x = 0)
    (key : Modulus) (hk : key ∈ shearKeys) (c : Modulus → ℝ) (T : Mat3 ℝ) (lam : Vec3 ℝ)
    (h : Contract T lam (fictitiousStrain key)) :
    shearValue isZero key lam c (rotatedLookup T c) = c key :=
  c03_exact_model isZero hz key hk c T lam h c (rotatedLookup T c) (fun _ _ => rfl) (fun _ _ => rfl)

/-- the shear keys are exactly the 15 keys carrying a Voigt index 4–6 -/
theorem c03_shear_keys : shearKeys.length = 15 ∧ shearKeys.Nodup ∧
    ∀ p ∈ keys21, (keyOfVoigt p ∈ shearKeys ↔ 4 ≤ p.2) := by
  decide +kernel

/-! #### the requested keys -/

/-- the original-frame keys never contain the target — for every scalar type and every zero test (so also for the
`Float` instance the driver runs) -/
theorem c03_no_self_dependency {α : Type} [NatCast α] (isZero : α → Bool) (key : Modulus) :
    key ∉ modulusKeys isZero key := by
  intro hmem
  unfold modulusKeys energyKeys energyPairs at hmem
  obtain ⟨pq, hpq, hkey⟩ := List.mem_map.mp hmem
  have := (List.mem_filter.mp hpq).2
  simp [hkey] at this

/-- the original-frame keys, as pure combinatorics of the key (no scalar involved): the components `c_(ijkl)` with
`e_ij = e_kl = 1` other than the target -/
theorem c03_requested_keys {R : Type} [Field R] (isZero : R → Bool) (hz : ∀ x, isZero x = true ↔ x = 0)
    (key : Modulus) : modulusKeys isZero key = (origPairs key).map keyOfPairs := by
  have h0 : isZero (0 : R) = true := (hz 0).2 rfl
  have h1 : isZero (1 : R) = false := by
    cases hh : isZero (1 : R)
    · rfl
    · exact absurd ((hz 1).1 hh) one_ne_zero
  unfold modulusKeys energyKeys
  rw [energyPairs_fict isZero h0 h1]

/-- what the 15 keys ask for in the original frame: the longitudinal partner (if any) and the pure-shear diagonal
components; exactly `multiplicity` loop iterations are skipped as "target" -/
theorem c03_requested_keys_table : ∀ key ∈ shearKeys,
    key ∉ (origPairs key).map keyOfPairs ∧
    (targetPairs key).length = key.multiplicity ∧
    (origPairs key).length + key.multiplicity = (maskPairs key).length * (maskPairs key).length ∧
    ∀ k ∈ (origPairs key).map keyOfPairs, k.isLongitudinal = true ∨ (k.isShear = true ∧ k.i = k.j) := by
  decide +kernel

/-- the rotated-frame keys are longitudinal or off-diagonal only, for every spectrum -/
theorem c03_rotated_keys_nonshear {R : Type} [Field R] (isZero : R → Bool) (hz : ∀ x, isZero x = true ↔ x = 0)
    (lam : Vec3 R) : ∀ k ∈ modulusKeysRotated isZero lam, k.isShear = false := by
  intro k hk
  have h0 : isZero (0 : R) = true := (hz 0).2 rfl
  unfold modulusKeysRotated energyKeys energyPairs at hk
  rw [nzPairs_diag isZero h0] at hk
  obtain ⟨pq, hpq, rfl⟩ := List.mem_map.mp hk
  have hm := mem_product.mp (List.mem_filter.mp hpq).1
  obtain ⟨a, _, ha⟩ := List.mem_map.mp hm.1
  obtain ⟨b, _, hb⟩ := List.mem_map.mp hm.2
  obtain ⟨p, q⟩ := pq
  simp only at ha hb
  subst ha; subst hb
  exact key4_diag_nonshear a b

/-! #### the axial strain fractions of the rotated frame -/

/-- `strain_rotated` is the diagonal of the rotated diagonal strain: `(Tᵀ diag(s) T)_aa = Σ_i T_ia² s_i` -/
theorem c03_strain_rotated {R : Type} [CommRing R] (T : Mat3 R) (s : Vec3 R) (a : Fin 3) :
    strainRotated T s a = sum3 fun i => T i a * T i a * s i := by
  simp only [strainRotated, sum3]
  simp
  ring

/-- the trace is preserved -/
theorem c03_strain_rotated_trace {R : Type} [CommRing R] (T : Mat3 R) (lam : Vec3 R) (e : Mat3 R)
    (h : Contract T lam e) (s : Vec3 R) : sum3 (strainRotated T s) = sum3 s := by
  have r0 := h.rows 0 0
  have r1 := h.rows 1 1
  have r2 := h.rows 2 2
  simp only [Fin.sum_univ_three, if_true] at r0 r1 r2
  simp only [c03_strain_rotated, sum3]
  linear_combination (s 0) * r0 + (s 1) * r1 + (s 2) * r2

/-- independent of the sign of the eigenvectors -/
theorem c03_strain_rotated_sign {R : Type} [CommRing R] (T : Mat3 R) (σ : Vec3 R) (hσ : ∀ a, σ a * σ a = 1)
    (s : Vec3 R) : strainRotated (fun i a => T i a * σ a) s = strainRotated T s := by
  funext a
  simp only [c03_strain_rotated, sum3]
  have := hσ a
  linear_combination (T 0 a * T 0 a * s 0 + T 1 a * T 1 a * s 1 + T 2 a * T 2 a * s 2) * this

/-- permuted together with the eigenvectors -/
theorem c03_strain_rotated_perm {R : Type} [CommRing R] (T : Mat3 R) (π : Fin 3 → Fin 3) (s : Vec3 R) (a : Fin 3) :
    strainRotated (fun i a => T i (π a)) s a = strainRotated T s (π a) := by
  simp only [c03_strain_rotated]

/-- a sign-flipped decomposition still meets the contract … -/
theorem c03_contract_sign {R : Type} [CommRing R] (T : Mat3 R) (lam : Vec3 R) (e : Mat3 R) (h : Contract T lam e)
    (σ : Vec3 R) (hσ : ∀ a, σ a * σ a = 1) : Contract (fun i a => T i a * σ a) lam e := by
  constructor
  · intro a b
    have := h.orth a b
    simp only [sum3] at this ⊢
    by_cases hab : a = b
    · subst hab
      simp only [if_true] at this ⊢
      have hs := hσ a
      linear_combination (σ a * σ a) * this + (1 : R) * hs
    · simp only [if_neg hab] at this ⊢
      linear_combination (σ a * σ b) * this
  · intro a b
    have := h.diag a b
    simp only [sum3] at this ⊢
    by_cases hab : a = b
    · subst hab
      simp only [if_true] at this ⊢
      have hs := hσ a
      linear_combination (σ a * σ a) * this + (lam a) * hs
    · simp only [if_neg hab] at this ⊢
      linear_combination (σ a * σ b) * this

/-- … and so does a column-permuted one (with the eigenvalues permuted alike) -/
theorem c03_contract_perm {R : Type} [CommRing R] (T : Mat3 R) (lam : Vec3 R) (e : Mat3 R) (h : Contract T lam e)
    (π : Fin 3 → Fin 3) (hπ : Function.Injective π) : Contract (fun i a => T i (π a)) (fun a => lam (π a)) e := by
  constructor
  · intro a b
    have := h.orth (π a) (π b)
    by_cases hab : a = b
    · subst hab; simpa using this
    · have : π a ≠ π b := fun hh => hab (hπ hh)
      simp_all
  · intro a b
    have := h.diag (π a) (π b)
    by_cases hab : a = b
    · subst hab; simpa using this
    · have : π a ≠ π b := fun hh => hab (hπ hh)
      simp_all

/-- hence the result does not depend on which valid eigen-decomposition is used (sign, order, or the choice of a basis
inside a degenerate eigenspace), when each is given the exact rotated components of ITS frame -/
theorem c03_basis_independent {R : Type} [Field R] [CharZero R] (isZero : R → Bool) (hz : ∀ x, isZero x = true ↔ x = 0)
    (key : Modulus) (hk : key ∈ shearKeys) (c : Modulus → R) (T T' : Mat3 R) (lam lam' : Vec3 R)
    (h : Contract T lam (fictitiousStrain key)) (h' : Contract T' lam' (fictitiousStrain key)) :
    shearValue isZero key lam c (rotatedLookup T c) = shearValue isZero key lam' c (rotatedLookup T' c) := by
  rw [shearValue_exact isZero hz key hk c T lam h, shearValue_exact isZero hz key hk c T' lam' h']

/-! #### non-vacuity: concrete instances of the hypotheses -/

/-- the contract is met over `ℝ` for c44 by the frame numpy returns (up to sign): spectrum (−1, 0, 1),
`T = [[0,1,0],[−s,0,s],[s,0,s]]`, `s = √2/2` -/
example : ∃ (T : Mat3 ℝ) (lam : Vec3 ℝ), Contract T lam (fictitiousStrain (keyOfVoigt (4, 4))) ∧
    lam 0 = -1 ∧ lam 1 = 0 ∧ lam 2 = 1 := by
  have hs : (Real.sqrt 2 / 2) * (Real.sqrt 2 / 2) = 1 / 2 := by
    have := Real.mul_self_sqrt (show (0 : ℝ) ≤ 2 by norm_num)
    nlinarith
  refine ⟨fun i a => ![![0, 1, 0], ![-(Real.sqrt 2 / 2), 0, Real.sqrt 2 / 2], ![Real.sqrt 2 / 2, 0, Real.sqrt 2 / 2]] i a,
    fun a => ![-1, 0, 1] a, ⟨?_, ?_⟩, by simp, by simp, by simp⟩
  · intro a b
    fin_cases a <;> fin_cases b <;> simp [sum3] <;> nlinarith [hs]
  · have hf : ∀ i j : Fin 3, fictitiousStrain (α := ℝ) (keyOfVoigt (4, 4)) i j =
        ![![0, 0, 0], ![0, 0, 1], ![0, 1, 0]] i j := by
      intro i j
      have hmask : ∀ i j : Fin 3, fictitiousMask (keyOfVoigt (4, 4)) i j =
          ![![false, false, false], ![false, false, true], ![false, true, false]] i j := by decide +kernel
      unfold fictitiousStrain
      rw [hmask]
      fin_cases i <;> fin_cases j <;> simp
    intro a b
    simp only [hf]
    fin_cases a <;> fin_cases b <;> simp [sum3] <;> nlinarith [hs]

/-- a zero test meeting its contract exists -/
example : ∃ isZero : ℝ → Bool, ∀ x, isZero x = true ↔ x = 0 := by
  classical
  exact ⟨fun x => decide (x = 0), fun x => by simp⟩

/-- c44 asks for nothing in the original frame and for c'11, c'13, c'13, c'33 in the rotated one (spectrum −1,0,1);
c14 asks for c11 once and c44 four times; c45 for c44 and c55 four times each -/
example : (origPairs (keyOfVoigt (4, 4))).map keyOfPairs = [] ∧
    ((origPairs (keyOfVoigt (1, 4))).map keyOfPairs).map Modulus.voigt =
      [some (1, 1), some (4, 4), some (4, 4), some (4, 4), some (4, 4)] ∧
    ((origPairs (keyOfVoigt (4, 5))).map keyOfPairs).length = 8 ∧
    (modulusKeysRotated (α := ℚ) (fun x => decide (x = 0)) (fun a => ![-1, 0, 1] a)).map Modulus.voigt =
      [some (1, 1), some (1, 3), some (1, 3), some (3, 3)] := by
  decide +kernel

/-! #### the model IS the source: formulas and loop structure re-extracted from shear.py on this run

`tools/gen_tables.py` extracts the term accumulated into `_energy`, the value returned by
`get_target_elastic_modulus` (locals inlined) and checks the loop structure (`itertools.product(nz, nz)`, key
`c_(i+1, j+1, k+1, l+1)`, skip condition `target and key == target`) of both strain-energy functions.  The model's
`strainEnergy` fold and `targetModulus` are definitionally those expressions for every scalar type. -/

theorem c03_model_is_source {α : Type} [Add α] [Sub α] [Mul α] [Div α] [NatCast α]
    (isZero : α → Bool) (e : Shear.Mat3 α) (resolve : Modulus → α) (target : Option Modulus) (key : Modulus) (eRot eOrig : α) :
    Shear.strainEnergy isZero e resolve target =
      (Shear.energyPairs isZero e target).foldl
        (fun acc pq => acc + ShExpr.eval (ShExpr.envOf (resolve (Shear.keyOfPairs pq)) (e pq.1.1 pq.1.2) (e pq.2.1 pq.2.2) acc acc acc)
          Generated.shearEnergyTerm) ((0 : Nat) : α) ∧
    Shear.targetModulus key e eRot eOrig =
      ShExpr.eval (ShExpr.envOf eRot (e (Shear.idx key.i.i) (Shear.idx key.i.j)) (e (Shear.idx key.j.i) (Shear.idx key.j.j)) eRot eOrig
        ((key.multiplicity : Nat) : α)) Generated.shearTarget :=
  ⟨ShExpr.energy_term_is_source isZero e resolve target, ShExpr.target_is_source key e eRot eOrig⟩

/-! #### the glue IS the source: everything of shear.py around the two formulas, re-extracted on this run

`tools/gens/shear_src.py` → `Generated/ShearGlue.lean`: the cell assignments of `fictitious_strain`, the expressions returned by
`fictitious_strain_rotated` / `transformation_matrix`, the statements of `strain_rotated`, header / key / skip / body of the two
module functions, which strain / resolver / target every energy property and key method uses, the dictionaries behind the
resolvers, `value_isothermal` / `value_adiabatic`, `__init__`, imports and the list of every `def` of the file.
`CijModel/ShearGlue.lean` gives these data their numpy / Python meaning (`none` for anything it does not know).  Below: the
hand-written model IS that meaning, for every scalar type, every one of the 15 keys and every input. -/

/-- FICTITIOUS STRAIN, all 15 keys: the matrix the translated assignments build (zeros, then `e[key.i[0]-1, key.i[1]-1] = 1`, its
mirror, `e[key.j[0]-1, key.j[1]-1] = 1`, its mirror, in source order) is the model's; it is symmetric, so the matrix
`numpy.linalg.eigh` assembles from the lower triangle is that very matrix. -/
theorem c03_glue_is_source_fict {α : Type} [Add α] [Sub α] [Mul α] [Div α] [NatCast α] (key : Modulus) (hk : key ∈ shearKeys) :
    ShearGlue.sourceFict (α := α) key = some (fictitiousStrain key) ∧
    (∀ i j, fictitiousStrain (α := α) key i j = fictitiousStrain key j i) ∧
    ShearGlue.symFromLower (fictitiousStrain (α := α) key) = fictitiousStrain key :=
  ⟨ShearGlue.fict_is_source key hk, ShearGlue.fictitiousStrain_symm key, ShearGlue.symFromLower_fict key⟩

/-- FRAMES: `fictitious_strain_rotated` = `numpy.diag` of component 0, `transformation_matrix` = component 1 of
`numpy.linalg.eigh(self.fictitious_strain)` — for whatever eigh returns (`o.eigh`): no re-ordering, no handedness fix, no rounding. -/
theorem c03_glue_is_source_frames {α : Type} [Add α] [Sub α] [Mul α] [Div α] [NatCast α] (o : ShearGlue.Obj α)
    (hk : o.key ∈ shearKeys) :
    Generated.ShearGlue.cls.self1 o "fictitious_strain_rotated" =
      some (.mat (diagMat (o.eigh (fictitiousStrain o.key)).1)) ∧
    Generated.ShearGlue.cls.self1 o "transformation_matrix" = some (.mat (o.eigh (fictitiousStrain o.key)).2) :=
  ⟨ShearGlue.rotated_is_source o hk, ShearGlue.transformation_is_source o hk⟩

/-- STRAIN_ROTATED, for EVERY matrix `T` held by `transformation_matrix` and every row `s` of `self.strain`: the translated statements
compute the model's `strainRotated T s`, which is the diagonal of `Tᵀ · diag(s) · T` with the product taken in the order written. -/
theorem c03_glue_is_source_strain_rotated {α : Type} [Add α] [Sub α] [Mul α] [Div α] [NatCast α] (env : ShearGlue.Env α)
    (T : Mat3 α) (s : Vec3 α) (hs : env.self "strain" = some (.rows s))
    (hT : env.self "transformation_matrix" = some (.mat T)) :
    ShearGlue.runSr env [] Generated.ShearGlue.cls.strainRotated.2 = some (.rows (strainRotated T s)) ∧
    ∀ a, strainRotated T s a = ShearGlue.mmul (ShearGlue.mmul (ShearGlue.transpose T) (diagMat s)) T a a :=
  ⟨ShearGlue.strainRotated_stmts_is_source env T s hs hT, ShearGlue.strainRotated_eq_matrix T s⟩

/-- … and on the object: `self.strain_rotated` is `strainRotated` of the eigenvector matrix eigh returned -/
theorem c03_glue_is_source_strain_rotated_obj {α : Type} [Add α] [Sub α] [Mul α] [Div α] [NatCast α] (o : ShearGlue.Obj α)
    (hk : o.key ∈ shearKeys) :
    ShearGlue.sourceStrainRotated o = some (strainRotated (o.eigh (fictitiousStrain o.key)).2 o.strain) :=
  ShearGlue.strainRotated_is_source o hk

/-- THE TWO MODULE FUNCTIONS, all inputs: non-zero test `numpy.logical_not(numpy.isclose(e, 0))` (default tolerances = the parameter
`isZero`), `itertools.product(nz, nz)`, `key = c_(i+1, j+1, k+1, l+1)`, `if target and key == target: continue`, then the translated
term accumulated from 0 / the key appended; the accumulator returned as it is. -/
theorem c03_glue_is_source_loops {α : Type} [Add α] [Sub α] [Mul α] [Div α] [NatCast α] (isZero : α → Bool) (e : Mat3 α)
    (resolve : Modulus → α) (target : Option Modulus) :
    Generated.ShearGlue.energyFn.energy Generated.shearEnergyTerm isZero e resolve target =
      some (strainEnergy isZero e resolve target) ∧
    Generated.ShearGlue.keysFn.keys isZero e target = some (energyKeys isZero e target) ∧
    (∀ pq, Generated.ShearGlue.energyFn.keyOf pq = some (keyOfPairs pq) ∧ Generated.ShearGlue.keysFn.keyOf pq = some (keyOfPairs pq)) :=
  ⟨ShearGlue.energyFn_is_source isZero e resolve target, ShearGlue.keysFn_is_source isZero e target, ShearGlue.keyOf_is_source⟩

/-- ALL ORDERED PAIRS: the loop body is reached exactly once for every ordered pair of non-zero cells — `((ij),(kl))` and
`((kl),(ij))` are two iterations — except, with a target, the pairs whose key is the target. -/
theorem c03_glue_all_ordered_pairs {α : Type} [Add α] [Sub α] [Mul α] [Div α] [NatCast α] (isZero : α → Bool) (e : Mat3 α) (target : Option Modulus) :
    (energyPairs isZero e target).Nodup ∧
    (∀ pq, pq ∈ energyPairs isZero e none ↔ isZero (e pq.1.1 pq.1.2) = false ∧ isZero (e pq.2.1 pq.2.2) = false) ∧
    (∀ t pq, pq ∈ energyPairs isZero e (some t) ↔
      (isZero (e pq.1.1 pq.1.2) = false ∧ isZero (e pq.2.1 pq.2.2) = false) ∧ keyOfPairs pq ≠ t) :=
  ⟨ShearGlue.energyPairs_nodup isZero e target, ShearGlue.mem_energyPairs_none isZero e,
    fun t => ShearGlue.mem_energyPairs_some isZero e t⟩

/-- CROSS TERMS of a rotated strain with three non-zero eigenvalues (c14, c25, c36: spectrum −1, 1, 1): the rotated frame is asked
for all nine `c'_aabb` — each of the cross components (1′2′), (1′3′), (2′3′) TWICE, each longitudinal one once. -/
theorem c03_glue_rotated_cross_terms {α : Type} [Add α] [Sub α] [Mul α] [Div α] [NatCast α] (isZero : α → Bool) (h0 : isZero ((0 : Nat) : α) = true)
    (lam : Vec3 α) (h : ∀ a, isZero (lam a) = false) :
    modulusKeysRotated isZero lam = (fin3.flatMap fun a => fin3.map fun b => key4 a a b b) ∧
    (∀ a b : Fin 3, (modulusKeysRotated isZero lam).count (key4 a a b b) = if a = b then 1 else 2) ∧
    (modulusKeysRotated isZero lam).map Modulus.voigt =
      [some (1, 1), some (1, 2), some (1, 3), some (1, 2), some (2, 2), some (2, 3), some (1, 3), some (2, 3), some (3, 3)] := by
  have hl := ShearGlue.modulusKeysRotated_three isZero h0 lam h
  refine ⟨hl, fun a b => ?_, ?_⟩
  · rw [hl]; exact ShearGlue.cross_counts a b
  · rw [hl]; decide +kernel

/-- WIRING: the original-frame energy / key list use `fictitious_strain`, `self.modulus[key]` and target `self.key`; the rotated-frame
ones use `fictitious_strain_rotated`, `self.modulus_rotated[key]` and NO target. -/
theorem c03_glue_is_source_wiring {α : Type} [Add α] [Sub α] [Mul α] [Div α] [NatCast α] (o : ShearGlue.Obj α)
    (hk : o.key ∈ shearKeys) :
    ShearGlue.sourceEnergy o "fictitious_strain_energy" =
      some (strainEnergy o.isZero (fictitiousStrain o.key) o.modulus (some o.key)) ∧
    ShearGlue.sourceEnergy o "fictitious_strain_energy_rotated" =
      some (strainEnergy o.isZero (diagMat (o.eigh (fictitiousStrain o.key)).1) o.modulusRotated none) ∧
    ShearGlue.sourceKeys o "get_modulus_keys" = some (modulusKeys o.isZero o.key) ∧
    ShearGlue.sourceKeys o "get_modulus_keys_rotated" =
      some (modulusKeysRotated o.isZero (o.eigh (fictitiousStrain o.key)).1) :=
  ⟨ShearGlue.energy_orig_is_source o hk, ShearGlue.energy_rot_is_source o hk, ShearGlue.keys_orig_is_source o hk,
    ShearGlue.keys_rot_is_source o hk⟩

/-- VALUE, no post-processing: `value_isothermal` is `get_target_elastic_modulus()` as it is = the translated target formula on the two
translated energies; `value_adiabatic` is `value_isothermal`. -/
theorem c03_glue_is_source_value {α : Type} [Add α] [Sub α] [Mul α] [Div α] [NatCast α] (o : ShearGlue.Obj α)
    (hk : o.key ∈ shearKeys) :
    ShearGlue.sourceValue o "value_isothermal" =
      some (shearValue o.isZero o.key (o.eigh (fictitiousStrain o.key)).1 o.modulus o.modulusRotated) ∧
    ShearGlue.sourceValue o "value_adiabatic" = ShearGlue.sourceValue o "value_isothermal" := by
  have h := ShearGlue.value_is_source o hk
  exact ⟨h.1, h.2.trans h.1.symm⟩

/-- no call to anything in `get_target_elastic_modulus` (three statements: unpack `self.key.standard`, one local, the return), and the
two module functions call exactly these functions — no clean-up (`numpy.where`, `numpy.isclose` on the result), no rounding -/
theorem c03_glue_no_postprocessing :
    Generated.ShearGlue.targetCalls = [] ∧
    Generated.ShearGlue.targetStatements = ["unpack self.key.standard", "local", "return"] ∧
    Generated.ShearGlue.targetParams = [("self", none)] ∧
    Generated.ShearGlue.energyFnCalls =
      ["c_", "itertools.product", "numpy.argwhere", "numpy.isclose", "numpy.logical_not", "resolve_elastic_modulus"] ∧
    Generated.ShearGlue.keysFnCalls =
      ["_keys.append", "c_", "itertools.product", "numpy.argwhere", "numpy.isclose", "numpy.logical_not"] := by
  decide +kernel

/-- STATE: `__init__` stores its parameters and two FRESH dictionaries per instance; the class has no base class, no class-level
statement besides its methods; the module binds only `logger`; `numpy`, `itertools`, `c_`, `LazyProperty` are what the evaluators take
them for; the strain / frame properties are `LazyProperty`s, the energies plain properties (they read the dictionaries at call time). -/
theorem c03_glue_state_and_names :
    Generated.ShearGlue.cls.initParams = [("self", none), ("strain", none), ("key", none), ("calculator", some "None")] ∧
    Generated.ShearGlue.cls.initAssigns =
      [("key", .param "key"), ("strain", .param "strain"), ("modulus_isothermal", .freshDict),
       ("modulus_isothermal_rotated", .freshDict), ("calculator", .param "calculator")] ∧
    Generated.ShearGlue.classBases = [] ∧ Generated.ShearGlue.classOtherStatements = [] ∧
    Generated.ShearGlue.moduleAssigns = [("logger", "getLogger(__name__)")] ∧ Generated.ShearGlue.moduleOtherStatements = [] ∧
    (∀ p ∈ [("numpy", "numpy"), ("itertools", "itertools"), ("c_", "cij.util.c_"), ("LazyProperty", "lazy_property.LazyProperty")],
      Generated.ShearGlue.imports.filter (fun q => q.1 == p.1) = [p]) ∧
    Generated.ShearGlue.methodKinds =
      [("__init__", "method"), ("fictitious_strain", "LazyProperty"), ("fictitious_strain_rotated", "LazyProperty"),
       ("transformation_matrix", "LazyProperty"), ("fictitious_strain_energy", "property"),
       ("fictitious_strain_energy_rotated", "property"), ("strain_rotated", "LazyProperty"),
       ("get_target_elastic_modulus", "method"), ("get_modulus_keys", "method"), ("get_modulus_keys_rotated", "method"),
       ("get_elastic_modulus", "method"), ("get_elastic_modulus_rotated", "method"), ("value_isothermal", "LazyProperty"),
       ("value_adiabatic", "property")] := by
  decide +kernel

/-- INVENTORY: every `def` / `lambda` of shear.py (qualified names, in source order, a redefinition would be listed twice) is one the
translators turned into data — none is skipped, none is only pinned as text. -/
theorem c03_glue_inventory_complete :
    Generated.ShearGlue.definedFunctions = Generated.ShearGlue.handled.map (·.1) ∧
    Generated.ShearGlue.definedFunctions.Nodup ∧
    (∀ h ∈ Generated.ShearGlue.handled, h.2 ≠ ShearGlue.Handled.pinned) ∧
    Generated.ShearGlue.definedFunctions.length = 18 := by
  decide +kernel

/-- EXACTNESS, stated about the pieces translated from shear.py on this run.  Field of characteristic 0 (so also `ℝ`), an instance `o`
for one of the 15 keys, every symmetric tensor `c` (21 values), `F` the matrix the translated `fictitious_strain` builds, whatever eigh
returns for it as long as it meets the contract (orthogonal, diagonalising), `ks` / `ksr` the key lists the translated
`get_modulus_keys()` / `get_modulus_keys_rotated()` return, and ANY dictionaries that agree with the exact tensor on them (crystal frame
on `ks`, the frame of the eigenvectors on `ksr`): the translated `value_isothermal` and `value_adiabatic` are `c key`. -/
theorem c03_exact {R : Type} [Field R] [CharZero R] (o : ShearGlue.Obj R) (hz : ∀ x, o.isZero x = true ↔ x = 0)
    (hk : o.key ∈ shearKeys) (c : Modulus → R)
    (F : Mat3 R) (hF : ShearGlue.sourceFict o.key = some F)
    (h : Contract (o.eigh F).2 (o.eigh F).1 F)
    (ks ksr : List Modulus) (hks : ShearGlue.sourceKeys o "get_modulus_keys" = some ks)
    (hksr : ShearGlue.sourceKeys o "get_modulus_keys_rotated" = some ksr)
    (hm : ∀ k ∈ ks, o.modulus k = c k)
    (hr : ∀ k ∈ ksr, o.modulusRotated k = rotatedLookup (o.eigh F).2 c k) :
    ShearGlue.sourceValue o "value_isothermal" = some (c o.key) ∧
    ShearGlue.sourceValue o "value_adiabatic" = some (c o.key) := by
  have hF' : F = fictitiousStrain o.key := by
    have := ShearGlue.fict_is_source (α := R) o.key hk
    rw [hF] at this
    exact Option.some.inj this
  subst hF'
  have hks' : ks = modulusKeys o.isZero o.key := by
    have := ShearGlue.keys_orig_is_source o hk
    rw [hks] at this
    exact Option.some.inj this
  have hksr' : ksr = modulusKeysRotated o.isZero (o.eigh (fictitiousStrain o.key)).1 := by
    have := ShearGlue.keys_rot_is_source o hk
    rw [hksr] at this
    exact Option.some.inj this
  subst hks' hksr'
  have hv := ShearGlue.value_is_source o hk
  have he := c03_exact_model o.isZero hz o.key hk c (o.eigh (fictitiousStrain o.key)).2 (o.eigh (fictitiousStrain o.key)).1 h
    o.modulus o.modulusRotated hm hr
  simp only [ShearGlue.Obj.lam] at hv
  rw [he] at hv
  exact hv

/-- non-vacuity of `c03_exact`: its hypotheses about the translated pieces are met by every instance with one of the 15 keys
(the translated `fictitious_strain` and both key methods do return something) -/
example {R : Type} [Field R] (o : ShearGlue.Obj R) (hk : o.key ∈ shearKeys) :
    (∃ F, ShearGlue.sourceFict (α := R) o.key = some F) ∧ (∃ ks, ShearGlue.sourceKeys o "get_modulus_keys" = some ks) ∧
    (∃ ksr, ShearGlue.sourceKeys o "get_modulus_keys_rotated" = some ksr) :=
  ⟨⟨_, ShearGlue.fict_is_source o.key hk⟩, ⟨_, ShearGlue.keys_orig_is_source o hk⟩, ⟨_, ShearGlue.keys_rot_is_source o hk⟩⟩

/-- the translated pieces on a concrete instance (ℚ, c14, eigh = the exact frame `T = [[1,0,0],[0,·,·],[0,·,·]]` is not needed here):
the fictitious strain of c14 as built by the translated assignments, and the nine rotated-frame requests for the spectrum (−1, 1, 1) -/
example : (ShearGlue.sourceFict (α := ℚ) (keyOfVoigt (1, 4))).map (fun F => fin3.map fun i => fin3.map fun j => F i j) =
      some [[1, 0, 0], [0, 0, 1], [0, 1, 0]] ∧
    (modulusKeysRotated (α := ℚ) (fun x => decide (x = 0)) (fun a => ![-1, 1, 1] a)).map Modulus.voigt =
      [some (1, 1), some (1, 2), some (1, 3), some (1, 2), some (2, 2), some (2, 3), some (1, 3), some (2, 3), some (3, 3)] := by
  decide +kernel

end Cij.C03
