/-
  C12 — results are finite and real on the whole grid.

  Finiteness of IEEE doubles is not a statement about ℝ.  What a theorem can carry, and carries here:
  (1) the Q1/Q2 expressions *as written in nonshear.py* (`Generated.q1Expr`, `Generated.q2Expr`, re-translated from
      the source on every run) denote the textbook functions over ℝ, every denominator in them is non-zero for Q > 0
      (`c12_defined_real`), and their values are bounded: 0 < Q1 < 1, 0 < Q2 ≤ 1, 1 − e^{−Q} ≥ Q/(1+Q) — so nothing
      intrinsically blows up at low temperature (Q → ∞);
  (2) an abstract IEEE-754 special-value semantics (`QExpr.evalCls`): the spelling shipped before fix 9d0159a,
      Q²eᴽ/(eᴽ−1)², evaluates to NaN — and to nothing else — whenever exp Q overflows (`c12_shipped_q2_nan_on_overflow`,
      a genuine defect, repaired), while the current spelling evaluates to 0 in that regime
      (`c12_current_q2_zero_when_exp_underflows`) and Q1 evaluates to 0 (`c12_q1_zero_on_overflow`);
  (3) thermal terms vanish as T → 0⁺ (`c12_thermal_tendsto_zero`): c(T) → c(0).
  (4) "inside the computed range" is decided by the guard in qha_adapter.py as written now (`Generated.pressureGuard`, re-translated on
      every run): a non-empty requested grid at or below P(T, V_last) for every T is never refused, one above it always is
      (`c12_in_range_grid_not_refused`, `c12_out_of_range_grid_refused`) — no hidden margin in either direction.
  Out (sweep in harness/c12.py only): rounding, library exceptions, dtype, the IEEE behaviour between the two regimes.
-/
import CijProofs.Lemmas.QBounds
import Generated.QExprs
import CijProofs.Properties.C06
import Mathlib.Topology.Order.Basic
import Mathlib.Topology.Algebra.Order.Field
import Mathlib.Analysis.SpecialFunctions.Exp
import CijProofs.Lemmas.NonShearSource
import CijProofs.Lemmas.ShearSource
import CijProofs.Lemmas.ModeGammaSource
import Generated.FullModulusSpec
import Generated.ReadersSpec
import Generated.DefaultSettings
import Generated.CalcGlueSpec
import CijModel.Config
import CijModel.CalcGlue

namespace Cij.C12
open Cij Cij.QExpr Cij.Cls Filter Topology

/-! #### (1) the generated expressions over ℝ -/

theorem c12_q1_generated_real (q : ℝ) : Generated.q1Expr.eval Real.exp q = Q1r q := by
  simp [Generated.q1Expr, QExpr.eval, Q1r]

theorem c12_q2_generated_real {q : ℝ} (hq : 0 < q) : Generated.q2Expr.eval Real.exp q = Q2r q := by
  rw [← q2_forms_eq hq]
  simp [Generated.q2Expr, QExpr.eval, List.replicate, pow_two]

/-- no division by zero anywhere in Q1, Q2 for Q > 0 (T > 0, ω > 0) -/
theorem c12_defined_real {q : ℝ} (hq : 0 < q) :
    ∀ d ∈ Generated.q1Expr.denoms ++ Generated.q2Expr.denoms, d.eval Real.exp q ≠ 0 := by
  have h1 := exp_sub_one_pos hq
  have h2 := one_sub_exp_neg_pos hq
  intro d hd
  simp [Generated.q1Expr, Generated.q2Expr, QExpr.denoms] at hd
  rcases hd with rfl | rfl
  · simp [QExpr.eval]; exact h1.ne'
  · simp [QExpr.eval, List.replicate]; exact h2.ne'

theorem c12_q1_bounds {q : ℝ} (hq : 0 < q) :
    0 < Generated.q1Expr.eval Real.exp q ∧ Generated.q1Expr.eval Real.exp q < 1 := by
  rw [c12_q1_generated_real]; exact ⟨Q1r_pos hq, Q1r_lt_one hq⟩

theorem c12_q2_bounds {q : ℝ} (hq : 0 < q) :
    0 < Generated.q2Expr.eval Real.exp q ∧ Generated.q2Expr.eval Real.exp q ≤ 1 := by
  rw [c12_q2_generated_real hq]; exact ⟨Q2r_pos hq, Q2r_le_one hq⟩

/-- the denominator base of the current Q2 spelling is bounded away from zero -/
theorem c12_q2_denominator_lower {q : ℝ} (hq : 0 < q) : q / (1 + q) ≤ 1 - Real.exp (-q) :=
  one_sub_exp_neg_lower hq

/-! #### (2) IEEE special values -/

/-- the spelling shipped before the fix (kept as the witness of the defect) -/
def shippedQ2 : QExpr :=
  .div (.mul (.pow .q 2) (.exp .q)) (.pow (.sub (.exp .q) (.const 1)) 2)

/-- rounding outcomes when `exp` of a finite number > 1 overflows -/
def expOverflow : Cls → CSet
  | .gt1 => [.pinf]
  | c => Cls.expAll c

/-- ... and when `exp` of a finite negative number underflows to 0 -/
def expUnderflow : Cls → CSet
  | .neg => [.zero]
  | .gt1 => [.pinf]
  | c => Cls.expAll c

/-- Q finite > 1 with exp Q = +inf: the shipped Q2 is NaN under *every* rounding outcome of Q² -/
theorem c12_shipped_q2_nan_on_overflow : shippedQ2.evalCls expOverflow Cls.powSame .gt1 = [.nan] := by
  decide +kernel

/-- the same regime, current source: Q² finite, exp(−Q) underflowed ⇒ Q2 = 0, finite -/
theorem c12_current_q2_zero_when_exp_underflows :
    Generated.q2Expr.evalCls expUnderflow (fun c n => (Cls.powSame c n).filter (· != .pinf)) .gt1 = [.zero] := by
  decide +kernel

/-- and Q1 = Q/(inf − 1) = 0 -/
theorem c12_q1_zero_on_overflow : Generated.q1Expr.evalCls expOverflow Cls.powSame .gt1 = [.zero] := by
  decide +kernel

/-- with all rounding outcomes of `exp` allowed and Q² finite the current Q2 still is never ±inf/inf:
    the only NaN source left in the abstract domain is 0/0 from a (spurious) underflow of the squared denominator -/
theorem c12_current_q2_no_inf_over_inf :
    ∀ c ∈ [Cls.sub1, Cls.one, Cls.gt1],
      Cls.pinf ∉ (QExpr.evalCls Cls.expAll (fun c n => (Cls.powSame c n).filter (· != .pinf)) c
        (.mul (.pow .q 2) (.exp (.neg .q)))) := by
  decide +kernel

/-! #### (3) thermal terms vanish as T → 0⁺ -/

/-- T·Q1(a/T) → 0 and T·Q2(a/T) → 0 as T → 0⁺ for a = ħω/k_B > 0: the per-mode thermal term
(k_B T / V)(−Q2·A + Q1·B) tends to 0, hence c(T) → c(0). -/
theorem c12_thermal_tendsto_zero {a : ℝ} (ha : 0 < a) (A B : ℝ) :
    Tendsto (fun T : ℝ => T * (-(Q2r (a / T)) * A + Q1r (a / T) * B)) (𝓝[>] 0) (𝓝 0) := by
  have hT : Tendsto (fun T : ℝ => T * (|A| + |B|)) (𝓝[>] 0) (𝓝 0) := by
    have : Tendsto (fun T : ℝ => T * (|A| + |B|)) (𝓝 0) (𝓝 (0 * (|A| + |B|))) :=
      (continuous_id.mul continuous_const).tendsto 0
    simpa using this.mono_left nhdsWithin_le_nhds
  refine squeeze_zero_norm' ?_ hT
  filter_upwards [self_mem_nhdsWithin] with T hTpos
  have hT0 : (0 : ℝ) < T := hTpos
  have hq : 0 < a / T := div_pos ha hT0
  have h1 := Q1r_pos hq; have h1' := Q1r_lt_one hq
  have h2 := Q2r_pos hq; have h2' := Q2r_le_one hq
  rw [Real.norm_eq_abs, abs_mul, abs_of_pos hT0]
  apply mul_le_mul_of_nonneg_left _ hT0.le
  calc |(-(Q2r (a / T)) * A + Q1r (a / T) * B)|
      ≤ |(-(Q2r (a / T)) * A)| + |Q1r (a / T) * B| := abs_add_le _ _
    _ = Q2r (a / T) * |A| + Q1r (a / T) * |B| := by
        rw [abs_mul, abs_mul, abs_neg, abs_of_pos h2, abs_of_pos h1]
    _ ≤ 1 * |A| + 1 * |B| := by
        apply add_le_add
        · exact mul_le_mul_of_nonneg_right h2' (abs_nonneg A)
        · exact mul_le_mul_of_nonneg_right h1'.le (abs_nonneg B)
    _ = |A| + |B| := by ring

/-! #### (4) the range guard, as written in the source now -/

/-- a requested grid that lies inside the computed range (≤ P(T, V_last) for every T) is not refused -/
theorem c12_in_range_grid_not_refused {α : Type} [Field α] [LinearOrder α] (pTvGpa : List (List α)) (desired : List α)
    (hne : ∀ row ∈ pTvGpa, row ≠ []) (hp : pTvGpa ≠ []) (hd : desired ≠ [])
    (h : ∀ row ∈ pTvGpa, ∀ x ∈ desired, x ≤ row.getLastD 0) :
    Cij.AdapterGuardSource.evalGuard Generated.pressureGuard pTvGpa desired = some (.ok ()) :=
  Cij.C06.source_guard_accepts_in_range pTvGpa desired hne hp hd h

/-- a grid that overshoots the computed range anywhere is refused with ValueError (never silently extrapolated) -/
theorem c12_out_of_range_grid_refused {α : Type} [Field α] [LinearOrder α] (pTvGpa : List (List α)) (desired : List α)
    (hne : ∀ row ∈ pTvGpa, row ≠ []) (h : ∃ row ∈ pTvGpa, ∃ x ∈ desired, row.getLastD 0 < x) :
    Cij.AdapterGuardSource.evalGuard Generated.pressureGuard pTvGpa desired = some (.error .valueError) := by
  rw [Cij.C06.pressure_guard_is_source, Cij.C06.status_reject_overshoot pTvGpa desired hne h]

/-! #### non-vacuity -/
example : (0 : ℝ) < 1 ∧ Generated.q1Expr.eval Real.exp 1 = 1 / (Real.exp 1 - 1) := by
  refine ⟨one_pos, ?_⟩; rw [c12_q1_generated_real]; rfl
example : shippedQ2.evalCls Cls.expAll Cls.powSame .sub1 ≠ [] := by decide +kernel
example : Cij.AdapterGuardSource.evalGuard Generated.pressureGuard [[(9 : ℚ), 5], [8, 4]] [0, 2, 4] = some (.ok ()) := by decide +kernel
example : Cij.AdapterGuardSource.evalGuard Generated.pressureGuard [[(9 : ℚ), 5], [8, 4]] [0, 2, 4, 6] = some (.error .valueError) := by
  decide +kernel

/-! #### ties shared with other properties

The statement of this property also rests on code whose translation is owned by another property's file; the theorems are restated
here so that this property's obligations are re-checked against those files too (a change there breaks THIS check's proof as well). -/

/-- `nonshear.py` as translated on this run: the model's isothermal and adiabatic values of both non-shear classes are the
translated bodies (zero-point + thermal; isothermal + gap), for every scalar type -/
theorem c12_nonshear_is_source {α : Type} [Cij.NonShear.Scalar α] [Add α] [Sub α] [Mul α] [Div α] [Neg α]
    (c : Cij.NonShear.Consts α) (w : List α) (T P cv : α) (s : Cij.NonShear.VolSlice α) (a b : α) :
    Cij.NonShear.valueAdiabaticLongAt c w T cv s =
      Cij.NSExpr.evalBody (Cij.NSExpr.envAt c w T P cv s (Cij.NonShear.mgLong s) a b (Cij.NonShear.valueIsothermalLongAt c w T s)
        (Cij.NonShear.isoToAdiaAt c.k c.hdk c.na T s.V cv (Cij.NonShear.mgLong s) s.freq w)) Generated.nsAdiaLong ∧
    Cij.NonShear.valueAdiabaticOffAt c w T P cv s =
      Cij.NSExpr.evalBody (Cij.NSExpr.envAt c w T P cv s (Cij.NonShear.mgOff s) a b (Cij.NonShear.valueIsothermalOffAt c w T P s)
        (Cij.NonShear.isoToAdiaAt c.k c.hdk c.na T s.V cv (Cij.NonShear.mgOff s) s.freq w)) Generated.nsAdiaOff :=
  ⟨Cij.NSExpr.valueAdiabaticLong_is_source c w T P cv s a b, Cij.NSExpr.valueAdiabaticOff_is_source c w T P cv s a b⟩

/-- the arithmetic of the shear solver in `shear.py` as translated on this run: the target formula of the model is the translated one -/
theorem c12_shear_target_is_source {α : Type} [Add α] [Sub α] [Mul α] [Div α] [NatCast α]
    (key : Cij.Modulus) (e : Cij.Shear.Mat3 α) (eRot eOrig : α) :
    Cij.Shear.targetModulus key e eRot eOrig =
      Cij.ShExpr.eval (Cij.ShExpr.envOf eRot (e (Cij.Shear.idx key.i.i) (Cij.Shear.idx key.i.j)) (e (Cij.Shear.idx key.j.i) (Cij.Shear.idx key.j.j))
        eRot eOrig ((key.multiplicity : Nat) : α)) Generated.shearTarget :=
  Cij.ShExpr.target_is_source key e eRot eOrig

/-- the glue of `cij/core/mode_gamma.py` this property's statement rests on (which member of the returned triple is γ, which
V∂γ/∂V, the signs): every `interpolate_mode_*` function returns `(exp s, −s′, −s″)` as translated on this run -/
theorem c12_mode_glue_is_source : ∀ e ∈ Generated.modeReturnPattern, e.2 = Cij.Interp.canonicalPattern :=
  Cij.Interp.return_pattern_is_source

/-- `full_modulus.py` / `_calculate_pressure_static` as translated on this run: default fit orders, degree offset, and the bodies of
`fit_modulus` (strains of the STATIC table's own volumes), `get_axial_strains`, `get_static_modulus`, `modulus_adiabatic`,
`modulus_isothermal` are the ones the model implements -/
theorem c12_full_modulus_is_source :
    Generated.fitModulusDegOffset = 1 ∧ Generated.fullModulusBodiesCanonical = true ∧
    Generated.fitModulusDefaultOrder = 2 ∧ Generated.staticPressureDefaultOrder = 3 := by decide

/-- `cij/io/traditional/elast_dat.py` (+ package glue) as translated on this run: `read_elast_data` and
`apply_symetry_on_elast_data` are the statements the reader model mirrors (rows in file order, lattice block in file order, one frame row
per volume BY NAME `"c%s%s" % key.v`, `fill_cij(df, **symmetry)` with the caller's dictionary untouched, rows written back as fresh
mappings from `c_(key[1:])`), and the package re-exports the readers themselves (no caching wrapper) -/
theorem c12_readers_are_source :
    Generated.Readers.elastDatCanonical = true ∧ Generated.Readers.columnLiterals = ["c", ""] ∧ Generated.Readers.backSlice = 1 ∧
    Generated.Readers.fillPositional = 1 ∧ Generated.Readers.fillKeywords = ["**<symmetry>"] ∧
    Generated.Readers.rowVolumeIndex = 0 ∧ Generated.Readers.rowKeySlice = 1 ∧ Generated.Readers.rowValueSlice = 1 ∧
    ("read_energy", "qha_input", "read_energy") ∈ Generated.Readers.packageImports ∧
    ("read_elast_data", "elast_dat", "read_elast_data") ∈ Generated.Readers.packageImports := by decide

/-- **every valid configuration completes: the packaged defaults supply what the calculator reads.**  The configuration leaves that
`Calculator` reads by subscript — the paths translated from calculator.py on this run (`_interpolate_modes`: interpolator and order;
`_apply_elastic_constants_symmetry`: the symmetry block; `write_output`: the output section) — all exist in the packaged default settings
as translated on this run, the default order being a number: a schema-valid file that leaves them out still gets them from the merge
(C16), so no `KeyError`/`None` reaches the interpolators. -/
theorem c12_defaults_supply_calculator_reads :
    (Cij.Config.get Generated.defaultSettings Generated.CalcGlue.interpolateModes.methodPath).isSome = true ∧
    (match Cij.Config.get Generated.defaultSettings Generated.CalcGlue.interpolateModes.orderPath with
      | some (.num _ _ _) => true | _ => false) = true ∧
    (match Cij.Config.get Generated.defaultSettings Generated.CalcGlue.symmetrySpec.path with
      | some (.obj _) => true | _ => false) = true ∧
    (match Cij.Config.get Generated.defaultSettings Generated.CalcGlue.writeOutputPath with
      | some (.obj _) => true | _ => false) = true := by decide

end Cij.C12
