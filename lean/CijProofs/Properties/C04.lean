/-
  C04 — phonon tensor assembly is complete, request-independent, evaluated in dependency order, isotropic in the
  limit, and permuted by a relabelling of the axes.

  Everything below is about `CijModel/Tasks.lean` (the functions the driver runs at `Float` against the real
  `PhononContributionTaskList`).  Parameters of the model and what is assumed of them (each is measured by the harness
  on every case):
    `isZero`  numpy.isclose(·,0)                      `ZeroSpec isZero`  : isZero x = true ↔ x = 0
    `peq`     PhononContributionTaskParams.__eq__      `PeqSpec peq`      : an equivalence that never identifies different
                                                                            calculation kinds / shear keys
                                                       `PeqCongr peq …`   : the non-shear values and the derived strain
                                                                            fields respect it (trivial for exact equality)
    `eig`     numpy.linalg.eigh per shear key          `Contract`         : only in the isotropy / permutation clauses
    `order`   networkx.topological_sort                `validOrder`       : any order that respects the edges
    `baseIso`, `baseAdi`  the non-shear classes (C01 / C02) as functions of the task parameters
  Keys are the 21 canonical keys `allKeys` (what `c_` produces, C10).
-/
import CijProofs.Lemmas.Tasks
import CijProofs.Lemmas.TasksSource
import CijProofs.Lemmas.TasksGlueSource
import CijProofs.Lemmas.Isotropic
import CijProofs.Lemmas.Permutation
import CijProofs.Lemmas.Degenerate
import CijProofs.Lemmas.DegenerateBasis
import Mathlib.Analysis.Real.Sqrt
import CijProofs.Lemmas.ShearSource
import CijProofs.Lemmas.NonShearSource
import Generated.FullModulusSpec

namespace Cij.C04
open Cij Cij.Shear Cij.Tasks

variable {R : Type} [Field R]

/-! #### the dependency relation is acyclic; `resolve` terminates -/

/-- a rank `key ↦ {0,1,2}` strictly decreases along dependencies, which are again canonical keys — for every spectrum
`eig` may report -/
theorem deps_rank (isZero : R → Bool) (hz : ZeroSpec isZero) (eig : Eig R) (k : Modulus) (hk : k ∈ allKeys)
    (d : Modulus) (hd : d ∈ depKeys isZero eig k) : d ∈ allKeys ∧ rank d < rank k ∧ rank k ≤ 2 :=
  ⟨(depKeys_canon_rank hz eig hk hd).1, (depKeys_canon_rank hz eig hk hd).2, rank_le_two k⟩

/-- the rank table: 0 for the six non-shear keys, 1 for c44 c55 c66, 2 for the other twelve -/
theorem deps_rank_table : ∀ p ∈ keys21, rank (keyOfVoigt p) =
    if p.2 ≤ 3 then 0 else if p.1 = p.2 then 1 else 2 := by
  decide +kernel

/-- the dependency graph on keys is acyclic: "is a dependency of" is well founded (no cycle, no infinite descent) -/
theorem deps_acyclic (isZero : R → Bool) (hz : ZeroSpec isZero) (eig : Eig R) :
    WellFounded fun d k : Modulus => k ∈ allKeys ∧ d ∈ depKeys isZero eig k := by
  apply Subrelation.wf (r := InvImage (· < ·) rank) _ (InvImage.wf rank Nat.lt_wfRel.wf)
  intro d k h
  exact (depKeys_canon_rank hz eig h.1 h.2).2

/-- `resolve` terminates: the fuel the model computes from the request (`fuelFor`) is never exhausted -/
theorem resolve_terminates (isZero : R → Bool) (hz : ZeroSpec isZero) (peq : Params R → Params R → Bool)
    (hp : PeqSpec peq) (eig : Eig R) (strain : SField R) (keys : List Modulus) (hkeys : ∀ k ∈ keys, k ∈ allKeys) :
    (resolve isZero peq eig strain keys).isSome = true := by
  obtain ⟨st', h, _⟩ := resolveLoop_inv hz hp (fuelFor isZero eig keys) _ _
    (initial_inv isZero peq eig strain keys hkeys) (initial_fuel isZero eig strain keys)
  unfold resolve; rw [h]; rfl

/-! #### the resolved task list is complete and closed; the graph is a DAG -/

/-- queue-level theorem about the LIFO work list itself (including re-expansion of known tasks):
every requested key has a task; every dependency of every task has a task and the edge `dependency → dependant` is in
the graph; edges only join existing tasks and go from strictly lower to higher rank (so the graph is a DAG). -/
theorem resolve_closed (isZero : R → Bool) (hz : ZeroSpec isZero) (peq : Params R → Params R → Bool)
    (hp : PeqSpec peq) (eig : Eig R) (strain : SField R) (keys : List Modulus) (hkeys : ∀ k ∈ keys, k ∈ allKeys)
    (st : RState R) (hst : resolve isZero peq eig strain keys = some st) :
    (∀ k ∈ keys, ∃ a, findTask peq st.tasks (create strain k) = some a) ∧
    (∀ b t, st.tasks[b]? = some t → ∀ sk ∈ deps isZero eig t,
        ∃ a, findTask peq st.tasks (create sk.1 sk.2) = some a ∧ (a, b) ∈ st.edges) ∧
    (∀ e ∈ st.edges, ∃ ta tb, st.tasks[e.1]? = some ta ∧ st.tasks[e.2]? = some tb ∧ rank ta.key < rank tb.key) ∧
    (∀ t ∈ st.tasks, t.params = create t.strain t.key ∧ t.key ∈ allKeys) := by
  obtain ⟨st', h, hinv⟩ := resolveLoop_inv hz hp (fuelFor isZero eig keys) _ _
    (initial_inv isZero peq eig strain keys hkeys) (initial_fuel isZero eig strain keys)
  unfold resolve at hst
  rw [h] at hst
  cases hst
  refine ⟨?_, ?_, hinv.edgesRank, hinv.wf⟩
  · intro k hk
    rcases hinv.reqDone k hk with hin | hdone
    · cases hin
    · exact hdone
  · intro b t ht sk hsk
    rcases hinv.depsDone b t ht sk hsk with hin | hdone
    · cases hin
    · exact hdone

/-- a graph whose edges raise a rank has no cycle: no path leads from a task back to itself -/
theorem resolve_graph_acyclic (tasks : List (PTask R)) (edges : List (Nat × Nat))
    (hrank : ∀ e ∈ edges, ∃ ta tb, tasks[e.1]? = some ta ∧ tasks[e.2]? = some tb ∧ rank ta.key < rank tb.key) :
    ∀ (path : List Nat) (a : Nat), List.IsChain (fun x y => (x, y) ∈ edges) (a :: path) →
      ∀ z, (a :: path).getLast? = some z → path ≠ [] → z ≠ a := by
  -- along a path the rank of the task strictly increases
  have key : ∀ (path : List Nat) (a : Nat), List.IsChain (fun x y => (x, y) ∈ edges) (a :: path) →
      ∀ z, (a :: path).getLast? = some z → path ≠ [] →
      ∃ ta tz, tasks[a]? = some ta ∧ tasks[z]? = some tz ∧ rank ta.key < rank tz.key := by
    intro path
    induction path with
    | nil => intro a _ z _ hne; exact absurd rfl hne
    | cons b rest ih =>
      intro a hchain z hz _
      rw [List.isChain_cons_cons] at hchain
      obtain ⟨ta, tb, h1, h2, h3⟩ := hrank (a, b) hchain.1
      cases rest with
      | nil =>
        simp at hz; subst hz
        exact ⟨ta, tb, h1, h2, h3⟩
      | cons c rest' =>
        have hz' : (b :: c :: rest').getLast? = some z := by simpa using hz
        obtain ⟨tb', tz, h4, h5, h6⟩ := ih b hchain.2 z hz' (by simp)
        rw [h2] at h4; cases h4
        exact ⟨ta, tz, h1, h5, by omega⟩
  intro path a hchain z hz hne hza
  obtain ⟨ta, tz, h1, h2, h3⟩ := key path a hchain z hz hne
  rw [hza, h1] at h2; cases h2
  omega

/-! #### `calculate` over ANY valid order gives every task its denotational value -/

/-- the denotational value of a parameter: `spec … 2` (isothermal) and `specAdi` (adiabatic; for a shear parameter the
code defines it as the isothermal shear value).  `spec_unfold`: it satisfies the defining equation. -/
theorem spec_unfold (isZero : R → Bool) (hz : ZeroSpec isZero) (eig : Eig R) (base : Params R → R)
    (s : SField R) (k : Modulus) (hk : k ∈ shearKeys) :
    spec isZero eig base 2 (.shear s k) =
      shearValue isZero k (eig k).2 (fun k' => spec isZero eig base 2 (create s k'))
        (fun k' => spec isZero eig base 2 (create (rotatedField (eig k).1 s) k')) :=
  spec_fix hz eig base s hk

/-- for every state with the closure properties of `resolve_closed` and every order that lists all tasks and respects
the edges: `calculate` succeeds (no failed look-up) and both stores hold, in evaluation order, exactly
`(params, spec params)` for every task. -/
theorem calculate_refines_spec (isZero : R → Bool) (hz : ZeroSpec isZero) (peq : Params R → Params R → Bool)
    (hp : PeqSpec peq) (eig : Eig R) (baseIso baseAdi : Params R → R) (hc : PeqCongr peq baseIso baseAdi)
    (st : RState R)
    (hwf : ∀ t ∈ st.tasks, t.params = create t.strain t.key ∧ t.key ∈ allKeys)
    (hdeps : ∀ b t, st.tasks[b]? = some t → ∀ sk ∈ deps isZero eig t,
        ∃ a, findTask peq st.tasks (create sk.1 sk.2) = some a ∧ (a, b) ∈ st.edges)
    (order : List Nat) (hord : validOrder st.tasks.length st.edges order = true) :
    calculate isZero peq eig baseIso baseAdi st.tasks order ([], []) =
      some (entries st.tasks (spec isZero eig baseIso 2) order,
            entries st.tasks (specAdi isZero eig baseIso baseAdi) order) := by
  obtain ⟨hidx, _, hres⟩ := validOrder_spec hord
  have := calculate_entries hz hp hc ⟨hwf, hdeps⟩ order hres hidx order [] (by simp)
  simpa [entries] using this

/-! #### request independence -/

/-- end to end: for ANY request list (any subset, order, duplicates) of canonical keys and ANY valid evaluation order,
`resolve` + `calculate` + `get_*_results` return, for every requested key, `spec (create strain key)` — a value that
mentions neither the request list nor the order. -/
theorem c04_request_independent (isZero : R → Bool) (hz : ZeroSpec isZero) (peq : Params R → Params R → Bool)
    (hp : PeqSpec peq) (eig : Eig R) (baseIso baseAdi : Params R → R) (hc : PeqCongr peq baseIso baseAdi)
    (strain : SField R) (keys : List Modulus) (hkeys : ∀ k ∈ keys, k ∈ allKeys) :
    ∃ st, resolve isZero peq eig strain keys = some st ∧
      ∀ order, validOrder st.tasks.length st.edges order = true →
        ∃ iso adi, calculate isZero peq eig baseIso baseAdi st.tasks order ([], []) = some (iso, adi) ∧
          iso.results peq strain keys = some (keys.map fun k => (k, spec isZero eig baseIso 2 (create strain k))) ∧
          adi.results peq strain keys = some (keys.map fun k => (k, specAdi isZero eig baseIso baseAdi (create strain k))) := by
  have hsome := resolve_terminates isZero hz peq hp eig strain keys hkeys
  cases hst : resolve isZero peq eig strain keys with
  | none => rw [hst] at hsome; cases hsome
  | some st =>
    refine ⟨st, rfl, ?_⟩
    obtain ⟨hreq, hdeps, _, hwf⟩ := resolve_closed isZero hz peq hp eig strain keys hkeys st hst
    intro order hord
    refine ⟨_, _, calculate_refines_spec isZero hz peq hp eig baseIso baseAdi hc st hwf hdeps order hord, ?_, ?_⟩
    · exact results_of_entries st.tasks _ (fun p q h => spec_congr hp hc 2 p q h) order (validOrder_spec hord).2.1
        strain keys hreq
    · exact results_of_entries st.tasks _ (fun p q h => specAdi_congr hp hc p q h) order (validOrder_spec hord).2.1
        strain keys hreq

/-- two different requests containing the same key, evaluated in two different valid orders, return the same value for it -/
theorem c04_request_independent_pair (isZero : R → Bool) (hz : ZeroSpec isZero) (peq : Params R → Params R → Bool)
    (hp : PeqSpec peq) (eig : Eig R) (baseIso baseAdi : Params R → R) (hc : PeqCongr peq baseIso baseAdi)
    (strain : SField R) (keysA keysB : List Modulus) (hA : ∀ k ∈ keysA, k ∈ allKeys) (hB : ∀ k ∈ keysB, k ∈ allKeys)
    (stA stB : RState R) (hstA : resolve isZero peq eig strain keysA = some stA)
    (hstB : resolve isZero peq eig strain keysB = some stB)
    (orderA orderB : List Nat) (hoA : validOrder stA.tasks.length stA.edges orderA = true)
    (hoB : validOrder stB.tasks.length stB.edges orderB = true)
    (isoA adiA isoB adiB : Store R)
    (hcA : calculate isZero peq eig baseIso baseAdi stA.tasks orderA ([], []) = some (isoA, adiA))
    (hcB : calculate isZero peq eig baseIso baseAdi stB.tasks orderB ([], []) = some (isoB, adiB))
    (k : Modulus) (hkA : k ∈ keysA) (hkB : k ∈ keysB) :
    isoA.get peq (create strain k) = isoB.get peq (create strain k) ∧
    adiA.get peq (create strain k) = adiB.get peq (create strain k) ∧
    (isoA.get peq (create strain k)).isSome = true := by
  obtain ⟨hreqA, hdepsA, _, hwfA⟩ := resolve_closed isZero hz peq hp eig strain keysA hA stA hstA
  obtain ⟨hreqB, hdepsB, _, hwfB⟩ := resolve_closed isZero hz peq hp eig strain keysB hB stB hstB
  have eA := calculate_refines_spec isZero hz peq hp eig baseIso baseAdi hc stA hwfA hdepsA orderA hoA
  have eB := calculate_refines_spec isZero hz peq hp eig baseIso baseAdi hc stB hwfB hdepsB orderB hoB
  rw [hcA] at eA; rw [hcB] at eB
  cases eA; cases eB
  have look : ∀ (st : RState R) (order : List Nat) (f : Params R → R) (hf : ∀ p q, peq p q = true → f p = f q),
      validOrder st.tasks.length st.edges order = true →
      (∃ a, findTask peq st.tasks (create strain k) = some a) →
      (entries st.tasks f order).get peq (create strain k) = some (f (create strain k)) := by
    intro st order f hf ho ⟨a, ha⟩
    obtain ⟨ta, hta, hpa⟩ := findTask_some ha
    have halt : a < st.tasks.length := by
      by_contra hh
      rw [List.getElem?_eq_none (by omega)] at hta; cases hta
    obtain ⟨p', hp', hget⟩ := entries_get st.tasks f order _ ((validOrder_spec ho).2.1 a halt) hta hpa
    rw [hget, hf _ _ hp']
  refine ⟨?_, ?_, ?_⟩
  · rw [look stA orderA _ (fun p q h => spec_congr hp hc 2 p q h) hoA (hreqA k hkA),
      look stB orderB _ (fun p q h => spec_congr hp hc 2 p q h) hoB (hreqB k hkB)]
  · rw [look stA orderA _ (fun p q h => specAdi_congr hp hc p q h) hoA (hreqA k hkA),
      look stB orderB _ (fun p q h => specAdi_congr hp hc p q h) hoB (hreqB k hkB)]
  · rw [look stA orderA _ (fun p q h => spec_congr hp hc 2 p q h) hoA (hreqA k hkA)]; rfl

/-! #### isotropic limit -/

/-- every key gets the value of the isotropic tensor with `L = base(longitudinal, 1/3, 1/3)`, `O = base(off-diagonal, 1/3, 1/3)`:
equal (non-zero) axial strains in every volume row, ANY orthogonal diagonalising frame per shear key (so also any choice
inside the degenerate eigenspaces of c14, c25, c36).  By `c04_request_independent` these are the values returned for every
request list and evaluation order. -/
theorem c04_isotropic_all [CharZero R] (isZero : R → Bool) (hz : ZeroSpec isZero) (eig : Eig R)
    (heig : ∀ k ∈ shearKeys, Contract (eig k).1 (eig k).2 (fictitiousStrain k))
    (base : Params R → R) (s : SField R) (hs : IsoStrain s) (k : Modulus) (hk : k ∈ allKeys) :
    spec isZero eig base 2 (create s k) =
      cIso (base (.nonshear .longitudinal (third s) (third s))) (base (.nonshear .offDiagonal (third s) (third s))) k :=
  iso_spec hz eig heig base hs 2 k hk (rank_le_two k)

/-- the clause as the property states it: c11=c22=c33, c12=c13=c23, c44=c55=c66=(c11−c12)/2, the other twelve vanish -/
theorem c04_isotropic [CharZero R] (isZero : R → Bool) (hz : ZeroSpec isZero) (eig : Eig R)
    (heig : ∀ k ∈ shearKeys, Contract (eig k).1 (eig k).2 (fictitiousStrain k))
    (base : Params R → R) (s : SField R) (hs : IsoStrain s) :
    let v := fun p : Int × Int => spec isZero eig base 2 (create s (keyOfVoigt p))
    v (1, 1) = v (2, 2) ∧ v (2, 2) = v (3, 3) ∧ v (1, 2) = v (1, 3) ∧ v (1, 3) = v (2, 3) ∧
    v (4, 4) = (v (1, 1) - v (1, 2)) / 2 ∧ v (5, 5) = (v (1, 1) - v (1, 2)) / 2 ∧ v (6, 6) = (v (1, 1) - v (1, 2)) / 2 ∧
    ∀ p ∈ [((1 : Int), (4 : Int)), (1, 5), (1, 6), (2, 4), (2, 5), (2, 6), (3, 4), (3, 5), (3, 6), (4, 5), (4, 6), (5, 6)],
      v p = 0 := by
  have hall : ∀ p ∈ keys21, spec isZero eig base 2 (create s (keyOfVoigt p)) =
      cIso (base (.nonshear .longitudinal (third s) (third s))) (base (.nonshear .offDiagonal (third s) (third s)))
        (keyOfVoigt p) := fun p hp =>
    c04_isotropic_all isZero hz eig heig base s hs _ (List.mem_map.mpr ⟨p, hp, rfl⟩)
  have hcls : ∀ p ∈ keys21, isoClass (keyOfVoigt p) =
      if p.2 ≤ 3 then (if p.1 = p.2 then 0 else 1) else if p.1 = p.2 then 2 else 3 := by decide +kernel
  have hval : ∀ p ∈ keys21, ∀ L O : R, cIso L O (keyOfVoigt p) =
      if p.2 ≤ 3 then (if p.1 = p.2 then L else O) else if p.1 = p.2 then (L - O) / 2 else 0 := by
    intro p hp L O
    unfold cIso
    rw [hcls p hp]
    split_ifs <;> rfl
  have hmem : ∀ p ∈ [((1 : Int), (1 : Int)), (2, 2), (3, 3), (1, 2), (1, 3), (2, 3), (4, 4), (5, 5), (6, 6), (1, 4), (1, 5),
      (1, 6), (2, 4), (2, 5), (2, 6), (3, 4), (3, 5), (3, 6), (4, 5), (4, 6), (5, 6)], p ∈ keys21 := by decide +kernel
  intro v
  have e : ∀ p (hp : p ∈ keys21), v p = _ := fun p hp => (hall p hp).trans (hval p hp _ _)
  refine ⟨?_, ?_, ?_, ?_, ?_, ?_, ?_, ?_⟩
  · rw [e (1, 1) (by decide +kernel), e (2, 2) (by decide +kernel)]; simp
  · rw [e (2, 2) (by decide +kernel), e (3, 3) (by decide +kernel)]; simp
  · rw [e (1, 2) (by decide +kernel), e (1, 3) (by decide +kernel)]; simp
  · rw [e (1, 3) (by decide +kernel), e (2, 3) (by decide +kernel)]; simp
  · rw [e (4, 4) (by decide +kernel), e (1, 1) (by decide +kernel), e (1, 2) (by decide +kernel)]; simp
  · rw [e (5, 5) (by decide +kernel), e (1, 1) (by decide +kernel), e (1, 2) (by decide +kernel)]; simp
  · rw [e (6, 6) (by decide +kernel), e (1, 1) (by decide +kernel), e (1, 2) (by decide +kernel)]; simp
  · intro p hp
    have hp21 : p ∈ keys21 := hmem p (by simp only [List.mem_cons] at hp ⊢; tauto)
    rw [e p hp21]
    simp only [List.mem_cons, List.mem_nil_iff, or_false] at hp
    rcases hp with rfl | rfl | rfl | rfl | rfl | rfl | rfl | rfl | rfl | rfl | rfl | rfl <;> simp

/-- adiabatic tensor in the isotropic limit: the non-shear adiabatic values are equal within their class, and the
adiabatic shear values (which the code DEFINES as the isothermal ones) complete an isotropic tensor exactly when the
adiabatic-minus-isothermal gap is the same for the longitudinal and the off-diagonal component at equal strains
(a statement about the C02 formula, which is a parameter here). -/
theorem c04_isotropic_adiabatic [CharZero R] (isZero : R → Bool) (hz : ZeroSpec isZero) (eig : Eig R)
    (heig : ∀ k ∈ shearKeys, Contract (eig k).1 (eig k).2 (fictitiousStrain k))
    (baseIso baseAdi : Params R → R) (s : SField R) (hs : IsoStrain s)
    (hgap : baseAdi (.nonshear .longitudinal (third s) (third s)) - baseIso (.nonshear .longitudinal (third s) (third s)) =
            baseAdi (.nonshear .offDiagonal (third s) (third s)) - baseIso (.nonshear .offDiagonal (third s) (third s))) :
    let w := fun p : Int × Int => specAdi isZero eig baseIso baseAdi (create s (keyOfVoigt p))
    w (1, 1) = w (2, 2) ∧ w (2, 2) = w (3, 3) ∧ w (1, 2) = w (1, 3) ∧ w (1, 3) = w (2, 3) ∧
    w (4, 4) = (w (1, 1) - w (1, 2)) / 2 ∧ w (5, 5) = w (4, 4) ∧ w (6, 6) = w (4, 4) ∧ w (1, 4) = 0 ∧ w (4, 5) = 0 := by
  have hiso := c04_isotropic isZero hz eig heig baseIso s hs
  simp only at hiso
  obtain ⟨_, _, _, _, h44, h55, h66, hz0⟩ := hiso
  have hns : ∀ p : Int × Int, (keyOfVoigt p).isShear = false →
      specAdi isZero eig baseIso baseAdi (create s (keyOfVoigt p)) =
        baseAdi (.nonshear (keyOfVoigt p).calcType (third s) (third s)) := by
    intro p hp; rw [create_nonshear_iso hs hp]; rfl
  have hnsI : ∀ p : Int × Int, (keyOfVoigt p).isShear = false →
      spec isZero eig baseIso 2 (create s (keyOfVoigt p)) =
        baseIso (.nonshear (keyOfVoigt p).calcType (third s) (third s)) := by
    intro p hp; rw [create_nonshear_iso hs hp, spec_nonshear]
  have hsh : ∀ p : Int × Int, (keyOfVoigt p).isShear = true →
      specAdi isZero eig baseIso baseAdi (create s (keyOfVoigt p)) = spec isZero eig baseIso 2 (create s (keyOfVoigt p)) := by
    intro p hp
    have : create s (keyOfVoigt p) = .shear s (keyOfVoigt p) := by unfold create; simp [hp]
    rw [this]; rfl
  intro w
  have c11 : (keyOfVoigt (1, 1)).isShear = false ∧ (keyOfVoigt (1, 1)).calcType = .longitudinal := by decide +kernel
  have c22 : (keyOfVoigt (2, 2)).isShear = false ∧ (keyOfVoigt (2, 2)).calcType = .longitudinal := by decide +kernel
  have c33 : (keyOfVoigt (3, 3)).isShear = false ∧ (keyOfVoigt (3, 3)).calcType = .longitudinal := by decide +kernel
  have c12 : (keyOfVoigt (1, 2)).isShear = false ∧ (keyOfVoigt (1, 2)).calcType = .offDiagonal := by decide +kernel
  have c13 : (keyOfVoigt (1, 3)).isShear = false ∧ (keyOfVoigt (1, 3)).calcType = .offDiagonal := by decide +kernel
  have c23 : (keyOfVoigt (2, 3)).isShear = false ∧ (keyOfVoigt (2, 3)).calcType = .offDiagonal := by decide +kernel
  have s44 : (keyOfVoigt (4, 4)).isShear = true := by decide +kernel
  have s55 : (keyOfVoigt (5, 5)).isShear = true := by decide +kernel
  have s66 : (keyOfVoigt (6, 6)).isShear = true := by decide +kernel
  have s14 : (keyOfVoigt (1, 4)).isShear = true := by decide +kernel
  have s45 : (keyOfVoigt (4, 5)).isShear = true := by decide +kernel
  refine ⟨?_, ?_, ?_, ?_, ?_, ?_, ?_, ?_, ?_⟩
  · show specAdi _ _ _ _ _ = specAdi _ _ _ _ _; rw [hns _ c11.1, hns _ c22.1, c11.2, c22.2]
  · show specAdi _ _ _ _ _ = specAdi _ _ _ _ _; rw [hns _ c22.1, hns _ c33.1, c22.2, c33.2]
  · show specAdi _ _ _ _ _ = specAdi _ _ _ _ _; rw [hns _ c12.1, hns _ c13.1, c12.2, c13.2]
  · show specAdi _ _ _ _ _ = specAdi _ _ _ _ _; rw [hns _ c13.1, hns _ c23.1, c13.2, c23.2]
  · show specAdi _ _ _ _ _ = (specAdi _ _ _ _ _ - specAdi _ _ _ _ _) / 2
    rw [hsh _ s44, h44, hnsI _ c11.1, hnsI _ c12.1, hns _ c11.1, hns _ c12.1, c11.2, c12.2]
    linear_combination (-(1 : R) / 2) * hgap
  · show specAdi _ _ _ _ _ = specAdi _ _ _ _ _; rw [hsh _ s55, hsh _ s44, h55, h44]
  · show specAdi _ _ _ _ _ = specAdi _ _ _ _ _; rw [hsh _ s66, hsh _ s44, h66, h44]
  · show specAdi _ _ _ _ _ = 0; rw [hsh _ s14]; exact hz0 (1, 4) (by simp)
  · show specAdi _ _ _ _ _ = 0; rw [hsh _ s45]; exact hz0 (4, 5) (by simp)

/-! #### relabelling the crystal axes permutes the tensor

  FULL STATEMENT (as the property words it): for every one of the six axis permutations π, every strain field and every
  key, `value (π·strain, π·key) = value (strain, key)` for the eigen-decompositions numpy returns.
  What is proved:
  * `c04_axis_permutation_partial` — for every key whose frames are EQUIVARIANT (the frame of the relabelled key is the
    relabelled frame, up to the sign of each eigenvector, eigenvalues in the same — ascending — order).  For the twelve
    shear keys with a simple spectrum every valid decomposition in ascending order is of that form (eigenvectors are unique
    up to sign); that uniqueness is NOT proved here, it is the hypothesis `EigEquivariant`.
  * `c04_degenerate_zero` — c14, c25, c36 have the double eigenvalue 1.  With a basis of the eigenspace that contains the
    coordinate axis (what LAPACK returns, measured by the harness) the component is exactly 0 for every strain field.
    For an arbitrary basis inside the eigenspace the value DEPENDS on the basis — now decided, not a gap of the proof:
    `c04_degenerate_value` gives the value for EVERY decomposition that meets the eigen contract (ascending spectrum), as an
    explicit function of one number `c = T[p,1]²` (the squared component of the second eigenvector along the coordinate
    axis); it is 0 for `c = 0` (and for `c = 1` with symmetric non-shear values) and in general not:
    `c04_degenerate_basis_dependent` exhibits, over ℝ, two valid eigen-decompositions that differ only by a 45° rotation
    inside the double eigenspace of c14 and give c14 = 0 and c14 = −1/128;
    `c04_axis_permutation_fails_for_rotated_basis`: with such a basis the relabelling clause is FALSE in the model
    (c25 of the relabelled strain = 0 ≠ c14).  The clause therefore holds for the real code only because LAPACK returns
    the coordinate axis as one eigenvector for these three block-diagonal matrices (measured by the harness on every run;
    re-measured with a monkey-patched `numpy.linalg.eigh`: a 45° basis moves c14 by 2.4 % of |c11| on the real classes).
  * `c04_axis_permutation` — both together: all 21 keys; `c04_axis_permutation_contract` — the same with the frames of
    c14, c25, c36 and their partners described by the eigen contract + "second eigenvector ⟂ axis" instead of `DegFrames`.
  Both need the non-shear values to be symmetric under exchange of the two strain components (`hsymm`; the code passes
  `(e_i, e_k)` in key order — its own `# TODO: sorted`). -/

/-- relabelling for equivariant frames -/
theorem c04_axis_permutation_partial [CharZero R] (isZero : R → Bool) (hz : ZeroSpec isZero) (eig : Eig R)
    (base : Params R → R) (hsymm : ∀ ct a b, base (.nonshear ct a b) = base (.nonshear ct b a))
    (v : Fin 3 × Fin 3 × Fin 3) (hv : v ∈ permTriples) (heq : ∀ k ∈ shearKeys, EigEquivariant eig v k)
    (s : SField R) (k : Modulus) (hk : k ∈ allKeys) :
    spec isZero eig base 2 (create (permField v s) (permKey v k)) = spec isZero eig base 2 (create s k) :=
  perm_spec hz eig base hsymm hv s (fun k hk => Or.inl (heq k hk)) 2 k hk (rank_le_two k)

/-- c14, c25, c36 vanish identically for the frames that contain the coordinate axis -/
theorem c04_degenerate_zero [CharZero R] (isZero : R → Bool) (hz : ZeroSpec isZero) (eig : Eig R)
    (base : Params R → R) (t : Fin 3 × Fin 3 × Fin 3) (ht : t ∈ degTriples) (hf : DegFrames eig t) (s : SField R) :
    spec isZero eig base 2 (create s (degKey t)) = 0 :=
  degenerate_zero hz eig base ht hf s

/-- the three degenerate keys are c14, c25, c36; the other twelve shear keys are the "simple" ones -/
theorem c04_degenerate_keys : (degTriples.map degKey).map Modulus.voigt = [some (1, 4), some (2, 5), some (3, 6)] ∧
    simpleShearKeys.length = 12 ∧ ∀ k ∈ shearKeys, (∃ t ∈ degTriples, k = degKey t) ∨ k ∈ simpleShearKeys :=
  ⟨simpleShearKeys_length.2, simpleShearKeys_length.1, shearKeys_split⟩

/-- all 21 keys: equivariant frames for the twelve simple shear keys, axis-containing frames for c14, c25, c36 -/
theorem c04_axis_permutation [CharZero R] (isZero : R → Bool) (hz : ZeroSpec isZero) (eig : Eig R)
    (base : Params R → R) (hsymm : ∀ ct a b, base (.nonshear ct a b) = base (.nonshear ct b a))
    (v : Fin 3 × Fin 3 × Fin 3) (hv : v ∈ permTriples) (heq : ∀ k ∈ simpleShearKeys, EigEquivariant eig v k)
    (hdeg : ∀ t ∈ degTriples, DegFrames eig t)
    (s : SField R) (k : Modulus) (hk : k ∈ allKeys) :
    spec isZero eig base 2 (create (permField v s) (permKey v k)) = spec isZero eig base 2 (create s k) := by
  refine perm_spec hz eig base hsymm hv s (fun k hk => ?_) 2 k hk (rank_le_two k)
  rcases shearKeys_split k hk with ⟨t, ht, rfl⟩ | hsimple
  · right
    obtain ⟨t', ht', hkey⟩ := permKey_deg v hv t ht
    rw [hkey, degenerate_zero hz eig base ht' (hdeg t' ht'), degenerate_zero hz eig base ht (hdeg t ht)]
  · exact Or.inl (heq k hsimple)

/-! #### the double eigenspace of c14, c25, c36: the value for an ARBITRARY orthonormal eigenbasis -/

/-- **c04_degenerate_value.**  For ANY eigen-decompositions of the fictitious strains of a degenerate key `c_ppqr` (spectrum
−1, 1, 1, ascending as `eigh` reports it) and of its pure-shear partner `c_qrqr` (−1, 0, 1) that meet the eigen contract
`TᵀT = 1`, `TᵀeT = diag λ`, every strain field and all non-shear values, the model value of `c_ppqr` is `degValue … c …` with
`c = T[p,1]²`:
  `¼ [ L(a) + L(b) − L(m) − L(e_p) − 2 O(m,a) − 2 O(m,b) + 2 O(a,b) + 2 O(m,m) ]`,
`m = (e_q+e_r)/2`, `a = c·e_p + (1−c)·m`, `b = (1−c)·e_p + c·m` (all normalised by `Σe`; `L`, `O` = longitudinal /
off-diagonal phonon values as functions of the strain fractions).  The basis inside the double eigenspace enters through `c`
and nothing else; every `c ∈ [0, 1]` occurs. -/
theorem c04_degenerate_value [CharZero R] (isZero : R → Bool) (hz : ZeroSpec isZero) (eig : Eig R) (base : Params R → R)
    (t : Fin 3 × Fin 3 × Fin 3) (ht : t ∈ degTriples)
    (hD : Contract (eig (degKey t)).1 (eig (degKey t)).2 (fictitiousStrain (degKey t)))
    (hlD : (eig (degKey t)).2 0 = -1 ∧ (eig (degKey t)).2 1 = 1 ∧ (eig (degKey t)).2 2 = 1)
    (hS : Contract (eig (degShear t)).1 (eig (degShear t)).2 (fictitiousStrain (degShear t)))
    (hlS : (eig (degShear t)).2 0 = -1 ∧ (eig (degShear t)).2 1 = 0 ∧ (eig (degShear t)).2 2 = 1) (s : SField R) :
    spec isZero eig base 2 (create s (degKey t)) =
      degValue base t ((eig (degKey t)).1 t.1 1 * (eig (degKey t)).1 t.1 1) s :=
  degenerate_value hz eig base ht (DegFramesC.of_contract ht hD hlD hS hlS) s

/-- … in particular 0 as soon as the second eigenvector is orthogonal to the coordinate axis `p` (then the third one IS ± the
axis — what LAPACK returns): `c04_degenerate_zero` with the frames described by the contract alone -/
theorem c04_degenerate_zero_contract [CharZero R] (isZero : R → Bool) (hz : ZeroSpec isZero) (eig : Eig R)
    (base : Params R → R) (t : Fin 3 × Fin 3 × Fin 3) (ht : t ∈ degTriples)
    (hD : Contract (eig (degKey t)).1 (eig (degKey t)).2 (fictitiousStrain (degKey t)))
    (hlD : (eig (degKey t)).2 0 = -1 ∧ (eig (degKey t)).2 1 = 1 ∧ (eig (degKey t)).2 2 = 1)
    (hS : Contract (eig (degShear t)).1 (eig (degShear t)).2 (fictitiousStrain (degShear t)))
    (hlS : (eig (degShear t)).2 0 = -1 ∧ (eig (degShear t)).2 1 = 0 ∧ (eig (degShear t)).2 2 = 1)
    (hax : (eig (degKey t)).1 t.1 1 = 0) (s : SField R) :
    spec isZero eig base 2 (create s (degKey t)) = 0 := by
  rw [c04_degenerate_value isZero hz eig base t ht hD hlD hS hlS s, hax, mul_zero, degValue_zero]

/-- all 21 keys, the frames of c14, c25, c36 and of their partners c44, c55, c66 described by the eigen contract -/
theorem c04_axis_permutation_contract [CharZero R] (isZero : R → Bool) (hz : ZeroSpec isZero) (eig : Eig R)
    (base : Params R → R) (hsymm : ∀ ct a b, base (.nonshear ct a b) = base (.nonshear ct b a))
    (v : Fin 3 × Fin 3 × Fin 3) (hv : v ∈ permTriples) (heq : ∀ k ∈ simpleShearKeys, EigEquivariant eig v k)
    (hdeg : ∀ t ∈ degTriples,
      Contract (eig (degKey t)).1 (eig (degKey t)).2 (fictitiousStrain (degKey t)) ∧
      ((eig (degKey t)).2 0 = -1 ∧ (eig (degKey t)).2 1 = 1 ∧ (eig (degKey t)).2 2 = 1) ∧
      Contract (eig (degShear t)).1 (eig (degShear t)).2 (fictitiousStrain (degShear t)) ∧
      ((eig (degShear t)).2 0 = -1 ∧ (eig (degShear t)).2 1 = 0 ∧ (eig (degShear t)).2 2 = 1) ∧
      (eig (degKey t)).1 t.1 1 = 0)
    (s : SField R) (k : Modulus) (hk : k ∈ allKeys) :
    spec isZero eig base 2 (create (permField v s) (permKey v k)) = spec isZero eig base 2 (create s k) := by
  refine c04_axis_permutation isZero hz eig base hsymm v hv heq (fun t ht => ?_) s k hk
  obtain ⟨hD, hlD, hS, hlS, hax⟩ := hdeg t ht
  have := DegFramesC.of_contract ht hD hlD hS hlS
  rw [hax, mul_zero] at this
  exact this.toDegFrames

/-- **c04_degenerate_basis_dependent** — the value of c14 DOES depend on the basis chosen inside the double eigenspace.
`eig` is any family of decompositions that meets the contract at c14 (with the coordinate axis as third eigenvector, as
LAPACK returns it) and at c44; `eig'` differs from it ONLY in the frame of c14, which is rotated by 45° inside the double
eigenspace (`T45`: columns `(0, −h, h)`, `(h, ½, ½)`, `(−h, ½, ½)`, `h = √2/2`).  `eig'` meets the same contract with the
same eigenvalues, and yet for the symmetric non-shear values `base0` (longitudinal = product of the two strain fractions,
off-diagonal = 0) and the strain (2, 1, 1) the model gives c14 = 0 with `eig` and c14 = −1/128 with `eig'`.  (Over ℚ there is
no orthonormal eigenbasis at all — the eigenvector of −1 is `(0, 1, −1)/√2` — hence ℝ and not a kernel evaluation.) -/
theorem c04_degenerate_basis_dependent (isZero : ℝ → Bool) (hz : ZeroSpec isZero) (eig : Eig ℝ)
    (hD : Contract (eig (degKey (0, 1, 2))).1 (eig (degKey (0, 1, 2))).2 (fictitiousStrain (degKey (0, 1, 2))))
    (hlD : (eig (degKey (0, 1, 2))).2 0 = -1 ∧ (eig (degKey (0, 1, 2))).2 1 = 1 ∧ (eig (degKey (0, 1, 2))).2 2 = 1)
    (hax : (eig (degKey (0, 1, 2))).1 0 1 = 0)
    (hS : Contract (eig (degShear (0, 1, 2))).1 (eig (degShear (0, 1, 2))).2 (fictitiousStrain (degShear (0, 1, 2))))
    (hlS : (eig (degShear (0, 1, 2))).2 0 = -1 ∧ (eig (degShear (0, 1, 2))).2 1 = 0 ∧ (eig (degShear (0, 1, 2))).2 2 = 1) :
    let eig' : Eig ℝ := Function.update eig (degKey (0, 1, 2)) (T45, lamDeg)
    Contract (eig' (degKey (0, 1, 2))).1 (eig' (degKey (0, 1, 2))).2 (fictitiousStrain (degKey (0, 1, 2))) ∧
    (eig' (degKey (0, 1, 2))).2 = (eig (degKey (0, 1, 2))).2 ∧ (∀ k, k ≠ degKey (0, 1, 2) → eig' k = eig k) ∧
    spec isZero eig base0 2 (create s0 (degKey (0, 1, 2))) = 0 ∧
    spec isZero eig' base0 2 (create s0 (degKey (0, 1, 2))) = -1 / 128 := by
  intro eig'
  have hne : degShear (0, 1, 2) ≠ degKey (0, 1, 2) := by decide +kernel
  have h14 : eig' (degKey (0, 1, 2)) = (T45, lamDeg) := Function.update_self ..
  have h44 : eig' (degShear (0, 1, 2)) = eig (degShear (0, 1, 2)) := Function.update_of_ne hne ..
  refine ⟨by rw [h14]; exact T45_contract, ?_, fun k hk => Function.update_of_ne hk .., ?_, ?_⟩
  · rw [h14]
    funext a
    fin_cases a
    · exact hlD.1.symm
    · exact hlD.2.1.symm
    · exact hlD.2.2.symm
  · exact c04_degenerate_zero_contract isZero hz eig base0 (0, 1, 2) (by decide) hD hlD hS hlS hax s0
  · rw [c04_degenerate_value isZero hz eig' base0 (0, 1, 2) (by decide) (by rw [h14]; exact T45_contract)
      (by rw [h14]; exact ⟨rfl, rfl, rfl⟩) (by rw [h44]; exact hS) (by rw [h44]; exact hlS) s0, h14]
    have hc : T45 (0, 1, 2).1 1 * T45 (0, 1, 2).1 1 = 1 / 2 := by simp [T45, h2_sq]
    rw [hc]
    exact degValue_base0_half

/-- **c04_axis_permutation_fails_for_rotated_basis** — with such a basis the relabelling clause is false in the model.
`eig'` as above (only the frame of c14 rotated inside its double eigenspace; contract and eigenvalues unchanged), the frames
of c25 and c55 as LAPACK returns them (`DegFrames eig (1, 0, 2)`), `base0` symmetric: exchanging the axes 1 ↔ 2 maps c14 to
c25 and the strain (2, 1, 1) to (1, 2, 1), but c25 of the relabelled strain is 0 while c14 of the original one is −1/128. -/
theorem c04_axis_permutation_fails_for_rotated_basis (isZero : ℝ → Bool) (hz : ZeroSpec isZero) (eig : Eig ℝ)
    (hD : Contract (eig (degKey (0, 1, 2))).1 (eig (degKey (0, 1, 2))).2 (fictitiousStrain (degKey (0, 1, 2))))
    (hlD : (eig (degKey (0, 1, 2))).2 0 = -1 ∧ (eig (degKey (0, 1, 2))).2 1 = 1 ∧ (eig (degKey (0, 1, 2))).2 2 = 1)
    (hax : (eig (degKey (0, 1, 2))).1 0 1 = 0)
    (hS : Contract (eig (degShear (0, 1, 2))).1 (eig (degShear (0, 1, 2))).2 (fictitiousStrain (degShear (0, 1, 2))))
    (hlS : (eig (degShear (0, 1, 2))).2 0 = -1 ∧ (eig (degShear (0, 1, 2))).2 1 = 0 ∧ (eig (degShear (0, 1, 2))).2 2 = 1)
    (h25 : DegFrames eig (1, 0, 2)) :
    let eig' : Eig ℝ := Function.update eig (degKey (0, 1, 2)) (T45, lamDeg)
    (∀ ct a b, base0 (.nonshear ct a b) = base0 (.nonshear ct b a)) ∧
    permKey (1, 0, 2) (degKey (0, 1, 2)) = degKey (1, 0, 2) ∧
    spec isZero eig' base0 2 (create (permField (1, 0, 2) s0) (permKey (1, 0, 2) (degKey (0, 1, 2)))) = 0 ∧
    spec isZero eig' base0 2 (create s0 (degKey (0, 1, 2))) = -1 / 128 ∧
    spec isZero eig' base0 2 (create (permField (1, 0, 2) s0) (permKey (1, 0, 2) (degKey (0, 1, 2)))) ≠
      spec isZero eig' base0 2 (create s0 (degKey (0, 1, 2))) := by
  intro eig'
  have hkey : permKey (1, 0, 2) (degKey (0, 1, 2)) = degKey (1, 0, 2) := by decide +kernel
  have hne1 : degKey (1, 0, 2) ≠ degKey (0, 1, 2) := by decide +kernel
  have hne2 : degShear (1, 0, 2) ≠ degKey (0, 1, 2) := by decide +kernel
  have e1 : eig' (degKey (1, 0, 2)) = eig (degKey (1, 0, 2)) := Function.update_of_ne hne1 ..
  have e2 : eig' (degShear (1, 0, 2)) = eig (degShear (1, 0, 2)) := Function.update_of_ne hne2 ..
  have h25' : DegFrames eig' (1, 0, 2) := by
    constructor
    · rw [e1]; exact h25.lamD
    · rw [e1]; exact h25.rotD
    · rw [e2]; exact h25.lamS
    · rw [e2]; exact h25.rotS
  have hzero : spec isZero eig' base0 2 (create (permField (1, 0, 2) s0) (permKey (1, 0, 2) (degKey (0, 1, 2)))) = 0 := by
    rw [hkey]
    exact c04_degenerate_zero isZero hz eig' base0 (1, 0, 2) (by decide) h25' _
  have hval := (c04_degenerate_basis_dependent isZero hz eig hD hlD hax hS hlS).2.2.2.2
  refine ⟨base0_symm, hkey, hzero, hval, ?_⟩
  rw [hzero, hval]
  norm_num

/-! #### non-vacuity -/

/-- frames as LAPACK returns them for c14 and c44 over `ℝ` (`s = √2/2`): they meet the eigen contract AND `DegFrames` -/
example : ∃ eig : Eig ℝ, DegFrames eig (0, 1, 2) ∧
    Contract (eig (degKey (0, 1, 2))).1 (eig (degKey (0, 1, 2))).2 (fictitiousStrain (degKey (0, 1, 2))) := by
  have hs : (Real.sqrt 2 / 2) * (Real.sqrt 2 / 2) = 1 / 2 := by
    have := Real.mul_self_sqrt (show (0 : ℝ) ≤ 2 by norm_num)
    nlinarith
  let T14 : Mat3 ℝ := fun i a => ![![0, 0, 1], ![-(Real.sqrt 2 / 2), Real.sqrt 2 / 2, 0], ![Real.sqrt 2 / 2, Real.sqrt 2 / 2, 0]] i a
  let T44 : Mat3 ℝ := fun i a => ![![0, 1, 0], ![-(Real.sqrt 2 / 2), 0, Real.sqrt 2 / 2], ![Real.sqrt 2 / 2, 0, Real.sqrt 2 / 2]] i a
  have hne : degKey (0, 1, 2) ≠ degShear (0, 1, 2) := by decide +kernel
  refine ⟨fun k => if k = degKey (0, 1, 2) then (T14, fun a => ![-1, 1, 1] a) else (T44, fun a => ![-1, 0, 1] a), ?_, ?_⟩
  · constructor
    · simp
    · intro row
      simp only [if_true, strainRotated_sq, mOf, T14]
      refine ⟨?_, ?_, ?_⟩ <;> simp <;> linear_combination (row 1 + row 2) * hs
    · simp [hne.symm]
    · intro row
      simp only [hne.symm, if_false, strainRotated_sq, mOf, T44]
      refine ⟨?_, ?_, ?_⟩ <;> simp <;> linear_combination (row 1 + row 2) * hs
  · simp only [if_true]
    have hmask : ∀ i j : Fin 3, fictitiousMask (degKey (0, 1, 2)) i j =
        ![![true, false, false], ![false, false, true], ![false, true, false]] i j := by decide +kernel
    have hf : ∀ i j : Fin 3, fictitiousStrain (α := ℝ) (degKey (0, 1, 2)) i j =
        ![![1, 0, 0], ![0, 0, 1], ![0, 1, 0]] i j := by
      intro i j
      unfold fictitiousStrain
      rw [hmask]
      fin_cases i <;> fin_cases j <;> simp
    constructor
    · intro a b
      fin_cases a <;> fin_cases b <;> simp [sum3, T14] <;> nlinarith [hs]
    · intro a b
      simp only [hf]
      fin_cases a <;> fin_cases b <;> simp [sum3, T14] <;> nlinarith [hs]

/-- the hypotheses of `c04_degenerate_basis_dependent` / `c04_axis_permutation_fails_for_rotated_basis` are met by the frames
numpy returns for c14, c44, c25, c55 (`T14`, `T44`, `T25`, `T55` of Lemmas/DegenerateBasis.lean) -/
example : ∃ eig : Eig ℝ,
    Contract (eig (degKey (0, 1, 2))).1 (eig (degKey (0, 1, 2))).2 (fictitiousStrain (degKey (0, 1, 2))) ∧
    ((eig (degKey (0, 1, 2))).2 0 = -1 ∧ (eig (degKey (0, 1, 2))).2 1 = 1 ∧ (eig (degKey (0, 1, 2))).2 2 = 1) ∧
    (eig (degKey (0, 1, 2))).1 0 1 = 0 ∧
    Contract (eig (degShear (0, 1, 2))).1 (eig (degShear (0, 1, 2))).2 (fictitiousStrain (degShear (0, 1, 2))) ∧
    ((eig (degShear (0, 1, 2))).2 0 = -1 ∧ (eig (degShear (0, 1, 2))).2 1 = 0 ∧ (eig (degShear (0, 1, 2))).2 2 = 1) ∧
    DegFrames eig (1, 0, 2) := by
  have n1 : degShear (0, 1, 2) ≠ degKey (0, 1, 2) := by decide +kernel
  have n2 : degKey (1, 0, 2) ≠ degKey (0, 1, 2) := by decide +kernel
  have n3 : degKey (1, 0, 2) ≠ degShear (0, 1, 2) := by decide +kernel
  have n4 : degShear (1, 0, 2) ≠ degKey (0, 1, 2) := by decide +kernel
  have n5 : degShear (1, 0, 2) ≠ degShear (0, 1, 2) := by decide +kernel
  have n6 : degShear (1, 0, 2) ≠ degKey (1, 0, 2) := by decide +kernel
  let eig : Eig ℝ := fun k =>
    if k = degKey (0, 1, 2) then (T14, lamDeg) else if k = degShear (0, 1, 2) then (T44, lamShear)
    else if k = degKey (1, 0, 2) then (T25, lamDeg) else (T55, lamShear)
  have h14 : eig (degKey (0, 1, 2)) = (T14, lamDeg) := by simp [eig]
  have h44 : eig (degShear (0, 1, 2)) = (T44, lamShear) := by simp [eig, n1]
  have h25 : eig (degKey (1, 0, 2)) = (T25, lamDeg) := by simp [eig, n2, n3]
  have h55 : eig (degShear (1, 0, 2)) = (T55, lamShear) := by simp [eig, n4, n5, n6]
  refine ⟨eig, by rw [h14]; exact T14_contract, by rw [h14]; exact ⟨rfl, rfl, rfl⟩, by rw [h14]; simp [T14],
    by rw [h44]; exact T44_contract, by rw [h44]; exact ⟨rfl, rfl, rfl⟩, ?_⟩
  have hC := DegFramesC.of_contract (eig := eig) (t := (1, 0, 2)) (by decide) (by rw [h25]; exact T25_contract)
    (by rw [h25]; exact ⟨rfl, rfl, rfl⟩) (by rw [h55]; exact T55_contract) (by rw [h55]; exact ⟨rfl, rfl, rfl⟩)
  have hc : (eig (degKey (1, 0, 2))).1 (1, 0, 2).1 1 * (eig (degKey (1, 0, 2))).1 (1, 0, 2).1 1 = 0 := by
    rw [h25]; simp [T25]
  rw [hc] at hC
  exact hC.toDegFrames

/-- equivariant frames exist: exchanging axes 1 and 2 maps c44 to c55, and the frame of c55 with the first two rows
exchanged and two eigenvectors negated (as numpy returns it) is equivariant to the frame of c44 -/
example : ∃ eig : Eig ℝ, permKey (1, 0, 2) (keyOfVoigt (4, 4)) = keyOfVoigt (5, 5) ∧
    EigEquivariant eig (1, 0, 2) (keyOfVoigt (4, 4)) := by
  let T44 : Mat3 ℝ := fun i a => ![![0, 1, 0], ![-(Real.sqrt 2 / 2), 0, Real.sqrt 2 / 2], ![Real.sqrt 2 / 2, 0, Real.sqrt 2 / 2]] i a
  let T55 : Mat3 ℝ := fun i a => ![![-(Real.sqrt 2 / 2), 0, -(Real.sqrt 2 / 2)], ![0, -1, 0], ![Real.sqrt 2 / 2, 0, -(Real.sqrt 2 / 2)]] i a
  have hkey : permKey (1, 0, 2) (keyOfVoigt (4, 4)) = keyOfVoigt (5, 5) := by decide +kernel
  have hne : keyOfVoigt (5, 5) ≠ keyOfVoigt (4, 4) := by decide +kernel
  refine ⟨fun k => if k = keyOfVoigt (4, 4) then (T44, fun a => ![-1, 0, 1] a) else (T55, fun a => ![-1, 0, 1] a), hkey, ?_⟩
  unfold EigEquivariant
  rw [hkey]
  refine ⟨by simp [hne], fun a => ![1, -1, -1] a, ?_, ?_⟩
  · intro a; fin_cases a <;> simp
  · intro i a
    simp only [hne, if_false, if_true]
    fin_cases i <;> fin_cases a <;> simp [permOf, T44, T55]


/-- exact equality of parameters meets `PeqSpec` and `PeqCongr` (for any base values) -/
example (baseIso baseAdi : Params ℚ → ℚ) : ∃ peq : Params ℚ → Params ℚ → Bool, PeqSpec peq ∧ PeqCongr peq baseIso baseAdi := by
  classical
  refine ⟨fun p q => decide (p = q), ⟨?_, ?_, ?_, ?_⟩, ⟨?_, ?_, ?_, ?_⟩⟩
  · intro p; simp
  · intro p q h; simp at h; simp [h]
  · intro p q r h1 h2; simp at h1 h2; simp [h1, h2]
  · intro p q h; simp at h; rw [h]
  · intro p q h; simp at h; rw [h]
  · intro p q h; simp at h; rw [h]
  · intro s s' k h k'; simp at h; simp [h]
  · intro s s' k h T k'; simp at h; simp [h]

/-- a concrete run of the model over ℚ with exact equality: request [c44, c11] at strain (1,2,3) with the spectrum
(-1,0,1) and (for the sake of a rational example) the identity as frame: `pop()` takes c11 first, then c44, whose rotated
c'11 is the SAME task as c11 (edge 0→1), c'13 is pushed twice (edge 3→1 twice); [0,2,3,1] is a valid order, [0,1,2,3] is not -/
example :
    let peq : Params ℚ → Params ℚ → Bool := fun p q => match p, q with
      | .nonshear c a b, .nonshear c' a' b' => decide (c = c') && decide (a = a') && decide (b = b')
      | .shear s k, .shear s' k' => decide (k = k') && decide (s.map (fun r => [r 0, r 1, r 2]) = s'.map (fun r => [r 0, r 1, r 2]))
      | _, _ => false
    let eig : Eig ℚ := fun _ => (fun i a => if i = a then 1 else 0, fun a => ![-1, 0, 1] a)
    let r := resolve (fun x => decide (x = 0)) peq eig [fun i => ![1, 2, 3] i] [keyOfVoigt (4, 4), keyOfVoigt (1, 1)]
    (r.map fun st => (st.tasks.map (·.key.voigt), st.edges)) =
      some ([some (1, 1), some (4, 4), some (3, 3), some (1, 3)], [(2, 1), (3, 1), (3, 1), (0, 1)]) ∧
    validOrder 4 [(2, 1), (3, 1), (3, 1), (0, 1)] [0, 2, 3, 1] = true ∧
    validOrder 4 [(2, 1), (3, 1), (3, 1), (0, 1)] [0, 1, 2, 3] = false := by
  decide +kernel

/-! #### the task parameters are the source's -/

omit [Field R] in
/-- **model-is-source** for `PhononContributionTaskParams.create`: the two parameters of a non-shear task are the strain columns
`i-1` and `k-1` of `i, j, k, l = key.s`, each divided by the row sum — as extracted from `tasks.py` on this run
(`Generated/TasksSpec.lean`); a shear task keeps `(strain, key)`.  `__eq__`, `_STRAIN_RTOL` (a rounding-level tolerance, second
conjunct) and the store wiring of `calculate()` are pinned by the same translator. -/
theorem tasks_model_is_source {α : Type} [Add α] [Div α] (strain : SField α) (key : Modulus) :
    (match Generated.makeParamCols with
      | [c0, c1] => create strain key =
          if key.isShear then .shear strain key
          else .nonshear key.calcType (component strain (colOf key c0)) (component strain (colOf key c1))
      | _ => False) ∧
    (0 < Generated.strainRtol.1 ∧ Generated.strainRtol.1 * 1000000000 ≤ Generated.strainRtol.2) :=
  ⟨create_is_source strain key, strain_rtol_tight⟩

/-- non-vacuity: for `c12` the columns are 0 and 1 -/
example : colOf (keyOfVoigt (1, 2)) ("i", 1) = 0 ∧ colOf (keyOfVoigt (1, 2)) ("k", 1) = 1 := by decide

/-! #### the glue of `tasks.py` is the source's

  `tools/gens/tasks_src.py` translates every method of the four classes of `cij/core/tasks.py` on every run
  (`Generated/TasksGlue.lean`): `resolve` as a work-list program, `get_dependencies` as (strain attribute, key-list method) pairs,
  `calculate` / `get_modulus_*` / `get_results_by_strain_keys` / `__getitem__` / `__setitem__` / `get_*_results` as wiring,
  `__eq__` as a decision list, `__hash__` as an expression tree, the class dispatch of `PhononContributionTask.__init__`, and the
  inventory of methods and of everything that could outlive a task list.  `CijModel/TasksGlue.lean` interprets these descriptions
  (generic in the description: another pop end, edge orientation, operand order, store name, strain attribute … means something
  else).  The theorems below say that what the file says NOW means the model every other C04 theorem is about. -/

section glue
open Cij.TasksGlue Generated.TasksGlue

/-- **`resolve`**: the translated work-list program — queue `list(product([strain], keys, [None]))`, `pop()` from the END, lookup
`next((t for t in tasks if t.task_params == task_params), None)` by the equality RELATION alone (whatever relation: `peq` is
arbitrary, and no hash is consulted), `curr = len(tasks) - 1` / `tasks.index(task)`, `add_edge(curr, dep)` (dependency →
dependant) when `dep is not None`, dependencies appended with `curr` — run with the translated `get_dependencies`, is the model's
loop for every fuel, and with the model's fuel it is `Tasks.resolve`. -/
theorem c04_glue_is_source_resolve {α : Type} [Add α] [Sub α] [Mul α] [Div α] [NatCast α]
    (isZero : α → Bool) (peq : Params α → Params α → Bool) (eig : Eig α) (strain : SField α) (keys : List Modulus) :
    (∀ fuel, runResolve workList peq (depsOfSpec depsSpec isZero eig) fuel strain keys =
      resolveLoop isZero peq eig fuel (initialStack strain keys) ⟨[], []⟩) ∧
    runResolve workList peq (depsOfSpec depsSpec isZero eig) (fuelFor isZero eig keys) strain keys =
      resolve isZero peq eig strain keys :=
  ⟨fun fuel => runResolve_gen isZero peq eig fuel strain keys, runResolve_gen isZero peq eig _ strain keys⟩

/-- **`get_dependencies`**: the translated pairs mean the model's dependency function — nothing for a non-shear task; for a shear
task the ORIGINAL-frame strain with `get_modulus_keys()` followed by the ROTATED strain with `get_modulus_keys_rotated()` -/
theorem c04_glue_is_source_deps {α : Type} [Add α] [Sub α] [Mul α] [Div α] [NatCast α]
    (isZero : α → Bool) (eig : Eig α) (t : PTask α) :
    depsOfSpec depsSpec isZero eig t = deps isZero eig t ∧
    (t.key.calcType = .shear → depsOfSpec depsSpec isZero eig t =
      (modulusKeys (α := α) isZero t.key).map (fun k => (t.strain, k)) ++
      (modulusKeysRotated isZero (eig t.key).2).map (fun k => (rotatedField (eig t.key).1 t.strain, k))) ∧
    (t.key.calcType ≠ .shear → depsOfSpec depsSpec isZero eig t = []) := by
  refine ⟨deps_gen isZero eig t, fun h => ?_, fun h => ?_⟩
  · rw [deps_gen]; unfold deps; rw [h]
  · rw [deps_gen]; unfold deps
    cases hc : t.key.calcType <;> simp_all

/-- **`calculate`**: the translated loop — tasks in the order of `self.data`; for a shear task two FRESH dictionaries, one per frame,
both read from the ISOTHERMAL store (`modulus_results` ← original strain and keys, `modulus_results_rotated` ← rotated strain
and keys), handed by `get_modulus_*` to `calculator.modulus` / `calculator.modulus_rotated`, which are the two dictionaries the
shear class reads; then BOTH stores written for every task — is `Tasks.calculate`, for every order, relation and store content. -/
theorem c04_glue_is_source_calculate (isZero : R → Bool) (peq : Params R → Params R → Bool) (eig : Eig R)
    (baseIso baseAdi : Params R → R) (tasks : List (PTask R)) (order : List Nat) (st : Store R × Store R) :
    calculateSpec calcSpec getModulus resultsSpec getitemSearch shearIface isZero peq eig baseIso baseAdi tasks order st =
      calculate isZero peq eig baseIso baseAdi tasks order st :=
  calculate_gen isZero peq eig baseIso baseAdi tasks order st

/-- **result stores**: `__getitem__` is a linear search returning the FIRST entry equal to the query under the relation (no hash
shortcut; later entries never shadow it; what was just stored is found); tuple keys are normalised by `create(strain, key)`;
`get_results_by_strain_keys` is one `create` + one lookup per key into a fresh dictionary; `get_isothermal_results` /
`get_adiabatic_results` read their own store with the `self.strain`, `self.keys` of `resolve`. -/
theorem c04_glue_is_source_stores {α : Type} [Add α] [Sub α] [Mul α] [Div α] [NatCast α]
    (peq : Params α → Params α → Bool) (st : Store α × Store α) (strain : SField α) (keys : List Modulus) (key : Modulus) :
    (∀ s p, getItemOf getitemSearch peq s p = Store.get peq s p) ∧
    (∀ s extra q v, Store.get peq s q = some v → Store.get peq (s ++ extra) q = some v) ∧
    (∀ s p q v, Store.get peq s q = none → peq p q = true → Store.get peq (s ++ [(p, v)]) q = some v) ∧
    normKey setitemNorm strain key = some (create strain key) ∧ normKey getitemNorm strain key = some (create strain key) ∧
    (∀ s, resultsOf resultsSpec (getItemOf getitemSearch peq s) strain keys = Store.results peq s strain keys) ∧
    getResultsOf resultGetters resultsSpec getitemSearch peq st strain keys "get_isothermal_results" = st.1.results peq strain keys ∧
    getResultsOf resultGetters resultsSpec getitemSearch peq st strain keys "get_adiabatic_results" = st.2.results peq strain keys :=
  ⟨fun s p => getItem_gen peq s p, fun s extra q v h => store_get_append_of_some peq s extra q v h,
    fun s p q v h1 h2 => store_get_append_new peq s p q v h1 h2, (normKey_gen strain key).1, (normKey_gen strain key).2,
    fun s => store_results_gen peq s strain keys, (getResults_gen peq st strain keys).1, (getResults_gen peq st strain keys).2⟩

/-- `self.strain` / `self.keys` are the two parameters of `resolve`, bound before the loop that rebinds the local `strain`; the getters
read them; `self.data` (what `calculate` iterates) is `[tasks[i] for i in nx.topological_sort(graph)]`; the stores are keyed by
`task.task_params`; `__setitem__` is the plain `dict` assignment of the normalised key -/
theorem c04_glue_is_source_wiring : SelfBindingsOk := by decide

/-- **per-list stores**: the two result stores are two constructor calls in `PhononContributionTaskList.__init__`; no class-level
binding (besides the two NamedTuple fields), no mutable default argument, no `global`, no module-level container -/
theorem c04_glue_stores_per_list : StoresPerList := by decide

/-- **class dispatch**: `is_longitudinal` / `is_off_diagonal` / `is_shear` choose the three contribution classes, and each argument
list — `(calculator, self.params)` for the non-shear classes, `(*self.params, calculator)` = `(strain, key, calculator)` for the shear
class — is positionally the parameter list of the constructor that runs (read from nonshear.py / shear.py on this run); the shear
class keeps its first two arguments as `self.strain`, `self.key` -/
theorem c04_glue_is_source_dispatch : DispatchOk := by decide

/-- **inventory**: every `def` of the four classes is translated (here or, for `create` / `_make_param_by_strain_key`, in
Generated/TasksSpec.lean with the normalised text compared); no nested function; `PhononContributionTask` defines neither `__eq__` nor
`__hash__`, so `tasks.index(task)` finds the object itself -/
theorem c04_glue_methods_complete : MethodsComplete := by decide

/-- **`__eq__`**: the translated decision list is `peqModel` (same calc type; shear: same key and close strain fields; non-shear: close
parameter arrays — self first, tolerance `rtol = _STRAIN_RTOL ≤ 1e-9`, `atol = 0`) for every closeness test; and `peqModel` meets
`PeqSpec` (what all theorems above assume of the relation) whenever that test is an equivalence -/
theorem c04_glue_is_source_eq (close : List R → List R → Bool) :
    (∀ p q : Params R, p.Proper → q.Proper → peqOfSpec eqSpec close p q = peqModel close p q) ∧
    (∀ (s : SField R) (k : Modulus), (create s k).Proper) ∧
    (CloseEquiv close → PeqSpec (peqModel close)) ∧
    eqSpec.rtol = Generated.strainRtol ∧ eqSpec.atol.1 = 0 :=
  ⟨fun p q hp hq => peqOfSpec_gen close p q hp hq, fun s k => proper_create s k, peqModel_spec close, by decide, by decide⟩

/-- **`__hash__`**: the translated trees are `hash(calc_type) ^ hash(floats of params[0]) ^ hash(floats of params[1])` (non-shear) and
`… ^ hash(key)` (shear), for any hash functions and any `^`.  CONSISTENT with `__eq__` where `dict` storage needs it: equal parameters
with IDENTICAL arrays have equal hashes (so a result stored under a task's own parameters is found again). -/
theorem c04_glue_is_source_hash {H : Type} (hc : Modulus.CalcType → H) (hf : List R → H) (hk : Modulus → H) (x : H → H → H)
    (close : List R → List R → Bool) :
    (∀ c a b, c ≠ .shear → hashOf hashSpec hc hf hk x (.nonshear c a b) = some (x (x (hc c) (hf a)) (hf b))) ∧
    (∀ s k, hashOf hashSpec hc hf hk x (.shear s k) = some (x (x (hc .shear) (hf (flat s))) (hk k))) ∧
    (∀ p q : Params R, p.Proper → q.Proper → peqModel close p q = true → (∀ i, p.array i = q.array i) →
      hashOf hashSpec hc hf hk x p = hashOf hashSpec hc hf hk x q ∧ (hashOf hashSpec hc hf hk x p).isSome = true) :=
  ⟨fun c a b h => hashOf_nonshear hc hf hk x c h a b, fun s k => hashOf_shear hc hf hk x s k,
    fun p q hp hq he ha => hash_consistent hc hf hk x close p q hp hq he ha⟩

/-- ALL longitudinal tasks (c11, c22, c33 and every rotated-frame c_i′i′, whatever their strain) have the SAME hash: both parameters are
the same array, and `h ^ x ^ x = h`.  `__eq__` therefore must not (and, by `c04_glue_is_source_eq`, does not) consult the hash. -/
theorem c04_glue_longitudinal_hashes_coincide {H : Type} (hc : Modulus.CalcType → H) (hf : List R → H) (hk : Modulus → H)
    (x : H → H → H) (hx : ∀ u v, x (x u v) v = u) (s s' : SField R) (k k' : Modulus) (hk1 : k ∈ allKeys) (hk2 : k' ∈ allKeys)
    (hl : k.calcType = .longitudinal) (hl' : k'.calcType = .longitudinal) :
    hashOf hashSpec hc hf hk x (create s k) = hashOf hashSpec hc hf hk x (create s' k') := by
  rw [hash_longitudinal hc hf hk x hx s k hk1 hl, hash_longitudinal hc hf hk x hx s' k' hk2 hl']

/-- … while `__eq__`-equal parameters that are NOT bit-identical can hash differently: over ℚ with `numpy.allclose`'s formula at the
translated tolerances, the off-diagonal parameters `([1], [1/2])` and `([1 + 1e-13], [1/2])` are equal in both directions and get
different hashes from a hash that tells the tuple `(1,)` from other tuples.  Python's `dict` then keeps two entries for them and
`__getitem__` returns the first (`c04_glue_is_source_stores`); harmless: `calculate` stores every task once, tasks of one list are
pairwise unequal, and equal parameters have equal values (`PeqCongr`). -/
theorem c04_glue_eq_not_hash_compatible :
    let close := closeQ (ratOf eqSpec.rtol) (ratOf eqSpec.atol)
    let p : Params Rat := .nonshear .offDiagonal [1] [1 / 2]
    let q : Params Rat := .nonshear .offDiagonal [1 + 1 / 10000000000000] [1 / 2]
    peqOfSpec eqSpec close p q = true ∧ peqOfSpec eqSpec close q p = true ∧
    hashOf hashSpec (fun _ => 0) hfEx (fun _ => 0) Nat.xor p ≠ hashOf hashSpec (fun _ => 0) hfEx (fun _ => 0) Nat.xor q := by
  decide +kernel

/-- **end to end on the translated pipeline**: for ANY request list of canonical keys, the translated `resolve` terminates, and for ANY
valid evaluation order the translated `calculate` succeeds and the translated `get_isothermal_results` / `get_adiabatic_results`
return, for every requested key, `spec (create strain key)` — independent of the request list and of the order. -/
theorem c04_glue_request_independent (isZero : R → Bool) (hz : ZeroSpec isZero) (peq : Params R → Params R → Bool)
    (hp : PeqSpec peq) (eig : Eig R) (baseIso baseAdi : Params R → R) (hc : PeqCongr peq baseIso baseAdi)
    (strain : SField R) (keys : List Modulus) (hkeys : ∀ k ∈ keys, k ∈ allKeys) :
    ∃ st, runResolve workList peq (depsOfSpec depsSpec isZero eig) (fuelFor isZero eig keys) strain keys = some st ∧
      ∀ order, validOrder st.tasks.length st.edges order = true →
        ∃ stores, calculateSpec calcSpec getModulus resultsSpec getitemSearch shearIface isZero peq eig baseIso baseAdi
            st.tasks order ([], []) = some stores ∧
          getResultsOf resultGetters resultsSpec getitemSearch peq stores strain keys "get_isothermal_results" =
            some (keys.map fun k => (k, spec isZero eig baseIso 2 (create strain k))) ∧
          getResultsOf resultGetters resultsSpec getitemSearch peq stores strain keys "get_adiabatic_results" =
            some (keys.map fun k => (k, specAdi isZero eig baseIso baseAdi (create strain k))) := by
  obtain ⟨st, hst, h⟩ := c04_request_independent isZero hz peq hp eig baseIso baseAdi hc strain keys hkeys
  refine ⟨st, by rw [runResolve_gen]; exact hst, fun order ho => ?_⟩
  obtain ⟨iso, adi, hcalc, hi, ha⟩ := h order ho
  refine ⟨(iso, adi), by rw [calculate_gen]; exact hcalc, ?_, ?_⟩
  · rw [(getResults_gen peq (iso, adi) strain keys).1]; exact hi
  · rw [(getResults_gen peq (iso, adi) strain keys).2]; exact ha

/-- non-vacuity: exact equality of lists is a `CloseEquiv`; the translated `__eq__` at ℚ with it identifies a task with itself and
separates c11 from c22 at strain (1, 2, 3) although their hashes coincide -/
example : CloseEquiv (fun a b : List Rat => decide (a = b)) ∧
    (let s : SField Rat := [fun i => ![1, 2, 3] i]
     let close := fun a b : List Rat => decide (a = b)
     peqOfSpec eqSpec close (create s (keyOfVoigt (1, 1))) (create s (keyOfVoigt (1, 1))) = true ∧
     peqOfSpec eqSpec close (create s (keyOfVoigt (1, 1))) (create s (keyOfVoigt (2, 2))) = false ∧
     hashOf hashSpec (fun _ => 7) hfEx (fun _ => 0) Nat.xor (create s (keyOfVoigt (1, 1))) =
       hashOf hashSpec (fun _ => 7) hfEx (fun _ => 0) Nat.xor (create s (keyOfVoigt (2, 2)))) := by
  refine ⟨⟨fun a => by simp, fun a b h => by simpa [eq_comm] using h, fun a b c h1 h2 => by simp_all⟩, ?_⟩
  decide +kernel

/-- non-vacuity: the translated program run over ℚ on the request [c44, c11] of the example above gives the same tasks and edges -/
example :
    let peq : Params Rat → Params Rat → Bool := peqModel fun a b => decide (a = b)
    let eig : Eig Rat := fun _ => (fun i a => if i = a then 1 else 0, fun a => ![-1, 0, 1] a)
    let isZero : Rat → Bool := fun x => decide (x = 0)
    let r := runResolve workList peq (depsOfSpec depsSpec isZero eig) 20 [fun i => ![1, 2, 3] i] [keyOfVoigt (4, 4), keyOfVoigt (1, 1)]
    (r.map fun st => (st.tasks.map (·.key.voigt), st.edges)) =
      some ([some (1, 1), some (4, 4), some (3, 3), some (1, 3)], [(2, 1), (3, 1), (3, 1), (0, 1)]) := by
  decide +kernel

end glue

/-! #### ties shared with other properties

The statement of this property also rests on code whose translation is owned by another property's file; the theorems are restated
here so that this property's obligations are re-checked against those files too (a change there breaks THIS check's proof as well). -/

/-- the arithmetic of the shear solver in `shear.py` as translated on this run: the target formula of the model is the translated one -/
theorem c04_shear_target_is_source {α : Type} [Add α] [Sub α] [Mul α] [Div α] [NatCast α]
    (key : Cij.Modulus) (e : Cij.Shear.Mat3 α) (eRot eOrig : α) :
    Cij.Shear.targetModulus key e eRot eOrig =
      Cij.ShExpr.eval (Cij.ShExpr.envOf eRot (e (Cij.Shear.idx key.i.i) (Cij.Shear.idx key.i.j)) (e (Cij.Shear.idx key.j.i) (Cij.Shear.idx key.j.j))
        eRot eOrig ((key.multiplicity : Nat) : α)) Generated.shearTarget :=
  Cij.ShExpr.target_is_source key e eRot eOrig

/-- `nonshear.py` as translated on this run: the model's isothermal and adiabatic values of both non-shear classes are the
translated bodies (zero-point + thermal; isothermal + gap), for every scalar type -/
theorem c04_nonshear_is_source {α : Type} [Cij.NonShear.Scalar α] [Add α] [Sub α] [Mul α] [Div α] [Neg α]
    (c : Cij.NonShear.Consts α) (w : List α) (T P cv : α) (s : Cij.NonShear.VolSlice α) (a b : α) :
    Cij.NonShear.valueAdiabaticLongAt c w T cv s =
      Cij.NSExpr.evalBody (Cij.NSExpr.envAt c w T P cv s (Cij.NonShear.mgLong s) a b (Cij.NonShear.valueIsothermalLongAt c w T s)
        (Cij.NonShear.isoToAdiaAt c.k c.hdk c.na T s.V cv (Cij.NonShear.mgLong s) s.freq w)) Generated.nsAdiaLong ∧
    Cij.NonShear.valueAdiabaticOffAt c w T P cv s =
      Cij.NSExpr.evalBody (Cij.NSExpr.envAt c w T P cv s (Cij.NonShear.mgOff s) a b (Cij.NonShear.valueIsothermalOffAt c w T P s)
        (Cij.NonShear.isoToAdiaAt c.k c.hdk c.na T s.V cv (Cij.NonShear.mgOff s) s.freq w)) Generated.nsAdiaOff :=
  ⟨Cij.NSExpr.valueAdiabaticLong_is_source c w T P cv s a b, Cij.NSExpr.valueAdiabaticOff_is_source c w T P cv s a b⟩

/-- `full_modulus.py` / `_calculate_pressure_static` as translated on this run: default fit orders, degree offset, and the bodies of
`fit_modulus`, `get_axial_strains`, `get_static_modulus`, `modulus_adiabatic`, `modulus_isothermal` are the ones the model implements -/
theorem c04_full_modulus_is_source :
    Generated.fitModulusDegOffset = 1 ∧ Generated.fullModulusBodiesCanonical = true ∧
    Generated.fitModulusDefaultOrder = 2 ∧ Generated.staticPressureDefaultOrder = 3 := by decide

end Cij.C04
