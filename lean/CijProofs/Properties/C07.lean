/-
  C07 — VRH averages, bounds and velocities are those of the full tensor in SI units.

  Every statement is about `CijModel/VRH.lean` (`report`, the function the driver runs at `Float`), at `α = ℝ`.

  Setting of all theorems.  `inp : Inputs ℝ` is what `Calculator` holds: `modAd` = `modulus_adiabatic` listed in
  `modulus_keys` order (fields on the `nt × nv` grid), `vArray`, `cellmass`; `S t v i j` is the batched
  `numpy.linalg.inv` (an external contract: a PARAMETER, constrained only where a theorem needs it by
  `toMat C * toMat S = 1` at that grid point; the harness measures ‖C·S − 1‖ on every case).
    * `Keys inp`      : `modulus_keys` are distinct canonical `C_` keys containing the nine orthotropic ones
                        (the property's "any subset of non-zero components containing the nine orthotropic ones").
    * `Cmat inp t v`  : the assembled 6×6 at the grid point, `Ctensor`/`Stensor` the full fourth-rank tensors
                        (`tensorOf` through the canonical key map of C10; `complTensorOf` with the 1, ½, ¼ factors).
    * `SPDPoint inp S t v` : `PosDef6 (Cmat inp t v)` (xᵀCx > 0 for every x ≠ 0) and `toMat C * toMat S = 1`.
  These abbreviations are defined in `Lemmas/VRH.lean` ("vocabulary of the C07 statements"); `toMat` turns a
  1-based `Int → Int → ℝ` array into a Mathlib `Matrix (Fin 6) (Fin 6) ℝ`; `vidx` is the documented map
  11,22,33,23,13,12 ↦ 1..6; `idTensor i j m n = ½(δ_im δ_jn + δ_in δ_jm)`.
-/
import CijProofs.Lemmas.VRHExamples
import CijProofs.Lemmas.VRHSource
namespace Cij.C07

open Cij Cij.VRH Matrix

/-! #### the 6×6 that is inverted is the symmetric fill of the dictionary -/

/-- `elastic_moduli[t, v, i-1, j-1]` = value of the canonical key of the unordered pair {i, j} (0 if absent),
hence symmetric — whatever the order of `modulus_keys`. -/
theorem c07_assembly (inp : Inputs ℝ) (hk : Keys inp) (t v : Nat) (i j : Int) (hij : (i, j) ∈ allPairs) :
    Cmat inp t v i j = val (kvAt inp.modAd t v) (canon (i, j)) ∧ Cmat inp t v i j = Cmat inp t v j i :=
  Cmat_eq inp hk t v i j hij

/-- … and it is the Voigt matrix of the full tensor: `C_ijkl = Cmat (voigt ij) (voigt kl)` -/
theorem c07_assembly_tensor (inp : Inputs ℝ) (hk : Keys inp) (t v : Nat) (i j k l : Int)
    (h : (i, j, k, l) ∈ allTuples) :
    Ctensor inp t v i j k l = Cmat inp t v (vidx i j) (vidx k l) := by
  have hr := (mem_allTuples i j k l).1 h
  have h1 := vidx_range i j ((mem_idx3 i).2 hr.1) ((mem_idx3 j).2 hr.2.1)
  have h2 := vidx_range k l ((mem_idx3 k).2 hr.2.2.1) ((mem_idx3 l).2 hr.2.2.2)
  rw [(c07_assembly inp hk t v _ _ ((mem_allPairs _ _).2 ⟨h1, h2⟩)).1]
  exact tensorOf_eq _ i j k l h

/-! #### reported compliances = entries of the inverse -/

/-- `self.sIJ` (I ≤ J) is always served and is the (I,J) entry of the batched inverse on the whole grid. -/
theorem c07_compliances_reported (inp : Inputs ℝ) (S : Nat → Nat → Int → Int → ℝ) (p : Int × Int)
    (hp : p ∈ keys21) :
    getS (report inp S).compl p.1 p.2 = some (entryField S inp.nt inp.nv p.1 p.2) :=
  getS_complDict S inp.nt inp.nv p hp

theorem c07_compliance_entry (S : Nat → Nat → Int → Int → ℝ) (nt nv t v : Nat) (ht : t < nt) (hv : v < nv)
    (i j : Int) : fieldAt (entryField S nt nv i j) t v = S t v i j :=
  sv_eq S nt nv t v ht hv i j

/-- With `C·S = 1` for the 6×6 matrices, the tensor `S_ijkl = s_pq·(1, ½, ¼)` is the fourth-rank inverse of
`C_ijkl`:  `C_ijkl S_klmn = ½(δ_im δ_jn + δ_in δ_jm)`. -/
theorem c07_compliance_tensor_inverse (inp : Inputs ℝ) (S : Nat → Nat → Int → Int → ℝ) (hk : Keys inp)
    (t v : Nat) (hinv : toMat (Cmat inp t v) * toMat (S t v) = 1)
    (i j m n : Int) (hi : i ∈ idx3) (hj : j ∈ idx3) (hm : m ∈ idx3) (hn : n ∈ idx3) :
    VRH.sum (idx3.map fun k => VRH.sum (idx3.map fun l => Ctensor inp t v i j k l * Stensor S t v k l m n))
      = idTensor i j m n := by
  have hc : ∀ k ∈ (kvAt inp.modAd t v).map (·.1), ∃ p ∈ keys21, k = keyOfVoigt p := by
    rw [map_fst_kvAt]; exact hk.canon
  have hn' : ((kvAt inp.modAd t v).map (·.1)).Nodup := by rw [map_fst_kvAt]; exact hk.nodup
  exact compl_tensor_inverse _ _ hc hn' hinv i j m n hi hj hm hn

/-! #### Voigt averages -/

theorem c07_bulk_voigt (inp : Inputs ℝ) (S : Nat → Nat → Int → Int → ℝ) (hk : Keys inp)
    (t v : Nat) (ht : t < inp.nt) (hv : v < inp.nv) :
    ∃ f, (report inp S).kV = some f ∧ fieldAt f t v = contractIIJJ (Ctensor inp t v) / 9 := by
  refine ⟨_, bulkVoigt_eq inp.nt inp.nv inp.modAd hk, ?_⟩
  rw [fieldAt_grid _ _ _ _ _ ht hv, contractIIJJ_tensorOf]
  simp only [bulkVoigtPt, cv, nat_real]; push_cast; ring

theorem c07_shear_voigt (inp : Inputs ℝ) (S : Nat → Nat → Int → Int → ℝ) (hk : Keys inp)
    (t v : Nat) (ht : t < inp.nt) (hv : v < inp.nv) :
    ∃ f, (report inp S).gV = some f ∧
      fieldAt f t v = (3 * contractIJIJ (Ctensor inp t v) - contractIIJJ (Ctensor inp t v)) / 30 := by
  refine ⟨_, shearVoigt_eq inp.nt inp.nv inp.modAd hk, ?_⟩
  rw [fieldAt_grid _ _ _ _ _ ht hv, contractIIJJ_tensorOf, contractIJIJ_tensorOf]
  simp only [shearVoigtPt, cv, nat_real]; push_cast; ring

/-! #### Reuss averages — defined for every input (all 21 compliances are stored), equal to the tensor
expressions of `S`; no positivity or invertibility is needed for the identities themselves -/

theorem c07_bulk_reuss (inp : Inputs ℝ) (S : Nat → Nat → Int → Int → ℝ)
    (t v : Nat) (ht : t < inp.nt) (hv : v < inp.nv) :
    ∃ f, (report inp S).kR = some f ∧ fieldAt f t v = 1 / contractIIJJ (Stensor S t v) := by
  refine ⟨_, bulkReuss_eq S inp.nt inp.nv, ?_⟩
  rw [fieldAt_grid _ _ _ _ _ ht hv, contractIIJJ_complTensorOf]
  simp only [bulkReussPt, sv_eq S _ _ t v ht hv, nat_real]; push_cast; rfl

theorem c07_shear_reuss (inp : Inputs ℝ) (S : Nat → Nat → Int → Int → ℝ)
    (t v : Nat) (ht : t < inp.nt) (hv : v < inp.nv) :
    ∃ f, (report inp S).gR = some f ∧
      fieldAt f t v = 15 / (6 * contractIJIJ (Stensor S t v) - 2 * contractIIJJ (Stensor S t v)) := by
  refine ⟨_, shearReuss_eq S inp.nt inp.nv, ?_⟩
  rw [fieldAt_grid _ _ _ _ _ ht hv, contractIIJJ_complTensorOf, contractIJIJ_complTensorOf]
  simp only [shearReussPt, sv_eq S _ _ t v ht hv, nat_real]; push_cast
  congr 1; ring

/-! #### Hill = arithmetic mean -/

theorem c07_hill_bulk (inp : Inputs ℝ) (S : Nat → Nat → Int → Int → ℝ) (hk : Keys inp)
    (t v : Nat) (ht : t < inp.nt) (hv : v < inp.nv) :
    ∃ r vo h, (report inp S).kR = some r ∧ (report inp S).kV = some vo ∧ (report inp S).kH = some h ∧
      fieldAt h t v = (fieldAt r t v + fieldAt vo t v) / 2 := by
  have hr := bulkReuss_eq S inp.nt inp.nv
  have hvo := bulkVoigt_eq inp.nt inp.nv inp.modAd hk
  have hh : (report inp S).kH = hill inp.nt inp.nv (bulkReuss inp.nt inp.nv (complDict S inp.nt inp.nv))
      (bulkVoigt inp.nt inp.nv inp.modAd) := rfl
  rw [hr, hvo, hill_some] at hh
  refine ⟨_, _, _, hr, hvo, hh, ?_⟩
  rw [fieldAt_grid _ _ (fun t v => hillPt _ _) _ _ ht hv]; simp only [hillPt, nat_real]; push_cast; rfl

theorem c07_hill_shear (inp : Inputs ℝ) (S : Nat → Nat → Int → Int → ℝ) (hk : Keys inp)
    (t v : Nat) (ht : t < inp.nt) (hv : v < inp.nv) :
    ∃ r vo h, (report inp S).gR = some r ∧ (report inp S).gV = some vo ∧ (report inp S).gH = some h ∧
      fieldAt h t v = (fieldAt r t v + fieldAt vo t v) / 2 := by
  have hr := shearReuss_eq S inp.nt inp.nv
  have hvo := shearVoigt_eq inp.nt inp.nv inp.modAd hk
  have hh : (report inp S).gH = hill inp.nt inp.nv (shearReuss inp.nt inp.nv (complDict S inp.nt inp.nv))
      (shearVoigt inp.nt inp.nv inp.modAd) := rfl
  rw [hr, hvo, hill_some] at hh
  refine ⟨_, _, _, hr, hvo, hh, ?_⟩
  rw [fieldAt_grid _ _ (fun t v => hillPt _ _) _ _ ht hv]; simp only [hillPt, nat_real]; push_cast; rfl

/-! #### Reuss ≤ Hill ≤ Voigt wherever the stiffness is positive definite -/

theorem c07_kr_le_kv (inp : Inputs ℝ) (S : Nat → Nat → Int → Int → ℝ) (hk : Keys inp)
    (t v : Nat) (ht : t < inp.nt) (hv : v < inp.nv)
    (hpt : SPDPoint inp S t v) :
    ∃ r vo, (report inp S).kR = some r ∧ (report inp S).kV = some vo ∧
      0 < fieldAt r t v ∧ fieldAt r t v ≤ fieldAt vo t v := by
  refine ⟨_, _, bulkReuss_eq S inp.nt inp.nv, bulkVoigt_eq inp.nt inp.nv inp.modAd hk, ?_⟩
  rw [fieldAt_grid _ _ _ _ _ ht hv, fieldAt_grid _ _ _ _ _ ht hv]
  have h := kr_le_kv_pt (Cmat inp t v) (S t v) (Cmat_symm inp hk t v) hpt.pd hpt.inv
  simp only [sv_eq S _ _ t v ht hv]
  rw [← Cmat_cv inp hk t v (1, 1) (by decide), ← Cmat_cv inp hk t v (2, 2) (by decide),
    ← Cmat_cv inp hk t v (3, 3) (by decide), ← Cmat_cv inp hk t v (1, 2) (by decide),
    ← Cmat_cv inp hk t v (2, 3) (by decide), ← Cmat_cv inp hk t v (1, 3) (by decide)]
  exact h

theorem c07_gr_le_gv (inp : Inputs ℝ) (S : Nat → Nat → Int → Int → ℝ) (hk : Keys inp)
    (t v : Nat) (ht : t < inp.nt) (hv : v < inp.nv)
    (hpt : SPDPoint inp S t v) :
    ∃ r vo, (report inp S).gR = some r ∧ (report inp S).gV = some vo ∧
      0 < fieldAt r t v ∧ fieldAt r t v ≤ fieldAt vo t v := by
  refine ⟨_, _, shearReuss_eq S inp.nt inp.nv, shearVoigt_eq inp.nt inp.nv inp.modAd hk, ?_⟩
  rw [fieldAt_grid _ _ _ _ _ ht hv, fieldAt_grid _ _ _ _ _ ht hv]
  have h := gr_le_gv_pt (Cmat inp t v) (S t v) (Cmat_symm inp hk t v) hpt.pd hpt.inv
  simp only [sv_eq S _ _ t v ht hv]
  rw [← Cmat_cv inp hk t v (1, 1) (by decide), ← Cmat_cv inp hk t v (2, 2) (by decide),
    ← Cmat_cv inp hk t v (3, 3) (by decide), ← Cmat_cv inp hk t v (1, 2) (by decide),
    ← Cmat_cv inp hk t v (2, 3) (by decide), ← Cmat_cv inp hk t v (1, 3) (by decide),
    ← Cmat_cv inp hk t v (4, 4) (by decide), ← Cmat_cv inp hk t v (5, 5) (by decide),
    ← Cmat_cv inp hk t v (6, 6) (by decide)]
  exact h

/-- Reuss ≤ Hill ≤ Voigt, bulk and shear, at every grid point where the stiffness is positive definite -/
theorem c07_hill_between (inp : Inputs ℝ) (S : Nat → Nat → Int → Int → ℝ) (hk : Keys inp)
    (t v : Nat) (ht : t < inp.nt) (hv : v < inp.nv)
    (hpt : SPDPoint inp S t v) :
    ∃ kr kh kv gr gh gv, (report inp S).kR = some kr ∧ (report inp S).kH = some kh ∧ (report inp S).kV = some kv ∧
      (report inp S).gR = some gr ∧ (report inp S).gH = some gh ∧ (report inp S).gV = some gv ∧
      0 < fieldAt kr t v ∧ fieldAt kr t v ≤ fieldAt kh t v ∧ fieldAt kh t v ≤ fieldAt kv t v ∧
      0 < fieldAt gr t v ∧ fieldAt gr t v ≤ fieldAt gh t v ∧ fieldAt gh t v ≤ fieldAt gv t v := by
  obtain ⟨kr, kv, hkr, hkv, kpos, kle⟩ := c07_kr_le_kv inp S hk t v ht hv hpt
  obtain ⟨gr, gv, hgr, hgv, gpos, gle⟩ := c07_gr_le_gv inp S hk t v ht hv hpt
  obtain ⟨kr', kv', kh, hkr', hkv', hkh, ekh⟩ := c07_hill_bulk inp S hk t v ht hv
  obtain ⟨gr', gv', gh, hgr', hgv', hgh, egh⟩ := c07_hill_shear inp S hk t v ht hv
  rw [hkr] at hkr'; rw [hkv] at hkv'; rw [hgr] at hgr'; rw [hgv] at hgv'
  cases hkr'; cases hkv'; cases hgr'; cases hgv'
  refine ⟨kr, kh, kv, gr, gh, gv, hkr, hkh, hkv, hgr, hgh, hgv, kpos, ?_, ?_, gpos, ?_, ?_⟩
  · rw [ekh]; linarith
  · rw [ekh]; linarith
  · rw [egh]; linarith
  · rw [egh]; linarith

/-! #### velocities: ρ v_s² = G_VRH, ρ v_p² = K_VRH + 4 G_VRH / 3, in km/s

`ρ = (cell mass in g/mol)/1000/(N_A · V)` is the density in kg per unit of `V` (bohr³); `f` is one rydberg in
kg·km²/s², so `G·f` is the modulus (Ry/bohr³) in kg·km²·s⁻² per bohr³ and `v` comes out in km/s. -/

theorem c07_vs_sq (inp : Inputs ℝ) (S : Nat → Nat → Int → Int → ℝ) (hk : Keys inp)
    (t v : Nat) (ht : t < inp.nt) (hv : v < inp.nv)
    (hV : 0 < inp.vArray.getD v 0) (hN : 0 < inp.avogadro) (hm : 0 < inp.cellmass) (hf : 0 ≤ inp.ryFactor)
    (hpt : SPDPoint inp S t v) :
    ∃ g vs, (report inp S).gH = some g ∧ (report inp S).vs = some vs ∧
      inp.cellmass / 1000 / (inp.avogadro * inp.vArray.getD v 0) * fieldAt vs t v ^ 2
        = fieldAt g t v * inp.ryFactor := by
  obtain ⟨kr, kh, kv, gr, gh, gv, hkr, hkh, hkv, hgr, hgh, hgv, kpos, k1, k2, gpos, g1, g2⟩ :=
    c07_hill_between inp S hk t v ht hv hpt
  have hvs : (report inp S).vs = secondaryVelocities inp (report inp S).gH := rfl
  have h0 : (nat 0 : ℝ) = 0 := by simp
  refine ⟨gh, _, hgh, by rw [hvs, hgh]; rfl, ?_⟩
  rw [fieldAt_grid _ _ (fun t v => vsPt _ _ _ _) _ _ ht hv, h0]
  exact vs_sq_pt _ _ _ _ _ hV hN hm hf (by linarith)

theorem c07_vp_sq (inp : Inputs ℝ) (S : Nat → Nat → Int → Int → ℝ) (hk : Keys inp)
    (t v : Nat) (ht : t < inp.nt) (hv : v < inp.nv)
    (hV : 0 < inp.vArray.getD v 0) (hN : 0 < inp.avogadro) (hm : 0 < inp.cellmass) (hf : 0 ≤ inp.ryFactor)
    (hpt : SPDPoint inp S t v) :
    ∃ k g vp, (report inp S).kH = some k ∧ (report inp S).gH = some g ∧ (report inp S).vp = some vp ∧
      inp.cellmass / 1000 / (inp.avogadro * inp.vArray.getD v 0) * fieldAt vp t v ^ 2
        = (fieldAt k t v + 4 * fieldAt g t v / 3) * inp.ryFactor := by
  obtain ⟨kr, kh, kv, gr, gh, gv, hkr, hkh, hkv, hgr, hgh, hgv, kpos, k1, k2, gpos, g1, g2⟩ :=
    c07_hill_between inp S hk t v ht hv hpt
  have hvp : (report inp S).vp = primaryVelocities inp (report inp S).kH (report inp S).gH := rfl
  have h0 : (nat 0 : ℝ) = 0 := by simp
  refine ⟨kh, gh, _, hkh, hgh, by rw [hvp, hkh, hgh]; rfl, ?_⟩
  rw [fieldAt_grid _ _ (fun t v => vpPt _ _ _ _ _) _ _ ht hv, h0]
  exact vp_sq_pt _ _ _ _ _ _ hV hN hm hf (by linarith)

/-- the mass per cell is `cellmass [g/mol] · 10⁻³ / N_A` kg -/
theorem c07_mass (inp : Inputs ℝ) (S : Nat → Nat → Int → Int → ℝ) (hN : inp.avogadro ≠ 0) :
    (report inp S).mass * inp.avogadro * 1000 = inp.cellmass := by
  show mass inp.cellmass inp.avogadro * inp.avogadro * 1000 = inp.cellmass
  simp only [mass, nat_real]; push_cast; field_simp

/-! #### non-vacuity: a concrete instance satisfying every hypothesis used above

cubic `c11 = 3, c12 = 1, c44 = 1` on a 1×1 grid, `S` its exact inverse (`s11 = 2/5, s12 = −1/10, s44 = 1`). -/

example : Keys exInp ∧ SPDPoint exInp exS 0 0 ∧ (0 < exInp.nt ∧ 0 < exInp.nv) :=
  ⟨orthoDict_keys _ _ _ _ _ _ _ _ _, ⟨ex_posDef, ex_inv⟩, by decide, by decide⟩

/-- on that instance the theorems give the textbook cubic values K_V = K_R = 5/3, G_R = 1 = G_V -/
example : ∃ kr kv gr gv, (report exInp exS).kR = some kr ∧ (report exInp exS).kV = some kv ∧
    (report exInp exS).gR = some gr ∧ (report exInp exS).gV = some gv ∧
    fieldAt kv 0 0 = 5 / 3 ∧ fieldAt kr 0 0 = 5 / 3 ∧ fieldAt gv 0 0 = 1 ∧ fieldAt gr 0 0 = 1 := by
  have hk : Keys exInp := orthoDict_keys _ _ _ _ _ _ _ _ _
  refine ⟨_, _, _, _, bulkReuss_eq exS 1 1, bulkVoigt_eq 1 1 exInp.modAd hk,
    shearReuss_eq exS 1 1, shearVoigt_eq 1 1 exInp.modAd hk, ?_, ?_, ?_, ?_⟩
  · rw [fieldAt_grid _ _ (fun t v => bulkVoigtPt _ _ _ _ _ _) 0 0 (by decide) (by decide)]
    rw [← Cmat_cv exInp hk 0 0 (1, 1) (by decide), ← Cmat_cv exInp hk 0 0 (2, 2) (by decide),
      ← Cmat_cv exInp hk 0 0 (3, 3) (by decide), ← Cmat_cv exInp hk 0 0 (1, 2) (by decide),
      ← Cmat_cv exInp hk 0 0 (2, 3) (by decide), ← Cmat_cv exInp hk 0 0 (1, 3) (by decide)]
    simp only [Cmat, exInp, orthoDict_assemble 3 3 3 1 1 1 1 1 1 _ _ (by decide : ((1:Int), (1:Int)) ∈ allPairs),
      orthoDict_assemble 3 3 3 1 1 1 1 1 1 _ _ (by decide : ((2:Int), (2:Int)) ∈ allPairs),
      orthoDict_assemble 3 3 3 1 1 1 1 1 1 _ _ (by decide : ((3:Int), (3:Int)) ∈ allPairs),
      orthoDict_assemble 3 3 3 1 1 1 1 1 1 _ _ (by decide : ((1:Int), (2:Int)) ∈ allPairs),
      orthoDict_assemble 3 3 3 1 1 1 1 1 1 _ _ (by decide : ((2:Int), (3:Int)) ∈ allPairs),
      orthoDict_assemble 3 3 3 1 1 1 1 1 1 _ _ (by decide : ((1:Int), (3:Int)) ∈ allPairs)]
    norm_num [bulkVoigtPt, orthoMat]
  · rw [fieldAt_grid _ _ (fun t v => bulkReussPt _ _ _ _ _ _) 0 0 (by decide) (by decide)]
    simp only [sv_eq exS 1 1 0 0 (by decide) (by decide)]
    norm_num [bulkReussPt, exS, orthoMat]
  · rw [fieldAt_grid _ _ (fun t v => shearVoigtPt _ _ _ _ _ _ _ _ _) 0 0 (by decide) (by decide)]
    rw [← Cmat_cv exInp hk 0 0 (1, 1) (by decide), ← Cmat_cv exInp hk 0 0 (2, 2) (by decide),
      ← Cmat_cv exInp hk 0 0 (3, 3) (by decide), ← Cmat_cv exInp hk 0 0 (1, 2) (by decide),
      ← Cmat_cv exInp hk 0 0 (2, 3) (by decide), ← Cmat_cv exInp hk 0 0 (1, 3) (by decide),
      ← Cmat_cv exInp hk 0 0 (4, 4) (by decide), ← Cmat_cv exInp hk 0 0 (5, 5) (by decide),
      ← Cmat_cv exInp hk 0 0 (6, 6) (by decide)]
    simp only [Cmat, exInp, orthoDict_assemble 3 3 3 1 1 1 1 1 1 _ _ (by decide : ((1:Int), (1:Int)) ∈ allPairs),
      orthoDict_assemble 3 3 3 1 1 1 1 1 1 _ _ (by decide : ((2:Int), (2:Int)) ∈ allPairs),
      orthoDict_assemble 3 3 3 1 1 1 1 1 1 _ _ (by decide : ((3:Int), (3:Int)) ∈ allPairs),
      orthoDict_assemble 3 3 3 1 1 1 1 1 1 _ _ (by decide : ((1:Int), (2:Int)) ∈ allPairs),
      orthoDict_assemble 3 3 3 1 1 1 1 1 1 _ _ (by decide : ((2:Int), (3:Int)) ∈ allPairs),
      orthoDict_assemble 3 3 3 1 1 1 1 1 1 _ _ (by decide : ((1:Int), (3:Int)) ∈ allPairs),
      orthoDict_assemble 3 3 3 1 1 1 1 1 1 _ _ (by decide : ((4:Int), (4:Int)) ∈ allPairs),
      orthoDict_assemble 3 3 3 1 1 1 1 1 1 _ _ (by decide : ((5:Int), (5:Int)) ∈ allPairs),
      orthoDict_assemble 3 3 3 1 1 1 1 1 1 _ _ (by decide : ((6:Int), (6:Int)) ∈ allPairs)]
    norm_num [shearVoigtPt, orthoMat]
  · rw [fieldAt_grid _ _ (fun t v => shearReussPt _ _ _ _ _ _ _ _ _) 0 0 (by decide) (by decide)]
    simp only [sv_eq exS 1 1 0 0 (by decide) (by decide)]
    norm_num [shearReussPt, exS, orthoMat]

/-- regression instance (historical note): `c11 = c22 = 10, c33 = 4, c12 = 1, c13 = c23 = 2, c44 = c55 = c66 = 1` is
positive definite and its exact inverse has `s12 = 0`.  Before repo commit 1b22ce6 the code skipped compliance
entries that were `allclose` to 0, `self.s12` raised and no Reuss/Hill modulus or velocity was reported for this
input.  For the code as it is now the hypotheses hold and `K_R = 36/11` is reported.  (The harness replays exactly
this input on the real classes: corpus/C07/s12-zero.json.) -/
example : Keys wInp ∧ SPDPoint wInp wS 0 0 ∧
    ∃ kr, (report wInp wS).kR = some kr ∧ fieldAt kr 0 0 = 36 / 11 := by
  refine ⟨orthoDict_keys _ _ _ _ _ _ _ _ _, ⟨w_posDef, w_inv⟩, _, bulkReuss_eq wS 1 1, ?_⟩
  rw [fieldAt_grid _ _ (fun t v => bulkReussPt _ _ _ _ _ _) 0 0 (by decide) (by decide)]
  simp only [sv_eq wS 1 1 0 0 (by decide) (by decide)]
  norm_num [bulkReussPt, wS, orthoMat]

/-- the identity tensor and the Voigt-index map used in the statements, on concrete indices -/
example : idTensor 1 2 2 1 = 1 / 2 ∧ idTensor 1 1 1 1 = 1 ∧ idTensor 1 1 2 2 = 0 ∧ vidx 2 3 = 4 ∧ vidx 1 1 = 1 := by
  refine ⟨by norm_num [idTensor], by norm_num [idTensor], by norm_num [idTensor], by decide, by decide⟩

/-! #### the model IS the source: bodies re-extracted from calculator.py on this run

`tools/gen_tables.py` parses the bodies of the six averaging properties, `mass`, `primary_velocities` and
`secondary_velocities` of `CijVolumeBaseInterface` into expression trees (`Generated.vrh*`).  The point formulas about
which everything above is proved are definitionally those trees, for every scalar type (`Lemmas/VRHSource.lean`); here
at ℝ.  A changed coefficient, index or operator in those Python bodies makes this theorem fail to check. -/

open Cij.VExpr in
theorem c07_model_is_source (c11 c22 c33 c12 c23 c13 c44 c55 c66 s11 s22 s33 s12 s23 s13 s44 s55 s66 : ℝ) (e : Env ℝ)
    (hc : e.c = cEnv c11 c22 c33 c12 c23 c13 c44 c55 c66) (hs : e.s = cEnv s11 s22 s33 s12 s23 s13 s44 s55 s66) :
    bulkVoigtPt c11 c22 c33 c12 c23 c13 = eval e Generated.vrhBulkVoigt ∧
    shearVoigtPt c11 c22 c33 c12 c23 c13 c44 c55 c66 = eval e Generated.vrhShearVoigt ∧
    bulkReussPt s11 s22 s33 s12 s23 s13 = eval e Generated.vrhBulkReuss ∧
    shearReussPt s11 s22 s33 s12 s23 s13 s44 s55 s66 = eval e Generated.vrhShearReuss ∧
    hillPt (e.prop .kR) (e.prop .kV) = eval e Generated.vrhBulkHill ∧
    hillPt (e.prop .gR) (e.prop .gV) = eval e Generated.vrhShearHill ∧
    mass e.cellmass e.avogadro = eval e Generated.vrhMass ∧
    vpPt (e.prop .kH) (e.prop .gH) e.V e.ryFactor e.mass = eval e Generated.vrhVp ∧
    vsPt (e.prop .gH) e.V e.ryFactor e.mass = eval e Generated.vrhVs :=
  ⟨bulkVoigt_is_source c11 c22 c33 c12 c23 c13 c44 c55 c66 e hc, shearVoigt_is_source c11 c22 c33 c12 c23 c13 c44 c55 c66 e hc,
   bulkReuss_is_source s11 s22 s33 s12 s23 s13 s44 s55 s66 e hs, shearReuss_is_source s11 s22 s33 s12 s23 s13 s44 s55 s66 e hs,
   (hill_is_source e).1, (hill_is_source e).2, mass_is_source e, vp_is_source e, vs_is_source e⟩

end Cij.C07
