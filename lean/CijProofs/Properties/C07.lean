/-
  C07 — VRH averages, bounds and velocities are those of the full tensor in SI units.

  Every statement is about `CijModel/VRH.lean` (`report`, the function the driver runs at `Float`), at `α = ℝ`.

  Setting of all theorems.  `inp : Inputs ℝ` is what `Calculator` holds: `modAd` = `modulus_adiabatic` listed in
  `modulus_keys` order (fields on the `nt × nv` grid), `vArray`, `cellmass`; `S t v i j` is the batched
  `numpy.linalg.inv` (an external contract: a PARAMETER, constrained only where a theorem needs it by
  `toMat C * toMat S = 1` at that grid point; the harness measures ‖C·S − 1‖ on every case).
    * `Keys inp`      : `modulus_keys` are distinct canonical `C_` keys containing the nine orthotropic ones
                        (the property's "any subset of non-zero components containing the nine orthotropic ones").
    * `Cmat inp t v`  : the assembled 6×6 at the grid point, `Ctensor`/`Stensor` the full fourth-rank tensors
                        (`tensorOf` through the canonical key map of C10; `complTensorOf` with the 1, ½, ¼ factors).
    * `SPDPoint inp S t v` : `PosDef6 (Cmat inp t v)` (xᵀCx > 0 for every x ≠ 0) and `toMat C * toMat S = 1`.
  These abbreviations are defined in `Lemmas/VRH.lean` ("vocabulary of the C07 statements"); `toMat` turns a
  1-based `Int → Int → ℝ` array into a Mathlib `Matrix (Fin 6) (Fin 6) ℝ`; `vidx` is the documented map
  11,22,33,23,13,12 ↦ 1..6; `idTensor i j m n = ½(δ_im δ_jn + δ_in δ_jm)`.
-/
import CijProofs.Lemmas.VRHExamples
import CijProofs.Lemmas.VRHSource
import CijProofs.Lemmas.CalcGlueSource
namespace Cij.C07

open Cij Cij.VRH Matrix

/-! #### the 6×6 that is inverted is the symmetric fill of the dictionary -/

/-- `elastic_moduli[t, v, i-1, j-1]` = value of the canonical key of the unordered pair {i, j} (0 if absent),
hence symmetric — whatever the order of `modulus_keys`. -/
theorem c07_assembly (inp : Inputs ℝ) (hk : Keys inp) (t v : Nat) (i j : Int) (hij : (i, j) ∈ allPairs) :
    Cmat inp t v i j = val (kvAt inp.modAd t v) (canon (i, j)) ∧ Cmat inp t v i j = Cmat inp t v j i :=
  Cmat_eq inp hk t v i j hij

/-- … and it is the Voigt matrix of the full tensor: `C_ijkl = Cmat (voigt ij) (voigt kl)` -/
theorem c07_assembly_tensor (inp : Inputs ℝ) (hk : Keys inp) (t v : Nat) (i j k l : Int)
    (h : (i, j, k, l) ∈ allTuples) :
    Ctensor inp t v i j k l = Cmat inp t v (vidx i j) (vidx k l) := by
  have hr := (mem_allTuples i j k l).1 h
  have h1 := vidx_range i j ((mem_idx3 i).2 hr.1) ((mem_idx3 j).2 hr.2.1)
  have h2 := vidx_range k l ((mem_idx3 k).2 hr.2.2.1) ((mem_idx3 l).2 hr.2.2.2)
  rw [(c07_assembly inp hk t v _ _ ((mem_allPairs _ _).2 ⟨h1, h2⟩)).1]
  exact tensorOf_eq _ i j k l h

/-! #### reported compliances = entries of the inverse -/

/-- `self.sIJ` (I ≤ J) is always served and is the (I,J) entry of the batched inverse on the whole grid. -/
theorem c07_compliances_reported (inp : Inputs ℝ) (S : Nat → Nat → Int → Int → ℝ) (p : Int × Int)
    (hp : p ∈ keys21) :
    getS (report inp S).compl p.1 p.2 = some (entryField S inp.nt inp.nv p.1 p.2) :=
  getS_complDict S inp.nt inp.nv p hp

theorem c07_compliance_entry (S : Nat → Nat → Int → Int → ℝ) (nt nv t v : Nat) (ht : t < nt) (hv : v < nv)
    (i j : Int) : fieldAt (entryField S nt nv i j) t v = S t v i j :=
  sv_eq S nt nv t v ht hv i j

/-- With `C·S = 1` for the 6×6 matrices, the tensor `S_ijkl = s_pq·(1, ½, ¼)` is the fourth-rank inverse of
`C_ijkl`:  `C_ijkl S_klmn = ½(δ_im δ_jn + δ_in δ_jm)`. -/
theorem c07_compliance_tensor_inverse (inp : Inputs ℝ) (S : Nat → Nat → Int → Int → ℝ) (hk : Keys inp)
    (t v : Nat) (hinv : toMat (Cmat inp t v) * toMat (S t v) = 1)
    (i j m n : Int) (hi : i ∈ idx3) (hj : j ∈ idx3) (hm : m ∈ idx3) (hn : n ∈ idx3) :
    VRH.sum (idx3.map fun k => VRH.sum (idx3.map fun l => Ctensor inp t v i j k l * Stensor S t v k l m n))
      = idTensor i j m n := by
  have hc : ∀ k ∈ (kvAt inp.modAd t v).map (·.1), ∃ p ∈ keys21, k = keyOfVoigt p := by
    rw [map_fst_kvAt]; exact hk.canon
  have hn' : ((kvAt inp.modAd t v).map (·.1)).Nodup := by rw [map_fst_kvAt]; exact hk.nodup
  exact compl_tensor_inverse _ _ hc hn' hinv i j m n hi hj hm hn

/-! #### Voigt averages -/

theorem c07_bulk_voigt (inp : Inputs ℝ) (S : Nat → Nat → Int → Int → ℝ) (hk : Keys inp)
    (t v : Nat) (ht : t < inp.nt) (hv : v < inp.nv) :
    ∃ f, (report inp S).kV = some f ∧ fieldAt f t v = contractIIJJ (Ctensor inp t v) / 9 := by
  refine ⟨_, bulkVoigt_eq inp.nt inp.nv inp.modAd hk, ?_⟩
  rw [fieldAt_grid _ _ _ _ _ ht hv, contractIIJJ_tensorOf]
  simp only [bulkVoigtPt, cv, nat_real]; push_cast; ring

theorem c07_shear_voigt (inp : Inputs ℝ) (S : Nat → Nat → Int → Int → ℝ) (hk : Keys inp)
    (t v : Nat) (ht : t < inp.nt) (hv : v < inp.nv) :
    ∃ f, (report inp S).gV = some f ∧
      fieldAt f t v = (3 * contractIJIJ (Ctensor inp t v) - contractIIJJ (Ctensor inp t v)) / 30 := by
  refine ⟨_, shearVoigt_eq inp.nt inp.nv inp.modAd hk, ?_⟩
  rw [fieldAt_grid _ _ _ _ _ ht hv, contractIIJJ_tensorOf, contractIJIJ_tensorOf]
  simp only [shearVoigtPt, cv, nat_real]; push_cast; ring

/-! #### Reuss averages — defined for every input (all 21 compliances are stored), equal to the tensor
expressions of `S`; no positivity or invertibility is needed for the identities themselves -/

theorem c07_bulk_reuss (inp : Inputs ℝ) (S : Nat → Nat → Int → Int → ℝ)
    (t v : Nat) (ht : t < inp.nt) (hv : v < inp.nv) :
    ∃ f, (report inp S).kR = some f ∧ fieldAt f t v = 1 / contractIIJJ (Stensor S t v) := by
  refine ⟨_, bulkReuss_eq S inp.nt inp.nv, ?_⟩
  rw [fieldAt_grid _ _ _ _ _ ht hv, contractIIJJ_complTensorOf]
  simp only [bulkReussPt, sv_eq S _ _ t v ht hv, nat_real]; push_cast; rfl

theorem c07_shear_reuss (inp : Inputs ℝ) (S : Nat → Nat → Int → Int → ℝ)
    (t v : Nat) (ht : t < inp.nt) (hv : v < inp.nv) :
    ∃ f, (report inp S).gR = some f ∧
      fieldAt f t v = 15 / (6 * contractIJIJ (Stensor S t v) - 2 * contractIIJJ (Stensor S t v)) := by
  refine ⟨_, shearReuss_eq S inp.nt inp.nv, ?_⟩
  rw [fieldAt_grid _ _ _ _ _ ht hv, contractIIJJ_complTensorOf, contractIJIJ_complTensorOf]
  simp only [shearReussPt, sv_eq S _ _ t v ht hv, nat_real]; push_cast
  congr 1; ring

/-! #### Hill = arithmetic mean -/

theorem c07_hill_bulk (inp : Inputs ℝ) (S : Nat → Nat → Int → Int → ℝ) (hk : Keys inp)
    (t v : Nat) (ht : t < inp.nt) (hv : v < inp.nv) :
    ∃ r vo h, (report inp S).kR = some r ∧ (report inp S).kV = some vo ∧ (report inp S).kH = some h ∧
      fieldAt h t v = (fieldAt r t v + fieldAt vo t v) / 2 := by
  have hr := bulkReuss_eq S inp.nt inp.nv
  have hvo := bulkVoigt_eq inp.nt inp.nv inp.modAd hk
  have hh : (report inp S).kH = hill inp.nt inp.nv (bulkReuss inp.nt inp.nv (complDict S inp.nt inp.nv))
      (bulkVoigt inp.nt inp.nv inp.modAd) := rfl
  rw [hr, hvo, hill_some] at hh
  refine ⟨_, _, _, hr, hvo, hh, ?_⟩
  rw [fieldAt_grid _ _ (fun t v => hillPt _ _) _ _ ht hv]; simp only [hillPt, nat_real]; push_cast; rfl

theorem c07_hill_shear (inp : Inputs ℝ) (S : Nat → Nat → Int → Int → ℝ) (hk : Keys inp)
    (t v : Nat) (ht : t < inp.nt) (hv : v < inp.nv) :
    ∃ r vo h, (report inp S).gR = some r ∧ (report inp S).gV = some vo ∧ (report inp S).gH = some h ∧
      fieldAt h t v = (fieldAt r t v + fieldAt vo t v) / 2 := by
  have hr := shearReuss_eq S inp.nt inp.nv
  have hvo := shearVoigt_eq inp.nt inp.nv inp.modAd hk
  have hh : (report inp S).gH = hill inp.nt inp.nv (shearReuss inp.nt inp.nv (complDict S inp.nt inp.nv))
      (shearVoigt inp.nt inp.nv inp.modAd) := rfl
  rw [hr, hvo, hill_some] at hh
  refine ⟨_, _, _, hr, hvo, hh, ?_⟩
  rw [fieldAt_grid _ _ (fun t v => hillPt _ _) _ _ ht hv]; simp only [hillPt, nat_real]; push_cast; rfl

/-! #### Reuss ≤ Hill ≤ Voigt wherever the stiffness is positive definite -/

theorem c07_kr_le_kv (inp : Inputs ℝ) (S : Nat → Nat → Int → Int → ℝ) (hk : Keys inp)
    (t v : Nat) (ht : t < inp.nt) (hv : v < inp.nv)
    (hpt : SPDPoint inp S t v) :
    ∃ r vo, (report inp S).kR = some r ∧ (report inp S).kV = some vo ∧
      0 < fieldAt r t v ∧ fieldAt r t v ≤ fieldAt vo t v := by
  refine ⟨_, _, bulkReuss_eq S inp.nt inp.nv, bulkVoigt_eq inp.nt inp.nv inp.modAd hk, ?_⟩
  rw [fieldAt_grid _ _ _ _ _ ht hv, fieldAt_grid _ _ _ _ _ ht hv]
  have h := kr_le_kv_pt (Cmat inp t v) (S t v) (Cmat_symm inp hk t v) hpt.pd hpt.inv
  simp only [sv_eq S _ _ t v ht hv]
  rw [← Cmat_cv inp hk t v (1, 1) (by decide), ← Cmat_cv inp hk t v (2, 2) (by decide),
    ← Cmat_cv inp hk t v (3, 3) (by decide), ← Cmat_cv inp hk t v (1, 2) (by decide),
    ← Cmat_cv inp hk t v (2, 3) (by decide), ← Cmat_cv inp hk t v (1, 3) (by decide)]
  exact h

theorem c07_gr_le_gv (inp : Inputs ℝ) (S : Nat → Nat → Int → Int → ℝ) (hk : Keys inp)
    (t v : Nat) (ht : t < inp.nt) (hv : v < inp.nv)
    (hpt : SPDPoint inp S t v) :
    ∃ r vo, (report inp S).gR = some r ∧ (report inp S).gV = some vo ∧
      0 < fieldAt r t v ∧ fieldAt r t v ≤ fieldAt vo t v := by
  refine ⟨_, _, shearReuss_eq S inp.nt inp.nv, shearVoigt_eq inp.nt inp.nv inp.modAd hk, ?_⟩
  rw [fieldAt_grid _ _ _ _ _ ht hv, fieldAt_grid _ _ _ _ _ ht hv]
  have h := gr_le_gv_pt (Cmat inp t v) (S t v) (Cmat_symm inp hk t v) hpt.pd hpt.inv
  simp only [sv_eq S _ _ t v ht hv]
  rw [← Cmat_cv inp hk t v (1, 1) (by decide), ← Cmat_cv inp hk t v (2, 2) (by decide),
    ← Cmat_cv inp hk t v (3, 3) (by decide), ← Cmat_cv inp hk t v (1, 2) (by decide),
    ← Cmat_cv inp hk t v (2, 3) (by decide), ← Cmat_cv inp hk t v (1, 3) (by decide),
    ← Cmat_cv inp hk t v (4, 4) (by decide), ← Cmat_cv inp hk t v (5, 5) (by decide),
    ← Cmat_cv inp hk t v (6, 6) (by decide)]
  exact h

/-- Reuss ≤ Hill ≤ Voigt, bulk and shear, at every grid point where the stiffness is positive definite -/
theorem c07_hill_between (inp : Inputs ℝ) (S : Nat → Nat → Int → Int → ℝ) (hk : Keys inp)
    (t v : Nat) (ht : t < inp.nt) (hv : v < inp.nv)
    (hpt : SPDPoint inp S t v) :
    ∃ kr kh kv gr gh gv, (report inp S).kR = some kr ∧ (report inp S).kH = some kh ∧ (report inp S).kV = some kv ∧
      (report inp S).gR = some gr ∧ (report inp S).gH = some gh ∧ (report inp S).gV = some gv ∧
      0 < fieldAt kr t v ∧ fieldAt kr t v ≤ fieldAt kh t v ∧ fieldAt kh t v ≤ fieldAt kv t v ∧
      0 < fieldAt gr t v ∧ fieldAt gr t v ≤ fieldAt gh t v ∧ fieldAt gh t v ≤ fieldAt gv t v := by
  obtain ⟨kr, kv, hkr, hkv, kpos, kle⟩ := c07_kr_le_kv inp S hk t v ht hv hpt
  obtain ⟨gr, gv, hgr, hgv, gpos, gle⟩ := c07_gr_le_gv inp S hk t v ht hv hpt
  obtain ⟨kr', kv', kh, hkr', hkv', hkh, ekh⟩ := c07_hill_bulk inp S hk t v ht hv
  obtain ⟨gr', gv', gh, hgr', hgv', hgh, egh⟩ := c07_hill_shear inp S hk t v ht hv
  rw [hkr] at hkr'; rw [hkv] at hkv'; rw [hgr] at hgr'; rw [hgv] at hgv'
  cases hkr'; cases hkv'; cases hgr'; cases hgv'
  refine ⟨kr, kh, kv, gr, gh, gv, hkr, hkh, hkv, hgr, hgh, hgv, kpos, ?_, ?_, gpos, ?_, ?_⟩
  · rw [ekh]; linarith
  · rw [ekh]; linarith
  · rw [egh]; linarith
  · rw [egh]; linarith

/-! #### velocities: ρ v_s² = G_VRH, ρ v_p² = K_VRH + 4 G_VRH / 3, in km/s

`ρ = (cell mass in g/mol)/1000/(N_A · V)` is the density in kg per unit of `V` (bohr³); `f` is one rydberg in
kg·km²/s², so `G·f` is the modulus (Ry/bohr³) in kg·km²·s⁻² per bohr³ and `v` comes out in km/s. -/

theorem c07_vs_sq (inp : Inputs ℝ) (S : Nat → Nat → Int → Int → ℝ) (hk : Keys inp)
    (t v : Nat) (ht : t < inp.nt) (hv : v < inp.nv)
    (hV : 0 < inp.vArray.getD v 0) (hN : 0 < inp.avogadro) (hm : 0 < inp.cellmass) (hf : 0 ≤ inp.ryFactor)
    (hpt : SPDPoint inp S t v) :
    ∃ g vs, (report inp S).gH = some g ∧ (report inp S).vs = some vs ∧
      inp.cellmass / 1000 / (inp.avogadro * inp.vArray.getD v 0) * fieldAt vs t v ^ 2
        = fieldAt g t v * inp.ryFactor := by
  obtain ⟨kr, kh, kv, gr, gh, gv, hkr, hkh, hkv, hgr, hgh, hgv, kpos, k1, k2, gpos, g1, g2⟩ :=
    c07_hill_between inp S hk t v ht hv hpt
  have hvs : (report inp S).vs = secondaryVelocities inp (report inp S).gH := rfl
  have h0 : (nat 0 : ℝ) = 0 := by simp
  refine ⟨gh, _, hgh, by rw [hvs, hgh]; rfl, ?_⟩
  rw [fieldAt_grid _ _ (fun t v => vsPt _ _ _ _) _ _ ht hv, h0]
  exact vs_sq_pt _ _ _ _ _ hV hN hm hf (by linarith)

theorem c07_vp_sq (inp : Inputs ℝ) (S : Nat → Nat → Int → Int → ℝ) (hk : Keys inp)
    (t v : Nat) (ht : t < inp.nt) (hv : v < inp.nv)
    (hV : 0 < inp.vArray.getD v 0) (hN : 0 < inp.avogadro) (hm : 0 < inp.cellmass) (hf : 0 ≤ inp.ryFactor)
    (hpt : SPDPoint inp S t v) :
    ∃ k g vp, (report inp S).kH = some k ∧ (report inp S).gH = some g ∧ (report inp S).vp = some vp ∧
      inp.cellmass / 1000 / (inp.avogadro * inp.vArray.getD v 0) * fieldAt vp t v ^ 2
        = (fieldAt k t v + 4 * fieldAt g t v / 3) * inp.ryFactor := by
  obtain ⟨kr, kh, kv, gr, gh, gv, hkr, hkh, hkv, hgr, hgh, hgv, kpos, k1, k2, gpos, g1, g2⟩ :=
    c07_hill_between inp S hk t v ht hv hpt
  have hvp : (report inp S).vp = primaryVelocities inp (report inp S).kH (report inp S).gH := rfl
  have h0 : (nat 0 : ℝ) = 0 := by simp
  refine ⟨kh, gh, _, hkh, hgh, by rw [hvp, hkh, hgh]; rfl, ?_⟩
  rw [fieldAt_grid _ _ (fun t v => vpPt _ _ _ _ _) _ _ ht hv, h0]
  exact vp_sq_pt _ _ _ _ _ _ hV hN hm hf (by linarith)

/-- the mass per cell is `cellmass [g/mol] · 10⁻³ / N_A` kg -/
theorem c07_mass (inp : Inputs ℝ) (S : Nat → Nat → Int → Int → ℝ) (hN : inp.avogadro ≠ 0) :
    (report inp S).mass * inp.avogadro * 1000 = inp.cellmass := by
  show mass inp.cellmass inp.avogadro * inp.avogadro * 1000 = inp.cellmass
  simp only [mass, nat_real]; push_cast; field_simp

/-! #### non-vacuity: a concrete instance satisfying every hypothesis used above

cubic `c11 = 3, c12 = 1, c44 = 1` on a 1×1 grid, `S` its exact inverse (`s11 = 2/5, s12 = −1/10, s44 = 1`). -/

example : Keys exInp ∧ SPDPoint exInp exS 0 0 ∧ (0 < exInp.nt ∧ 0 < exInp.nv) :=
  ⟨orthoDict_keys _ _ _ _ _ _ _ _ _, ⟨ex_posDef, ex_inv⟩, by decide, by decide⟩

/-- on that instance the theorems give the textbook cubic values K_V = K_R = 5/3, G_R = 1 = G_V -/
example : ∃ kr kv gr gv, (report exInp exS).kR = some kr ∧ (report exInp exS).kV = some kv ∧
    (report exInp exS).gR = some gr ∧ (report exInp exS).gV = some gv ∧
    fieldAt kv 0 0 = 5 / 3 ∧ fieldAt kr 0 0 = 5 / 3 ∧ fieldAt gv 0 0 = 1 ∧ fieldAt gr 0 0 = 1 := by
  have hk : Keys exInp := orthoDict_keys _ _ _ _ _ _ _ _ _
  refine ⟨_, _, _, _, bulkReuss_eq exS 1 1, bulkVoigt_eq 1 1 exInp.modAd hk,
    shearReuss_eq exS 1 1, shearVoigt_eq 1 1 exInp.modAd hk, ?_, ?_, ?_, ?_⟩
  · rw [fieldAt_grid _ _ (fun t v => bulkVoigtPt _ _ _ _ _ _) 0 0 (by decide) (by decide)]
    rw [← Cmat_cv exInp hk 0 0 (1, 1) (by decide), ← Cmat_cv exInp hk 0 0 (2, 2) (by decide),
      ← Cmat_cv exInp hk 0 0 (3, 3) (by decide), ← Cmat_cv exInp hk 0 0 (1, 2) (by decide),
      ← Cmat_cv exInp hk 0 0 (2, 3) (by decide), ← Cmat_cv exInp hk 0 0 (1, 3) (by decide)]
    simp only [Cmat, exInp, orthoDict_assemble 3 3 3 1 1 1 1 1 1 _ _ (by decide : ((1:Int), (1:Int)) ∈ allPairs),
      orthoDict_assemble 3 3 3 1 1 1 1 1 1 _ _ (by decide : ((2:Int), (2:Int)) ∈ allPairs),
      orthoDict_assemble 3 3 3 1 1 1 1 1 1 _ _ (by decide : ((3:Int), (3:Int)) ∈ allPairs),
      orthoDict_assemble 3 3 3 1 1 1 1 1 1 _ _ (by decide : ((1:Int), (2:Int)) ∈ allPairs),
      orthoDict_assemble 3 3 3 1 1 1 1 1 1 _ _ (by decide : ((2:Int), (3:Int)) ∈ allPairs),
      orthoDict_assemble 3 3 3 1 1 1 1 1 1 _ _ (by decide : ((1:Int), (3:Int)) ∈ allPairs)]
    norm_num [bulkVoigtPt, orthoMat]
  · rw [fieldAt_grid _ _ (fun t v => bulkReussPt _ _ _ _ _ _) 0 0 (by decide) (by decide)]
    simp only [sv_eq exS 1 1 0 0 (by decide) (by decide)]
    norm_num [bulkReussPt, exS, orthoMat]
  · rw [fieldAt_grid _ _ (fun t v => shearVoigtPt _ _ _ _ _ _ _ _ _) 0 0 (by decide) (by decide)]
    rw [← Cmat_cv exInp hk 0 0 (1, 1) (by decide), ← Cmat_cv exInp hk 0 0 (2, 2) (by decide),
      ← Cmat_cv exInp hk 0 0 (3, 3) (by decide), ← Cmat_cv exInp hk 0 0 (1, 2) (by decide),
      ← Cmat_cv exInp hk 0 0 (2, 3) (by decide), ← Cmat_cv exInp hk 0 0 (1, 3) (by decide),
      ← Cmat_cv exInp hk 0 0 (4, 4) (by decide), ← Cmat_cv exInp hk 0 0 (5, 5) (by decide),
      ← Cmat_cv exInp hk 0 0 (6, 6) (by decide)]
    simp only [Cmat, exInp, orthoDict_assemble 3 3 3 1 1 1 1 1 1 _ _ (by decide : ((1:Int), (1:Int)) ∈ allPairs),
      orthoDict_assemble 3 3 3 1 1 1 1 1 1 _ _ (by decide : ((2:Int), (2:Int)) ∈ allPairs),
      orthoDict_assemble 3 3 3 1 1 1 1 1 1 _ _ (by decide : ((3:Int), (3:Int)) ∈ allPairs),
      orthoDict_assemble 3 3 3 1 1 1 1 1 1 _ _ (by decide : ((1:Int), (2:Int)) ∈ allPairs),
      orthoDict_assemble 3 3 3 1 1 1 1 1 1 _ _ (by decide : ((2:Int), (3:Int)) ∈ allPairs),
      orthoDict_assemble 3 3 3 1 1 1 1 1 1 _ _ (by decide : ((1:Int), (3:Int)) ∈ allPairs),
      orthoDict_assemble 3 3 3 1 1 1 1 1 1 _ _ (by decide : ((4:Int), (4:Int)) ∈ allPairs),
      orthoDict_assemble 3 3 3 1 1 1 1 1 1 _ _ (by decide : ((5:Int), (5:Int)) ∈ allPairs),
      orthoDict_assemble 3 3 3 1 1 1 1 1 1 _ _ (by decide : ((6:Int), (6:Int)) ∈ allPairs)]
    norm_num [shearVoigtPt, orthoMat]
  · rw [fieldAt_grid _ _ (fun t v => shearReussPt _ _ _ _ _ _ _ _ _) 0 0 (by decide) (by decide)]
    simp only [sv_eq exS 1 1 0 0 (by decide) (by decide)]
    norm_num [shearReussPt, exS, orthoMat]

/-- regression instance (historical note): `c11 = c22 = 10, c33 = 4, c12 = 1, c13 = c23 = 2, c44 = c55 = c66 = 1` is
positive definite and its exact inverse has `s12 = 0`.  Before repo commit 1b22ce6 the code skipped compliance
entries that were `allclose` to 0, `self.s12` raised and no Reuss/Hill modulus or velocity was reported for this
input.  For the code as it is now the hypotheses hold and `K_R = 36/11` is reported.  (The harness replays exactly
this input on the real classes: corpus/C07/s12-zero.json.) -/
example : Keys wInp ∧ SPDPoint wInp wS 0 0 ∧
    ∃ kr, (report wInp wS).kR = some kr ∧ fieldAt kr 0 0 = 36 / 11 := by
  refine ⟨orthoDict_keys _ _ _ _ _ _ _ _ _, ⟨w_posDef, w_inv⟩, _, bulkReuss_eq wS 1 1, ?_⟩
  rw [fieldAt_grid _ _ (fun t v => bulkReussPt _ _ _ _ _ _) 0 0 (by decide) (by decide)]
  simp only [sv_eq wS 1 1 0 0 (by decide) (by decide)]
  norm_num [bulkReussPt, wS, orthoMat]

/-- the identity tensor and the Voigt-index map used in the statements, on concrete indices -/
example : idTensor 1 2 2 1 = 1 / 2 ∧ idTensor 1 1 1 1 = 1 ∧ idTensor 1 1 2 2 = 0 ∧ vidx 2 3 = 4 ∧ vidx 1 1 = 1 := by
  refine ⟨by norm_num [idTensor], by norm_num [idTensor], by norm_num [idTensor], by decide, by decide⟩

/-! #### the model IS the source: bodies re-extracted from calculator.py on this run

`tools/gen_tables.py` parses the bodies of the six averaging properties, `mass`, `primary_velocities` and
`secondary_velocities` of `CijVolumeBaseInterface` into expression trees (`Generated.vrh*`).  The point formulas about
which everything above is proved are definitionally those trees, for every scalar type (`Lemmas/VRHSource.lean`); here
at ℝ.  A changed coefficient, index or operator in those Python bodies makes this theorem fail to check. -/

open Cij.VExpr in
theorem c07_model_is_source (c11 c22 c33 c12 c23 c13 c44 c55 c66 s11 s22 s33 s12 s23 s13 s44 s55 s66 : ℝ) (e : Env ℝ)
    (hc : e.c = cEnv c11 c22 c33 c12 c23 c13 c44 c55 c66) (hs : e.s = cEnv s11 s22 s33 s12 s23 s13 s44 s55 s66) :
    bulkVoigtPt c11 c22 c33 c12 c23 c13 = eval e Generated.vrhBulkVoigt ∧
    shearVoigtPt c11 c22 c33 c12 c23 c13 c44 c55 c66 = eval e Generated.vrhShearVoigt ∧
    bulkReussPt s11 s22 s33 s12 s23 s13 = eval e Generated.vrhBulkReuss ∧
    shearReussPt s11 s22 s33 s12 s23 s13 s44 s55 s66 = eval e Generated.vrhShearReuss ∧
    hillPt (e.prop .kR) (e.prop .kV) = eval e Generated.vrhBulkHill ∧
    hillPt (e.prop .gR) (e.prop .gV) = eval e Generated.vrhShearHill ∧
    mass e.cellmass e.avogadro = eval e Generated.vrhMass ∧
    vpPt (e.prop .kH) (e.prop .gH) e.V e.ryFactor e.mass = eval e Generated.vrhVp ∧
    vsPt (e.prop .gH) e.V e.ryFactor e.mass = eval e Generated.vrhVs :=
  ⟨bulkVoigt_is_source c11 c22 c33 c12 c23 c13 c44 c55 c66 e hc, shearVoigt_is_source c11 c22 c33 c12 c23 c13 c44 c55 c66 e hc,
   bulkReuss_is_source s11 s22 s33 s12 s23 s13 s44 s55 s66 e hs, shearReuss_is_source s11 s22 s33 s12 s23 s13 s44 s55 s66 e hs,
   (hill_is_source e).1, (hill_is_source e).2, mass_is_source e, vp_is_source e, vs_is_source e⟩

/-! #### the GLUE is the source: `Calculator` / `CijVolumeBaseInterface` around the formulas

`tools/gens/calc_src.py` re-extracts on every run, as data (`Generated/CalcGlueSpec.lean`): `REGEX_CIJ` and its parts, the dispatch
of `CijVolumeBaseInterface.__getattr__`, the index arithmetic / stores / loops of `_calculate_compliances`, the statements of
`Calculator.__init__` with the attributes every method reads and writes, the wiring of `_process_cij`,
`_calculate_pressure_static`, `_interpolate_modes`, `_apply_elastic_constants_symmetry`, `modulus_keys`, `dims`, `write_output`,
and for every class: bases, class-level / module-level assignments with the kind of value, default arguments, decorators,
names defined, and per method the in-place operations on anything reachable from `self`.  `CijModel/CalcGlue.lean` gives the
data their meaning (evaluators, run at `Float` by the driver against the real classes).  The theorems below say that the
hand-written model about which everything above is proved IS the evaluation of these data, for all inputs.  A changed
offset, comparison, store, group number, pattern, decorator, a class-level container or an in-place update in the Python
source changes the data and these theorems no longer check (or the translator reports the method that left its grammar). -/

open Cij.CalcGlue Generated.CalcGlue

/-- the assembly loop of `_calculate_compliances`, evaluated from the extracted index data (`[i-1, j-1]`, both orders of
`key.voigt`, store `modulus_adiabatic`, keys from `modulus_keys`), is `assembleEntry` — for EVERY dictionary `kv` (any key order, any
subset, any scalar type: also the `Float` run) and every cell -/
theorem calc_glue_is_source_assembly {α : Type} [Scalar α] (kv : KV α) (i j : Int) :
    assembleSpec complSpec kv (i - 1) (j - 1) = assembleEntry kv i j ∧
    complSpec.store = "modulus_adiabatic" ∧ complSpec.keysFrom = "modulus_keys" ∧ complSpec.keyAttr = "voigt" ∧
    complSpec.shape = (6, 6) ∧ complSpec.dimsAttr = "dims" :=
  ⟨assembleSpec_gen kv i j, by decide, by decide, by decide, by decide, by decide⟩

/-- … hence, by `c07_assembly`: whatever the order of `modulus_keys` (`inp'` any permutation of `inp`), cell `[i-1, j-1]` holds the value of
the canonical key of the unordered pair {i, j}, and the matrix is symmetric -/
theorem calc_glue_is_source_assembly_any_order (inp inp' : Inputs ℝ) (hk : Keys inp) (hp : inp.modAd.Perm inp'.modAd)
    (t v : Nat) (i j : Int) (hij : (i, j) ∈ allPairs) :
    assembleSpec complSpec (kvAt inp'.modAd t v) (i - 1) (j - 1) = val (kvAt inp.modAd t v) (canon (i, j)) ∧
    assembleSpec complSpec (kvAt inp'.modAd t v) (i - 1) (j - 1) = assembleSpec complSpec (kvAt inp'.modAd t v) (j - 1) (i - 1) := by
  rw [assembleSpec_gen, assembleSpec_gen]
  have h := Cmat_perm inp inp' hk hp t v i j hij
  have h' := Cmat_eq inp' (keys_perm inp inp' hk hp) t v i j hij
  exact ⟨by rw [← (Cmat_eq inp hk t v i j hij).1]; exact h.symm, h'.2⟩

/-- the labelling loop, evaluated from the extracted data (`range(6)²`, skip `i > j`, label `c_(i+1, j+1)`, read `[i, j]`), is `complDict`;
there is ONE `numpy.linalg.inv` call; the dict it fills is the one `__getattr__` serves the `s…` names from -/
theorem calc_glue_is_source_labels {α : Type} (S : Nat → Nat → Int → Int → α) (nt nv : Nat) :
    complDictSpec complSpec S nt nv = complDict S nt nv ∧ complSpec.invCalls = 1 ∧
    complSpec.dictAttr = "_compliances" ∧
    (∀ b ∈ getattrBranches, b.lit = "s" → b.member = complSpec.dictAttr ∧ b.elseStore = complSpec.dictAttr) :=
  ⟨complDictSpec_gen S nt nv, by decide, by decide, by decide⟩

/-- **label (i, j) holds the (i, j) entry of the inverse of the assembled matrix, whatever the order of `modulus_keys`**: for two
presentations of the same dictionary and ANY batched inverses `S`, `S'` (`C·S = 1` at the grid point), the arrays served as `sIJ` agree there
and are the (I, J) entry of Mathlib's `(toMat C)⁻¹` -/
theorem calc_glue_label_is_inverse_entry (inp inp' : Inputs ℝ) (hk : Keys inp) (hp : inp.modAd.Perm inp'.modAd)
    (S S' : Nat → Nat → Int → Int → ℝ) (nt nv t v : Nat) (ht : t < nt) (hv : v < nv)
    (hinv : toMat (Cmat inp t v) * toMat (S t v) = 1) (hinv' : toMat (Cmat inp' t v) * toMat (S' t v) = 1)
    (a b : Fin 6) (hab : (ix a, ix b) ∈ keys21) :
    ∃ f f', getS (complDictSpec complSpec S nt nv) (ix a) (ix b) = some f ∧
      getS (complDictSpec complSpec S' nt nv) (ix a) (ix b) = some f' ∧
      fieldAt f t v = (toMat (Cmat inp t v))⁻¹ a b ∧ fieldAt f' t v = fieldAt f t v := by
  rw [complDictSpec_gen, complDictSpec_gen]
  refine ⟨_, _, getS_complDict S nt nv (ix a, ix b) hab, getS_complDict S' nt nv (ix a, ix b) hab, ?_, ?_⟩
  · show sv S nt nv t v (ix a) (ix b) = _
    rw [sv_eq S nt nv t v ht hv, ← right_inv_eq_inv _ _ hinv]; rfl
  · have hC : toMat (Cmat inp' t v) = toMat (Cmat inp t v) :=
      toMat_congr _ _ (fun i j hij => (Cmat_perm inp inp' hk hp t v i j hij).symm)
    rw [hC] at hinv'
    show sv S' nt nv t v (ix a) (ix b) = sv S nt nv t v (ix a) (ix b)
    rw [sv_eq S nt nv t v ht hv, sv_eq S' nt nv t v ht hv]
    show toMat (S' t v) a b = toMat (S t v) a b
    rw [right_inv_eq_inv _ _ hinv, right_inv_eq_inv _ _ hinv']

/-- no class-level mutable attribute, no module-level container, no mutable default, no base class / metaclass, only
`property` / `LazyProperty` decorators, no name defined twice (`NoSharedState`, Lemmas/CalcGlueSource.lean) -/
theorem calc_glue_no_shared_state : NoSharedState := by decide
/-- no property body writes in place into anything reachable from `self` (`NoInplace`) -/
theorem calc_glue_no_inplace : NoInplace := by decide

/-! #### name lookup: REGEX_CIJ and `__getattr__` -/

/-- `re.search(REGEX_CIJ, name)` as extracted accepts EXACTLY: prefix `c`|`s`, optional `_`, two Voigt digits 1–6 or four standard
digits 1–3, optional suffix `s`|`t`, optionally ONE trailing newline (Python's `$`); and `group(1..3)` are these parts -/
theorem calc_glue_is_source_lookup_language (name : String) (q : Parsed) :
    matchName regexParts getattrMatchFn name.toList = some q ↔
      ((q.pre = 'c' ∨ q.pre = 's') ∧
       ((q.digits.length = 2 ∧ ∀ c ∈ q.digits, '1' ≤ c ∧ c ≤ '6') ∨ (q.digits.length = 4 ∧ ∀ c ∈ q.digits, '1' ≤ c ∧ c ≤ '3')) ∧
       (q.suf = none ∨ q.suf = some 's' ∨ q.suf = some 't')) ∧
      ∃ u, (u = [] ∨ u = ['_']) ∧ ∃ nl, (nl = [] ∨ nl = ['\n']) ∧
        name.toList = q.pre :: (u ++ (q.digits ++ q.suf.toList)) ++ nl :=
  matchName_gen name.toList q

/-- the extracted dispatch of `__getattr__`, for every name and every content of the dictionaries: `c…` needs the key in `modulus_keys` and
is isothermal exactly for suffix `t`, adiabatic otherwise; `s…` needs the key in `_compliances` and is served from it for suffix `s` or none,
AttributeError for suffix `t` (`_compliances` is the inverse of the ADIABATIC stiffness; before the repair of the source the inner test read
`res.group(1) == 't'`, never true, and `s11t` returned the adiabatic compliance — that spelling breaks this theorem); anything else
AttributeError -/
theorem calc_glue_is_source_lookup_dispatch (hasKey : String → Modulus → Bool) (name : String) :
    resolve regexParts getattrMatchFn getattrBranches hasKey name =
      match matchName regexParts getattrMatchFn name.toList with
      | none => .attributeError
      | some q =>
        let key := keyOfVoigt (canon (pairOfDigits q.digits))
        if q.pre = 'c' then
          if hasKey "modulus_keys" key then
            (if q.suf = some 't' then .served "modulus_isothermal" key else .served "modulus_adiabatic" key)
          else .attributeError
        else
          if hasKey "_compliances" key then
            (if q.suf = some 't' then .attributeError else .served "_compliances" key)
          else .attributeError :=
  resolve_gen hasKey name

/-- `c_(res.group(2))` never raises on an accepted name: it is the canonical key of the Voigt pair the digits name -/
theorem calc_glue_lookup_key_defined (name : String) (q : Parsed)
    (h : matchName regexParts getattrMatchFn name.toList = some q) :
    Modulus.create [.str (String.ofList q.digits)] = some (keyOfVoigt (canon (pairOfDigits q.digits))) ∧
      canon (pairOfDigits q.digits) ∈ keys21 :=
  create_digits q.digits (good_digits q ((matchName_gen _ q).1 h).1)

/-- the reads `self.cIJ` / `self.sIJ` of the averaging properties (`getC`, `getS` of the model: `(attrKey i j).bind (find d)`) are this
dispatch: adiabatic stiffness, reported compliances — for all 36 index pairs and all dictionaries -/
theorem calc_glue_is_source_averages_read {β : Type} (s : Stores β) (hkeys : s.keys = s.adiabatic.map (·.1)) (p : Int × Int)
    (hp : p ∈ allPairs) :
    lookup regexParts getattrMatchFn getattrBranches s ("c" ++ toString p.1 ++ toString p.2)
        = (attrKey p.1 p.2).bind (find s.adiabatic) ∧
    lookup regexParts getattrMatchFn getattrBranches s ("s" ++ toString p.1 ++ toString p.2)
        = (attrKey p.1 p.2).bind (find s.compliances) := by
  obtain ⟨h1, h2, h3⟩ := names_IJ p hp
  rw [lookup_c_gen s hkeys _ _ none (by simp) h1, lookup_s_gen s _ _ none (by simp) h2, h3]
  exact ⟨rfl, rfl⟩

open Classical in
/-- every spelling, every suffix, as a function of the three dictionaries -/
theorem calc_glue_lookup_suffixes {β : Type} (s : Stores β) (hkeys : s.keys = s.adiabatic.map (·.1)) (name : String)
    (q : Parsed) (h : matchName regexParts getattrMatchFn name.toList = some q) :
    let key := keyOfVoigt (canon (pairOfDigits q.digits))
    lookup regexParts getattrMatchFn getattrBranches s name =
      if q.pre = 'c' then
        (if q.suf = some 't' then (if key ∈ s.keys then find s.isothermal key else none) else find s.adiabatic key)
      else (if q.suf = some 't' then none else find s.compliances key) := by
  obtain ⟨⟨hp, _, _⟩, _⟩ := (matchName_gen _ q).1 h
  obtain ⟨p, d, sf⟩ := q
  simp only at hp
  rcases hp with rfl | rfl
  · by_cases ht : sf = some 't'
    · subst ht
      simp only [if_true]
      unfold lookup
      rw [resolve_gen, h]
      show (match expected s.hasKey ⟨'c', d, some 't'⟩ with
        | .served st key => (s.get st).bind fun d => find d key
        | _ => none) = _
      unfold expected
      rw [if_pos rfl, hasKey_modulus_keys, if_pos rfl]
      by_cases hmem : keyOfVoigt (canon (pairOfDigits d)) ∈ s.keys
      · rw [if_pos (List.any_eq_true.2 ⟨_, hmem, by simp⟩), if_pos hmem]
        show (s.get "modulus_isothermal").bind _ = _
        rw [get_isothermal]; rfl
      · rw [if_neg (fun hh => hmem (by obtain ⟨x, hx, e⟩ := List.any_eq_true.1 hh; rw [← of_decide_eq_true e]; exact hx)),
          if_neg hmem]
    · dsimp only
      rw [if_pos rfl, if_neg ht]
      exact lookup_c_gen s hkeys name d sf ht h
  · have hsc : ¬ 's' = 'c' := by decide
    dsimp only
    rw [if_neg hsc]
    by_cases ht : sf = some 't'
    · subst ht
      rw [if_pos rfl]
      unfold lookup
      rw [resolve_s_t_gen s.hasKey name d h]
    · rw [if_neg ht]
      exact lookup_s_gen s name d sf ht h

/-- **the repaired behaviour of the compliance names**: for every accepted name with prefix `s` — any spelling (`sIJ`, `s_IJ`, `sijkl`, swapped
indices, trailing newline) — suffix `t` raises AttributeError whatever the dictionaries hold (nothing is reported under an isothermal name: the
table is the inverse of the adiabatic stiffness), and suffix `s` or none returns the entry of `_compliances` under the canonical key -/
theorem calc_glue_compliance_names {β : Type} (s : Stores β) (hasKey : String → Modulus → Bool) (name : String) (q : Parsed)
    (h : matchName regexParts getattrMatchFn name.toList = some q) (hs : q.pre = 's') :
    (q.suf = some 't' → resolve regexParts getattrMatchFn getattrBranches hasKey name = .attributeError ∧
        lookup regexParts getattrMatchFn getattrBranches s name = none) ∧
    (q.suf ≠ some 't' → lookup regexParts getattrMatchFn getattrBranches s name
        = find s.compliances (keyOfVoigt (canon (pairOfDigits q.digits)))) := by
  obtain ⟨p, d, sf⟩ := q
  simp only at hs
  subst hs
  refine ⟨fun ht => ?_, fun ht => lookup_s_gen s name d sf ht h⟩
  simp only at ht
  subst ht
  refine ⟨resolve_s_t_gen hasKey name d h, ?_⟩
  unfold lookup
  rw [resolve_s_t_gen s.hasKey name d h]

/-! #### `getattr(volume_base, name)`: normal lookup first — exactly which names reach `__getattr__`

The theorems above describe `CijVolumeBaseInterface.__getattr__`.  Python calls it only when normal lookup fails.  The translator
extracts, per class, every name normal lookup can find: the names bound in the class body (`classNames`), the attributes assigned on
`self` (`initAttrs`: unconditionally in `__init__`; `laterAttrs`: anywhere else), the cache attributes `_<name>` of the LazyProperties
(`lazyCacheAttrs`), and that nothing makes lookup dynamic (`StaticLookup`: no base class, no `__getattribute__` / `__setattr__` /
`__slots__`, no `setattr` / `__dict__` / `vars`, no store on another object).  What `object` and the type machinery add is a parameter
`builtin`, constrained only by the spelling `__…` (the harness checks that spelling on the real objects).  `getattrOf` (CijModel/CalcGlue.lean)
is `getattr`: `.attribute` when normal lookup finds the name, `.fallback (__getattr__ name)` when it cannot, `.stateDependent` for an attribute
that exists only after some method ran. -/

theorem calc_glue_static_lookup : StaticLookup := by decide

/-- **(1) no name of the language of `REGEX_CIJ` is in the way**: a name the extracted pattern accepts (any spelling: `cIJ`, `s_ijkl`, suffix,
trailing newline) is different from every name bound in the body of `CijVolumeBaseInterface` / `CijPressureBaseInterface`, every attribute
assigned on `self` in their methods and every LazyProperty cache attribute, and is not spelled `__…`: normal lookup fails on BOTH
interfaces -/
theorem calc_glue_accepted_names_reach_getattr (name : String) (q : Parsed)
    (h : matchName regexParts getattrMatchFn name.toList = some q) :
    (∀ d ∈ volumeBaseShape.all ++ pressureBaseShape.all, d ≠ name) ∧
    volumeBaseShape.defined name = false ∧ pressureBaseShape.defined name = false ∧ dunderLike name = false := by
  refine ⟨fun d hd e => ?_, accepted_not_defined _ volumeBase_names_rejected name q h,
    accepted_not_defined _ pressureBase_names_rejected name q h, accepted_not_dunder name q h⟩
  subst e
  rcases List.mem_append.1 hd with hd | hd
  · rw [volumeBase_names_rejected d hd] at h; cases h
  · rw [pressureBase_names_rejected d hd] at h; cases h

/-- **(2) the explicit quantities never go through `__getattr__`**: every node of the property graph of `CijVolumeBaseInterface` (the six
averages, `mass`, the two velocities, `v_array`, `t_array`, `pressures`, the two dictionaries) is bound in the class body — found by normal
lookup on every instance — and is outside the language of the pattern; every attribute any method of the class reads through `self` is
either such an always-defined name or a name of the language (so no read of the class can end in `raise AttributeError(name)` for a name
outside both); the same for `CijPressureBaseInterface`, whose methods read no name of the language at all -/
theorem calc_glue_explicit_quantities_defined :
    (∀ e ∈ volumeBaseDeps, volumeBaseShape.always e.1 = true ∧ matchName regexParts getattrMatchFn e.1.toList = none ∧
        ∀ r ∈ e.2.2, volumeBaseShape.always r = true) ∧
    (∀ n ∈ ["bulk_modulus_voigt", "bulk_modulus_reuss", "bulk_modulus_voigt_reuss_hill", "shear_modulus_voigt", "shear_modulus_reuss",
        "shear_modulus_voigt_reuss_hill", "mass", "primary_velocities", "secondary_velocities"],
        volumeBaseShape.always n = true ∧ pressureBaseShape.always n = true ∧ (volumeBaseDeps.map (·.1)).contains n = true) ∧
    (∀ e ∈ selfReads, e.1 = "CijVolumeBaseInterface" → ∀ r ∈ e.2.2,
        volumeBaseShape.always r = true ∨ (matchName regexParts getattrMatchFn r.toList).isSome = true) ∧
    (∀ e ∈ selfReads, e.1 = "CijPressureBaseInterface" → ∀ r ∈ e.2.2, pressureBaseShape.always r = true) := by
  decide +kernel

/-- **(3) `getattr(volume_base, name)` for EVERY name**: the defined attribute when the class binds the name, `__init__` assigns it or the
interpreter provides it — and then `__getattr__` would have raised AttributeError anyway (the name is outside the language); the attribute or
AttributeError for a name that only a later method / a LazyProperty cache would set; otherwise the translated dispatch of
`__getattr__` (`calc_glue_is_source_lookup_dispatch`) -/
theorem calc_glue_getattr_volume_base (builtin : String → Bool) (hb : ∀ n, builtin n = true → dunderLike n = true)
    (hasKey : String → Modulus → Bool) (name : String) :
    getattrVolumeBase volumeBaseShape builtin regexParts getattrMatchFn getattrBranches hasKey name =
      (if volumeBaseShape.always name || builtin name then .attribute name
       else if volumeBaseShape.sometimes name then .stateDependent name .attributeError
       else .fallback (resolve regexParts getattrMatchFn getattrBranches hasKey name)) ∧
    (volumeBaseShape.defined name = true ∨ builtin name = true →
      matchName regexParts getattrMatchFn name.toList = none ∧
      resolve regexParts getattrMatchFn getattrBranches hasKey name = .attributeError) := by
  have hrej : volumeBaseShape.defined name = true ∨ builtin name = true →
      matchName regexParts getattrMatchFn name.toList = none := by
    intro hd
    cases hm : matchName regexParts getattrMatchFn name.toList with
    | none => rfl
    | some q =>
      obtain ⟨_, h1, _, h2⟩ := calc_glue_accepted_names_reach_getattr name q hm
      rcases hd with hd | hd
      · rw [h1] at hd; cases hd
      · rw [hb name hd] at h2; cases h2
  have hres : matchName regexParts getattrMatchFn name.toList = none →
      resolve regexParts getattrMatchFn getattrBranches hasKey name = .attributeError := by
    intro hm; unfold resolve; rw [hm]
  refine ⟨?_, fun hd => ⟨hrej hd, hres (hrej hd)⟩⟩
  unfold getattrVolumeBase getattrOf
  by_cases h1 : (volumeBaseShape.always name || builtin name) = true
  · rw [if_pos h1, if_pos h1]
  · rw [if_neg h1, if_neg h1]
    by_cases h2 : volumeBaseShape.sometimes name = true
    · rw [if_pos h2, if_pos h2, hres (hrej (Or.inl (by simp [AttrShape.defined, h2])))]
    · rw [if_neg h2, if_neg h2]

/-- … in particular an accepted name: `getattr(volume_base, name)` IS `__getattr__(name)`, no precondition -/
theorem calc_glue_getattr_accepted (builtin : String → Bool) (hb : ∀ n, builtin n = true → dunderLike n = true)
    (hasKey : String → Modulus → Bool) (name : String) (q : Parsed)
    (h : matchName regexParts getattrMatchFn name.toList = some q) :
    getattrVolumeBase volumeBaseShape builtin regexParts getattrMatchFn getattrBranches hasKey name =
      .fallback (resolve regexParts getattrMatchFn getattrBranches hasKey name) := by
  obtain ⟨_, h1, _, h2⟩ := calc_glue_accepted_names_reach_getattr name q h
  exact getattrOf_undefined _ _ _ _ h1 (by
    cases hbn : builtin name with
    | false => rfl
    | true => rw [hb name hbn] at h2; cases h2)

/-- `calc_glue_is_source_averages_read` about `getattr`: the reads `self.cIJ` / `self.sIJ` of the averaging properties are
`getattr(self, "cIJ")`, which is the dispatch — adiabatic stiffness, reported compliances — for all 36 index pairs and all dictionaries -/
theorem calc_glue_getattr_averages_read {β : Type} (builtin : String → Bool) (hb : ∀ n, builtin n = true → dunderLike n = true)
    (s : Stores β) (hkeys : s.keys = s.adiabatic.map (·.1)) (p : Int × Int) (hp : p ∈ allPairs) :
    getattrVolumeBaseValue volumeBaseShape builtin regexParts getattrMatchFn getattrBranches s ("c" ++ toString p.1 ++ toString p.2)
        = .fallback ((attrKey p.1 p.2).bind (find s.adiabatic)) ∧
    getattrVolumeBaseValue volumeBaseShape builtin regexParts getattrMatchFn getattrBranches s ("s" ++ toString p.1 ++ toString p.2)
        = .fallback ((attrKey p.1 p.2).bind (find s.compliances)) := by
  obtain ⟨h1, h2, _⟩ := names_IJ p hp
  obtain ⟨r1, r2⟩ := calc_glue_is_source_averages_read s hkeys p hp
  have nb : ∀ (name : String) (q : Parsed), matchName regexParts getattrMatchFn name.toList = some q → builtin name = false := by
    intro name q h
    cases hbn : builtin name with
    | false => rfl
    | true => have := accepted_not_dunder name q h; rw [hb name hbn] at this; cases this
  unfold getattrVolumeBaseValue
  rw [getattrOf_undefined _ _ _ _ (accepted_not_defined _ volumeBase_names_rejected _ _ h1) (nb _ _ h1),
    getattrOf_undefined _ _ _ _ (accepted_not_defined _ volumeBase_names_rejected _ _ h2) (nb _ _ h2), r1, r2]
  exact ⟨rfl, rfl⟩

/-- `calc_glue_compliance_names` about `getattr`: for every accepted name with prefix `s`, `getattr(volume_base, name)` raises
AttributeError for suffix `t` and returns the entry of `_compliances` under the canonical key otherwise -/
theorem calc_glue_getattr_compliance_names {β : Type} (builtin : String → Bool) (hb : ∀ n, builtin n = true → dunderLike n = true)
    (s : Stores β) (hasKey : String → Modulus → Bool) (name : String) (q : Parsed)
    (h : matchName regexParts getattrMatchFn name.toList = some q) (hs : q.pre = 's') :
    (q.suf = some 't' →
      getattrVolumeBase volumeBaseShape builtin regexParts getattrMatchFn getattrBranches hasKey name = .fallback .attributeError ∧
      getattrVolumeBaseValue volumeBaseShape builtin regexParts getattrMatchFn getattrBranches s name = .fallback none) ∧
    (q.suf ≠ some 't' →
      getattrVolumeBaseValue volumeBaseShape builtin regexParts getattrMatchFn getattrBranches s name
        = .fallback (find s.compliances (keyOfVoigt (canon (pairOfDigits q.digits))))) := by
  obtain ⟨_, h1, _, h2⟩ := calc_glue_accepted_names_reach_getattr name q h
  have hbn : builtin name = false := by
    cases hbn : builtin name with
    | false => rfl
    | true => rw [hb name hbn] at h2; cases h2
  obtain ⟨c1, c2⟩ := calc_glue_compliance_names s hasKey name q h hs
  unfold getattrVolumeBase getattrVolumeBaseValue
  rw [getattrOf_undefined _ _ _ _ h1 hbn, getattrOf_undefined _ _ _ _ h1 hbn]
  exact ⟨fun ht => ⟨by rw [(c1 ht).1], by rw [(c1 ht).2]⟩, fun ht => by rw [c2 ht]⟩

/-- **`getattr(pressure_base, name)`**: `CijPressureBaseInterface.__getattr__` forwards EVERY name that reaches it to
`getattr(self.calculator.volume_base, name)` and converts with `self.v2p` (`pressureGetattr`, extracted).  Which names reach it: an accepted
name always does, and then reaches `CijVolumeBaseInterface.__getattr__` too — the result is `v2p` of the dispatch; a name bound on the
volume interface but NOT on the pressure interface (now: `v_array`, `pressures`, see the example below) is `v2p` of that attribute of the volume
interface — `pressure_base.v_array` is `v2p(volume_base.v_array)`, a 1-D array handed to the (T, V)→(T, P) conversion; every name the
pressure interface binds itself (all nine explicit quantities among them, `calc_glue_explicit_quantities_defined`) never reaches the forwarder;
a name neither interface defines and outside the language raises the AttributeError of the volume interface -/
theorem calc_glue_getattr_pressure_base (builtin : String → Bool) (hb : ∀ n, builtin n = true → dunderLike n = true)
    (hasKey : String → Modulus → Bool) :
    pressureGetattr = ("volume_base", "v2p") ∧
    (∀ (name : String) (q : Parsed), matchName regexParts getattrMatchFn name.toList = some q →
      getattrPressureBase pressureBaseShape volumeBaseShape builtin regexParts getattrMatchFn getattrBranches hasKey name =
        .fallback (.fallback (resolve regexParts getattrMatchFn getattrBranches hasKey name))) ∧
    (∀ name : String, pressureBaseShape.always name = true ∨ builtin name = true →
      getattrPressureBase pressureBaseShape volumeBaseShape builtin regexParts getattrMatchFn getattrBranches hasKey name =
        .attribute name) ∧
    (∀ name : String, pressureBaseShape.defined name = false → builtin name = false → volumeBaseShape.always name = true →
      getattrPressureBase pressureBaseShape volumeBaseShape builtin regexParts getattrMatchFn getattrBranches hasKey name =
        .fallback (.attribute name)) ∧
    (∀ name : String, pressureBaseShape.defined name = false → builtin name = false → volumeBaseShape.defined name = false →
      matchName regexParts getattrMatchFn name.toList = none →
      getattrPressureBase pressureBaseShape volumeBaseShape builtin regexParts getattrMatchFn getattrBranches hasKey name =
        .fallback (.fallback .attributeError)) := by
  refine ⟨by decide, fun name q h => ?_, fun name hd => ?_, fun name h1 hbn h2 => ?_, fun name h1 hbn h2 hm => ?_⟩
  · obtain ⟨_, _, h1, h2⟩ := calc_glue_accepted_names_reach_getattr name q h
    have hbn : builtin name = false := by
      cases hbn : builtin name with
      | false => rfl
      | true => rw [hb name hbn] at h2; cases h2
    unfold getattrPressureBase
    rw [getattrOf_undefined _ _ _ _ h1 hbn, calc_glue_getattr_accepted builtin hb hasKey name q h]
  · unfold getattrPressureBase getattrOf
    rw [if_pos (by rcases hd with hd | hd <;> simp [hd])]
  · unfold getattrPressureBase
    rw [getattrOf_undefined _ _ _ _ h1 hbn]
    unfold getattrVolumeBase
    rw [getattrOf_always _ _ _ _ h2]
  · unfold getattrPressureBase
    rw [getattrOf_undefined _ _ _ _ h1 hbn]
    unfold getattrVolumeBase
    rw [getattrOf_undefined _ _ _ _ h2 hbn]
    unfold resolve
    rw [hm]

/-! #### `__init__`, wiring -/

/-- `Calculator.__init__`: the order of the calls; every attribute exists before it is read (through sibling properties and the
`__getattr__` delegation to `qha_calculator` as well); the cached `modulus_keys` is not read before the symmetry filling has added its
keys; which class each interface is; `write_output` hands `output[<name>]` to the interface of the same name -/
theorem calc_glue_is_source_init :
    callOrder initSteps = ["_load", "_apply_elastic_constants_symmetry", "_interpolate_modes", "_calculate_pressure_static",
      "_process_cij", "_calculate_compliances"] ∧
    initOk calcMethods calcDelegate initSteps [] = true ∧
    notReadBefore calcMethods "modulus_keys" "_apply_elastic_constants_symmetry" initSteps = true ∧
    initInterfaces = [("volume_based_result", "CijVolumeBaseInterface"), ("pressure_based_result", "CijPressureBaseInterface")] ∧
    interfaceProps = [("volume_base", "property", "volume_based_result"), ("pressure_base", "property", "pressure_based_result")] ∧
    (∀ e ∈ writeOutputDispatch, e.1 = e.2.1 ∧ e.2.2 = "write_variables") ∧ writeOutputPath = ["output"] := by
  decide

/-- the smaller pieces: `_process_cij` (adiabatic ↦ adiabatic, isothermal ↦ isothermal of `FullThermalElasticModulus`), static pressure
(order 3, both strains referred to `volumes[0]`, `−gradient/gradient` on `v_array`), `_interpolate_modes` (configuration paths;
`mode_gamma = [r₂, r₁, r₁²]` of the returned triple), symmetry filling skipped exactly for an absent system and `triclinic`,
`modulus_keys` a LazyProperty over `volumes[0]`, `dims` -/
theorem calc_glue_is_source_wiring :
    processCijHolder.2 = "FullThermalElasticModulus" ∧
    processCijWiring = [("modulus_adiabatic", "modulus_adiabatic"), ("modulus_isothermal", "modulus_isothermal")] ∧
    pressureStatic.defaultOrder = 3 ∧ pressureStatic.refNodes = 0 ∧ pressureStatic.refGrid = 0 ∧ pressureStatic.sign = -1 ∧
    pressureStatic.gridAttr = "v_array" ∧ pressureStatic.denomAttr = "v_array" ∧ pressureStatic.target = "static_p_array" ∧
    interpolateModes.methodPath = ["elast", "settings", "mode_gamma", "interpolator"] ∧
    interpolateModes.orderPath = ["elast", "settings", "mode_gamma", "order"] ∧
    interpolateModes.freqIdx = 0 ∧ interpolateModes.gamma = [(2, 1), (1, 1), (1, 2)] ∧
    (∀ system : Option String, symmetrySpec.fills system = (system ≠ none ∧ system ≠ some "triclinic")) ∧
    symmetrySpec.path = ["elast", "settings", "symmetry"] ∧ symmetrySpec.systemKey = "system" ∧
    modulusKeysSpec = ("LazyProperty", 0) ∧ dimsSpec = ("property", "t_array", "v_array") := by
  refine ⟨by decide, by decide, by decide, by decide, by decide, by decide, by decide, by decide, by decide, by decide,
    by decide, by decide, by decide, ?_, by decide, by decide, by decide, by decide⟩
  intro system
  simp only [SymmetrySpec.fills, symmetrySpec]
  rcases system with _ | s
  · simp
  · by_cases h : s = "triclinic" <;> simp [h]

/-! #### no shared state, no in-place writes; hence the order of reads cannot matter -/

open Cij.Memo Cij.LazyGraph in
/-- **read order cannot matter**: with no shared state and no in-place write, every property of `CijVolumeBaseInterface` is a pure function
of the object's inputs and of the properties it reads; on the property graph extracted NOW (whatever mix of `@property` and
`@LazyProperty` the source has; acyclicity certificate by kernel evaluation) the read-through-memo theorems of
`Lemmas/MemoHistory.lean` (`history_total`, `history_sound`) give: for ANY two lists of earlier reads, the values a read of `p` sees are
the same -/
theorem calc_glue_read_order_free {β : Type} [Inhabited β] (f : String → List β → β) (before₁ before₂ : List String)
    (p : String) :
    NoSharedState ∧ NoInplace ∧ ranked volumeBaseDeps = true ∧
    ∃ vs₁ t₁ vs₂ t₂,
      history (defsOf volumeBaseDeps f) (fuelOf volumeBaseDeps)
        (before₁.flatMap (expandOp volumeBaseDeps) ++ expandOp volumeBaseDeps p) [] = some (vs₁, t₁) ∧
      history (defsOf volumeBaseDeps f) (fuelOf volumeBaseDeps)
        (before₂.flatMap (expandOp volumeBaseDeps) ++ expandOp volumeBaseDeps p) [] = some (vs₂, t₂) ∧
      vs₁.drop (before₁.flatMap (expandOp volumeBaseDeps)).length = vs₂.drop (before₂.flatMap (expandOp volumeBaseDeps)).length := by
  have hr : ranked volumeBaseDeps = true := by decide +kernel
  obtain ⟨vs₁, t₁, h₁, e₁⟩ := reads_history_free volumeBaseDeps hr f before₁ p
  obtain ⟨vs₂, t₂, h₂, e₂⟩ := reads_history_free volumeBaseDeps hr f before₂ p
  exact ⟨by decide, by decide, hr, vs₁, t₁, vs₂, t₂, h₁, h₂, by rw [e₁, e₂]⟩

/-! #### non-vacuity for the glue theorems -/

/-- concrete names through the extracted pattern and dispatch (all keys present) -/
example :
    resolve regexParts getattrMatchFn getattrBranches (fun _ _ => true) "c12t" = .served "modulus_isothermal" (keyOfVoigt (1, 2)) ∧
    resolve regexParts getattrMatchFn getattrBranches (fun _ _ => true) "c21" = .served "modulus_adiabatic" (keyOfVoigt (1, 2)) ∧
    resolve regexParts getattrMatchFn getattrBranches (fun _ _ => true) "c_2311s\n" = .served "modulus_adiabatic" (keyOfVoigt (1, 4)) ∧
    resolve regexParts getattrMatchFn getattrBranches (fun _ _ => true) "s66s" = .served "_compliances" (keyOfVoigt (6, 6)) ∧
    resolve regexParts getattrMatchFn getattrBranches (fun _ _ => true) "s_1212t\n" = .attributeError ∧
    resolve regexParts getattrMatchFn getattrBranches (fun _ _ => false) "c11" = .attributeError := by decide

/-- … and names outside the language -/
example : ∀ n ∈ ["c17", "c123", "C11", "c11x", "c11\n\n", "c__11", "xc11", "c1", "", "c4444", "s11st"],
    resolve regexParts getattrMatchFn getattrBranches (fun _ _ => true) n = .attributeError := by decide

/-- the hypotheses of the any-order theorems: the example dictionary listed backwards -/
example : Keys exInp ∧ exInp.modAd.Perm ({ exInp with modAd := exInp.modAd.reverse } : Inputs ℝ).modAd :=
  ⟨orthoDict_keys _ _ _ _ _ _ _ _ _, (List.reverse_perm _).symm⟩

/-- the memo corollary is not about an empty graph only: on a table shaped like the one a caching refactor would produce (averages as
LazyProperty, Hill reading Reuss and Voigt) two orders of reads see the same values -/
example : (Cij.Memo.history (Cij.LazyGraph.defsOf (β := Int)
      [("bulk_modulus_reuss", true, []), ("bulk_modulus_voigt", true, []),
       ("bulk_modulus_voigt_reuss_hill", true, ["bulk_modulus_reuss", "bulk_modulus_voigt"])]
      (fun n vs => match n with | "bulk_modulus_reuss" => 3 | "bulk_modulus_voigt" => 5 | _ => vs.sum)) 4
      ["bulk_modulus_voigt_reuss_hill", "bulk_modulus_reuss", "bulk_modulus_voigt_reuss_hill"] []).map (·.1) = some [8, 3, 8] := by
  decide +kernel

/-- the `getattr` theorems are not vacuous: a `builtin` with the required spelling (the dunders of `object`), concrete names through `getattr` -/
example : (∀ n, (fun n => dunderLike n) n = true → dunderLike n = true) ∧
    getattrVolumeBase volumeBaseShape dunderLike regexParts getattrMatchFn getattrBranches (fun _ _ => true) "c_2311s\n"
      = .fallback (.served "modulus_adiabatic" (keyOfVoigt (1, 4))) ∧
    getattrVolumeBase volumeBaseShape dunderLike regexParts getattrMatchFn getattrBranches (fun _ _ => true) "bulk_modulus_voigt"
      = .attribute "bulk_modulus_voigt" ∧
    getattrVolumeBase volumeBaseShape dunderLike regexParts getattrMatchFn getattrBranches (fun _ _ => true) "calculator"
      = .attribute "calculator" ∧
    getattrVolumeBase volumeBaseShape dunderLike regexParts getattrMatchFn getattrBranches (fun _ _ => true) "__class__"
      = .attribute "__class__" ∧
    getattrVolumeBase volumeBaseShape dunderLike regexParts getattrMatchFn getattrBranches (fun _ _ => true) "volumes"
      = .fallback .attributeError ∧
    getattrPressureBase pressureBaseShape volumeBaseShape dunderLike regexParts getattrMatchFn getattrBranches (fun _ _ => true) "s12"
      = .fallback (.fallback (.served "_compliances" (keyOfVoigt (1, 2)))) ∧
    getattrPressureBase pressureBaseShape volumeBaseShape dunderLike regexParts getattrMatchFn getattrBranches (fun _ _ => true) "volumes"
      = .attribute "volumes" := by
  refine ⟨fun _ h => h, ?_⟩
  decide +kernel

/-- names the volume interface binds and the pressure interface does not — they reach the forwarder and are handed to `v2p` -/
example : "v_array" ∈ (volumeBaseShape.all.filter fun n => !pressureBaseShape.defined n) ∧
    "pressures" ∈ (volumeBaseShape.all.filter fun n => !pressureBaseShape.defined n) ∧
    getattrPressureBase pressureBaseShape volumeBaseShape dunderLike regexParts getattrMatchFn getattrBranches (fun _ _ => true) "v_array"
      = .fallback (.attribute "v_array") ∧
    getattrPressureBase pressureBaseShape volumeBaseShape dunderLike regexParts getattrMatchFn getattrBranches (fun _ _ => true) "nonsense"
      = .fallback (.fallback .attributeError) := by
  decide +kernel

/-- a shape with a LazyProperty: its cache attribute is state dependent -/
example : getattrOf (ρ := Outcome) ⟨["x"], ["calculator"], ["late"], ["_x"]⟩ (fun _ => false) (fun _ => .attributeError) "_x"
      = .stateDependent "_x" .attributeError ∧
    getattrOf (ρ := Outcome) ⟨["x"], ["calculator"], ["late"], ["_x"]⟩ (fun _ => false) (fun _ => .attributeError) "x" = .attribute "x" := by
  decide

end Cij.C07
