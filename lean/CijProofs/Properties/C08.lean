/-
  C08 — the packaged symmetry relations are exactly the Laue-class invariants; fill returns the invariant tensor.

  * `relationsHold rows c`  — every relation row of a constraints file (as translated from /repo on THIS run,
    `Generated.constraints_<system>`) holds for the 21 components `c : Fin 21 → ℝ` (order `Generated.symbolPairs`);
  * `invariant system c`    — the FULL 3×3×3×3 tensor `tensorOf c` (minor and major symmetries, canonical key of
    C10) is unchanged by `rotate (rot g)` for every generator `g` of the rotation part of the Laue class
    (`laueGens`, standard setting; inversion acts trivially on a rank-4 tensor, `c08_inversion_trivial`).
  Both inclusions of the two 21-dimensional subspaces are proved for ALL real tensors, per system, from
  kernel-checked certificates (Lemmas/LaueSysCerts.lean) computed against the current constraints files.
-/
import CijProofs.Lemmas.FillLaue
import Generated.ReadersSpec
import CijProofs.Lemmas.FillSource
namespace Cij.C08
open Cij Cij.Laue Cij.Fill

/-! #### the nine systems: relations ⇔ invariance under the Laue class -/

theorem c08_triclinic (c : Fin 21 → ℝ) : relationsHold Generated.constraints_triclinic c ↔ invariant "triclinic" c :=
  iff_of_cert cert_triclinic c
theorem c08_monoclinic (c : Fin 21 → ℝ) : relationsHold Generated.constraints_monoclinic c ↔ invariant "monoclinic" c :=
  iff_of_cert cert_monoclinic c
theorem c08_orthorhombic (c : Fin 21 → ℝ) :
    relationsHold Generated.constraints_orthorhombic c ↔ invariant "orthorhombic" c :=
  iff_of_cert cert_orthorhombic c
theorem c08_tetragonal7 (c : Fin 21 → ℝ) : relationsHold Generated.constraints_tetragonal7 c ↔ invariant "tetragonal7" c :=
  iff_of_cert cert_tetragonal7 c
theorem c08_tetragonal6 (c : Fin 21 → ℝ) : relationsHold Generated.constraints_tetragonal6 c ↔ invariant "tetragonal6" c :=
  iff_of_cert cert_tetragonal6 c
theorem c08_trigonal7 (c : Fin 21 → ℝ) : relationsHold Generated.constraints_trigonal7 c ↔ invariant "trigonal7" c :=
  iff_of_cert cert_trigonal7 c
theorem c08_trigonal6 (c : Fin 21 → ℝ) : relationsHold Generated.constraints_trigonal6 c ↔ invariant "trigonal6" c :=
  iff_of_cert cert_trigonal6 c
theorem c08_hexagonal (c : Fin 21 → ℝ) : relationsHold Generated.constraints_hexagonal c ↔ invariant "hexagonal" c :=
  iff_of_cert cert_hexagonal c
theorem c08_cubic (c : Fin 21 → ℝ) : relationsHold Generated.constraints_cubic c ↔ invariant "cubic" c :=
  iff_of_cert cert_cubic c

/-- every packaged constraints file (whatever `cij/data/constraints/` contains on this run) -/
theorem c08_all_systems : ∀ p ∈ Generated.constraintSystems, ∀ c : Fin 21 → ℝ,
    relationsHold p.2 c ↔ invariant p.1 c := by
  intro p hp c
  simp only [Generated.constraintSystems, List.mem_cons, List.not_mem_nil, or_false] at hp
  rcases hp with rfl | rfl | rfl | rfl | rfl | rfl | rfl | rfl | rfl
  · exact c08_cubic c
  · exact c08_hexagonal c
  · exact c08_monoclinic c
  · exact c08_orthorhombic c
  · exact c08_tetragonal6 c
  · exact c08_tetragonal7 c
  · exact c08_triclinic c
  · exact c08_trigonal6 c
  · exact c08_trigonal7 c


/-- the certificate of every packaged system checks (used below to read off well-formedness) -/
theorem c08_all_certs : ∀ p ∈ Generated.constraintSystems, certOK p.1 p.2 = true := by
  intro p hp
  simp only [Generated.constraintSystems, List.mem_cons, List.not_mem_nil, or_false] at hp
  rcases hp with rfl | rfl | rfl | rfl | rfl | rfl | rfl | rfl | rfl
  · exact cert_cubic
  · exact cert_hexagonal
  · exact cert_monoclinic
  · exact cert_orthorhombic
  · exact cert_tetragonal6
  · exact cert_tetragonal7
  · exact cert_triclinic
  · exact cert_trigonal6
  · exact cert_trigonal7

/-! #### the generators are the rotations they are named after -/

/-- written out: two-folds are diag(1,−1,−1) …; 4z: x→y→−x; 3z: [[−½, −√3/2, 0], [√3/2, −½, 0], [0, 0, 1]];
    6z: [[½, −√3/2, 0], [√3/2, ½, 0], [0, 0, 1]]; 3[111]: the cyclic permutation x→y→z→x -/
theorem c08_generators_explicit :
    rot .twoX = matOfRows (1, 0, 0) (0, -1, 0) (0, 0, -1) ∧
    rot .twoY = matOfRows (-1, 0, 0) (0, 1, 0) (0, 0, -1) ∧
    rot .twoZ = matOfRows (-1, 0, 0) (0, -1, 0) (0, 0, 1) ∧
    rot .fourZ = matOfRows (0, -1, 0) (1, 0, 0) (0, 0, 1) ∧
    rot .threeZ = matOfRows (-(1 / 2), -(Real.sqrt 3 / 2), 0) (Real.sqrt 3 / 2, -(1 / 2), 0) (0, 0, 1) ∧
    rot .sixZ = matOfRows (1 / 2, -(Real.sqrt 3 / 2), 0) (Real.sqrt 3 / 2, 1 / 2, 0) (0, 0, 1) ∧
    rot .three111 = matOfRows (0, 0, 1) (1, 0, 0) (0, 1, 0) := rot_explicit

/-- each generator is a proper rotation (orthogonal, determinant 1), not the identity, about the named axis -/
theorem c08_generators_are_rotations (g : Gen) :
    mul3 (rot g) (transpose3 (rot g)) = one3 ∧ det3 (rot g) = 1 ∧ mulVec3 (rot g) (axis g) = axis g ∧ rot g ≠ one3 :=
  ⟨rot_orthogonal g, rot_det g, rot_axis g, rot_ne_one g⟩

/-- … of the named order: (2·)² = 1, (4z)² = 2z, (3z)² = (3z)⁻¹, (3[111])² = (3[111])⁻¹, (6z)² = 3z, (6z)³ = 2z -/
theorem c08_generator_orders :
    mul3 (rot .twoX) (rot .twoX) = one3 ∧ mul3 (rot .twoY) (rot .twoY) = one3 ∧ mul3 (rot .twoZ) (rot .twoZ) = one3 ∧
    mul3 (rot .fourZ) (rot .fourZ) = rot .twoZ ∧
    mul3 (rot .threeZ) (rot .threeZ) = transpose3 (rot .threeZ) ∧
    mul3 (rot .three111) (rot .three111) = transpose3 (rot .three111) ∧
    mul3 (rot .sixZ) (rot .sixZ) = rot .threeZ ∧ mul3 (rot .sixZ) (rot .threeZ) = rot .twoZ := rot_orders

/-- invariance under the generators is invariance under everything they generate … -/
theorem c08_invariant_under_products {A B : Mat3 ℝ} {T : Tensor4 ℝ} (hA : rotate A T = T) (hB : rotate B T = T) :
    rotate (mul3 A B) T = T := invariant_mul hA hB

/-- … and inversion acts trivially on a rank-4 tensor (Laue class = rotation subgroup × inversion) -/
theorem c08_inversion_trivial (T : Tensor4 ℝ) : rotate (fun i j => -one3 i j) T = T := rotate_neg_one T

/-! #### fill returns the invariant tensor -/

/-- Filling a symmetry-consistent table that supplies enough components returns the unique invariant tensor, at
    every volume: if (volume row `k`) a tensor `τ` reproduces every supplied value and satisfies every packaged
    relation (`residualVec … τ = 0`), and the stacked system has no kernel, then the solution the model writes
    back IS `τ` (so the supplied entries are unchanged and the dependent ones carry the right sign and factor),
    and `τ` is invariant under the Laue class of the system. -/
theorem c08_fill_consistent {p : String × List (List Int × Int)} (hp : p ∈ Generated.constraintSystems)
    {rel : Rows} (hrel : packaged p.1 = .ok rel)
    {sel : List Nat} {selCols : List (List ℝ)} (hlen : sel.length = selCols.length) (hidx : ∀ i ∈ sel, i < nsym)
    {bs : List (List ℝ)} {s : Solved ℝ} (hs : solveStage (stackA (α := ℝ) sel rel) bs = some s)
    (hfull : s.rankDeficient = false) (k : Nat) (x τ : List ℝ)
    (hk : (stackB selCols rel k, x) ∈ List.zip bs s.xs) (hτl : τ.length = nsym)
    (hτ : ∀ e ∈ residualVec (stackA (α := ℝ) sel rel) (stackB selCols rel k) τ, e = 0) :
    x = τ ∧ invariant p.1 (fun j => τ.getD j.val 0) := by
  constructor
  · exact solveStage_consistent hs hfull _ hk (by simp [stackA, stackB, hlen]) τ hτl hτ
  · obtain ⟨rel', hrel', hmap, hden⟩ := packaged_rows hp
    rw [hrel] at hrel'; injection hrel' with e; subst e
    rw [← c08_all_systems p hp]
    apply relationsHold_of_rel (wellFormed_of_cert (c08_all_certs p hp)) hmap hden
    intro r hr
    apply hτ
    rw [residualVec_stack sel selCols rel k τ hlen hidx]
    exact List.mem_append_right _ (List.mem_map_of_mem (f := fun r =>
      dot (castRow (α := ℝ) r) τ - (Int.cast r.rhs : ℝ) / (Int.cast (Int.ofNat r.den) : ℝ)) hr)

/-- vanishing components are omitted: the filled table keeps a written-back column iff it is not modulus-like or
    exceeds `drop_atol` at some volume; in particular a component that is 0 at every volume is omitted -/
theorem c08_fill_drop (P : Params ℝ) (t : Table ℝ) (xs : List (List ℝ)) (c : String × List ℝ) :
    c ∈ finish P t xs ↔
      c ∈ writeAll t xs ∧ (matchesCdd c.1.toLower.toList = false ∨ ∃ x ∈ c.2, P.dropAtol < |x|) :=
  mem_finish_iff P t xs c

theorem c08_vanishing_component_omitted (P : Params ℝ) (hP : 0 ≤ P.dropAtol) (t : Table ℝ) (xs : List (List ℝ))
    (c : String × List ℝ) (hm : matchesCdd c.1.toLower.toList = true) (hz : ∀ x ∈ c.2, x = 0) :
    c ∉ finish P t xs := by
  intro h
  rcases ((c08_fill_drop P t xs c).mp h).2 with h1 | ⟨x, hx, hlt⟩
  · rw [hm] at h1; exact absurd h1 (by simp)
  · rw [hz x hx, abs_zero] at hlt; exact absurd hlt (not_lt.mpr hP)

/-! #### non-vacuity -/

/-- a trigonal (−3) tensor with c14 = −c24 = c56 = 7, c15 = −c25 = −c46 = 3, c66 = (c11 − c12)/2 -/
def exTrig7 : Fin 21 → ℝ := ![300, 100, 90, 7, 3, 0, 300, 90, -7, -3, 0, 250, 0, 0, 0, 60, 0, -3, 60, 7, 100]
/-- the same with the sign slip c24 = +c14 -/
def exTrig7bad : Fin 21 → ℝ := ![300, 100, 90, 7, 3, 0, 300, 90, 7, -3, 0, 250, 0, 0, 0, 60, 0, -3, 60, 7, 100]

example : relationsHold Generated.constraints_trigonal7 exTrig7 ∧ invariant "trigonal7" exTrig7 := by
  have h : relationsHold Generated.constraints_trigonal7 exTrig7 := by
    intro r hr
    simp only [Generated.constraints_trigonal7, List.mem_cons, List.not_mem_nil, or_false] at hr
    rcases hr with rfl | rfl | rfl | rfl | rfl | rfl | rfl | rfl | rfl | rfl | rfl | rfl | rfl | rfl <;>
      simp [exTrig7, Fin.sum_univ_succ] <;> norm_num
  exact ⟨h, (c08_trigonal7 _).mp h⟩

example : ¬ invariant "trigonal7" exTrig7bad := by
  rw [← c08_trigonal7]
  intro h
  have := h ([0, 0, 0, 1, 0, 0, 0, 0, 1, 0, 0, 0, 0, 0, 0, 0, 0, 0, 0, 0, 0], 0) (by simp [Generated.constraints_trigonal7])
  simp [exTrig7bad, Fin.sum_univ_succ] at this

/-! #### ties shared with other properties

The statement of this property also rests on code whose translation is owned by another property's file; the theorems are restated
here so that this property's obligations are re-checked against those files too (a change there breaks THIS check's proof as well). -/

/-- `cij/io/traditional/elast_dat.py` (+ package glue) as translated on this run: `read_elast_data` and
`apply_symetry_on_elast_data` are the statements the reader model mirrors (rows in file order, lattice block in file order, one frame row
per volume BY NAME `"c%s%s" % key.v`, `fill_cij(df, **symmetry)` with the caller's dictionary untouched, rows written back as fresh
mappings from `c_(key[1:])`), and the package re-exports the readers themselves (no caching wrapper) -/
theorem c08_readers_are_source :
    Generated.Readers.elastDatCanonical = true ∧ Generated.Readers.columnLiterals = ["c", ""] ∧ Generated.Readers.backSlice = 1 ∧
    Generated.Readers.fillPositional = 1 ∧ Generated.Readers.fillKeywords = ["**<symmetry>"] ∧
    Generated.Readers.rowVolumeIndex = 0 ∧ Generated.Readers.rowKeySlice = 1 ∧ Generated.Readers.rowValueSlice = 1 ∧
    ("read_energy", "qha_input", "read_energy") ∈ Generated.Readers.packageImports ∧
    ("read_elast_data", "elast_dat", "read_elast_data") ∈ Generated.Readers.packageImports := by decide

/-- `cij/util/fill.py` as translated on this run: symbol order, verdict (both refusal tests, for all parameters, residuals and ranks)
and the stacking of supplied rows before relation rows are the ones the fill model implements -/
theorem c08_fill_is_source {α : Type} [Field α] [LinearOrder α] [IsStrictOrderedRing α]
    (P : Cij.Fill.Params α) (s : Cij.Fill.Solved α) (rank : Nat) (hrank : rank < Cij.Fill.nsym ↔ s.rankDeficient = true) :
    Cij.Fill.symbolNames = Generated.fillSymbols ∧
    Cij.FillSource.evalRefusals (Cij.FillSource.refusalEnv P s rank) Generated.fillRefusals = some (Cij.Fill.verdict P s) ∧
    Generated.fillStackA = [.supplied, .relations] ∧ Generated.fillStackB = [.supplied, .relations] :=
  ⟨Cij.FillSource.symbols_are_source, Cij.FillSource.verdict_is_source P s rank hrank, by decide, by decide⟩

end Cij.C08
