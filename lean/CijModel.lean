import CijModel.Json
import CijModel.Voigt
import CijModel.QExpr
import CijModel.Wire
import CijModel.Ops.C10
import CijModel.Ops.C12
import CijModel.NonShear
import CijModel.Ops.C01
