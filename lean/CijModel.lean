import CijModel.Json
import CijModel.Voigt
