"""Translator plug-in: the SOURCE of `cij/cli/extract.py`, `cij/cli/geotherm.py` and the command registrations of
`cij/cli/cij.py` -> lean/Generated/ExtractSpec.lean  (types and their semantics: lean/CijModel/ExtractSrc.lean; consumed
by CijProofs/Lemmas/ExtractSource.lean and the `extract_model_is_source_*` theorems of Properties/C19.lean).

Extracted as DATA / EXPRESSION TREES:
  * both `load_data`: the f-string handed to `glob` part by part, the index taken from the list of matches, every keyword
    argument of `pandas.read_table`, the label conversions `df.<a> = [<f>(w) for w in df.<b>]`;
  * `extract.main`: the separator of `variables.split`, the `if <p> != None: y = <p> [; df = df.T] elif …` chain arm by arm
    (which parameter is tested, which becomes `y`, whether the frame is transposed, whether there is a final else),
    `x_array = df.<attr>`, `y_index = …` as a tree (grammar: df.index / df.columns [.to_numpy() | .values], y, + - unary -,
    numpy.abs / numpy.absolute / abs, numpy.argmin(a) / a.argmin()), `data[var] = df.<iloc>[y_index]`, the keyword arguments
    of `pandas.DataFrame(...)`, of `to_string(...)`;
  * `geotherm.fit_data`: the positional arguments of `RectBivariateSpline` resolved through the local assignments to
    index / columns / values, its keyword arguments;
  * `geotherm.main`: separator, keyword arguments of the geotherm file's `read_table`, the wiring
    `fit_data(df)(table[<param>], table[<param>], <kw>)`, `to_string(...)`;
  * every `@click.option` of both commands: declarations -> parameter (click's naming rule) -> default / flag / required / type;
    the names given to `@click.command`;
  * EVERY function and lambda of the two modules: each parameter default as (AST kind, source text);
  * EVERY module-level statement of the two modules as a kind (Import / ImportFrom / FunctionDef / MainGuard / anything else
    by its AST class name), the decorator callees per function;
  * `cij.py`: `from <module> import main as <alias>` + `main.add_command(<alias>, "<name>")` as (module, command name).
Everything else in the five functions is compared with the canonical text below (patterns with holes) modulo: comments,
blank lines, quoting, line breaks, docstrings, type annotations, the names of local variables and of the helpers' parameters
(matched up to a consistent renaming), the position / order / aliases of `import` statements inside a function and unused
imports (every imported name is rewritten to its dotted origin first).  Any other change raises TieBroken naming the
function and the statement.  A pin says "the model was written against exactly this statement", nothing more.
Trusted, typed in here: click's rule for deriving a parameter name from option declarations.
"""
import ast, os, warnings

import gen_tables as T


class Broken(T.TieBroken):
    pass


# ---------------------------------------------------------------------------------------------- parsing / normalising
def parse(path):
    with warnings.catch_warnings():
        warnings.simplefilter("ignore")            # cli/extract.py has "\s+" in a plain string (SyntaxWarning)
        return ast.parse(open(path).read())


def strip_fn(fn):
    """docstring, annotations, decorators (handled separately) out"""
    if fn.body and isinstance(fn.body[0], ast.Expr) and isinstance(fn.body[0].value, ast.Constant) \
            and isinstance(fn.body[0].value.value, str):
        fn.body = fn.body[1:]
    fn.returns = None
    fn.decorator_list = []
    a = fn.args
    for x in a.posonlyargs + a.args + a.kwonlyargs + [y for y in (a.vararg, a.kwarg) if y]:
        x.annotation = None
    for n in ast.walk(fn):
        if isinstance(n, ast.AnnAssign):
            raise Broken(f"{fn.name}: annotated assignment outside grammar: {ast.unparse(n)[:80]}")


def import_table(stmts, where):
    """bound name -> dotted origin, for the Import / ImportFrom statements among `stmts`"""
    tab = {}
    for st in stmts:
        if isinstance(st, ast.Import):
            for al in st.names:
                if al.asname: tab[al.asname] = al.name
                else: tab[al.name.split(".")[0]] = al.name.split(".")[0]
        elif isinstance(st, ast.ImportFrom):
            if st.level or not st.module: raise Broken(f"{where}: relative import outside grammar")
            for al in st.names:
                if al.name == "*": raise Broken(f"{where}: star import outside grammar")
                tab[al.asname or al.name] = st.module + "." + al.name
    return tab


def dotted(path):
    parts = path.split(".")
    node = ast.Name(id=parts[0], ctx=ast.Load())
    for p in parts[1:]:
        node = ast.Attribute(value=node, attr=p, ctx=ast.Load())
    return node


class Qualify(ast.NodeTransformer):
    """every name bound by an import -> its dotted origin (never a name that the function also assigns)"""
    def __init__(self, table, stored): self.table, self.stored = table, stored
    def visit_Name(self, node):
        if isinstance(node.ctx, ast.Load) and node.id in self.table and node.id not in self.stored:
            return ast.copy_location(dotted(self.table[node.id]), node)
        return node


def stored_names(fn):
    out = []
    for n in ast.walk(fn):
        if isinstance(n, ast.Name) and isinstance(n.ctx, (ast.Store, ast.Del)) and n.id not in out:
            out.append(n.id)
    return out


def normalise(fn, module_imports):
    """strip; function-level imports (top level of the body only) removed and resolved"""
    strip_fn(fn)
    local_imports = [st for st in fn.body if isinstance(st, (ast.Import, ast.ImportFrom))]
    fn.body = [st for st in fn.body if not isinstance(st, (ast.Import, ast.ImportFrom))]
    for n in ast.walk(fn):
        if isinstance(n, (ast.Import, ast.ImportFrom)):
            raise Broken(f"{fn.name}: import nested inside a statement is outside the grammar")
        if isinstance(n, (ast.Global, ast.Nonlocal)):
            raise Broken(f"{fn.name}: global / nonlocal statement (state outside the call)")
    table = dict(module_imports); table.update(import_table(local_imports, fn.name))
    stored = set(stored_names(fn)) | {a.arg for a in fn.args.posonlyargs + fn.args.args + fn.args.kwonlyargs}
    Qualify(table, stored).visit(fn)
    ast.fix_missing_locations(fn)
    return fn


# ---------------------------------------------------------------------------------------------- patterns with holes
class Matcher:
    """structural comparison of a function with a canonical pattern up to a consistent renaming of local variables.
    Holes in the pattern: a Name `H_x` captures an expression, a statement `S_x` captures a statement, `**KW_x` in a call
    captures all keyword arguments of the call."""

    def __init__(self, fname, pattern_src, fn, free_params):
        self.fname = fname
        self.pat = ast.parse(pattern_src).body[0]
        self.fn = fn
        self.cap = {}
        self.fwd, self.bwd = {}, {}
        pparams = [a.arg for a in self.pat.args.args]
        nparams = [a.arg for a in fn.args.args]
        self.plocals = set(stored_names(self.pat)) | (set(pparams) if free_params else set())
        self.nlocals = set(stored_names(fn)) | (set(nparams) if free_params else set())
        self.stmt = None

    def fail(self, why):
        at = ast.unparse(self.stmt).splitlines()[0][:100] if self.stmt is not None else "signature"
        raise Broken(f"{self.fname}: changed at `{at}` ({why})")

    def run(self):
        p, n = self.pat, self.fn
        for fld in ("posonlyargs", "kwonlyargs", "kw_defaults"):
            if getattr(p.args, fld) or getattr(n.args, fld): self.fail("signature kind")
        if (p.args.vararg is None) != (n.args.vararg is None) or (p.args.kwarg is None) != (n.args.kwarg is None) or p.args.vararg or p.args.kwarg:
            self.fail("signature kind")
        if len(p.args.args) != len(n.args.args) or len(p.args.defaults) != len(n.args.defaults): self.fail("parameters")
        for a, b in zip(p.args.args, n.args.args): self.name(a.arg, b.arg)
        for a, b in zip(p.args.defaults, n.args.defaults): self.node(a, b)
        self.body(p.body, n.body)
        return self.cap

    def name(self, pid, nid):
        if pid in self.plocals:
            if nid not in self.nlocals: self.fail(f"`{nid}` where a local variable is expected")
            if self.fwd.get(pid, nid) != nid or self.bwd.get(nid, pid) != pid: self.fail(f"variable `{nid}`")
            self.fwd[pid] = nid; self.bwd[nid] = pid
        elif pid != nid:
            self.fail(f"`{nid}` instead of `{pid}`")

    def body(self, ps, ns):
        if len(ps) != len(ns):
            self.stmt = ns[min(len(ps), len(ns) - 1)] if ns else None
            self.fail("number of statements")
        for a, b in zip(ps, ns): self.node(a, b)

    def node(self, p, n):
        if isinstance(n, ast.stmt): self.stmt = n
        if isinstance(p, ast.Name) and p.id.startswith("H_"):
            self.cap[p.id] = n; return
        if isinstance(p, ast.Expr) and isinstance(p.value, ast.Name) and p.value.id.startswith("S_"):
            self.cap[p.value.id] = n; return
        if type(p) is not type(n): self.fail(f"{type(n).__name__} instead of {type(p).__name__}")
        if isinstance(p, ast.Name):
            self.name(p.id, n.id); return
        if isinstance(p, ast.Call):
            kwh = [k for k in p.keywords if k.arg is None and isinstance(k.value, ast.Name) and k.value.id.startswith("KW_")]
            if kwh:
                if any(k.arg is None for k in n.keywords): self.fail("** in a call")
                self.cap[kwh[0].value.id] = [(k.arg, k.value) for k in n.keywords]
                self.node(p.func, n.func)
                if len(p.args) != len(n.args): self.fail("number of arguments")
                for a, b in zip(p.args, n.args): self.node(a, b)
                return
        for fld in p._fields:
            if fld in ("kind", "type_comment", "ctx"): continue
            a, b = getattr(p, fld, None), getattr(n, fld, None)
            if isinstance(a, list):
                if not isinstance(b, list) or len(a) != len(b): self.fail(f"{type(p).__name__}.{fld}")
                for x, y in zip(a, b):
                    if isinstance(x, ast.AST): self.node(x, y)
                    elif x != y: self.fail(f"{type(p).__name__}.{fld}")
            elif isinstance(a, ast.AST):
                if not isinstance(b, ast.AST): self.fail(f"{type(p).__name__}.{fld}")
                self.node(a, b)
            elif a != b or type(a) is not type(b):
                self.fail(f"{a!r} -> {b!r}")


def src(n):
    return ast.unparse(n)


def const(n, typ, what):
    if not isinstance(n, ast.Constant) or type(n.value) is not typ:
        raise Broken(f"{what}: {typ.__name__} constant expected, found `{src(n)}`")
    return n.value


def kwlist(kws, what):
    out = []
    for k, v in kws:
        if not isinstance(v, (ast.Constant, ast.Name, ast.UnaryOp)) or (isinstance(v, ast.UnaryOp) and not (isinstance(v.op, ast.Not) and isinstance(v.operand, ast.Name))):
            raise Broken(f"{what}: keyword argument outside grammar: {k}={src(v)}")
        out.append((k, src(v)))
    return out


# ---------------------------------------------------------------------------------------------- canonical texts
LOAD_DATA = '''
def load_data(var):
    df = pandas.read_table(glob.glob(H_glob)[H_pick], **KW_read)
    df.columns = [H_conv1(colname) for colname in H_from1]
    df.index = [H_conv2(idx) for idx in H_from2]
    return df
'''

EXTRACT_MAIN = '''
def main(variables, hide_header, temperature=H_d1, pressure=H_d2):
    data = {}
    variables = variables.split(H_sep)
    for var in variables:
        df = load_data(var)
        S_select
        x_array = H_xarray
        y_index = H_yindex
        data[var] = H_row
    table = pandas.DataFrame(**KW_ctor)
    for var in variables:
        table[var] = data[var]
    print(table.to_string(**KW_tostring))
'''

FIT_DATA = '''
def fit_data(df):
    x = H_x
    y = H_y
    z = H_z
    return scipy.interpolate.RectBivariateSpline(H_a0, H_a1, H_a2, **KW_fit)
'''

GEOTHERM_MAIN = '''
def main(variables, hide_header, t_col=H_d1, p_col=H_d2, geotherm=H_d3):
    variables = variables.split(H_sep)
    table = pandas.read_table(geotherm, **KW_read)
    for var in variables:
        df = load_data(var)
        table[var] = fit_data(df)(table[H_c0], table[H_c1], **KW_call)
    print(table.to_string(**KW_tostring))
'''


# ---------------------------------------------------------------------------------------------- sub-grammars
def load_spec(cap, m, where):
    g = cap["H_glob"]
    parts = []
    if isinstance(g, ast.Constant) and isinstance(g.value, str):
        parts.append((False, g.value))
    elif isinstance(g, ast.JoinedStr):
        for v in g.values:
            if isinstance(v, ast.Constant) and isinstance(v.value, str): parts.append((False, v.value))
            elif isinstance(v, ast.FormattedValue) and isinstance(v.value, ast.Name) and v.conversion == -1 and v.format_spec is None:
                nm = m.bwd.get(v.value.id)
                if nm != "var": raise Broken(f"{where}: glob pattern formats `{v.value.id}`, not the variable name")
                parts.append((True, "var"))
            else: raise Broken(f"{where}: glob pattern outside grammar: {src(g)}")
    else:
        raise Broken(f"{where}: glob pattern outside grammar: {src(g)}")
    pick = const(cap["H_pick"], int, f"{where}: index into the glob result")
    if pick < 0: raise Broken(f"{where}: negative index into the glob result")
    conv = []
    for i, attr in ((1, "columns"), (2, "index")):
        f, fr = cap[f"H_conv{i}"], cap[f"H_from{i}"]
        if not isinstance(f, ast.Name): raise Broken(f"{where}: label conversion outside grammar: {src(f)}")
        if not (isinstance(fr, ast.Attribute) and isinstance(fr.value, ast.Name) and m.bwd.get(fr.value.id) == "df"):
            raise Broken(f"{where}: label source outside grammar: {src(fr)}")
        conv.append((attr, f.id, fr.attr))
    return {"parts": parts, "pick": pick, "kw": kwlist(cap["KW_read"], where), "conv": conv}


def lean_load(name, doc, L):
    b = lambda v: "true" if v else "false"
    return (f"/-- {doc} -/\ndef {name} : LoadSpec :=\n"
            "  { globParts := [" + ", ".join(f"({b(v)}, {T.lean_str(t)})" for v, t in L["parts"]) + "]\n"
            f"    globPick := {L['pick']}\n"
            "    readKw := [" + ", ".join(f"({T.lean_str(k)}, {T.lean_str(v)})" for k, v in L["kw"]) + "]\n"
            "    conv := [" + ", ".join(f"({T.lean_str(a)}, {T.lean_str(f)}, {T.lean_str(c)})" for a, f, c in L["conv"]) + "] }\n\n")


def select_chain(st, m, params):
    """if <p> != None: y = <p> [; df = df.T]  elif …  [else …]  ->  (arms, has_else, actual name of y)"""
    arms, yname = [], None
    cur = st
    while True:
        if not isinstance(cur, ast.If): raise Broken(f"extract.main: selection is not an if-chain: {src(cur)[:80]}")
        t = cur.test
        ok = isinstance(t, ast.Compare) and len(t.ops) == 1 and isinstance(t.ops[0], (ast.NotEq, ast.IsNot)) \
            and isinstance(t.left, ast.Name) and t.left.id in params \
            and isinstance(t.comparators[0], ast.Constant) and t.comparators[0].value is None
        if not ok: raise Broken(f"extract.main: selection test outside grammar: {src(t)}")
        yfrom, transpose = None, False
        for b in cur.body:
            if not (isinstance(b, ast.Assign) and len(b.targets) == 1 and isinstance(b.targets[0], ast.Name)):
                raise Broken(f"extract.main: statement in a selection arm outside grammar: {src(b)[:80]}")
            tgt, val = b.targets[0].id, b.value
            if m.bwd.get(tgt) == "df":
                if not (isinstance(val, ast.Attribute) and val.attr == "T" and isinstance(val.value, ast.Name) and m.bwd.get(val.value.id) == "df") or transpose:
                    raise Broken(f"extract.main: frame re-assignment in a selection arm outside grammar: {src(b)}")
                transpose = True
            else:
                if tgt in params or tgt in m.bwd or (yname is not None and tgt != yname) or yfrom is not None:
                    raise Broken(f"extract.main: assignment in a selection arm outside grammar: {src(b)}")
                if not (isinstance(val, ast.Name) and val.id in params):
                    raise Broken(f"extract.main: requested value is not a parameter: {src(b)}")
                yname, yfrom = tgt, val.id
        if yfrom is None: raise Broken(f"extract.main: selection arm `{src(t)}` does not set the requested value")
        arms.append((t.left.id, yfrom, transpose))
        if not cur.orelse: return arms, False, yname
        if len(cur.orelse) == 1 and isinstance(cur.orelse[0], ast.If): cur = cur.orelse[0]; continue
        raise Broken("extract.main: the selection has a final else arm (outside grammar)")


def aexpr(n, m, yname, where):
    def frame_attr(x):
        """df.index / df.columns, optionally .to_numpy() / .values"""
        if isinstance(x, ast.Call) and not x.args and not x.keywords and isinstance(x.func, ast.Attribute) and x.func.attr == "to_numpy":
            x = x.func.value
        elif isinstance(x, ast.Attribute) and x.attr == "values":
            x = x.value
        if isinstance(x, ast.Attribute) and x.attr in ("index", "columns") and isinstance(x.value, ast.Name) and m.bwd.get(x.value.id) == "df":
            return x.attr
        return None
    fa = frame_attr(n)
    if fa: return f"AExpr.{fa}"
    if isinstance(n, ast.Name) and n.id == yname: return "AExpr.y"
    if isinstance(n, ast.BinOp) and isinstance(n.op, (ast.Sub, ast.Add)):
        return f"(AExpr.{'sub' if isinstance(n.op, ast.Sub) else 'add'} {aexpr(n.left, m, yname, where)} {aexpr(n.right, m, yname, where)})"
    if isinstance(n, ast.UnaryOp) and isinstance(n.op, ast.USub): return f"(AExpr.neg {aexpr(n.operand, m, yname, where)})"
    if isinstance(n, ast.UnaryOp) and isinstance(n.op, ast.UAdd): return aexpr(n.operand, m, yname, where)
    if isinstance(n, ast.Call) and len(n.args) == 1 and not n.keywords and src(n.func) in ("numpy.abs", "numpy.absolute", "numpy.fabs", "abs"):
        return f"(AExpr.abs {aexpr(n.args[0], m, yname, where)})"
    raise Broken(f"{where}: array expression outside grammar: {src(n)}")


def iexpr(n, m, yname, where):
    if isinstance(n, ast.Call) and not n.keywords:
        if src(n.func) == "numpy.argmin" and len(n.args) == 1: return f"(IExpr.argmin {aexpr(n.args[0], m, yname, where)})"
        if isinstance(n.func, ast.Attribute) and n.func.attr == "argmin" and not n.args:
            return f"(IExpr.argmin {aexpr(n.func.value, m, yname, where)})"
    raise Broken(f"{where}: index expression outside grammar: {src(n)}")


def click_options(decos, fname):
    """[(callee, call)] -> command name, options"""
    cmd, opts, callees = None, [], []
    for d in decos:
        if not isinstance(d, ast.Call) or src(d.func) not in ("click.command", "click.option"):
            raise Broken(f"{fname}: decorator outside grammar (evaluated at import): {src(d)[:80]}")
        callees.append(src(d.func))
        for a in d.args: const(a, str, f"{fname}: decorator argument")
        kw = {}
        for k in d.keywords:
            if k.arg is None: raise Broken(f"{fname}: ** in a decorator")
            v = k.value
            if isinstance(v, ast.Constant) or src(v) in ("click.FLOAT", "click.INT", "click.STRING", "click.Path(exists=True)"):
                kw[k.arg] = v
            else: raise Broken(f"{fname}: decorator keyword outside grammar (evaluated at import): {k.arg}={src(v)[:60]}")
        if src(d.func) == "click.command":
            if cmd is not None or len(d.args) != 1: raise Broken(f"{fname}: click.command outside grammar")
            cmd = d.args[0].value
            if set(kw) - {"help"}: raise Broken(f"{fname}: click.command keywords outside grammar: {sorted(kw)}")
        else:
            decls = [a.value for a in d.args]
            if set(kw) - {"help", "default", "show_default", "is_flag", "required", "type"}:
                raise Broken(f"{fname}: click.option keywords outside grammar: {sorted(kw)}")
            # click's naming rule (typed in): a declaration that is a plain identifier is the name; otherwise the first
            # longest `--` declaration, dashes -> underscores, lower-cased; with only short ones: the first, stripped.
            explicit = [x for x in decls if x.isidentifier()]
            longs = [x for x in decls if x.startswith("--")]
            if len(explicit) > 1: raise Broken(f"{fname}: option with two explicit names: {decls}")
            if explicit: param = explicit[0]
            elif longs: param = sorted(longs, key=lambda x: -len(x))[0][2:].replace("-", "_").lower()
            elif decls: param = decls[0].lstrip("-").replace("-", "_").lower()
            else: raise Broken(f"{fname}: option without declarations")
            if any("/" in x for x in decls): raise Broken(f"{fname}: on/off switch declarations outside grammar: {decls}")
            default = None if "default" not in kw else str(kw["default"].value)
            is_flag = bool("is_flag" in kw and const(kw["is_flag"], bool, f"{fname}: is_flag"))
            required = bool("required" in kw and const(kw["required"], bool, f"{fname}: required"))
            typ = src(kw["type"]) if "type" in kw else ""
            opts.append((decls, param, default, is_flag, required, typ))
    if cmd is None: raise Broken(f"{fname}: no click.command decorator")
    # decorators apply bottom-up, parameters are registered in reverse: irrelevant for keyword passing; keep source order
    return cmd, opts, callees


def lean_opts(name, doc, opts):
    b = lambda v: "true" if v else "false"
    rows = []
    for decls, param, default, is_flag, required, typ in opts:
        rows.append("{ decls := [" + ", ".join(T.lean_str(x) for x in decls) + f"], param := {T.lean_str(param)}, default := "
                    + ("none" if default is None else f"some {T.lean_str(default)}")
                    + f", isFlag := {b(is_flag)}, required := {b(required)}, type := {T.lean_str(typ)} }}")
    return f"/-- {doc} -/\ndef {name} : List ClickOpt :=\n  [" + ",\n   ".join(rows) + "]\n\n"


def module_facts(tree, modname):
    kinds = []
    for st in tree.body:
        if isinstance(st, ast.Import): kinds.append("Import")
        elif isinstance(st, ast.ImportFrom): kinds.append("ImportFrom")
        elif isinstance(st, ast.FunctionDef): kinds.append("FunctionDef")
        elif isinstance(st, ast.If) and src(st.test) == "__name__ == '__main__'" and not st.orelse \
                and [src(x) for x in st.body] == ["main()"]:
            kinds.append("MainGuard")
        elif isinstance(st, ast.Expr) and isinstance(st.value, ast.Constant) and isinstance(st.value.value, str):
            continue                                  # a docstring / bare string does nothing
        else:
            kinds.append(type(st).__name__)
    defaults = []
    for n in ast.walk(tree):
        if isinstance(n, (ast.FunctionDef, ast.AsyncFunctionDef, ast.Lambda)):
            fname = getattr(n, "name", "<lambda>")
            a = n.args
            pos = a.posonlyargs + a.args
            for arg, d in zip(pos[len(pos) - len(a.defaults):], a.defaults):
                defaults.append((modname, fname, arg.arg, type(d).__name__, src(d)))
            for arg, d in zip(a.kwonlyargs, a.kw_defaults):
                if d is not None: defaults.append((modname, fname, arg.arg, type(d).__name__, src(d)))
    return kinds, defaults


def functions(tree, path, wanted):
    fns = {}
    for st in tree.body:
        if isinstance(st, ast.FunctionDef):
            if st.name in fns: raise Broken(f"{os.path.basename(path)}: function {st.name} defined twice")
            fns[st.name] = st
    if sorted(fns) != sorted(wanted):
        raise Broken(f"{os.path.basename(path)}: functions {sorted(fns)} (the model mirrors {sorted(wanted)})")
    return fns


# ---------------------------------------------------------------------------------------------- the generator
def gen_extract_spec():
    pe = os.path.join(T.REPO, "cij/cli/extract.py")
    pg = os.path.join(T.REPO, "cij/cli/geotherm.py")
    pc = os.path.join(T.REPO, "cij/cli/cij.py")
    te, tg, tc = parse(pe), parse(pg), parse(pc)

    ekinds, edefaults = module_facts(te, "extract")
    gkinds, gdefaults = module_facts(tg, "geotherm")
    efn = functions(te, pe, ["load_data", "main"])
    gfn = functions(tg, pg, ["load_data", "fit_data", "main"])
    eimp = import_table([s for s in te.body if isinstance(s, (ast.Import, ast.ImportFrom))], "extract.py")
    gimp = import_table([s for s in tg.body if isinstance(s, (ast.Import, ast.ImportFrom))], "geotherm.py")

    decos = {}
    for mod, fns in (("extract", efn), ("geotherm", gfn)):
        for name, fn in fns.items():
            decos[(mod, name)] = list(fn.decorator_list)
            if name != "main" and fn.decorator_list:
                raise Broken(f"{mod}.{name}: decorated helper (evaluated at import / may cache): {src(fn.decorator_list[0])[:60]}")
    ecmd, eopts, ecallees = click_options(decos[("extract", "main")], "extract.main")
    gcmd, gopts, gcallees = click_options(decos[("geotherm", "main")], "geotherm.main")

    # ---- load_data (both)
    loads = {}
    for mod, fns, imp in (("extract", efn, eimp), ("geotherm", gfn, gimp)):
        fn = normalise(fns["load_data"], imp)
        m = Matcher(f"{mod}.load_data", LOAD_DATA, fn, free_params=True)
        loads[mod] = load_spec(m.run(), m, f"{mod}.load_data")

    # ---- extract.main
    fn = normalise(efn["main"], eimp)
    m = Matcher("extract.main", EXTRACT_MAIN, fn, free_params=False)
    cap = m.run()
    params = [a.arg for a in fn.args.args]
    for h in ("H_d1", "H_d2"):
        if not isinstance(cap[h], ast.Constant): raise Broken(f"extract.main: default outside grammar: {src(cap[h])}")
    esep = const(cap["H_sep"], str, "extract.main: separator of variables.split")
    arms, has_else, yname = select_chain(cap["S_select"], m, params)
    xa = cap["H_xarray"]
    if not (isinstance(xa, ast.Attribute) and xa.attr in ("columns", "index") and isinstance(xa.value, ast.Name) and m.bwd.get(xa.value.id) == "df"):
        raise Broken(f"extract.main: x_array outside grammar: {src(xa)}")
    yidx = iexpr(cap["H_yindex"], m, yname, "extract.main: y_index")
    row = cap["H_row"]
    if not (isinstance(row, ast.Subscript) and isinstance(row.value, ast.Attribute) and row.value.attr in ("iloc", "loc")
            and isinstance(row.value.value, ast.Name) and m.bwd.get(row.value.value.id) == "df"
            and isinstance(row.slice, ast.Name) and m.bwd.get(row.slice.id) == "y_index"):
        raise Broken(f"extract.main: row selection outside grammar: {src(row)}")
    ctor = []
    for k, v in cap["KW_ctor"]:
        if not isinstance(v, ast.Name): raise Broken(f"extract.main: DataFrame argument outside grammar: {k}={src(v)}")
        ctor.append((k, m.bwd.get(v.id, v.id)))
    etostring = kwlist(cap["KW_tostring"], "extract.main: to_string")

    # ---- geotherm.fit_data
    fn = normalise(gfn["fit_data"], gimp)
    m = Matcher("geotherm.fit_data", FIT_DATA, fn, free_params=True)
    cap = m.run()
    def part(n):
        if isinstance(n, ast.Call) and not n.args and not n.keywords and isinstance(n.func, ast.Attribute) and n.func.attr == "to_numpy":
            v = n.func.value
            if isinstance(v, ast.Name) and m.bwd.get(v.id) == "df": return "values"
            if isinstance(v, ast.Attribute) and v.attr in ("index", "columns") and isinstance(v.value, ast.Name) and m.bwd.get(v.value.id) == "df":
                return v.attr
        raise Broken(f"geotherm.fit_data: array outside grammar: {src(n)}")
    local = {"x": part(cap["H_x"]), "y": part(cap["H_y"]), "z": part(cap["H_z"])}
    fit_args = []
    for h in ("H_a0", "H_a1", "H_a2"):
        a = cap[h]
        if not (isinstance(a, ast.Name) and m.bwd.get(a.id) in local):
            raise Broken(f"geotherm.fit_data: spline argument outside grammar: {src(a)}")
        fit_args.append(local[m.bwd[a.id]])
    fit_kw = kwlist(cap["KW_fit"], "geotherm.fit_data: RectBivariateSpline")

    # ---- geotherm.main
    fn = normalise(gfn["main"], gimp)
    m = Matcher("geotherm.main", GEOTHERM_MAIN, fn, free_params=False)
    cap = m.run()
    gparams = [a.arg for a in fn.args.args]
    for h in ("H_d1", "H_d2", "H_d3"):
        if not isinstance(cap[h], ast.Constant): raise Broken(f"geotherm.main: default outside grammar: {src(cap[h])}")
    gsep = const(cap["H_sep"], str, "geotherm.main: separator of variables.split")
    gread = kwlist(cap["KW_read"], "geotherm.main: read_table")
    call_args = []
    for h in ("H_c0", "H_c1"):
        a = cap[h]
        if not (isinstance(a, ast.Name) and a.id in gparams): raise Broken(f"geotherm.main: spline is evaluated at table[{src(a)}], not at a column named by an option")
        call_args.append(a.id)
    call_kw = kwlist(cap["KW_call"], "geotherm.main: spline call")
    gtostring = kwlist(cap["KW_tostring"], "geotherm.main: to_string")

    # ---- registrations (cij.py)
    alias, reg = {}, []
    for st in tc.body:
        if isinstance(st, ast.ImportFrom) and st.module and st.module.startswith("cij.cli."):
            for al in st.names:
                if al.name != "main": raise Broken(f"cij.py: imports `{al.name}` from {st.module}")
                alias[al.asname or al.name] = st.module
        elif isinstance(st, ast.Expr) and isinstance(st.value, ast.Call) and src(st.value.func) == "main.add_command":
            c = st.value
            if len(c.args) == 2 and not c.keywords and isinstance(c.args[0], ast.Name) and c.args[0].id in alias:
                reg.append((alias[c.args[0].id], const(c.args[1], str, "cij.py: command name")))
            else: raise Broken(f"cij.py: registration outside grammar: {src(st)[:80]}")
    if not reg: raise Broken("cij.py: no registrations found")

    q = T.lean_str
    b = lambda v: "true" if v else "false"
    pairs = lambda l: "[" + ", ".join(f"({q(k)}, {q(v)})" for k, v in l) + "]"
    strs = lambda l: "[" + ", ".join(q(x) for x in l) + "]"
    txt = ("-- GENERATED by tools/gens/extract_src.py from cij/cli/extract.py, cij/cli/geotherm.py, cij/cli/cij.py — do not edit\n"
           "import CijModel.ExtractSrc\nopen Cij.ExtractSrc\nnamespace Generated.ExtractSpec\n\n")
    txt += lean_load("loadExtract", "`load_data` of cij/cli/extract.py", loads["extract"])
    txt += lean_load("loadGeotherm", "`load_data` of cij/cli/geotherm.py", loads["geotherm"])
    txt += ("/-- `main` of cij/cli/extract.py -/\ndef extractMain : ExtractMainSpec :=\n"
            f"  {{ splitSep := {q(esep)}\n"
            "    branches := [" + ", ".join(f"{{ test := {q(t)}, yFrom := {q(y)}, transpose := {b(tr)} }}" for t, y, tr in arms) + "]\n"
            f"    hasElse := {b(has_else)}\n"
            f"    xArray := {q(xa.attr)}\n"
            f"    yIndex := {yidx}\n"
            f"    rowSel := {q(row.value.attr)}\n"
            f"    ctor := {pairs(ctor)}\n"
            f"    toStringKw := {pairs(etostring)} }}\n\n")
    txt += lean_opts("extractOptions", f"`@click.option`s of extract.main (command name below)", eopts)
    txt += f"def extractCommandName : String := {q(ecmd)}\n\n"
    txt += ("/-- `fit_data` of cij/cli/geotherm.py: `RectBivariateSpline(<args>, <kw>)` -/\ndef fitData : FitSpec :=\n"
            f"  {{ args := {strs(fit_args)}, kw := {pairs(fit_kw)} }}\n\n")
    txt += ("/-- `main` of cij/cli/geotherm.py -/\ndef geothermMain : GeothermMainSpec :=\n"
            f"  {{ splitSep := {q(gsep)}\n    readKw := {pairs(gread)}\n    callArgs := {strs(call_args)}\n"
            f"    callKw := {pairs(call_kw)}\n    toStringKw := {pairs(gtostring)} }}\n\n")
    txt += lean_opts("geothermOptions", "`@click.option`s of geotherm.main", gopts)
    txt += f"def geothermCommandName : String := {q(gcmd)}\n\n"
    rows = lambda l: "[" + ",\n   ".join("(" + ", ".join(q(x) for x in r) + ")" for r in l) + "]"
    txt += ("/-- every parameter default of every function / lambda of the two modules: (module, function, parameter, AST kind, text) -/\n"
            f"def signatureDefaults : List DefaultRow :=\n  {rows(edefaults + gdefaults)}\n\n")
    txt += ("/-- module-level statements by kind, in source order -/\n"
            f"def extractModuleStmts : List String := {strs(ekinds)}\n"
            f"def geothermModuleStmts : List String := {strs(gkinds)}\n\n")
    txt += ("/-- decorator callees per function (all arguments are constants / click types: checked by the translator) -/\n"
            "def decorators : List (String × List String) :=\n  ["
            + ", ".join(f"({q(mod + '.' + name)}, {strs([src(d.func) if isinstance(d, ast.Call) else src(d) for d in ds])})" for (mod, name), ds in sorted(decos.items())) + "]\n\n")
    txt += ("/-- `cij.py`: (module whose `main` is registered, command name), in source order -/\n"
            f"def registrations : List (String × String) :=\n  {pairs(reg)}\n\n")
    txt += ("/-- the remaining statements of the five functions (loop structure, `df = load_data(var)`, `data = {}`,\n"
            "`table[var] = data[var]`, `print(table.to_string(...))`, `return df`, …) were compared with the canonical patterns\n"
            "up to renaming of locals -/\ndef canonical : Bool := true\n\nend Generated.ExtractSpec\n")
    return {"ExtractSpec.lean": txt}, [pe, pg, pc]


GENERATORS = {"gen_extract_spec": (gen_extract_spec, ["ExtractSpec.lean"])}
