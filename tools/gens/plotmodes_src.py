"""Translator plug-in: `ModePlotter.plot_modes` of cij/plot/modes.py (C11: "the diagnostic plot draws ω, γ, V∂γ/∂V for n = 0, 1, 2").

Extracted as data: the selection chain `if n == <k>: w_arrays = self.calculator.<attr>[<idx>]?[:, iq, :]` (k, attribute, optional list index),
the Γ-acoustic skip of the curve loop (`if iq == 0 and k < 3: continue`), the loop range (`self.calculator.np`), which column of
`w_arrays` is drawn against which abscissa, the early return (`if n != 0: return`) before the scatter of the input frequencies, and
the scatter's data selector (`volume.q_points[iq].modes[k]` for every volume).  Everything else of the method is pinned on the
normalised AST.
"""
import ast, os, re
import gen_tables as T


def gen_plotmodes():
    path = os.path.join(T.REPO, "cij/plot/modes.py")
    tree = ast.parse(open(path, encoding="utf8").read())
    cls = next((c for c in tree.body if isinstance(c, ast.ClassDef) and c.name == "ModePlotter"), None)
    if cls is None: raise T.TieBroken("ModePlotter not found")
    fn = next((f for f in cls.body if isinstance(f, ast.FunctionDef) and f.name == "plot_modes"), None)
    if fn is None: raise T.TieBroken("ModePlotter.plot_modes not found")
    params = [a.arg for a in fn.args.args]
    if params != ["self", "ax", "n", "iq"]: raise T.TieBroken(f"plot_modes signature changed: {params}")
    defaults = [ast.literal_eval(d) for d in fn.args.defaults]
    body = [st for st in fn.body if not (isinstance(st, ast.Expr) and isinstance(st.value, ast.Constant))]
    if not body or not isinstance(body[0], ast.If): raise T.TieBroken("plot_modes does not start with the selection chain")
    # --- selection chain
    sel = []
    node = body[0]
    while True:
        t = node.test
        if not (isinstance(t, ast.Compare) and ast.unparse(t.left) == "n" and len(t.ops) == 1 and isinstance(t.ops[0], ast.Eq)
                and isinstance(t.comparators[0], ast.Constant) and isinstance(t.comparators[0].value, int)):
            raise T.TieBroken(f"plot_modes: selection test outside grammar: {ast.unparse(t)}")
        if len(node.body) != 1 or not isinstance(node.body[0], ast.Assign) or ast.unparse(node.body[0].targets[0]) != "w_arrays":
            raise T.TieBroken("plot_modes: a selection branch is not a single assignment to w_arrays")
        m = re.fullmatch(r"self\.calculator\.(\w+)(?:\[(\d+)\])?\[:, iq, :\]", ast.unparse(node.body[0].value))
        if not m: raise T.TieBroken(f"plot_modes: selected array outside grammar: {ast.unparse(node.body[0].value)}")
        sel.append((t.comparators[0].value, m.group(1), m.group(2)))
        if len(node.orelse) == 1 and isinstance(node.orelse[0], ast.If):
            node = node.orelse[0]
        elif not node.orelse:
            break
        else:
            raise T.TieBroken("plot_modes: the selection chain has an else branch")
    rest = [" ".join(ast.unparse(st).split()) for st in body[1:]]
    want = ["for k in range(self.calculator.np): if iq == 0 and k < 3: continue w_array = w_arrays[:, k] ax.plot(self.v_array, w_array)",
            "if n != 0: return",
            "for k in range(self.calculator.np): if iq == 0 and k < 3: continue freqs = numpy.array([volume.q_points[iq].modes[k] for volume in self.qha_input.volumes]) ax.scatter(self.volumes, freqs, s=10)"]
    if rest != want:
        bad = next((i for i, (a, b) in enumerate(zip(rest, want)) if a != b), min(len(rest), len(want)))
        raise T.TieBroken(f"plot_modes: statement {bad + 2} changed: {(rest[bad] if bad < len(rest) else '<missing>')[:120]}")
    # --- the command `cij modes` (cij/cli/modes.py): option -> parameter, and the call that hands them to plot_modes
    cpath = os.path.join(T.REPO, "cij/cli/modes.py")
    ctree = ast.parse(open(cpath, encoding="utf8").read())
    cmain = next((f for f in ctree.body if isinstance(f, ast.FunctionDef) and f.name == "main"), None)
    if cmain is None: raise T.TieBroken("cij/cli/modes.py: main not found")
    opts = []
    for dec in cmain.decorator_list:
        if isinstance(dec, ast.Call) and ast.unparse(dec.func) == "click.option":
            names = [a.value for a in dec.args if isinstance(a, ast.Constant) and isinstance(a.value, str)]
            longs = [x for x in names if x.startswith("--")]
            param = (longs[0][2:] if longs else names[0].lstrip("-")).replace("-", "_")
            kw = {k.arg: ast.unparse(k.value) for k in dec.keywords}
            opts.append((param, ",".join(names), kw.get("type", ""), kw.get("default", "")))
    calls = [n for n in ast.walk(cmain) if isinstance(n, ast.Call) and ast.unparse(n.func).endswith(".plot_modes")]
    if len(calls) != 1: raise T.TieBroken(f"cij/cli/modes.py: {len(calls)} calls of plot_modes")
    if calls[0].keywords: call_args = [ast.unparse(a) for a in calls[0].args] + [f"{k.arg}={ast.unparse(k.value)}" for k in calls[0].keywords]
    else: call_args = [ast.unparse(a) for a in calls[0].args]
    recv = ast.unparse(calls[0].func)[:-len(".plot_modes")]
    made = [st for st in ast.walk(cmain) if isinstance(st, ast.Assign) and ast.unparse(st.targets[0]) == recv]
    if len(made) != 1 or " ".join(ast.unparse(made[0].value).split()) != "ModePlotter(calculator)":
        raise T.TieBroken("cij/cli/modes.py: the plotter is not ModePlotter(calculator)")
    def row(k, attr, idx):
        return f'({k}, "{attr}", {"none" if idx is None else "some " + idx})'
    txt = ("-- GENERATED by tools/gens/plotmodes_src.py from cij/plot/modes.py — do not edit\nnamespace Generated.PlotModes\n\n"
           "/-- the selection chain of `plot_modes`: (n, attribute of the calculator, optional index into that list); no else branch -/\n"
           "def selection : List (Int × String × Option Nat) := [" + ", ".join(row(*r) for r in sel) + "]\n\n"
           f"/-- defaults of `n` and `iq` -/\ndef defaults : List Int := {defaults}\n\n"
           "/-- curve loop: every mode k of `range(calculator.np)` except `iq == 0 and k < 3` is drawn as `w_arrays[:, k]` against `self.v_array`;\n"
           "for n ≠ 0 the method returns before the scatter of the input frequencies (compared on the normalised AST) -/\n"
           "def gammaSkip : Nat := 3\ndef loopsCanonical : Bool := true\n\n"
           "/-- parameters of `plot_modes` after `self` -/\n"
           "def plotParams : List String := [" + ", ".join(T.lean_str(x) for x in params[1:]) + "]\n\n"
           "/-- `cij modes` (cij/cli/modes.py): click options as (parameter, declarations, type, default) and the arguments of its one\n"
           "`ModePlotter(calculator).plot_modes(…)` call, in order -/\n"
           "def cliOptions : List (String × String × String × String) := [" + ", ".join("(" + ", ".join(T.lean_str(x) for x in o) + ")" for o in opts) + "]\n"
           "def cliCallArgs : List String := [" + ", ".join(T.lean_str(x) for x in call_args) + "]\n\nend Generated.PlotModes\n")
    return {"PlotModesSpec.lean": txt}, [path, cpath]


GENERATORS = {"gen_plotmodes": (gen_plotmodes, ["PlotModesSpec.lean"])}
